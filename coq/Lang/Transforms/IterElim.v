(* Model of fpy2/transform/iter_elim.py, zip_elim.py, enumerate_elim.py and of
   strategies/iter_elim.py elim_iter.  Definitions only.

   for a, b in zip(xs, ys): BODY  ~~>  s0 = xs; s1 = ys; for i in range(len(s0)): a = s0[i]; b = s1[i]; BODY
   for i, x in enumerate(xs): BODY ~~> s0 = xs; for i in range(len(s0)): x = s0[i]; BODY
   [elt for a, b in zip(xs, ys)]   ~~>  [elt[a := xs[i], b := ys[i]] for i in range(len(xs))]   (access paths only)
   and the enumerate(zip(...)) / whole-tuple / discarded-slot variants. *)
From Coq Require Import ZArith List Bool String.
From FpyV Require Import Num.RealFloat Num.Float Num.CtxDef Lang.Syntax Lang.Values Lang.Transforms.Common.
Import ListNotations.
Open Scope list_scope.
Open Scope Z_scope.

(* iter_elim.Plan *)
Record plan := Plan { pl_args : list expr; pl_slots : list pat; pl_tupled : bool }.

Definition plan_for_zip (args : list expr) (slot : pat) : option plan :=
  match args with
  | [] => None
  | _ =>
      match slot with
      | PTuple elts =>
          if Nat.eqb (List.length elts) (List.length args) then Some (Plan args elts false) else None
      | _ => Some (Plan args [slot] true)
      end
  end.

Fixpoint is_access_path (e : expr) : bool :=
  match e with
  | EVar _ => true
  | EFst a | ESnd a => is_access_path a
  | ERef v i => is_access_path v && is_access_path i
  | ENum f => fl_is_integer f        (* an Integer literal (a constant index) *)
  | _ => false
  end.

Fixpoint comp_binding_is_pairs (p : pat) : bool :=
  match p with
  | PTuple [a; b] => comp_binding_is_pairs a && comp_binding_is_pairs b
  | PTuple _ => false
  | _ => true
  end.

(* destructure_subst: later entries override earlier ones (a dict); lookups take the first match *)
Definition subst := list (ident * expr).

Fixpoint destructure_subst (p : pat) (access : expr) (sb : subst) : subst :=
  match p with
  | PVar x => (x, access) :: sb
  | PWild => sb
  | PTuple [h; t] => destructure_subst t (ESnd access) (destructure_subst h (EFst access) sb)
  | PTuple _ => sb
  end.

Definition subst_get (sb : subst) (x : ident) : option expr :=
  match find (fun p => String.eqb x (fst p)) sb with Some p => Some (snd p) | None => None end.

Definition subst_remove (sb : subst) (xs : list ident) : subst :=
  filter (fun p => negb (mem (fst p) xs)) sb.

Fixpoint pat_vars (p : pat) : list ident :=
  match p with PVar x => [x] | PWild => [] | PTuple ps => flat_map pat_vars ps end.

(* SubstNames: a comprehension whose targets shadow a name disables it inside that comprehension *)
Fixpoint subst_expr (sb : subst) (e : expr) : expr :=
  match e with
  | EVar x => match subst_get sb x with Some r => r | None => e end
  | EComp gens elt =>
      let sb' := subst_remove sb (flat_map (fun g => pat_vars (fst g)) gens) in
      EComp (map (fun g => (fst g, subst_expr sb' (snd g))) gens) (subst_expr sb' elt)
  | _ => emap (subst_expr sb) e
  end.

(* ------------------------------------------------------------------ the two passes *)
Inductive pass := PZip | PEnum.

Record ie_st := IeSt { ie_ctr : nat }.

Definition ie_fresh (L : nat) (s : ie_st) : ident * ie_st := (gen_name L (ie_ctr s), IeSt (S (ie_ctr s))).

Fixpoint ie_freshes (L : nat) (n : nat) (s : ie_st) : list ident * ie_st :=
  match n with
  | O => ([], s)
  | S n' => let '(x, s1) := ie_fresh L s in let '(xs, s2) := ie_freshes L n' s1 in (x :: xs, s2)
  end.

(* what the pass matches: Some (index slot or None, plan) *)
Definition ie_match (ps : pass) (target : pat) (iterable : expr) : option (option pat * plan) :=
  match ps, iterable with
  | PZip, EZip args =>
      match plan_for_zip args target with Some pl => Some (None, pl) | None => None end
  | PEnum, EEnumerate src =>
      match target with
      | PTuple [idx; elt] =>
          match idx with
          | PVar _ | PWild =>
              let pl := match src with
                        | EZip args => match plan_for_zip args elt with Some pl => pl | None => Plan [src] [elt] false end
                        | _ => Plan [src] [elt] false
                        end in
              Some (Some idx, pl)
          | PTuple _ => None
          end
      | _ => None
      end
  | _, _ => None
  end.

(* the counter: a named index slot IS the counter; otherwise a fresh name *)
Definition ie_index (L : nat) (idx : option pat) (s : ie_st) : ident * ie_st :=
  match idx with
  | Some (PVar x) => (x, s)
  | _ => ie_fresh L s
  end.

Definition ie_per_iter (pl : plan) (srcs : list ident) (idx : ident) : list stmt :=
  let groups := if pl_tupled pl then [srcs] else map (fun s => [s]) srcs in
  flat_map (fun sg =>
      match fst sg with
      | PWild => []
      | slot =>
          let refs := map (fun s => ERef (EVar s) (EVar idx)) (snd sg) in
          [SAssign slot (if pl_tupled pl then ETuple refs else hd (EBool false) refs)]
      end) (combine (pl_slots pl) groups).

(* _rewrite_for: (preamble, the loop) *)
Definition ie_rewrite_for (L : nat) (idx_slot : option pat) (pl : plan) (body : block) (s : ie_st)
    : list stmt * ie_st :=
  let '(srcs, s1) := ie_freshes L (List.length (pl_args pl)) s in
  let '(idx, s2) := ie_index L idx_slot s1 in
  (map (fun sa => SAssign (PVar (fst sa)) (snd sa)) (combine srcs (pl_args pl)) ++
   [SFor (PVar idx) (ERange1 (ELen (EVar (hd EmptyString srcs)))) (ie_per_iter pl srcs idx ++ body)], s2).

(* _rewrite_comp_stage on an already visited / substituted iterable *)
Definition ie_comp_stage (L : nat) (ps : pass) (target : pat) (iterable : expr) (sb : subst) (s : ie_st)
    : option (pat * expr * subst) * ie_st :=
  match ie_match ps target iterable with
  | None => (None, s)
  | Some (idx_slot, pl) =>
      if negb (forallb is_access_path (pl_args pl)) then (None, s)
      else
        let '(idx, s1) := ie_index L idx_slot s in
        let bound := ERange1 (ELen (hd (EBool false) (pl_args pl))) in
        if pl_tupled pl then
          let sb' := match pl_slots pl with
                     | [PVar x] => (x, ETuple (map (fun a => ERef a (EVar idx)) (pl_args pl))) :: sb
                     | _ => sb
                     end in
          (Some (PVar idx, bound, sb'), s1)
        else if negb (forallb comp_binding_is_pairs (pl_slots pl)) then (None, s1)
        else
          let sb' := fold_left (fun acc sa => destructure_subst (fst sa) (ERef (snd sa) (EVar idx)) acc)
                               (combine (pl_slots pl) (pl_args pl)) sb in
          (Some (PVar idx, bound, sb'), s1)
  end.

Fixpoint ie_expr (L : nat) (ps : pass) (e : expr) (s : ie_st) {struct e} : expr * ie_st :=
  match e with
  | EComp gens elt =>
      let '(gens', sb, s1) :=
        (fix go (gs : list (pat * expr)) (sb : subst) (s : ie_st) : list (pat * expr) * subst * ie_st :=
           match gs with
           | [] => ([], sb, s)
           | g :: r =>
               let '(it1, s1) := ie_expr L ps (snd g) s in
               let it2 := match sb with [] => it1 | _ => subst_expr sb it1 end in
               let '(rw, s2) := ie_comp_stage L ps (fst g) it2 sb s1 in
               match rw with
               | None => let '(r', sb', s3) := go r sb s2 in ((fst g, it2) :: r', sb', s3)
               | Some (t', it', sb1) => let '(r', sb', s3) := go r sb1 s2 in ((t', it') :: r', sb', s3)
               end
           end) gens [] s in
      let '(elt1, s2) := ie_expr L ps elt s1 in
      (EComp gens' (match sb with [] => elt1 | _ => subst_expr sb elt1 end), s2)
  | _ => emapM (ie_expr L ps) e s
  end.

(* PROPOSED REPAIR (fixes/C08-iter-elim-live-source.diff): a loop whose body may write to a source list
   -- it contains an indexed assignment, or a call with an argument that mentions a name of the iterable --
   is left alone *)
Fixpoint tree_hazard (sources : list ident) (t : tree) : bool :=
  match t with
  | T g _ _ kids =>
      String.eqb g "iassign"
      || ((String.eqb g "call" || String.eqb g "ctor") && existsb (fun x => mem x sources) (flat_map tree_names kids))
      || existsb (tree_hazard sources) kids
  end.

Definition body_may_write_source (it : expr) (b : block) : bool :=
  existsb (fun st => tree_hazard (expr_names it) (tree_of_stmt st)) b.

Fixpoint ie_stmt (fx : bool) (L : nat) (ps : pass) (st : stmt) (s : ie_st) {struct st} : list stmt * ie_st :=
  match st with
  | SFor p it b =>
      match (if fx && body_may_write_source it b then None else ie_match ps p it) with
      | Some (idx_slot, pl) =>
          let '(b', s1) := bmapM (ie_stmt fx L ps) b s in
          ie_rewrite_for L idx_slot pl b' s1
      | None =>
          let '(it', s1) := ie_expr L ps it s in
          let '(b', s2) := bmapM (ie_stmt fx L ps) b s1 in
          ([SFor p it' b'], s2)
      end
  | SAssign p e => let '(e', s1) := ie_expr L ps e s in ([SAssign p e'], s1)
  | SIndexAssign x idx e =>
      let '(idx', s1) := listM (ie_expr L ps) idx s in
      let '(e', s2) := ie_expr L ps e s1 in ([SIndexAssign x idx' e'], s2)
  | SIf1 c b =>
      let '(c', s1) := ie_expr L ps c s in
      let '(b', s2) := bmapM (ie_stmt fx L ps) b s1 in ([SIf1 c' b'], s2)
  | SIf c t f =>
      let '(c', s1) := ie_expr L ps c s in
      let '(t', s2) := bmapM (ie_stmt fx L ps) t s1 in
      let '(f', s3) := bmapM (ie_stmt fx L ps) f s2 in ([SIf c' t' f'], s3)
  | SWhile c b =>
      let '(c', s1) := ie_expr L ps c s in
      let '(b', s2) := bmapM (ie_stmt fx L ps) b s1 in ([SWhile c' b'], s2)
  | SContext x e b =>
      let '(e', s1) := ie_expr L ps e s in
      let '(b', s2) := bmapM (ie_stmt fx L ps) b s1 in ([SContext x e' b'], s2)
  | SAssert e => let '(e', s1) := ie_expr L ps e s in ([SAssert e'], s1)
  | SEffect e => let '(e', s1) := ie_expr L ps e s in ([SEffect e'], s1)
  | SReturn e => let '(e', s1) := ie_expr L ps e s in ([SReturn e'], s1)
  | SPass => ([SPass], s)
  end.

Definition ie_pass (fx : bool) (ps : pass) (fn : func) : func :=
  set_body fn (fst (bmapM (ie_stmt fx (max_len (func_names fn)) ps) (f_body fn) (IeSt O))).

Definition enumerate_elim := ie_pass false PEnum.
Definition zip_elim := ie_pass false PZip.

(* elim_iter(f, enable_enumerate, enable_zip): EnumerateElim first, then ZipElim *)
Definition elim_iter_gen (fx : bool) (en_enum en_zip : bool) (fn : func) : func :=
  let f1 := if en_enum then ie_pass fx PEnum fn else fn in
  if en_zip then ie_pass fx PZip f1 else f1.

Definition elim_iter := elim_iter_gen false.         (* as coded *)
Definition elim_iter_fixed := elim_iter_gen true.    (* with the proposed repair *)
