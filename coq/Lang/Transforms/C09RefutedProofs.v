(* (C09) The faithful models REFUTE the property outside the proved fragments:
   concrete programs and inputs (Lang/Transforms/C09Witness.v) on which the
   original returns and the transformed function returns something else, under
   the executable number instance prov_numops.  Each is reproduced on the real
   fpy2 by harness/props/c09.py (known findings). *)
From Coq Require Import ZArith List Bool String.
From FpyV Require Import Num.RealFloat Num.Float Num.CtxDef Lang.Syntax Lang.Values Lang.Sem Lang.NumInst.
From FpyV Require Import Lang.Transforms.Rename Lang.Transforms.Inline Lang.Transforms.LiftCtx
                         Lang.Transforms.C09Witness.
Import ListNotations.
Open Scope string_scope.
Open Scope list_scope.

(* a call is hoisted above an operand that is evaluated before it and that reads what the
   callee mutates: `xs[0] + bump(xs, x)` *)
Lemma inline_hoist_refuted : exists P f fn fn' args v v',
  lookup_fn P f = Some fn /\ inline P 5 true None fn = Some fn' /\
  run prov_numops P 100 f args None = ROk v /\
  run prov_numops (P ++ [("inlined", fn')]) 100 "inlined" args None = ROk v' /\
  cval_eqb v v' = false.
Proof.
  exists P_f1, "f1", (fn_of P_f1 "f1").
  destruct (inline P_f1 5 true None (fn_of P_f1 "f1")) as [fn'|] eqn:E; [|vm_compute in E; discriminate].
  exists fn', w_args_f1.
  exists (CNum (NF (FFin (RF false 0 9)))), (CNum (NF (FFin (RF false 0 12)))).
  split; [reflexivity|]. split; [reflexivity|].
  vm_compute in E. inversion E; subst fn'. clear E.
  split; [vm_compute; reflexivity|]. split; [vm_compute; reflexivity|]. vm_compute. reflexivity.
Qed.

(* a call is hoisted out of a conditionally evaluated position: `x > 0 and chk(x) > 1` *)
Lemma inline_cond_refuted : exists P f fn fn' args v,
  lookup_fn P f = Some fn /\ inline P 5 true None fn = Some fn' /\
  run prov_numops P 100 f args None = ROk v /\
  run prov_numops (P ++ [("inlined", fn')]) 100 "inlined" args None = RErr AssertErr.
Proof.
  exists P_sc, "sc", (fn_of P_sc "sc").
  destruct (inline P_sc 5 true None (fn_of P_sc "sc")) as [fn'|] eqn:E; [|vm_compute in E; discriminate].
  exists fn', w_args_sc, (CBool false).
  split; [reflexivity|]. split; [reflexivity|].
  vm_compute in E. inversion E; subst fn'. clear E.
  split; vm_compute; reflexivity.
Qed.

(* the `as cc` target of a `with` in the callee is not renamed and overwrites the caller's `cc` *)
Lemma inline_with_target_refuted : exists P f fn fn' args v v',
  lookup_fn P f = Some fn /\ inline P 5 true None fn = Some fn' /\
  run prov_numops P 100 f args None = ROk v /\
  run prov_numops (P ++ [("inlined", fn')]) 100 "inlined" args None = ROk v' /\
  cval_eqb v v' = false.
Proof.
  exists P_callerx, "callerx", (fn_of P_callerx "callerx").
  destruct (inline P_callerx 5 true None (fn_of P_callerx "callerx")) as [fn'|] eqn:E; [|vm_compute in E; discriminate].
  exists fn', w_args_callerx.
  eexists. eexists.
  split; [reflexivity|]. split; [reflexivity|].
  vm_compute in E. inversion E; subst fn'. clear E.
  split; [vm_compute; reflexivity|]. split; [vm_compute; reflexivity|]. vm_compute. reflexivity.
Qed.

(* a constructor with computed arguments, lifted from a `with` header (evaluated under REAL
   there: precision 15) to the top of a function whose context has precision 2 (3 * 5 = 16) *)
Lemma lift_computed_refuted : exists P f fn fn' args v v',
  lookup_fn P f = Some fn /\ lift_ctx prov_numops fn = Some fn' /\
  run prov_numops P 100 f args None = ROk v /\
  run prov_numops (P ++ [("lifted", fn')]) 100 "lifted" args None = ROk v' /\
  cval_eqb v v' = false.
Proof.
  exists P_l3, "l3", (fn_of P_l3 "l3").
  destruct (lift_ctx prov_numops (fn_of P_l3 "l3")) as [fn'|] eqn:E; [|vm_compute in E; discriminate].
  exists fn', w_args_l3.
  eexists. eexists.
  split; [reflexivity|]. split; [reflexivity|].
  vm_compute in E. inversion E; subst fn'. clear E.
  split; [vm_compute; reflexivity|]. split; [vm_compute; reflexivity|]. vm_compute. reflexivity.
Qed.

(* ---------------------------------------------------------------- the hypotheses of the soundness theorems are satisfiable *)
From FpyV Require Import Lang.Transforms.Mono.

Example inline_sound_applies :
  prog_ok P_ok1 = true /\ lookup_fn P_ok1 "ok1" = Some (fn_of P_ok1 "ok1") /\ lookup_fn P_ok1 "inlined" = None /\
  (exists fn', inline P_ok1 5 true None (fn_of P_ok1 "ok1") = Some fn') /\
  (exists fn', inline P_ok1 5 false (Some 1%nat) (fn_of P_ok1 "ok1") = Some fn') /\
  (exists v, run prov_numops P_ok1 100 "ok1" w_args_ok1 None = ROk v).
Proof.
  split; [vm_compute; reflexivity|]. split; [reflexivity|]. split; [reflexivity|].
  split; [|split].
  - destruct (inline P_ok1 5 true None (fn_of P_ok1 "ok1")) eqn:E; [eauto|vm_compute in E; discriminate].
  - destruct (inline P_ok1 5 false (Some 1%nat) (fn_of P_ok1 "ok1")) eqn:E; [eauto|vm_compute in E; discriminate].
  - eexists. vm_compute. reflexivity.
Qed.

Example lift_ctx_sound_applies :
  (exists fn', lift_ctx_lit prov_numops (fn_of P_lf "lf") = Some fn') /\
  (exists v, run prov_numops P_lf 100 "lf" w_args_lf None = ROk v).
Proof.
  split.
  - destruct (lift_ctx_lit prov_numops (fn_of P_lf "lf")) eqn:E; [eauto|vm_compute in E; discriminate].
  - eexists. vm_compute. reflexivity.
Qed.

Example mono_sound_applies :
  (exists fn', mono (CMPFloat 3 RNE (Some 0%Z) sp_default) (fn_of P_ok1 "ok1") = Some fn') /\
  (exists v, run prov_numops P_ok1 100 "ok1" w_args_ok1 (Some (CMPFloat 3 RNE (Some 0%Z) sp_default)) = ROk v).
Proof. split; [eexists; reflexivity|eexists; vm_compute; reflexivity]. Qed.

Example close_sound_applies :
  (exists cvs, cap_values w_caps = Some cvs /\
     exists r, call prov_numops [] 100 (with_caps w_caps w_fn_caps) (cvs ++ [VNum w_three]) [] FP64 = ROk r) /\
  NoDup (map fst w_caps) /\ NoDup (f_params w_fn_caps).
Proof.
  split.
  - eexists. split; [reflexivity|]. eexists. vm_compute. reflexivity.
  - split; repeat constructor; cbn; intuition discriminate.
Qed.
