(* while_unroll_sound: k-fold unrolling of any selection of `while` loops of a
   function (nested loops, early returns, calls, any body) preserves `run`,
   for every number instance.  Proofs. *)
From Coq Require Import ZArith List Bool String Lia.
From FpyV Require Import Num.RealFloat Num.Float Num.CtxDef Lang.Syntax Lang.Values Lang.Sem Lang.SemMono
  Lang.Transforms.Common Lang.Transforms.WhileUnroll Lang.Transforms.SimProofs.
Import ListNotations.
Open Scope list_scope.

(* ---------------------------------------------------------------- the syntactic relation *)
(* st' is st with some `while` loops (at any depth) unrolled some number of times *)
Inductive wrel : stmt -> stmt -> Prop :=
  | wr_cong : forall st st', scong wbrel st st' -> wrel st st'
  | wr_unroll : forall k c b b', wbrel b b' -> wrel (SWhile c b) (unroll_while_stmt k c b')
with wbrel : block -> block -> Prop :=
  | wb_nil : wbrel [] []
  | wb_cons : forall st st' r r', wrel st st' -> wbrel r r' -> wbrel (st :: r) (st' :: r').

Definition wfrel (fn fn' : func) : Prop :=
  f_params fn' = f_params fn /\ f_ctx fn' = f_ctx fn /\ wbrel (f_body fn) (f_body fn').

Lemma wbrel_nil_inv : forall b', wbrel [] b' -> b' = [].
Proof. intros b' H. inversion H. reflexivity. Qed.

Lemma wbrel_cons_inv : forall st r b', wbrel (st :: r) b' ->
  exists st' r', b' = st' :: r' /\ wrel st st' /\ wbrel r r'.
Proof. intros st r b' H. inversion H; subst. eauto. Qed.

Lemma wbrel_length : forall b b', wbrel b b' -> List.length b' = List.length b.
Proof. induction b as [|st r IH]; intros b' H; inversion H; subst; cbn; auto. Qed.

Lemma wbrel_app : forall b1 b1' b2 b2', wbrel b1 b1' -> wbrel b2 b2' -> wbrel (b1 ++ b2) (b1' ++ b2').
Proof. induction b1 as [|st r IH]; intros b1' b2 b2' H1 H2; inversion H1; subst; cbn; auto. constructor; auto. Qed.

Lemma wbrel_of_Forall : forall b, Forall (fun st => wrel st st) b -> wbrel b b.
Proof. induction 1; constructor; auto. Qed.

Lemma wrel_refl : forall st, wrel st st.
Proof.
  apply stmt_ind2; intros; apply wr_cong; constructor; apply wbrel_of_Forall; assumption.
Qed.

Lemma wbrel_refl : forall b, wbrel b b.
Proof. intro b. apply wbrel_of_Forall. apply block_ind2; intros; apply wrel_refl. Qed.

(* ---------------------------------------------------------------- the model produces related syntax *)
Definition wu_ok (w : sel) (times : nat) (st : stmt) : Prop :=
  forall inside idx, exists st', fst (wu_stmt w times inside st idx) = [st'] /\ wrel st st'.

Lemma wu_block_of_Forall : forall w times b, Forall (wu_ok w times) b ->
  forall inside idx, wbrel b (fst (bmapM (wu_stmt w times inside) b idx)).
Proof.
  induction 1 as [|st r Hs Hr IH]; intros inside idx; cbn [bmapM].
  - constructor.
  - destruct (Hs inside idx) as (st' & E & Hrel).
    destruct (wu_stmt w times inside st idx) as [ss i1]. cbn [fst] in E. subst ss.
    pose proof (IH inside i1) as Hrr.
    destruct (bmapM (wu_stmt w times inside) r i1) as [rr i2]. cbn [fst app] in *.
    constructor; assumption.
Qed.

Lemma wu_stmt_rel : forall w times st, wu_ok w times st.
Proof.
  intros w times. apply stmt_ind2; unfold wu_ok; intros; cbn [wu_stmt];
    try (eexists; split; [reflexivity | apply wrel_refl]).
  - pose proof (wu_block_of_Forall w times b H inside idx) as Hb.
    destruct (bmapM (wu_stmt w times inside) b idx) as [b' i]. cbn [fst] in *.
    eexists; split; [reflexivity|]. apply wr_cong. constructor. exact Hb.
  - pose proof (wu_block_of_Forall w times t H inside idx) as Ht.
    destruct (bmapM (wu_stmt w times inside) t idx) as [t' i1]. cbn [fst] in *.
    pose proof (wu_block_of_Forall w times f H0 inside i1) as Hf.
    destruct (bmapM (wu_stmt w times inside) f i1) as [f' i2]. cbn [fst] in *.
    eexists; split; [reflexivity|]. apply wr_cong. constructor; assumption.
  - pose proof (wu_block_of_Forall w times b H (enters w inside idx) (S idx)) as Hb.
    destruct (bmapM (wu_stmt w times (enters w inside idx)) b (S idx)) as [b' i]. cbn [fst] in *.
    destruct (selected w inside idx); cbn [fst].
    + eexists; split; [reflexivity|]. apply wr_unroll. exact Hb.
    + eexists; split; [reflexivity|]. apply wr_cong. constructor. exact Hb.
  - pose proof (wu_block_of_Forall w times b H inside idx) as Hb.
    destruct (bmapM (wu_stmt w times inside) b idx) as [b' i]. cbn [fst] in *.
    eexists; split; [reflexivity|]. apply wr_cong. constructor. exact Hb.
  - pose proof (wu_block_of_Forall w times b H inside idx) as Hb.
    destruct (bmapM (wu_stmt w times inside) b idx) as [b' i]. cbn [fst] in *.
    eexists; split; [reflexivity|]. apply wr_cong. constructor. exact Hb.
Qed.

Lemma wu_block_rel : forall w times b inside idx,
  wbrel b (fst (bmapM (wu_stmt w times inside) b idx)).
Proof.
  intros. apply wu_block_of_Forall. apply block_ind2; intros; apply wu_stmt_rel.
Qed.

Lemma while_unroll_wfrel : forall w times fn, wfrel fn (while_unroll w times fn).
Proof.
  intros. unfold wfrel, while_unroll, set_body, wu_block. cbn [f_params f_ctx f_body].
  repeat split. apply wu_block_rel.
Qed.

(* ---------------------------------------------------------------- blocks: length and append *)
Section WithNum.
Variable N : numops.

Lemma exec_block_normal_length : forall P b n s mu C s' mu',
  exec_block N P n s mu C b = ROk (ONormal s', mu') -> (List.length b < n)%nat.
Proof.
  induction b as [|st rest IH]; intros n s mu C s' mu' H; destruct n as [|n]; try discriminate.
  - cbn; lia.
  - rewrite exec_block_S in H. unfold exec_block_body in H.
    destruct (exec N P n s mu C st) as [[o mu1]| |]; cbn [rbind] in H; try discriminate.
    destruct o as [s1|v]; [|discriminate].
    apply IH in H. cbn [List.length]. lia.
Qed.

(* an early return inside a prefix returns from the whole block, at the same fuel *)
Lemma exec_block_app_return : forall P b1 b2 n s mu C v mu',
  exec_block N P n s mu C b1 = ROk (OReturn v, mu') -> exec_block N P n s mu C (b1 ++ b2) = ROk (OReturn v, mu').
Proof.
  induction b1 as [|st rest IH]; intros b2 n s mu C v mu' H; destruct n as [|n]; try discriminate.
  rewrite exec_block_S in H. cbn [app]. rewrite exec_block_S. unfold exec_block_body in *.
  destruct (exec N P n s mu C st) as [[o mu1]| |]; cbn [rbind] in *; try discriminate.
  destruct o as [s1|v1]; [|exact H]. apply IH. exact H.
Qed.

(* a prefix that completes normally, followed by a block that runs with fuel m2 *)
Lemma exec_block_app_normal : forall P b1 b2 m2 s mu C s' mu' r,
  exec_block N P (m2 + List.length b1) s mu C b1 = ROk (ONormal s', mu') ->
  exec_block N P m2 s' mu' C b2 = ROk r ->
  exec_block N P (m2 + List.length b1) s mu C (b1 ++ b2) = ROk r.
Proof.
  induction b1 as [|st rest IH]; intros b2 m2 s mu C s' mu' r H1 H2.
  - cbn [List.length app] in *. rewrite Nat.add_0_r in *.
    destruct m2 as [|m2]; [discriminate|]. rewrite exec_block_S in H1. cbn in H1. inversion H1; subst. exact H2.
  - cbn [List.length app] in *. rewrite Nat.add_succ_r in *.
    rewrite exec_block_S in *. unfold exec_block_body in *.
    destruct (exec N P (m2 + List.length rest) s mu C st) as [[o mu1]| |]; cbn [rbind] in *; try discriminate.
    destruct o as [s1|v1]; [|discriminate]. eapply IH; eauto.
Qed.

(* ---------------------------------------------------------------- the simulation *)
Variables P1 P2 : program.
Hypothesis Hprog : forall f,
  match lookup_fn P1 f, lookup_fn P2 f with
  | Some a, Some b => wfrel a b
  | None, None => True
  | _, _ => False
  end.

(* every judgement of P1 at fuel n is refined by the judgement of P2 at fuel m on related syntax *)
Definition sim_at (n m : nat) : Prop :=
  (forall s mu C e, ok_le (eval N P1 n s mu C e) (eval N P2 m s mu C e)) /\
  (forall s mu C es, ok_le (evals N P1 n s mu C es) (evals N P2 m s mu C es)) /\
  (forall s mu C e, ok_le (eval_opt N P1 n s mu C e) (eval_opt N P2 m s mu C e)) /\
  (forall s mu C v ops args, ok_le (cmp_chain N P1 n s mu C v ops args) (cmp_chain N P2 m s mu C v ops args)) /\
  (forall s mu C u args, ok_le (bool_chain N P1 n s mu C u args) (bool_chain N P2 m s mu C u args)) /\
  (forall s mu C gens elt, ok_le (comp N P1 n s mu C gens elt) (comp N P2 m s mu C gens elt)) /\
  (forall s mu C p l i gs elt, ok_le (comp_loop N P1 n s mu C p l i gs elt) (comp_loop N P2 m s mu C p l i gs elt)) /\
  (forall fn fn' vs mu C, wfrel fn fn' -> ok_le (call N P1 n fn vs mu C) (call N P2 m fn' vs mu C)) /\
  (forall s mu C st st', wrel st st' -> ok_le (exec N P1 n s mu C st) (exec N P2 m s mu C st')) /\
  (forall s mu C b b', wbrel b b' -> ok_le (exec_block N P1 n s mu C b) (exec_block N P2 m s mu C b')) /\
  (forall s mu C p l i b b', wbrel b b' -> ok_le (for_loop N P1 n s mu C p l i b) (for_loop N P2 m s mu C p l i b')) /\
  (forall s mu C cur idx v, ok_le (index_walk N P1 n s mu C cur idx v) (index_walk N P2 m s mu C cur idx v)).

Lemma ok_le_mono_r : forall A (a b b' : res A), ok_le a b -> le_res b b' -> ok_le a b'.
Proof. intros A a b b' H1 H2. eapply ok_le_trans; [exact H1 | apply le_res_ok_le, H2]. Qed.

Lemma sim_at_mono_r : forall n m m', sim_at n m -> (m <= m')%nat -> sim_at n m'.
Proof.
  intros n m m' (H1 & H2 & H3 & H4 & H5 & H6 & H7 & H8 & H9 & H10 & H11 & H12) Hle.
  destruct (mono_all N P2 m m' Hle) as (M1 & M2 & M3 & M4 & M5 & M6 & M7 & M8 & M9 & M10 & M11 & M12).
  unfold sim_at. repeat split; intros; eapply ok_le_mono_r; eauto.
Qed.

(* the fuel given to the unrolled program *)
Definition gfuel (n : nat) : nat := n * n + 3 * n.

Lemma gfuel_S : forall n, gfuel (S n) = S (gfuel n + 2 * n + 3).
Proof. intro n. unfold gfuel. lia. Qed.

Lemma gfuel_ge : forall n, (n <= gfuel n)%nat.
Proof. intro n. unfold gfuel. lia. Qed.

Lemma sim_all : forall n, sim_at n (gfuel n).
Proof.
  induction n as [|n IH].
  - unfold sim_at. repeat split; intros; intros x E; discriminate.
  - rewrite gfuel_S. set (m := (gfuel n + 2 * n + 3)%nat).
    pose proof (sim_at_mono_r n (gfuel n) m IH ltac:(unfold m; lia)) as IH'.
    destruct IH' as (H1 & H2 & H3 & H4 & H5 & H6 & H7 & H8 & H9 & H10 & H11 & H12).
    assert (Hv : forall mu a b, ok_le (value_eq N n mu a b) (value_eq N m mu a b)).
    { intros. apply le_res_ok_le, value_eq_mono. unfold m. pose proof (gfuel_ge n). lia. }
    assert (Hd : forall mu v, ok_le (dim_of n mu v) (dim_of m mu v)).
    { intros. apply le_res_ok_le, dim_of_mono. unfold m. pose proof (gfuel_ge n). lia. }
    assert (Hcong : forall st st', scong wbrel st st' -> wrel st st') by (intros; apply wr_cong; assumption).
    assert (Hfinv : forall fn fn', wfrel fn fn' ->
              f_params fn' = f_params fn /\ f_ctx fn' = f_ctx fn /\ wbrel (f_body fn) (f_body fn')) by (intros ? ? H; exact H).
    unfold sim_at. repeat split; intros.
    + rewrite !eval_S. eapply eval_body_sim with (frel := wfrel); eauto.
    + rewrite !evals_S. eapply evals_body_sim; eauto.
    + rewrite !eval_opt_S. eapply eval_opt_body_sim; eauto.
    + rewrite !cmp_chain_S. eapply cmp_chain_body_sim; eauto.
    + rewrite !bool_chain_S. eapply bool_chain_body_sim; eauto.
    + rewrite !comp_S. eapply comp_body_sim; eauto.
    + rewrite !comp_loop_S. eapply comp_loop_body_sim; eauto.
    + rewrite !call_S. eapply call_body_sim with (brel := wbrel) (frel := wfrel); eauto.
    + (* exec *)
      match goal with H : wrel _ _ |- _ => inversion H; subst end.
      * rewrite !exec_S. eapply exec_body_sim with (srel := wrel) (brel := wbrel); eauto.
      * (* the unrolled loop *)
        destruct k as [|k].
        { cbn [unroll_while_stmt Nat.iter nat_rect]. rewrite !exec_S.
          eapply exec_body_sim with (srel := wrel) (brel := wbrel); eauto. constructor. assumption. }
        change (unroll_while_stmt (S k) c b') with (SIf1 c (b' ++ [unroll_while_stmt k c b'])).
        intros r Hr. rewrite exec_S in Hr. rewrite exec_S. unfold exec_body in *.
        destruct (eval N P1 n s mu C c) as [[vc mu1]| |] eqn:Ec; cbn [rbind] in Hr; try discriminate.
        rewrite (H1 _ _ _ _ _ Ec). cbn [rbind].
        destruct (as_bool vc) as [t| |]; cbn [rbind] in *; try discriminate.
        destruct t; [|exact Hr].
        destruct (exec_block N P1 n s mu1 C b) as [[o mu2]| |] eqn:Eb; cbn [rbind] in Hr; try discriminate.
        destruct IH as (_ & _ & _ & _ & _ & _ & _ & _ & G9 & G10 & _).
        pose proof (G10 _ _ _ _ _ H0 _ Eb) as Eb'.
        destruct o as [s'|v].
        -- (* the body completes: the rest is the loop again, i.e. the remaining copies *)
           pose proof (exec_block_normal_length _ _ _ _ _ _ _ _ Eb) as Hlen.
           rewrite <- (wbrel_length _ _ H0) in Hlen.
           pose proof (G9 _ _ _ _ _ (wr_unroll k c b b' H0) _ Hr) as Hk.
           assert (Hone : exec_block N P2 (gfuel n + 2) s' mu2 C [unroll_while_stmt k c b'] = ROk r).
           { replace (gfuel n + 2)%nat with (S (S (gfuel n))) by lia.
             rewrite exec_block_S. unfold exec_block_body.
             rewrite (exec_mono_ok N P2 _ (S (gfuel n)) _ _ _ _ _ Hk ltac:(lia)). cbn [rbind].
             destruct r as [[s2|v2] mu3]; [|reflexivity]. rewrite exec_block_S. reflexivity. }
           eapply exec_block_mono_ok.
           ++ eapply exec_block_app_normal; [|exact Hone].
              eapply exec_block_mono_ok; [exact Eb'|lia].
           ++ unfold m. lia.
        -- (* the body returns *)
           inversion Hr; subst. eapply exec_block_mono_ok.
           ++ apply exec_block_app_return. exact Eb'.
           ++ unfold m. lia.
    + rewrite !exec_block_S. eapply exec_block_body_sim with (srel := wrel) (brel := wbrel); eauto using wbrel_nil_inv, wbrel_cons_inv.
    + rewrite !for_loop_S. eapply for_loop_body_sim with (brel := wbrel); eauto.
    + rewrite !index_walk_S. eapply index_walk_body_sim; eauto.
Qed.

Lemma run_sim : forall n f args caller v,
  run N P1 n f args caller = ROk v -> run N P2 (gfuel n) f args caller = ROk v.
Proof.
  intros n f args caller v H. unfold run in *.
  pose proof (Hprog f) as Hl.
  destruct (lookup_fn P1 f) as [fn|], (lookup_fn P2 f) as [fn'|]; try contradiction; try discriminate.
  destruct (inject_all args []) as [vs mu].
  destruct (call N P1 n fn vs mu _) as [[w mu1]| |] eqn:Ec; cbn [rbind] in H; try discriminate.
  destruct (sim_all n) as (_ & _ & _ & _ & _ & _ & _ & H8 & _).
  rewrite (H8 _ _ _ _ _ Hl _ Ec). cbn [rbind].
  destruct (extract n mu1 w) as [c|] eqn:Ee; [|discriminate].
  rewrite (extract_mono _ _ _ _ _ Ee (gfuel_ge n)). exact H.
Qed.

End WithNum.

(* ---------------------------------------------------------------- programs *)
Lemma lookup_prog_update : forall P f T g,
  lookup_fn (prog_update P f T) g =
  match lookup_fn P g with
  | Some fn => if String.eqb g f then Some (T fn) else Some fn
  | None => None
  end.
Proof.
  induction P as [|[h fn] P IH]; intros f T g; cbn [prog_update lookup_fn]; [reflexivity|].
  destruct (String.eqb f h) eqn:Efh; cbn [lookup_fn].
  - apply String.eqb_eq in Efh. subst h. destruct (String.eqb g f) eqn:Egf; [reflexivity|].
    destruct (lookup_fn P g); reflexivity.
  - destruct (String.eqb g h) eqn:Egh.
    + apply String.eqb_eq in Egh. subst h. rewrite String.eqb_sym, Efh. reflexivity.
    + apply IH.
Qed.

Theorem while_unroll_sound : forall (N : numops) (P : program) (w : sel) (times : nat) fuel f args c v,
  run N P fuel f args c = ROk v ->
  exists fuel', run N (prog_update P f (while_unroll w times)) fuel' f args c = ROk v.
Proof.
  intros N P w times fuel f args c v H. exists (gfuel fuel).
  eapply run_sim; [|exact H].
  intro g. rewrite lookup_prog_update. destruct (lookup_fn P g) as [fn|]; [|exact I].
  destruct (String.eqb g f).
  - apply while_unroll_wfrel.
  - unfold wfrel. repeat split. apply wbrel_refl.
Qed.
