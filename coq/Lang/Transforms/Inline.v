(* FPyLang transforms: function inlining, a Gallina model of
   fpy2/transform/func_inline.py (`_FuncInline`, `FuncInline.apply`) AS CODED.
   Definitions only; theorems in InlineProofs.v, statements in Props/C09.v.

   What the code does (and the model reproduces):
   * every `Call` of an FPy function is a candidate, wherever it occurs in an
     expression; refused (left in place, no index consumed) when it is in a
     `while` condition or the callee does not have exactly one `return`;
     candidates are numbered in visit order, the index is taken BEFORE the
     arguments are visited (outermost first); `where = i` selects one;
   * at a selected site: every name of the callee is refreshed (Gensym), the
     renaming is applied by RenameTarget (which does NOT rename the `as x`
     target of a `with`), the arguments are visited (nested sites are spliced
     first) and bound IN ORDER to the renamed parameters by assignments that are
     appended to the statements collected for the enclosing block, the trailing
     `return e` (possibly under trailing `with` blocks) becomes `t = e` for a
     fresh `t`, the body is wrapped in `with <declared ctx>` if the callee
     declares one, else in `with REAL` if the call sits in the header of a
     `with`, else spliced as is; the call is replaced by `t`;
   * the collected statements are emitted AHEAD of the statement that contained
     the call, whatever the position of the call inside that statement (so a call
     is hoisted above operands evaluated before it, and out of conditionally
     evaluated positions -- see `C09_inline_hoist_refuted`);
   * raising conditions are `None`: `_replace_ret` finds no trailing return, the
     final SyntaxCheck finds an unbound variable (a call hoisted out of a
     comprehension whose variables it mentions; a callee that uses a name it
     binds with `with .. as x`), `where` out of range, call-graph cycle / depth.

   Fresh names: the model's gensym is simpler than `Gensym` (which name is
   chosen is irrelevant: the tie compares up to alpha-equivalence, AlphaEq.v),
   but like it guarantees that a generated name is not among the reserved or
   previously generated ones; the freshness facts the soundness proof needs are
   re-checked by the model itself (`fresh_ok`, never false in practice). *)
From Coq Require Import ZArith List Bool String DecimalString.
From FpyV Require Import Num.RealFloat Num.Float Num.CtxDef Lang.Syntax.
From FpyV Require Import Lang.Transforms.Rename.
Import ListNotations.
Open Scope string_scope.
Open Scope list_scope.

(* ---------------------------------------------------------------- helpers *)
Fixpoint has_call (e : expr) : bool :=
  match e with
  | EVar x => false
  | ENum v => false
  | ERat n d => false
  | EBool b => false
  | ECtxVal c => false
  | EOp0 o => false
  | EOp1 o a => has_call a
  | EOp2 o a b => has_call a || has_call b
  | EOp3 o a b c => has_call a || has_call b || has_call c
  | EPred p a => has_call a
  | ECompare ops args => existsb has_call args
  | EAnd args => existsb has_call args
  | EOr args => existsb has_call args
  | ENot a => has_call a
  | EIf c a b => has_call c || has_call a || has_call b
  | ETuple es => existsb has_call es
  | EFst a => has_call a
  | ESnd a => has_call a
  | EList es => existsb has_call es
  | ERef a i => has_call a || has_call i
  | ESlice a lo hi => has_call a || (match lo with Some x => has_call x | None => false end) || (match hi with Some x => has_call x | None => false end)
  | EComp gens elt => existsb (fun g => match g with (_, it) => has_call it end) gens || has_call elt
  | ELen a => has_call a
  | ERange1 a => has_call a
  | ERange2 a b => has_call a || has_call b
  | ERange3 a b c => has_call a || has_call b || has_call c
  | EZip es => existsb has_call es
  | EEnumerate a => has_call a
  | EEmpty dims => existsb has_call dims
  | EDim a => has_call a
  | ESize a d => has_call a || has_call d
  | ESum a => has_call a
  | EAMin a => has_call a
  | EAMax a => has_call a
  | EMin es => existsb has_call es
  | EMax es => existsb has_call es
  | EAny a => has_call a
  | EAll a => has_call a
  | ECall f args => true
  | ECtor k args => existsb has_call args
  end.

(* Reachability.ret_stmts: the `return` statements of a body *)
Fixpoint count_ret (st : stmt) : nat :=
  match st with
  | SReturn _ => 1
  | SIf1 _ b => list_sum (map count_ret b)
  | SIf _ b1 b2 => list_sum (map count_ret b1) + list_sum (map count_ret b2)
  | SWhile _ b => list_sum (map count_ret b)
  | SFor _ _ b => list_sum (map count_ret b)
  | SContext _ _ b => list_sum (map count_ret b)
  | _ => 0
  end.

Definition count_ret_block (b : block) : nat := list_sum (map count_ret b).

(* _replace_ret: the last statement must be a `return` or a `with` (recursively) *)
Fixpoint rr_stmt (t : ident) (st : stmt) : option stmt :=
  match st with
  | SReturn e => Some (SAssign (PVar t) e)
  | SContext x c body =>
      match (fix go (b : list stmt) : option (list stmt) :=
               match b with
               | [] => None
               | [last] => match rr_stmt t last with Some l' => Some [l'] | None => None end
               | s0 :: r => match go r with Some r' => Some (s0 :: r') | None => None end
               end) body with
      | Some body' => Some (SContext x c body')
      | None => None
      end
  | _ => None
  end.

Fixpoint rr_block (t : ident) (b : block) : option block :=
  match b with
  | [] => None
  | [last] => match rr_stmt t last with Some l' => Some [l'] | None => None end
  | s0 :: r => match rr_block t r with Some r' => Some (s0 :: r') | None => None end
  end.

(* named targets of `with` statements *)
Fixpoint with_targets (st : stmt) : list ident :=
  match st with
  | SIf1 _ b | SWhile _ b | SFor _ _ b => flat_map with_targets b
  | SIf _ b1 b2 => flat_map with_targets b1 ++ flat_map with_targets b2
  | SContext x _ b => (match x with Some x => [x] | None => [] end) ++ flat_map with_targets b
  | _ => []
  end.

(* names read by the expressions of a statement *)
Fixpoint stmt_uses (st : stmt) : list ident :=
  match st with
  | SAssign _ e => expr_names e
  | SIndexAssign x idx e => x :: flat_map expr_names idx ++ expr_names e
  | SIf1 c b | SWhile c b => expr_names c ++ flat_map stmt_uses b
  | SIf c b1 b2 => expr_names c ++ flat_map stmt_uses b1 ++ flat_map stmt_uses b2
  | SFor _ it b => expr_names it ++ flat_map stmt_uses b
  | SContext _ e b => expr_names e ++ flat_map stmt_uses b
  | SAssert e | SEffect e | SReturn e => expr_names e
  | SPass => []
  end.

Fixpoint nodup_ids (l : list ident) : list ident :=
  match l with
  | [] => []
  | x :: r => if mem x r then nodup_ids r else x :: nodup_ids r
  end.

Definition mentions (pre : list stmt) (bound : list ident) : bool :=
  existsb (fun z => mem z bound) (flat_map stmt_names pre).

(* the call positions for which soundness is proved (InlineProofs.v): a call is the whole
   right-hand side of an assignment / `return` / effect statement and its arguments are
   call-free; every other expression of the function is call-free *)
Definition site_expr (e : expr) : bool :=
  match e with
  | ECall _ args => negb (existsb has_call args)
  | _ => negb (has_call e)
  end.

Fixpoint sform (st : stmt) : bool :=
  match st with
  | SAssign _ e | SEffect e | SReturn e => site_expr e
  | SIndexAssign _ idx e => negb (existsb has_call idx) && negb (has_call e)
  | SIf1 c b => negb (has_call c) && forallb sform b
  | SIf c b1 b2 => negb (has_call c) && forallb sform b1 && forallb sform b2
  | SWhile c b => negb (has_call c) && forallb sform b
  | SFor _ it b => negb (has_call it) && forallb sform b
  | SContext _ e b => negb (has_call e) && forallb sform b
  | SAssert e => negb (has_call e)
  | SPass => true
  end.

Definition sform_block (b : block) : bool := forallb sform b.

Definition no_with (b : block) : bool :=
  match flat_map with_targets b with [] => true | _ => false end.

(* a function in the proved fragment: calls in statement position, no named `with` target *)
Definition fn_ok (fn : func) : bool := sform_block (f_body fn) && no_with (f_body fn).
Definition prog_ok (P : program) : bool := forallb (fun gf => fn_ok (snd gf)) P.

(* the parameter bindings emitted at a site whose arguments are call-free *)
Definition bind_list (rho : ident -> ident) (qs : list ident) (args : list expr) : list stmt :=
  map (fun qa => SAssign (PVar (rho (fst qa))) (snd qa)) (combine qs args).

(* ---------------------------------------------------------------- gensym *)
Record ist := IS { is_used : list ident; is_ctr : nat; is_idx : nat; is_occ : nat }.

Definition mk_name (base : string) (k : nat) : ident :=
  String.append base (NilEmpty.string_of_uint (Nat.to_uint k)).

Fixpoint first_free (used : list ident) (base : string) (k fuel : nat) : option (ident * nat) :=
  match fuel with
  | O => None
  | S f => let y := mk_name base k in
           if mem y used then first_free used base (S k) f else Some (y, S k)
  end.

(* Gensym.refresh: the name itself if it is not taken, else base+counter *)
Definition refresh (x : ident) (st : ist) : option (ident * ist) :=
  if mem x (is_used st) then
    match first_free (is_used st) x (is_ctr st) (S (List.length (is_used st))) with
    | Some (y, k) => Some (y, IS (y :: is_used st) k (is_idx st) (is_occ st))
    | None => None
    end
  else Some (x, IS (x :: is_used st) (is_ctr st) (is_idx st) (is_occ st)).

Fixpoint refresh_all (xs : list ident) (st : ist) : option (list (ident * ident) * ist) :=
  match xs with
  | [] => Some ([], st)
  | x :: r =>
      match refresh x st with
      | None => None
      | Some (y, st1) =>
          match refresh_all r st1 with
          | None => None
          | Some (l, st2) => Some ((x, y) :: l, st2)
          end
      end
  end.

Definition reserve (xs : list ident) (st : ist) : ist :=
  IS (xs ++ is_used st) (is_ctr st) (is_idx st) (is_occ st).

(* the flags of `_Ctx`: the expression is the header of a `with`; it is a `while` condition *)
Record iflags := IF { fl_hdr : bool; fl_while : bool }.


(* monadic traversals, generic in the expression / statement visitor *)
Definition il_gen (ie : expr -> ist -> option (list stmt * expr * ist))
    : list expr -> ist -> option (list stmt * list expr * ist) :=
  fix go (es : list expr) (st : ist) : option (list stmt * list expr * ist) :=
    match es with
    | [] => Some ([], [], st)
    | x :: r =>
        match ie x st with None => None | Some (p1, x', st1) =>
        match go r st1 with None => None | Some (p2, r', st2) => Some (p1 ++ p2, x' :: r', st2) end end
    end.

Definition io_gen (ie : expr -> ist -> option (list stmt * expr * ist)) (o : option expr) (st : ist)
    : option (list stmt * option expr * ist) :=
  match o with
  | None => Some ([], None, st)
  | Some x => match ie x st with None => None | Some (p1, x', st1) => Some (p1, Some x', st1) end
  end.

(* the iterables of a comprehension; a spliced statement that mentions a variable bound by an
   earlier generator is an unbound-variable error of the final SyntaxCheck *)
Definition ig_gen (ie : expr -> ist -> option (list stmt * expr * ist))
    : list ident -> list (pat * expr) -> ist -> option (list stmt * list (pat * expr) * ist) :=
  fix go (bound : list ident) (gens : list (pat * expr)) (st : ist)
      : option (list stmt * list (pat * expr) * ist) :=
    match gens with
    | [] => Some ([], [], st)
    | g :: r =>
        match g with (p, it) =>
        match ie it st with None => None | Some (p1, it', st1) =>
        if mentions p1 bound then None else
        match go (pat_vars p ++ bound) r st1 with None => None
        | Some (p2, r', st2) => Some (p1 ++ p2, (p, it') :: r', st2) end end end
    end.

(* "bind arguments to parameters": each argument is visited, then assigned, in order *)
Definition bind_stmt (hdrfix : bool) (q : ident) (a : expr) : stmt :=
  if hdrfix then SContext None (ECtxVal CReal) [SAssign (PVar q) a] else SAssign (PVar q) a.

Definition ga_gen (ie : expr -> ist -> option (list stmt * expr * ist)) (rho : ident -> ident) (hdrfix : bool)
    : list expr -> list ident -> ist -> option (list stmt * ist) :=
  fix ga (args : list expr) (ps : list ident) (st : ist) : option (list stmt * ist) :=
    match args, ps with
    | [], [] => Some ([], st)
    | a :: ar, q :: qr =>
        match ie a st with None => None | Some (p1, a', st1) =>
        match ga ar qr st1 with None => None
        | Some (p2, st2) => Some (p1 ++ bind_stmt hdrfix (rho q) a' :: p2, st2) end end
    | _, _ => None
    end.

Definition ib_gen (is : stmt -> ist -> option (list stmt * ist))
    : list stmt -> ist -> option (list stmt * ist) :=
  fix go (b : list stmt) (st : ist) : option (list stmt * ist) :=
    match b with
    | [] => Some ([], st)
    | x :: r =>
        match is x st with None => None | Some (l1, st1) =>
        match go r st1 with None => None | Some (l2, st2) => Some (l1 ++ l2, st2) end end
    end.

Section Inline.
Variable V : list ident.                 (* the names of the function being transformed *)
Variable sel : nat -> bool.              (* `where`: which candidate sites are inlined *)
Variable impl : ident -> option func.    (* the callee AST that is spliced (raw, or already flattened) *)
Variable reserve_callee : bool.          (* recursive mode reserves the callee's names first *)
(* the proposed repairs (fixes/C09-*.diff), all off for the code as it is: *)
Variable fix_wt : bool.                  (* RenameTarget renames `with .. as x` targets *)
Variable fix_hdr : bool.                 (* the arguments of a call in a `with` header are bound under REAL *)
Variable refuse_extra : nat -> bool.     (* calls (numbered in visit order) refused because of their position:
                                            decided by the implementation (an oracle here; refusing a site is
                                            always sound, it leaves the call in place) *)

(* the freshness facts the soundness proof uses, re-checked on the generated renaming (the
   `with .. as x` targets, which RenameTarget does not rename, are excluded: they are the
   callee's own names and may clash -- C09_inline_with_target_refuted) *)
Definition fresh_ok (rho : ident -> ident) (fn : func) (body' : block) (t : ident) : bool :=
  forallb (fun z => negb (mem z V))
          (map rho (f_params fn)
           ++ filter (fun z => negb (mem z (flat_map with_targets body'))) (block_targets body')
           ++ [t]).

(* RenameTarget leaves `with .. as x` in place while renaming the uses of x: SyntaxCheck then
   reports an unbound variable *)
Definition with_target_clash (rho : ident -> ident) (fn : func) : bool :=
  existsb (fun x => negb (String.eqb (rho x) x) && mem x (flat_map stmt_uses (f_body fn)))
          (flat_map with_targets (f_body fn)).

Definition wrap_body (fl : iflags) (fn : func) (b : block) : block :=
  match f_ctx fn with
  | Some c => [SContext None (ECtxVal c) b]
  | None => if fl_hdr fl then [SContext None (ECtxVal CReal) b] else b
  end.

Fixpoint inl_expr (fl : iflags) (e : expr) (st : ist) {struct e} : option (list stmt * expr * ist) :=
  let il := il_gen (inl_expr fl) in
  let io := io_gen (inl_expr fl) in
  let ig := ig_gen (inl_expr fl) in
  if negb (has_call e) then Some ([], e, st) else
    match e with
    | EVar x => Some ([], e, st)
    | ENum v => Some ([], e, st)
    | ERat n d => Some ([], e, st)
    | EBool b => Some ([], e, st)
    | ECtxVal c => Some ([], e, st)
    | EOp0 o => Some ([], e, st)
    | EOp1 o a =>
        match inl_expr fl a st with None => None | Some (p1, a', st1) =>
        Some (p1, EOp1 o a', st1) end
    | EOp2 o a b =>
        match inl_expr fl a st with None => None | Some (p1, a', st1) =>
        match inl_expr fl b st1 with None => None | Some (p2, b', st2) =>
        Some (p1 ++ p2, EOp2 o a' b', st2) end end
    | EOp3 o a b c =>
        match inl_expr fl a st with None => None | Some (p1, a', st1) =>
        match inl_expr fl b st1 with None => None | Some (p2, b', st2) =>
        match inl_expr fl c st2 with None => None | Some (p3, c', st3) =>
        Some (p1 ++ p2 ++ p3, EOp3 o a' b' c', st3) end end end
    | EPred p a =>
        match inl_expr fl a st with None => None | Some (p1, a', st1) =>
        Some (p1, EPred p a', st1) end
    | ECompare ops args =>
        match il args st with None => None | Some (p1, args', st1) =>
        Some (p1, ECompare ops args', st1) end
    | EAnd args =>
        match il args st with None => None | Some (p1, args', st1) =>
        Some (p1, EAnd args', st1) end
    | EOr args =>
        match il args st with None => None | Some (p1, args', st1) =>
        Some (p1, EOr args', st1) end
    | ENot a =>
        match inl_expr fl a st with None => None | Some (p1, a', st1) =>
        Some (p1, ENot a', st1) end
    | EIf c a b =>
        match inl_expr fl c st with None => None | Some (p1, c', st1) =>
        match inl_expr fl a st1 with None => None | Some (p2, a', st2) =>
        match inl_expr fl b st2 with None => None | Some (p3, b', st3) =>
        Some (p1 ++ p2 ++ p3, EIf c' a' b', st3) end end end
    | ETuple es =>
        match il es st with None => None | Some (p1, es', st1) =>
        Some (p1, ETuple es', st1) end
    | EFst a =>
        match inl_expr fl a st with None => None | Some (p1, a', st1) =>
        Some (p1, EFst a', st1) end
    | ESnd a =>
        match inl_expr fl a st with None => None | Some (p1, a', st1) =>
        Some (p1, ESnd a', st1) end
    | EList es =>
        match il es st with None => None | Some (p1, es', st1) =>
        Some (p1, EList es', st1) end
    | ERef a i =>
        match inl_expr fl a st with None => None | Some (p1, a', st1) =>
        match inl_expr fl i st1 with None => None | Some (p2, i', st2) =>
        Some (p1 ++ p2, ERef a' i', st2) end end
    | ESlice a lo hi =>
        match inl_expr fl a st with None => None | Some (p1, a', st1) =>
        match io lo st1 with None => None | Some (p2, lo', st2) =>
        match io hi st2 with None => None | Some (p3, hi', st3) =>
        Some (p1 ++ p2 ++ p3, ESlice a' lo' hi', st3) end end end
    | EComp gens elt =>
        match ig [] gens st with None => None | Some (p1, gens', st1) =>
        match inl_expr fl elt st1 with None => None | Some (p2, elt', st2) =>
        if mentions p2 (flat_map (fun g => pat_vars (fst g)) gens) then None else Some (p1 ++ p2, EComp gens' elt', st2) end end
    | ELen a =>
        match inl_expr fl a st with None => None | Some (p1, a', st1) =>
        Some (p1, ELen a', st1) end
    | ERange1 a =>
        match inl_expr fl a st with None => None | Some (p1, a', st1) =>
        Some (p1, ERange1 a', st1) end
    | ERange2 a b =>
        match inl_expr fl a st with None => None | Some (p1, a', st1) =>
        match inl_expr fl b st1 with None => None | Some (p2, b', st2) =>
        Some (p1 ++ p2, ERange2 a' b', st2) end end
    | ERange3 a b c =>
        match inl_expr fl a st with None => None | Some (p1, a', st1) =>
        match inl_expr fl b st1 with None => None | Some (p2, b', st2) =>
        match inl_expr fl c st2 with None => None | Some (p3, c', st3) =>
        Some (p1 ++ p2 ++ p3, ERange3 a' b' c', st3) end end end
    | EZip es =>
        match il es st with None => None | Some (p1, es', st1) =>
        Some (p1, EZip es', st1) end
    | EEnumerate a =>
        match inl_expr fl a st with None => None | Some (p1, a', st1) =>
        Some (p1, EEnumerate a', st1) end
    | EEmpty dims =>
        match il dims st with None => None | Some (p1, dims', st1) =>
        Some (p1, EEmpty dims', st1) end
    | EDim a =>
        match inl_expr fl a st with None => None | Some (p1, a', st1) =>
        Some (p1, EDim a', st1) end
    | ESize a d =>
        match inl_expr fl a st with None => None | Some (p1, a', st1) =>
        match inl_expr fl d st1 with None => None | Some (p2, d', st2) =>
        Some (p1 ++ p2, ESize a' d', st2) end end
    | ESum a =>
        match inl_expr fl a st with None => None | Some (p1, a', st1) =>
        Some (p1, ESum a', st1) end
    | EAMin a =>
        match inl_expr fl a st with None => None | Some (p1, a', st1) =>
        Some (p1, EAMin a', st1) end
    | EAMax a =>
        match inl_expr fl a st with None => None | Some (p1, a', st1) =>
        Some (p1, EAMax a', st1) end
    | EMin es =>
        match il es st with None => None | Some (p1, es', st1) =>
        Some (p1, EMin es', st1) end
    | EMax es =>
        match il es st with None => None | Some (p1, es', st1) =>
        Some (p1, EMax es', st1) end
    | EAny a =>
        match inl_expr fl a st with None => None | Some (p1, a', st1) =>
        Some (p1, EAny a', st1) end
    | EAll a =>
        match inl_expr fl a st with None => None | Some (p1, a', st1) =>
        Some (p1, EAll a', st1) end
    | ECtor k args =>
        match il args st with None => None | Some (p1, args', st1) =>
        Some (p1, ECtor k args', st1) end
    | ECall f args =>
        match impl f with
        | None => None
        | Some fn =>
            let occ := is_occ st in
            let st := IS (is_used st) (is_ctr st) (is_idx st) (S occ) in
            if fl_while fl || negb (Nat.eqb (count_ret_block (f_body fn)) 1) || refuse_extra occ then
              (* refused: not a site *)
              match il args st with None => None | Some (p1, args', st1) => Some (p1, ECall f args', st1) end
            else
              let idx := is_idx st in
              let st := IS (is_used st) (is_ctr st) (S idx) (is_occ st) in
              if negb (sel idx) then
                match il args st with None => None | Some (p1, args', st1) => Some (p1, ECall f args', st1) end
              else
                let st := if reserve_callee then reserve (func_names fn) st else st in
                match refresh_all (nodup_ids (func_names fn)) st with
                | None => None
                | Some (subst, st1) =>
                    let rho := perm_of subst in
                    if negb fix_wt && with_target_clash rho fn then None else
                    match ga_gen (inl_expr fl) rho (fix_hdr && fl_hdr fl) args (f_params fn) st1 with
                    | None => None
                    | Some (pa, st2) =>
                        match refresh "t" st2 with
                        | None => None
                        | Some (t, st3) =>
                            match rr_block t ((if fix_wt then ren_block_t rho else ren_block rho) (f_body fn)) with
                            | None => None
                            | Some body' =>
                                if fresh_ok rho fn body' t
                                then Some (pa ++ wrap_body fl fn body', EVar t, st3)
                                else None
                            end
                        end
                    end
                end
        end
    end.

Definition inl_exprs (fl : iflags) := il_gen (inl_expr fl).

Definition F0 := IF false false.

(* a statement becomes the spliced statements followed by the rewritten statement *)
Fixpoint inl_stmt (s : stmt) (st : ist) {struct s} : option (list stmt * ist) :=
  let ib := ib_gen inl_stmt in
  match s with
  | SAssign p e =>
      match inl_expr F0 e st with None => None | Some (pre, e', st1) => Some (pre ++ [SAssign p e'], st1) end
  | SIndexAssign x idx e =>
      match inl_exprs F0 idx st with None => None | Some (p1, idx', st1) =>
      match inl_expr F0 e st1 with None => None | Some (p2, e', st2) =>
      Some (p1 ++ p2 ++ [SIndexAssign x idx' e'], st2) end end
  | SIf1 c body =>
      match inl_expr F0 c st with None => None | Some (pre, c', st1) =>
      match ib body st1 with None => None | Some (body', st2) => Some (pre ++ [SIf1 c' body'], st2) end end
  | SIf c b1 b2 =>
      match inl_expr F0 c st with None => None | Some (pre, c', st1) =>
      match ib b1 st1 with None => None | Some (b1', st2) =>
      match ib b2 st2 with None => None | Some (b2', st3) => Some (pre ++ [SIf c' b1' b2'], st3) end end end
  | SWhile c body =>
      match inl_expr (IF false true) c st with None => None | Some (pre, c', st1) =>
      match ib body st1 with None => None | Some (body', st2) => Some (pre ++ [SWhile c' body'], st2) end end
  | SFor p it body =>
      match inl_expr F0 it st with None => None | Some (pre, it', st1) =>
      match ib body st1 with None => None | Some (body', st2) => Some (pre ++ [SFor p it' body'], st2) end end
  | SContext x e body =>
      match inl_expr (IF true false) e st with None => None | Some (pre, e', st1) =>
      match ib body st1 with None => None | Some (body', st2) => Some (pre ++ [SContext x e' body'], st2) end end
  | SAssert e =>
      match inl_expr F0 e st with None => None | Some (pre, e', st1) => Some (pre ++ [SAssert e'], st1) end
  | SEffect e =>
      match inl_expr F0 e st with None => None | Some (pre, e', st1) => Some (pre ++ [SEffect e'], st1) end
  | SReturn e =>
      match inl_expr F0 e st with None => None | Some (pre, e', st1) => Some (pre ++ [SReturn e'], st1) end
  | SPass => Some ([SPass], st)
  end.

Definition inl_block := ib_gen inl_stmt.

End Inline.

(* ---------------------------------------------------------------- the pass *)
Definition ist0 (fn : func) : ist := let V := func_names fn in IS V (List.length V) 0 0.

(* which of the proposed repairs are in force *)
Record ifix := IFix { fx_wt : bool; fx_hdr : bool; fx_ref : ident -> nat -> bool }.
Definition fx0 : ifix := IFix false false (fun _ _ => false).     (* the code as it is *)

(* one application of `_FuncInline` to the function `fname`; `wh = Some i`: only site i (which must exist) *)
Definition inline_fn (fx : ifix) (fname : ident) (impl : ident -> option func) (reserve_callee : bool)
    (wh : option nat) (fn : func) : option func :=
  let V := func_names fn in
  let sel := fun i => match wh with None => true | Some k => Nat.eqb i k end in
  match inl_block V sel impl reserve_callee (fx_wt fx) (fx_hdr fx) (fx_ref fx fname) (f_body fn) (ist0 fn) with
  | None => None
  | Some (body', st) =>
      match wh with
      | Some k => if Nat.ltb k (is_idx st) then Some (Func (f_params fn) (f_ctx fn) body') else None
      | None => Some (Func (f_params fn) (f_ctx fn) body')
      end
  end.

(* recursive=True, where=None: every reachable function flattened bottom-up (depth bounds the
   call-graph height; a cycle is CallGraphError = None) *)
Fixpoint inline_full (fx : ifix) (P : program) (depth : nat) (fname : ident) (fn : func) : option func :=
  match depth with
  | O => None
  | S d =>
      inline_fn fx fname
                (fun g => match lookup_fn P g with Some gf => inline_full fx P d g gf | None => None end)
                true None fn
  end.

(* inline(f, where, recursive) *)
Definition inline_x (fx : ifix) (P : program) (depth : nat) (recursive : bool) (wh : option nat)
    (fname : ident) (fn : func) : option func :=
  match depth with
  | O => None
  | S d =>
      if recursive then
        inline_fn fx fname
                  (fun g => match lookup_fn P g with Some gf => inline_full fx P d g gf | None => None end) true wh fn
      else
        inline_fn fx fname (lookup_fn P) false wh fn
  end.

(* the code as it is *)
Definition inline (P : program) (depth : nat) (recursive : bool) (wh : option nat) (fn : func) : option func :=
  inline_x fx0 P depth recursive wh EmptyString fn.
