(* C07: soundness of the dead-code validator (SimpDce.v: vd, vk, validate_dce). *)
From Coq Require Import ZArith List Bool String Lia.
From FpyV Require Import Num.RealFloat Num.Float Num.CtxDef Lang.Syntax Lang.Values Lang.Sem Lang.SemMono.
From FpyV Require Import Lang.Transforms.SimpDefs Lang.Transforms.SimpRw Lang.Transforms.SimpDce
  Lang.Transforms.SimpBaseProofs Lang.Transforms.SimpEqProofs Lang.Transforms.SimpEvalProofs
  Lang.Transforms.SimpVexprProofs Lang.Transforms.SimpRwProofs.
Import ListNotations.
Open Scope Z_scope.

Section DCE.
Variable N : numops.
Variable P : program.

(* ---------------------------------------------------------------- statements without effect *)
Definition ne_at (n : nat) : Prop :=
  (forall s mu C st o mu', noeffect st = true -> exec N P n s mu C st = ROk (o, mu') ->
     exists s1, o = ONormal s1 /\ mu' = mu) /\
  (forall s mu C b o mu', forallb noeffect b = true -> exec_block N P n s mu C b = ROk (o, mu') ->
     exists s1, o = ONormal s1 /\ mu' = mu) /\
  (forall s mu C p l i body o mu', forallb noeffect body = true -> for_loop N P n s mu C p l i body = ROk (o, mu') ->
     exists s1, o = ONormal s1 /\ mu' = mu).

Ltac split_and :=
  repeat match goal with
  | H : _ && _ = true |- _ => apply andb_prop in H; destruct H
  end.

Lemma ne_all : forall n, ne_at n.
Proof.
  induction n as [|n IH].
  - repeat split; intros; discriminate.
  - destruct IH as (Hex & Hexb & Hfor). repeat split; intros.
    + rewrite exec_S in H0. unfold exec_body in H0.
      destruct st; cbn [noeffect] in H; try discriminate H; split_and.
      * destruct (rbind_ok _ _ _ _ _ H0) as ([v m] & E & H'). apply (eval_pure_store N P) in E; [subst m|assumption].
        destruct (bind_pat p v s) as [s1|]; cbn [lift rbind] in H'; [|discriminate]. inversion H'; subst. eauto.
      * destruct (rbind_ok _ _ _ _ _ H0) as ([v m] & E & H'). apply (eval_pure_store N P) in E; [subst m|assumption].
        destruct (as_bool v) as [t| |]; cbn [rbind] in H'; try discriminate.
        destruct t; [eapply Hexb; [|exact H']; assumption | inversion H'; subst; eauto].
      * destruct (rbind_ok _ _ _ _ _ H0) as ([v m] & E & H'). apply (eval_pure_store N P) in E; [subst m|assumption].
        destruct (as_bool v) as [t| |]; cbn [rbind] in H'; try discriminate.
        destruct t; (eapply Hexb; [|exact H']; assumption).
      * destruct (rbind_ok _ _ _ _ _ H0) as ([v m] & E & H'). apply (eval_pure_store N P) in E; [subst m|assumption].
        destruct (as_bool v) as [t| |]; cbn [rbind] in H'; try discriminate.
        destruct t; [|inversion H'; subst; eauto].
        destruct (rbind_ok _ _ _ _ _ H') as ([o1 m1] & E1 & H''). 
        destruct (Hexb _ _ _ _ _ _ H1 E1) as (s1 & -> & ->).
        eapply Hex; [|exact H'']. cbn [noeffect]. rewrite H, H1. reflexivity.
      * destruct (rbind_ok _ _ _ _ _ H0) as ([v m] & E & H'). apply (eval_pure_store N P) in E; [subst m|assumption].
        destruct (as_list mu v) as [[l vs]| |]; cbn [rbind] in H'; try discriminate.
        eapply Hfor; [|exact H']; assumption.
      * destruct (rbind_ok _ _ _ _ _ H0) as ([v m] & E & H'). apply (eval_pure_store N P) in E; [subst m|assumption].
        destruct v; try discriminate. eapply Hexb; [|exact H']; assumption.
      * destruct (rbind_ok _ _ _ _ _ H0) as ([v m] & E & H'). apply (eval_pure_store N P) in E; [subst m|assumption].
        destruct (as_bool v) as [t| |]; cbn [rbind] in H'; try discriminate.
        destruct t; [inversion H'; subst; eauto | discriminate].
      * destruct (rbind_ok _ _ _ _ _ H0) as ([v m] & E & H'). apply (eval_pure_store N P) in E; [subst m|assumption].
        inversion H'; subst; eauto.
      * inversion H0; subst; eauto.
    + rewrite exec_block_S in H0. unfold exec_block_body in H0. destruct b as [|st r].
      * inversion H0; subst; eauto.
      * cbn [forallb] in H. split_and.
        destruct (rbind_ok _ _ _ _ _ H0) as ([o1 m1] & E1 & H').
        destruct (Hex _ _ _ _ _ _ H E1) as (s1 & -> & ->). eapply Hexb; [|exact H']; assumption.
    + rewrite for_loop_S in H0. unfold for_loop_body in H0.
      destruct (store_get mu l) as [vs|]; [|discriminate].
      destruct (nth_error vs i) as [x|]; [|inversion H0; subst; eauto].
      destruct (bind_pat p x s) as [s1|]; cbn [lift rbind] in H0; [|discriminate].
      destruct (rbind_ok _ _ _ _ _ H0) as ([o1 m1] & E1 & H').
      destruct (Hexb _ _ _ _ _ _ H E1) as (s2 & -> & ->). eapply Hfor; [|exact H']; assumption.
Qed.

Lemma noeffect_exec : forall n s mu C st o mu', noeffect st = true -> exec N P n s mu C st = ROk (o, mu') ->
  exists s1, o = ONormal s1 /\ mu' = mu /\ keeps (bound st) s s1.
Proof.
  intros n s mu C st o mu' Hn H. destruct (ne_all n) as (K & _). destruct (K _ _ _ _ _ _ Hn H) as (s1 & -> & ->).
  exists s1. repeat split. eapply exec_frame; eassumption.
Qed.

Lemma noeffect_block : forall n s mu C b o mu', forallb noeffect b = true -> exec_block N P n s mu C b = ROk (o, mu') ->
  exists s1, o = ONormal s1 /\ mu' = mu /\ keeps (bound_block b) s s1.
Proof.
  intros n s mu C b o mu' Hn H. destruct (ne_all n) as (_ & K & _). destruct (K _ _ _ _ _ _ Hn H) as (s1 & -> & ->).
  exists s1. repeat split. eapply exec_block_frame; eassumption.
Qed.

(* ---------------------------------------------------------------- big-step rules with existential fuel *)
Definition XB (s : env) (mu : store) (C : ctx) (b : block) (o : outcome) (mu' : store) : Prop :=
  exists n, exec_block N P n s mu C b = ROk (o, mu').
Definition XS (s : env) (mu : store) (C : ctx) (st : stmt) (o : outcome) (mu' : store) : Prop :=
  exists n, exec N P n s mu C st = ROk (o, mu').

Lemma XB_nil : forall s mu C, XB s mu C [] (ONormal s) mu.
Proof. intros. exists 1%nat. reflexivity. Qed.

Lemma XB_cons : forall s mu C st r s1 mu1 o mu2,
  XS s mu C st (ONormal s1) mu1 -> XB s1 mu1 C r o mu2 -> XB s mu C (st :: r) o mu2.
Proof.
  intros s mu C st r s1 mu1 o mu2 (n1 & H1) (n2 & H2). exists (S (Nat.max n1 n2)).
  rewrite exec_block_S. unfold exec_block_body.
  rewrite (exec_mono_ok N P n1 (Nat.max n1 n2) _ _ _ _ _ H1) by lia. cbn [rbind].
  apply (exec_block_mono_ok N P n2); [exact H2 | lia].
Qed.

Lemma XB_cons_ret : forall s mu C st r v mu1,
  XS s mu C st (OReturn v) mu1 -> XB s mu C (st :: r) (OReturn v) mu1.
Proof.
  intros s mu C st r v mu1 (n1 & H1). exists (S n1). rewrite exec_block_S. unfold exec_block_body.
  rewrite H1. reflexivity.
Qed.

Lemma XB_pass : forall s mu C r o mu', XB s mu C r o mu' -> XB s mu C (SPass :: r) o mu'.
Proof.
  intros. eapply XB_cons; [|eassumption]. exists 1%nat. reflexivity.
Qed.

(* splitting the execution of b1 ++ b2 *)
Lemma exec_block_app : forall b1 b2 n s mu C o mu',
  exec_block N P n s mu C (b1 ++ b2) = ROk (o, mu') ->
  (exists v, o = OReturn v /\ exec_block N P n s mu C b1 = ROk (OReturn v, mu')) \/
  (exists s1 mu1, exec_block N P n s mu C b1 = ROk (ONormal s1, mu1) /\ XB s1 mu1 C b2 o mu').
Proof.
  induction b1 as [|st r IH]; intros b2 n s mu C o mu' H.
  - right. exists s, mu. split; [|exists n; exact H].
    destruct n; [discriminate|]. reflexivity.
  - destruct n; [discriminate|]. cbn [app] in H. rewrite exec_block_S in *. unfold exec_block_body in *.
    destruct (rbind_ok _ _ _ _ _ H) as ([o1 m1] & E1 & H'). rewrite E1. cbn [rbind].
    destruct o1 as [s1|v1].
    + destruct (IH b2 n s1 m1 C o mu' H') as [(v & -> & X)|(s2 & mu2 & X & Y)]; [left; eauto | right; eauto].
    + inversion H'; subst. left. eauto.
Qed.

Lemma XB_app : forall b1 b2 s mu C s1 mu1 o mu',
  XB s mu C b1 (ONormal s1) mu1 -> XB s1 mu1 C b2 o mu' -> XB s mu C (b1 ++ b2) o mu'.
Proof.
  induction b1 as [|st r IH]; intros b2 s mu C s1 mu1 o mu' (n1 & H1) H2.
  - destruct n1; [discriminate|]. inversion H1; subst. exact H2.
  - destruct n1; [discriminate|]. rewrite exec_block_S in H1. unfold exec_block_body in H1.
    destruct (rbind_ok _ _ _ _ _ H1) as ([o1 m1] & E1 & H'). destruct o1 as [s2|v2]; [|discriminate].
    cbn [app]. eapply XB_cons; [exists n1; exact E1|]. eapply IH; [exists n1; exact H' | exact H2].
Qed.

Lemma XB_app_ret : forall b1 b2 s mu C v mu',
  XB s mu C b1 (OReturn v) mu' -> XB s mu C (b1 ++ b2) (OReturn v) mu'.
Proof.
  induction b1 as [|st r IH]; intros b2 s mu C v mu' (n1 & H1).
  - destruct n1; discriminate.
  - destruct n1; [discriminate|]. rewrite exec_block_S in H1. unfold exec_block_body in H1.
    destruct (rbind_ok _ _ _ _ _ H1) as ([o1 m1] & E1 & H'). cbn [app]. destruct o1 as [s2|v2].
    + eapply XB_cons; [exists n1; exact E1|]. eapply IH. exists n1; exact H'.
    + inversion H'; subst. eapply XB_cons_ret. exists n1; exact E1.
Qed.

Definition XF (s : env) (mu : store) (C : ctx) (p : pat) (l : loc) (i : nat) (body : block) (o : outcome) (mu' : store) : Prop :=
  exists n, for_loop N P n s mu C p l i body = ROk (o, mu').

Lemma XS_assign : forall n s mu C p e v mu1 s1,
  eval N P n s mu C e = ROk (v, mu1) -> bind_pat p v s = Ok s1 -> XS s mu C (SAssign p e) (ONormal s1) mu1.
Proof. intros. exists (S n). rewrite exec_S. unfold exec_body. rewrite H. cbn [rbind]. rewrite H0. reflexivity. Qed.

Lemma XS_if1_true : forall n s mu C c body mu1 o mu',
  eval N P n s mu C c = ROk (VBool true, mu1) -> XB s mu1 C body o mu' -> XS s mu C (SIf1 c body) o mu'.
Proof.
  intros n s mu C c body mu1 o mu' H (n2 & H2). exists (S (Nat.max n n2)). rewrite exec_S. unfold exec_body.
  rewrite (eval_mono_ok N P n (Nat.max n n2) _ _ _ _ _ H) by lia. cbn [rbind as_bool].
  apply (exec_block_mono_ok N P n2); [exact H2 | lia].
Qed.

Lemma XS_if1_false : forall n s mu C c body mu1,
  eval N P n s mu C c = ROk (VBool false, mu1) -> XS s mu C (SIf1 c body) (ONormal s) mu1.
Proof. intros. exists (S n). rewrite exec_S. unfold exec_body. rewrite H. reflexivity. Qed.

Lemma XS_if : forall n s mu C c t f (b : bool) mu1 o mu',
  eval N P n s mu C c = ROk (VBool b, mu1) -> XB s mu1 C (if b then t else f) o mu' -> XS s mu C (SIf c t f) o mu'.
Proof.
  intros n s mu C c t f b mu1 o mu' H (n2 & H2). exists (S (Nat.max n n2)). rewrite exec_S. unfold exec_body.
  rewrite (eval_mono_ok N P n (Nat.max n n2) _ _ _ _ _ H) by lia. cbn [rbind as_bool].
  destruct b; (apply (exec_block_mono_ok N P n2); [exact H2 | lia]).
Qed.

Lemma XS_while_false : forall n s mu C c body mu1,
  eval N P n s mu C c = ROk (VBool false, mu1) -> XS s mu C (SWhile c body) (ONormal s) mu1.
Proof. intros. exists (S n). rewrite exec_S. unfold exec_body. rewrite H. reflexivity. Qed.

Lemma XS_while_ret : forall n s mu C c body mu1 v mu2,
  eval N P n s mu C c = ROk (VBool true, mu1) -> XB s mu1 C body (OReturn v) mu2 ->
  XS s mu C (SWhile c body) (OReturn v) mu2.
Proof.
  intros n s mu C c body mu1 v mu2 H (n2 & H2). exists (S (Nat.max n n2)). rewrite exec_S. unfold exec_body.
  rewrite (eval_mono_ok N P n (Nat.max n n2) _ _ _ _ _ H) by lia. cbn [rbind as_bool].
  rewrite (exec_block_mono_ok N P n2 (Nat.max n n2) _ _ _ _ _ H2) by lia. reflexivity.
Qed.

Lemma XS_while_step : forall n s mu C c body mu1 s1 mu2 o mu',
  eval N P n s mu C c = ROk (VBool true, mu1) -> XB s mu1 C body (ONormal s1) mu2 ->
  XS s1 mu2 C (SWhile c body) o mu' -> XS s mu C (SWhile c body) o mu'.
Proof.
  intros n s mu C c body mu1 s1 mu2 o mu' H (n2 & H2) (n3 & H3).
  exists (S (Nat.max n (Nat.max n2 n3))). rewrite exec_S. unfold exec_body.
  rewrite (eval_mono_ok N P n (Nat.max n (Nat.max n2 n3)) _ _ _ _ _ H) by lia. cbn [rbind as_bool].
  rewrite (exec_block_mono_ok N P n2 (Nat.max n (Nat.max n2 n3)) _ _ _ _ _ H2) by lia. cbn [rbind].
  apply (exec_mono_ok N P n3); [exact H3 | lia].
Qed.

Lemma XS_for : forall n s mu C p it body vi mu1 l vs o mu',
  eval N P n s mu C it = ROk (vi, mu1) -> as_list mu1 vi = ROk (l, vs) -> XF s mu1 C p l O body o mu' ->
  XS s mu C (SFor p it body) o mu'.
Proof.
  intros n s mu C p it body vi mu1 l vs o mu' H Hl (n2 & H2). exists (S (Nat.max n n2)). rewrite exec_S. unfold exec_body.
  rewrite (eval_mono_ok N P n (Nat.max n n2) _ _ _ _ _ H) by lia. cbn [rbind]. rewrite Hl. cbn [rbind].
  apply (for_loop_mono_ok N P n2); [exact H2 | lia].
Qed.

Lemma XF_done : forall s mu C p l i body vs, store_get mu l = Some vs -> nth_error vs i = None ->
  XF s mu C p l i body (ONormal s) mu.
Proof. intros. exists 1%nat. rewrite for_loop_S. unfold for_loop_body. rewrite H, H0. reflexivity. Qed.

Lemma XF_ret : forall s mu C p l i body vs x s1 v mu1, store_get mu l = Some vs -> nth_error vs i = Some x ->
  bind_pat p x s = Ok s1 -> XB s1 mu C body (OReturn v) mu1 -> XF s mu C p l i body (OReturn v) mu1.
Proof.
  intros s mu C p l i body vs x s1 v mu1 H H0 Hb (n2 & H2). exists (S n2). rewrite for_loop_S. unfold for_loop_body.
  rewrite H, H0, Hb. cbn [lift rbind]. rewrite H2. reflexivity.
Qed.

Lemma XF_step : forall s mu C p l i body vs x s1 s2 mu1 o mu', store_get mu l = Some vs -> nth_error vs i = Some x ->
  bind_pat p x s = Ok s1 -> XB s1 mu C body (ONormal s2) mu1 -> XF s2 mu1 C p l (S i) body o mu' ->
  XF s mu C p l i body o mu'.
Proof.
  intros s mu C p l i body vs x s1 s2 mu1 o mu' H H0 Hb (n2 & H2) (n3 & H3).
  exists (S (Nat.max n2 n3)). rewrite for_loop_S. unfold for_loop_body.
  rewrite H, H0, Hb. cbn [lift rbind].
  rewrite (exec_block_mono_ok N P n2 (Nat.max n2 n3) _ _ _ _ _ H2) by lia. cbn [rbind].
  apply (for_loop_mono_ok N P n3); [exact H3 | lia].
Qed.

Lemma XS_context : forall n s mu C x e body C' mu1 o mu',
  eval N P n s mu CReal e = ROk (VCtx C', mu1) ->
  XB (match x with Some x => env_set s x (VCtx C') | None => s end) mu1 C' body o mu' ->
  XS s mu C (SContext x e body) o mu'.
Proof.
  intros n s mu C x e body C' mu1 o mu' H (n2 & H2). exists (S (Nat.max n n2)). rewrite exec_S. unfold exec_body.
  rewrite (eval_mono_ok N P n (Nat.max n n2) _ _ _ _ _ H) by lia. cbn [rbind].
  apply (exec_block_mono_ok N P n2); [exact H2 | lia].
Qed.

(* ---------------------------------------------------------------- expressions: same text, agreeing environments *)
Lemma eval_eq_agree : forall n L s s' mu C e e' r, expr_eqb e e' = true -> agree L s s' -> incl (efv [] e) L ->
  eval N P n s mu C e = ROk r -> eval N P n s' mu C e' = ROk r.
Proof.
  intros n L s s' mu C e e' r He HA Hi H. eapply expr_eqb_sound; [exact He|].
  rewrite <- (eval_agree N P n L s s' mu C e HA Hi). exact H.
Qed.

Lemma index_walk_agree : forall idx n L s s' mu C cur v, agree L s s' -> incl (flat_map (efv []) idx) L ->
  index_walk N P n s mu C cur idx v = index_walk N P n s' mu C cur idx v.
Proof.
  induction idx as [|i rest IH]; intros n L s s' mu C cur v HA Hi.
  - destruct n; reflexivity.
  - destruct n; [reflexivity|]. rewrite !index_walk_S. unfold index_walk_body.
    cbn [flat_map] in Hi.
    assert (Hi1 : incl (efv [] i) L) by (intros z Hz; apply Hi; apply in_or_app; auto).
    assert (Hi2 : incl (flat_map (efv []) rest) L) by (intros z Hz; apply Hi; apply in_or_app; auto).
    rewrite (eval_agree N P n L s s' mu C i HA Hi1).
    destruct rest as [|j rest]; [reflexivity|].
    destruct (eval N P n s' mu C i) as [[vi m1]| |]; cbn [rbind]; try reflexivity.
    destruct (cvt_index vi) as [k| |]; cbn [rbind]; try reflexivity.
    destruct (as_list m1 cur) as [[l0 vs]| |]; cbn [rbind]; try reflexivity.
    destruct (list_nth vs k) as [nxt| |]; cbn [rbind]; try reflexivity.
    eapply IH; eassumption.
Qed.

Lemma index_walk_eqb : forall idx idx', vexprs no_leaf no_kb [] idx idx' = true ->
  forall n s mu C cur v m, index_walk N P n s mu C cur idx v = ROk m -> index_walk N P n s mu C cur idx' v = ROk m.
Proof.
  induction idx as [|i rest IH]; intros idx' Hv n s mu C cur v m H.
  - destruct n; [discriminate|]. rewrite index_walk_S in H. discriminate.
  - destruct idx' as [|i' rest']; [discriminate|]. cbn [vexprs] in Hv. apply andb_prop in Hv. destruct Hv as [Hi Hr].
    destruct n; [discriminate|]. rewrite index_walk_S in *. unfold index_walk_body in *.
    destruct rest as [|j rest].
    + destruct rest' as [|? ?]; [|discriminate].
      destruct (rbind_ok _ _ _ _ _ H) as ([vi m1] & E1 & H1).
      rewrite (expr_eqb_sound N P n i i' s mu C _ Hi E1). cbn [rbind]. exact H1.
    + destruct rest' as [|j' rest']; [discriminate|].
      destruct (rbind_ok _ _ _ _ _ H) as ([vi m1] & E1 & H1).
      rewrite (expr_eqb_sound N P n i i' s mu C _ Hi E1). cbn [rbind].
      destruct (cvt_index vi) as [k| |]; cbn [rbind] in *; try discriminate.
      destruct (as_list m1 cur) as [[l0 vs]| |]; cbn [rbind] in *; try discriminate.
      destruct (list_nth vs k) as [nxt| |]; cbn [rbind] in *; try discriminate.
      eapply IH; eassumption.
Qed.

(* ---------------------------------------------------------------- scrubbed patterns *)
Lemma pat_scrub_incl : forall p q L L', pat_scrub_ok L p q = true -> incl L' L -> pat_scrub_ok L' p q = true.
Proof.
  induction p as [x| |ps IH] using pat_ind2; intros q L L' H Hi; destruct q as [y| |qs]; cbn in *; try discriminate; auto.
  - apply negb_true_iff in H. apply negb_true_iff. apply vmem_false in H. apply vmem_false. intro; apply H; auto.
  - revert qs H. induction IH as [|p ps Hp _ IHps]; intros [|q qs] H; try discriminate; auto.
    apply andb_prop in H. destruct H as [H1 H2]. rewrite (Hp q L L' H1 Hi). cbn. apply IHps. exact H2.
Qed.

Lemma agree_vdiff_app : forall L A B s s', agree (vdiff L (A ++ B)) s s' -> agree (vdiff (vdiff L B) A) s s'.
Proof.
  intros L A B s s' H x Hx. apply H. unfold vdiff in *. apply filter_In in Hx. destruct Hx as [Hx Ha].
  apply filter_In in Hx. destruct Hx as [Hx Hb]. apply filter_In. split; [exact Hx|].
  apply negb_true_iff in Ha. apply negb_true_iff in Hb. apply negb_true_iff.
  apply vmem_false in Ha. apply vmem_false in Hb. apply vmem_false. intro Hin. apply in_app_or in Hin. tauto.
Qed.

Lemma pat_scrub_bind : forall p q L v s s' s1, pat_scrub_ok L p q = true -> agree (vdiff L (pvars q)) s s' ->
  bind_pat p v s = Ok s1 -> exists s1', bind_pat q v s' = Ok s1' /\ agree L s1 s1'.
Proof.
  induction p as [x| |ps IH] using pat_ind2; intros q L v s s' s1 Hs HA Hb; destruct q as [y| |qs]; cbn [pat_scrub_ok] in Hs; try discriminate.
  - apply String.eqb_eq in Hs. subst y. cbn in *. inversion Hb; subst. eexists; split; [reflexivity|].
    intros z Hz. destruct (string_dec x z) as [->|Hne].
    + rewrite !env_get_set_same. reflexivity.
    + rewrite !env_get_set_other by assumption. apply HA. apply vdiff_In; [exact Hz|]. intros [Hq|[]]. congruence.
  - apply negb_true_iff in Hs. apply vmem_false in Hs. cbn in *. inversion Hb; subst. eexists; split; [reflexivity|].
    intros z Hz. destruct (string_dec x z) as [->|Hne]; [contradiction|].
    rewrite env_get_set_other by assumption. apply HA. apply vdiff_In; [exact Hz | intros []].
  - cbn in *. inversion Hb; subst. eexists; split; [reflexivity|].
    intros z Hz. apply HA. apply vdiff_In; [exact Hz | intros []].
  - rewrite bind_pat_tuple in Hb. rewrite bind_pat_tuple. destruct v; try discriminate.
    assert (Hlen : List.length qs = List.length ps).
    { clear - Hs. revert qs Hs. induction ps as [|p ps IHp]; intros [|q qs] H; try discriminate; auto.
      apply andb_prop in H. destruct H as [_ H]. cbn. f_equal. apply IHp. exact H. }
    rewrite Hlen. destruct (Nat.eqb (List.length ps) (List.length vs)) eqn:El; cbn [negb] in *; [|discriminate].
    apply Nat.eqb_eq in El.
    cbn [pvars] in HA. clear Hlen. revert qs vs L s s' s1 Hs HA Hb El.
    induction IH as [|p ps Hp _ IHps]; intros qs vs L s s' s1 Hs HA Hb El.
    + destruct qs; [|discriminate]. cbn in *. inversion Hb; subst. eexists; split; [reflexivity|].
      intros z Hz. apply HA. apply vdiff_In; [exact Hz | intros []].
    + destruct qs as [|q qs]; [discriminate|]. apply andb_prop in Hs. destruct Hs as [Hs1 Hs2].
      destruct vs as [|v vs]; [discriminate El|].
      cbn [bind_pats] in Hb |- *. destruct (bind_pat p v s) as [s2|] eqn:B1; cbn [bind] in Hb; [|discriminate].
      cbn [flat_map] in HA.
      destruct (Hp q (vdiff L (flat_map pvars qs)) v s s' s2) as (s2' & B1' & HA2).
      * eapply pat_scrub_incl; [exact Hs1|]. intros z Hz. unfold vdiff in Hz. apply filter_In in Hz. tauto.
      * apply agree_vdiff_app. exact HA.
      * exact B1.
      * rewrite B1'. cbn [bind]. eapply IHps; try eassumption. cbn in El. lia.
Qed.


Lemma vd_S : forall d Lout b b', vd (S d) Lout b b' =
    let skip_pass :=
      match b' with
      | SPass :: r' => vd d Lout b r'
      | _ => None
      end in
    match b with
    | [] => match b' with [] => Some Lout | _ => skip_pass end
    | st :: r =>
        let dropped :=
          if noeffect st then
            match vd d Lout r b' with
            | Some L => if vdisj (bound st) L then Some L else None
            | None => None
            end
          else None in
        let spliced :=
          match st with
          | SIf1 (EBool true) body => vd d Lout (body ++ r) b'
          | SIf1 (EBool false) _ => vd d Lout r b'
          | SIf (EBool true) t _ => vd d Lout (t ++ r) b'
          | SIf (EBool false) _ f => vd d Lout (f ++ r) b'
          | SWhile (EBool false) _ => vd d Lout r b'
          | _ => None
          end in
        let kept :=
          match b' with
          | st' :: r' =>
              if negb (same_head st st') then None else
              match vd d Lout r r' with
              | Some L1 => vk d L1 st st'
              | None => None
              end
          | [] => None
          end in
        orelse kept (orelse dropped (orelse spliced skip_pass))
    end.
Proof. reflexivity. Qed.

Lemma vk_S : forall d L1 st st', vk (S d) L1 st st' =
    match st, st' with
    | SAssign p e, SAssign p' e' =>
        if expr_eqb e e' && pat_scrub_ok L1 p p' then Some (vdiff L1 (pvars p') ++ efv [] e) else None
    | SIndexAssign x idx e, SIndexAssign x' idx' e' =>
        if String.eqb x x' && vexprs no_leaf no_kb [] idx idx' && expr_eqb e e'
        then Some (x :: flat_map (efv []) idx ++ efv [] e ++ L1) else None
    | SIf1 c body, SIf1 c' body' =>
        if expr_eqb c c' then
          match vd d L1 body body' with
          | Some Lb => Some (efv [] c ++ Lb ++ L1)
          | None => None
          end
        else None
    | SIf c t f, SIf c' t' f' =>
        if expr_eqb c c' then
          match vd d L1 t t', vd d L1 f f' with
          | Some Ltr, Some Lf => Some (efv [] c ++ Ltr ++ Lf)
          | _, _ => None
          end
        else None
    | SIf c t f, SIf1 (ENot c') f' =>
        (* if c: <nothing> else: f   ==>   if not c: f *)
        if expr_eqb c c' && pure_na c && forallb noeffect t && vdisj (bound_block t) L1 then
          match vd d L1 f f' with
          | Some Lf => Some (efv [] c ++ Lf ++ L1)
          | None => None
          end
        else
          (* (c itself may be a negation) if c: t else: <nothing>  ==>  if c: t *)
          if expr_eqb c (ENot c') && forallb noeffect f && vdisj (bound_block f) L1 then
            match vd d L1 t f' with
            | Some Ltr => Some (efv [] c ++ Ltr ++ L1)
            | None => None
            end
          else None
    | SIf c t f, SIf1 c' t' =>
        if expr_eqb c c' && forallb noeffect f && vdisj (bound_block f) L1 then
          match vd d L1 t t' with
          | Some Ltr => Some (efv [] c ++ Ltr ++ L1)
          | None => None
          end
        else None
    | SWhile c body, SWhile c' body' =>
        if expr_eqb c c' then
          match close_live d (fun L => vd d L body body') (efv [] c ++ L1) with
          | Some Lh =>
              (* re-check what the proof uses *)
              match vd d Lh body body' with
              | Some Lb => if vincl Lb Lh && vincl L1 Lh && vincl (efv [] c) Lh then Some Lh else None
              | None => None
              end
          | None => None
          end
        else None
    | SFor p it body, SFor p' it' body' =>
        if pat_eqb p p' && expr_eqb it it' then
          match close_live d (fun L => match vd d L body body' with
                                        | Some Lb => Some (vdiff Lb (pvars p))
                                        | None => None
                                        end) L1 with
          | Some Lh =>
              match vd d Lh body body' with
              | Some Lb => if vincl (vdiff Lb (pvars p)) Lh && vincl L1 Lh then Some (efv [] it ++ Lh) else None
              | None => None
              end
          | None => None
          end
        else None
    | SContext x e body, SContext x' e' body' =>
        if oident_eqb x x' && expr_eqb e e' then
          match vd d L1 body body' with
          | Some Lb => Some (efv [] e ++ vdiff Lb (ovar x))
          | None => None
          end
        else None
    | SAssert e, SAssert e' => if expr_eqb e e' then Some (efv [] e ++ L1) else None
    | SEffect e, SEffect e' => if expr_eqb e e' then Some (efv [] e ++ L1) else None
    | SReturn e, SReturn e' => if expr_eqb e e' then Some (efv [] e) else None
    | SPass, SPass => Some L1
    | _, _ => None
    end.
Proof. reflexivity. Qed.

(* ---------------------------------------------------------------- the simulation *)
Definition orel (L : vars) (o o' : outcome) : Prop :=
  match o, o' with
  | ONormal s1, ONormal s2 => agree L s1 s2
  | OReturn v, OReturn v' => v = v'
  | _, _ => False
  end.

Lemma orel_incl : forall L L' o o', orel L o o' -> incl L' L -> orel L' o o'.
Proof. intros L L' [s1|v] [s2|v'] H Hi; cbn in *; auto. eapply agree_incl; eassumption. Qed.

Lemma orelse_some : forall A (a b : option A) x, orelse a b = Some x -> a = Some x \/ (a = None /\ b = Some x).
Proof. intros A [y|] b x H; cbn in H; auto. Qed.

Lemma incl_app_l2 : forall (A B : vars), incl A (A ++ B).
Proof. intros A B x Hx. apply in_or_app. auto. Qed.
Lemma incl_app_r2 : forall (A B : vars), incl B (A ++ B).
Proof. intros A B x Hx. apply in_or_app. auto. Qed.

Lemma agree_drop : forall L W s s1 s', agree L s s' -> keeps W s s1 -> vdisj W L = true -> agree L s1 s'.
Proof.
  intros L W s s1 s' HA Hk Hd x Hx. rewrite (Hk x); [apply HA; exact Hx|].
  intro Hw. eapply vdisj_spec in Hd; [|exact Hw]. contradiction.
Qed.

Lemma while_dce : forall Lh L1 c c' body body' Lb,
  expr_eqb c c' = true -> incl (efv [] c) Lh -> incl Lb Lh -> incl L1 Lh ->
  (forall n s s' mu C o mu', agree Lb s s' -> exec_block N P n s mu C body = ROk (o, mu') ->
     exists o', XB s' mu C body' o' mu' /\ orel Lh o o') ->
  forall n s s' mu C o mu', agree Lh s s' -> exec N P n s mu C (SWhile c body) = ROk (o, mu') ->
    exists o', XS s' mu C (SWhile c' body') o' mu' /\ orel L1 o o'.
Proof.
  intros Lh L1 c c' body body' Lb Hc Hic Hib Hi1 Hbody. induction n as [|n IH]; intros s s' mu C o mu' HA H; [discriminate|].
  rewrite exec_S in H. unfold exec_body in H.
  destruct (rbind_ok _ _ _ _ _ H) as ([vc m1] & E1 & H1). clear H.
  pose proof (eval_eq_agree n Lh s s' mu C c c' _ Hc HA Hic E1) as E1'.
  destruct (as_bool vc) as [t| |] eqn:Eb; cbn [rbind] in H1; try discriminate.
  destruct vc; try discriminate. cbn in Eb. inversion Eb; subst b. clear Eb.
  destruct t.
  - destruct (rbind_ok _ _ _ _ _ H1) as ([o1 m2] & E2 & H2). clear H1.
    destruct (Hbody n s s' m1 C o1 m2 (agree_incl _ _ _ _ HA Hib) E2) as (o1' & X2 & R2).
    destruct o1 as [s1|v1], o1' as [s1'|v1']; cbn [orel] in R2; try contradiction.
    + destruct (IH s1 s1' m2 C o mu' R2 H2) as (o' & X3 & R3).
      exists o'. split; [|exact R3]. eapply XS_while_step; eassumption.
    + subst v1'. inversion H2; subst. exists (OReturn v1). split; [|reflexivity]. eapply XS_while_ret; eassumption.
  - inversion H1; subst. exists (ONormal s'). split; [eapply XS_while_false; eassumption|].
    cbn. eapply agree_incl; eassumption.
Qed.

Lemma for_dce : forall Lh L1 p body body' Lb,
  incl (vdiff Lb (pvars p)) Lh -> incl L1 Lh ->
  (forall n s s' mu C o mu', agree Lb s s' -> exec_block N P n s mu C body = ROk (o, mu') ->
     exists o', XB s' mu C body' o' mu' /\ orel Lh o o') ->
  forall n s s' mu C l i o mu', agree Lh s s' -> for_loop N P n s mu C p l i body = ROk (o, mu') ->
    exists o', XF s' mu C p l i body' o' mu' /\ orel L1 o o'.
Proof.
  intros Lh L1 p body body' Lb Hib Hi1 Hbody. induction n as [|n IH]; intros s s' mu C l i o mu' HA H; [discriminate|].
  rewrite for_loop_S in H. unfold for_loop_body in H.
  destruct (store_get mu l) as [vs|] eqn:Sg; [|discriminate].
  destruct (nth_error vs i) as [x|] eqn:Nx.
  - pose proof (bind_pat_agree p x s s' Lh HA) as HB.
    destruct (bind_pat p x s) as [s1|] eqn:B1; cbn [lift rbind] in H; [|discriminate].
    destruct (bind_pat p x s') as [s1'|] eqn:B1'; [|contradiction].
    destruct (rbind_ok _ _ _ _ _ H) as ([o1 m2] & E2 & H2). clear H.
    assert (HAb : agree Lb s1 s1').
    { intros z Hz. apply HB. apply in_or_app. destruct (in_dec string_dec z (pvars p)) as [Hin|Hnin]; [left; exact Hin|].
      right. apply Hib. apply vdiff_In; assumption. }
    destruct (Hbody n s1 s1' mu C o1 m2 HAb E2) as (o1' & X2 & R2).
    destruct o1 as [s2|v1], o1' as [s2'|v1']; cbn [orel] in R2; try contradiction.
    + destruct (IH s2 s2' m2 C l (S i) o mu' R2 H2) as (o' & X3 & R3).
      exists o'. split; [|exact R3]. eapply XF_step; eassumption.
    + subst v1'. inversion H2; subst. exists (OReturn v1). split; [|reflexivity]. eapply XF_ret; eassumption.
  - inversion H; subst. exists (ONormal s'). split; [eapply XF_done; eassumption|].
    cbn. eapply agree_incl; eassumption.
Qed.

Lemma eval_bool_lit : forall n s mu C b r, eval N P n s mu C (EBool b) = ROk r -> r = (VBool b, mu).
Proof. intros n s mu C b r H. destruct n; [discriminate|]. rewrite eval_S in H. unfold eval_body in H. inversion H. reflexivity. Qed.

Lemma exec_if1_lit : forall n s mu C b body o mu', exec N P n s mu C (SIf1 (EBool b) body) = ROk (o, mu') ->
  if b then XB s mu C body o mu' else (o = ONormal s /\ mu' = mu).
Proof.
  intros n s mu C b body o mu' H. destruct n; [discriminate|]. rewrite exec_S in H. unfold exec_body in H.
  destruct (rbind_ok _ _ _ _ _ H) as ([vc m1] & E1 & H1). apply eval_bool_lit in E1. inversion E1; subst. cbn [as_bool rbind] in H1.
  destruct b; [exists n; exact H1 | inversion H1; auto].
Qed.

Lemma exec_if_lit : forall n s mu C b t f o mu', exec N P n s mu C (SIf (EBool b) t f) = ROk (o, mu') ->
  XB s mu C (if b then t else f) o mu'.
Proof.
  intros n s mu C b t f o mu' H. destruct n; [discriminate|]. rewrite exec_S in H. unfold exec_body in H.
  destruct (rbind_ok _ _ _ _ _ H) as ([vc m1] & E1 & H1). apply eval_bool_lit in E1. inversion E1; subst. cbn [as_bool rbind] in H1.
  exists n. destruct b; exact H1.
Qed.

Lemma exec_while_false : forall n s mu C body o mu', exec N P n s mu C (SWhile (EBool false) body) = ROk (o, mu') ->
  o = ONormal s /\ mu' = mu.
Proof.
  intros n s mu C body o mu' H. destruct n; [discriminate|]. rewrite exec_S in H. unfold exec_body in H.
  destruct (rbind_ok _ _ _ _ _ H) as ([vc m1] & E1 & H1). apply eval_bool_lit in E1. inversion E1; subst. cbn [as_bool rbind] in H1.
  inversion H1; auto.
Qed.

Lemma splice : forall body r n s mu C o1 m1 o mu',
  XB s mu C body o1 m1 ->
  match o1 with ONormal s1 => exec_block N P n s1 m1 C r | OReturn v => ROk (OReturn v, m1) end = ROk (o, mu') ->
  XB s mu C (body ++ r) o mu'.
Proof.
  intros body r n s mu C o1 m1 o mu' X H. destruct o1 as [s1|v1].
  - eapply XB_app; [exact X | exists n; exact H].
  - inversion H; subst. apply XB_app_ret. exact X.
Qed.

Definition dce_at (d : nat) : Prop :=
  (forall Lout b b' Lin, vd d Lout b b' = Some Lin -> forall n s s' mu C o mu', agree Lin s s' ->
     exec_block N P n s mu C b = ROk (o, mu') -> exists o', XB s' mu C b' o' mu' /\ orel Lout o o') /\
  (forall L1 st st' Lin, vk d L1 st st' = Some Lin -> forall n s s' mu C o mu', agree Lin s s' ->
     exec N P n s mu C st = ROk (o, mu') -> exists o', XS s' mu C st' o' mu' /\ orel L1 o o').

Ltac ifb H B := match type of H with (if ?b then _ else _) = _ => destruct b eqn:B; [|discriminate H] end.

Lemma dce_step : forall d, dce_at d -> dce_at (S d).
Proof.
  intros d (IHd & IHk). split.
  - (* blocks *)
    intros Lout b b' Lin Hv n s s' mu C o mu' HA H. rewrite vd_S in Hv. cbv zeta in Hv.
    assert (SKIP : forall Lin0, match b' with SPass :: r' => vd d Lout b r' | _ => None end = Some Lin0 ->
              agree Lin0 s s' -> exists o', XB s' mu C b' o' mu' /\ orel Lout o o').
    { intros Lin0 Hs HA0. destruct b' as [|[] r']; try discriminate Hs.
      destruct (IHd _ _ _ _ Hs n s s' mu C o mu' HA0 H) as (o' & X & R). exists o'. split; [apply XB_pass; exact X | exact R]. }
    destruct b as [|st r].
    + destruct b' as [|st' r'].
      * inversion Hv; subst Lin. destruct n; [discriminate|]. inversion H; subst.
        exists (ONormal s'). split; [apply XB_nil | exact HA].
      * eapply SKIP; eassumption.
    + destruct n; [discriminate|]. rewrite exec_block_S in H. unfold exec_block_body in H.
      destruct (rbind_ok _ _ _ _ _ H) as ([o1 m1] & E1 & H1).
      apply orelse_some in Hv. destruct Hv as [Hv|[_ Hv]].
      { (* kept *)
        destruct b' as [|st' r']; [discriminate|].
        destruct (negb (same_head st st')); [discriminate|].
        destruct (vd d Lout r r') as [L1|] eqn:V1; [|discriminate].
        destruct (IHk _ _ _ _ Hv n s s' mu C o1 m1 HA E1) as (o1' & X1 & R1).
        destruct o1 as [s1|v1], o1' as [s1'|v1']; cbn [orel] in R1; try contradiction.
        - destruct (IHd _ _ _ _ V1 n s1 s1' m1 C o mu' R1 H1) as (o' & X2 & R2).
          exists o'. split; [eapply XB_cons; eassumption | exact R2].
        - subst v1'. inversion H1; subst. exists (OReturn v1). split; [apply XB_cons_ret; exact X1 | reflexivity]. }
      apply orelse_some in Hv. destruct Hv as [Hv|[_ Hv]].
      { (* dropped *)
        destruct (noeffect st) eqn:Ne; [|discriminate].
        destruct (vd d Lout r b') as [L|] eqn:V1; [|discriminate].
        ifb Hv Dj. inversion Hv; subst L.
        destruct (noeffect_exec n s mu C st o1 m1 Ne E1) as (s1 & -> & -> & Hk).
        eapply (IHd _ _ _ _ V1 n s1 s' mu C o mu'); [|exact H1].
        eapply agree_drop; eassumption. }
      apply orelse_some in Hv. destruct Hv as [Hv|[_ Hv]].
      { (* spliced *)
        assert (CONT : forall b2, XB s mu C b2 o mu' -> vd d Lout b2 b' = Some Lin ->
                  exists o', XB s' mu C b' o' mu' /\ orel Lout o o').
        { intros b2 (n2 & X2) V2. eapply (IHd _ _ _ _ V2 n2 s s' mu C o mu'); eassumption. }
        destruct st; try discriminate Hv.
        - (* SIf1 *) destruct c; try discriminate Hv. pose proof (exec_if1_lit _ _ _ _ _ _ _ _ E1) as X. destruct b.
          + eapply CONT; [|exact Hv]. eapply splice; eassumption.
          + destruct X as [-> ->]. eapply CONT; [exists n; exact H1 | exact Hv].
        - (* SIf *) destruct c; try discriminate Hv. pose proof (exec_if_lit _ _ _ _ _ _ _ _ _ E1) as X. destruct b.
          + eapply CONT; [|exact Hv]. eapply splice; eassumption.
          + eapply CONT; [|exact Hv]. eapply splice; eassumption.
        - (* SWhile *) destruct c; try discriminate Hv. destruct b; try discriminate Hv.
          destruct (exec_while_false _ _ _ _ _ _ _ E1) as [-> ->]. eapply CONT; [exists n; exact H1 | exact Hv]. }
      (* skip_pass *)
      eapply SKIP; [exact Hv | exact HA].
  - (* a kept statement *)
    intros L1 st st' Lin Hv n s s' mu C o mu' HA H. rewrite vk_S in Hv.
    destruct n; [discriminate|]. rewrite exec_S in H. unfold exec_body in H.
    destruct st, st'; lazy beta iota in Hv; try discriminate Hv.
    + (* SAssign *)
      ifb Hv B. inversion Hv; subst Lin. clear Hv. apply andb_prop in B. destruct B as [Be Bp].
      destruct (rbind_ok _ _ _ _ _ H) as ([v m1] & E1 & H1). clear H.
      pose proof (eval_eq_agree n _ s s' mu C e e0 _ Be HA (incl_app_r2 _ _) E1) as E1'.
      destruct (bind_pat p v s) as [s1|] eqn:B1; cbn [lift rbind] in H1; [|discriminate]. inversion H1; subst.
      destruct (pat_scrub_bind p p0 L1 v s s' s1 Bp (agree_incl _ _ _ _ HA (incl_app_l2 _ _)) B1) as (s1' & B1' & HA1).
      exists (ONormal s1'). split; [eapply XS_assign; eassumption | exact HA1].
    + (* SIndexAssign *)
      ifb Hv B. inversion Hv; subst Lin. clear Hv. apply andb_prop in B. destruct B as [B Be]. apply andb_prop in B. destruct B as [Bx Bi].
      apply String.eqb_eq in Bx. subst x0.
      destruct (rbind_ok _ _ _ _ _ H) as ([v m1] & E1 & H1). clear H.
      assert (I1 : incl (efv [] e) (x :: flat_map (efv []) idx ++ efv [] e ++ L1)).
      { intros z Hz. right. apply in_or_app. right. apply in_or_app. left. exact Hz. }
      assert (I2 : incl (flat_map (efv []) idx) (x :: flat_map (efv []) idx ++ efv [] e ++ L1)).
      { intros z Hz. right. apply in_or_app. left. exact Hz. }
      pose proof (eval_eq_agree n _ s s' mu C e e0 _ Be HA I1 E1) as E1'.
      destruct (env_get s x) as [cur|] eqn:Gx; [|discriminate].
      destruct (rbind_ok _ _ _ _ _ H1) as (m2 & E2 & H2). inversion H2; subst. clear H1 H2.
      rewrite (index_walk_agree idx n _ s s' m1 C cur v HA I2) in E2.
      pose proof (index_walk_eqb idx idx0 Bi n s' m1 C cur v _ E2) as E2'.
      exists (ONormal s'). split.
      * exists (S n). rewrite exec_S. unfold exec_body. rewrite E1'. cbn [rbind].
        rewrite <- (HA x (or_introl eq_refl)), Gx. rewrite E2'. reflexivity.
      * cbn. eapply agree_incl; [exact HA|]. intros z Hz. right. apply in_or_app. right. apply in_or_app. right. exact Hz.
    + (* SIf1 / SIf1 *)
      ifb Hv B. destruct (vd d L1 body body0) as [Lb|] eqn:Vb; [|discriminate]. inversion Hv; subst Lin. clear Hv.
      destruct (rbind_ok _ _ _ _ _ H) as ([vc m1] & E1 & H1). clear H.
      pose proof (eval_eq_agree n _ s s' mu C c c0 _ B HA (incl_app_l2 _ _) E1) as E1'.
      destruct (as_bool vc) as [t| |] eqn:Eb; cbn [rbind] in H1; try discriminate.
      destruct vc; try discriminate. cbn in Eb. inversion Eb; subst b. clear Eb.
      destruct t.
      * destruct (IHd _ _ _ _ Vb n s s' m1 C o mu') as (o' & X & R); [|exact H1|].
        { eapply agree_incl; [exact HA|]. intros z Hz. apply in_or_app. right. apply in_or_app. left. exact Hz. }
        exists o'. split; [eapply XS_if1_true; eassumption | exact R].
      * inversion H1; subst. exists (ONormal s'). split; [eapply XS_if1_false; eassumption|].
        cbn. eapply agree_incl; [exact HA|]. intros z Hz. apply in_or_app. right. apply in_or_app. right. exact Hz.
    + (* SIf / SIf1 *)
      destruct (rbind_ok _ _ _ _ _ H) as ([vc m1] & E1 & H1). clear H.
      destruct (as_bool vc) as [t| |] eqn:Eb; cbn [rbind] in H1; try discriminate.
      destruct vc; try discriminate. cbn in Eb. inversion Eb; subst b. clear Eb.
      (* the general shape: one branch kept as the body, the other one without effect *)
      assert (GEN : forall cc tb, expr_eqb c cc = true -> forallb noeffect iff = true -> vdisj (bound_block iff) L1 = true ->
                vd d L1 ift tb = Some (* live *) (match vd d L1 ift tb with Some x => x | None => [] end) ->
                incl (efv [] c) Lin -> incl (match vd d L1 ift tb with Some x => x | None => [] end) Lin -> incl L1 Lin ->
                exists o', XS s' mu C (SIf1 cc tb) o' mu' /\ orel L1 o o').
      { intros cc tb Bc Nf Df Vt I1 I2 I3.
        pose proof (eval_eq_agree n _ s s' mu C c cc _ Bc HA I1 E1) as E1'.
        destruct t.
        - destruct (IHd _ _ _ _ Vt n s s' m1 C o mu' (agree_incl _ _ _ _ HA I2) H1) as (o' & X & R).
          exists o'. split; [eapply XS_if1_true; eassumption | exact R].
        - destruct (noeffect_block n s m1 C iff o mu' Nf H1) as (s1 & -> & -> & Hk).
          exists (ONormal s'). split; [eapply XS_if1_false; eassumption|].
          cbn. eapply agree_drop; [eapply agree_incl; [exact HA | exact I3] | exact Hk | exact Df]. }
      destruct c0; try (
        ifb Hv B; apply andb_prop in B; destruct B as [B Df]; apply andb_prop in B; destruct B as [Bc Nf];
        destruct (vd d L1 ift body) as [Ltr|] eqn:Vt; [|discriminate]; inversion Hv; subst Lin;
        eapply GEN; try eassumption;
        [ rewrite Vt; reflexivity | apply incl_app_l2
        | rewrite Vt; intros z Hz; apply in_or_app; right; apply in_or_app; left; exact Hz
        | intros z Hz; apply in_or_app; right; apply in_or_app; right; exact Hz ]).
      (* c0 = ENot c0 *)
      match type of Hv with (if ?b then _ else _) = _ => destruct b eqn:B end.
      * (* if c: <nothing> else: f  ==>  if not c': f' *)
        apply andb_prop in B. destruct B as [B Dt]. apply andb_prop in B. destruct B as [B Nt]. apply andb_prop in B. destruct B as [Bc Pc].
        destruct (vd d L1 iff body) as [Lf|] eqn:Vf; [|discriminate]. inversion Hv; subst Lin. clear Hv.
        pose proof (eval_eq_agree n _ s s' mu C c c0 _ Bc HA (incl_app_l2 _ _) E1) as E1'.
        assert (EN : eval N P (S n) s' mu C (ENot c0) = ROk (VBool (negb t), m1)).
        { rewrite eval_S. unfold eval_body. rewrite E1'. reflexivity. }
        destruct t; cbn [negb] in EN.
        -- destruct (noeffect_block n s m1 C ift o mu' Nt H1) as (s1 & -> & -> & Hk).
           exists (ONormal s'). split; [eapply XS_if1_false; exact EN|].
           cbn. eapply agree_drop; [eapply agree_incl; [exact HA|] | exact Hk | exact Dt].
           intros z Hz. apply in_or_app. right. apply in_or_app. right. exact Hz.
        -- destruct (IHd _ _ _ _ Vf n s s' m1 C o mu') as (o' & X & R); [|exact H1|].
           { eapply agree_incl; [exact HA|]. intros z Hz. apply in_or_app. right. apply in_or_app. left. exact Hz. }
           exists o'. split; [eapply XS_if1_true; [exact EN | exact X] | exact R].
      * ifb Hv B2. apply andb_prop in B2. destruct B2 as [B2 Df]. apply andb_prop in B2. destruct B2 as [Bc Nf].
        destruct (vd d L1 ift body) as [Ltr|] eqn:Vt; [|discriminate]. inversion Hv; subst Lin.
        eapply GEN; try eassumption.
        -- rewrite Vt; reflexivity.
        -- apply incl_app_l2.
        -- rewrite Vt; intros z Hz; apply in_or_app; right; apply in_or_app; left; exact Hz.
        -- intros z Hz; apply in_or_app; right; apply in_or_app; right; exact Hz.
    + (* SIf / SIf *)
      ifb Hv B. destruct (vd d L1 ift ift0) as [Ltr|] eqn:Vt; [|discriminate].
      destruct (vd d L1 iff iff0) as [Lf|] eqn:Vf; [|discriminate]. inversion Hv; subst Lin. clear Hv.
      destruct (rbind_ok _ _ _ _ _ H) as ([vc m1] & E1 & H1). clear H.
      pose proof (eval_eq_agree n _ s s' mu C c c0 _ B HA (incl_app_l2 _ _) E1) as E1'.
      destruct (as_bool vc) as [t| |] eqn:Eb; cbn [rbind] in H1; try discriminate.
      destruct vc; try discriminate. cbn in Eb. inversion Eb; subst b. clear Eb.
      destruct t.
      * destruct (IHd _ _ _ _ Vt n s s' m1 C o mu') as (o' & X & R); [|exact H1|].
        { eapply agree_incl; [exact HA|]. intros z Hz. apply in_or_app. right. apply in_or_app. left. exact Hz. }
        exists o'. split; [eapply (XS_if n s' mu C c0 ift0 iff0 true); eassumption | exact R].
      * destruct (IHd _ _ _ _ Vf n s s' m1 C o mu') as (o' & X & R); [|exact H1|].
        { eapply agree_incl; [exact HA|]. intros z Hz. apply in_or_app. right. apply in_or_app. right. exact Hz. }
        exists o'. split; [eapply (XS_if n s' mu C c0 ift0 iff0 false); eassumption | exact R].
    + (* SWhile *)
      ifb Hv B.
      match type of Hv with match ?cl with _ => _ end = _ => destruct cl as [Lh|] eqn:CL; [|discriminate] end.
      destruct (vd d Lh body body0) as [Lb|] eqn:Vb; [|discriminate].
      ifb Hv B3. inversion Hv; subst Lin. clear Hv.
      apply andb_prop in B3. destruct B3 as [B3 I3]. apply andb_prop in B3. destruct B3 as [I1 I2].
      apply vincl_spec in I1. apply vincl_spec in I2. apply vincl_spec in I3.
      eapply (while_dce Lh L1 c c0 body body0 Lb B I3 I1 I2).
      * intros n0 s0 s0' mu0 C0 o0 mu0' HA0 H0. eapply (IHd _ _ _ _ Vb); eassumption.
      * exact HA.
      * instantiate (1 := S n). rewrite exec_S. unfold exec_body. exact H.
    + (* SFor *)
      ifb Hv B. apply andb_prop in B. destruct B as [Bp Bi]. apply pat_eqb_eq in Bp. subst p0.
      match type of Hv with match ?cl with _ => _ end = _ => destruct cl as [Lh|] eqn:CL; [|discriminate] end.
      destruct (vd d Lh body body0) as [Lb|] eqn:Vb; [|discriminate].
      ifb Hv B3. inversion Hv; subst Lin. clear Hv.
      apply andb_prop in B3. destruct B3 as [I1 I2]. apply vincl_spec in I1. apply vincl_spec in I2.
      destruct (rbind_ok _ _ _ _ _ H) as ([vi m1] & E1 & H1). clear H.
      pose proof (eval_eq_agree n _ s s' mu C it it0 _ Bi HA (incl_app_l2 _ _) E1) as E1'.
      destruct (as_list m1 vi) as [[l vs]| |] eqn:Al; cbn [rbind] in H1; try discriminate.
      destruct (for_dce Lh L1 p body body0 Lb I1 I2) with (n := n) (s := s) (s' := s') (mu := m1) (C := C) (l := l) (i := O) (o := o) (mu' := mu') as (o' & X & R).
      * intros n0 s0 s0' mu0 C0 o0 mu0' HA0 H0. eapply (IHd _ _ _ _ Vb); eassumption.
      * eapply agree_incl; [exact HA | apply incl_app_r2].
      * exact H1.
      * exists o'. split; [eapply XS_for; eassumption | exact R].
    + (* SContext *)
      ifb Hv B. apply andb_prop in B. destruct B as [Bx Be]. apply oident_eqb_eq in Bx. subst x0.
      destruct (vd d L1 body body0) as [Lb|] eqn:Vb; [|discriminate]. inversion Hv; subst Lin. clear Hv.
      destruct (rbind_ok _ _ _ _ _ H) as ([vc m1] & E1 & H1). clear H.
      pose proof (eval_eq_agree n _ s s' mu CReal e e0 _ Be HA (incl_app_l2 _ _) E1) as E1'.
      destruct vc; try discriminate.
      destruct (IHd _ _ _ _ Vb n (match x with Some x0 => env_set s x0 (VCtx c) | None => s end) (match x with Some x0 => env_set s' x0 (VCtx c) | None => s' end) m1 c o mu') as (o' & X & R); [|exact H1|].
      { destruct x as [x|]; cbn [ovar] in *.
        - intros z Hz. destruct (string_dec x z) as [->|Hne].
          + rewrite !env_get_set_same. reflexivity.
          + rewrite !env_get_set_other by assumption. apply HA. apply in_or_app. right.
            apply vdiff_In; [exact Hz|]. intros [Hq|[]]. congruence.
        - intros z Hz. apply HA. apply in_or_app. right. apply vdiff_In; [exact Hz | intros []]. }
      exists o'. split; [eapply XS_context; eassumption | exact R].
    + (* SAssert *)
      ifb Hv B. inversion Hv; subst Lin. clear Hv.
      destruct (rbind_ok _ _ _ _ _ H) as ([v m1] & E1 & H1). clear H.
      pose proof (eval_eq_agree n _ s s' mu C e e0 _ B HA (incl_app_l2 _ _) E1) as E1'.
      destruct (as_bool v) as [t| |] eqn:Eb; cbn [rbind] in H1; try discriminate.
      destruct t; [|discriminate]. inversion H1; subst.
      exists (ONormal s'). split.
      * exists (S n). rewrite exec_S. unfold exec_body. rewrite E1'. cbn [rbind]. rewrite Eb. reflexivity.
      * cbn. eapply agree_incl; [exact HA | apply incl_app_r2].
    + (* SEffect *)
      ifb Hv B. inversion Hv; subst Lin. clear Hv.
      destruct (rbind_ok _ _ _ _ _ H) as ([v m1] & E1 & H1). clear H.
      pose proof (eval_eq_agree n _ s s' mu C e e0 _ B HA (incl_app_l2 _ _) E1) as E1'.
      inversion H1; subst. exists (ONormal s'). split.
      * exists (S n). rewrite exec_S. unfold exec_body. rewrite E1'. reflexivity.
      * cbn. eapply agree_incl; [exact HA | apply incl_app_r2].
    + (* SReturn *)
      ifb Hv B. inversion Hv; subst Lin. clear Hv.
      destruct (rbind_ok _ _ _ _ _ H) as ([v m1] & E1 & H1). clear H.
      pose proof (eval_eq_agree n _ s s' mu C e e0 _ B HA (incl_refl _) E1) as E1'.
      inversion H1; subst. exists (OReturn v). split; [|reflexivity].
      exists (S n). rewrite exec_S. unfold exec_body. rewrite E1'. reflexivity.
    + (* SPass *)
      inversion Hv; subst Lin. inversion H; subst. exists (ONormal s'). split; [exists 1%nat; reflexivity | exact HA].
Qed.

Lemma dce_all : forall d, dce_at d.
Proof.
  induction d as [|d IH]; [|apply dce_step; exact IH].
  split; intros; discriminate.
Qed.

Lemma vd_sound : forall d b b' Lin, vd d [] b b' = Some Lin ->
  forall n s mu C v mu', exec_block N P n s mu C b = ROk (OReturn v, mu') ->
    exists n', exec_block N P n' s mu C b' = ROk (OReturn v, mu').
Proof.
  intros d b b' Lin Hv n s mu C v mu' H. destruct (dce_all d) as (X & _).
  destruct (X _ _ _ _ Hv n s s mu C _ _ (agree_refl _ _) H) as (o' & (n' & Y) & R).
  destruct o' as [s1|v']; cbn in R; [contradiction|]. subst v'. exists n'. exact Y.
Qed.
End DCE.
