(* for_unroll, STRICT: when the length of the iterated list is a multiple of the
   unroll factor, the emitted schema (t = it; with INTEGER: n = len t; assert
   fmod(n, k) == 0; the chunked loop over range(0, n, k)) simulates the loop and
   its continuation.  Block-level statement, same fragment and hypotheses as
   peel_block_sim.  Proofs. *)
From Coq Require Import ZArith List Bool String Lia.
From FpyV Require Import Num.RealFloat Num.Float Num.CtxDef Lang.Syntax Lang.Values Lang.Sem Lang.SemMono
  Lang.Transforms.Common Lang.Transforms.NumInt Lang.Transforms.Frame Lang.Transforms.FrameProofs
  Lang.Transforms.BigStepProofs Lang.Transforms.ForUnroll Lang.Transforms.ForUnrollProofs.
Import ListNotations.
Open Scope list_scope.

Section Strict.
Variable N : numops.
Hypothesis HN : int_exact N.
Variables P P' : program.

(* `a == b` on two numbers that compare equal *)
Lemma EvE_cmp_eq : forall s mu C a b x y mu1 mu2,
  EvE N P' s mu C a (VNum x, mu1) -> EvE N P' s mu1 C b (VNum y, mu2) -> n_cmp N x y = Some Eq ->
  EvE N P' s mu C (ECompare [CEq] [a; b]) (VBool true, mu2).
Proof.
  intros s mu C a b x y mu1 mu2 [Ma Ha] [Mb Hb] Hc.
  exists (S (S (S (Nat.max Ma Mb)))). intros M HM.
  destruct M as [|M]; [lia|]. rewrite eval_S. unfold eval_body.
  rewrite (Ha M ltac:(lia)). cbn [rbind].
  destruct M as [|M]; [lia|]. rewrite cmp_chain_S. unfold cmp_chain_body. cbn [is_ordering].
  rewrite (Hb M ltac:(lia)). cbn [rbind].
  destruct M as [|M]; [lia|]. cbn [value_eq]. unfold value_eq_body, cmp_test. rewrite Hc. reflexivity.
Qed.

Variable X : list ident.
Variables t nn idx : ident.
Variable offs : list ident.
Variable p : pat.
Variable it : expr.
Variables body rest : block.
Hypothesis Hnames : forall y, In y (t :: nn :: idx :: offs) -> ok_id X y = false.
Hypothesis Hnd : NoDup (t :: nn :: idx :: offs).
Hypothesis Hp : ok_pat X p = true.
Hypothesis Hit : ok_expr X it = true.
Hypothesis Hbody : ok_block X body = true.
Hypothesis Hrest : ok_block X rest = true.

Let k := List.length (idx :: offs).

(* fu_build_strict, length not statically known *)
Definition strict_block : block :=
  [SAssign (PVar t) it;
   integer_ctx [SAssign (PVar nn) (ELen (EVar t));
                SAssert (ECompare [CEq] [EOp2 OFmod (EVar nn) (int_lit (Z.of_nat k)); int_lit 0])];
   SFor (PVar idx) (ERange3 (int_lit 0) (EVar nn) (int_lit (Z.of_nat k))) (main_body t p body idx offs)].

Theorem strict_block_sim : forall n s s' mu g0 C o mu_f,
  agree X s s' ->
  (* the precondition of STRICT: the length is a multiple of the unroll factor *)
  (forall m vi mui l vs, eval N P m s mu C it = ROk (vi, mui) -> as_list mui vi = ROk (l, vs) ->
                         (List.length vs mod k = 0)%nat) ->
  exec_block N P n s mu C (SFor p it body :: rest) = ROk (o, mu_f) ->
  exists o' g, EvB N P' s' (mu ++ g0) C (strict_block ++ rest) (o', mu_f ++ g) /\ out_rel X o o'.
Proof.
  intros n s s' mu g0 C o mu_f Ha Hdiv H.
  assert (Hk1 : (1 <= k)%nat) by (unfold k; cbn; lia).
  assert (Ht : ok_id X t = false) by (apply Hnames; cbn; auto).
  assert (Hnn : ok_id X nn = false) by (apply Hnames; cbn; auto).
  assert (Hidx : ok_id X idx = false) by (apply Hnames; cbn; auto 10).
  assert (Hoffs : forall y, In y offs -> ok_id X y = false) by (intros; apply Hnames; cbn; auto 10).
  inversion Hnd as [|? ? Ht_ni Hnd1]; subst. inversion Hnd1 as [|? ? Hnn_ni Hnd2]; subst.
  (* the original run *)
  destruct n as [|n]; [discriminate|]. rewrite exec_block_S in H. unfold exec_block_body in H.
  destruct (exec N P n s mu C (SFor p it body)) as [[o1 mu1]| |] eqn:Efor; cbn [rbind] in H; try discriminate.
  destruct n as [|n]; [discriminate|]. rewrite exec_S in Efor. unfold exec_body in Efor.
  destruct (eval N P n s mu C it) as [[vi mui]| |] eqn:Eit; cbn [rbind] in Efor; try discriminate.
  destruct (frame_eval X N P P' n it s s' mu g0 C vi mui Hit Ha Eit) as [-> Eit'].
  destruct (as_list mu vi) as [[l vs]| |] eqn:El; cbn [rbind] in Efor; try discriminate.
  pose proof (Hdiv n vi mu l vs Eit El) as Hmod0.
  destruct (as_list_loc _ _ _ _ El) as [-> Hg].
  set (L := List.length vs) in *. set (q := (L / k)%nat).
  assert (HqL : (q * k = L)%nat).
  { unfold q. pose proof (Nat.div_mod L k ltac:(lia)) as E. rewrite Hmod0 in E. lia. }
  assert (HmodZ : (Z.of_nat L mod Z.of_nat k = 0)%Z).
  { rewrite <- Nat2Z.inj_mod. rewrite Hmod0. reflexivity. }
  (* t = it *)
  set (s1' := env_set s' t (VList l)).
  assert (E1 : EvS N P' s' (mu ++ g0) C (SAssign (PVar t) it) (ONormal s1', mu ++ g0)).
  { apply EvS_assign_var. eapply EvE_of. exact Eit'. }
  set (s2' := env_set s1' nn (VNum (num_of_Z (Z.of_nat L)))).
  assert (Hs1t : env_get s1' t = Some (VList l)) by (unfold s1'; apply env_get_set_same).
  assert (Hn2 : env_get s2' nn = Some (VNum (num_of_Z (Z.of_nat L)))) by (unfold s2'; apply env_get_set_same).
  assert (E2 : EvS N P' s1' (mu ++ g0) C
                 (integer_ctx [SAssign (PVar nn) (ELen (EVar t));
                               SAssert (ECompare [CEq] [EOp2 OFmod (EVar nn) (int_lit (Z.of_nat k)); int_lit 0])])
                 (ONormal s2', mu ++ g0)).
  { unfold integer_ctx. eapply EvS_context; [apply EvE_ctxval|].
    eapply EvB_cons.
    - apply EvS_assign_var. eapply EvE_len; [apply EvE_var; exact Hs1t|].
      cbn [as_list]. rewrite (store_get_app _ g0 _ _ Hg). reflexivity.
    - eapply EvB_cons; [|apply EvB_nil]. apply EvS_assert.
      eapply EvE_cmp_eq.
      + eapply EvE_op2; [apply EvE_var; exact Hn2 | apply EvE_int |]. apply (ie_fmod N HN); lia.
      + apply (EvE_int N P' _ _ _ 0).
      + rewrite HmodZ. rewrite (ie_cmp N HN) by lia. reflexivity. }
  assert (Hs2t : env_get s2' t = Some (VList l)).
  { unfold s2'. rewrite env_get_set_other; auto. intro; subst. apply Ht_ni. cbn; auto. }
  assert (Ha2 : agree X s s2').
  { intros y Hy. unfold s2', s1'. rewrite !env_get_set_other; [apply Ha, Hy| |]; intro; subst; congruence. }
  (* the chunked loop covers the whole list *)
  set (cell1 := range_cell 0 k q). set (g1 := g0 ++ [cell1]).
  assert (Hnt1 : ~ In t (idx :: offs)) by (intro Hin; apply Ht_ni; cbn; cbn in Hin; tauto).
  assert (Hc1 : nth_error g1 (List.length g0) = Some (range_cell 0 k q)).
  { unfold g1. rewrite nth_error_app2 by lia. rewrite Nat.sub_diag. reflexivity. }
  assert (Hlen_main : (0 + q * k <= List.length vs)%nat) by (fold L; lia).
  assert (Hmain := chunks_sim N HN P P' X t p body C l Ht Hp Hbody idx offs Hidx Hoffs Hnd2 Hnt1 k eq_refl
                     q 0%nat 0%nat q s s2' mu g1 (List.length g0) n o1 mu1 vs eq_refl Hc1
                     Hs2t Ha2 Hg Hlen_main Efor).
  assert (Erange1 : EvE N P' s2' (mu ++ g0) C (ERange3 (int_lit 0) (EVar nn) (int_lit (Z.of_nat k)))
                      (VList (List.length (mu ++ g0)), (mu ++ g0) ++ [cell1])).
  { eapply EvE_range3; [apply (EvE_int N P' _ _ _ 0) | apply EvE_var; exact Hn2 | apply EvE_int |].
    replace (Z.of_nat L) with (Z.of_nat (0 + q * k)) by (f_equal; lia).
    apply (range_list_cell 0 k q Hk1). }
  assert (Hlen0 : List.length (mu ++ g0) = (List.length mu + List.length g0)%nat) by apply app_length.
  assert (Hst1 : (mu ++ g0) ++ [cell1] = mu ++ g1) by (unfold g1; rewrite app_assoc; reflexivity).
  assert (Hal1 : as_list ((mu ++ g0) ++ [cell1]) (VList (List.length (mu ++ g0))) = ROk (List.length (mu ++ g0), cell1)).
  { cbn [as_list]. unfold store_get. rewrite nth_error_app2 by lia. rewrite Nat.sub_diag. reflexivity. }
  destruct Hmain as [(s4 & s4' & mu4 & Hf4 & Ha4 & Hk4 & Hs4 & Hrem4) | (v & -> & Hf4)].
  2:{ inversion H; subst. exists (OReturn v), g1. split; [|reflexivity].
      apply EvB_app_ret. eapply EvB_cons; [exact E1|]. eapply EvB_cons; [exact E2|].
      apply EvB_cons_ret. eapply EvS_for; [exact Erange1 | exact Hal1 |].
      rewrite Hst1, Hlen0. exact Hf4. }
  (* the original loop is exhausted *)
  destruct (shape_get _ _ _ _ Hs4 Hg) as (vs4 & Hg4 & Hl4).
  destruct (for_loop_inv N P _ _ _ _ _ _ _ _ _ _ Hrem4) as (vs4' & Hg4' & Hcase).
  rewrite Hg4 in Hg4'. inversion Hg4'; subst vs4'. clear Hg4'.
  assert (Hnone : nth_error vs4 (0 + q * k) = None) by (apply nth_error_None; rewrite Hl4; fold L; lia).
  rewrite Hnone in Hcase. destruct Hcase as [-> ->].
  destruct (EvB_frame N P P' X rest s4 s4' mu4 g1 C o mu_f Hrest Ha4 (EvB_of N P _ _ _ _ _ _ H))
    as (o' & Hrest' & Ho & _).
  exists o', g1. split; [|eapply orel_out; eauto].
  eapply EvB_app; [|exact Hrest'].
  eapply EvB_cons; [exact E1|]. eapply EvB_cons; [exact E2|].
  eapply EvB_cons; [|apply EvB_nil].
  eapply EvS_for; [exact Erange1 | exact Hal1 |]. rewrite Hst1, Hlen0. exact Hf4.
Qed.

End Strict.
