(* Structural induction principles for the nested inductives `expr` / `stmt`
   (lists of sub-terms), and the basic facts about renaming: the identity
   renaming is the identity, `wt_ok` holds for it. *)
From Coq Require Import ZArith List Bool String Lia.
From FpyV Require Import Num.RealFloat Num.Float Num.CtxDef Lang.Syntax.
From FpyV Require Import Lang.Transforms.Rename.
Import ListNotations.

Section ExprInd.
Variable Q : expr -> Prop.
Definition Qopt (o : option expr) : Prop := match o with Some e => Q e | None => True end.
Definition Qgens (gens : list (pat * expr)) : Prop := Forall (fun g => Q (snd g)) gens.
Hypothesis H_EVar : forall (x : ident), Q (EVar x).
Hypothesis H_ENum : forall (v : fl), Q (ENum v).
Hypothesis H_ERat : forall (n : Z) (d : Z), Q (ERat n d).
Hypothesis H_EBool : forall (b : bool), Q (EBool b).
Hypothesis H_ECtxVal : forall (c : ctx), Q (ECtxVal c).
Hypothesis H_EOp0 : forall (o : op), Q (EOp0 o).
Hypothesis H_EOp1 : forall (o : op) (a : expr), Q a -> Q (EOp1 o a).
Hypothesis H_EOp2 : forall (o : op) (a : expr) (b : expr), Q a -> Q b -> Q (EOp2 o a b).
Hypothesis H_EOp3 : forall (o : op) (a : expr) (b : expr) (c : expr), Q a -> Q b -> Q c -> Q (EOp3 o a b c).
Hypothesis H_EPred : forall (p : pred) (a : expr), Q a -> Q (EPred p a).
Hypothesis H_ECompare : forall (ops : list cmpop) (args : list expr), Forall Q args -> Q (ECompare ops args).
Hypothesis H_EAnd : forall (args : list expr), Forall Q args -> Q (EAnd args).
Hypothesis H_EOr : forall (args : list expr), Forall Q args -> Q (EOr args).
Hypothesis H_ENot : forall (a : expr), Q a -> Q (ENot a).
Hypothesis H_EIf : forall (c : expr) (a : expr) (b : expr), Q c -> Q a -> Q b -> Q (EIf c a b).
Hypothesis H_ETuple : forall (es : list expr), Forall Q es -> Q (ETuple es).
Hypothesis H_EFst : forall (a : expr), Q a -> Q (EFst a).
Hypothesis H_ESnd : forall (a : expr), Q a -> Q (ESnd a).
Hypothesis H_EList : forall (es : list expr), Forall Q es -> Q (EList es).
Hypothesis H_ERef : forall (a : expr) (i : expr), Q a -> Q i -> Q (ERef a i).
Hypothesis H_ESlice : forall (a : expr) (lo : option expr) (hi : option expr), Q a -> Qopt lo -> Qopt hi -> Q (ESlice a lo hi).
Hypothesis H_EComp : forall (gens : list (pat * expr)) (elt : expr), Qgens gens -> Q elt -> Q (EComp gens elt).
Hypothesis H_ELen : forall (a : expr), Q a -> Q (ELen a).
Hypothesis H_ERange1 : forall (a : expr), Q a -> Q (ERange1 a).
Hypothesis H_ERange2 : forall (a : expr) (b : expr), Q a -> Q b -> Q (ERange2 a b).
Hypothesis H_ERange3 : forall (a : expr) (b : expr) (c : expr), Q a -> Q b -> Q c -> Q (ERange3 a b c).
Hypothesis H_EZip : forall (es : list expr), Forall Q es -> Q (EZip es).
Hypothesis H_EEnumerate : forall (a : expr), Q a -> Q (EEnumerate a).
Hypothesis H_EEmpty : forall (dims : list expr), Forall Q dims -> Q (EEmpty dims).
Hypothesis H_EDim : forall (a : expr), Q a -> Q (EDim a).
Hypothesis H_ESize : forall (a : expr) (d : expr), Q a -> Q d -> Q (ESize a d).
Hypothesis H_ESum : forall (a : expr), Q a -> Q (ESum a).
Hypothesis H_EAMin : forall (a : expr), Q a -> Q (EAMin a).
Hypothesis H_EAMax : forall (a : expr), Q a -> Q (EAMax a).
Hypothesis H_EMin : forall (es : list expr), Forall Q es -> Q (EMin es).
Hypothesis H_EMax : forall (es : list expr), Forall Q es -> Q (EMax es).
Hypothesis H_EAny : forall (a : expr), Q a -> Q (EAny a).
Hypothesis H_EAll : forall (a : expr), Q a -> Q (EAll a).
Hypothesis H_ECall : forall (f : ident) (args : list expr), Forall Q args -> Q (ECall f args).
Hypothesis H_ECtor : forall (k : ctor) (args : list expr), Forall Q args -> Q (ECtor k args).

Fixpoint expr_ind' (e : expr) {struct e} : Q e :=
  let fl := fix go (l : list expr) : Forall Q l :=
    match l with [] => Forall_nil Q | x :: r => Forall_cons x (expr_ind' x) (go r) end in
  let fo := fun (o : option expr) => match o return Qopt o with Some x => expr_ind' x | None => I end in
  let fg := fix go (l : list (pat * expr)) : Qgens l :=
    match l return Qgens l with
    | [] => Forall_nil _
    | g :: r => Forall_cons g (match g return Q (snd g) with (p, it) => expr_ind' it end) (go r)
    end in
  match e with
  | EVar x => H_EVar x
  | ENum v => H_ENum v
  | ERat n d => H_ERat n d
  | EBool b => H_EBool b
  | ECtxVal c => H_ECtxVal c
  | EOp0 o => H_EOp0 o
  | EOp1 o a => H_EOp1 o a (expr_ind' a)
  | EOp2 o a b => H_EOp2 o a b (expr_ind' a) (expr_ind' b)
  | EOp3 o a b c => H_EOp3 o a b c (expr_ind' a) (expr_ind' b) (expr_ind' c)
  | EPred p a => H_EPred p a (expr_ind' a)
  | ECompare ops args => H_ECompare ops args (fl args)
  | EAnd args => H_EAnd args (fl args)
  | EOr args => H_EOr args (fl args)
  | ENot a => H_ENot a (expr_ind' a)
  | EIf c a b => H_EIf c a b (expr_ind' c) (expr_ind' a) (expr_ind' b)
  | ETuple es => H_ETuple es (fl es)
  | EFst a => H_EFst a (expr_ind' a)
  | ESnd a => H_ESnd a (expr_ind' a)
  | EList es => H_EList es (fl es)
  | ERef a i => H_ERef a i (expr_ind' a) (expr_ind' i)
  | ESlice a lo hi => H_ESlice a lo hi (expr_ind' a) (fo lo) (fo hi)
  | EComp gens elt => H_EComp gens elt (fg gens) (expr_ind' elt)
  | ELen a => H_ELen a (expr_ind' a)
  | ERange1 a => H_ERange1 a (expr_ind' a)
  | ERange2 a b => H_ERange2 a b (expr_ind' a) (expr_ind' b)
  | ERange3 a b c => H_ERange3 a b c (expr_ind' a) (expr_ind' b) (expr_ind' c)
  | EZip es => H_EZip es (fl es)
  | EEnumerate a => H_EEnumerate a (expr_ind' a)
  | EEmpty dims => H_EEmpty dims (fl dims)
  | EDim a => H_EDim a (expr_ind' a)
  | ESize a d => H_ESize a d (expr_ind' a) (expr_ind' d)
  | ESum a => H_ESum a (expr_ind' a)
  | EAMin a => H_EAMin a (expr_ind' a)
  | EAMax a => H_EAMax a (expr_ind' a)
  | EMin es => H_EMin es (fl es)
  | EMax es => H_EMax es (fl es)
  | EAny a => H_EAny a (expr_ind' a)
  | EAll a => H_EAll a (expr_ind' a)
  | ECall f args => H_ECall f args (fl args)
  | ECtor k args => H_ECtor k args (fl args)
  end.
End ExprInd.

Section StmtInd.
Variable Q : stmt -> Prop.
Hypothesis H_SAssign : forall (p : pat) (e : expr), Q (SAssign p e).
Hypothesis H_SIndexAssign : forall (x : ident) (idx : list expr) (e : expr), Q (SIndexAssign x idx e).
Hypothesis H_SIf1 : forall (c : expr) (body : list stmt), Forall Q body -> Q (SIf1 c body).
Hypothesis H_SIf : forall (c : expr) (ift : list stmt) (iff : list stmt), Forall Q ift -> Forall Q iff -> Q (SIf c ift iff).
Hypothesis H_SWhile : forall (c : expr) (body : list stmt), Forall Q body -> Q (SWhile c body).
Hypothesis H_SFor : forall (p : pat) (it : expr) (body : list stmt), Forall Q body -> Q (SFor p it body).
Hypothesis H_SContext : forall (x : option ident) (e : expr) (body : list stmt), Forall Q body -> Q (SContext x e body).
Hypothesis H_SAssert : forall (e : expr), Q (SAssert e).
Hypothesis H_SEffect : forall (e : expr), Q (SEffect e).
Hypothesis H_SReturn : forall (e : expr), Q (SReturn e).
Hypothesis H_SPass : Q SPass.

Fixpoint stmt_ind' (st : stmt) {struct st} : Q st :=
  let fb := fix go (l : list stmt) : Forall Q l :=
    match l with [] => Forall_nil Q | x :: r => Forall_cons x (stmt_ind' x) (go r) end in
  match st with
  | SAssign p e => H_SAssign p e
  | SIndexAssign x idx e => H_SIndexAssign x idx e
  | SIf1 c body => H_SIf1 c body (fb body)
  | SIf c ift iff => H_SIf c ift iff (fb ift) (fb iff)
  | SWhile c body => H_SWhile c body (fb body)
  | SFor p it body => H_SFor p it body (fb body)
  | SContext x e body => H_SContext x e body (fb body)
  | SAssert e => H_SAssert e
  | SEffect e => H_SEffect e
  | SReturn e => H_SReturn e
  | SPass  => H_SPass 
  end.
End StmtInd.


Lemma map_id_Forall : forall A (f : A -> A) (l : list A), Forall (fun x => f x = x) l -> map f l = l.
Proof. induction 1; cbn; congruence. Qed.

Fixpoint pat_ind2 (Q : pat -> Prop) (HV : forall x, Q (PVar x)) (HW : Q PWild)
  (HT : forall ps, Forall Q ps -> Q (PTuple ps)) (p : pat) {struct p} : Q p :=
  match p with
  | PVar x => HV x
  | PWild => HW
  | PTuple ps =>
      HT ps ((fix go (l : list pat) : Forall Q l :=
                match l with
                | [] => Forall_nil Q
                | q :: r => Forall_cons q (pat_ind2 Q HV HW HT q) (go r)
                end) ps)
  end.

Definition idr : ident -> ident := fun x => x.

Lemma ren_pat_id : forall p, ren_pat idr p = p.
Proof.
  induction p using pat_ind2; cbn; auto. f_equal. apply map_id_Forall. assumption.
Qed.

Lemma ren_expr_id : forall e, ren_expr idr e = e.
Proof.
  induction e using expr_ind'; cbn; try reflexivity;
    repeat match goal with H : Forall _ _ |- _ => apply map_id_Forall in H; rewrite H; clear H end;
    try congruence.
  - (* ESlice *) destruct lo, hi; cbn in *; congruence.
  - (* EComp *) f_equal; auto. unfold Qgens in H. induction H as [|[p it] r Hg _ IH]; cbn; auto.
    cbn in Hg. rewrite ren_pat_id, Hg, IH. reflexivity.
Qed.

Lemma ren_stmt_id : forall st, ren_stmt idr st = st.
Proof.
  induction st using stmt_ind'; cbn; rewrite ?ren_expr_id, ?ren_pat_id;
    repeat match goal with H : Forall _ _ |- _ => apply map_id_Forall in H; rewrite H; clear H end;
    try reflexivity.
  f_equal. apply map_id_Forall. clear. induction idx; constructor; auto. apply ren_expr_id.
Qed.

Lemma ren_block_id : forall b, ren_block idr b = b.
Proof. intro b. apply map_id_Forall. induction b; constructor; auto. apply ren_stmt_id. Qed.

Lemma forallb_Forall_true : forall A (f : A -> bool) l, Forall (fun x => f x = true) l -> forallb f l = true.
Proof. induction 1; cbn; auto. rewrite H, IHForall. reflexivity. Qed.

Lemma wt_ok_id : forall st, wt_ok idr st = true.
Proof.
  induction st using stmt_ind'; cbn; auto;
    repeat match goal with H : Forall _ _ |- _ => apply forallb_Forall_true in H; rewrite H; clear H end; auto.
  destruct x; cbn; auto. unfold idr. rewrite String.eqb_refl. reflexivity.
Qed.

Lemma wt_ok_block_id : forall b, wt_ok_block idr b = true.
Proof. intro b. apply forallb_Forall_true. induction b; constructor; auto. apply wt_ok_id. Qed.

Lemma inj_idr : forall x y : ident, idr x = idr y -> x = y.
Proof. auto. Qed.
