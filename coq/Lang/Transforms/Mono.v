(* FPyLang transforms: monomorphization (fpy2/transform/monomorphize.py,
   fpy2/strategies/mono.py) and closing over captured values
   (fpy2/transform/free_var_elim.py).  Definitions only.

   monomorphize(func, ctx, args):
   * `_MonomorphizeVisitor._visit_function`: the function's declared context
     becomes `ctx` when it has none; a declared context is kept (it overrides
     any caller context anyway) and the strategy raises unless the requested
     one `is_equiv` to it (same format) -- `None` here;
   * the argument annotations are merged with the requested types; annotations
     have no run-time meaning in the interpreter (arguments are not rounded or
     checked at entry, Sem.v `call`), so the body and the parameters are unchanged.

   close(func) (FreeVarElim): every captured data value with a literal form is
   materialised as a leading assignment `x = <literal>`, in name order.  A
   function with captured values is modelled as the function that takes them as
   extra leading parameters (`with_caps`). *)
From Coq Require Import ZArith List Bool String.
From FpyV Require Import Num.RealFloat Num.Float Num.CtxDef Lang.Syntax Lang.Values.
Import ListNotations.

(* Context.is_equiv: the two contexts have the same FORMAT (the same set of representable values);
   rounding mode, overflow mode and the stochastic-rounding parameter are not compared.  Modelled
   for the real, multi-precision float and EFloat/IEEE families; equality of contexts otherwise. *)
Definition same_format (a b : ctx) : bool :=
  match a, b with
  | CReal, CReal => true
  | CMPFloat p _ _ sp, CMPFloat p' _ _ sp' =>
      (p =? p')%Z && Bool.eqb (sp_enable_nan sp) (sp_enable_nan sp') && Bool.eqb (sp_enable_inf sp) (sp_enable_inf sp')
  | CMPSFloat p e _ _ sp, CMPSFloat p' e' _ _ sp' =>
      (p =? p')%Z && (e =? e')%Z && Bool.eqb (sp_enable_nan sp) (sp_enable_nan sp')
      && Bool.eqb (sp_enable_inf sp) (sp_enable_inf sp')
  | CEFloat es nb ei nk eo _ _ _ _ _, CEFloat es' nb' ei' nk' eo' _ _ _ _ _ =>
      (es =? es')%Z && (nb =? nb')%Z && Bool.eqb ei ei' && nankind_eqb nk nk' && (eo =? eo')%Z
  | _, _ => ctx_eqb a b
  end.

Definition mono (c : ctx) (fn : func) : option func :=
  match f_ctx fn with
  | None => Some (Func (f_params fn) (Some c) (f_body fn))
  | Some c0 => if same_format c0 c then Some fn else None
  end.

(* ---------------------------------------------------------------- close *)
(* const_fold.value_to_literal on scalars and tuples: the literal and the value it denotes *)
Fixpoint lit_value (e : expr) : option value :=
  match e with
  | ENum v => Some (VNum (NF v))
  | ERat p q => if (q =? 0)%Z then None else Some (VNum (num_of_frac p q))
  | EBool b => Some (VBool b)
  | ETuple es =>
      match (fix go (l : list expr) : option (list value) :=
               match l with
               | [] => Some []
               | x :: r => match lit_value x, go r with
                           | Some v, Some vs => Some (v :: vs)
                           | _, _ => None
                           end
               end) es with
      | Some vs => Some (VTuple vs)
      | None => None
      end
  | _ => None
  end.

(* the captured environment: (name, literal) in the order of the prelude (sorted by name) *)
Definition caps := list (ident * expr).

Definition close (cs : caps) (fn : func) : func :=
  Func (f_params fn) (f_ctx fn) (map (fun xe => SAssign (PVar (fst xe)) (snd xe)) cs ++ f_body fn).

(* the function seen together with its captured values: they are extra leading parameters *)
Definition with_caps (cs : caps) (fn : func) : func :=
  Func (map fst cs ++ f_params fn) (f_ctx fn) (f_body fn).

Fixpoint cap_values (cs : caps) : option (list value) :=
  match cs with
  | [] => Some []
  | (_, e) :: r => match lit_value e, cap_values r with
                   | Some v, Some vs => Some (v :: vs)
                   | _, _ => None
                   end
  end.
