(* C07 (simplify): shared definitions of the models and validators of
   ConstFold / CopyPropagate / DeadCodeEliminate.  Definitions only.

     - finite sets of names as lists; the names a pattern / statement binds
       (`assigned` = analysis/defs.py DefAnalysis), the names occurring in an
       expression (`evars`, an over-approximation of the free variables);
     - `expr_all q e`: q holds at every node of e; instances `nocall f`
       (no call of the FPy function f) and `pure_na` (no FPy call and no
       allocating form: the expressions whose evaluation leaves the store
       untouched);
     - syntactic (decidable, `= true -> eq`) comparisons of the atoms;
     - `vexpr leaf bvs e e'`: lock-step comparison of two expressions in which
       `leaf` may accept a pair of differing sub-expressions (structural
       equality when `leaf` is constantly false);
     - literals: `is_lit`, `lit_val` (fuel-free value of a literal),
       `literal_of_value` = const_fold.value_to_literal AS CODED. *)
From Coq Require Import ZArith List Bool String.
From FpyV Require Import Num.RealFloat Num.Float Num.CtxDef Lang.Syntax Lang.Values Lang.Sem.
Import ListNotations.
Open Scope Z_scope.

(* ---------------------------------------------------------------- name sets *)
Definition vars := list ident.

Definition vmem (x : ident) (L : vars) : bool := existsb (String.eqb x) L.
Definition vdisj (A B : vars) : bool := forallb (fun x => negb (vmem x B)) A.
Definition vincl (A B : vars) : bool := forallb (fun x => vmem x B) A.
Definition vdiff (A B : vars) : vars := filter (fun x => negb (vmem x B)) A.

Fixpoint pvars (p : pat) : vars :=
  match p with
  | PVar x => [x]
  | PWild => []
  | PTuple ps => flat_map pvars ps
  end.

Definition ovar (x : option ident) : vars := match x with Some x => [x] | None => [] end.

(* analysis/defs.py: the names (re)defined by a statement, nested blocks included;
   `xs[i] = e` counts as a definition of xs *)
Fixpoint assigned (st : stmt) : vars :=
  match st with
  | SAssign p _ => pvars p
  | SIndexAssign x _ _ => [x]
  | SIf1 _ body => flat_map assigned body
  | SIf _ ift iff => flat_map assigned ift ++ flat_map assigned iff
  | SWhile _ body => flat_map assigned body
  | SFor p _ body => pvars p ++ flat_map assigned body
  | SContext x _ body => ovar x ++ flat_map assigned body
  | SAssert _ | SEffect _ | SReturn _ | SPass => []
  end.

Definition assigned_block (b : block) : vars := flat_map assigned b.

(* the names the environment can differ on after the statement: as `assigned`,
   but an indexed assignment does not rebind its variable *)
Fixpoint bound (st : stmt) : vars :=
  match st with
  | SAssign p _ => pvars p
  | SIf1 _ body => flat_map bound body
  | SIf _ ift iff => flat_map bound ift ++ flat_map bound iff
  | SWhile _ body => flat_map bound body
  | SFor p _ body => pvars p ++ flat_map bound body
  | SContext x _ body => ovar x ++ flat_map bound body
  | SIndexAssign _ _ _ | SAssert _ | SEffect _ | SReturn _ | SPass => []
  end.

Definition bound_block (b : block) : vars := flat_map bound b.

Definition oexpr_map {A} (f : expr -> list A) (o : option expr) : list A :=
  match o with Some e => f e | None => [] end.

(* every name occurring in e (uses and comprehension targets) *)
Fixpoint evars (e : expr) : vars :=
  match e with
  | EVar x => [x]
  | ENum _ | ERat _ _ | EBool _ | ECtxVal _ | EOp0 _ => []
  | EOp1 _ a | EPred _ a | ENot a | EFst a | ESnd a | ELen a | ERange1 a | EEnumerate a
  | EDim a | ESum a | EAMin a | EAMax a | EAny a | EAll a => evars a
  | EOp2 _ a b | ERef a b | ERange2 a b | ESize a b => evars a ++ evars b
  | EOp3 _ a b c | EIf a b c | ERange3 a b c => evars a ++ evars b ++ evars c
  | ECompare _ es | EAnd es | EOr es | ETuple es | EList es | EZip es | EEmpty es
  | EMin es | EMax es | ECall _ es | ECtor _ es => flat_map evars es
  | ESlice a lo hi => evars a ++ oexpr_map evars lo ++ oexpr_map evars hi
  | EComp gens elt =>
      flat_map (fun g => match g with (p, it) => pvars p ++ evars it end) gens ++ evars elt
  end.

(* free variables (comprehension targets scoped) *)
Fixpoint efv (bvs : vars) (e : expr) {struct e} : vars :=
  match e with
  | EVar x => if vmem x bvs then [] else [x]
  | ENum _ | ERat _ _ | EBool _ | ECtxVal _ | EOp0 _ => []
  | EOp1 _ a | EPred _ a | ENot a | EFst a | ESnd a | ELen a | ERange1 a | EEnumerate a
  | EDim a | ESum a | EAMin a | EAMax a | EAny a | EAll a => efv bvs a
  | EOp2 _ a b | ERef a b | ERange2 a b | ESize a b => efv bvs a ++ efv bvs b
  | EOp3 _ a b c | EIf a b c | ERange3 a b c => efv bvs a ++ efv bvs b ++ efv bvs c
  | ECompare _ es | EAnd es | EOr es | ETuple es | EList es | EZip es | EEmpty es
  | EMin es | EMax es | ECall _ es | ECtor _ es => flat_map (efv bvs) es
  | ESlice a lo hi => efv bvs a ++ oexpr_map (efv bvs) lo ++ oexpr_map (efv bvs) hi
  | EComp gens elt =>
      (fix go (bvs : vars) (l : list (pat * expr)) : vars :=
         match l with
         | [] => efv bvs elt
         | (p, it) :: l' => efv bvs it ++ go (pvars p ++ bvs) l'
         end) bvs gens
  end.

Definition efv_gens (elt : expr) : vars -> list (pat * expr) -> vars :=
  fix go (bvs : vars) (l : list (pat * expr)) : vars :=
    match l with
    | [] => efv bvs elt
    | (p, it) :: l' => efv bvs it ++ go (pvars p ++ bvs) l'
    end.

(* ---------------------------------------------------------------- node predicates *)
Section ExprAll.
Variable q : expr -> bool.

Fixpoint expr_all (e : expr) : bool :=
  q e &&
  match e with
  | EVar _ | ENum _ | ERat _ _ | EBool _ | ECtxVal _ | EOp0 _ => true
  | EOp1 _ a | EPred _ a | ENot a | EFst a | ESnd a | ELen a | ERange1 a | EEnumerate a
  | EDim a | ESum a | EAMin a | EAMax a | EAny a | EAll a => expr_all a
  | EOp2 _ a b | ERef a b | ERange2 a b | ESize a b => expr_all a && expr_all b
  | EOp3 _ a b c | EIf a b c | ERange3 a b c => expr_all a && expr_all b && expr_all c
  | ECompare _ es | EAnd es | EOr es | ETuple es | EList es | EZip es | EEmpty es
  | EMin es | EMax es | ECall _ es | ECtor _ es => forallb expr_all es
  | ESlice a lo hi =>
      expr_all a && (match lo with Some x => expr_all x | None => true end)
                 && (match hi with Some x => expr_all x | None => true end)
  | EComp gens elt =>
      forallb (fun g => match g with (_, it) => expr_all it end) gens && expr_all elt
  end.

Fixpoint stmt_all (st : stmt) : bool :=
  match st with
  | SAssign _ e => expr_all e
  | SIndexAssign _ idx e => forallb expr_all idx && expr_all e
  | SIf1 c body => expr_all c && forallb stmt_all body
  | SIf c ift iff => expr_all c && forallb stmt_all ift && forallb stmt_all iff
  | SWhile c body => expr_all c && forallb stmt_all body
  | SFor _ it body => expr_all it && forallb stmt_all body
  | SContext _ e body => expr_all e && forallb stmt_all body
  | SAssert e | SEffect e | SReturn e => expr_all e
  | SPass => true
  end.

Definition block_all (b : block) : bool := forallb stmt_all b.
End ExprAll.

Definition q_nocall (f : ident) (e : expr) : bool :=
  match e with ECall g _ => negb (String.eqb g f) | _ => true end.

(* no function of P (f itself included) calls f *)
Definition no_calls_to (f : ident) (P : program) : bool :=
  forallb (fun gf => block_all (q_nocall f) (f_body (snd gf))) P.

(* evaluation cannot touch the store: no FPy call, no allocating form *)
Definition q_pure_na (e : expr) : bool :=
  match e with
  | ECall _ _ | EList _ | ESlice _ _ _ | EComp _ _ | ERange1 _ | ERange2 _ _ | ERange3 _ _ _
  | EZip _ | EEnumerate _ | EEmpty _ => false
  | _ => true
  end.

Definition pure_na : expr -> bool := expr_all q_pure_na.

(* ---------------------------------------------------------------- the transformed program *)
Fixpoint set_fn (P : program) (f : ident) (fn' : func) : program :=
  match P with
  | [] => []
  | (g, fn) :: r => if String.eqb f g then (g, fn') :: r else (g, fn) :: set_fn r f fn'
  end.

Definition with_body (fn : func) (b : block) : func := Func (f_params fn) (f_ctx fn) b.

(* apply a body transformation to the function f of P (simplify(func) rewrites
   func.ast only; the callees keep their own ASTs) *)
Definition on_fn (T : func -> block) (P : program) (f : ident) : program :=
  match lookup_fn P f with
  | Some fn => set_fn P f (with_body fn (T fn))
  | None => P
  end.

(* simplify(func) returns a NEW function object: the program after the pass is P
   plus the rewritten function under a fresh name f' (the callees, and every
   reference to the original f, keep the original ASTs, as in fpy2) *)
Definition add_fn (P : program) (f' : ident) (fn' : func) : program := P ++ [(f', fn')].

(* "(P', f') returns what (P, f) returns": the conclusion of every C07 theorem *)
Definition preserves (N : numops) (P : program) (f : ident) (P' : program) (f' : ident) : Prop :=
  forall fuel args c v, run N P fuel f args c = ROk v ->
    exists fuel' v', run N P' fuel' f' args c = ROk v' /\ cval_eqb v v' = true.

(* ---------------------------------------------------------------- syntactic comparisons *)
Definition rf_eqb_syn (a b : rf) : bool :=
  Bool.eqb (rs a) (rs b) && (rexp a =? rexp b) && (rc a =? rc b).

Definition fl_eqb_syn (a b : fl) : bool :=
  match a, b with
  | FFin x, FFin y => rf_eqb_syn x y
  | FInf s, FInf t => Bool.eqb s t
  | FNaN s, FNaN t => Bool.eqb s t
  | _, _ => false
  end.

Definition optfl_eqb_syn (a b : option fl) : bool :=
  match a, b with Some x, Some y => fl_eqb_syn x y | None, None => true | _, _ => false end.

Definition special_eqb_syn (a b : special) : bool :=
  Bool.eqb (sp_enable_nan a) (sp_enable_nan b) && Bool.eqb (sp_enable_inf a) (sp_enable_inf b) &&
  optfl_eqb_syn (sp_nan_value a) (sp_nan_value b) && optfl_eqb_syn (sp_inf_value a) (sp_inf_value b).

Definition ctx_eqb_syn (a b : ctx) : bool :=
  match a, b with
  | CReal, CReal => true
  | CMPFloat p rm k sp, CMPFloat p' rm' k' sp' =>
      (p =? p') && rmode_eqb rm rm' && optZ_eqb k k' && special_eqb_syn sp sp'
  | CMPSFloat p e rm k sp, CMPSFloat p' e' rm' k' sp' =>
      (p =? p') && (e =? e') && rmode_eqb rm rm' && optZ_eqb k k' && special_eqb_syn sp sp'
  | CMPBFloat p e pm nm rm ov k sp, CMPBFloat p' e' pm' nm' rm' ov' k' sp' =>
      (p =? p') && (e =? e') && rf_eqb_syn pm pm' && rf_eqb_syn nm nm' && rmode_eqb rm rm' &&
      ovmode_eqb ov ov' && optZ_eqb k k' && special_eqb_syn sp sp'
  | CEFloat es nb ei nk eo rm ov k nv iv, CEFloat es' nb' ei' nk' eo' rm' ov' k' nv' iv' =>
      (es =? es') && (nb =? nb') && Bool.eqb ei ei' && nankind_eqb nk nk' && (eo =? eo') &&
      rmode_eqb rm rm' && ovmode_eqb ov ov' && optZ_eqb k k' && optfl_eqb_syn nv nv' && optfl_eqb_syn iv iv'
  | CMPFixed n rm k sp nz, CMPFixed n' rm' k' sp' nz' =>
      (n =? n') && rmode_eqb rm rm' && optZ_eqb k k' && special_eqb_syn sp sp' && Bool.eqb nz nz'
  | CMPBFixed n pm nm rm ov k sp nz, CMPBFixed n' pm' nm' rm' ov' k' sp' nz' =>
      (n =? n') && rf_eqb_syn pm pm' && rf_eqb_syn nm nm' && rmode_eqb rm rm' && ovmode_eqb ov ov' &&
      optZ_eqb k k' && special_eqb_syn sp sp' && Bool.eqb nz nz'
  | CFixed sg sc nb rm ov k nv iv, CFixed sg' sc' nb' rm' ov' k' nv' iv' =>
      Bool.eqb sg sg' && (sc =? sc') && (nb =? nb') && rmode_eqb rm rm' && ovmode_eqb ov ov' &&
      optZ_eqb k k' && optfl_eqb_syn nv nv' && optfl_eqb_syn iv iv'
  | CSMFixed sc nb rm ov k nv iv, CSMFixed sc' nb' rm' ov' k' nv' iv' =>
      (sc =? sc') && (nb =? nb') && rmode_eqb rm rm' && ovmode_eqb ov ov' &&
      optZ_eqb k k' && optfl_eqb_syn nv nv' && optfl_eqb_syn iv iv'
  | CExp nb eo rm ov iv, CExp nb' eo' rm' ov' iv' =>
      (nb =? nb') && (eo =? eo') && rmode_eqb rm rm' && ovmode_eqb ov ov' && optfl_eqb_syn iv iv'
  | _, _ => false
  end.

Definition pred_eqb (a b : pred) : bool :=
  match a, b with
  | PIsNan, PIsNan | PIsInf, PIsInf | PIsFinite, PIsFinite | PIsNormal, PIsNormal | PSignbit, PSignbit => true
  | _, _ => false
  end.

Definition cmpop_eqb (a b : cmpop) : bool :=
  match a, b with
  | CLt, CLt | CLe, CLe | CGe, CGe | CGt, CGt | CEq, CEq | CNe, CNe => true
  | _, _ => false
  end.

Fixpoint cmpops_eqb (l m : list cmpop) : bool :=
  match l, m with
  | [], [] => true
  | x :: l', y :: m' => cmpop_eqb x y && cmpops_eqb l' m'
  | _, _ => false
  end.

Definition ctor_eqb (a b : ctor) : bool :=
  match a, b with
  | KMPFloat r, KMPFloat r' => rmode_eqb r r'
  | KMPSFloat r, KMPSFloat r' => rmode_eqb r r'
  | KMPBFloat r o, KMPBFloat r' o' => rmode_eqb r r' && ovmode_eqb o o'
  | KIEEE r o, KIEEE r' o' => rmode_eqb r r' && ovmode_eqb o o'
  | KMPFixed r, KMPFixed r' => rmode_eqb r r'
  | KFixed s r o, KFixed s' r' o' => Bool.eqb s s' && rmode_eqb r r' && ovmode_eqb o o'
  | KSMFixed r o, KSMFixed r' o' => rmode_eqb r r' && ovmode_eqb o o'
  | KExp r o, KExp r' o' => rmode_eqb r r' && ovmode_eqb o o'
  | _, _ => false
  end.

Fixpoint pat_eqb (p q : pat) {struct p} : bool :=
  match p, q with
  | PVar x, PVar y => String.eqb x y
  | PWild, PWild => true
  | PTuple ps, PTuple qs =>
      (fix go (l m : list pat) : bool :=
         match l, m with
         | [], [] => true
         | x :: l', y :: m' => pat_eqb x y && go l' m'
         | _, _ => false
         end) ps qs
  | _, _ => false
  end.

Definition oident_eqb (a b : option ident) : bool :=
  match a, b with Some x, Some y => String.eqb x y | None, None => true | _, _ => false end.

Definition octx_eqb (a b : option ctx) : bool :=
  match a, b with Some x, Some y => ctx_eqb_syn x y | None, None => true | _, _ => false end.

Fixpoint idents_eqb (l m : list ident) : bool :=
  match l, m with
  | [], [] => true
  | x :: l', y :: m' => String.eqb x y && idents_eqb l' m'
  | _, _ => false
  end.

(* same statement constructor *)
Definition same_head (a b : stmt) : bool :=
  match a, b with
  | SAssign _ _, SAssign _ _ | SIndexAssign _ _ _, SIndexAssign _ _ _ | SIf1 _ _, SIf1 _ _
  | SIf _ _ _, SIf _ _ _ | SIf _ _ _, SIf1 _ _ | SWhile _ _, SWhile _ _ | SFor _ _ _, SFor _ _ _
  | SContext _ _ _, SContext _ _ _ | SAssert _, SAssert _ | SEffect _, SEffect _
  | SReturn _, SReturn _ | SPass, SPass => true
  | _, _ => false
  end.

(* ---------------------------------------------------------------- lock-step comparison *)
Section VExpr.
(* leaf bvs e e': the pair (e, e') is accepted although the nodes differ; bvs
   are the comprehension targets in scope *)
Variable leaf : vars -> expr -> expr -> bool.
(* known_bool bvs c = Some t: c is known to evaluate to t without touching the
   store (a conditional expression with such a condition is its branch) *)
Variable known_bool : vars -> expr -> option bool.

Fixpoint vexpr (bvs : vars) (e e' : expr) {struct e} : bool :=
  leaf bvs e e' ||
  (match e with
   | EIf c a b =>
       match known_bool bvs c with
       | Some true => vexpr bvs a e'
       | Some false => vexpr bvs b e'
       | None => false
       end
   | _ => false
   end) ||
  (let vs := fix go (l m : list expr) : bool :=
       match l, m with
       | [], [] => true
       | x :: l', y :: m' => vexpr bvs x y && go l' m'
       | _, _ => false
       end in
   let vo := fun (a b : option expr) =>
       match a, b with
       | Some x, Some y => vexpr bvs x y
       | None, None => true
       | _, _ => false
       end in
   match e, e' with
   | EVar x, EVar y => String.eqb x y
   | ENum v, ENum w => fl_eqb_syn v w
   | ERat n d, ERat n' d' => (n =? n') && (d =? d')
   | EBool b, EBool b' => Bool.eqb b b'
   | ECtxVal c, ECtxVal c' => ctx_eqb_syn c c'
   | EOp0 o, EOp0 o' => op_eqb o o'
   | EOp1 o a, EOp1 o' a' => op_eqb o o' && vexpr bvs a a'
   | EOp2 o a b, EOp2 o' a' b' => op_eqb o o' && vexpr bvs a a' && vexpr bvs b b'
   | EOp3 o a b c, EOp3 o' a' b' c' => op_eqb o o' && vexpr bvs a a' && vexpr bvs b b' && vexpr bvs c c'
   | EPred p a, EPred p' a' => pred_eqb p p' && vexpr bvs a a'
   | ECompare ops args, ECompare ops' args' => cmpops_eqb ops ops' && vs args args'
   | EAnd args, EAnd args' => vs args args'
   | EOr args, EOr args' => vs args args'
   | ENot a, ENot a' => vexpr bvs a a'
   | EIf c a b, EIf c' a' b' => vexpr bvs c c' && vexpr bvs a a' && vexpr bvs b b'
   | ETuple es, ETuple es' => vs es es'
   | EFst a, EFst a' => vexpr bvs a a'
   | ESnd a, ESnd a' => vexpr bvs a a'
   | EList es, EList es' => vs es es'
   | ERef a i, ERef a' i' => vexpr bvs a a' && vexpr bvs i i'
   | ESlice a lo hi, ESlice a' lo' hi' => vexpr bvs a a' && vo lo lo' && vo hi hi'
   | EComp gens elt, EComp gens' elt' =>
       (fix go (bvs : vars) (l m : list (pat * expr)) : bool :=
          match l, m with
          | [], [] => vexpr bvs elt elt'
          | (p, it) :: l', (p', it') :: m' =>
              pat_eqb p p' && vexpr bvs it it' && go (pvars p ++ bvs) l' m'
          | _, _ => false
          end) bvs gens gens'
   | ELen a, ELen a' => vexpr bvs a a'
   | ERange1 a, ERange1 a' => vexpr bvs a a'
   | ERange2 a b, ERange2 a' b' => vexpr bvs a a' && vexpr bvs b b'
   | ERange3 a b c, ERange3 a' b' c' => vexpr bvs a a' && vexpr bvs b b' && vexpr bvs c c'
   | EZip es, EZip es' => vs es es'
   | EEnumerate a, EEnumerate a' => vexpr bvs a a'
   | EEmpty es, EEmpty es' => vs es es'
   | EDim a, EDim a' => vexpr bvs a a'
   | ESize a d, ESize a' d' => vexpr bvs a a' && vexpr bvs d d'
   | ESum a, ESum a' => vexpr bvs a a'
   | EAMin a, EAMin a' => vexpr bvs a a'
   | EAMax a, EAMax a' => vexpr bvs a a'
   | EMin es, EMin es' => vs es es'
   | EMax es, EMax es' => vs es es'
   | EAny a, EAny a' => vexpr bvs a a'
   | EAll a, EAll a' => vexpr bvs a a'
   | ECall f args, ECall f' args' => String.eqb f f' && vs args args'
   | ECtor k args, ECtor k' args' => ctor_eqb k k' && vs args args'
   | _, _ => false
   end).

Definition vexprs (bvs : vars) : list expr -> list expr -> bool :=
  fix go (l m : list expr) : bool :=
    match l, m with
    | [], [] => true
    | x :: l', y :: m' => vexpr bvs x y && go l' m'
    | _, _ => false
    end.

Definition voexpr (bvs : vars) (a b : option expr) : bool :=
  match a, b with
  | Some x, Some y => vexpr bvs x y
  | None, None => true
  | _, _ => false
  end.

Definition vgens (elt elt' : expr) : vars -> list (pat * expr) -> list (pat * expr) -> bool :=
  fix go (bvs : vars) (l m : list (pat * expr)) : bool :=
    match l, m with
    | [], [] => vexpr bvs elt elt'
    | (p, it) :: l', (p', it') :: m' =>
        pat_eqb p p' && vexpr bvs it it' && go (pvars p ++ bvs) l' m'
    | _, _ => false
    end.
End VExpr.

Definition no_leaf (_ : vars) (_ _ : expr) : bool := false.
Definition no_kb (_ : vars) (_ : expr) : option bool := None.

(* structural (syntactic) equality *)
Definition expr_eqb : expr -> expr -> bool := vexpr no_leaf no_kb [].

Fixpoint stmt_eqb (a b : stmt) {struct a} : bool :=
  let bs := fix go (l m : list stmt) : bool :=
      match l, m with
      | [], [] => true
      | x :: l', y :: m' => stmt_eqb x y && go l' m'
      | _, _ => false
      end in
  match a, b with
  | SAssign p e, SAssign p' e' => pat_eqb p p' && expr_eqb e e'
  | SIndexAssign x idx e, SIndexAssign x' idx' e' =>
      String.eqb x x' && vexprs no_leaf no_kb [] idx idx' && expr_eqb e e'
  | SIf1 c body, SIf1 c' body' => expr_eqb c c' && bs body body'
  | SIf c t f, SIf c' t' f' => expr_eqb c c' && bs t t' && bs f f'
  | SWhile c body, SWhile c' body' => expr_eqb c c' && bs body body'
  | SFor p it body, SFor p' it' body' => pat_eqb p p' && expr_eqb it it' && bs body body'
  | SContext x e body, SContext x' e' body' => oident_eqb x x' && expr_eqb e e' && bs body body'
  | SAssert e, SAssert e' => expr_eqb e e'
  | SEffect e, SEffect e' => expr_eqb e e'
  | SReturn e, SReturn e' => expr_eqb e e'
  | SPass, SPass => true
  | _, _ => false
  end.

Definition block_eqb : block -> block -> bool :=
  fix go (l m : list stmt) : bool :=
    match l, m with
    | [], [] => true
    | x :: l', y :: m' => stmt_eqb x y && go l' m'
    | _, _ => false
    end.

(* ---------------------------------------------------------------- literals *)
(* list-free literal expressions (what a folded scalar/tuple/context looks like) *)
Fixpoint is_lit (e : expr) : bool :=
  match e with
  | ENum _ | EBool _ | ECtxVal _ => true
  | ERat n d => negb (d =? 0)
  | ETuple es => forallb is_lit es
  | _ => false
  end.

(* the value of a literal, without fuel *)
Fixpoint lit_val (e : expr) : option value :=
  match e with
  | ENum v => Some (VNum (NF v))
  | ERat n d => if d =? 0 then None else Some (VNum (num_of_frac n d))
  | EBool b => Some (VBool b)
  | ECtxVal c => Some (VCtx c)
  | ETuple es =>
      match (fix go (l : list expr) : option (list value) :=
               match l with
               | [] => Some []
               | x :: r => match lit_val x, go r with
                           | Some v, Some vs => Some (v :: vs)
                           | _, _ => None
                           end
               end) es with
      | Some vs => Some (VTuple vs)
      | None => None
      end
  | _ => None
  end.

(* nesting depth of a literal = the fuel its evaluation needs *)
Fixpoint lit_depth (e : expr) : nat :=
  match e with
  | ETuple es => S (S (fold_right (fun x m => Nat.max (lit_depth x) m) O es + List.length es))
  | _ => 1%nat
  end.

(* the canonical encoding harness/lang.py prints for a finite dyadic value:
   integers as (s, 0, |n|), the others with an odd significand *)
Fixpoint strip_zeros (k : nat) (e c : Z) : Z * Z :=
  match k with
  | O => (e, c)
  | S k' => if (e <? 0) && Z.even c && negb (c =? 0) then strip_zeros k' (e + 1) (c / 2) else (e, c)
  end.

Definition canon_rf (r : rf) : rf :=
  if rc r =? 0 then RF (rs r) 0 0
  else if rexp r >=? 0 then RF (rs r) 0 (rc r * 2 ^ rexp r)
  else let '(e, c) := strip_zeros (Z.to_nat (- rexp r)) (rexp r) (rc r) in RF (rs r) e c.

(* const_fold.value_to_literal AS CODED (lists included; see
   SimpConstFoldProofs: sound for list-free values only) *)
Fixpoint literal_of_value (v : cval) : option expr :=
  let lits := fix go (l : list cval) : option (list expr) :=
      match l with
      | [] => Some []
      | x :: r => match literal_of_value x, go r with
                  | Some e, Some es => Some (e :: es)
                  | _, _ => None
                  end
      end in
  match v with
  | CBool b => Some (EBool b)
  | CNum (NF (FFin r)) => Some (ENum (FFin (canon_rf r)))     (* incl. Decnum('-0.0') for -0 *)
  | CNum (NF _) => None                                        (* inf / nan: no literal form *)
  | CNum (NQ n d) => Some (ERat n d)
  | CCtx c => Some (ECtxVal c)
  | CTuple l => match lits l with Some es => Some (ETuple es) | None => None end
  | CList l => match lits l with Some es => Some (EList es) | None => None end
  | CUninit => None
  end.

Fixpoint list_free (v : cval) : bool :=
  match v with
  | CList _ => false
  | CTuple l => forallb list_free l
  | _ => true
  end.
