(* C07: copy propagation (transform/copy_propagate.py + subst_var.py over
   analysis/define_use.py) and the validator of expression rewriting that
   covers CopyPropagate and ConstFold results.  Definitions only.

   The analysis state is a list of AVAILABLE EQUALITIES  x = e  with e simple
   (a variable, or a list-free literal).  For the structured core this is what
   "the uses reached by the definition x = y" of the def-use analysis amounts
   to: the equality is generated at `x = y`, killed when x gets a new
   definition (Assign / IndexedAssign / for target / with target), dropped at a
   merge when either branch defines x (the use then sees a phi), and dropped at
   a loop head when the body defines x (loop-carried phi).

     cp guard_src fix_for     the pass;  cp false true = AS CODED (cp false false before 1bc6253):
        guard_src = false     an equality x = y survives a redefinition of the
                              SOURCE y (the use site is substituted although y
                              changed: the known defect);  true = the repair
        fix_for = false       analysis/reaching_defs.py `_visit_for` forgets
                              the loop target after the loop (the definitions
                              before the loop are taken to reach the code after
                              it); true = the repair
     vrw / vrw_func           the validator: accepts (p, p') when p' is p with
                              sub-expressions replaced by (i) the right-hand
                              side of an available equality or (ii) a literal,
                              the latter producing a CLAIM "e evaluates to that
                              literal under the literal facts and the statically
                              known context" checked by `claim_ok`. *)
From Coq Require Import ZArith List Bool String.
From FpyV Require Import Num.RealFloat Num.Float Num.CtxDef Lang.Syntax Lang.Values Lang.Sem.
From FpyV Require Import Lang.Transforms.SimpDefs.
Import ListNotations.
Open Scope Z_scope.

Definition fact := (ident * expr)%type.
Definition facts := list fact.

Definition simple (e : expr) : bool := match e with EVar _ => true | _ => is_lit e end.

(* ---------------------------------------------------------------- substitution (SubstVar) *)
Section Subst.
(* rho bvs x: the replacement of a use of x under the comprehension targets bvs *)
Variable rho : vars -> ident -> option expr.

Fixpoint esubst (bvs : vars) (e : expr) {struct e} : expr :=
  let sub := esubst bvs in
  match e with
  | EVar x => match rho bvs x with Some e' => e' | None => EVar x end
  | ENum _ | ERat _ _ | EBool _ | ECtxVal _ | EOp0 _ => e
  | EOp1 o a => EOp1 o (sub a)
  | EOp2 o a b => EOp2 o (sub a) (sub b)
  | EOp3 o a b c => EOp3 o (sub a) (sub b) (sub c)
  | EPred p a => EPred p (sub a)
  | ECompare ops args => ECompare ops (map sub args)
  | EAnd args => EAnd (map sub args)
  | EOr args => EOr (map sub args)
  | ENot a => ENot (sub a)
  | EIf c a b => EIf (sub c) (sub a) (sub b)
  | ETuple es => ETuple (map sub es)
  | EFst a => EFst (sub a)
  | ESnd a => ESnd (sub a)
  | EList es => EList (map sub es)
  | ERef a i => ERef (sub a) (sub i)
  | ESlice a lo hi => ESlice (sub a) (option_map sub lo) (option_map sub hi)
  | EComp gens elt =>
      (fix go (bvs : vars) (l : list (pat * expr)) (acc : list (pat * expr)) : expr :=
         match l with
         | [] => EComp (rev acc) (esubst bvs elt)
         | (p, it) :: l' => go (pvars p ++ bvs) l' ((p, esubst bvs it) :: acc)
         end) bvs gens []
  | ELen a => ELen (sub a)
  | ERange1 a => ERange1 (sub a)
  | ERange2 a b => ERange2 (sub a) (sub b)
  | ERange3 a b c => ERange3 (sub a) (sub b) (sub c)
  | EZip es => EZip (map sub es)
  | EEnumerate a => EEnumerate (sub a)
  | EEmpty es => EEmpty (map sub es)
  | EDim a => EDim (sub a)
  | ESize a d => ESize (sub a) (sub d)
  | ESum a => ESum (sub a)
  | EAMin a => EAMin (sub a)
  | EAMax a => EAMax (sub a)
  | EMin es => EMin (map sub es)
  | EMax es => EMax (map sub es)
  | EAny a => EAny (sub a)
  | EAll a => EAll (sub a)
  | ECall f args => ECall f (map sub args)
  | ECtor k args => ECtor k (map sub args)
  end.
End Subst.

(* ---------------------------------------------------------------- the pass *)
Section CP.
Variable guard_src : bool.
Variable fix_for : bool.

Definition cp_kill (A : vars) (E : facts) : facts :=
  filter (fun xe => negb (vmem (fst xe) A) && (negb guard_src || vdisj (evars (snd xe)) A)) E.

Definition cp_lookup (E : facts) (x : ident) : option expr :=
  match find (fun xe => String.eqb x (fst xe)) E with Some xe => Some (snd xe) | None => None end.

(* _SubstVar._visit_var: the definition reaching the use is a recorded copy *)
Definition cp_rho (E : facts) (bvs : vars) (x : ident) : option expr :=
  if vmem x bvs then None
  else match cp_lookup E x with
       | Some e => if guard_src && negb (vdisj (evars e) bvs) then None else Some e
       | None => None
       end.

(* CopyPropagate: d.site is `x = y` with an Id target and a Var right-hand side
   (a free variable naming a context is exported as ECtxVal) *)
Definition cp_gen (p : pat) (e : expr) (E : facts) : facts :=
  match p, e with
  | PVar x, EVar y => if String.eqb x y then E else (x, EVar y) :: E
  | PVar x, ECtxVal c => (x, ECtxVal c) :: E
  | _, _ => E
  end.

Fixpoint cp_stmt (E : facts) (st : stmt) {struct st} : stmt * facts :=
  let blk := fix go (E : facts) (b : list stmt) : list stmt * facts :=
      match b with
      | [] => ([], E)
      | st :: r => let '(st', E1) := cp_stmt E st in let '(r', E2) := go E1 r in (st' :: r', E2)
      end in
  let sub := fun E => esubst (cp_rho E) [] in
  match st with
  | SAssign p e => (SAssign p (sub E e), cp_gen p e (cp_kill (pvars p) E))
  | SIndexAssign x idx e => (SIndexAssign x (map (sub E) idx) (sub E e), cp_kill [x] E)
  | SIf1 c body =>
      (SIf1 (sub E c) (fst (blk E body)), cp_kill (assigned_block body) E)
  | SIf c t f =>
      (SIf (sub E c) (fst (blk E t)) (fst (blk E f)), cp_kill (assigned_block t ++ assigned_block f) E)
  | SWhile c body =>
      let Eh := cp_kill (assigned_block body) E in
      (SWhile (sub Eh c) (fst (blk Eh body)), Eh)
  | SFor p it body =>
      let Eh := cp_kill (assigned_block body) E in
      let Eb := cp_kill (pvars p) Eh in
      (SFor p (sub E it) (fst (blk Eb body)), if fix_for then Eb else Eh)
  | SContext x e body =>
      let E1 := cp_kill (ovar x) E in
      let '(body', E2) := blk E1 body in
      (SContext x (sub E e) body', E2)
  | SAssert e => (SAssert (sub E e), E)
  | SEffect e => (SEffect (sub E e), E)
  | SReturn e => (SReturn (sub E e), E)
  | SPass => (SPass, E)
  end.

Definition cp_block : facts -> block -> block * facts :=
  fix go (E : facts) (b : list stmt) : list stmt * facts :=
    match b with
    | [] => ([], E)
    | st :: r => let '(st', E1) := cp_stmt E st in let '(r', E2) := go E1 r in (st' :: r', E2)
    end.

Definition cp (fn : func) : block := fst (cp_block [] (f_body fn)).
End CP.

(* AS CODED now: the for-target repair (1bc6253) is in /repo, the source guard is not *)
Definition copyprop_as_coded : func -> block := cp false true.
Definition copyprop_unrepaired : func -> block := cp false false.
Definition copyprop_fixed : func -> block := cp true true.

(* ---------------------------------------------------------------- the validator *)
Record claim := Claim {
  cl_env : facts;             (* literal facts x = l in force *)
  cl_ctx : option ctx;        (* the statically known active context, if any *)
  cl_e : expr;                (* the replaced expression *)
  cl_lit : expr }.            (* the literal that replaces it *)

Definition kill (A : vars) (E : facts) : facts :=
  filter (fun xe => negb (vmem (fst xe) A) && vdisj (evars (snd xe)) A) E.

Definition lit_facts (E : facts) : facts := filter (fun xe => is_lit (snd xe)) E.
Definition has_lit (E : facts) (x : ident) : bool := vmem x (map fst (lit_facts E)).

Definition env_of_facts (E : facts) : env :=
  flat_map (fun xe => match lit_val (snd xe) with Some v => [(fst xe, v)] | None => [] end) E.

Section Validator.
(* literals deeper than kfuel are not used (the fuel slack of the soundness theorem) *)
Variable kfuel : nat.
Variable claim_ok : claim -> bool.
(* a guess of the context a `with` header evaluates to (checked as a claim) *)
Variable guess_ctx : facts -> expr -> option ctx.

Definition guess_checked (E : facts) (e' : expr) : option ctx :=
  match guess_ctx (lit_facts E) e' with
  | Some c =>
      if pure_na e' && forallb (has_lit E) (efv [] e') &&
         claim_ok (Claim (lit_facts E) (Some CReal) e' (ECtxVal c))
      then Some c else None
  | None => None
  end.

Definition known_ctx (E : facts) (e' : expr) : option ctx :=
  match e' with
  | ECtxVal c => Some c
  | _ => guess_checked E e'
  end.

Definition leaf_rw (E : facts) (oc : option ctx) (bvs : vars) (e e' : expr) : bool :=
  (match e with
   | EVar x =>
       negb (vmem x bvs) && vdisj (evars e') bvs && Nat.leb (lit_depth e') kfuel &&
       existsb (fun ys => String.eqb x (fst ys) && expr_eqb (snd ys) e' && vdisj (evars (snd ys)) bvs) E
   | _ => false
   end)
  || (is_lit e' && negb (is_lit e) && Nat.leb (lit_depth e') kfuel &&
      pure_na e &&
      forallb (fun x => negb (vmem x bvs) && has_lit E x) (efv [] e) &&
      claim_ok (Claim (lit_facts E) oc e e')).

Definition kb_rw (E : facts) (oc : option ctx) (bvs : vars) (c : expr) : option bool :=
  if pure_na c && forallb (fun x => negb (vmem x bvs) && has_lit E x) (efv [] c) then
    if claim_ok (Claim (lit_facts E) oc c (EBool true)) then Some true
    else if claim_ok (Claim (lit_facts E) oc c (EBool false)) then Some false
    else None
  else None.

Definition gen (p : pat) (e e' : expr) (E : facts) : facts :=
  match p with
  | PVar x =>
      (if simple e && negb (vmem x (evars e)) && Nat.leb (lit_depth e) kfuel then [(x, e)] else []) ++
      (if simple e' && negb (vmem x (evars e')) && Nat.leb (lit_depth e') kfuel then [(x, e')] else []) ++ E
  | _ => E
  end.

Fixpoint vrw (d : nat) (E : facts) (oc : option ctx) (st st' : stmt) {struct d} : option facts :=
  match d with
  | O => None
  | S d' =>
    let vx := vexpr (leaf_rw E oc) (kb_rw E oc) [] in
    match st, st' with
    | SAssign p e, SAssign p' e' =>
        if pat_eqb p p' && vx e e' then Some (gen p e e' (kill (pvars p) E)) else None
    | SIndexAssign x idx e, SIndexAssign x' idx' e' =>
        if String.eqb x x' && vexprs (leaf_rw E oc) (kb_rw E oc) [] idx idx' && vx e e' then Some E else None
    | SIf1 c body, SIf1 c' body' =>
        if vx c c' then
          match vrwb d' E oc body body' with
          | Some _ => Some (kill (bound_block body) E)
          | None => None
          end
        else None
    | SIf c t f, SIf c' t' f' =>
        if vx c c' then
          match vrwb d' E oc t t', vrwb d' E oc f f' with
          | Some _, Some _ => Some (kill (bound_block t ++ bound_block f) E)
          | _, _ => None
          end
        else None
    | SWhile c body, SWhile c' body' =>
        let Eh := kill (bound_block body) E in
        if vexpr (leaf_rw Eh oc) (kb_rw Eh oc) [] c c' then
          match vrwb d' Eh oc body body' with
          | Some _ => Some Eh
          | None => None
          end
        else None
    | SFor p it body, SFor p' it' body' =>
        let Eh := kill (pvars p ++ bound_block body) E in
        if pat_eqb p p' && vx it it' then
          match vrwb d' Eh oc body body' with
          | Some _ => Some Eh
          | None => None
          end
        else None
    | SContext x e body, SContext x' e' body' =>
        if oident_eqb x x' && vexpr (leaf_rw E (Some CReal)) (kb_rw E (Some CReal)) [] e e' then
          let oc' := known_ctx E e' in
          let E1 := kill (ovar x) E in
          let E2 := match x, oc' with
                    | Some x, Some c => (x, ECtxVal c) :: E1
                    | _, _ => E1
                    end in
          vrwb d' E2 oc' body body'
        else None
    | SAssert e, SAssert e' => if vx e e' then Some E else None
    | SEffect e, SEffect e' => if vx e e' then Some E else None
    | SReturn e, SReturn e' => if vx e e' then Some E else None
    | SPass, SPass => Some E
    | _, _ => None
    end
  end

with vrwb (d : nat) (E : facts) (oc : option ctx) (b b' : block) {struct d} : option facts :=
  match d with
  | O => None
  | S d' =>
    match b, b' with
    | [], [] => Some E
    | st :: r, st' :: r' =>
        match vrw d' E oc st st' with
        | Some E1 => vrwb d' E1 oc r r'
        | None => None
        end
    | _, _ => None
    end
  end.

(* PartialEval starts from the declared context of the function (or none) *)
Definition vrw_func (d : nat) (fn fn' : func) : bool :=
  idents_eqb (f_params fn) (f_params fn') && octx_eqb (f_ctx fn) (f_ctx fn') &&
  match vrwb d [] (f_ctx fn) (f_body fn) (f_body fn') with Some _ => true | None => false end.
End Validator.

(* no literal replacement allowed: the validator of copy propagation alone *)
Definition no_claims (_ : claim) : bool := false.
Definition no_guess (_ : facts) (_ : expr) : option ctx := None.
Definition validate_copyprop (d : nat) := vrw_func 1 no_claims no_guess d.

(* the pass that the soundness theorem is about: the repaired analysis, its
   result re-checked by the verified validator (identity when rejected) *)
Definition copyprop_checked (d : nat) (fn : func) : block :=
  let b' := copyprop_fixed fn in
  if validate_copyprop d fn (with_body fn b') then b' else f_body fn.
