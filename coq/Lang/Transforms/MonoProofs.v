(* Soundness of monomorphization (context pinning) and of closing a function
   over its captured scalar / tuple values (model: Mono.v). *)
From Coq Require Import ZArith List Bool String Lia.
From FpyV Require Import Num.RealFloat Num.Float Num.CtxDef Lang.Syntax Lang.Values Lang.Sem Lang.SemMono Lang.SemProps.
From FpyV Require Import Lang.Transforms.Rename Lang.Transforms.RenameProofs Lang.Transforms.RenameSimProofs
                         Lang.Transforms.Inline Lang.Transforms.InlineProofs Lang.Transforms.Mono.
Import ListNotations.

Section MonoP.
Variable N : numops.
Variable P : program.

(* pinning the context: a call of the pinned function under ANY caller context is the call of the
   original under the pinned context -- every outcome, the same fuel *)
Theorem mono_call_eq : forall c fn fn' n vs mu C0,
  mono c fn = Some fn' ->
  call N P n fn' vs mu C0 = call N P n fn vs mu c.
Proof.
  intros c fn fn' n vs mu C0 H. unfold mono in H.
  destruct n as [|n]; [reflexivity|]. rewrite !call_unfold.
  destruct (f_ctx fn) as [c0|] eqn:Ec.
  - destruct (same_format c0 c); [|discriminate]. inversion H; subst. rewrite ?Ec. reflexivity.
  - inversion H; subst. cbn [f_params f_ctx f_body]. rewrite ?Ec. reflexivity.
Qed.

End MonoP.

(* at the Python boundary: calling mono(f, c) on args returns what f returns on args with ctx=c *)
Theorem mono_sound : forall N P c f fn fn' f',
  lookup_fn P f = Some fn -> lookup_fn P f' = None -> mono c fn = Some fn' ->
  forall n args v, run N P n f args (Some c) = ROk v ->
  run N (P ++ [(f', fn')]) n f' args None = ROk v.
Proof.
  intros N P c f fn fn' f' Hl Hn Hm n args v H.
  unfold run in H |- *. rewrite Hl in H. rewrite (lookup_app_new _ _ _ Hn).
  destruct (inject_all args []) as [vs mu].
  destruct (call N P n fn vs mu c) as [[w mu1]| |] eqn:Ec; try discriminate.
  rewrite <- (mono_call_eq N P c fn fn' n vs mu FP64 Hm) in Ec.
  apply (call_ext N P (P ++ [(f', fn')]) (fun g x Hg => lookup_app_l P _ g x Hg)) in Ec.
  rewrite Ec. exact H.
Qed.

(* the same statement within one program (every outcome) *)
Theorem mono_run_eq : forall N P c f fn fn' f' n args,
  lookup_fn P f = Some fn -> lookup_fn P f' = Some fn' -> mono c fn = Some fn' ->
  run N P n f' args None = run N P n f args (Some c).
Proof.
  intros N P c f fn fn' f' n args Hl Hl' Hm. unfold run. rewrite Hl, Hl'.
  destruct (inject_all args []) as [vs mu]. rewrite (mono_call_eq N P c fn fn' n vs mu FP64 Hm). reflexivity.
Qed.

(* ---------------------------------------------------------------- close *)
Section CloseP.
Variable N : numops.
Variable P : program.

Lemma lit_eval : forall e v, lit_value e = Some v -> forall T mu C, XE N P T mu C e (v, mu).
Proof.
  induction e using expr_ind'; intros v0 Hv T mu C; try discriminate.
  - cbn in Hv. inversion Hv; subst. exists 1%nat. reflexivity.
  - cbn in Hv. destruct (d =? 0)%Z eqn:Ed; [discriminate|]. inversion Hv; subst.
    exists 1%nat. simpl. rewrite Ed. reflexivity.
  - cbn in Hv. inversion Hv; subst. exists 1%nat. reflexivity.
  - (* tuple *)
    cbn [lit_value] in Hv.
    match type of Hv with match ?g es with _ => _ end = _ => destruct (g es) as [vs|] eqn:Eg; [|discriminate] end.
    inversion Hv; subst v0. clear Hv.
    assert (K : exists m, evals N P m T mu C es = ROk (vs, mu)).
    { clear -H Eg. revert vs Eg. induction H as [|x r Hx Hr IH]; intros vs Eg.
      - inversion Eg; subst. exists 1%nat. reflexivity.
      - destruct (lit_value x) as [vx|] eqn:Ex; [|discriminate].
        match type of Eg with match ?g r with _ => _ end = _ => destruct (g r) as [vr|] eqn:Er; [|discriminate] end.
        inversion Eg; subst vs. destruct (Hx _ eq_refl T mu C) as [m1 H1]. destruct (IH _ eq_refl) as [m2 H2].
        exists (S (Nat.max m1 m2)). simpl.
        rewrite (eval_up N P m1 _ _ _ _ _ _ (Nat.le_max_l _ _) H1). cbn [rbind].
        assert (H2' : evals N P (Nat.max m1 m2) T mu C r = ROk (vr, mu)).
        { eapply evals_mono; [exact H2|discriminate|apply Nat.le_max_r]. }
        rewrite H2'. reflexivity. }
    destruct K as [m Hm]. exists (S m). simpl. rewrite Hm. reflexivity.
Qed.

Definition prelude (cs : caps) : block := map (fun xe => SAssign (PVar (fst xe)) (snd xe)) cs.

Lemma prelude_run : forall cs cvs, cap_values cs = Some cvs -> forall T mu C,
  exists T1, XB N P T mu C (prelude cs) (ONormal T1, mu) /\ bind_params (map fst cs) cvs T = Ok T1.
Proof.
  induction cs as [|[x e] cs IH]; intros cvs Hc T mu C.
  - inversion Hc; subst. exists T. split; [apply XB_nil|reflexivity].
  - cbn in Hc. destruct (lit_value e) as [v|] eqn:Ee; [|discriminate].
    destruct (cap_values cs) as [vs|] eqn:Ev; [|discriminate]. inversion Hc; subst cvs.
    destruct (IH _ eq_refl (env_set T x v) mu C) as (T1 & Hx & Hb).
    exists T1. split; [|exact Hb]. cbn [prelude map fst snd].
    eapply XB_cons_normal; [|exact Hx]. eapply XS_assign; [apply lit_eval; exact Ee|reflexivity].
Qed.

Lemma bind_params_app : forall xs ys vs ws s, List.length xs = List.length vs ->
  bind_params (xs ++ ys) (vs ++ ws) s =
  match bind_params xs vs s with Ok s1 => bind_params ys ws s1 | Err e => Err e end.
Proof.
  induction xs as [|x xs IH]; intros ys vs ws s Hl; destruct vs; try discriminate; cbn; auto.
Qed.

Lemma bind_params_len : forall xs vs s s', bind_params xs vs s = Ok s' -> List.length xs = List.length vs.
Proof.
  induction xs as [|x xs IH]; intros vs s s' H; destruct vs; cbn in H; try discriminate; auto.
  cbn. f_equal. eapply IH; eauto.
Qed.

Lemma bind_params_total : forall xs vs s, List.length xs = List.length vs -> exists s', bind_params xs vs s = Ok s'.
Proof.
  induction xs as [|x xs IH]; intros vs s H; destruct vs; try discriminate; cbn; eauto.
Qed.

Lemma cap_values_len : forall cs cvs, cap_values cs = Some cvs -> List.length (map fst cs) = List.length cvs.
Proof.
  induction cs as [|[x e] cs IH]; intros cvs H; cbn in H.
  - inversion H; reflexivity.
  - destruct (lit_value e); [|discriminate]. destruct (cap_values cs) eqn:E; [|discriminate].
    inversion H; subst. cbn. f_equal. apply IH. reflexivity.
Qed.

Lemma bind_params_get : forall xs vs s s' z, bind_params xs vs s = Ok s' -> NoDup xs -> In z xs ->
  exists i v, nth_error xs i = Some z /\ nth_error vs i = Some v /\ env_get s' z = Some v.
Proof.
  intros xs vs s s' z Hb Hnd Hin. destruct (In_nth_error _ _ Hin) as [i Hi].
  pose proof (bind_params_len _ _ _ _ Hb) as Hl.
  destruct (nth_error vs i) as [v|] eqn:Ev.
  - exists i, v. repeat split; auto. eapply bind_params_exact; eauto.
  - apply nth_error_None in Ev. assert (i < List.length xs)%nat by (apply nth_error_Some; congruence). lia.
Qed.

(* closing over captured scalar / tuple values: the closed function on the arguments is the
   function on the captured values followed by the arguments *)
Theorem close_call_sim : forall cs cvs fn, cap_values cs = Some cvs ->
  NoDup (map fst cs) -> NoDup (f_params fn) ->
  (forall z, In z (map fst cs) -> ~ In z (f_params fn)) ->
  forall n args mu C r,
  call N P n (with_caps cs fn) (cvs ++ args) mu C = ROk r ->
  exists m, call N P m (close cs fn) args mu C = ROk r.
Proof.
  intros cs cvs fn Hc Hnd1 Hnd2 Hdis n args mu C r H.
  destruct n as [|n]; [discriminate|]. rewrite call_unfold in H. cbn [with_caps f_params f_ctx f_body] in H.
  pose proof (cap_values_len _ _ Hc) as Hlen.
  rewrite (bind_params_app _ _ _ _ _ Hlen) in H.
  destruct (bind_params (map fst cs) cvs []) as [sa|] eqn:Ea; [|discriminate].
  destruct (bind_params (f_params fn) args sa) as [s0|] eqn:Eb; [|discriminate]. cbn [lift rbind] in H.
  set (C' := match f_ctx fn with Some c => c | None => C end) in *.
  destruct (exec_block N P n s0 mu C' (f_body fn)) as [[o mu1]| |] eqn:Ex; try discriminate.
  cbn [rbind] in H. destruct o as [s1|v]; [discriminate|]. inversion H; subst r. clear H.
  destruct (bind_params_total (f_params fn) args [] (bind_params_len _ _ _ _ Eb)) as (t0 & Et0).
  destruct (prelude_run _ _ Hc t0 mu C') as (T1 & Hx & Hb1).
  assert (HR : erel idr s0 T1).
  { intros z w Hz. unfold idr.
    destruct (in_dec string_dec z (f_params fn)) as [Hp|Hp].
    - destruct (bind_params_get _ _ _ _ _ Eb Hnd2 Hp) as (i & vz & Hi & Hv & Hg).
      rewrite Hg in Hz. inversion Hz; subst w.
      rewrite (bind_params_dom _ _ _ _ Hb1) by (intro Hq; exact (Hdis _ Hq Hp)).
      eapply bind_params_exact; eauto.
    - rewrite (bind_params_dom _ _ _ _ Eb _ Hp) in Hz.
      destruct (in_dec string_dec z (map fst cs)) as [Hq|Hq].
      + destruct (bind_params_get _ _ _ _ _ Ea Hnd1 Hq) as (i & vz & Hi & Hv & Hg).
        rewrite Hg in Hz. inversion Hz; subst w. eapply bind_params_exact; eauto.
      + rewrite (bind_params_dom _ _ _ _ Ea _ Hq) in Hz. discriminate. }
  destruct (exec_block_frame N P n n s0 T1 mu C' (f_body fn) _ _ (le_n _) HR Ex) as (o' & Ex' & Ho).
  destruct o' as [T'|v']; cbn in Ho; [contradiction|]. subst v'.
  assert (Hall : XB N P t0 mu C' (prelude cs ++ f_body fn) (OReturn v, mu1)).
  { eapply XB_app; [exact Hx|]. exists n. exact Ex'. }
  destruct Hall as [m Hm]. exists (S m). rewrite call_unfold. cbn [close f_params f_ctx f_body].
  rewrite Et0. cbn [lift rbind]. fold C'. unfold prelude in Hm. rewrite Hm. reflexivity.
Qed.

End CloseP.
