(* C07: the syntactic comparisons of SimpDefs.v decide equality; cval_eqb is reflexive. *)
From Coq Require Import ZArith List Bool String Lia.
From FpyV Require Import Num.RealFloat Num.Float Num.CtxDef Lang.Syntax Lang.Values Lang.Sem.
From FpyV Require Import Lang.Transforms.SimpDefs.
Import ListNotations.
Open Scope Z_scope.

Lemma rmode_eqb_eq : forall a b, rmode_eqb a b = true -> a = b.
Proof. destruct a, b; cbn; congruence. Qed.
Lemma ovmode_eqb_eq : forall a b, ovmode_eqb a b = true -> a = b.
Proof. destruct a, b; cbn; congruence. Qed.
Lemma nankind_eqb_eq : forall a b, nankind_eqb a b = true -> a = b.
Proof. destruct a, b; cbn; congruence. Qed.
Lemma optZ_eqb_eq : forall a b, optZ_eqb a b = true -> a = b.
Proof. destruct a, b; cbn; try congruence. intros H. apply Z.eqb_eq in H. congruence. Qed.
Lemma pred_eqb_eq : forall a b, pred_eqb a b = true -> a = b.
Proof. destruct a, b; cbn; congruence. Qed.
Lemma cmpop_eqb_eq : forall a b, cmpop_eqb a b = true -> a = b.
Proof. destruct a, b; cbn; congruence. Qed.
Lemma cmpops_eqb_eq : forall a b, cmpops_eqb a b = true -> a = b.
Proof.
  induction a as [|x a IH]; destruct b as [|y b]; cbn; try congruence.
  intros H. apply andb_prop in H. destruct H as [H1 H2]. apply cmpop_eqb_eq in H1. apply IH in H2. congruence.
Qed.
Lemma op_eqb_eq : forall a b, op_eqb a b = true -> a = b.
Proof.
  destruct a, b; cbn; try congruence; intros H; apply String.eqb_eq in H; congruence.
Qed.

Ltac eqb_all :=
  repeat match goal with
  | H : _ && _ = true |- _ => apply andb_prop in H; destruct H
  | H : Bool.eqb _ _ = true |- _ => apply Bool.eqb_prop in H
  | H : (_ =? _) = true |- _ => apply Z.eqb_eq in H
  | H : String.eqb _ _ = true |- _ => apply String.eqb_eq in H
  | H : rmode_eqb _ _ = true |- _ => apply rmode_eqb_eq in H
  | H : ovmode_eqb _ _ = true |- _ => apply ovmode_eqb_eq in H
  | H : nankind_eqb _ _ = true |- _ => apply nankind_eqb_eq in H
  | H : optZ_eqb _ _ = true |- _ => apply optZ_eqb_eq in H
  | H : pred_eqb _ _ = true |- _ => apply pred_eqb_eq in H
  | H : op_eqb _ _ = true |- _ => apply op_eqb_eq in H
  | H : cmpops_eqb _ _ = true |- _ => apply cmpops_eqb_eq in H
  end.

Lemma rf_eqb_syn_eq : forall a b, rf_eqb_syn a b = true -> a = b.
Proof. destruct a, b; unfold rf_eqb_syn; cbn. intros H. eqb_all. congruence. Qed.

Lemma fl_eqb_syn_eq : forall a b, fl_eqb_syn a b = true -> a = b.
Proof.
  destruct a, b; cbn; try congruence; intros H.
  - apply rf_eqb_syn_eq in H. congruence.
  - eqb_all. congruence.
  - eqb_all. congruence.
Qed.

Lemma optfl_eqb_syn_eq : forall a b, optfl_eqb_syn a b = true -> a = b.
Proof. destruct a, b; cbn; try congruence. intros H. apply fl_eqb_syn_eq in H. congruence. Qed.

Lemma special_eqb_syn_eq : forall a b, special_eqb_syn a b = true -> a = b.
Proof.
  destruct a, b; unfold special_eqb_syn; cbn. intros H. eqb_all.
  repeat match goal with H : optfl_eqb_syn _ _ = true |- _ => apply optfl_eqb_syn_eq in H end.
  congruence.
Qed.

Ltac eqb_more :=
  eqb_all;
  repeat match goal with
  | H : optfl_eqb_syn _ _ = true |- _ => apply optfl_eqb_syn_eq in H
  | H : special_eqb_syn _ _ = true |- _ => apply special_eqb_syn_eq in H
  | H : rf_eqb_syn _ _ = true |- _ => apply rf_eqb_syn_eq in H
  | H : fl_eqb_syn _ _ = true |- _ => apply fl_eqb_syn_eq in H
  end.

Lemma ctx_eqb_syn_eq : forall a b, ctx_eqb_syn a b = true -> a = b.
Proof.
  destruct a, b; cbn; try congruence; intros H; eqb_more; congruence.
Qed.

Lemma ctor_eqb_eq : forall a b, ctor_eqb a b = true -> a = b.
Proof. destruct a, b; cbn; try congruence; intros H; eqb_all; congruence. Qed.

Lemma oident_eqb_eq : forall a b, oident_eqb a b = true -> a = b.
Proof. destruct a, b; cbn; try congruence. intros H. apply String.eqb_eq in H. congruence. Qed.

Lemma octx_eqb_eq : forall a b, octx_eqb a b = true -> a = b.
Proof. destruct a, b; cbn; try congruence. intros H. apply ctx_eqb_syn_eq in H. congruence. Qed.

Lemma idents_eqb_eq : forall a b, idents_eqb a b = true -> a = b.
Proof.
  induction a as [|x a IH]; destruct b as [|y b]; cbn; try congruence.
  intros H. apply andb_prop in H. destruct H as [H1 H2]. apply String.eqb_eq in H1. apply IH in H2. congruence.
Qed.

Fixpoint pat_ind2 (Q : pat -> Prop) (HV : forall x, Q (PVar x)) (HW : Q PWild)
  (HT : forall ps, Forall Q ps -> Q (PTuple ps)) (p : pat) {struct p} : Q p :=
  match p with
  | PVar x => HV x
  | PWild => HW
  | PTuple ps =>
      HT ps ((fix go (l : list pat) : Forall Q l :=
                match l with
                | [] => Forall_nil Q
                | q :: r => Forall_cons q (pat_ind2 Q HV HW HT q) (go r)
                end) ps)
  end.

Lemma pat_eqb_eq : forall p q, pat_eqb p q = true -> p = q.
Proof.
  induction p as [x| |ps IH] using pat_ind2; destruct q as [y| |qs]; cbn; try congruence.
  - intros H. apply String.eqb_eq in H. congruence.
  - intros H. f_equal. revert qs H. induction IH as [|p ps Hp _ IHps]; destruct qs as [|q qs]; try congruence.
    intros H. apply andb_prop in H. destruct H as [H1 H2]. f_equal; auto.
Qed.

(* ---------------------------------------------------------------- cval_eqb is reflexive *)
Lemma rf_compare_refl : forall x, rf_compare x x = Eq.
Proof.
  intros x. unfold rf_compare. destruct (rc x =? 0); [reflexivity|].
  rewrite Bool.eqb_reflx. cbn [negb]. rewrite Z.compare_refl. rewrite Z.compare_refl.
  destruct (rs x); reflexivity.
Qed.

Lemma num_same_refl : forall x, num_same x x = true.
Proof.
  destruct x as [[r|s|s]|n d]; cbn.
  - rewrite rf_compare_refl. apply Bool.eqb_reflx.
  - rewrite Bool.eqb_reflx. destruct s; reflexivity.
  - apply Bool.eqb_reflx.
  - rewrite Z.compare_refl. apply Bool.eqb_reflx.
Qed.

Lemma rmode_eqb_refl : forall a, rmode_eqb a a = true. Proof. destruct a; reflexivity. Qed.
Lemma ovmode_eqb_refl : forall a, ovmode_eqb a a = true. Proof. destruct a; reflexivity. Qed.
Lemma nankind_eqb_refl : forall a, nankind_eqb a a = true. Proof. destruct a; reflexivity. Qed.
Lemma optZ_eqb_refl : forall a, optZ_eqb a a = true. Proof. destruct a; cbn; [apply Z.eqb_refl | reflexivity]. Qed.
Lemma fl_same_refl : forall a, fl_same a a = true. Proof. intros. apply num_same_refl. Qed.
Lemma rf_same_refl : forall a, rf_same a a = true. Proof. intros. apply num_same_refl. Qed.
Lemma optfl_eqb_refl : forall a, optfl_eqb a a = true. Proof. destruct a; cbn [optfl_eqb]; [apply fl_same_refl | reflexivity]. Qed.
Lemma special_eqb_refl : forall a, special_eqb a a = true.
Proof. destruct a; unfold special_eqb; cbn. rewrite !Bool.eqb_reflx, !optfl_eqb_refl. reflexivity. Qed.

Lemma ctx_eqb_refl : forall c, ctx_eqb c c = true.
Proof.
  destruct c; cbn [ctx_eqb];
    rewrite ?Z.eqb_refl, ?rmode_eqb_refl, ?ovmode_eqb_refl, ?nankind_eqb_refl, ?optZ_eqb_refl,
            ?special_eqb_refl, ?rf_same_refl, ?optfl_eqb_refl, ?Bool.eqb_reflx; reflexivity.
Qed.

Fixpoint cval_ind' (Q : cval -> Prop)
  (HB : forall b, Q (CBool b)) (HN : forall x, Q (CNum x)) (HC : forall c, Q (CCtx c))
  (HT : forall l, Forall Q l -> Q (CTuple l)) (HL : forall l, Forall Q l -> Q (CList l)) (HU : Q CUninit)
  (v : cval) {struct v} : Q v :=
  let go := fix go (l : list cval) : Forall Q l :=
      match l with
      | [] => Forall_nil Q
      | x :: r => Forall_cons x (cval_ind' Q HB HN HC HT HL HU x) (go r)
      end in
  match v with
  | CBool b => HB b
  | CNum x => HN x
  | CCtx c => HC c
  | CTuple l => HT l (go l)
  | CList l => HL l (go l)
  | CUninit => HU
  end.

Lemma cval_eqb_refl : forall v, cval_eqb v v = true.
Proof.
  induction v using cval_ind'; cbn.
  - apply Bool.eqb_reflx.
  - apply num_same_refl.
  - apply ctx_eqb_refl.
  - induction H as [|x l Hx _ IH]; cbn; auto. rewrite Hx. exact IH.
  - induction H as [|x l Hx _ IH]; cbn; auto. rewrite Hx. exact IH.
  - reflexivity.
Qed.
