(* Model of fpy2/transform/reduce_fusion.py and strategies/reduce_fusion.py fuse.
   Definitions only.

   r = any([elt for t in it])  ~~>  acc = False; for t in it: b = elt; acc = acc or b;  r = acc
   (all: seed True, combine with and).  The seed and the loop are hoisted in
   front of the statement whose expression contains the reduction, whenever the
   visitor reaches the reduction with a statement slot: not inside a
   comprehension, not inside the branches of an if-expression.

   `fx = false`: the transform AS CODED.  `fx = true`: with the proposed repair
   fixes/C08-fuse-hoisting.diff -- a `while` condition has no statement slot; a
   later operand of and/or only hoists a reduction that cannot fail; a target
   that names a statement-level variable is renamed. *)
From Coq Require Import ZArith List Bool String.
From FpyV Require Import Num.RealFloat Num.Float Num.CtxDef Lang.Syntax Lang.Values Lang.Transforms.Common.
Import ListNotations.
Open Scope list_scope.
Open Scope Z_scope.

(* ctr: names generated; hoisted: statements emitted into the current block's accumulator *)
Record rf_st := RfSt { rf_ctr : nat; rf_hoisted : list stmt }.

Definition rf_fresh (L : nat) (s : rf_st) : ident * rf_st :=
  (gen_name L (rf_ctr s), RfSt (S (rf_ctr s)) (rf_hoisted s)).

Fixpoint rf_freshes (L : nat) (n : nat) (s : rf_st) : list ident * rf_st :=
  match n with
  | O => ([], s)
  | S n' => let '(x, s1) := rf_fresh L s in let '(xs, s2) := rf_freshes L n' s1 in (x :: xs, s2)
  end.

Definition rf_emit (sts : list stmt) (s : rf_st) : rf_st := RfSt (rf_ctr s) (rf_hoisted s ++ sts).

(* is there a statement slot to hoist into?  HTotal: only for a reduction that cannot fail *)
Inductive hmode := HNo | HTotal | HYes.

(* _is_total of the repair *)
Fixpoint is_total (e : expr) : bool :=
  match e with
  | EVar _ | EBool _ | ENum _ | ERat _ _ => true
  | ECompare _ args | EAnd args | EOr args => forallb is_total args
  | ENot a => is_total a
  | EOp1 ONeg a | EOp1 OFabs a => is_total a
  | EOp2 OAdd a b | EOp2 OSub a b | EOp2 OMul a b => is_total a && is_total b
  | _ => false
  end.

Fixpoint pat_names (p : pat) : list ident :=
  match p with PVar x => [x] | PWild => [] | PTuple ps => flat_map pat_names ps end.

(* names bound at statement level *)
Fixpoint stmt_bound (st : stmt) : list ident :=
  match st with
  | SAssign p _ => pat_names p
  | SIndexAssign x _ _ => [x]
  | SIf1 _ b => flat_map stmt_bound b
  | SIf _ t f => flat_map stmt_bound t ++ flat_map stmt_bound f
  | SWhile _ b => flat_map stmt_bound b
  | SFor p _ b => pat_names p ++ flat_map stmt_bound b
  | SContext x _ b => (match x with Some x => [x] | None => [] end) ++ flat_map stmt_bound b
  | _ => []
  end.

Definition func_bound (fn : func) : list ident := f_params fn ++ flat_map stmt_bound (f_body fn).

Section WithCfg.
Variable fx : bool.
Variable L : nat.
Variable bound : list ident.      (* the statement-level names of the function *)

Fixpoint rf_expr (h : hmode) (e : expr) (s : rf_st) {struct e} : expr * rf_st :=
  let fuse := fun (is_any : bool) (p : pat) (it elt : expr) =>
    let '(acc, s1) := rf_fresh L s in
    let '(b, s2) := rf_fresh L s1 in
    let '(it', s3) := rf_expr h it s2 in
    let '(elt', s4) := rf_expr HNo elt s3 in
    let clobbered := if fx then filter (fun x => mem x bound) (pat_names p) else [] in
    let '(fresh, s5) := rf_freshes L (List.length clobbered) s4 in
    let r := combine clobbered fresh in
    let combine := if is_any then EOr [EVar acc; EVar b] else EAnd [EVar acc; EVar b] in
    (EVar acc,
     rf_emit [SAssign (PVar acc) (EBool (negb is_any));
              SFor (ren_pat r p) it' [SAssign (PVar b) (ren_expr r elt'); SAssign (PVar acc) combine]] s5) in
  let can := fun (it elt : expr) =>
    match h with HYes => true | HTotal => is_total it && is_total elt | HNo => false end in
  let later := fun (args : list expr) (s : rf_st) =>
    match args with
    | [] => ([], s)
    | a :: r =>
        let '(a', s1) := rf_expr h a s in
        let '(r', s2) := listM (rf_expr (if fx then HTotal else h)) r s1 in
        (a' :: r', s2)
    end in
  match e with
  | EAny a =>
      match a with
      | EComp [(p, it)] elt =>
          if can it elt then fuse true p it elt
          else let '(a', s1) := rf_expr h a s in (EAny a', s1)
      | _ => let '(a', s1) := rf_expr h a s in (EAny a', s1)
      end
  | EAll a =>
      match a with
      | EComp [(p, it)] elt =>
          if can it elt then fuse false p it elt
          else let '(a', s1) := rf_expr h a s in (EAll a', s1)
      | _ => let '(a', s1) := rf_expr h a s in (EAll a', s1)
      end
  | EComp gens elt =>
      let '(gens', s1) := listM (fun g s => let '(it', s') := rf_expr HNo (snd g) s in ((fst g, it'), s')) gens s in
      let '(elt', s2) := rf_expr HNo elt s1 in
      (EComp gens' elt', s2)
  | EIf c a b =>
      let '(c', s1) := rf_expr h c s in
      let '(a', s2) := rf_expr HNo a s1 in
      let '(b', s3) := rf_expr HNo b s2 in
      (EIf c' a' b', s3)
  | EAnd args =>
      match h with
      | HNo => emapM (rf_expr h) e s
      | _ => let '(l, s1) := later args s in (EAnd l, s1)
      end
  | EOr args =>
      match h with
      | HNo => emapM (rf_expr h) e s
      | _ => let '(l, s1) := later args s in (EOr l, s1)
      end
  | _ => emapM (rf_expr h) e s
  end.

(* visit one expression of a statement with a statement slot *)
Definition rf_top (e : expr) (s : rf_st) : expr * rf_st := rf_expr HYes e s.

(* a nested block has its own accumulator *)
Definition rf_sub (f : stmt -> rf_st -> list stmt * rf_st) (b : block) (s : rf_st) : block * rf_st :=
  let '(b', s1) := bmapM f b (RfSt (rf_ctr s) []) in
  (b', RfSt (rf_ctr s1) (rf_hoisted s)).

(* the statement visitor: returns hoisted ++ [statement]; the caller's accumulator is empty on entry *)
Fixpoint rf_stmt (st : stmt) (s : rf_st) {struct st} : list stmt * rf_st :=
  let done := fun (st' : stmt) (s' : rf_st) => (rf_hoisted s' ++ [st'], RfSt (rf_ctr s') []) in
  match st with
  | SAssign p e => let '(e', s1) := rf_top e s in done (SAssign p e') s1
  | SIndexAssign x idx e =>
      let '(idx', s1) := listM rf_top idx s in
      let '(e', s2) := rf_top e s1 in done (SIndexAssign x idx' e') s2
  | SIf1 c b =>
      let '(c', s1) := rf_top c s in
      let '(b', s2) := rf_sub rf_stmt b s1 in done (SIf1 c' b') s2
  | SIf c t f =>
      let '(c', s1) := rf_top c s in
      let '(t', s2) := rf_sub rf_stmt t s1 in
      let '(f', s3) := rf_sub rf_stmt f s2 in done (SIf c' t' f') s3
  | SWhile c b =>
      let '(c', s1) := rf_expr (if fx then HNo else HYes) c s in
      let '(b', s2) := rf_sub rf_stmt b s1 in done (SWhile c' b') s2
  | SFor p it b =>
      let '(it', s1) := rf_top it s in
      let '(b', s2) := rf_sub rf_stmt b s1 in done (SFor p it' b') s2
  | SContext x e b =>
      let '(e', s1) := rf_top e s in
      let '(b', s2) := rf_sub rf_stmt b s1 in done (SContext x e' b') s2
  | SAssert e => let '(e', s1) := rf_top e s in done (SAssert e') s1
  | SEffect e => let '(e', s1) := rf_top e s in done (SEffect e') s1
  | SReturn e => let '(e', s1) := rf_top e s in done (SReturn e') s1
  | SPass => done SPass s
  end.
End WithCfg.

Definition reduce_fusion_gen (fx : bool) (fn : func) : func :=
  set_body fn (fst (bmapM (rf_stmt fx (max_len (func_names fn)) (func_bound fn)) (f_body fn) (RfSt O []))).

Definition reduce_fusion := reduce_fusion_gen false.          (* as coded *)
Definition reduce_fusion_fixed := reduce_fusion_gen true.     (* with the proposed repair *)
