(* Model of fpy2/transform/reduce_fusion.py and strategies/reduce_fusion.py fuse.
   Definitions only.

   r = any([elt for t in it])  ~~>  acc = False; for t in it: b = elt; acc = acc or b;  r = acc
   (all: seed True, combine with and).  The seed and the loop are hoisted in
   front of the statement whose expression contains the reduction, whenever the
   visitor reaches the reduction with a statement slot (`hoist = true`): not
   inside a comprehension, not inside the branches of an if-expression. *)
From Coq Require Import ZArith List Bool String.
From FpyV Require Import Num.RealFloat Num.Float Num.CtxDef Lang.Syntax Lang.Values Lang.Transforms.Common.
Import ListNotations.
Open Scope list_scope.
Open Scope Z_scope.

(* ctr: names generated; hoisted: statements emitted into the current block's accumulator *)
Record rf_st := RfSt { rf_ctr : nat; rf_hoisted : list stmt }.

Definition rf_fresh (L : nat) (s : rf_st) : ident * rf_st :=
  (gen_name L (rf_ctr s), RfSt (S (rf_ctr s)) (rf_hoisted s)).

Definition rf_emit (sts : list stmt) (s : rf_st) : rf_st := RfSt (rf_ctr s) (rf_hoisted s ++ sts).

Fixpoint rf_expr (L : nat) (hoist : bool) (e : expr) (s : rf_st) {struct e} : expr * rf_st :=
  let fuse := fun (is_any : bool) (p : pat) (it elt : expr) =>
    let '(acc, s1) := rf_fresh L s in
    let '(b, s2) := rf_fresh L s1 in
    let '(it', s3) := rf_expr L true it s2 in
    let '(elt', s4) := rf_expr L false elt s3 in
    let combine := if is_any then EOr [EVar acc; EVar b] else EAnd [EVar acc; EVar b] in
    (EVar acc,
     rf_emit [SAssign (PVar acc) (EBool (negb is_any));
              SFor p it' [SAssign (PVar b) elt'; SAssign (PVar acc) combine]] s4) in
  match e with
  | EAny a =>
      match a, hoist with
      | EComp [(p, it)] elt, true => fuse true p it elt
      | _, _ => let '(a', s1) := rf_expr L hoist a s in (EAny a', s1)
      end
  | EAll a =>
      match a, hoist with
      | EComp [(p, it)] elt, true => fuse false p it elt
      | _, _ => let '(a', s1) := rf_expr L hoist a s in (EAll a', s1)
      end
  | EComp gens elt =>
      let '(gens', s1) := listM (fun g s => let '(it', s') := rf_expr L false (snd g) s in ((fst g, it'), s')) gens s in
      let '(elt', s2) := rf_expr L false elt s1 in
      (EComp gens' elt', s2)
  | EIf c a b =>
      let '(c', s1) := rf_expr L hoist c s in
      let '(a', s2) := rf_expr L false a s1 in
      let '(b', s3) := rf_expr L false b s2 in
      (EIf c' a' b', s3)
  | _ => emapM (rf_expr L hoist) e s
  end.

(* visit one expression of a statement with a statement slot *)
Definition rf_top (L : nat) (e : expr) (s : rf_st) : expr * rf_st := rf_expr L true e s.

(* a nested block has its own accumulator *)
Definition rf_sub (f : stmt -> rf_st -> list stmt * rf_st) (b : block) (s : rf_st) : block * rf_st :=
  let '(b', s1) := bmapM f b (RfSt (rf_ctr s) []) in
  (b', RfSt (rf_ctr s1) (rf_hoisted s)).

(* the statement visitor: returns hoisted ++ [statement]; the caller's accumulator is empty on entry *)
Fixpoint rf_stmt (L : nat) (st : stmt) (s : rf_st) {struct st} : list stmt * rf_st :=
  let done := fun (st' : stmt) (s' : rf_st) => (rf_hoisted s' ++ [st'], RfSt (rf_ctr s') []) in
  match st with
  | SAssign p e => let '(e', s1) := rf_top L e s in done (SAssign p e') s1
  | SIndexAssign x idx e =>
      let '(idx', s1) := listM (rf_top L) idx s in
      let '(e', s2) := rf_top L e s1 in done (SIndexAssign x idx' e') s2
  | SIf1 c b =>
      let '(c', s1) := rf_top L c s in
      let '(b', s2) := rf_sub (rf_stmt L) b s1 in done (SIf1 c' b') s2
  | SIf c t f =>
      let '(c', s1) := rf_top L c s in
      let '(t', s2) := rf_sub (rf_stmt L) t s1 in
      let '(f', s3) := rf_sub (rf_stmt L) f s2 in done (SIf c' t' f') s3
  | SWhile c b =>
      let '(c', s1) := rf_top L c s in
      let '(b', s2) := rf_sub (rf_stmt L) b s1 in done (SWhile c' b') s2
  | SFor p it b =>
      let '(it', s1) := rf_top L it s in
      let '(b', s2) := rf_sub (rf_stmt L) b s1 in done (SFor p it' b') s2
  | SContext x e b =>
      let '(e', s1) := rf_top L e s in
      let '(b', s2) := rf_sub (rf_stmt L) b s1 in done (SContext x e' b') s2
  | SAssert e => let '(e', s1) := rf_top L e s in done (SAssert e') s1
  | SEffect e => let '(e', s1) := rf_top L e s in done (SEffect e') s1
  | SReturn e => let '(e', s1) := rf_top L e s in done (SReturn e') s1
  | SPass => done SPass s
  end.

Definition reduce_fusion (fn : func) : func :=
  set_body fn (fst (bmapM (rf_stmt (max_len (func_names fn))) (f_body fn) (RfSt O []))).
