(* for_unroll: the emitted schema simulates the loop it replaces -- for every
   unroll factor, every list length (induction on the number of chunks), PEEL
   and STRICT-when-divisible -- for every number instance whose INTEGER
   arithmetic is exact (int_exact), whatever the ambient context.  Proved for
   loop bodies / continuations in the allocation-free, call-free fragment
   (Frame.v: in-place mutation of the iterated list, early returns, nested loops
   over existing lists, while loops are inside it).  Proofs. *)
From Coq Require Import ZArith List Bool String Lia.
From FpyV Require Import Num.RealFloat Num.Float Num.CtxDef Lang.Syntax Lang.Values Lang.Sem Lang.SemMono
  Lang.Transforms.Common Lang.Transforms.NumInt Lang.Transforms.Frame Lang.Transforms.FrameProofs
  Lang.Transforms.BigStepProofs Lang.Transforms.ForUnroll.
Import ListNotations.
Open Scope list_scope.

Section Loop.
Variable N : numops.
Hypothesis HN : int_exact N.
Variables P P' : program.
Variable X : list ident.

(* ---------------------------------------------------------------- small facts *)
Lemma EvB_frame : forall b s s' mu g C o mu1, ok_block X b = true -> agree X s s' ->
  EvB N P s mu C b (o, mu1) ->
  exists o', EvB N P' s' (mu ++ g) C b (o', mu1 ++ g) /\ orel X s' o o' /\ shape mu1 = shape mu.
Proof.
  intros b s s' mu g C o mu1 Hok Ha [M0 H].
  destruct (frame_block X N P P' M0 b s s' mu g C o mu1 Hok Ha (H M0 (le_n _))) as (o' & E & Ho & Hs).
  exists o'. split; [|split; assumption]. eapply EvB_of; eauto.
Qed.

Lemma shape_get : forall mu mu1 l vs, shape mu1 = shape mu -> store_get mu l = Some vs ->
  exists vs1, store_get mu1 l = Some vs1 /\ List.length vs1 = List.length vs.
Proof.
  unfold shape, store_get. intros mu mu1 l vs Hs Hg.
  assert (H : nth_error (map (@List.length value) mu1) l = Some (List.length vs)).
  { rewrite Hs. rewrite nth_error_map, Hg. reflexivity. }
  rewrite nth_error_map in H. destruct (nth_error mu1 l) as [vs1|]; [|discriminate].
  inversion H. eauto.
Qed.

Lemma ok_id_false_in : forall x, ok_id X x = false <-> mem x X = true.
Proof. intro x. unfold ok_id. destruct (mem x X); cbn; split; congruence. Qed.

(* ---------------------------------------------------------------- one copy after the other *)
Variable t : ident.
Variable p : pat.
Variable body : block.
Variable C : ctx.
Variable l : loc.
Hypothesis Ht : ok_id X t = false.
Hypothesis Hp : ok_pat X p = true.
Hypothesis Hbody : ok_block X body = true.

Definition copies (cs : list ident) : block :=
  flat_map (fun x => SAssign p (ERef (EVar t) (EVar x)) :: body) cs.

(* the index variables hold base, base+1, ... *)
Definition idx_vals (s' : env) (cs : list ident) (base : nat) : Prop :=
  forall c x, nth_error cs c = Some x -> env_get s' x = Some (VNum (num_of_Z (Z.of_nat (base + c)))).

Lemma copies_sim : forall cs base s s' mu g n o mu_f vs,
  (forall x, In x cs -> ok_id X x = false) ->
  idx_vals s' cs base -> env_get s' t = Some (VList l) -> agree X s s' ->
  store_get mu l = Some vs -> (base + List.length cs <= List.length vs)%nat ->
  for_loop N P n s mu C p l base body = ROk (o, mu_f) ->
  (exists s2 s2' mu2,
      EvB N P' s' (mu ++ g) C (copies cs) (ONormal s2', mu2 ++ g) /\ agree X s2 s2' /\ keep X s' s2' /\
      shape mu2 = shape mu /\ for_loop N P n s2 mu2 C p l (base + List.length cs) body = ROk (o, mu_f))
  \/ (exists v, o = OReturn v /\ EvB N P' s' (mu ++ g) C (copies cs) (OReturn v, mu_f ++ g)).
Proof.
  induction cs as [|x cs IH]; intros base s s' mu g n o mu_f vs Hcs Hidx Htv Ha Hg Hlen Hfor.
  - left. exists s, s', mu. cbn [copies flat_map List.length]. rewrite Nat.add_0_r.
    repeat split; auto using EvB_nil, keep_refl.
  - cbn [List.length] in Hlen.
    destruct (for_loop_inv N P _ _ _ _ _ _ _ _ _ _ Hfor) as (vs0 & Hg0 & Hcase).
    rewrite Hg in Hg0. inversion Hg0; subst vs0. clear Hg0.
    destruct (nth_error vs base) as [xv|] eqn:Hnth; [|apply nth_error_None in Hnth; lia].
    destruct Hcase as (s1 & o1 & mu1 & Hbp & Hbody1 & Hrest).
    destruct (bind_pat_frame X _ _ _ _ _ Hp Ha Hbp) as (s1' & Hbp' & Ha1 & Hk1).
    (* the read, adjacent to its body: t[x] is the element the original loop binds now *)
    assert (Hread : EvS N P' s' (mu ++ g) C (SAssign p (ERef (EVar t) (EVar x))) (ONormal s1', mu ++ g)).
    { eapply EvS_assign; [|exact Hbp'].
      eapply EvE_ref with (k := base).
      - apply EvE_var. exact Htv.
      - apply EvE_var. specialize (Hidx O x eq_refl). rewrite Nat.add_0_r in Hidx. exact Hidx.
      - apply store_get_app. exact Hg.
      - exact Hnth. }
    destruct (EvB_frame _ _ _ _ g _ _ _ Hbody Ha1 Hbody1) as (o1' & Hb' & Ho1 & Hs1).
    change (copies (x :: cs)) with ((SAssign p (ERef (EVar t) (EVar x)) :: body) ++ copies cs).
    destruct o1 as [s2|v], o1' as [s2'|v']; cbn [orel] in Ho1; try contradiction.
    + destruct Ho1 as [Ha2 Hk2].
      destruct (shape_get _ _ _ _ Hs1 Hg) as (vs1 & Hg1 & Hl1).
      assert (Hidx2 : idx_vals s2' cs (S base)).
      { intros c y Hy. rewrite (Hk2 y), (Hk1 y) by (apply Hcs; right; eapply nth_error_In; eauto).
        specialize (Hidx (S c) y Hy). rewrite <- Nat.add_succ_comm in Hidx. exact Hidx. }
      assert (Htv2 : env_get s2' t = Some (VList l)) by (rewrite (Hk2 t Ht), (Hk1 t Ht); exact Htv).
      destruct (IH (S base) s2 s2' mu1 g n o mu_f vs1 (fun y Hy => Hcs y (or_intror Hy)) Hidx2 Htv2 Ha2 Hg1
                   ltac:(lia) Hrest) as [(s3 & s3' & mu3 & He & Ha3 & Hk3 & Hs3 & Hf3) | (v & -> & He)].
      * left. exists s3, s3', mu3. split; [|split; [exact Ha3|split; [|split]]].
        -- eapply EvB_app; [|exact He]. eapply EvB_cons; [exact Hread | exact Hb'].
        -- eapply keep_trans; [exact Hk1|]. eapply keep_trans; eauto.
        -- congruence.
        -- cbn [List.length]. rewrite <- Nat.add_succ_comm. exact Hf3.
      * right. exists v. split; [reflexivity|].
        eapply EvB_app; [|exact He]. eapply EvB_cons; [exact Hread | exact Hb'].
    + subst v'. destruct Hrest as [-> ->]. right. exists v. split; [reflexivity|].
      apply EvB_app_ret. eapply EvB_cons; [exact Hread | exact Hb'].
Qed.


(* ---------------------------------------------------------------- the offset indices, under INTEGER *)
Variable idx : ident.
Variable offs : list ident.
Hypothesis Hidx : ok_id X idx = false.
Hypothesis Hoffs : forall y, In y offs -> ok_id X y = false.
Hypothesis Hnd : NoDup (idx :: offs).
Hypothesis Hnt : ~ In t (idx :: offs).

Definition off_defs (j0 : nat) (os : list ident) : block :=
  map (fun jo => SAssign (PVar (snd jo)) (EOp2 OAdd (EVar idx) (int_lit (Z.of_nat (fst jo)))))
      (combine (seq j0 (List.length os)) os).

(* index arithmetic under INTEGER is exact, whatever the ambient context *)
Lemma off_defs_run : forall os j0 s' mu base,
  NoDup os -> ~ In idx os ->
  env_get s' idx = Some (VNum (num_of_Z (Z.of_nat base))) ->
  exists s2', EvB N P' s' mu CInteger (off_defs j0 os) (ONormal s2', mu) /\
    (forall c y, nth_error os c = Some y -> env_get s2' y = Some (VNum (num_of_Z (Z.of_nat (base + (j0 + c)))))) /\
    (forall y, ~ In y os -> env_get s2' y = env_get s' y).
Proof.
  induction os as [|o os IH]; intros j0 s' mu base Hnd' Hni Hi.
  - exists s'. split; [apply EvB_nil|]. split; [intros c y H; destruct c; discriminate | auto].
  - inversion Hnd' as [|? ? Hno Hnd2]; subst.
    set (s1' := env_set s' o (VNum (num_of_Z (Z.of_nat (base + j0))))).
    assert (Hi1 : env_get s1' idx = Some (VNum (num_of_Z (Z.of_nat base)))).
    { unfold s1'. rewrite env_get_set_other; [exact Hi|]. intro; subst. apply Hni. left. reflexivity. }
    destruct (IH (S j0) s1' mu base Hnd2 (fun H => Hni (or_intror H)) Hi1) as (s2' & He & Hv & Hk).
    exists s2'. split; [|split].
    + unfold off_defs. cbn [List.length seq combine map fst snd]. eapply EvB_cons; [|exact He].
      apply EvS_assign_var. eapply EvE_op2.
      * apply EvE_var. exact Hi.
      * apply EvE_int.
      * rewrite (ie_add N HN) by lia. rewrite <- Nat2Z.inj_add. reflexivity.
    + intros c y Hy. destruct c as [|c]; cbn [nth_error] in Hy.
      * inversion Hy; subst y. rewrite (Hk o Hno). unfold s1'. rewrite env_get_set_same. rewrite Nat.add_0_r. reflexivity.
      * rewrite (Hv c y Hy). do 4 f_equal. lia.
    + intros y Hy. rewrite (Hk y (fun H => Hy (or_intror H))). unfold s1'.
      apply env_get_set_other. intro; subst. apply Hy. left. reflexivity.
Qed.

Definition main_body : block :=
  (match off_defs 1 offs with [] => [] | d => [integer_ctx d] end) ++ copies (idx :: offs).

Lemma main_body_run_defs : forall s' mu base,
  env_get s' idx = Some (VNum (num_of_Z (Z.of_nat base))) ->
  exists s2', EvB N P' s' mu C (match off_defs 1 offs with [] => [] | d => [integer_ctx d] end) (ONormal s2', mu) /\
    idx_vals s2' (idx :: offs) base /\ (forall y, ~ In y offs -> env_get s2' y = env_get s' y).
Proof.
  intros s' mu base Hi. inversion Hnd as [|? ? Hni Hnd2]; subst.
  destruct (off_defs_run offs 1 s' mu base Hnd2 Hni Hi) as (s2' & He & Hv & Hk).
  exists s2'. split; [|split; [|exact Hk]].
  - destruct (off_defs 1 offs) as [|d ds] eqn:Ed.
    + (* no offsets: nothing is executed, and the environment is unchanged *)
      destruct He as [M0 He]. specialize (He (S M0) ltac:(lia)). rewrite exec_block_S in He. cbn in He.
      inversion He; subst. apply EvB_nil.
    + eapply EvB_cons; [|apply EvB_nil]. unfold integer_ctx. eapply EvS_context; [apply EvE_ctxval | exact He].
  - intros c y Hy. destruct c as [|c]; cbn [nth_error] in Hy.
    + inversion Hy; subst y. rewrite (Hk idx Hni). rewrite Nat.add_0_r. exact Hi.
    + rewrite (Hv c y Hy). do 4 f_equal.
Qed.

(* ---------------------------------------------------------------- the chunked loop *)
(* the cell of the range list: q start indices a, a+k, ..., a+(q-1)k *)
Definition range_cell (a k q : nat) : list value :=
  map (fun j => VNum (num_of_Z (Z.of_nat (a + j * k)))) (seq 0 q).

Lemma range_cell_nth : forall a k q j, (j < q)%nat ->
  nth_error (range_cell a k q) j = Some (VNum (num_of_Z (Z.of_nat (a + j * k)))).
Proof.
  intros a k0 q j H. unfold range_cell. rewrite nth_error_map.
  assert (E : nth_error (seq 0 q) j = Some j).
  { rewrite (nth_error_nth' _ O) by (rewrite seq_length; lia). rewrite seq_nth by lia. reflexivity. }
  rewrite E. reflexivity.
Qed.

Lemma range_cell_none : forall a k q, nth_error (range_cell a k q) q = None.
Proof. intros. apply nth_error_None. unfold range_cell. rewrite map_length, seq_length. lia. Qed.

Variable k : nat.
Hypothesis Hk : List.length (idx :: offs) = k.

Lemma shape_length : forall mu mu1, shape mu1 = shape mu -> List.length mu1 = List.length mu.
Proof. unfold shape. intros mu mu1 H. apply (f_equal (@List.length nat)) in H. rewrite !map_length in H. exact H. Qed.

Lemma chunks_sim : forall rem j a q s s' mu g glr n o mu_f vs,
  (j + rem = q)%nat ->
  nth_error g glr = Some (range_cell a k q) ->
  env_get s' t = Some (VList l) -> agree X s s' ->
  store_get mu l = Some vs -> (a + q * k <= List.length vs)%nat ->
  for_loop N P n s mu C p l (a + j * k) body = ROk (o, mu_f) ->
  (exists s2 s2' mu2,
      EvF N P' s' (mu ++ g) C (PVar idx) (List.length mu + glr)%nat j main_body (ONormal s2', mu2 ++ g) /\
      agree X s2 s2' /\ (forall y, ok_id X y = false -> ~ In y (idx :: offs) -> env_get s2' y = env_get s' y) /\
      shape mu2 = shape mu /\ for_loop N P n s2 mu2 C p l (a + q * k) body = ROk (o, mu_f))
  \/ (exists v, o = OReturn v /\
        EvF N P' s' (mu ++ g) C (PVar idx) (List.length mu + glr)%nat j main_body (OReturn v, mu_f ++ g)).
Proof.
  induction rem as [|rem IH]; intros j a q s s' mu g glr n o mu_f vs Hq Hcell Htv Ha Hg Hlen Hfor.
  - assert (j = q) by lia. subst j.
    left. exists s, s', mu. split; [|split; [exact Ha|split; [auto|split; [reflexivity|exact Hfor]]]].
    eapply EvF_done.
    + unfold store_get. rewrite nth_error_app2 by lia. rewrite Nat.add_comm, Nat.add_sub. exact Hcell.
    + apply range_cell_none.
  - assert (Hjq : (j < q)%nat) by lia.
    assert (Hcellg : store_get (mu ++ g) (List.length mu + glr)%nat = Some (range_cell a k q)).
    { unfold store_get. rewrite nth_error_app2 by lia. rewrite Nat.add_comm, Nat.add_sub. exact Hcell. }
    assert (Hnit : idx <> t) by (intro E; apply Hnt; left; exact E).
    assert (Hoffs_t : ~ In t offs) by (intro; apply Hnt; right; assumption).
    (* the loop counter is bound to the start index of the chunk *)
    set (si' := env_set s' idx (VNum (num_of_Z (Z.of_nat (a + j * k))))).
    assert (Hsi_idx : env_get si' idx = Some (VNum (num_of_Z (Z.of_nat (a + j * k))))) by (unfold si'; apply env_get_set_same).
    destruct (main_body_run_defs si' (mu ++ g) (a + j * k) Hsi_idx) as (sd' & Hdefs & Hvals & Hkd).
    assert (Had : agree X s sd').
    { intros y Hy. rewrite Hkd.
      - unfold si'. rewrite env_get_set_other; [apply Ha, Hy|]. intro; subst. congruence.
      - intro Hin. apply Hoffs in Hin. congruence. }
    assert (Htd : env_get sd' t = Some (VList l)).
    { rewrite (Hkd t Hoffs_t). unfold si'. rewrite env_get_set_other; auto. }
    assert (Hcs : forall x, In x (idx :: offs) -> ok_id X x = false).
    { intros x [<-|Hx]; [exact Hidx | apply Hoffs, Hx]. }
    assert (Hlen1 : (a + j * k + List.length (idx :: offs) <= List.length vs)%nat) by (rewrite Hk; nia).
    destruct (copies_sim (idx :: offs) (a + j * k) s sd' mu g n o mu_f vs Hcs Hvals Htd Had Hg Hlen1 Hfor)
      as [(s3 & s3' & mu3 & He & Ha3 & Hk3 & Hs3 & Hf3) | (v & -> & He)].
    + rewrite Hk in Hf3.
      destruct (shape_get _ _ _ _ Hs3 Hg) as (vs3 & Hg3 & Hl3).
      assert (Ht3 : env_get s3' t = Some (VList l)) by (rewrite (Hk3 t Ht); exact Htd).
      assert (Hf3' : for_loop N P n s3 mu3 C p l (a + S j * k) body = ROk (o, mu_f)).
      { replace (a + S j * k)%nat with (a + j * k + k)%nat by lia. exact Hf3. }
      destruct (IH (S j) a q s3 s3' mu3 g glr n o mu_f vs3 ltac:(lia) Hcell Ht3 Ha3 Hg3 ltac:(lia) Hf3')
        as [(s4 & s4' & mu4 & Hf & Ha4 & Hk4 & Hs4 & Hf4) | (v & -> & Hf)].
      * left. exists s4, s4', mu4. split; [|split; [exact Ha4|split; [|split; [congruence|exact Hf4]]]].
        -- eapply EvF_step; [exact Hcellg | apply range_cell_nth; exact Hjq | reflexivity | |].
           ++ unfold main_body. eapply EvB_app; [exact Hdefs | exact He].
           ++ rewrite <- (shape_length _ _ Hs3). exact Hf.
        -- intros y Hy Hny. rewrite (Hk4 y Hy Hny), (Hk3 y Hy), Hkd.
           ++ unfold si'. apply env_get_set_other. intro; subst. apply Hny. left. reflexivity.
           ++ intro Hin. apply Hny. right. exact Hin.
      * right. exists v. split; [reflexivity|].
        eapply EvF_step; [exact Hcellg | apply range_cell_nth; exact Hjq | reflexivity | |].
        -- unfold main_body. eapply EvB_app; [exact Hdefs | exact He].
        -- rewrite <- (shape_length _ _ Hs3). exact Hf.
    + right. exists v. split; [reflexivity|].
      eapply EvF_step_ret; [exact Hcellg | apply range_cell_nth; exact Hjq | reflexivity |].
      unfold main_body. eapply EvB_app; [exact Hdefs | exact He].
Qed.

End Loop.

(* ---------------------------------------------------------------- range lists *)
Lemma range_list_cell : forall a k q, (1 <= k)%nat ->
  range_list (Z.of_nat a) (Z.of_nat (a + q * k)) (Z.of_nat k) = ROk (range_cell a k q).
Proof.
  intros a k q Hk. unfold range_list, range_cell.
  destruct (Z.eqb_spec (Z.of_nat k) 0); [lia|]. f_equal.
  assert (Hc : Z.to_nat (range_count (Z.of_nat a) (Z.of_nat (a + q * k)) (Z.of_nat k)) = q).
  { unfold range_count. destruct (Z.gtb_spec (Z.of_nat k) 0); [|lia].
    destruct (Z.ltb_spec (Z.of_nat a) (Z.of_nat (a + q * k))).
    - replace (Z.of_nat (a + q * k) - Z.of_nat a + Z.of_nat k - 1)%Z
        with (Z.of_nat q * Z.of_nat k + (Z.of_nat k - 1))%Z by lia.
      rewrite Z.div_add_l by lia. rewrite Z.div_small by lia. lia.
    - destruct q; [reflexivity|]. nia. }
  rewrite Hc. apply map_ext. intro j. do 2 f_equal. lia.
Qed.

(* ---------------------------------------------------------------- PEEL *)
Section Peel.
Variable N : numops.
Hypothesis HN : int_exact N.
Variables P P' : program.
Variable X : list ident.
Variables t nn m r idx : ident.
Variable offs : list ident.
Variable p : pat.
Variable it : expr.
Variables body rest : block.
Hypothesis Hnames : forall y, In y (t :: nn :: m :: r :: idx :: offs) -> ok_id X y = false.
Hypothesis Hnd : NoDup (t :: nn :: m :: r :: idx :: offs).
Hypothesis Hp : ok_pat X p = true.
Hypothesis Hit : ok_expr X it = true.
Hypothesis Hbody : ok_block X body = true.
Hypothesis Hrest : ok_block X rest = true.

Let k := List.length (idx :: offs).

(* fu_build_peel, length not statically known *)
Definition peel_block : block :=
  [SAssign (PVar t) it;
   integer_ctx [SAssign (PVar nn) (ELen (EVar t));
                SAssign (PVar m) (EOp2 OSub (EVar nn) (EOp2 OFmod (EVar nn) (int_lit (Z.of_nat k))))];
   SFor (PVar idx) (ERange3 (int_lit 0) (EVar m) (int_lit (Z.of_nat k))) (main_body t p body idx offs);
   SFor (PVar r) (ERange3 (EVar m) (EVar nn) (int_lit 1)) (SAssign p (ERef (EVar t) (EVar r)) :: body)].

Definition out_rel (o o' : outcome) : Prop :=
  match o, o' with
  | ONormal a, ONormal b => agree X a b
  | OReturn v, OReturn v' => v = v'
  | _, _ => False
  end.

Lemma orel_out : forall s' o o', orel X s' o o' -> out_rel o o'.
Proof. intros s' o o' H. destruct o, o'; cbn in *; try contradiction; tauto. Qed.

Theorem peel_block_sim : forall n s s' mu g0 C o mu_f,
  agree X s s' ->
  exec_block N P n s mu C (SFor p it body :: rest) = ROk (o, mu_f) ->
  exists o' g, EvB N P' s' (mu ++ g0) C (peel_block ++ rest) (o', mu_f ++ g) /\ out_rel o o'.
Proof.
  intros n s s' mu g0 C o mu_f Ha H.
  assert (Hk1 : (1 <= k)%nat) by (unfold k; cbn; lia).
  (* names *)
  assert (Ht : ok_id X t = false) by (apply Hnames; cbn; auto).
  assert (Hnn : ok_id X nn = false) by (apply Hnames; cbn; auto).
  assert (Hm : ok_id X m = false) by (apply Hnames; cbn; auto).
  assert (Hr : ok_id X r = false) by (apply Hnames; cbn; auto 10).
  assert (Hidx : ok_id X idx = false) by (apply Hnames; cbn; auto 10).
  assert (Hoffs : forall y, In y offs -> ok_id X y = false) by (intros; apply Hnames; cbn; auto 10).
  inversion Hnd as [|? ? Ht_ni Hnd1]; subst. inversion Hnd1 as [|? ? Hnn_ni Hnd2]; subst.
  inversion Hnd2 as [|? ? Hm_ni Hnd3]; subst. inversion Hnd3 as [|? ? Hr_ni Hnd4]; subst.
  (* the original run *)
  destruct n as [|n]; [discriminate|]. rewrite exec_block_S in H. unfold exec_block_body in H.
  destruct (exec N P n s mu C (SFor p it body)) as [[o1 mu1]| |] eqn:Efor; cbn [rbind] in H; try discriminate.
  destruct n as [|n]; [discriminate|]. rewrite exec_S in Efor. unfold exec_body in Efor.
  destruct (eval N P n s mu C it) as [[vi mui]| |] eqn:Eit; cbn [rbind] in Efor; try discriminate.
  destruct (frame_eval X N P P' n it s s' mu g0 C vi mui Hit Ha Eit) as [-> Eit'].
  destruct (as_list mu vi) as [[l vs]| |] eqn:El; cbn [rbind] in Efor; try discriminate.
  destruct (as_list_loc _ _ _ _ El) as [-> Hg].
  set (L := List.length vs). set (q := (L / k)%nat).
  assert (HqL : (q * k <= L)%nat) by (unfold q; pose proof (Nat.mul_div_le L k ltac:(lia)); lia).
  assert (Hmod : (Z.of_nat L - Z.of_nat L mod Z.of_nat k = Z.of_nat (q * k))%Z).
  { unfold q. rewrite Nat2Z.inj_mul, Nat2Z.inj_div. pose proof (Z.div_mod (Z.of_nat L) (Z.of_nat k) ltac:(lia)). lia. }
  (* t = it *)
  set (s1' := env_set s' t (VList l)).
  assert (E1 : EvS N P' s' (mu ++ g0) C (SAssign (PVar t) it) (ONormal s1', mu ++ g0)).
  { apply EvS_assign_var. eapply EvE_of. exact Eit'. }
  (* with INTEGER: nn = len(t); m = nn - fmod(nn, k) *)
  set (s2' := env_set s1' nn (VNum (num_of_Z (Z.of_nat L)))).
  set (s3' := env_set s2' m (VNum (num_of_Z (Z.of_nat (q * k))))).
  assert (Hs1t : env_get s1' t = Some (VList l)) by (unfold s1'; apply env_get_set_same).
  assert (E2 : EvS N P' s1' (mu ++ g0) C
                 (integer_ctx [SAssign (PVar nn) (ELen (EVar t));
                               SAssign (PVar m) (EOp2 OSub (EVar nn) (EOp2 OFmod (EVar nn) (int_lit (Z.of_nat k))))])
                 (ONormal s3', mu ++ g0)).
  { unfold integer_ctx. eapply EvS_context; [apply EvE_ctxval|].
    eapply EvB_cons.
    - apply EvS_assign_var. eapply EvE_len; [apply EvE_var; exact Hs1t|].
      cbn [as_list]. rewrite (store_get_app _ g0 _ _ Hg). reflexivity.
    - eapply EvB_cons; [|apply EvB_nil].
      assert (Hn2 : env_get s2' nn = Some (VNum (num_of_Z (Z.of_nat L)))) by (unfold s2'; apply env_get_set_same).
      apply EvS_assign_var. eapply EvE_op2.
      + apply EvE_var. exact Hn2.
      + eapply EvE_op2; [apply EvE_var; exact Hn2 | apply EvE_int |]. apply (ie_fmod N HN); lia.
      + rewrite <- Hmod. apply (ie_sub N HN). pose proof (Z.mod_pos_bound (Z.of_nat L) (Z.of_nat k) ltac:(lia)).
        pose proof (Z.mod_le (Z.of_nat L) (Z.of_nat k) ltac:(lia) ltac:(lia)). lia. }
  assert (Hs3t : env_get s3' t = Some (VList l)).
  { unfold s3', s2'. rewrite !env_get_set_other; auto; intro; subst; apply Ht_ni; cbn; auto. }
  assert (Hs3n : env_get s3' nn = Some (VNum (num_of_Z (Z.of_nat L)))).
  { unfold s3'. rewrite env_get_set_other; [unfold s2'; apply env_get_set_same|]. intro; subst. apply Hnn_ni. cbn; auto. }
  assert (Hs3m : env_get s3' m = Some (VNum (num_of_Z (Z.of_nat (q * k))))) by (unfold s3'; apply env_get_set_same).
  assert (Ha3 : agree X s s3').
  { intros y Hy. unfold s3', s2', s1'. rewrite !env_get_set_other; [apply Ha, Hy| | |]; intro; subst; congruence. }
  (* the main loop *)
  set (cell1 := range_cell 0 k q). set (g1 := g0 ++ [cell1]).
  assert (Hnt1 : ~ In t (idx :: offs)) by (intro Hin; apply Ht_ni; cbn; cbn in Hin; tauto).
  assert (Hc1 : nth_error g1 (List.length g0) = Some (range_cell 0 k q)).
  { unfold g1. rewrite nth_error_app2 by lia. rewrite Nat.sub_diag. reflexivity. }
  assert (Hlen_main : (0 + q * k <= List.length vs)%nat) by (fold L; lia).
  assert (Hmain := chunks_sim N HN P P' X t p body C l Ht Hp Hbody idx offs Hidx Hoffs Hnd4 Hnt1 k eq_refl
                     q 0%nat 0%nat q s s3' mu g1 (List.length g0) n o1 mu1 vs eq_refl Hc1
                     Hs3t Ha3 Hg Hlen_main Efor).
  assert (Erange1 : EvE N P' s3' (mu ++ g0) C (ERange3 (int_lit 0) (EVar m) (int_lit (Z.of_nat k)))
                      (VList (List.length (mu ++ g0)), (mu ++ g0) ++ [cell1])).
  { eapply EvE_range3; [apply (EvE_int N P' _ _ _ 0) | apply EvE_var; exact Hs3m | apply EvE_int |].
    apply (range_list_cell 0 k q Hk1). }
  assert (Hlen0 : List.length (mu ++ g0) = (List.length mu + List.length g0)%nat) by apply app_length.
  assert (Hst1 : (mu ++ g0) ++ [cell1] = mu ++ g1) by (unfold g1; rewrite app_assoc; reflexivity).
  assert (Hal1 : as_list ((mu ++ g0) ++ [cell1]) (VList (List.length (mu ++ g0))) = ROk (List.length (mu ++ g0), cell1)).
  { cbn [as_list]. unfold store_get. rewrite nth_error_app2 by lia. rewrite Nat.sub_diag. reflexivity. }
  destruct Hmain as [(s4 & s4' & mu4 & Hf4 & Ha4 & Hk4 & Hs4 & Hrem4) | (v & -> & Hf4)].
  2:{ (* an early return inside the unrolled copies *)
      inversion H; subst. exists (OReturn v), g1. split; [|reflexivity].
      apply EvB_app_ret. eapply EvB_cons; [exact E1|]. eapply EvB_cons; [exact E2|].
      apply EvB_cons_ret. eapply EvS_for; [exact Erange1 | exact Hal1 |].
      rewrite Hst1, Hlen0. exact Hf4. }
  (* the residual loop *)
  destruct (shape_get _ _ _ _ Hs4 Hg) as (vs4 & Hg4 & Hl4).
  assert (Hs4t : env_get s4' t = Some (VList l)) by (rewrite Hk4; auto).
  assert (Hs4n : env_get s4' nn = Some (VNum (num_of_Z (Z.of_nat L)))).
  { rewrite Hk4; auto. intro Hin. apply Hnn_ni. cbn; cbn in Hin; tauto. }
  assert (Hs4m : env_get s4' m = Some (VNum (num_of_Z (Z.of_nat (q * k))))).
  { rewrite Hk4; auto. intro Hin. apply Hm_ni. cbn; cbn in Hin; tauto. }
  set (q2 := (L - q * k)%nat). set (cell2 := range_cell (q * k) 1 q2). set (g2 := g1 ++ [cell2]).
  assert (Hnt2 : ~ In t [r]) by (intros [E|[]]; subst; apply Ht_ni; cbn; auto).
  assert (Hc2 : nth_error g2 (List.length g1) = Some (range_cell (q * k) 1 q2)).
  { unfold g2. rewrite nth_error_app2 by lia. rewrite Nat.sub_diag. reflexivity. }
  assert (Hlen_res : (q * k + q2 * 1 <= List.length vs4)%nat) by (rewrite Hl4; fold L; unfold q2; lia).
  assert (Hrem4' : for_loop N P n s4 mu4 C p l (q * k + 0 * 1) body = ROk (o1, mu1)).
  { rewrite Nat.mul_0_l, Nat.add_0_r. exact Hrem4. }
  assert (Hnd_r : NoDup [r]) by (repeat constructor; auto).
  assert (Hres := chunks_sim N HN P P' X t p body C l Ht Hp Hbody r [] Hr (fun y (F : In y []) => match F with end)
                    Hnd_r Hnt2 1%nat eq_refl
                    q2 0%nat (q * k)%nat q2 s4 s4' mu4 g2 (List.length g1) n o1 mu1 vs4 eq_refl Hc2
                    Hs4t Ha4 Hg4 Hlen_res Hrem4').
  assert (Hmb2 : main_body t p body r [] = SAssign p (ERef (EVar t) (EVar r)) :: body).
  { unfold main_body, copies. cbn. rewrite app_nil_r. reflexivity. }
  rewrite Hmb2 in Hres.
  assert (Hlen4 : List.length mu4 = List.length mu) by (apply shape_length; exact Hs4).
  assert (Erange2 : EvE N P' s4' (mu4 ++ g1) C (ERange3 (EVar m) (EVar nn) (int_lit 1))
                      (VList (List.length (mu4 ++ g1)), (mu4 ++ g1) ++ [cell2])).
  { eapply EvE_range3; [apply EvE_var; exact Hs4m | apply EvE_var; exact Hs4n | apply (EvE_int N P' _ _ _ 1) |].
    replace (Z.of_nat L) with (Z.of_nat (q * k + q2 * 1)) by (unfold q2; f_equal; lia).
    apply (range_list_cell (q * k) 1 q2). lia. }
  assert (Hlen1 : List.length (mu4 ++ g1) = (List.length mu4 + List.length g1)%nat) by apply app_length.
  assert (Hst2 : (mu4 ++ g1) ++ [cell2] = mu4 ++ g2) by (unfold g2; rewrite app_assoc; reflexivity).
  assert (Hal2 : as_list ((mu4 ++ g1) ++ [cell2]) (VList (List.length (mu4 ++ g1))) = ROk (List.length (mu4 ++ g1), cell2)).
  { cbn [as_list]. unfold store_get. rewrite nth_error_app2 by lia. rewrite Nat.sub_diag. reflexivity. }
  assert (Emain : EvS N P' s3' (mu ++ g0) C
                    (SFor (PVar idx) (ERange3 (int_lit 0) (EVar m) (int_lit (Z.of_nat k))) (main_body t p body idx offs))
                    (ONormal s4', mu4 ++ g1)).
  { eapply EvS_for; [exact Erange1 | exact Hal1 |]. rewrite Hst1, Hlen0. exact Hf4. }
  destruct Hres as [(s5 & s5' & mu5 & Hf5 & Ha5 & Hk5 & Hs5 & Hrem5) | (v & -> & Hf5)].
  2:{ inversion H; subst. exists (OReturn v), g2. split; [|reflexivity].
      apply EvB_app_ret. eapply EvB_cons; [exact E1|]. eapply EvB_cons; [exact E2|].
      eapply EvB_cons; [exact Emain|].
      apply EvB_cons_ret. eapply EvS_for; [exact Erange2 | exact Hal2 |].
      rewrite Hst2, Hlen1. exact Hf5. }
  (* the original loop is exhausted *)
  assert (Hshape5 : shape mu5 = shape mu) by congruence.
  destruct (shape_get _ _ _ _ Hshape5 Hg) as (vs5 & Hg5 & Hl5).
  destruct (for_loop_inv N P _ _ _ _ _ _ _ _ _ _ Hrem5) as (vs5' & Hg5' & Hcase).
  rewrite Hg5 in Hg5'. inversion Hg5'; subst vs5'. clear Hg5'.
  assert (Hnone : nth_error vs5 (q * k + q2 * 1) = None).
  { apply nth_error_None. rewrite Hl5. fold L. unfold q2. lia. }
  rewrite Hnone in Hcase. destruct Hcase as [-> ->].
  (* the continuation *)
  destruct (EvB_frame N P P' X rest s5 s5' mu5 g2 C o mu_f Hrest Ha5 (EvB_of N P _ _ _ _ _ _ H))
    as (o' & Hrest' & Ho & _).
  exists o', g2. split; [|eapply orel_out; eauto].
  eapply EvB_app; [|exact Hrest'].
  eapply EvB_cons; [exact E1|]. eapply EvB_cons; [exact E2|]. eapply EvB_cons; [exact Emain|].
  eapply EvB_cons; [|apply EvB_nil].
  eapply EvS_for; [exact Erange2 | exact Hal2 |]. rewrite Hst2, Hlen1. exact Hf5.
Qed.

End Peel.
