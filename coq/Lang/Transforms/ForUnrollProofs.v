(* for_unroll: the emitted schema simulates the loop it replaces -- for every
   unroll factor, every list length (induction on the number of chunks), PEEL
   and STRICT-when-divisible -- for every number instance whose INTEGER
   arithmetic is exact (int_exact), whatever the ambient context.  Proved for
   loop bodies / continuations in the allocation-free, call-free fragment
   (Frame.v: in-place mutation of the iterated list, early returns, nested loops
   over existing lists, while loops are inside it).  Proofs. *)
From Coq Require Import ZArith List Bool String Lia.
From FpyV Require Import Num.RealFloat Num.Float Num.CtxDef Lang.Syntax Lang.Values Lang.Sem Lang.SemMono
  Lang.Transforms.Common Lang.Transforms.NumInt Lang.Transforms.Frame Lang.Transforms.FrameProofs
  Lang.Transforms.BigStepProofs Lang.Transforms.ForUnroll.
Import ListNotations.
Open Scope list_scope.

Section Loop.
Variable N : numops.
Hypothesis HN : int_exact N.
Variables P P' : program.
Variable X : list ident.

(* ---------------------------------------------------------------- small facts *)
Lemma EvB_frame : forall b s s' mu g C o mu1, ok_block X b = true -> agree X s s' ->
  EvB N P s mu C b (o, mu1) ->
  exists o', EvB N P' s' (mu ++ g) C b (o', mu1 ++ g) /\ orel X s' o o' /\ shape mu1 = shape mu.
Proof.
  intros b s s' mu g C o mu1 Hok Ha [M0 H].
  destruct (frame_block X N P P' M0 b s s' mu g C o mu1 Hok Ha (H M0 (le_n _))) as (o' & E & Ho & Hs).
  exists o'. split; [|split; assumption]. eapply EvB_of; eauto.
Qed.

Lemma shape_get : forall mu mu1 l vs, shape mu1 = shape mu -> store_get mu l = Some vs ->
  exists vs1, store_get mu1 l = Some vs1 /\ List.length vs1 = List.length vs.
Proof.
  unfold shape, store_get. intros mu mu1 l vs Hs Hg.
  assert (H : nth_error (map (@List.length value) mu1) l = Some (List.length vs)).
  { rewrite Hs. rewrite nth_error_map, Hg. reflexivity. }
  rewrite nth_error_map in H. destruct (nth_error mu1 l) as [vs1|]; [|discriminate].
  inversion H. eauto.
Qed.

Lemma ok_id_false_in : forall x, ok_id X x = false <-> mem x X = true.
Proof. intro x. unfold ok_id. destruct (mem x X); cbn; split; congruence. Qed.

(* ---------------------------------------------------------------- one copy after the other *)
Variable t : ident.
Variable p : pat.
Variable body : block.
Variable C : ctx.
Variable l : loc.
Hypothesis Ht : ok_id X t = false.
Hypothesis Hp : ok_pat X p = true.
Hypothesis Hbody : ok_block X body = true.

Definition copies (cs : list ident) : block :=
  flat_map (fun x => SAssign p (ERef (EVar t) (EVar x)) :: body) cs.

(* the index variables hold base, base+1, ... *)
Definition idx_vals (s' : env) (cs : list ident) (base : nat) : Prop :=
  forall c x, nth_error cs c = Some x -> env_get s' x = Some (VNum (num_of_Z (Z.of_nat (base + c)))).

Lemma copies_sim : forall cs base s s' mu g n o mu_f vs,
  (forall x, In x cs -> ok_id X x = false) ->
  idx_vals s' cs base -> env_get s' t = Some (VList l) -> agree X s s' ->
  store_get mu l = Some vs -> (base + List.length cs <= List.length vs)%nat ->
  for_loop N P n s mu C p l base body = ROk (o, mu_f) ->
  (exists s2 s2' mu2,
      EvB N P' s' (mu ++ g) C (copies cs) (ONormal s2', mu2 ++ g) /\ agree X s2 s2' /\ keep X s' s2' /\
      shape mu2 = shape mu /\ for_loop N P n s2 mu2 C p l (base + List.length cs) body = ROk (o, mu_f))
  \/ (exists v, o = OReturn v /\ EvB N P' s' (mu ++ g) C (copies cs) (OReturn v, mu_f ++ g)).
Proof.
  induction cs as [|x cs IH]; intros base s s' mu g n o mu_f vs Hcs Hidx Htv Ha Hg Hlen Hfor.
  - left. exists s, s', mu. cbn [copies flat_map List.length]. rewrite Nat.add_0_r.
    repeat split; auto using EvB_nil, keep_refl.
  - cbn [List.length] in Hlen.
    destruct (for_loop_inv N P _ _ _ _ _ _ _ _ _ _ Hfor) as (vs0 & Hg0 & Hcase).
    rewrite Hg in Hg0. inversion Hg0; subst vs0. clear Hg0.
    destruct (nth_error vs base) as [xv|] eqn:Hnth; [|apply nth_error_None in Hnth; lia].
    destruct Hcase as (s1 & o1 & mu1 & Hbp & Hbody1 & Hrest).
    destruct (bind_pat_frame X _ _ _ _ _ Hp Ha Hbp) as (s1' & Hbp' & Ha1 & Hk1).
    (* the read, adjacent to its body: t[x] is the element the original loop binds now *)
    assert (Hread : EvS N P' s' (mu ++ g) C (SAssign p (ERef (EVar t) (EVar x))) (ONormal s1', mu ++ g)).
    { eapply EvS_assign; [|exact Hbp'].
      eapply EvE_ref with (k := base).
      - apply EvE_var. exact Htv.
      - apply EvE_var. specialize (Hidx O x eq_refl). rewrite Nat.add_0_r in Hidx. exact Hidx.
      - apply store_get_app. exact Hg.
      - exact Hnth. }
    destruct (EvB_frame _ _ _ _ g _ _ _ Hbody Ha1 Hbody1) as (o1' & Hb' & Ho1 & Hs1).
    change (copies (x :: cs)) with ((SAssign p (ERef (EVar t) (EVar x)) :: body) ++ copies cs).
    destruct o1 as [s2|v], o1' as [s2'|v']; cbn [orel] in Ho1; try contradiction.
    + destruct Ho1 as [Ha2 Hk2].
      destruct (shape_get _ _ _ _ Hs1 Hg) as (vs1 & Hg1 & Hl1).
      assert (Hidx2 : idx_vals s2' cs (S base)).
      { intros c y Hy. rewrite (Hk2 y), (Hk1 y) by (apply Hcs; right; eapply nth_error_In; eauto).
        specialize (Hidx (S c) y Hy). rewrite <- Nat.add_succ_comm in Hidx. exact Hidx. }
      assert (Htv2 : env_get s2' t = Some (VList l)) by (rewrite (Hk2 t Ht), (Hk1 t Ht); exact Htv).
      destruct (IH (S base) s2 s2' mu1 g n o mu_f vs1 (fun y Hy => Hcs y (or_intror Hy)) Hidx2 Htv2 Ha2 Hg1
                   ltac:(lia) Hrest) as [(s3 & s3' & mu3 & He & Ha3 & Hk3 & Hs3 & Hf3) | (v & -> & He)].
      * left. exists s3, s3', mu3. split; [|split; [exact Ha3|split; [|split]]].
        -- eapply EvB_app; [|exact He]. eapply EvB_cons; [exact Hread | exact Hb'].
        -- eapply keep_trans; [exact Hk1|]. eapply keep_trans; eauto.
        -- congruence.
        -- cbn [List.length]. rewrite <- Nat.add_succ_comm. exact Hf3.
      * right. exists v. split; [reflexivity|].
        eapply EvB_app; [|exact He]. eapply EvB_cons; [exact Hread | exact Hb'].
    + subst v'. destruct Hrest as [-> ->]. right. exists v. split; [reflexivity|].
      apply EvB_app_ret. eapply EvB_cons; [exact Hread | exact Hb'].
Qed.

End Loop.
