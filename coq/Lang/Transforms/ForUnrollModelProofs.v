(* The model function `for_unroll` (ForUnroll.v) emits exactly the schema
   `peel_block` proved correct in ForUnrollProofs.v, for a loop at the top level
   of the function body that is the first `for` statement; and the run-level
   theorem for functions of the allocation-free fragment.  Proofs. *)
From Coq Require Import ZArith List Bool String Lia FinFun.
From FpyV Require Import Num.RealFloat Num.Float Num.CtxDef Lang.Syntax Lang.Values Lang.Sem Lang.SemMono
  Lang.Transforms.Common Lang.Transforms.CommonProofs Lang.Transforms.NumInt Lang.Transforms.Frame
  Lang.Transforms.FrameProofs Lang.Transforms.BigStepProofs Lang.Transforms.SimProofs
  Lang.Transforms.WhileUnrollProofs Lang.Transforms.ForUnroll Lang.Transforms.ForUnrollProofs.
Import ListNotations.
Open Scope list_scope.

(* ---------------------------------------------------------------- the name supply *)
Section Model.
Variable cfg : fu_cfg.
Let L := fu_L cfg.

Definition gens (c n : nat) : list ident := map (gen_name L) (seq c n).

Lemma fu_freshes_spec : forall n s,
  fu_freshes cfg n s = (gens (fu_ctr s) n, FuSt (fu_raw s) (fu_idx s) (fu_ctr s + n)).
Proof.
  induction n as [|n IH]; intros [raw idx ctr]; cbn [fu_freshes fu_fresh fu_raw fu_idx fu_ctr gens seq map].
  - rewrite Nat.add_0_r. reflexivity.
  - rewrite IH. cbn [fu_raw fu_idx fu_ctr]. unfold gens. f_equal. f_equal. lia.
Qed.

Lemma fu_copies_nil : forall p t body cs s,
  fu_copies cfg p t (map EVar cs) body [] s = (copies t p body cs, s).
Proof.
  induction cs as [|x cs IH]; intro s; cbn [map fu_copies copies flat_map]; [reflexivity|].
  unfold fu_body_copy. rewrite IH. reflexivity.
Qed.

Lemma fu_main_loop_nil : forall t bound k p body s, (1 <= k)%nat ->
  fu_main_loop cfg t bound k p body [] s =
  (SFor (PVar (gen_name L (fu_ctr s))) (ERange3 (int_lit 0) bound (int_lit (Z.of_nat k)))
        (main_body t p body (gen_name L (fu_ctr s)) (gens (S (fu_ctr s)) (k - 1))),
   FuSt (fu_raw s) (fu_idx s) (fu_ctr s + k)).
Proof.
  intros t bound k p body [raw idx ctr] Hk. unfold fu_main_loop. cbn [fu_fresh fu_raw fu_idx fu_ctr].
  rewrite fu_freshes_spec. cbn [fu_raw fu_idx fu_ctr].
  change (EVar (gen_name (fu_L cfg) ctr) :: map EVar (gens (S ctr) (k - 1)))
    with (map EVar (gen_name L ctr :: gens (S ctr) (k - 1))).
  rewrite fu_copies_nil. f_equal; [|f_equal; lia].
  unfold main_body, off_defs. f_equal.
  assert (Hl : List.length (gens (S ctr) (k - 1)) = (k - 1)%nat) by (unfold gens; rewrite map_length, seq_length; reflexivity).
  rewrite Hl. fold L.
  destruct (map _ (combine (seq 1 (k - 1)) (gens (S ctr) (k - 1)))); reflexivity.
Qed.

Lemma fu_build_peel_nil : forall p it body k s, (1 <= k)%nat ->
  let c := fu_ctr s in
  fst (fu_build_peel cfg None p it body k [] s) =
  peel_block (gen_name L c) (gen_name L (c + 1)) (gen_name L (c + 2)) (gen_name L (c + 3 + k))
             (gen_name L (c + 3)) (gens (c + 4) (k - 1)) p it body.
Proof.
  intros p it body k [raw idx ctr] Hk. cbn zeta. unfold fu_build_peel. cbn [fu_fresh fu_raw fu_idx fu_ctr].
  rewrite fu_main_loop_nil by exact Hk. cbn [fu_fresh fu_raw fu_idx fu_ctr fu_body_copy fst].
  unfold peel_block.
  assert (Hl : List.length (gen_name L (ctr + 3) :: gens (ctr + 4) (k - 1)) = k).
  { cbn [List.length]. unfold gens. rewrite map_length, seq_length. lia. }
  rewrite Hl.
  repeat rewrite Nat.add_succ_r. repeat rewrite Nat.add_0_r.
  reflexivity.
Qed.

End Model.

(* ---------------------------------------------------------------- the traversal *)
Fixpoint no_for (st : stmt) : bool :=
  match st with
  | SFor _ _ _ => false
  | SIf1 _ b | SWhile _ b | SContext _ _ b => forallb no_for b
  | SIf _ t f => forallb no_for t && forallb no_for f
  | _ => true
  end.

Lemma bmapM_app : forall S (f : stmt -> S -> list stmt * S) b1 b2 s,
  bmapM f (b1 ++ b2) s =
  let '(r1, s1) := bmapM f b1 s in let '(r2, s2) := bmapM f b2 s1 in (r1 ++ r2, s2).
Proof.
  induction b1 as [|st r IH]; intros b2 s; cbn [bmapM app].
  - destruct (bmapM f b2 s). reflexivity.
  - destruct (f st s) as [ss s1]. rewrite IH. destruct (bmapM f r s1) as [r1 s2].
    destruct (bmapM f b2 s2) as [r2 s3]. rewrite app_assoc. reflexivity.
Qed.

Section Traverse.
Variable cfg : fu_cfg.

(* statements without any `for` are left alone and count nothing *)
Lemma fu_nofor_block : forall b, Forall (fun st => no_for st = true -> forall inside s, fu_stmt cfg inside st s = ([st], s)) b ->
  forallb no_for b = true -> forall inside s, bmapM (fu_stmt cfg inside) b s = (b, s).
Proof.
  induction 1 as [|st r Hs Hr IH]; intros Hb inside s; cbn [bmapM]; [reflexivity|].
  cbn [forallb] in Hb. apply andb_true_iff in Hb as [H1 H2].
  rewrite (Hs H1). rewrite (IH H2). reflexivity.
Qed.

Lemma fu_nofor : forall st, no_for st = true -> forall inside s, fu_stmt cfg inside st s = ([st], s).
Proof.
  apply (stmt_ind2 (fun st => no_for st = true -> forall inside s, fu_stmt cfg inside st s = ([st], s)));
    intros; cbn [fu_stmt no_for] in *; try reflexivity; try discriminate.
  - rewrite (fu_nofor_block b H H0). reflexivity.
  - apply andb_true_iff in H1 as [Ht Hf]. rewrite (fu_nofor_block t H Ht), (fu_nofor_block f H0 Hf). reflexivity.
  - rewrite (fu_nofor_block b H H0). reflexivity.
  - rewrite (fu_nofor_block b H H0). reflexivity.
Qed.

Lemma fu_nofor_b : forall b, forallb no_for b = true -> forall inside s, bmapM (fu_stmt cfg inside) b s = (b, s).
Proof. intros b. apply fu_nofor_block. apply block_ind2; intros; apply fu_nofor; assumption. Qed.

(* past the loop aimed at by index i, every statement is left alone and no name is generated *)
Hypothesis Hsel : exists i, fu_sel cfg = SelIdx i.

Definition past (s : fu_st) : Prop := match fu_sel cfg with SelIdx i => (i < fu_idx s)%nat | _ => False end.

Definition fu_id_stmt (st : stmt) : Prop :=
  forall s, past s -> exists s2, fu_stmt cfg false st s = ([st], s2) /\ fu_ctr s2 = fu_ctr s /\ past s2.

Lemma fu_id_block : forall b, Forall fu_id_stmt b ->
  forall s, past s -> exists s2, bmapM (fu_stmt cfg false) b s = (b, s2) /\ fu_ctr s2 = fu_ctr s /\ past s2.
Proof.
  induction 1 as [|st r Hs Hr IH]; intros s Hp; cbn [bmapM].
  - exists s. auto.
  - destruct (Hs s Hp) as (s1 & E1 & C1 & P1). rewrite E1.
    destruct (IH s1 P1) as (s2 & E2 & C2 & P2). rewrite E2. exists s2. split; [reflexivity|]. split; [congruence|exact P2].
Qed.

Lemma fu_id : forall st, fu_id_stmt st.
Proof.
  destruct Hsel as [i Hi].
  apply stmt_ind2; unfold fu_id_stmt; intros; cbn [fu_stmt]; try (exists s; auto; fail).
  - destruct (fu_id_block b H s H0) as (s2 & E & C2 & P2). rewrite E. exists s2. auto.
  - destruct (fu_id_block t H s H1) as (s2 & E & C2 & P2). rewrite E.
    destruct (fu_id_block f H0 s2 P2) as (s3 & E3 & C3 & P3). rewrite E3. exists s3. split; [reflexivity|]. split; [congruence|exact P3].
  - destruct (fu_id_block b H s H0) as (s2 & E & C2 & P2). rewrite E. exists s2. auto.
  - (* SFor: counted, not aimed at *)
    assert (Hps : forall s1, past s1 <-> (i < fu_idx s1)%nat) by (intro s1; unfold past; rewrite Hi; tauto).
    unfold enters, selected. rewrite Hi.
    set (s0 := FuSt (S (fu_raw s)) (fu_idx s) (fu_ctr s)).
    destruct (fu_refuses cfg (nth (fu_raw s) (fu_sizes cfg) None)).
    + assert (P0 : past s0) by (apply Hps; cbn; apply Hps; exact H0).
      destruct (fu_id_block b H s0 P0) as (s2 & E & C2 & P2). rewrite E. exists s2. auto.
    + subst s0. cbn [fu_idx fu_raw fu_ctr].
      set (s1 := FuSt (S (fu_raw s)) (S (fu_idx s)) (fu_ctr s)).
      assert (P1 : past s1) by (apply Hps; cbn; apply Hps in H0; lia).
      cbn [orb]. destruct (fu_id_block b H s1 P1) as (s2 & E & C2 & P2). rewrite E.
      assert (Hne : Nat.eqb (fu_idx s) i = false) by (apply Nat.eqb_neq; apply Hps in H0; lia).
      rewrite Hne. cbn [andb]. exists s2. auto.
  - destruct (fu_id_block b H s H0) as (s2 & E & C2 & P2). rewrite E. exists s2. auto.
Qed.

Lemma fu_id_b : forall b s, past s ->
  exists s2, bmapM (fu_stmt cfg false) b s = (b, s2) /\ fu_ctr s2 = fu_ctr s /\ past s2.
Proof. intros b. apply fu_id_block. apply block_ind2; intros; apply fu_id. Qed.
End Traverse.

(* the shape of the output: the first `for` of the function, at top level, unknown length, PEEL *)
Lemma for_unroll_shape : forall times sizes fn pre p it body rest,
  f_body fn = pre ++ SFor p it body :: rest ->
  forallb no_for pre = true -> nth 0 sizes None = None ->
  let L := max_len (func_names fn) in
  let k := S (S times) in
  f_body (for_unroll (SelIdx 0) (S times) false sizes fn) =
  pre ++ peel_block (gen_name L 0) (gen_name L 1) (gen_name L 2) (gen_name L (3 + k))
                    (gen_name L 3) (gens (FuCfg (SelIdx 0) (S times) false sizes L) 4 (k - 1)) p it body ++ rest.
Proof.
  intros times sizes fn pre p it body rest Hb Hpre Hsz. cbn zeta.
  unfold for_unroll, for_unroll_cfg, set_body, fu_block. cbn [f_body]. rewrite Hb.
  set (cfg := FuCfg (SelIdx 0) (S times) false sizes (max_len (func_names fn))).
  rewrite bmapM_app. rewrite (fu_nofor_b cfg pre Hpre). cbn [bmapM fu_stmt fu_raw fu_idx fu_ctr].
  change (fu_sizes cfg) with sizes. rewrite Hsz.
  change (fu_refuses cfg None) with false. cbn iota.
  assert (Hsel : exists i, fu_sel cfg = SelIdx i) by (exists O; reflexivity).
  assert (P1 : past cfg (FuSt 1 1 0)) by (unfold past; cbn; lia).
  change (enters (fu_sel cfg) false 0) with false.
  destruct (fu_id_b cfg Hsel body (FuSt 1 1 0) P1) as (s2 & E2 & C2 & P2). rewrite E2.
  change (selected (fu_sel cfg) false 0) with true. change (fu_times cfg) with (S times).
  change (fu_strict cfg) with false. cbn [andb negb Nat.eqb]. cbn iota.
  cbn [fu_ctr] in C2. rewrite C2. cbn [Nat.sub seq map].
  pose proof (fu_build_peel_nil cfg p it body (S (S times)) s2 ltac:(lia)) as Hpeel. cbn zeta in Hpeel. rewrite C2 in Hpeel.
  destruct (fu_build_peel cfg None p it body (S (S times)) [] s2) as [out s3] eqn:Eout. cbn [fst] in Hpeel.
  assert (P3 : past cfg s3).
  { (* the build only generates names *)
    unfold fu_build_peel in Eout. destruct s2 as [raw idx ctr]. cbn [fu_fresh fu_raw fu_idx fu_ctr] in Eout.
    rewrite fu_main_loop_nil in Eout by lia. cbn [fu_fresh fu_raw fu_idx fu_ctr fu_body_copy] in Eout.
    inversion Eout; subst. exact P2. }
  destruct (fu_id_b cfg Hsel rest s3 P3) as (s4 & E4 & _ & _). rewrite E4. cbn [fst].
  rewrite Hpeel. reflexivity.
Qed.

(* ---------------------------------------------------------------- run *)
Section Run.
Variable N : numops.
Hypothesis HN : int_exact N.

Lemma exec_block_app_inv : forall P b1 b2 n s mu C r,
  exec_block N P n s mu C (b1 ++ b2) = ROk r ->
  (exists s1 mu1, EvB N P s mu C b1 (ONormal s1, mu1) /\ exec_block N P n s1 mu1 C b2 = ROk r)
  \/ (exists v mu1, r = (OReturn v, mu1) /\ EvB N P s mu C b1 (OReturn v, mu1)).
Proof.
  induction b1 as [|st rest IH]; intros b2 n s mu C r H.
  - left. exists s, mu. split; [apply EvB_nil | exact H].
  - cbn [app] in H. destruct n as [|n]; [discriminate|]. rewrite exec_block_S in H. unfold exec_block_body in H.
    destruct (exec N P n s mu C st) as [[o mu1]| |] eqn:Es; cbn [rbind] in H; try discriminate.
    assert (HS : EvS N P s mu C st (o, mu1)) by (exists n; intros; eapply exec_mono_ok; eauto).
    destruct o as [s1|v].
    + destruct (IH b2 n s1 mu1 C r H) as [(s2 & mu2 & He & Hr) | (v & mu2 & -> & He)].
      * left. exists s2, mu2. split; [eapply EvB_cons; eauto|]. eapply exec_block_mono_ok; eauto.
      * right. exists v, mu2. split; [reflexivity|]. eapply EvB_cons; eauto.
    + inversion H; subst. right. exists v, mu1. split; [reflexivity|]. apply EvB_cons_ret. exact HS.
Qed.

Lemma extract_app : forall n mu g v c, extract n mu v = Some c -> extract n (mu ++ g) v = Some c.
Proof.
  induction n as [|n IH]; intros mu g v c H; [discriminate|].
  assert (Hl : forall l cs,
    (fix go (l : list value) : option (list cval) :=
       match l with
       | [] => Some []
       | x :: r => match extract n mu x, go r with Some c, Some cs => Some (c :: cs) | _, _ => None end
       end) l = Some cs ->
    (fix go (l : list value) : option (list cval) :=
       match l with
       | [] => Some []
       | x :: r => match extract n (mu ++ g) x, go r with Some c, Some cs => Some (c :: cs) | _, _ => None end
       end) l = Some cs).
  { induction l as [|x l IHl]; intros cs Hc; [exact Hc|].
    destruct (extract n mu x) as [c0|] eqn:E; [|discriminate].
    rewrite (IH mu g x c0 E).
    match type of Hc with context [match ?gg l with _ => _ end] => destruct (gg l) as [cs0|] eqn:E2 end; [|discriminate].
    rewrite (IHl cs0 eq_refl). exact Hc. }
  cbn [extract] in *.
  destruct v; try exact H.
  - match type of H with context [match ?gg vs with _ => _ end] => destruct (gg vs) as [cs|] eqn:E end; [|discriminate].
    rewrite (Hl vs cs E). exact H.
  - destruct (store_get mu l) as [vs|] eqn:Eg; [|discriminate]. rewrite (store_get_app _ g _ _ Eg).
    match type of H with context [match ?gg vs with _ => _ end] => destruct (gg vs) as [cs|] eqn:E end; [|discriminate].
    rewrite (Hl vs cs E). exact H.
Qed.

Lemma gens_in : forall L c n y, In y (map (gen_name L) (seq c n)) -> exists i, (c <= i < c + n)%nat /\ y = gen_name L i.
Proof.
  intros L c n y H. apply in_map_iff in H as (i & <- & Hi). apply in_seq in Hi. eauto.
Qed.

Lemma gens_nodup : forall L c n, NoDup (map (gen_name L) (seq c n)).
Proof.
  intros L c n. apply FinFun.Injective_map_NoDup; [|apply seq_NoDup].
  intros i j H. eapply gen_name_inj; eauto.
Qed.

Lemma mem_in : forall x l, mem x l = true <-> In x l.
Proof.
  intros x l. unfold mem. rewrite existsb_exists. split.
  - intros (y & Hy & E). apply String.eqb_eq in E. subst. exact Hy.
  - intro H. exists x. split; [exact H | apply String.eqb_refl].
Qed.

(* unroll_for(f, 0, times, PEEL) on a function of the allocation-free fragment whose first `for` is at top level *)
Theorem for_unroll_peel_sound_partial : forall P f fn pre p it body rest times sizes fuel args c v,
  lookup_fn P f = Some fn ->
  f_body fn = pre ++ SFor p it body :: rest ->
  forallb no_for pre = true -> nth 0 sizes None = None ->
  ok_block (map (gen_name (max_len (func_names fn))) (seq 0 (times + 6))) (f_body fn) = true ->
  run N P fuel f args c = ROk v ->
  exists fuel', run N (prog_update P f (for_unroll (SelIdx 0) (S times) false sizes)) fuel' f args c = ROk v.
Proof.
  intros P f fn pre p it body rest times sizes fuel args c v Hf Hb Hpre Hsz Hok Hrun.
  set (L := max_len (func_names fn)) in *. set (X := map (gen_name L) (seq 0 (times + 6))) in *.
  set (T := for_unroll (SelIdx 0) (S times) false sizes). set (P' := prog_update P f T).
  set (k := S (S times)).
  (* the fragment conditions, split *)
  rewrite Hb in Hok. unfold ok_block in Hok. rewrite forallb_app in Hok. apply andb_true_iff in Hok as [Hokpre Hok2].
  cbn [forallb ok_stmt] in Hok2. apply andb_true_iff in Hok2 as [Hokfor Hokrest].
  apply andb_true_iff in Hokfor as [Hokpi Hokbody]. apply andb_true_iff in Hokpi as [Hokp Hokit].
  (* the generated names *)
  set (cfg := FuCfg (SelIdx 0) (S times) false sizes L).
  assert (HinX : forall i, (i < times + 6)%nat -> ok_id X (gen_name L i) = false).
  { intros i Hi. unfold ok_id. replace (mem (gen_name L i) X) with true; [reflexivity|].
    symmetry. apply mem_in. unfold X. apply in_map. apply in_seq. lia. }
  assert (Hnames : forall y, In y (gen_name L 0 :: gen_name L 1 :: gen_name L 2 :: gen_name L (3 + k) :: gen_name L 3 :: gens cfg 4 (k - 1)) ->
                   ok_id X y = false).
  { intros y Hy. cbn [In] in Hy. unfold k in *.
    destruct Hy as [<-|[<-|[<-|[<-|[<-|Hy]]]]]; try (apply HinX; lia).
    apply gens_in in Hy as (i & Hi & ->). apply HinX. lia. }
  assert (Hnd : NoDup (gen_name L 0 :: gen_name L 1 :: gen_name L 2 :: gen_name L (3 + k) :: gen_name L 3 :: gens cfg 4 (k - 1))).
  { assert (Hperm : NoDup (map (gen_name L) ([0; 1; 2; 3 + k; 3] ++ seq 4 (k - 1)))%nat).
    { apply FinFun.Injective_map_NoDup; [intros i j H; eapply gen_name_inj; eauto|].
      repeat (apply NoDup_cons; [cbn [In app]; rewrite in_seq; unfold k; intuition lia|]).
      apply seq_NoDup. }
    exact Hperm. }
  (* the original run *)
  unfold run in Hrun. rewrite Hf in Hrun.
  destruct (inject_all args []) as [vs mu] eqn:Einj.
  destruct (call N P fuel fn vs mu _) as [[w mu1]| |] eqn:Ecall; cbn [rbind] in Hrun; try discriminate.
  destruct (extract fuel mu1 w) as [cv|] eqn:Eex; [|discriminate]. inversion Hrun; subst cv. clear Hrun.
  destruct fuel as [|n]; [discriminate|]. rewrite call_S in Ecall. unfold call_body in Ecall.
  destruct (bind_params (f_params fn) vs []) as [s0|] eqn:Ebp; cbn [lift rbind] in Ecall; [|discriminate].
  set (C' := match f_ctx fn with Some c0 => c0 | None => match c with Some c0 => c0 | None => FP64 end end) in *.
  destruct (exec_block N P n s0 mu C' (f_body fn)) as [[o mu2]| |] eqn:Ebody; cbn [rbind] in Ecall; try discriminate.
  destruct o as [sx|w']; [discriminate|]. inversion Ecall; subst w' mu2. clear Ecall.
  (* the transformed body *)
  assert (Hshape := for_unroll_shape times sizes fn pre p it body rest Hb Hpre Hsz). cbn zeta in Hshape.
  fold L in Hshape. fold cfg in Hshape. fold T in Hshape.
  assert (Hsim : exists g, EvB N P' s0 mu C' (f_body (T fn)) (OReturn w, mu1 ++ g)).
  { rewrite Hshape. rewrite Hb in Ebody.
    destruct (exec_block_app_inv P pre _ _ _ _ _ _ Ebody) as [(s1 & mu_a & Hpre1 & Hloop) | (v0 & mu_a & E & Hpre1)].
    - destruct (EvB_frame N P P' X pre s0 s0 mu [] C' _ _ Hokpre (agree_refl X s0) Hpre1) as (o1' & Hpre' & Ho1 & _).
      destruct o1' as [s1'|]; cbn [orel] in Ho1; [|contradiction]. destruct Ho1 as [Ha1 _].
      rewrite !app_nil_r in Hpre'.
      destruct (peel_block_sim N HN P P' X _ _ _ _ _ _ p it body rest Hnames Hnd Hokp Hokit Hokbody Hokrest
                  n s1 s1' mu_a [] C' _ _ Ha1 Hloop) as (o' & g & Hev & Hout).
      destruct o' as [|w']; cbn [out_rel] in Hout; [contradiction|]. subst w'.
      rewrite app_nil_r in Hev. exists g. eapply EvB_app; eauto.
    - inversion E; subst v0 mu_a.
      destruct (EvB_frame N P P' X pre s0 s0 mu [] C' _ _ Hokpre (agree_refl X s0) Hpre1) as (o1' & Hpre' & Ho1 & _).
      destruct o1' as [|w']; cbn [orel] in Ho1; [contradiction|]. subst w'.
      rewrite !app_nil_r in Hpre'. exists []. rewrite app_nil_r. apply EvB_app_ret. exact Hpre'. }
  destruct Hsim as (g & M0 & Hev).
  exists (S (Nat.max M0 (S n))). unfold run, P'. rewrite lookup_prog_update, Hf, String.eqb_refl. rewrite Einj.
  rewrite call_S. unfold call_body.
  change (f_params (T fn)) with (f_params fn). change (f_ctx (T fn)) with (f_ctx fn).
  rewrite Ebp. cbn [lift rbind]. fold C'. fold P'.
  rewrite (Hev (Nat.max M0 (S n)) ltac:(lia)). cbn [rbind].
  rewrite (extract_mono _ (S (Nat.max M0 (S n))) _ _ _ (extract_app _ _ g _ _ Eex) ltac:(lia)). reflexivity.
Qed.

End Run.
