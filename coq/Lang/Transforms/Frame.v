(* The fragment of FPyLang for which the for-unroll / split theorems are proved
   so far, and the relations of their simulation.  Definitions only.

   `ok_* X`: the code allocates nothing (no list literal, slice, comprehension,
   range, zip, enumerate, empty, call) and neither reads nor writes a name in X
   (the generated temporaries).  Loops over existing lists, while loops, early
   returns, in-place updates of lists (the iterated one included), nested
   patterns and `with` blocks are all inside the fragment. *)
From Coq Require Import ZArith List Bool String.
From FpyV Require Import Num.RealFloat Num.Float Num.CtxDef Lang.Syntax Lang.Values Lang.Sem
  Lang.Transforms.Common.
Import ListNotations.
Open Scope list_scope.

Section Ok.
Variable X : list ident.

Definition ok_id (x : ident) : bool := negb (mem x X).

Fixpoint ok_pat (p : pat) : bool :=
  match p with
  | PVar x => ok_id x
  | PWild => true
  | PTuple ps => forallb ok_pat ps
  end.

Fixpoint ok_expr (e : expr) : bool :=
  match e with
  | EVar x => ok_id x
  | ENum _ | ERat _ _ | EBool _ | ECtxVal _ | EOp0 _ => true
  | EOp1 _ a | EPred _ a | ENot a | EFst a | ESnd a | ELen a | ESum a | EAMin a | EAMax a | EAny a | EAll a => ok_expr a
  | EOp2 _ a b | ERef a b => ok_expr a && ok_expr b
  | EOp3 _ a b c | EIf a b c => ok_expr a && ok_expr b && ok_expr c
  | ECompare _ l | EAnd l | EOr l | ETuple l | EMin l | EMax l | ECtor _ l => forallb ok_expr l
  | _ => false
  end.

Fixpoint ok_stmt (st : stmt) : bool :=
  match st with
  | SAssign p e => ok_pat p && ok_expr e
  | SIndexAssign x idx e => ok_id x && forallb ok_expr idx && ok_expr e
  | SIf1 c b => ok_expr c && forallb ok_stmt b
  | SIf c t f => ok_expr c && forallb ok_stmt t && forallb ok_stmt f
  | SWhile c b => ok_expr c && forallb ok_stmt b
  | SFor p it b => ok_pat p && ok_expr it && forallb ok_stmt b
  | SContext x e b => (match x with Some x => ok_id x | None => true end) && ok_expr e && forallb ok_stmt b
  | SAssert e | SEffect e | SReturn e => ok_expr e
  | SPass => true
  end.

Definition ok_block (b : block) : bool := forallb ok_stmt b.

(* the two environments agree outside X *)
Definition agree (s s' : env) : Prop := forall x, ok_id x = true -> env_get s x = env_get s' x.

(* s1' keeps the X-bindings of s' *)
Definition keep (s' s1' : env) : Prop := forall x, ok_id x = false -> env_get s1' x = env_get s' x.

(* outcomes: the same return value, or environments that agree outside X while the
   transformed side keeps its temporaries *)
Definition orel (s' : env) (o o' : outcome) : Prop :=
  match o, o' with
  | ONormal s1, ONormal s1' => agree s1 s1' /\ keep s' s1'
  | OReturn v, OReturn v' => v = v'
  | _, _ => False
  end.
End Ok.

(* the lengths of the cells of a store (a list never changes its length) *)
Definition shape (mu : store) : list nat := map (@List.length value) mu.
