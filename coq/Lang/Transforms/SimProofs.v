(* A generic simulation scheme for statement-level rewrites that change neither
   the environment nor the store: if the oracles (the judgements at the previous
   fuel) of program P1 are refined by those of P2 on related syntax, then so are
   the bodies -- for every judgement, for statements related by CONGRUENCE.
   A rewrite (e.g. while-unrolling) adds its own rule to the statement relation
   and proves that rule separately, with extra fuel.  Proofs. *)
From Coq Require Import ZArith List Bool String Lia.
From FpyV Require Import Num.RealFloat Num.Float Num.CtxDef Lang.Syntax Lang.Values Lang.Sem Lang.SemMono.
Import ListNotations.
Open Scope Z_scope.

(* b succeeds with the same result whenever a succeeds *)
Definition ok_le {A} (a b : res A) : Prop := forall x, a = ROk x -> b = ROk x.

Lemma ok_le_refl : forall A (a : res A), ok_le a a.
Proof. unfold ok_le; auto. Qed.

Lemma ok_le_trans : forall A (a b c : res A), ok_le a b -> ok_le b c -> ok_le a c.
Proof. unfold ok_le; auto. Qed.

Lemma le_res_ok_le : forall A (a b : res A), le_res a b -> ok_le a b.
Proof. unfold le_res, ok_le. intros A a b H x E. rewrite H; [exact E|]. rewrite E. discriminate. Qed.

Lemma ok_le_bind : forall A B (c1 c2 : res A) (k1 k2 : A -> res B),
  ok_le c1 c2 -> (forall a, c1 = ROk a -> ok_le (k1 a) (k2 a)) -> ok_le (rbind c1 k1) (rbind c2 k2).
Proof.
  unfold ok_le. intros A B c1 c2 k1 k2 Hc Hk x E. destruct c1 as [a| |]; cbn [rbind] in E; try discriminate.
  rewrite (Hc a eq_refl). cbn [rbind]. apply (Hk a eq_refl). exact E.
Qed.

(* induction on statements with the induction hypothesis for every statement of the nested blocks *)
Section StmtInd.
Variable Q : stmt -> Prop.
Hypothesis H_assign : forall p e, Q (SAssign p e).
Hypothesis H_iassign : forall x idx e, Q (SIndexAssign x idx e).
Hypothesis H_if1 : forall c b, Forall Q b -> Q (SIf1 c b).
Hypothesis H_if : forall c t f, Forall Q t -> Forall Q f -> Q (SIf c t f).
Hypothesis H_while : forall c b, Forall Q b -> Q (SWhile c b).
Hypothesis H_for : forall p it b, Forall Q b -> Q (SFor p it b).
Hypothesis H_ctx : forall x e b, Forall Q b -> Q (SContext x e b).
Hypothesis H_assert : forall e, Q (SAssert e).
Hypothesis H_effect : forall e, Q (SEffect e).
Hypothesis H_return : forall e, Q (SReturn e).
Hypothesis H_pass : Q SPass.

Fixpoint stmt_ind2 (st : stmt) : Q st :=
  let blk := fix go (b : block) : Forall Q b :=
    match b with [] => Forall_nil Q | x :: r => Forall_cons x (stmt_ind2 x) (go r) end in
  match st with
  | SAssign p e => H_assign p e
  | SIndexAssign x idx e => H_iassign x idx e
  | SIf1 c b => H_if1 c b (blk b)
  | SIf c t f => H_if c t f (blk t) (blk f)
  | SWhile c b => H_while c b (blk b)
  | SFor p it b => H_for p it b (blk b)
  | SContext x e b => H_ctx x e b (blk b)
  | SAssert e => H_assert e
  | SEffect e => H_effect e
  | SReturn e => H_return e
  | SPass => H_pass
  end.

Lemma block_ind2 : forall b, Forall Q b.
Proof. induction b; constructor; auto using stmt_ind2. Qed.
End StmtInd.

(* statements related by congruence, given the relation on blocks *)
Inductive scong (brel : block -> block -> Prop) : stmt -> stmt -> Prop :=
  | sc_assign : forall p e, scong brel (SAssign p e) (SAssign p e)
  | sc_iassign : forall x idx e, scong brel (SIndexAssign x idx e) (SIndexAssign x idx e)
  | sc_if1 : forall c b b', brel b b' -> scong brel (SIf1 c b) (SIf1 c b')
  | sc_if : forall c t t' f f', brel t t' -> brel f f' -> scong brel (SIf c t f) (SIf c t' f')
  | sc_while : forall c b b', brel b b' -> scong brel (SWhile c b) (SWhile c b')
  | sc_for : forall p it b b', brel b b' -> scong brel (SFor p it b) (SFor p it b')
  | sc_ctx : forall x e b b', brel b b' -> scong brel (SContext x e b) (SContext x e b')
  | sc_assert : forall e, scong brel (SAssert e) (SAssert e)
  | sc_effect : forall e, scong brel (SEffect e) (SEffect e)
  | sc_return : forall e, scong brel (SReturn e) (SReturn e)
  | sc_pass : scong brel SPass SPass.

Section BodiesSim.
Variable N : numops.
Variables P1 P2 : program.
Variable srel : stmt -> stmt -> Prop.
Variable brel : block -> block -> Prop.
Variable frel : func -> func -> Prop.

Hypothesis brel_nil_inv : forall b', brel [] b' -> b' = [].
Hypothesis brel_cons_inv : forall st r b', brel (st :: r) b' ->
  exists st' r', b' = st' :: r' /\ srel st st' /\ brel r r'.
Hypothesis srel_cong : forall st st', scong brel st st' -> srel st st'.
Hypothesis frel_inv : forall fn fn', frel fn fn' ->
  f_params fn' = f_params fn /\ f_ctx fn' = f_ctx fn /\ brel (f_body fn) (f_body fn').
Hypothesis Hlookup : forall f,
  match lookup_fn P1 f, lookup_fn P2 f with
  | Some a, Some b => frel a b
  | None, None => True
  | _, _ => False
  end.

Variables ev1 ev2 : env -> store -> ctx -> expr -> res (value * store).
Variables evs1 evs2 : env -> store -> ctx -> (list expr) -> res (list value * store).
Variables evo1 evo2 : env -> store -> ctx -> (option expr) -> res (option value * store).
Variables cmpc1 cmpc2 : env -> store -> ctx -> value -> (list cmpop) -> (list expr) -> res (value * store).
Variables boolc1 boolc2 : env -> store -> ctx -> bool -> (list expr) -> res (value * store).
Variables cmpr1 cmpr2 : env -> store -> ctx -> (list (pat * expr)) -> expr -> res (list value * store).
Variables cmpl1 cmpl2 : env -> store -> ctx -> pat -> loc -> nat -> (list (pat * expr)) -> expr -> res (list value * store).
Variables cal1 cal2 : func -> (list value) -> store -> ctx -> res (value * store).
Variables ex1 ex2 : env -> store -> ctx -> stmt -> res (outcome * store).
Variables exb1 exb2 : env -> store -> ctx -> block -> res (outcome * store).
Variables forl1 forl2 : env -> store -> ctx -> pat -> loc -> nat -> block -> res (outcome * store).
Variables idxw1 idxw2 : env -> store -> ctx -> value -> (list expr) -> value -> res store.
Variables veq1 veq2 : store -> value -> value -> res bool.
Variables dimf1 dimf2 : store -> value -> res Z.
Hypothesis Hev : forall a0 a1 a2 a3, ok_le (ev1 a0 a1 a2 a3) (ev2 a0 a1 a2 a3).
Hypothesis Hevs : forall a0 a1 a2 a3, ok_le (evs1 a0 a1 a2 a3) (evs2 a0 a1 a2 a3).
Hypothesis Hevo : forall a0 a1 a2 a3, ok_le (evo1 a0 a1 a2 a3) (evo2 a0 a1 a2 a3).
Hypothesis Hcmpc : forall a0 a1 a2 a3 a4 a5, ok_le (cmpc1 a0 a1 a2 a3 a4 a5) (cmpc2 a0 a1 a2 a3 a4 a5).
Hypothesis Hboolc : forall a0 a1 a2 a3 a4, ok_le (boolc1 a0 a1 a2 a3 a4) (boolc2 a0 a1 a2 a3 a4).
Hypothesis Hcmpr : forall a0 a1 a2 a3 a4, ok_le (cmpr1 a0 a1 a2 a3 a4) (cmpr2 a0 a1 a2 a3 a4).
Hypothesis Hcmpl : forall a0 a1 a2 a3 a4 a5 a6 a7, ok_le (cmpl1 a0 a1 a2 a3 a4 a5 a6 a7) (cmpl2 a0 a1 a2 a3 a4 a5 a6 a7).
Hypothesis Hcal : forall fn fn' a1 a2 a3, frel fn fn' -> ok_le (cal1 fn a1 a2 a3) (cal2 fn' a1 a2 a3).
Hypothesis Hex : forall a0 a1 a2 st st', srel st st' -> ok_le (ex1 a0 a1 a2 st) (ex2 a0 a1 a2 st').
Hypothesis Hexb : forall a0 a1 a2 b b', brel b b' -> ok_le (exb1 a0 a1 a2 b) (exb2 a0 a1 a2 b').
Hypothesis Hforl : forall a0 a1 a2 a3 a4 a5 b b', brel b b' -> ok_le (forl1 a0 a1 a2 a3 a4 a5 b) (forl2 a0 a1 a2 a3 a4 a5 b').
Hypothesis Hidxw : forall a0 a1 a2 a3 a4 a5, ok_le (idxw1 a0 a1 a2 a3 a4 a5) (idxw2 a0 a1 a2 a3 a4 a5).
Hypothesis Hveq : forall a0 a1 a2, ok_le (veq1 a0 a1 a2) (veq2 a0 a1 a2).
Hypothesis Hdimf : forall a0 a1, ok_le (dimf1 a0 a1) (dimf2 a0 a1).

Ltac sim :=
  repeat first
    [ apply ok_le_refl
    | apply Hev
    | apply Hevs
    | apply Hevo
    | apply Hcmpc
    | apply Hboolc
    | apply Hcmpr
    | apply Hcmpl
    | (apply Hcal; assumption)
    | (apply Hex; assumption)
    | (apply Hexb; assumption)
    | (apply Hforl; assumption)
    | apply Hidxw
    | apply Hveq
    | apply Hdimf
    | apply ok_le_bind; [ | intros ? _ ]
    | match goal with
      | |- ok_le (match lookup_fn P1 ?f with _ => _ end) _ =>
          let H := fresh "Hl" in
          pose proof (Hlookup f) as H; destruct (lookup_fn P1 f), (lookup_fn P2 f); try contradiction
      | |- ok_le (match ?x with _ => _ end) _ => destruct x
      end ].

Lemma eval_body_sim : forall (s : env) (mu : store) (C : ctx) (e : expr),
  ok_le (eval_body N P1 ev1 evs1 evo1 cmpc1 boolc1 cmpr1 cmpl1 cal1 ex1 exb1 forl1 idxw1 veq1 dimf1 s mu C e)
        (eval_body N P2 ev2 evs2 evo2 cmpc2 boolc2 cmpr2 cmpl2 cal2 ex2 exb2 forl2 idxw2 veq2 dimf2 s mu C e).
Proof. intros. unfold eval_body. sim. Qed.

Lemma evals_body_sim : forall (s : env) (mu : store) (C : ctx) (es : list expr),
  ok_le (evals_body ev1 evs1 evo1 cmpc1 boolc1 cmpr1 cmpl1 cal1 ex1 exb1 forl1 idxw1 veq1 dimf1 s mu C es)
        (evals_body ev2 evs2 evo2 cmpc2 boolc2 cmpr2 cmpl2 cal2 ex2 exb2 forl2 idxw2 veq2 dimf2 s mu C es).
Proof. intros. unfold evals_body. sim. Qed.

Lemma eval_opt_body_sim : forall (s : env) (mu : store) (C : ctx) (e : option expr),
  ok_le (eval_opt_body ev1 evs1 evo1 cmpc1 boolc1 cmpr1 cmpl1 cal1 ex1 exb1 forl1 idxw1 veq1 dimf1 s mu C e)
        (eval_opt_body ev2 evs2 evo2 cmpc2 boolc2 cmpr2 cmpl2 cal2 ex2 exb2 forl2 idxw2 veq2 dimf2 s mu C e).
Proof. intros. unfold eval_opt_body. sim. Qed.

Lemma cmp_chain_body_sim : forall (s : env) (mu : store) (C : ctx) (v : value) (ops : list cmpop) (args : list expr),
  ok_le (cmp_chain_body N ev1 evs1 evo1 cmpc1 boolc1 cmpr1 cmpl1 cal1 ex1 exb1 forl1 idxw1 veq1 dimf1 s mu C v ops args)
        (cmp_chain_body N ev2 evs2 evo2 cmpc2 boolc2 cmpr2 cmpl2 cal2 ex2 exb2 forl2 idxw2 veq2 dimf2 s mu C v ops args).
Proof. intros. unfold cmp_chain_body. sim. Qed.

Lemma bool_chain_body_sim : forall (s : env) (mu : store) (C : ctx) (unit : bool) (args : list expr),
  ok_le (bool_chain_body ev1 evs1 evo1 cmpc1 boolc1 cmpr1 cmpl1 cal1 ex1 exb1 forl1 idxw1 veq1 dimf1 s mu C unit args)
        (bool_chain_body ev2 evs2 evo2 cmpc2 boolc2 cmpr2 cmpl2 cal2 ex2 exb2 forl2 idxw2 veq2 dimf2 s mu C unit args).
Proof. intros. unfold bool_chain_body. sim. Qed.

Lemma comp_body_sim : forall (s : env) (mu : store) (C : ctx) (gens : list (pat * expr)) (elt : expr),
  ok_le (comp_body ev1 evs1 evo1 cmpc1 boolc1 cmpr1 cmpl1 cal1 ex1 exb1 forl1 idxw1 veq1 dimf1 s mu C gens elt)
        (comp_body ev2 evs2 evo2 cmpc2 boolc2 cmpr2 cmpl2 cal2 ex2 exb2 forl2 idxw2 veq2 dimf2 s mu C gens elt).
Proof. intros. unfold comp_body. sim. Qed.

Lemma comp_loop_body_sim : forall (s : env) (mu : store) (C : ctx) (p : pat) (l : loc) (i : nat) (gs : list (pat * expr)) (elt : expr),
  ok_le (comp_loop_body ev1 evs1 evo1 cmpc1 boolc1 cmpr1 cmpl1 cal1 ex1 exb1 forl1 idxw1 veq1 dimf1 s mu C p l i gs elt)
        (comp_loop_body ev2 evs2 evo2 cmpc2 boolc2 cmpr2 cmpl2 cal2 ex2 exb2 forl2 idxw2 veq2 dimf2 s mu C p l i gs elt).
Proof. intros. unfold comp_loop_body. sim. Qed.

Lemma index_walk_body_sim : forall (s : env) (mu : store) (C : ctx) (cur : value) (idx : list expr) (v : value),
  ok_le (index_walk_body ev1 evs1 evo1 cmpc1 boolc1 cmpr1 cmpl1 cal1 ex1 exb1 forl1 idxw1 veq1 dimf1 s mu C cur idx v)
        (index_walk_body ev2 evs2 evo2 cmpc2 boolc2 cmpr2 cmpl2 cal2 ex2 exb2 forl2 idxw2 veq2 dimf2 s mu C cur idx v).
Proof. intros. unfold index_walk_body. sim. Qed.

Lemma call_body_sim : forall (fn fn' : func) (vs : list value) (mu : store) (C : ctx), frel fn fn' ->
  ok_le (call_body ev1 evs1 evo1 cmpc1 boolc1 cmpr1 cmpl1 cal1 ex1 exb1 forl1 idxw1 veq1 dimf1 fn vs mu C)
        (call_body ev2 evs2 evo2 cmpc2 boolc2 cmpr2 cmpl2 cal2 ex2 exb2 forl2 idxw2 veq2 dimf2 fn' vs mu C).
Proof.
  intros fn fn' vs mu C Hf. destruct (frel_inv _ _ Hf) as (Hp & Hc & Hb).
  unfold call_body. rewrite Hp, Hc. sim.
Qed.

Lemma exec_body_sim : forall (s : env) (mu : store) (C : ctx) (st st' : stmt), scong brel st st' ->
  ok_le (exec_body ev1 evs1 evo1 cmpc1 boolc1 cmpr1 cmpl1 cal1 ex1 exb1 forl1 idxw1 veq1 dimf1 s mu C st)
        (exec_body ev2 evs2 evo2 cmpc2 boolc2 cmpr2 cmpl2 cal2 ex2 exb2 forl2 idxw2 veq2 dimf2 s mu C st').
Proof.
  intros s mu C st st' H. inversion H; subst; unfold exec_body; sim.
  apply Hex, srel_cong. exact H.
Qed.

Lemma exec_block_body_sim : forall (s : env) (mu : store) (C : ctx) (b b' : block), brel b b' ->
  ok_le (exec_block_body ev1 evs1 evo1 cmpc1 boolc1 cmpr1 cmpl1 cal1 ex1 exb1 forl1 idxw1 veq1 dimf1 s mu C b)
        (exec_block_body ev2 evs2 evo2 cmpc2 boolc2 cmpr2 cmpl2 cal2 ex2 exb2 forl2 idxw2 veq2 dimf2 s mu C b').
Proof.
  intros s mu C b b' H. destruct b as [|st r].
  - rewrite (brel_nil_inv _ H). apply ok_le_refl.
  - destruct (brel_cons_inv _ _ _ H) as (st' & r' & -> & Hs & Hr). unfold exec_block_body. sim.
Qed.

Lemma for_loop_body_sim : forall (s : env) (mu : store) (C : ctx) (p : pat) (l : loc) (i : nat) (b b' : block), brel b b' ->
  ok_le (for_loop_body ev1 evs1 evo1 cmpc1 boolc1 cmpr1 cmpl1 cal1 ex1 exb1 forl1 idxw1 veq1 dimf1 s mu C p l i b)
        (for_loop_body ev2 evs2 evo2 cmpc2 boolc2 cmpr2 cmpl2 cal2 ex2 exb2 forl2 idxw2 veq2 dimf2 s mu C p l i b').
Proof. intros. unfold for_loop_body. sim. Qed.

End BodiesSim.
