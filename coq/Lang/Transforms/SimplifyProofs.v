(* C07: the theorems of the simplify passes. *)
From Coq Require Import ZArith List Bool String Lia.
From FpyV Require Import Num.RealFloat Num.Float Num.CtxDef Lang.Syntax Lang.Values Lang.Sem Lang.SemMono.
From FpyV Require Import Lang.Transforms.SimpDefs Lang.Transforms.SimpRw Lang.Transforms.SimpDce Lang.Transforms.Simplify
  Lang.Transforms.SimpBaseProofs Lang.Transforms.SimpEqProofs Lang.Transforms.SimpEvalProofs
  Lang.Transforms.SimpVexprProofs Lang.Transforms.SimpRunProofs Lang.Transforms.SimpRwProofs Lang.Transforms.SimpDceProofs.
Import ListNotations.
Open Scope Z_scope.

Section Top.
Variable N : numops.
Variable P : program.

(* ---------------------------------------------------------------- the validators *)
Lemma validate_dce_body : forall d fn fn', validate_dce d fn fn' = true ->
  f_params fn' = f_params fn /\ f_ctx fn' = f_ctx fn /\ body_sim N P (f_ctx fn) (f_body fn) (f_body fn').
Proof.
  intros d fn fn' H. unfold validate_dce in H. apply andb_prop in H. destruct H as [H Hv].
  apply andb_prop in H. destruct H as [Hp Hc]. apply idents_eqb_eq in Hp. apply octx_eqb_eq in Hc.
  split; [symmetry; exact Hp|]. split; [symmetry; exact Hc|].
  destruct (vd d [] (f_body fn) (f_body fn')) as [Lin|] eqn:V; [|discriminate].
  intros n s mu C v mu' _ Hx. eapply vd_sound; eassumption.
Qed.

Lemma vrw_func_body : forall K claim_ok guess d fn fn', (1 <= K)%nat ->
  (forall cl, claim_ok cl = true -> claim_valid N P cl) ->
  vrw_func K claim_ok guess d fn fn' = true ->
  f_params fn' = f_params fn /\ f_ctx fn' = f_ctx fn /\ body_sim N P (f_ctx fn) (f_body fn) (f_body fn').
Proof.
  intros K claim_ok guess d fn fn' HK Hcl H. unfold vrw_func in H. apply andb_prop in H. destruct H as [H Hv].
  apply andb_prop in H. destruct H as [Hp Hc]. apply idents_eqb_eq in Hp. apply octx_eqb_eq in Hc.
  split; [symmetry; exact Hp|]. split; [symmetry; exact Hc|].
  destruct (vrwb K claim_ok guess d [] (f_ctx fn) (f_body fn) (f_body fn')) as [E'|] eqn:V; [|discriminate].
  intros n s mu C v mu' Hok Hx. exists (n + K)%nat.
  eapply (vrwb_sound N P K claim_ok guess HK Hcl); try eassumption.
  intros xe [].
Qed.

Theorem validate_dce_sound : forall d f f' fn fn',
  validate_dce d fn fn' = true -> lookup_fn P f = Some fn -> lookup_fn P f' = None ->
  preserves N P f (add_fn P f' fn') f'.
Proof.
  intros d f f' fn fn' Hv Hf Hf'. destruct (validate_dce_body d fn fn' Hv) as (Hp & Hc & Hs).
  eapply run_lift; eassumption.
Qed.

Theorem vrw_func_sound : forall K claim_ok guess d f f' fn fn', (1 <= K)%nat ->
  (forall cl, claim_ok cl = true -> claim_valid N P cl) ->
  vrw_func K claim_ok guess d fn fn' = true -> lookup_fn P f = Some fn -> lookup_fn P f' = None ->
  preserves N P f (add_fn P f' fn') f'.
Proof.
  intros K claim_ok guess d f f' fn fn' HK Hcl Hv Hf Hf'.
  destruct (vrw_func_body K claim_ok guess d fn fn' HK Hcl Hv) as (Hp & Hc & Hs).
  eapply run_lift; eassumption.
Qed.

(* ---------------------------------------------------------------- the checked passes *)
Lemma copyprop_checked_body : forall d fn, body_sim N P (f_ctx fn) (f_body fn) (copyprop_checked d fn).
Proof.
  intros d fn. unfold copyprop_checked.
  destruct (validate_copyprop d fn (with_body fn (copyprop_fixed fn))) eqn:V; [|apply body_sim_refl].
  unfold validate_copyprop in V.
  destruct (vrw_func_body 1 no_claims no_guess d fn _ (le_n _) ltac:(intros cl Hcl; discriminate Hcl) V) as (_ & _ & Hs).
  exact Hs.
Qed.

Lemma dce_checked_body : forall d fn, body_sim N P (f_ctx fn) (f_body fn) (dce_checked d P fn).
Proof.
  intros d fn. unfold dce_checked.
  destruct (validate_dce d fn (with_body fn (dce_fixed P fn))) eqn:V; [|apply body_sim_refl].
  destruct (validate_dce_body d fn _ V) as (_ & _ & Hs). exact Hs.
Qed.

Theorem copyprop_sound_partial : forall d f f' fn, lookup_fn P f = Some fn -> lookup_fn P f' = None ->
  preserves N P f (add_fn P f' (with_body fn (copyprop_checked d fn))) f'.
Proof.
  intros d f f' fn Hf Hf'. eapply run_lift; try eassumption; try reflexivity. apply copyprop_checked_body.
Qed.

Theorem dce_sound : forall d f f' fn, lookup_fn P f = Some fn -> lookup_fn P f' = None ->
  preserves N P f (add_fn P f' (with_body fn (dce_checked d P fn))) f'.
Proof.
  intros d f f' fn Hf Hf'. eapply run_lift; try eassumption; try reflexivity. apply dce_checked_body.
Qed.

(* ---------------------------------------------------------------- iteration *)
Section Iter.
Variable K : nat.
Variable claim_ok : claim -> bool.
Variable guess : facts -> expr -> option ctx.
Variable d : nat.
Hypothesis HK : (1 <= K)%nat.
Hypothesis Hcl : forall cl, claim_ok cl = true -> claim_valid N P cl.

Lemma step_body : forall fn c,
  f_params (step K claim_ok guess d P fn c) = f_params fn /\ f_ctx (step K claim_ok guess d P fn c) = f_ctx fn /\
  body_sim N P (f_ctx fn) (f_body fn) (f_body (step K claim_ok guess d P fn c)).
Proof.
  intros fn c. unfold step. cbn [with_body f_params f_ctx f_body]. split; [reflexivity|]. split; [reflexivity|].
  destruct c.
  - apply copyprop_checked_body.
  - apply dce_checked_body.
  - unfold constfold_checked.
    destruct (vrw_func K claim_ok guess d fn (with_body fn b)) eqn:V; [|apply body_sim_refl].
    destruct (vrw_func_body K claim_ok guess d fn _ HK Hcl V) as (_ & _ & Hs). exact Hs.
Qed.

Lemma simp_iter_body : forall cs fn,
  f_params (simp_iter K claim_ok guess d P cs fn) = f_params fn /\ f_ctx (simp_iter K claim_ok guess d P cs fn) = f_ctx fn /\
  body_sim N P (f_ctx fn) (f_body fn) (f_body (simp_iter K claim_ok guess d P cs fn)).
Proof.
  induction cs as [|c r IH]; intros fn; cbn [simp_iter].
  - split; [reflexivity|]. split; [reflexivity|]. apply body_sim_refl.
  - destruct (step_body fn c) as (Sp & Sc & Ss). destruct (IH (step K claim_ok guess d P fn c)) as (Ip & Ic & Is).
    split; [congruence|]. split; [congruence|]. rewrite Sc in Is. eapply body_sim_trans; eassumption.
Qed.

Theorem simplify_iter : forall cs f f' fn, lookup_fn P f = Some fn -> lookup_fn P f' = None ->
  preserves N P f (add_fn P f' (simp_iter K claim_ok guess d P cs fn)) f'.
Proof.
  intros cs f f' fn Hf Hf'. destruct (simp_iter_body cs fn) as (Ip & Ic & Is).
  eapply run_lift; eassumption.
Qed.
End Iter.
End Top.

(* ---------------------------------------------------------------- never a new error *)
Lemma run_mono_err : forall N P n m f args c e, run N P n f args c = RErr e -> (n <= m)%nat -> run N P m f args c = RErr e.
Proof.
  unfold run. intros N P n m f args c e H Hle.
  destruct (lookup_fn P f) as [fn|]; [|exact H].
  destruct (inject_all args []) as [vs mu].
  destruct (call N P n fn vs mu _) as [[v mu1]|e0|] eqn:E; cbn [rbind] in H.
  - destruct (extract n mu1 v); discriminate.
  - inversion H; subst e0. rewrite (call_mono N P n m _ _ _ _ _ E ltac:(discriminate) Hle). reflexivity.
  - discriminate.
Qed.

Theorem never_new_error : forall N P f P' f', preserves N P f P' f' ->
  forall fuel args c v, run N P fuel f args c = ROk v ->
  forall fuel' e, run N P' fuel' f' args c <> RErr e.
Proof.
  intros N P f P' f' Hp fuel args c v H fuel' e He.
  destruct (Hp _ _ _ _ H) as (fuel0 & v' & H0 & _).
  pose proof (run_mono N P' fuel0 (Nat.max fuel0 fuel') f' args c v' H0 ltac:(lia)) as A.
  pose proof (run_mono_err N P' fuel' (Nat.max fuel0 fuel') f' args c e He ltac:(lia)) as B.
  congruence.
Qed.
