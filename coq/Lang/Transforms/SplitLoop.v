(* Model of fpy2/transform/split_loop.py (_SplitLoop) and strategies/loop_split.py
   split.  Definitions only.

   for x in IT: BODY     (PEEL, factor or length not statically known)
   ~~>
   t = IT
   with INTEGER: f = FACTOR; assert f >= 1; n = len(t); m = n - fmod(n, f)
   for i in range(0, m, f):
       with INTEGER: hi = i + f
       for j in range(i, hi, 1): x = t[j]; BODY
   for j2 in range(m, n, 1): x = t[j2]; BODY

   STRICT: `assert fmod(n, f) == 0`, chunks over [0, n), no residual loop.
   The body is NOT renamed between the chunked and the residual copy. *)
From Coq Require Import ZArith List Bool String.
From FpyV Require Import Num.RealFloat Num.Float Num.CtxDef Lang.Syntax Lang.Values Lang.Transforms.Common
  Lang.Transforms.ForUnroll.
Import ListNotations.
Open Scope list_scope.
Open Scope Z_scope.

(* the factor: a positive literal, or the name of a variable *)
Inductive factor := FLit (z : Z) | FVar (x : ident).

Definition factor_expr (f : factor) : expr :=
  match f with FLit z => int_lit z | FVar x => EVar x end.

Record sp_cfg := SpCfg {
  sp_sel : sel;
  sp_factor : factor;
  sp_strict : bool;
  sp_sizes : list (option Z);
  sp_L : nat }.

Definition sp_fresh (cfg : sp_cfg) (s : fu_st) : ident * fu_st :=
  (gen_name (sp_L cfg) (fu_ctr s), FuSt (fu_raw s) (fu_idx s) (S (fu_ctr s))).

(* _static_factor *)
Definition sp_static_factor (cfg : sp_cfg) : option Z :=
  match sp_factor cfg with FLit z => if z >=? 1 then Some z else None | FVar _ => None end.

(* a bound or a factor: a generated name or a compile-time constant (_ref) *)
Definition sp_ref (x : ident + Z) : expr := match x with inl v => EVar v | inr z => int_lit z end.

Definition sp_chunk_loop (cfg : sp_cfg) (t : ident) (f bound : ident + Z) (target : pat) (body : block)
    (s : fu_st) : stmt * fu_st :=
  let '(outer, s1) := sp_fresh cfg s in
  let '(inner, s2) := sp_fresh cfg s1 in
  let '(hi, s3) := sp_fresh cfg s2 in
  (SFor (PVar outer) (ERange3 (int_lit 0) (sp_ref bound) (sp_ref f))
     [integer_ctx [SAssign (PVar hi) (EOp2 OAdd (EVar outer) (sp_ref f))];
      SFor (PVar inner) (ERange3 (EVar outer) (EVar hi) (int_lit 1))
        (SAssign target (ERef (EVar t) (EVar inner)) :: body)], s3).

Definition sp_residual_loop (cfg : sp_cfg) (t : ident) (lo hi : ident + Z) (target : pat) (body : block)
    (s : fu_st) : stmt * fu_st :=
  let '(rem, s1) := sp_fresh cfg s in
  (SFor (PVar rem) (ERange3 (sp_ref lo) (sp_ref hi) (int_lit 1))
     (SAssign target (ERef (EVar t) (EVar rem)) :: body), s1).

Definition sp_prelude (t f n : ident) (fac : expr) (extra : list stmt) : stmt :=
  integer_ctx ([SAssign (PVar f) fac;
                SAssert (ECompare [CGe] [EVar f; int_lit 1]);
                SAssign (PVar n) (ELen (EVar t))] ++ extra).

Definition sp_build_strict (cfg : sp_cfg) (size : option Z) (target : pat) (iterable : expr) (body : block)
    (s : fu_st) : list stmt * fu_st :=
  let '(t, s1) := sp_fresh cfg s in
  match size, sp_static_factor cfg with
  | Some sz, Some fv =>
      if sz >? 0 then
        let '(lp, s2) := sp_chunk_loop cfg t (inr fv) (inr sz) target body s1 in
        ([SAssign (PVar t) iterable; lp], s2)
      else ([SAssign (PVar t) iterable], s1)
  | _, _ =>
      let '(f, s2) := sp_fresh cfg s1 in
      let '(n, s3) := sp_fresh cfg s2 in
      let '(lp, s4) := sp_chunk_loop cfg t (inl f) (inl n) target body s3 in
      ([SAssign (PVar t) iterable;
        sp_prelude t f n (factor_expr (sp_factor cfg))
          [SAssert (ECompare [CEq] [EOp2 OFmod (EVar n) (EVar f); int_lit 0])];
        lp], s4)
  end.

Definition sp_build_peel (cfg : sp_cfg) (size : option Z) (target : pat) (iterable : expr) (body : block)
    (s : fu_st) : list stmt * fu_st :=
  let '(t, s1) := sp_fresh cfg s in
  match size, sp_static_factor cfg with
  | Some sz, Some fv =>
      let m := (sz / fv) * fv in
      let '(main, s2) :=
        if m >? 0 then let '(lp, s2) := sp_chunk_loop cfg t (inr fv) (inr m) target body s1 in ([lp], s2)
        else ([], s1) in
      let '(res, s3) :=
        if m <? sz then let '(lp, s3) := sp_residual_loop cfg t (inr m) (inr sz) target body s2 in ([lp], s3)
        else ([], s2) in
      (SAssign (PVar t) iterable :: main ++ res, s3)
  | _, _ =>
      let '(f, s2) := sp_fresh cfg s1 in
      let '(n, s3) := sp_fresh cfg s2 in
      let '(m, s4) := sp_fresh cfg s3 in
      let '(lp, s5) := sp_chunk_loop cfg t (inl f) (inl m) target body s4 in
      let '(rl, s6) := sp_residual_loop cfg t (inl m) (inl n) target body s5 in
      ([SAssign (PVar t) iterable;
        sp_prelude t f n (factor_expr (sp_factor cfg))
          [SAssign (PVar m) (EOp2 OSub (EVar n) (EOp2 OFmod (EVar n) (EVar f)))];
        lp; rl], s6)
  end.

Definition sp_refuses (cfg : sp_cfg) (size : option Z) : bool :=
  sp_strict cfg &&
  match size, sp_static_factor cfg with
  | Some sz, Some fv => negb (sz mod fv =? 0)
  | _, _ => false
  end.

Fixpoint sp_stmt (cfg : sp_cfg) (inside : bool) (st : stmt) (s : fu_st) {struct st} : list stmt * fu_st :=
  match st with
  | SFor p it b =>
      let size := nth (fu_raw s) (sp_sizes cfg) None in
      let s0 := FuSt (S (fu_raw s)) (fu_idx s) (fu_ctr s) in
      if sp_refuses cfg size then
        let '(b', s1) := bmapM (sp_stmt cfg inside) b s0 in ([SFor p it b'], s1)
      else
        let idx := fu_idx s0 in
        let s1 := FuSt (fu_raw s0) (S idx) (fu_ctr s0) in
        let '(b', s2) := bmapM (sp_stmt cfg (enters (sp_sel cfg) inside idx)) b s1 in
        if selected (sp_sel cfg) inside idx then
          if sp_strict cfg then sp_build_strict cfg size p it b' s2
          else sp_build_peel cfg size p it b' s2
        else ([SFor p it b'], s2)
  | SIf1 c b => let '(b', s1) := bmapM (sp_stmt cfg inside) b s in ([SIf1 c b'], s1)
  | SIf c t f =>
      let '(t', s1) := bmapM (sp_stmt cfg inside) t s in
      let '(f', s2) := bmapM (sp_stmt cfg inside) f s1 in ([SIf c t' f'], s2)
  | SWhile c b => let '(b', s1) := bmapM (sp_stmt cfg inside) b s in ([SWhile c b'], s1)
  | SContext x e b => let '(b', s1) := bmapM (sp_stmt cfg inside) b s in ([SContext x e b'], s1)
  | _ => ([st], s)
  end.

Definition sp_block (cfg : sp_cfg) (b : block) : block :=
  fst (bmapM (sp_stmt cfg false) b (FuSt O O O)).

Definition split_loop_cfg (cfg : sp_cfg) (fn : func) : func := set_body fn (sp_block cfg (f_body fn)).

(* split(f, factor, where, strategy) with the size oracle *)
Definition split_loop (w : sel) (fac : factor) (strict : bool) (sizes : list (option Z)) (fn : func) : func :=
  split_loop_cfg (SpCfg w fac strict sizes (max_len (func_names fn))) fn.
