(* C07: soundness of the lock-step comparison `vexpr` (SimpDefs.v): if every
   accepted leaf pair is a sound replacement under the assertion A, then so is
   every accepted pair of expressions (K more units of fuel on the right). *)
From Coq Require Import ZArith List Bool String Lia.
From FpyV Require Import Num.RealFloat Num.Float Num.CtxDef Lang.Syntax Lang.Values Lang.Sem Lang.SemMono.
From FpyV Require Import Lang.Transforms.SimpDefs Lang.Transforms.SimpBaseProofs Lang.Transforms.SimpEqProofs.
Import ListNotations.
Open Scope Z_scope.

Section VX.
Variable N : numops.
Variable P : program.
Variable K : nat.
Variable leaf : vars -> expr -> expr -> bool.
Variable kb : vars -> expr -> option bool.
(* the assertion on (comprehension targets in scope, environment, active context) *)
Variable A : vars -> env -> ctx -> Prop.

Hypothesis A_bind : forall bvs s C p v s', A bvs s C -> bind_pat p v s = Ok s' -> A (pvars p ++ bvs) s' C.
Hypothesis A_incl : forall bvs bvs' s C, A bvs s C -> incl bvs bvs' -> A bvs' s C.
Hypothesis leaf_ok : forall bvs e e' n s mu C r, leaf bvs e e' = true -> A bvs s C ->
  eval N P n s mu C e = ROk r -> eval N P (n + K) s mu C e' = ROk r.
Hypothesis kb_ok : forall bvs c t n s mu C v mu1, kb bvs c = Some t -> A bvs s C ->
  eval N P n s mu C c = ROk (v, mu1) -> v = VBool t /\ mu1 = mu.

Notation vx := (vexpr leaf kb).
Notation vxs := (vexprs leaf kb).
Notation vxo := (voexpr leaf kb).
Notation vxg := (vgens leaf kb).

Definition vx_at (n : nat) : Prop :=
  (forall bvs e e' s mu C r, vx bvs e e' = true -> A bvs s C ->
     eval N P n s mu C e = ROk r -> eval N P (n + K) s mu C e' = ROk r) /\
  (forall bvs es es' s mu C r, vxs bvs es es' = true -> A bvs s C ->
     evals N P n s mu C es = ROk r -> evals N P (n + K) s mu C es' = ROk r) /\
  (forall bvs e e' s mu C r, vxo bvs e e' = true -> A bvs s C ->
     eval_opt N P n s mu C e = ROk r -> eval_opt N P (n + K) s mu C e' = ROk r) /\
  (forall bvs args args' s mu C v ops r, vxs bvs args args' = true -> A bvs s C ->
     cmp_chain N P n s mu C v ops args = ROk r -> cmp_chain N P (n + K) s mu C v ops args' = ROk r) /\
  (forall bvs args args' s mu C u r, vxs bvs args args' = true -> A bvs s C ->
     bool_chain N P n s mu C u args = ROk r -> bool_chain N P (n + K) s mu C u args' = ROk r) /\
  (forall bvs gens gens' elt elt' s mu C r, vxg elt elt' bvs gens gens' = true -> A bvs s C ->
     comp N P n s mu C gens elt = ROk r -> comp N P (n + K) s mu C gens' elt' = ROk r) /\
  (forall bvs p gs gs' elt elt' s mu C l i r, vxg elt elt' (pvars p ++ bvs) gs gs' = true -> A (pvars p ++ bvs) s C ->
     comp_loop N P n s mu C p l i gs elt = ROk r -> comp_loop N P (n + K) s mu C p l i gs' elt' = ROk r).

Lemma value_eq_mono_ok : forall n m mu a b r, value_eq N n mu a b = ROk r -> (n <= m)%nat -> value_eq N m mu a b = ROk r.
Proof. intros n m mu a b r H Hle. rewrite <- H. apply (value_eq_mono N n m mu a b Hle). rewrite H. discriminate. Qed.

Lemma dim_of_mono_ok : forall n m mu v r, dim_of n mu v = ROk r -> (n <= m)%nat -> dim_of m mu v = ROk r.
Proof. intros n m mu v r H Hle. rewrite <- H. apply (dim_of_mono n m mu v Hle). rewrite H. discriminate. Qed.

Ltac split_and :=
  repeat match goal with
  | H : _ && _ = true |- _ => apply andb_prop in H; destruct H
  end.

End VX.
