(* C07: soundness of the lock-step comparison `vexpr` (SimpDefs.v): if every
   accepted leaf pair is a sound replacement under the assertion A, then so is
   every accepted pair of expressions (K more units of fuel on the right). *)
From Coq Require Import ZArith List Bool String Lia.
From FpyV Require Import Num.RealFloat Num.Float Num.CtxDef Lang.Syntax Lang.Values Lang.Sem Lang.SemMono.
From FpyV Require Import Lang.Transforms.SimpDefs Lang.Transforms.SimpBaseProofs Lang.Transforms.SimpEqProofs.
Import ListNotations.
Open Scope Z_scope.

Section VX.
Variable N : numops.
Variable P : program.
Variable K : nat.
Variable leaf : vars -> expr -> expr -> bool.
Variable kb : vars -> expr -> option bool.
(* the assertion on (comprehension targets in scope, environment, active context) *)
Variable A : vars -> env -> ctx -> Prop.

Hypothesis A_bind : forall bvs s C p v s', A bvs s C -> bind_pat p v s = Ok s' -> A (pvars p ++ bvs) s' C.
Hypothesis A_incl : forall bvs bvs' s C, A bvs s C -> incl bvs bvs' -> A bvs' s C.
Hypothesis leaf_ok : forall bvs e e' n s mu C r, leaf bvs e e' = true -> A bvs s C ->
  eval N P n s mu C e = ROk r -> eval N P (n + K) s mu C e' = ROk r.
Hypothesis kb_ok : forall bvs c t n s mu C v mu1, kb bvs c = Some t -> A bvs s C ->
  eval N P n s mu C c = ROk (v, mu1) -> v = VBool t /\ mu1 = mu.

Notation vx := (vexpr leaf kb).
Notation vxs := (vexprs leaf kb).
Notation vxo := (voexpr leaf kb).
Notation vxg := (vgens leaf kb).

Definition vx_at (n : nat) : Prop :=
  (forall bvs e e' s mu C r, vx bvs e e' = true -> A bvs s C ->
     eval N P n s mu C e = ROk r -> eval N P (n + K) s mu C e' = ROk r) /\
  (forall bvs es es' s mu C r, vxs bvs es es' = true -> A bvs s C ->
     evals N P n s mu C es = ROk r -> evals N P (n + K) s mu C es' = ROk r) /\
  (forall bvs e e' s mu C r, vxo bvs e e' = true -> A bvs s C ->
     eval_opt N P n s mu C e = ROk r -> eval_opt N P (n + K) s mu C e' = ROk r) /\
  (forall bvs args args' s mu C v ops r, vxs bvs args args' = true -> A bvs s C ->
     cmp_chain N P n s mu C v ops args = ROk r -> cmp_chain N P (n + K) s mu C v ops args' = ROk r) /\
  (forall bvs args args' s mu C u r, vxs bvs args args' = true -> A bvs s C ->
     bool_chain N P n s mu C u args = ROk r -> bool_chain N P (n + K) s mu C u args' = ROk r) /\
  (forall bvs gens gens' elt elt' s mu C r, vxg elt elt' bvs gens gens' = true -> A bvs s C ->
     comp N P n s mu C gens elt = ROk r -> comp N P (n + K) s mu C gens' elt' = ROk r) /\
  (forall bvs p gs gs' elt elt' s mu C l i r, vxg elt elt' (pvars p ++ bvs) gs gs' = true -> A (pvars p ++ bvs) s C ->
     comp_loop N P n s mu C p l i gs elt = ROk r -> comp_loop N P (n + K) s mu C p l i gs' elt' = ROk r).

Lemma value_eq_mono_ok : forall n m mu a b r, value_eq N n mu a b = ROk r -> (n <= m)%nat -> value_eq N m mu a b = ROk r.
Proof. intros n m mu a b r H Hle. rewrite <- H. apply (value_eq_mono N n m mu a b Hle). rewrite H. discriminate. Qed.

Lemma dim_of_mono_ok : forall n m mu v r, dim_of n mu v = ROk r -> (n <= m)%nat -> dim_of m mu v = ROk r.
Proof. intros n m mu v r H Hle. rewrite <- H. apply (dim_of_mono n m mu v Hle). rewrite H. discriminate. Qed.

Ltac split_and :=
  repeat match goal with
  | H : _ && _ = true |- _ => apply andb_prop in H; destruct H
  end.

Ltac vstep Hev Hevs Hevo HA n :=
  match goal with
  | H : ROk _ = ROk _ |- _ => exact H
  | H : rbind (eval N P n ?s ?mu ?C ?a) _ = ROk _ |- rbind (eval N P (n + K) ?s ?mu ?C ?a') _ = _ =>
      let E := fresh "E" in let H' := fresh "H" in let v := fresh "v" in let m := fresh "m" in
      destruct (rbind_ok _ _ _ _ _ H) as ([v m] & E & H'); clear H;
      match goal with Hv : _ = true |- _ => rewrite (Hev _ a a' s mu C _ Hv HA E) end; cbn [rbind]
  | H : rbind (evals N P n ?s ?mu ?C ?a) _ = ROk _ |- rbind (evals N P (n + K) ?s ?mu ?C ?a') _ = _ =>
      let E := fresh "E" in let H' := fresh "H" in let v := fresh "v" in let m := fresh "m" in
      destruct (rbind_ok _ _ _ _ _ H) as ([v m] & E & H'); clear H;
      match goal with Hv : _ = true |- _ => rewrite (Hevs _ a a' s mu C _ Hv HA E) end; cbn [rbind]
  | H : rbind (eval_opt N P n ?s ?mu ?C ?a) _ = ROk _ |- rbind (eval_opt N P (n + K) ?s ?mu ?C ?a') _ = _ =>
      let E := fresh "E" in let H' := fresh "H" in let v := fresh "v" in let m := fresh "m" in
      destruct (rbind_ok _ _ _ _ _ H) as ([v m] & E & H'); clear H;
      match goal with Hv : _ = true |- _ => rewrite (Hevo _ a a' s mu C _ Hv HA E) end; cbn [rbind]
  | H : rbind (value_eq N n ?mu ?a ?b) _ = ROk _ |- _ =>
      let E := fresh "E" in let H' := fresh "H" in let v := fresh "v" in
      destruct (rbind_ok _ _ _ _ _ H) as (v & E & H'); clear H;
      rewrite (value_eq_mono_ok n (n + K) mu a b _ E ltac:(lia)); cbn [rbind]
  | H : rbind (dim_of n ?mu ?a) _ = ROk _ |- _ =>
      let E := fresh "E" in let H' := fresh "H" in let v := fresh "v" in
      destruct (rbind_ok _ _ _ _ _ H) as (v & E & H'); clear H;
      rewrite (dim_of_mono_ok n (n + K) mu a _ E ltac:(lia)); cbn [rbind]
  | H : rbind ?x _ = ROk _ |- rbind ?x _ = _ =>
      destruct x; cbn [rbind] in *; [ | discriminate H | discriminate H ]
  | H : match ?x with _ => _ end = ROk _ |- match ?x with _ => _ end = _ => destruct x; try discriminate H
  | H : (if ?x then _ else _) = ROk _ |- (if ?x then _ else _) = _ => destruct x; try discriminate H
  | H : (let '(_, _) := ?x in _) = ROk _ |- _ => destruct x
  end.


Ltac more_eq :=
  split_and; eqb_more;
  repeat match goal with
  | H : ctx_eqb_syn _ _ = true |- _ => apply ctx_eqb_syn_eq in H
  | H : ctor_eqb _ _ = true |- _ => apply ctor_eqb_eq in H
  | H : pat_eqb _ _ = true |- _ => apply pat_eqb_eq in H
  end; subst.

Lemma vx_step : forall n, vx_at n -> vx_at (S n).
Proof.
  intros n (Hev & Hevs & Hevo & Hcmp & Hbool & Hcomp & Hcl).
  unfold vx_at. repeat split.
  - (* eval *)
    intros bvs e e' s mu C r Hv HA H.
    destruct (leaf bvs e e') eqn:L; [eapply leaf_ok; eassumption|].
    change (S n + K)%nat with (S (n + K)).
    destruct e; cbn [vexpr] in Hv; rewrite L in Hv; cbn [orb] in Hv.
    all: try match goal with
         | H : eval N P (S _) _ _ _ (EIf ?c ?a ?b) = ROk _ |- _ =>
             apply orb_prop in Hv; destruct Hv as [Hk|Hv];
             [ rewrite eval_S in H; unfold eval_body in H;
               destruct (rbind_ok _ _ _ _ _ H) as ([vc m] & E & H'); clear H;
               destruct (kb bvs c) as [[|]|] eqn:Kb; try discriminate Hk;
               destruct (kb_ok _ _ _ _ _ _ _ _ _ Kb HA E) as [-> ->]; cbn [as_bool rbind] in H';
               (eapply eval_mono_ok; [eapply Hev; eassumption | lia])
             | ]
         end.
    all: rewrite eval_S in *; unfold eval_body in *.
    all: destruct e'; try discriminate Hv; more_eq;
         try solve [ repeat vstep Hev Hevs Hevo HA n ].
    + (* ECompare *)
      destruct args as [|a rest]; [discriminate|]. destruct args0 as [|a' rest']; [discriminate|]. split_and.
      vstep Hev Hevs Hevo HA n. eapply Hcmp; eassumption.
    + eapply Hbool; eassumption.
    + eapply Hbool; eassumption.
    + (* EIf *)
      vstep Hev Hevs Hevo HA n.
      destruct (as_bool v) as [t| |]; cbn [rbind] in *; try discriminate.
      destruct t; eapply Hev; eassumption.
    + (* EComp *)
      destruct (rbind_ok _ _ _ _ _ H) as ([vs m] & E & H'). clear H.
      rewrite (Hcomp bvs gens gens0 e e' s mu C _ Hv HA E). cbn [rbind]. exact H'.
    + (* ECall *)
      destruct (lookup_fn P f0) as [fn|]; [|discriminate].
      vstep Hev Hevs Hevo HA n. eapply call_mono_ok; [eassumption | lia].
  - (* evals *)
    intros bvs es es' s mu C r Hv HA H.
    change (S n + K)%nat with (S (n + K)). rewrite evals_S in *. unfold evals_body in *.
    destruct es as [|e es], es' as [|e' es']; try discriminate Hv; [exact H|].
    cbn [vexprs] in Hv. split_and.
    repeat vstep Hev Hevs Hevo HA n.
  - (* eval_opt *)
    intros bvs e e' s mu C r Hv HA H.
    change (S n + K)%nat with (S (n + K)). rewrite eval_opt_S in *. unfold eval_opt_body in *.
    destruct e as [e|], e' as [e'|]; try discriminate Hv; [|exact H].
    cbn [voexpr] in Hv. repeat vstep Hev Hevs Hevo HA n.
  - (* cmp_chain *)
    intros bvs args args' s mu C v ops r Hv HA H.
    change (S n + K)%nat with (S (n + K)). rewrite cmp_chain_S in *. unfold cmp_chain_body in *.
    destruct ops as [|o ops'].
    + destruct args, args'; try discriminate Hv; exact H.
    + destruct args as [|e args], args' as [|e' args']; try discriminate Hv; try discriminate H.
      cbn [vexprs] in Hv. split_and.
      destruct (is_ordering o).
      * destruct (as_num v) as [x| |]; cbn [rbind] in *; try discriminate.
        vstep Hev Hevs Hevo HA n.
        destruct (as_num v0) as [y| |]; cbn [rbind] in *; try discriminate.
        destruct (cmp_test N o x y); [|assumption].
        destruct ops'; [assumption|]. eapply Hcmp; eassumption.
      * vstep Hev Hevs Hevo HA n. vstep Hev Hevs Hevo HA n.
        destruct (match o with CNe => negb v1 | _ => v1 end); [|assumption].
        destruct ops'; [assumption|]. eapply Hcmp; eassumption.
  - (* bool_chain *)
    intros bvs args args' s mu C u r Hv HA H.
    change (S n + K)%nat with (S (n + K)). rewrite bool_chain_S in *. unfold bool_chain_body in *.
    destruct args as [|e args], args' as [|e' args']; try discriminate Hv; [exact H|].
    cbn [vexprs] in Hv. split_and.
    vstep Hev Hevs Hevo HA n.
    destruct (as_bool v) as [b| |]; cbn [rbind] in *; try discriminate.
    destruct (Bool.eqb b u); [|assumption].
    destruct args as [|e2 args], args' as [|e2' args']; try discriminate; [assumption|].
    eapply Hbool; eassumption.
  - (* comp *)
    intros bvs gens gens' elt elt' s mu C r Hv HA H.
    change (S n + K)%nat with (S (n + K)). rewrite comp_S in *. unfold comp_body in *.
    destruct gens as [|[p it] gs], gens' as [|[p' it'] gs']; try discriminate Hv.
    + cbn [vgens] in Hv. repeat vstep Hev Hevs Hevo HA n.
    + cbn [vgens] in Hv. more_eq.
      vstep Hev Hevs Hevo HA n.
      destruct (as_list m v) as [[l vs]| |]; cbn [rbind] in *; try discriminate.
      eapply Hcl; try eassumption.
      eapply A_incl; [exact HA|]. intros z Hz. apply in_or_app. right. exact Hz.
  - (* comp_loop *)
    intros bvs p gs gs' elt elt' s mu C l i r Hv HA H.
    change (S n + K)%nat with (S (n + K)). rewrite comp_loop_S in *. unfold comp_loop_body in *.
    destruct (store_get mu l) as [vs|]; [|discriminate].
    destruct (nth_error vs i) as [x|]; [|exact H].
    destruct (bind_pat p x s) as [s'|] eqn:B; cbn [lift rbind] in *; [|discriminate].
    assert (HA' : A (pvars p ++ bvs) s' C).
    { eapply A_incl; [eapply A_bind; eassumption|].
      intros z Hz. apply in_app_or in Hz. destruct Hz as [Hz|Hz]; [apply in_or_app; left; exact Hz | exact Hz]. }
    destruct (rbind_ok _ _ _ _ _ H) as ([r1 m1] & E1 & H1). clear H.
    rewrite (Hcomp _ gs gs' elt elt' s' mu C _ Hv HA' E1). cbn [rbind].
    destruct (rbind_ok _ _ _ _ _ H1) as ([r2 m2] & E2 & H2). clear H1.
    rewrite (Hcl bvs p gs gs' elt elt' s' m1 C l (S i) _ Hv HA' E2). cbn [rbind]. exact H2.
Qed.

Lemma vx_all : forall n, vx_at n.
Proof.
  induction n as [|n IH]; [|apply vx_step; exact IH].
  unfold vx_at. repeat split; intros; discriminate.
Qed.

Lemma vexpr_sound : forall n bvs e e' s mu C r, vx bvs e e' = true -> A bvs s C ->
  eval N P n s mu C e = ROk r -> eval N P (n + K) s mu C e' = ROk r.
Proof. intros n. destruct (vx_all n) as (Hk & _). exact Hk. Qed.

Lemma vexprs_sound : forall n bvs es es' s mu C r, vxs bvs es es' = true -> A bvs s C ->
  evals N P n s mu C es = ROk r -> evals N P (n + K) s mu C es' = ROk r.
Proof. intros n. destruct (vx_all n) as (_ & Hk & _). exact Hk. Qed.

End VX.
