(* C07: how evaluation depends on the environment and touches the store.
     - `agr_all`: evaluation of an expression depends only on its free variables;
     - `pure_all`: an expression without FPy calls and allocating forms leaves
       the store as it was;
     - `frame_all`: a statement rebinds at most the names of `bound`. *)
From Coq Require Import ZArith List Bool String Lia.
From FpyV Require Import Num.RealFloat Num.Float Num.CtxDef Lang.Syntax Lang.Values Lang.Sem Lang.SemMono.
From FpyV Require Import Lang.Transforms.SimpDefs Lang.Transforms.SimpBaseProofs.
Import ListNotations.
Open Scope Z_scope.

Section Eval.
Variable N : numops.
Variable P : program.

(* ---------------------------------------------------------------- free variables *)
Definition agr_at (n : nat) : Prop :=
  (forall L bvs s1 s2 mu C e, agree L s1 s2 -> incl (efv bvs e) L -> incl bvs L ->
     eval N P n s1 mu C e = eval N P n s2 mu C e) /\
  (forall L bvs s1 s2 mu C es, agree L s1 s2 -> incl (flat_map (efv bvs) es) L -> incl bvs L ->
     evals N P n s1 mu C es = evals N P n s2 mu C es) /\
  (forall L bvs s1 s2 mu C e, agree L s1 s2 -> incl (oexpr_map (efv bvs) e) L -> incl bvs L ->
     eval_opt N P n s1 mu C e = eval_opt N P n s2 mu C e) /\
  (forall L bvs s1 s2 mu C v ops args, agree L s1 s2 -> incl (flat_map (efv bvs) args) L -> incl bvs L ->
     cmp_chain N P n s1 mu C v ops args = cmp_chain N P n s2 mu C v ops args) /\
  (forall L bvs s1 s2 mu C u args, agree L s1 s2 -> incl (flat_map (efv bvs) args) L -> incl bvs L ->
     bool_chain N P n s1 mu C u args = bool_chain N P n s2 mu C u args) /\
  (forall L bvs s1 s2 mu C gens elt, agree L s1 s2 -> incl (efv_gens elt bvs gens) L -> incl bvs L ->
     comp N P n s1 mu C gens elt = comp N P n s2 mu C gens elt) /\
  (forall L bvs s1 s2 mu C p l i gs elt, agree L s1 s2 -> incl (efv_gens elt (pvars p ++ bvs) gs) L -> incl bvs L ->
     comp_loop N P n s1 mu C p l i gs elt = comp_loop N P n s2 mu C p l i gs elt).

Lemma incl_app_l : forall (A B L : vars), incl (A ++ B) L -> incl A L.
Proof. intros A B L H x Hx. apply H. apply in_or_app. auto. Qed.
Lemma incl_app_r : forall (A B L : vars), incl (A ++ B) L -> incl B L.
Proof. intros A B L H x Hx. apply H. apply in_or_app. auto. Qed.

Ltac split_incl :=
  repeat match goal with
  | H : incl (_ ++ _) _ |- _ =>
      let H1 := fresh "Hi" in let H2 := fresh "Hi" in
      pose proof (incl_app_l _ _ _ H) as H1; pose proof (incl_app_r _ _ _ H) as H2; clear H
  end.

Ltac rb_same :=
  match goal with
  | |- rbind ?x _ = rbind ?x _ => destruct x as [?a| |]; cbn [rbind]; [ | reflexivity | reflexivity ]
  | |- match ?x with _ => _ end = match ?x with _ => _ end => destruct x
  | |- (if ?x then _ else _) = (if ?x then _ else _) => destruct x
  | |- (let '(_, _) := ?x in _) = (let '(_, _) := ?x in _) => destruct x
  | |- ?a = ?a => reflexivity
  end.

Lemma agr_all : forall n, agr_at n.
Proof.
  induction n as [|n IH].
  - unfold agr_at. repeat split; intros; reflexivity.
  - destruct IH as (Hev & Hevs & Hevo & Hcmp & Hbool & Hcomp & Hcl).
    assert (Xev : forall L bvs s1 s2 mu C e A (k1 k2 : value * store -> res A),
      agree L s1 s2 -> incl (efv bvs e) L -> incl bvs L -> (forall r, k1 r = k2 r) ->
      rbind (eval N P n s1 mu C e) k1 = rbind (eval N P n s2 mu C e) k2).
    { intros. rewrite (Hev L bvs s1 s2) by assumption. destruct (eval N P n s2 mu C e); cbn [rbind]; auto. }
    assert (Xevs : forall L bvs s1 s2 mu C es A (k1 k2 : list value * store -> res A),
      agree L s1 s2 -> incl (flat_map (efv bvs) es) L -> incl bvs L -> (forall r, k1 r = k2 r) ->
      rbind (evals N P n s1 mu C es) k1 = rbind (evals N P n s2 mu C es) k2).
    { intros. rewrite (Hevs L bvs s1 s2) by assumption. destruct (evals N P n s2 mu C es); cbn [rbind]; auto. }
    assert (Xevo : forall L bvs s1 s2 mu C e A (k1 k2 : option value * store -> res A),
      agree L s1 s2 -> incl (oexpr_map (efv bvs) e) L -> incl bvs L -> (forall r, k1 r = k2 r) ->
      rbind (eval_opt N P n s1 mu C e) k1 = rbind (eval_opt N P n s2 mu C e) k2).
    { intros. rewrite (Hevo L bvs s1 s2) by assumption. destruct (eval_opt N P n s2 mu C e); cbn [rbind]; auto. }
    unfold agr_at. repeat split; intros.
    + (* eval *)
      rewrite !eval_S. unfold eval_body.
      destruct e; cbn [efv] in *; split_incl;
        try reflexivity;
        try solve [ repeat first
          [ eapply Xev; [eassumption | eassumption | eassumption | intros [? ?]]
          | eapply Xevs; [eassumption | eassumption | eassumption | intros [? ?]]
          | eapply Xevo; [eassumption | eassumption | eassumption | intros [? ?]]
          | rb_same ] ].
      * (* EVar *)
        assert (E : env_get s1 x = env_get s2 x).
        { apply H. destruct (vmem x bvs) eqn:V.
          - apply H1. apply vmem_In. exact V.
          - apply H0. left. reflexivity. }
        rewrite E. reflexivity.
      * (* ECompare *)
        destruct args as [|a rest]; [reflexivity|]. cbn [flat_map] in *. split_incl.
        eapply Xev; [eassumption | eassumption | eassumption | intros [va mu1]].
        eapply Hcmp; eassumption.
      * (* EAnd *) eapply Hbool; eassumption.
      * (* EOr *) eapply Hbool; eassumption.
      * (* EIf *)
        eapply Xev; [eassumption | eassumption | eassumption | intros [vc mu1]].
        destruct (as_bool vc) as [t| |]; cbn [rbind]; try reflexivity.
        destruct t; eapply Hev; eassumption.
      * (* EComp *)
        rewrite (Hcomp L bvs s1 s2) by assumption. reflexivity.
    + (* evals *)
      rewrite !evals_S. unfold evals_body. destruct es as [|e r]; [reflexivity|].
      cbn [flat_map] in *. split_incl.
      eapply Xev; [eassumption | eassumption | eassumption | intros [v mu1]].
      eapply Xevs; [eassumption | eassumption | eassumption | intros [vs mu2]]. reflexivity.
    + (* eval_opt *)
      rewrite !eval_opt_S. unfold eval_opt_body. destruct e as [e|]; [|reflexivity].
      cbn [oexpr_map] in *.
      eapply Xev; [eassumption | eassumption | eassumption | intros [v mu1]]. reflexivity.
    + (* cmp_chain *)
      rewrite !cmp_chain_S. unfold cmp_chain_body.
      destruct ops as [|o ops'], args as [|e args']; try reflexivity.
      cbn [flat_map] in *. split_incl.
      destruct (is_ordering o).
      * destruct (as_num v) as [x| |]; cbn [rbind]; try reflexivity.
        eapply Xev; [eassumption | eassumption | eassumption | intros [w mu1]].
        destruct (as_num w) as [y| |]; cbn [rbind]; try reflexivity.
        destruct (cmp_test N o x y); [|reflexivity].
        destruct ops'; [reflexivity|]. eapply Hcmp; eassumption.
      * eapply Xev; [eassumption | eassumption | eassumption | intros [w mu1]].
        destruct (value_eq N n mu1 v w) as [eq| |]; cbn [rbind]; try reflexivity.
        destruct (match o with CNe => negb eq | _ => eq end); [|reflexivity].
        destruct ops'; [reflexivity|]. eapply Hcmp; eassumption.
    + (* bool_chain *)
      rewrite !bool_chain_S. unfold bool_chain_body. destruct args as [|e r]; [reflexivity|].
      cbn [flat_map] in *. split_incl.
      eapply Xev; [eassumption | eassumption | eassumption | intros [v mu1]].
      destruct (as_bool v) as [b| |]; cbn [rbind]; try reflexivity.
      destruct (Bool.eqb b u); [|reflexivity].
      destruct r; [reflexivity|]. eapply Hbool; eassumption.
    + (* comp *)
      rewrite !comp_S. unfold comp_body. destruct gens as [|[p it] gs].
      * cbn [efv_gens] in *. eapply Xev; [eassumption | eassumption | eassumption | intros [v mu1]]. reflexivity.
      * cbn [efv_gens] in *. split_incl.
        eapply Xev; [eassumption | eassumption | eassumption | intros [vi mu1]].
        destruct (as_list mu1 vi) as [[l vs]| |]; cbn [rbind]; try reflexivity.
        eapply Hcl; eassumption.
    + (* comp_loop *)
      rewrite !comp_loop_S. unfold comp_loop_body.
      destruct (store_get mu l) as [vs|]; [|reflexivity].
      destruct (nth_error vs i) as [x|]; [|reflexivity].
      pose proof (bind_pat_agree p x s1 s2 L H) as HB.
      destruct (bind_pat p x s1) as [s1'|e1], (bind_pat p x s2) as [s2'|e2]; try contradiction;
        cbn [lift rbind]; [|subst; reflexivity].
      assert (Hi' : incl (efv_gens elt (pvars p ++ bvs) gs) (pvars p ++ L)).
      { intros z Hz. apply in_or_app. right. auto. }
      assert (Hb' : incl (pvars p ++ bvs) (pvars p ++ L)).
      { intros z Hz. apply in_app_or in Hz. apply in_or_app. destruct Hz; auto. }
      rewrite (Hcomp _ _ s1' s2' mu C gs elt HB Hi' Hb').
      destruct (comp N P n s2' mu C gs elt) as [[r1 mu1]| |]; cbn [rbind]; try reflexivity.
      assert (Hb2 : incl bvs (pvars p ++ L)).
      { intros z Hz. apply in_or_app. right. auto. }
      rewrite (Hcl _ bvs s1' s2' mu1 C p l (S i) gs elt HB Hi' Hb2). reflexivity.
Qed.

Lemma eval_agree : forall n L s1 s2 mu C e, agree L s1 s2 -> incl (efv [] e) L ->
  eval N P n s1 mu C e = eval N P n s2 mu C e.
Proof.
  intros n L s1 s2 mu C e HA Hi. destruct (agr_all n) as (K & _).
  eapply K; eauto. intros x [].
Qed.

Lemma evals_agree : forall n L s1 s2 mu C es, agree L s1 s2 -> incl (flat_map (efv []) es) L ->
  evals N P n s1 mu C es = evals N P n s2 mu C es.
Proof.
  intros n L s1 s2 mu C es HA Hi. destruct (agr_all n) as (_ & K & _).
  eapply K; eauto. intros x [].
Qed.

(* ---------------------------------------------------------------- pure expressions leave the store alone *)
Definition pure_at (n : nat) : Prop :=
  (forall s mu C e v mu1, pure_na e = true -> eval N P n s mu C e = ROk (v, mu1) -> mu1 = mu) /\
  (forall s mu C es vs mu1, forallb pure_na es = true -> evals N P n s mu C es = ROk (vs, mu1) -> mu1 = mu) /\
  (forall s mu C v ops args w mu1, forallb pure_na args = true ->
     cmp_chain N P n s mu C v ops args = ROk (w, mu1) -> mu1 = mu) /\
  (forall s mu C u args w mu1, forallb pure_na args = true ->
     bool_chain N P n s mu C u args = ROk (w, mu1) -> mu1 = mu).

Ltac split_and :=
  repeat match goal with
  | H : _ && _ = true |- _ => apply andb_prop in H; destruct H
  end.

Ltac pstep Hev Hevs :=
  match goal with
  | H : ROk _ = ROk _ |- _ => inversion H; subst; clear H
  | H : rbind (eval N P _ _ _ _ ?a) _ = ROk _ |- _ =>
      let E := fresh "E" in let r := fresh "r" in let m := fresh "m" in let H' := fresh "H" in
      destruct (rbind_ok _ _ _ _ _ H) as ([r m] & E & H'); clear H;
      apply Hev in E; [ subst m | assumption ]
  | H : rbind (evals N P _ _ _ _ ?a) _ = ROk _ |- _ =>
      let E := fresh "E" in let r := fresh "r" in let m := fresh "m" in let H' := fresh "H" in
      destruct (rbind_ok _ _ _ _ _ H) as ([r m] & E & H'); clear H;
      apply Hevs in E; [ subst m | assumption ]
  | H : rbind ?x _ = ROk _ |- _ =>
      let E := fresh "E" in
      destruct x eqn:E; cbn [rbind] in H; [ | discriminate H | discriminate H ]
  | H : (let '(_, _) := ?x in _) = ROk _ |- _ => destruct x
  | H : match ?x with _ => _ end = ROk _ |- _ => destruct x eqn:?; try discriminate H
  | H : (if ?x then _ else _) = ROk _ |- _ => destruct x eqn:?; try discriminate H
  end.

Lemma pure_all : forall n, pure_at n.
Proof.
  induction n as [|n IH].
  - unfold pure_at. repeat split; intros; discriminate.
  - destruct IH as (Hev & Hevs & Hcmp & Hbool).
    unfold pure_at. repeat split; intros.
    + rewrite eval_S in H0. unfold eval_body in H0. unfold pure_na in *.
      destruct e; cbn [expr_all q_pure_na] in H; try discriminate H; cbn [andb] in H; split_and;
        try solve [ repeat pstep Hev Hevs; reflexivity ].
      * (* ECompare *)
        destruct args as [|a rest]; [discriminate|]. cbn [forallb] in *. split_and.
        destruct (rbind_ok _ _ _ _ _ H0) as ([va m] & E & H'). apply Hev in E; [subst m|assumption].
        eapply Hcmp; [|exact H']; assumption.
      * eapply Hbool; [|exact H0]; assumption.
      * eapply Hbool; [|exact H0]; assumption.
      * (* EIf *)
        destruct (rbind_ok _ _ _ _ _ H0) as ([vc m] & E & H'). apply Hev in E; [subst m|assumption].
        destruct (as_bool vc) as [t| |]; cbn [rbind] in H'; try discriminate.
        destruct t; (eapply Hev; [|exact H']); assumption.
    + rewrite evals_S in H0. unfold evals_body in H0. destruct es as [|e r].
      * inversion H0; reflexivity.
      * cbn [forallb] in H. split_and. repeat pstep Hev Hevs. reflexivity.
    + rewrite cmp_chain_S in H0. unfold cmp_chain_body in H0.
      destruct ops as [|o ops'], args as [|e args']; try discriminate.
      * inversion H0; reflexivity.
      * cbn [forallb] in H. split_and.
        destruct (is_ordering o).
        -- destruct (as_num v) as [x| |]; cbn [rbind] in H0; try discriminate.
           destruct (rbind_ok _ _ _ _ _ H0) as ([w' m] & E & H'). apply Hev in E; [subst m|assumption].
           destruct (as_num w') as [y| |]; cbn [rbind] in H'; try discriminate.
           destruct (cmp_test N o x y); [|inversion H'; reflexivity].
           destruct ops'; [inversion H'; reflexivity|]. eapply Hcmp; [|exact H']; assumption.
        -- destruct (rbind_ok _ _ _ _ _ H0) as ([w' m] & E & H'). apply Hev in E; [subst m|assumption].
           destruct (value_eq N n mu v w') as [eq| |]; cbn [rbind] in H'; try discriminate.
           destruct (match o with CNe => negb eq | _ => eq end); [|inversion H'; reflexivity].
           destruct ops'; [inversion H'; reflexivity|]. eapply Hcmp; [|exact H']; assumption.
    + rewrite bool_chain_S in H0. unfold bool_chain_body in H0. destruct args as [|e r].
      * inversion H0; reflexivity.
      * cbn [forallb] in H. split_and.
        destruct (rbind_ok _ _ _ _ _ H0) as ([v' m] & E & H'). apply Hev in E; [subst m|assumption].
        destruct (as_bool v') as [b| |]; cbn [rbind] in H'; try discriminate.
        destruct (Bool.eqb b u); [|inversion H'; reflexivity].
        destruct r; [inversion H'; reflexivity|]. eapply Hbool; [|exact H']; assumption.
Qed.

Lemma eval_pure_store : forall n s mu C e v mu1,
  pure_na e = true -> eval N P n s mu C e = ROk (v, mu1) -> mu1 = mu.
Proof. intros n. destruct (pure_all n) as (K & _). exact K. Qed.

(* ---------------------------------------------------------------- frame *)
Definition okeeps (W : vars) (s : env) (o : outcome) : Prop :=
  match o with ONormal s' => keeps W s s' | OReturn _ => True end.

Definition frame_at (n : nat) : Prop :=
  (forall s mu C st o mu', exec N P n s mu C st = ROk (o, mu') -> okeeps (bound st) s o) /\
  (forall s mu C b o mu', exec_block N P n s mu C b = ROk (o, mu') -> okeeps (bound_block b) s o) /\
  (forall s mu C p l i body o mu', for_loop N P n s mu C p l i body = ROk (o, mu') ->
     okeeps (pvars p ++ bound_block body) s o).

Lemma okeeps_incl : forall W W' s o, okeeps W s o -> incl W W' -> okeeps W' s o.
Proof. intros W W' s [s'|v] H Hi; cbn in *; auto. eapply keeps_incl; eauto. Qed.

Lemma okeeps_trans : forall W1 W2 s s1 o, keeps W1 s s1 -> okeeps W2 s1 o -> okeeps (W1 ++ W2) s o.
Proof. intros W1 W2 s s1 [s'|v] H1 H2; cbn in *; auto. eapply keeps_trans; eauto. Qed.

Lemma frame_all : forall n, frame_at n.
Proof.
  induction n as [|n IH].
  - unfold frame_at. repeat split; intros; discriminate.
  - destruct IH as (Hex & Hexb & Hfor).
    unfold frame_at. repeat split; intros.
    + rewrite exec_S in H. unfold exec_body in H. destruct st; cbn [bound].
      * (* SAssign *)
        destruct (rbind_ok _ _ _ _ _ H) as ([v m] & E & H'). clear H.
        destruct (bind_pat p v s) as [s'|] eqn:B; cbn [lift rbind] in H'; try discriminate.
        inversion H'; subst. cbn. eapply bind_pat_keeps; eassumption.
      * (* SIndexAssign *)
        destruct (rbind_ok _ _ _ _ _ H) as ([v m] & E & H'). clear H.
        destruct (env_get s x); try discriminate.
        destruct (rbind_ok _ _ _ _ _ H') as (m2 & E2 & H''). inversion H''; subst. cbn. apply keeps_refl.
      * (* SIf1 *)
        destruct (rbind_ok _ _ _ _ _ H) as ([v m] & E & H'). clear H.
        destruct (as_bool v) as [t| |]; cbn [rbind] in H'; try discriminate.
        destruct t; [eapply Hexb; eassumption | inversion H'; subst; cbn; apply keeps_refl].
      * (* SIf *)
        destruct (rbind_ok _ _ _ _ _ H) as ([v m] & E & H'). clear H.
        destruct (as_bool v) as [t| |]; cbn [rbind] in H'; try discriminate.
        destruct t; (eapply okeeps_incl; [eapply Hexb; eassumption|]); intros z Hz; apply in_or_app; auto.
      * (* SWhile *)
        destruct (rbind_ok _ _ _ _ _ H) as ([v m] & E & H'). clear H.
        destruct (as_bool v) as [t| |]; cbn [rbind] in H'; try discriminate.
        destruct t; [|inversion H'; subst; cbn; apply keeps_refl].
        destruct (rbind_ok _ _ _ _ _ H') as ([o1 m1] & E1 & H''). clear H'.
        pose proof (Hexb _ _ _ _ _ _ E1) as K1.
        destruct o1 as [s1|v1]; [|inversion H''; subst; cbn; trivial].
        pose proof (Hex _ _ _ _ _ _ H'') as K2. cbn [bound] in K2.
        eapply okeeps_incl; [eapply okeeps_trans; [exact K1 | exact K2]|].
        intros z Hz. apply in_app_or in Hz. destruct Hz; assumption.
      * (* SFor *)
        destruct (rbind_ok _ _ _ _ _ H) as ([v m] & E & H'). clear H.
        destruct (as_list m v) as [[l vs]| |]; cbn [rbind] in H'; try discriminate.
        eapply Hfor; eassumption.
      * (* SContext *)
        destruct (rbind_ok _ _ _ _ _ H) as ([v m] & E & H'). clear H.
        destruct v; try discriminate.
        pose proof (Hexb _ _ _ _ _ _ H') as K.
        destruct x as [x|]; cbn [ovar].
        -- eapply (okeeps_trans [x]); [|exact K].
           intros z Hz. apply env_get_set_other. intro; subst; apply Hz; left; reflexivity.
        -- exact K.
      * (* SAssert *)
        destruct (rbind_ok _ _ _ _ _ H) as ([v m] & E & H'). clear H.
        destruct (as_bool v) as [t| |]; cbn [rbind] in H'; try discriminate.
        destruct t; [inversion H'; subst; cbn; apply keeps_refl | discriminate].
      * destruct (rbind_ok _ _ _ _ _ H) as ([v m] & E & H'). inversion H'; subst. cbn. apply keeps_refl.
      * destruct (rbind_ok _ _ _ _ _ H) as ([v m] & E & H'). inversion H'; subst. cbn. trivial.
      * inversion H; subst. cbn. apply keeps_refl.
    + rewrite exec_block_S in H. unfold exec_block_body in H. destruct b as [|st r].
      * inversion H; subst. cbn. apply keeps_refl.
      * destruct (rbind_ok _ _ _ _ _ H) as ([o1 m1] & E1 & H'). clear H.
        pose proof (Hex _ _ _ _ _ _ E1) as K1.
        destruct o1 as [s1|v1]; [|inversion H'; subst; cbn; trivial].
        pose proof (Hexb _ _ _ _ _ _ H') as K2.
        unfold bound_block. cbn [flat_map]. eapply okeeps_trans; eassumption.
    + rewrite for_loop_S in H. unfold for_loop_body in H.
      destruct (store_get mu l) as [vs|]; try discriminate.
      destruct (nth_error vs i) as [x|]; [|inversion H; subst; cbn; apply keeps_refl].
      destruct (bind_pat p x s) as [s1|] eqn:B; cbn [lift rbind] in H; try discriminate.
      destruct (rbind_ok _ _ _ _ _ H) as ([o1 m1] & E1 & H'). clear H.
      pose proof (bind_pat_keeps _ _ _ _ B) as K0.
      pose proof (Hexb _ _ _ _ _ _ E1) as K1.
      destruct o1 as [s2|v1]; [|inversion H'; subst; cbn; trivial].
      pose proof (Hfor _ _ _ _ _ _ _ _ _ H') as K2.
      cbn in K1. pose proof (keeps_trans _ _ _ _ _ K0 K1) as K01.
      eapply okeeps_incl; [eapply okeeps_trans; [exact K01 | exact K2]|].
      intros z Hz. apply in_app_or in Hz. destruct Hz; assumption.
Qed.

Lemma exec_frame : forall n s mu C st s' mu',
  exec N P n s mu C st = ROk (ONormal s', mu') -> keeps (bound st) s s'.
Proof. intros n s mu C st s' mu' H. destruct (frame_all n) as (K & _). apply (K _ _ _ _ _ _ H). Qed.

Lemma exec_block_frame : forall n s mu C b s' mu',
  exec_block N P n s mu C b = ROk (ONormal s', mu') -> keeps (bound_block b) s s'.
Proof. intros n s mu C b s' mu' H. destruct (frame_all n) as (_ & K & _). apply (K _ _ _ _ _ _ H). Qed.

Lemma for_loop_frame : forall n s mu C p l i body s' mu',
  for_loop N P n s mu C p l i body = ROk (ONormal s', mu') -> keeps (pvars p ++ bound_block body) s s'.
Proof. intros n s mu C p l i body s' mu' H. destruct (frame_all n) as (_ & _ & K). apply (K _ _ _ _ _ _ _ _ _ H). Qed.

End Eval.
