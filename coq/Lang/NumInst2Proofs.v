(* An arithmetic node of the documented semantics (Sem.v), run with the number
   instance `lead_numops`, IS `Num.Arith.arith` on its (dyadic) operand values
   under the context active at that node: the theorems of Props/C01.v and
   Props/C02.v (the value is the Flocq rounding of the exact result, one
   rounding) therefore speak about every such node of every program. *)
From Coq Require Import ZArith List Bool String.
From FpyV Require Import Num.RealFloat Num.Float Num.CtxDef Num.Ctx Num.Arith
  Lang.Syntax Lang.Values Lang.Sem Lang.SemMono Lang.NumInst Lang.NumInst2.
Import ListNotations.
Open Scope Z_scope.

Definition arith_res (a : aop) (C : ctx) (args : list fl) (mu : store) : res (value * store) :=
  match arith a C args with
  | Ok (v, _) => ROk (VNum (num_of_xv v), mu)
  | Err e => RErr e
  end.

Lemma arith_num_res : forall a C args mu,
  (mpfr_only a && is_real_ctx C) = false ->
  rbind (lift (arith_num a C args)) (fun r => ROk (VNum r, mu)) = arith_res a C args mu.
Proof.
  intros a C args mu H. unfold arith_num, arith_res. rewrite H.
  destruct (arith a C args) as [[v f]|e]; reflexivity.
Qed.

Lemma unop_node_is_arith : forall P n s mu C o a e x mu1,
  aop_of o = Some a -> o <> ORound -> o <> OCast -> (mpfr_only a && is_real_ctx C) = false ->
  eval lead_numops P n s mu C e = ROk (VNum (NF x), mu1) ->
  eval lead_numops P (S n) s mu C (EOp1 o e) = arith_res a C [x] mu1.
Proof.
  intros P n s mu C o a e x mu1 Ha Hr Hc Hm He.
  rewrite eval_S. unfold eval_body. rewrite He. cbn [rbind as_num n_unop lead_numops].
  rewrite <- (arith_num_res a C [x] mu1 Hm). unfold lead_unop.
  destruct o; try discriminate Ha; try congruence; cbn in Ha; inversion Ha; subst a; reflexivity.
Qed.

Lemma binop_node_is_arith : forall P n s mu C o a e1 e2 x y mu1 mu2,
  aop_of o = Some a -> (mpfr_only a && is_real_ctx C) = false ->
  eval lead_numops P n s mu C e1 = ROk (VNum (NF x), mu1) ->
  eval lead_numops P n s mu1 C e2 = ROk (VNum (NF y), mu2) ->
  eval lead_numops P (S n) s mu C (EOp2 o e1 e2) = arith_res a C [x; y] mu2.
Proof.
  intros P n s mu C o a e1 e2 x y mu1 mu2 Ha Hm H1 H2.
  rewrite eval_S. unfold eval_body. rewrite H1. cbn [rbind]. rewrite H2. cbn [rbind as_num n_binop lead_numops].
  rewrite <- (arith_num_res a C [x; y] mu2 Hm). unfold lead_binop. rewrite Ha. reflexivity.
Qed.

Lemma fma_node_is_arith : forall P n s mu C e1 e2 e3 x y z mu1 mu2 mu3,
  eval lead_numops P n s mu C e1 = ROk (VNum (NF x), mu1) ->
  eval lead_numops P n s mu1 C e2 = ROk (VNum (NF y), mu2) ->
  eval lead_numops P n s mu2 C e3 = ROk (VNum (NF z), mu3) ->
  eval lead_numops P (S n) s mu C (EOp3 OFma e1 e2 e3) = arith_res AFma C [x; y; z] mu3.
Proof.
  intros P n s mu C e1 e2 e3 x y z mu1 mu2 mu3 H1 H2 H3.
  rewrite eval_S. unfold eval_body. rewrite H1. cbn [rbind]. rewrite H2. cbn [rbind]. rewrite H3.
  cbn [rbind as_num n_ternop lead_numops lead_ternop].
  rewrite <- (arith_num_res AFma C [x; y; z] mu3 eq_refl). reflexivity.
Qed.

(* fp.round(e): the context's rounding operation itself *)
Lemma round_node_is_ctx_round : forall P n s mu C e x mu1,
  eval lead_numops P n s mu C e = ROk (VNum (NF x), mu1) ->
  eval lead_numops P (S n) s mu C (EOp1 ORound e) =
  match ctx_round0 C x with Ok (y, _) => ROk (VNum (NF y), mu1) | Err er => RErr er end.
Proof.
  intros P n s mu C e x mu1 He.
  rewrite eval_S. unfold eval_body. rewrite He. cbn [rbind as_num n_unop lead_numops lead_unop].
  unfold lead_round, round_xv, round_xv_rb, xv_of_num, ctx_round0.
  destruct (ctx_round C x None 0) as [[y f]|er]; reflexivity.
Qed.
