(* C19 — model of transform/utils.py SiteRewriter: the `where` contract.

   Definitions only.

   (1) `visit`/`run`: the generic walk over the candidates a pass considers,
       in visit order.  A candidate the pass refuses is recorded in `refused`
       and takes no index (ForUnroll._visit_for, BlockRewriter._visit_block,
       ...); any other candidate takes `site_idx` and is rewritten iff
       `_selects` (where is None or idx == where).  `check_site` rejects an
       index outside [0, site_idx).

   (2) `tvisit`/`trun`: the same walk over a statement tree, including the
       re-visiting of a rewritten loop's body (`_WhileUnroll._visit_while`
       visits the body `times + 1` times, which inflates `site_idx`). *)
From Coq Require Import ZArith List Bool.
From FpyV Require Import Cursor.Path.
Import ListNotations.
Open Scope Z_scope.

(* SiteRewriter._selects_at with no cursor target *)
Definition selects (w : option Z) (idx : Z) : bool :=
  match w with None => true | Some j => idx =? j end.

(* SiteRewriter.check_site, integer arm *)
Definition check_site (w : option Z) (site_idx : Z) : bool :=
  match w with None => true | Some j => (0 <=? j) && (j <? site_idx) end.

Section ListSites.
  Context {C : Type}.
  Variable refuses : C -> bool.

  Record wstate := WS { w_idx : Z; w_rewritten : list C; w_refused : list C }.

  (* one candidate: the shared shape of every `_visit_*` of a site rewriter *)
  Definition visit1 (w : option Z) (st : wstate) (c : C) : wstate :=
    if refuses c then WS (w_idx st) (w_rewritten st) (w_refused st ++ [c])
    else
      let idx := w_idx st in
      WS (idx + 1) (if selects w idx then w_rewritten st ++ [c] else w_rewritten st) (w_refused st).

  Definition visit (w : option Z) (cs : list C) : wstate :=
    fold_left (visit1 w) cs (WS 0 [] []).

  (* apply + check_site *)
  Definition run (w : option Z) (cs : list C) : res (list C) :=
    let st := visit w cs in
    if check_site w (w_idx st) then Ok (w_rewritten st) else Err RefErr.

  (* list_sites / list_refusals: the pass's own walk with where = None *)
  Definition list_sites (cs : list C) : list C := w_rewritten (visit None cs).
  Definition list_refusals (cs : list C) : list C := w_refused (visit None cs).
End ListSites.

(* ---- the walk over a statement tree, with re-visited bodies ---- *)
Section TreeSites.
  Variable cand : stmt -> bool.      (* structurally a candidate (e.g. a `while` loop) *)
  Variable refuses : stmt -> bool.   (* the pass refuses it *)
  Variable reps : nat.               (* extra visits of the blocks of a rewritten candidate *)

  Record tstate := TS { t_idx : Z; t_rewritten : list Z; t_refused : list Z }.

  Definition tvisit_list (f : tstate -> stmt -> tstate) :=
    fix go (ss : list stmt) (st : tstate) : tstate :=
      match ss with [] => st | s :: r => go r (f st s) end.

  Fixpoint repeat_visit (g : tstate -> tstate) (n : nat) (st : tstate) : tstate :=
    match n with O => st | S k => repeat_visit g k (g st) end.

  Fixpoint tvisit (w : option Z) (st : tstate) (s : stmt) {struct s} : tstate :=
    let blocks (st : tstate) : tstate :=
      match s with
      | SLeaf _ => st
      | SOne _ b => tvisit_list (tvisit w) b st
      | STwo _ a b => tvisit_list (tvisit w) b (tvisit_list (tvisit w) a st)
      end in
    if cand s then
      if refuses s then blocks (TS (t_idx st) (t_rewritten st) (t_refused st ++ [label s]))
      else
        let idx := t_idx st in
        if selects w idx then
          repeat_visit blocks (S reps) (TS (idx + 1) (t_rewritten st ++ [label s]) (t_refused st))
        else blocks (TS (idx + 1) (t_rewritten st) (t_refused st))
    else blocks st.

  Definition trun (w : option Z) (t : list stmt) : res (list Z) :=
    let st := tvisit_list (tvisit w) t (TS 0 [] []) in
    if check_site w (t_idx st) then Ok (t_rewritten st) else Err RefErr.

  (* what `sites` lists: stmt_sites over walk_stmts *)
  Definition tsites (t : list stmt) : list Z :=
    map (fun ps => label (snd ps))
        (filter (fun ps => cand (snd ps) && negb (refuses (snd ps))) (walk_stmts t)).
  Definition trefusals (t : list stmt) : list Z :=
    map (fun ps => label (snd ps))
        (filter (fun ps => cand (snd ps) && refuses (snd ps)) (walk_stmts t)).
End TreeSites.
