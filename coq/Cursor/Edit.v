(* C19 — model of cursor.Edit, cursor._overlaps, EditLog.__post_init__ and of
   what an edit log *means* (`apply`: the tree a pass that reports `es` must
   have produced from `t`).

   Definitions only.

   An edit is (block path, index, removed, inserted) in the old program's
   terms; the model carries the inserted statements themselves (`enew`) so
   that `apply` can be written; `eins` (what the code stores) is their count. *)
From Coq Require Import ZArith List Bool.
From FpyV Require Import Cursor.Path.
Import ListNotations.
Open Scope Z_scope.

Record edit := Edit { eb : bpath; ei : Z; erem : Z; enew : list stmt }.

Definition eins (e : edit) : Z := zlen (enew e).

(* Edit.__post_init__: index, removed, inserted >= 0 else ValueError *)
Definition edit_ok (e : edit) : bool := (0 <=? ei e) && (0 <=? erem e).

(* `i in e.span` with span = range(index, index + removed) *)
Definition in_span (i : Z) (e : edit) : bool := (ei e <=? i) && (i <? ei e + erem e).

(* cursor._overlaps *)
Definition overlaps (a b : edit) : bool :=
  if bpath_eqb (eb a) (eb b) then in_span (ei b) a || in_span (ei a) b
  else beneath_b (eb b) (eb a) (ei a) (ei a + erem a).

(* the double loop `for a in edits: for b in edits: if a is not b and _overlaps(a, b)`;
   identity = position in the list *)
Fixpoint pairwise (es : list edit) : bool :=
  match es with
  | [] => true
  | a :: r => forallb (fun b => negb (overlaps a b) && negb (overlaps b a)) r && pairwise r
  end.

(* EditLog.__post_init__ on the source tree `t`:
   resolve_block may raise (RefErr); an edit reaching past its block or two
   overlapping edits are a ValueError *)
Fixpoint bounds_ok (t : list stmt) (es : list edit) : res unit :=
  match es with
  | [] => Ok tt
  | e :: r =>
      match resolve_block t (eb e) with
      | Err x => Err x
      | Ok b => if ei e + erem e >? zlen b then Err ValErr else bounds_ok t r
      end
  end.

Definition log_check (t : list stmt) (es : list edit) : res unit :=
  match bounds_ok t es with
  | Err x => Err x
  | Ok _ => if pairwise es then Ok tt else Err ValErr
  end.

(* ---- what a log means ---- *)

(* statements emitted in front of old index i of block bp *)
Definition starts (es : list edit) (bp : bpath) (i : Z) : list stmt :=
  flat_map (fun e => if bpath_eqb (eb e) bp && (ei e =? i) then enew e else []) es.

(* old index i of block bp was consumed by some edit *)
Definition covered (es : list edit) (bp : bpath) (i : Z) : bool :=
  existsb (fun e => bpath_eqb (eb e) bp && in_span i e) es.

Definition splice (f : Z -> stmt -> stmt) (st : Z -> list stmt) (cov : Z -> bool) :=
  fix go (ss : list stmt) (i : Z) : list stmt :=
    match ss with
    | [] => st i
    | s :: r => st i ++ (if cov i then [] else [f i s]) ++ go r (i + 1)
    end.

(* a surviving statement keeps its label; the blocks it holds are rewritten
   by the edits recorded against *their* (old) paths *)
Fixpoint apply_stmt (es : list edit) (bp : bpath) (i : Z) (s : stmt) : stmt :=
  match s with
  | SLeaf l => SLeaf l
  | SOne l b =>
      let p := SubBlock bp i FBody in
      SOne l (splice (apply_stmt es p) (starts es p) (covered es p) b 0)
  | STwo l a b =>
      let p := SubBlock bp i FIft in
      let q := SubBlock bp i FIff in
      STwo l (splice (apply_stmt es p) (starts es p) (covered es p) a 0)
             (splice (apply_stmt es q) (starts es q) (covered es q) b 0)
  end.

Definition apply_blk (es : list edit) (bp : bpath) (ss : list stmt) : list stmt :=
  splice (apply_stmt es bp) (starts es bp) (covered es bp) ss 0.

Definition apply (es : list edit) (t : list stmt) : list stmt := apply_blk es FuncBody t.
