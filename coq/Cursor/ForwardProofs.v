(* C19 — proofs about cursor forwarding (model: Cursor/Path.v, Edit.v, Forward.v). *)
From Coq Require Import ZArith List Bool Lia.
From FpyV Require Import Cursor.Path Cursor.Edit Cursor.Forward.
Import ListNotations.
Open Scope Z_scope.

(* ------------------------------------------------------------------ basics *)

Lemma field_eqb_eq a b : field_eqb a b = true <-> a = b.
Proof. destruct a, b; simpl; split; intro H; try reflexivity; try discriminate. Qed.

Lemma bpath_eqb_eq a : forall b, bpath_eqb a b = true <-> a = b.
Proof.
  induction a as [|p IH i f]; intros [|q j g]; simpl; split; intro H;
    try reflexivity; try discriminate.
  - apply andb_true_iff in H as [H Hf]. apply andb_true_iff in H as [Hp Hi].
    apply IH in Hp. apply Z.eqb_eq in Hi. apply field_eqb_eq in Hf. subst. reflexivity.
  - inversion H; subst. apply andb_true_iff; split; [apply andb_true_iff; split|].
    + apply IH. reflexivity.
    + apply Z.eqb_refl.
    + apply field_eqb_eq. reflexivity.
Qed.

Lemma bpath_eqb_refl a : bpath_eqb a a = true.
Proof. apply bpath_eqb_eq. reflexivity. Qed.

Lemma bpath_eqb_sym a b : bpath_eqb a b = bpath_eqb b a.
Proof.
  destruct (bpath_eqb a b) eqn:E.
  - apply bpath_eqb_eq in E. subst. symmetry. apply bpath_eqb_refl.
  - destruct (bpath_eqb b a) eqn:E'; [|reflexivity].
    apply bpath_eqb_eq in E'. subst. rewrite bpath_eqb_refl in E. discriminate.
Qed.

Lemma zlen_app {A} (a b : list A) : zlen (a ++ b) = zlen a + zlen b.
Proof. unfold zlen. rewrite app_length. lia. Qed.

Lemma zlen_nonneg {A} (a : list A) : 0 <= zlen a.
Proof. unfold zlen. lia. Qed.

Lemma nthZ_app_r {A} (pre l : list A) i :
  0 <= i -> nthZ (zlen pre + i) (pre ++ l) = nthZ i l.
Proof.
  intros Hi. unfold nthZ, zlen.
  destruct (Z.ltb_spec (Z.of_nat (length pre) + i) 0); [lia|].
  destruct (Z.ltb_spec i 0); [lia|].
  replace (Z.to_nat (Z.of_nat (length pre) + i)) with (length pre + Z.to_nat i)%nat by lia.
  rewrite nth_error_app2 by lia. f_equal. lia.
Qed.

(* ------------------------------------------------------------------ sums over a log *)

Definition sumZ (f : edit -> Z) (es : list edit) : Z := fold_right (fun e acc => f e + acc) 0 es.

Lemma sumZ_ext f g es : (forall e, In e es -> f e = g e) -> sumZ f es = sumZ g es.
Proof.
  induction es as [|a r IH]; simpl; intros H; [reflexivity|].
  rewrite (H a) by (left; reflexivity). rewrite IH; [reflexivity|].
  intros e He. apply H. right. exact He.
Qed.

Lemma sumZ_add f g es : sumZ (fun e => f e + g e) es = sumZ f es + sumZ g es.
Proof. induction es as [|a r IH]; simpl; [reflexivity|]. rewrite IH. lia. Qed.

Lemma sumZ_sub f g es : sumZ (fun e => f e - g e) es = sumZ f es - sumZ g es.
Proof. induction es as [|a r IH]; simpl; [reflexivity|]. rewrite IH. lia. Qed.

(* the accumulated shift and the containing edit, as closed forms of `scan` *)
Definition shift_term (q : bpath) (i : Z) (e : edit) : Z :=
  if bpath_eqb (eb e) q && (ei e + erem e <=? i) then eins e - erem e else 0.

Definition shiftsum (es : list edit) (q : bpath) (i : Z) : Z := sumZ (shift_term q i) es.

Definition contains_b (q : bpath) (i : Z) (e : edit) : bool := bpath_eqb (eb e) q && in_span i e.

Fixpoint lastc (es : list edit) (q : bpath) (i : Z) : option edit :=
  match es with
  | [] => None
  | e :: r => match lastc r q i with
              | Some x => Some x
              | None => if contains_b q i e then Some e else None
              end
  end.

Lemma scan_gen es q i : forall a c,
  fold_left (scan_step q i) es (a, c) =
  (a + shiftsum es q i, match lastc es q i with Some x => Some x | None => c end).
Proof.
  induction es as [|e r IH]; intros a c.
  - simpl. unfold shiftsum. simpl. rewrite Z.add_0_r. reflexivity.
  - simpl fold_left. simpl lastc.
    assert (Hs : shiftsum (e :: r) q i = shift_term q i e + shiftsum r q i) by reflexivity.
    rewrite Hs. unfold scan_step at 2. unfold shift_term, contains_b, in_span. simpl fst. simpl snd.
    destruct (bpath_eqb (eb e) q) eqn:Eq; simpl negb; cbv iota; simpl andb.
    + destruct (Z.geb_spec i (ei e + erem e)) as [H|H].
      * rewrite IH.
        destruct (Z.leb_spec (ei e + erem e) i); [|lia].
        destruct (Z.ltb_spec i (ei e + erem e)); [lia|]. rewrite andb_false_r.
        apply pair_equal_spec. split; [lia|]. destruct (lastc r q i); reflexivity.
      * destruct (Z.leb_spec (ei e + erem e) i); [lia|].
        destruct (Z.ltb_spec i (ei e + erem e)); [|lia]. rewrite andb_true_r.
        destruct (Z.geb_spec i (ei e)) as [H2|H2].
        -- rewrite IH. destruct (Z.leb_spec (ei e) i); [|lia].
           apply pair_equal_spec. split; [lia|]. destruct (lastc r q i); reflexivity.
        -- rewrite IH. destruct (Z.leb_spec (ei e) i); [lia|].
           apply pair_equal_spec. split; [lia|]. destruct (lastc r q i); reflexivity.
    + rewrite IH. apply pair_equal_spec. split; [lia|]. destruct (lastc r q i); reflexivity.
Qed.

Lemma scan_spec es q i : scan es q i = (shiftsum es q i, lastc es q i).
Proof. unfold scan. rewrite scan_gen. simpl. destruct (lastc es q i); reflexivity. Qed.

Lemma lastc_some es q i e : lastc es q i = Some e -> In e es /\ contains_b q i e = true.
Proof.
  induction es as [|a r IH]; simpl; [discriminate|].
  destruct (lastc r q i) eqn:E.
  - intros H; inversion H; subst. destruct (IH eq_refl) as [H1 H2]. split; [right|]; assumption.
  - destruct (contains_b q i a) eqn:Ec; [|discriminate].
    intros H; inversion H; subst. split; [left; reflexivity|exact Ec].
Qed.

Lemma lastc_none es q i : lastc es q i = None -> covered es q i = false.
Proof.
  induction es as [|a r IH]; simpl; [reflexivity|].
  destruct (lastc r q i) eqn:E; [discriminate|].
  destruct (contains_b q i a) eqn:Ec; [discriminate|]. intros _.
  unfold contains_b in Ec. rewrite Ec. simpl. apply IH. reflexivity.
Qed.

Lemma covered_false es q i e : covered es q i = false -> In e es -> contains_b q i e = false.
Proof.
  unfold covered. intros H He.
  destruct (contains_b q i e) eqn:Ec; [|reflexivity].
  assert (existsb (fun e => bpath_eqb (eb e) q && in_span i e) es = true).
  { apply existsb_exists. exists e. split; assumption. }
  congruence.
Qed.

(* ------------------------------------------------------------------ splice *)

Fixpoint offZ (st : Z -> list stmt) (cov : Z -> bool) (i0 : Z) (k : nat) : Z :=
  match k with
  | O => 0
  | S k' => zlen (st i0) + (if cov i0 then 0 else 1) + offZ st cov (i0 + 1) k'
  end.

Lemma offZ_snoc st cov k : forall i0,
  offZ st cov i0 (S k) = offZ st cov i0 k + zlen (st (i0 + Z.of_nat k)) + (if cov (i0 + Z.of_nat k) then 0 else 1).
Proof.
  induction k as [|k IH]; intros i0.
  - simpl. replace (i0 + 0) with i0 by lia. lia.
  - change (offZ st cov i0 (S (S k))) with
      (zlen (st i0) + (if cov i0 then 0 else 1) + offZ st cov (i0 + 1) (S k)).
    rewrite IH. simpl offZ.
    replace (i0 + 1 + Z.of_nat k) with (i0 + Z.of_nat (S k)) by lia. lia.
Qed.

Lemma splice_decomp f st cov : forall ss i0 k s,
  nth_error ss k = Some s ->
  exists pre post,
    splice f st cov ss i0 =
      pre ++ st (i0 + Z.of_nat k) ++ (if cov (i0 + Z.of_nat k) then [] else [f (i0 + Z.of_nat k) s]) ++ post
    /\ zlen pre = offZ st cov i0 k.
Proof.
  induction ss as [|a r IH]; intros i0 k s H.
  - destruct k; discriminate.
  - destruct k as [|k]; simpl in H.
    + inversion H; subst. exists [], (splice f st cov r (i0 + 1)). simpl.
      replace (i0 + 0) with i0 by lia. split; reflexivity.
    + destruct (IH (i0 + 1) k s H) as (pre & post & E & L).
      exists (st i0 ++ (if cov i0 then [] else [f i0 a]) ++ pre), post.
      simpl splice. rewrite E.
      replace (i0 + 1 + Z.of_nat k) with (i0 + Z.of_nat (S k)) by lia.
      split.
      * rewrite <- !app_assoc. reflexivity.
      * rewrite !zlen_app, L.
        change (offZ st cov i0 (S k)) with
          (zlen (st i0) + (if cov i0 then 0 else 1) + offZ st cov (i0 + 1) k).
        destruct (cov i0); [change (zlen (@nil stmt)) with 0|change (zlen [f i0 a]) with 1]; lia.
Qed.

(* ------------------------------------------------------------------ the arithmetic of one block *)

Definition edits_ok (es : list edit) : Prop := forall e, In e es -> edit_ok e = true.

Definition clamp (x r : Z) : Z := Z.max 0 (Z.min x r).

Definition g_term (bp : bpath) (k : Z) (e : edit) : Z :=
  if bpath_eqb (eb e) bp then (if ei e <? k then eins e else 0) - clamp (k - ei e) (erem e) else 0.

Definition start_term (bp : bpath) (k : Z) (e : edit) : Z :=
  if bpath_eqb (eb e) bp && (ei e =? k) then eins e else 0.

Definition cov_term (bp : bpath) (k : Z) (e : edit) : Z :=
  if contains_b bp k e then 1 else 0.

Lemma zlen_starts es bp k : zlen (starts es bp k) = sumZ (start_term bp k) es.
Proof.
  unfold starts. induction es as [|a r IH]; simpl; [reflexivity|].
  rewrite zlen_app, IH. unfold start_term at 2, eins.
  destruct (bpath_eqb (eb a) bp && (ei a =? k)); reflexivity.
Qed.

Lemma edit_ok_ge e : edit_ok e = true -> 0 <= ei e /\ 0 <= erem e.
Proof. unfold edit_ok. intros H. apply andb_true_iff in H as [H1 H2]. lia. Qed.

Lemma eins_nonneg e : 0 <= eins e.
Proof. apply zlen_nonneg. Qed.

(* two edits of one block that both consume index k overlap *)
Lemma both_contain_overlap bp k a b :
  contains_b bp k a = true -> contains_b bp k b = true -> overlaps a b = true.
Proof.
  unfold contains_b, overlaps, in_span. intros Ha Hb.
  apply andb_true_iff in Ha as [Ea Ha]. apply andb_true_iff in Hb as [Eb Hb].
  apply bpath_eqb_eq in Ea. apply bpath_eqb_eq in Eb. rewrite Ea, Eb, bpath_eqb_refl.
  apply andb_true_iff in Ha as [Ha1 Ha2]. apply andb_true_iff in Hb as [Hb1 Hb2].
  apply orb_true_iff.
  destruct (Z.le_gt_cases (ei a) (ei b)).
  - left. apply andb_true_iff. split; lia.
  - right. apply andb_true_iff. split; lia.
Qed.

Lemma count_span es bp k :
  pairwise es = true ->
  sumZ (cov_term bp k) es = if covered es bp k then 1 else 0.
Proof.
  induction es as [|a r IH]; simpl; intros Hp; [reflexivity|].
  apply andb_true_iff in Hp as [Ha Hr]. rewrite (IH Hr).
  unfold cov_term at 1. fold (contains_b bp k a).
  destruct (contains_b bp k a) eqn:Ea; simpl; [|reflexivity].
  replace (covered r bp k) with false; [reflexivity|].
  symmetry. destruct (covered r bp k) eqn:Ec; [|reflexivity].
  unfold covered in Ec. apply existsb_exists in Ec as (b & Hb & Hcb).
  fold (contains_b bp k b) in Hcb.
  rewrite forallb_forall in Ha. specialize (Ha b Hb).
  rewrite (both_contain_overlap bp k a b Ea Hcb) in Ha. discriminate.
Qed.

Lemma g_step es bp k :
  edits_ok es -> 0 <= k ->
  sumZ (g_term bp (k + 1)) es =
  sumZ (g_term bp k) es + sumZ (start_term bp k) es - sumZ (cov_term bp k) es.
Proof.
  intros Hok Hk. rewrite <- sumZ_add, <- sumZ_sub. apply sumZ_ext. intros e He.
  destruct (edit_ok_ge e (Hok e He)) as [Hi Hr].
  unfold g_term, start_term, cov_term, contains_b, in_span, clamp.
  destruct (bpath_eqb (eb e) bp); simpl; [|reflexivity].
  destruct (Z.ltb_spec (ei e) (k + 1)), (Z.ltb_spec (ei e) k), (Z.eqb_spec (ei e) k),
    (Z.leb_spec (ei e) k), (Z.ltb_spec k (ei e + erem e)); simpl; lia.
Qed.

Lemma g_zero es bp : edits_ok es -> sumZ (g_term bp 0) es = 0.
Proof.
  intros Hok. induction es as [|a r IH]; simpl; [reflexivity|].
  rewrite IH by (intros e He; apply Hok; right; exact He).
  destruct (edit_ok_ge a (Hok a (or_introl eq_refl))) as [Hi Hr].
  unfold g_term, clamp. destruct (bpath_eqb (eb a) bp); [|reflexivity].
  destruct (Z.ltb_spec (ei a) 0); lia.
Qed.

Lemma off_G es bp : edits_ok es -> pairwise es = true -> forall k : nat,
  offZ (starts es bp) (covered es bp) 0 k = Z.of_nat k + sumZ (g_term bp (Z.of_nat k)) es.
Proof.
  intros Hok Hp. induction k as [|k IH].
  - simpl. rewrite g_zero by assumption. reflexivity.
  - rewrite offZ_snoc, IH. replace (Z.of_nat (S k)) with (Z.of_nat k + 1) by lia.
    rewrite g_step by (assumption || lia). rewrite count_span by assumption.
    rewrite zlen_starts. simpl. destruct (covered es bp (Z.of_nat k)); lia.
Qed.

(* an index no edit consumed lands at index + shift *)
Lemma untouched_pos es bp k :
  edits_ok es -> pairwise es = true -> 0 <= k -> covered es bp k = false ->
  offZ (starts es bp) (covered es bp) 0 (Z.to_nat k) + zlen (starts es bp k) = k + shiftsum es bp k.
Proof.
  intros Hok Hp Hk Hc. rewrite off_G by assumption. rewrite Z2Nat.id by assumption.
  rewrite zlen_starts. unfold shiftsum.
  rewrite <- Z.add_assoc. f_equal. rewrite <- sumZ_add. apply sumZ_ext. intros e He.
  destruct (edit_ok_ge e (Hok e He)) as [Hi Hr].
  pose proof (covered_false es bp k e Hc He) as Hn.
  unfold g_term, start_term, shift_term, clamp. unfold contains_b, in_span in Hn.
  destruct (bpath_eqb (eb e) bp); simpl in *; [|reflexivity].
  destruct (Z.ltb_spec (ei e) k), (Z.eqb_spec (ei e) k), (Z.leb_spec (ei e + erem e) k),
    (Z.leb_spec (ei e) k), (Z.ltb_spec k (ei e + erem e)); simpl in *; try discriminate; lia.
Qed.

Lemma pairwise_in es a b :
  pairwise es = true -> In a es -> In b es ->
  a = b \/ (overlaps a b = false /\ overlaps b a = false).
Proof.
  induction es as [|x r IH]; simpl; intros Hp Ha Hb; [contradiction|].
  apply andb_true_iff in Hp as [Hx Hr]. rewrite forallb_forall in Hx.
  destruct Ha as [Ha|Ha], Hb as [Hb|Hb]; subst.
  - left. reflexivity.
  - right. specialize (Hx b Hb). apply andb_true_iff in Hx as [H1 H2].
    apply negb_true_iff in H1. apply negb_true_iff in H2. split; assumption.
  - right. specialize (Hx a Ha). apply andb_true_iff in Hx as [H1 H2].
    apply negb_true_iff in H1. apply negb_true_iff in H2. split; assumption.
  - apply IH; assumption.
Qed.

(* an index consumed by e0 lands at the start of e0's replacement *)
Lemma replaced_pos es bp k e0 :
  edits_ok es -> pairwise es = true -> In e0 es -> contains_b bp k e0 = true ->
  offZ (starts es bp) (covered es bp) 0 (Z.to_nat (ei e0)) = ei e0 + shiftsum es bp k.
Proof.
  intros Hok Hp H0 Hc. rewrite off_G by assumption.
  destruct (edit_ok_ge e0 (Hok e0 H0)) as [Hi0 Hr0].
  rewrite Z2Nat.id by assumption. f_equal. unfold shiftsum. apply sumZ_ext. intros e He.
  destruct (edit_ok_ge e (Hok e He)) as [Hi Hr].
  unfold contains_b, in_span in Hc. apply andb_true_iff in Hc as [Eb0 Hs0].
  apply andb_true_iff in Hs0 as [Hs1 Hs2]. apply bpath_eqb_eq in Eb0.
  unfold g_term, shift_term, clamp.
  destruct (bpath_eqb (eb e) bp) eqn:Eb; simpl; [|reflexivity].
  apply bpath_eqb_eq in Eb.
  destruct (pairwise_in es e e0 Hp He H0) as [->|[O1 O2]].
  - destruct (Z.ltb_spec (ei e0) (ei e0)), (Z.leb_spec (ei e0 + erem e0) k); lia.
  - unfold overlaps, in_span in O1, O2. rewrite Eb, Eb0, bpath_eqb_refl in O1, O2.
    apply orb_false_iff in O1 as [O1a O1b]. apply orb_false_iff in O2 as [O2a O2b].
    destruct (Z.ltb_spec (ei e) (ei e0)), (Z.leb_spec (ei e + erem e) k),
      (Z.leb_spec (ei e) (ei e0)), (Z.ltb_spec (ei e0) (ei e + erem e)),
      (Z.leb_spec (ei e0) (ei e)), (Z.ltb_spec (ei e) (ei e0 + erem e0));
      simpl in *; try discriminate; lia.
Qed.

Lemma flat_map_nil {A B} (f : A -> list B) l : (forall a, In a l -> f a = []) -> flat_map f l = [].
Proof.
  induction l as [|a r IH]; simpl; intros H; [reflexivity|].
  rewrite (H a) by (left; reflexivity). simpl. apply IH. intros x Hx. apply H. right. exact Hx.
Qed.

Lemma starts_of_replacement es bp k e0 :
  pairwise es = true -> In e0 es -> contains_b bp k e0 = true ->
  starts es bp (ei e0) = enew e0.
Proof.
  intros Hp H0 Hc.
  assert (Hself : contains_b bp (ei e0) e0 = true).
  { unfold contains_b, in_span in *. apply andb_true_iff in Hc as [E Hs].
    apply andb_true_iff in Hs as [H1 H2]. rewrite E. simpl. apply andb_true_iff. split; lia. }
  assert (Hov : overlaps e0 e0 = true) by (apply (both_contain_overlap bp (ei e0)); assumption).
  assert (Hst0 : bpath_eqb (eb e0) bp && (ei e0 =? ei e0) = true).
  { unfold contains_b in Hself. apply andb_true_iff in Hself as [E0 _]. rewrite E0, Z.eqb_refl. reflexivity. }
  assert (Hother : forall e, In e es -> e = e0 \/
            (bpath_eqb (eb e) bp && (ei e =? ei e0)) = false).
  { intros e He. destruct (pairwise_in es e0 e Hp H0 He) as [->|[O1 O2]]; [left; reflexivity|].
    right. destruct (bpath_eqb (eb e) bp && (ei e =? ei e0)) eqn:E; [|reflexivity].
    apply andb_true_iff in E as [E1 E2]. apply Z.eqb_eq in E2. apply bpath_eqb_eq in E1.
    unfold contains_b in Hself. apply andb_true_iff in Hself as [E0 Hs]. apply bpath_eqb_eq in E0.
    unfold overlaps in O1. rewrite E0, E1, bpath_eqb_refl in O1.
    apply orb_false_iff in O1 as [O1 _]. rewrite E2 in O1. congruence. }
  clear Hc Hself. unfold starts.
  induction es as [|a r IH]; [contradiction|].
  simpl in Hp. apply andb_true_iff in Hp as [Ha Hr]. rewrite forallb_forall in Ha.
  simpl flat_map.
  destruct (Hother a (or_introl eq_refl)) as [->|Hna].
  - rewrite Hst0.
    rewrite flat_map_nil; [apply app_nil_r|].
    intros e He. destruct (Hother e (or_intror He)) as [->|Hne].
    + specialize (Ha e0 He). rewrite Hov in Ha. discriminate.
    + rewrite Hne. reflexivity.
  - rewrite Hna. simpl. apply IH.
    + exact Hr.
    + destruct H0 as [->|H0]; [rewrite Hst0 in Hna; discriminate|exact H0].
    + intros e He. apply Hother. right. exact He.
Qed.
