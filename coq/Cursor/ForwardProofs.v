(* C19 — proofs about cursor forwarding (model: Cursor/Path.v, Edit.v, Forward.v). *)
From Coq Require Import ZArith List Bool Lia.
From FpyV Require Import Cursor.Path Cursor.Edit Cursor.Forward.
Import ListNotations.
Open Scope Z_scope.

(* ------------------------------------------------------------------ basics *)

Lemma field_eqb_eq a b : field_eqb a b = true <-> a = b.
Proof. destruct a, b; simpl; split; intro H; try reflexivity; try discriminate. Qed.

Lemma bpath_eqb_eq a : forall b, bpath_eqb a b = true <-> a = b.
Proof.
  induction a as [|p IH i f]; intros [|q j g]; simpl; split; intro H;
    try reflexivity; try discriminate.
  - apply andb_true_iff in H as [H Hf]. apply andb_true_iff in H as [Hp Hi].
    apply IH in Hp. apply Z.eqb_eq in Hi. apply field_eqb_eq in Hf. subst. reflexivity.
  - inversion H; subst. apply andb_true_iff; split; [apply andb_true_iff; split|].
    + apply IH. reflexivity.
    + apply Z.eqb_refl.
    + apply field_eqb_eq. reflexivity.
Qed.

Lemma bpath_eqb_refl a : bpath_eqb a a = true.
Proof. apply bpath_eqb_eq. reflexivity. Qed.

Lemma bpath_eqb_sym a b : bpath_eqb a b = bpath_eqb b a.
Proof.
  destruct (bpath_eqb a b) eqn:E.
  - apply bpath_eqb_eq in E. subst. symmetry. apply bpath_eqb_refl.
  - destruct (bpath_eqb b a) eqn:E'; [|reflexivity].
    apply bpath_eqb_eq in E'. subst. rewrite bpath_eqb_refl in E. discriminate.
Qed.

Lemma zlen_app {A} (a b : list A) : zlen (a ++ b) = zlen a + zlen b.
Proof. unfold zlen. rewrite app_length. lia. Qed.

Lemma zlen_nonneg {A} (a : list A) : 0 <= zlen a.
Proof. unfold zlen. lia. Qed.

Lemma nthZ_app_r {A} (pre l : list A) i :
  0 <= i -> nthZ (zlen pre + i) (pre ++ l) = nthZ i l.
Proof.
  intros Hi. unfold nthZ, zlen.
  destruct (Z.ltb_spec (Z.of_nat (length pre) + i) 0); [lia|].
  destruct (Z.ltb_spec i 0); [lia|].
  replace (Z.to_nat (Z.of_nat (length pre) + i)) with (length pre + Z.to_nat i)%nat by lia.
  rewrite nth_error_app2 by lia. f_equal. lia.
Qed.

(* ------------------------------------------------------------------ sums over a log *)

Definition sumZ (f : edit -> Z) (es : list edit) : Z := fold_right (fun e acc => f e + acc) 0 es.

Lemma sumZ_ext f g es : (forall e, In e es -> f e = g e) -> sumZ f es = sumZ g es.
Proof.
  induction es as [|a r IH]; simpl; intros H; [reflexivity|].
  rewrite (H a) by (left; reflexivity). rewrite IH; [reflexivity|].
  intros e He. apply H. right. exact He.
Qed.

Lemma sumZ_add f g es : sumZ (fun e => f e + g e) es = sumZ f es + sumZ g es.
Proof. induction es as [|a r IH]; simpl; [reflexivity|]. rewrite IH. lia. Qed.

Lemma sumZ_sub f g es : sumZ (fun e => f e - g e) es = sumZ f es - sumZ g es.
Proof. induction es as [|a r IH]; simpl; [reflexivity|]. rewrite IH. lia. Qed.

(* the accumulated shift and the containing edit, as closed forms of `scan` *)
Definition shift_term (q : bpath) (i : Z) (e : edit) : Z :=
  if bpath_eqb (eb e) q && (ei e + erem e <=? i) then eins e - erem e else 0.

Definition shiftsum (es : list edit) (q : bpath) (i : Z) : Z := sumZ (shift_term q i) es.

Definition contains_b (q : bpath) (i : Z) (e : edit) : bool := bpath_eqb (eb e) q && in_span i e.

Fixpoint lastc (es : list edit) (q : bpath) (i : Z) : option edit :=
  match es with
  | [] => None
  | e :: r => match lastc r q i with
              | Some x => Some x
              | None => if contains_b q i e then Some e else None
              end
  end.

Lemma scan_gen es q i : forall a c,
  fold_left (scan_step q i) es (a, c) =
  (a + shiftsum es q i, match lastc es q i with Some x => Some x | None => c end).
Proof.
  induction es as [|e r IH]; intros a c.
  - simpl. unfold shiftsum. simpl. rewrite Z.add_0_r. reflexivity.
  - simpl fold_left. simpl lastc.
    assert (Hs : shiftsum (e :: r) q i = shift_term q i e + shiftsum r q i) by reflexivity.
    rewrite Hs. unfold scan_step at 2. unfold shift_term, contains_b, in_span. simpl fst. simpl snd.
    destruct (bpath_eqb (eb e) q) eqn:Eq; simpl negb; cbv iota; simpl andb.
    + destruct (Z.geb_spec i (ei e + erem e)) as [H|H].
      * rewrite IH.
        destruct (Z.leb_spec (ei e + erem e) i); [|lia].
        destruct (Z.ltb_spec i (ei e + erem e)); [lia|]. rewrite andb_false_r.
        apply pair_equal_spec. split; [lia|]. destruct (lastc r q i); reflexivity.
      * destruct (Z.leb_spec (ei e + erem e) i); [lia|].
        destruct (Z.ltb_spec i (ei e + erem e)); [|lia]. rewrite andb_true_r.
        destruct (Z.geb_spec i (ei e)) as [H2|H2].
        -- rewrite IH. destruct (Z.leb_spec (ei e) i); [|lia].
           apply pair_equal_spec. split; [lia|]. destruct (lastc r q i); reflexivity.
        -- rewrite IH. destruct (Z.leb_spec (ei e) i); [lia|].
           apply pair_equal_spec. split; [lia|]. destruct (lastc r q i); reflexivity.
    + rewrite IH. apply pair_equal_spec. split; [lia|]. destruct (lastc r q i); reflexivity.
Qed.

Lemma scan_spec es q i : scan es q i = (shiftsum es q i, lastc es q i).
Proof. unfold scan. rewrite scan_gen. simpl. destruct (lastc es q i); reflexivity. Qed.

Lemma lastc_some es q i e : lastc es q i = Some e -> In e es /\ contains_b q i e = true.
Proof.
  induction es as [|a r IH]; simpl; [discriminate|].
  destruct (lastc r q i) eqn:E.
  - intros H; inversion H; subst. destruct (IH eq_refl) as [H1 H2]. split; [right|]; assumption.
  - destruct (contains_b q i a) eqn:Ec; [|discriminate].
    intros H; inversion H; subst. split; [left; reflexivity|exact Ec].
Qed.

Lemma lastc_none es q i : lastc es q i = None -> covered es q i = false.
Proof.
  induction es as [|a r IH]; simpl; [reflexivity|].
  destruct (lastc r q i) eqn:E; [discriminate|].
  destruct (contains_b q i a) eqn:Ec; [discriminate|]. intros _.
  unfold contains_b in Ec. rewrite Ec. simpl. apply IH. reflexivity.
Qed.

Lemma covered_false es q i e : covered es q i = false -> In e es -> contains_b q i e = false.
Proof.
  unfold covered. intros H He.
  destruct (contains_b q i e) eqn:Ec; [|reflexivity].
  assert (existsb (fun e => bpath_eqb (eb e) q && in_span i e) es = true).
  { apply existsb_exists. exists e. split; assumption. }
  congruence.
Qed.

(* ------------------------------------------------------------------ splice *)

Fixpoint offZ (st : Z -> list stmt) (cov : Z -> bool) (i0 : Z) (k : nat) : Z :=
  match k with
  | O => 0
  | S k' => zlen (st i0) + (if cov i0 then 0 else 1) + offZ st cov (i0 + 1) k'
  end.

Lemma offZ_snoc st cov k : forall i0,
  offZ st cov i0 (S k) = offZ st cov i0 k + zlen (st (i0 + Z.of_nat k)) + (if cov (i0 + Z.of_nat k) then 0 else 1).
Proof.
  induction k as [|k IH]; intros i0.
  - simpl. replace (i0 + 0) with i0 by lia. lia.
  - change (offZ st cov i0 (S (S k))) with
      (zlen (st i0) + (if cov i0 then 0 else 1) + offZ st cov (i0 + 1) (S k)).
    rewrite IH. simpl offZ.
    replace (i0 + 1 + Z.of_nat k) with (i0 + Z.of_nat (S k)) by lia. lia.
Qed.

Lemma splice_decomp f st cov : forall ss i0 k s,
  nth_error ss k = Some s ->
  exists pre post,
    splice f st cov ss i0 =
      pre ++ st (i0 + Z.of_nat k) ++ (if cov (i0 + Z.of_nat k) then [] else [f (i0 + Z.of_nat k) s]) ++ post
    /\ zlen pre = offZ st cov i0 k.
Proof.
  induction ss as [|a r IH]; intros i0 k s H.
  - destruct k; discriminate.
  - destruct k as [|k]; simpl in H.
    + inversion H; subst. exists [], (splice f st cov r (i0 + 1)). simpl.
      replace (i0 + 0) with i0 by lia. split; reflexivity.
    + destruct (IH (i0 + 1) k s H) as (pre & post & E & L).
      exists (st i0 ++ (if cov i0 then [] else [f i0 a]) ++ pre), post.
      simpl splice. rewrite E.
      replace (i0 + 1 + Z.of_nat k) with (i0 + Z.of_nat (S k)) by lia.
      split.
      * rewrite <- !app_assoc. reflexivity.
      * rewrite !zlen_app, L.
        change (offZ st cov i0 (S k)) with
          (zlen (st i0) + (if cov i0 then 0 else 1) + offZ st cov (i0 + 1) k).
        destruct (cov i0); [change (zlen (@nil stmt)) with 0|change (zlen [f i0 a]) with 1]; lia.
Qed.

(* ------------------------------------------------------------------ the arithmetic of one block *)

Definition edits_ok (es : list edit) : Prop := forall e, In e es -> edit_ok e = true.

Definition clamp (x r : Z) : Z := Z.max 0 (Z.min x r).

Definition g_term (bp : bpath) (k : Z) (e : edit) : Z :=
  if bpath_eqb (eb e) bp then (if ei e <? k then eins e else 0) - clamp (k - ei e) (erem e) else 0.

Definition start_term (bp : bpath) (k : Z) (e : edit) : Z :=
  if bpath_eqb (eb e) bp && (ei e =? k) then eins e else 0.

Definition cov_term (bp : bpath) (k : Z) (e : edit) : Z :=
  if contains_b bp k e then 1 else 0.

Lemma zlen_starts es bp k : zlen (starts es bp k) = sumZ (start_term bp k) es.
Proof.
  unfold starts. induction es as [|a r IH]; simpl; [reflexivity|].
  rewrite zlen_app, IH. unfold start_term at 2, eins.
  destruct (bpath_eqb (eb a) bp && (ei a =? k)); reflexivity.
Qed.

Lemma edit_ok_ge e : edit_ok e = true -> 0 <= ei e /\ 0 <= erem e.
Proof. unfold edit_ok. intros H. apply andb_true_iff in H as [H1 H2]. lia. Qed.

Lemma eins_nonneg e : 0 <= eins e.
Proof. apply zlen_nonneg. Qed.

(* two edits of one block that both consume index k overlap *)
Lemma both_contain_overlap bp k a b :
  contains_b bp k a = true -> contains_b bp k b = true -> overlaps a b = true.
Proof.
  unfold contains_b, overlaps, in_span. intros Ha Hb.
  apply andb_true_iff in Ha as [Ea Ha]. apply andb_true_iff in Hb as [Eb Hb].
  apply bpath_eqb_eq in Ea. apply bpath_eqb_eq in Eb. rewrite Ea, Eb, bpath_eqb_refl.
  apply andb_true_iff in Ha as [Ha1 Ha2]. apply andb_true_iff in Hb as [Hb1 Hb2].
  apply orb_true_iff.
  destruct (Z.le_gt_cases (ei a) (ei b)).
  - left. apply andb_true_iff. split; lia.
  - right. apply andb_true_iff. split; lia.
Qed.

Lemma count_span es bp k :
  pairwise es = true ->
  sumZ (cov_term bp k) es = if covered es bp k then 1 else 0.
Proof.
  induction es as [|a r IH]; simpl; intros Hp; [reflexivity|].
  apply andb_true_iff in Hp as [Ha Hr]. rewrite (IH Hr).
  unfold cov_term at 1. fold (contains_b bp k a).
  destruct (contains_b bp k a) eqn:Ea; simpl; [|reflexivity].
  replace (covered r bp k) with false; [reflexivity|].
  symmetry. destruct (covered r bp k) eqn:Ec; [|reflexivity].
  unfold covered in Ec. apply existsb_exists in Ec as (b & Hb & Hcb).
  fold (contains_b bp k b) in Hcb.
  rewrite forallb_forall in Ha. specialize (Ha b Hb).
  rewrite (both_contain_overlap bp k a b Ea Hcb) in Ha. discriminate.
Qed.

Lemma g_step es bp k :
  edits_ok es -> 0 <= k ->
  sumZ (g_term bp (k + 1)) es =
  sumZ (g_term bp k) es + sumZ (start_term bp k) es - sumZ (cov_term bp k) es.
Proof.
  intros Hok Hk. rewrite <- sumZ_add, <- sumZ_sub. apply sumZ_ext. intros e He.
  destruct (edit_ok_ge e (Hok e He)) as [Hi Hr].
  unfold g_term, start_term, cov_term, contains_b, in_span, clamp.
  destruct (bpath_eqb (eb e) bp); simpl; [|reflexivity].
  destruct (Z.ltb_spec (ei e) (k + 1)), (Z.ltb_spec (ei e) k), (Z.eqb_spec (ei e) k),
    (Z.leb_spec (ei e) k), (Z.ltb_spec k (ei e + erem e)); simpl; lia.
Qed.

Lemma g_zero es bp : edits_ok es -> sumZ (g_term bp 0) es = 0.
Proof.
  intros Hok. induction es as [|a r IH]; simpl; [reflexivity|].
  rewrite IH by (intros e He; apply Hok; right; exact He).
  destruct (edit_ok_ge a (Hok a (or_introl eq_refl))) as [Hi Hr].
  unfold g_term, clamp. destruct (bpath_eqb (eb a) bp); [|reflexivity].
  destruct (Z.ltb_spec (ei a) 0); lia.
Qed.

Lemma off_G es bp : edits_ok es -> pairwise es = true -> forall k : nat,
  offZ (starts es bp) (covered es bp) 0 k = Z.of_nat k + sumZ (g_term bp (Z.of_nat k)) es.
Proof.
  intros Hok Hp. induction k as [|k IH].
  - simpl. rewrite g_zero by assumption. reflexivity.
  - rewrite offZ_snoc, IH. replace (Z.of_nat (S k)) with (Z.of_nat k + 1) by lia.
    rewrite g_step by (assumption || lia). rewrite count_span by assumption.
    rewrite zlen_starts. simpl. destruct (covered es bp (Z.of_nat k)); lia.
Qed.

(* an index no edit consumed lands at index + shift *)
Lemma untouched_pos es bp k :
  edits_ok es -> pairwise es = true -> 0 <= k -> covered es bp k = false ->
  offZ (starts es bp) (covered es bp) 0 (Z.to_nat k) + zlen (starts es bp k) = k + shiftsum es bp k.
Proof.
  intros Hok Hp Hk Hc. rewrite off_G by assumption. rewrite Z2Nat.id by assumption.
  rewrite zlen_starts. unfold shiftsum.
  rewrite <- Z.add_assoc. f_equal. rewrite <- sumZ_add. apply sumZ_ext. intros e He.
  destruct (edit_ok_ge e (Hok e He)) as [Hi Hr].
  pose proof (covered_false es bp k e Hc He) as Hn.
  unfold g_term, start_term, shift_term, clamp. unfold contains_b, in_span in Hn.
  destruct (bpath_eqb (eb e) bp); simpl in *; [|reflexivity].
  destruct (Z.ltb_spec (ei e) k), (Z.eqb_spec (ei e) k), (Z.leb_spec (ei e + erem e) k),
    (Z.leb_spec (ei e) k), (Z.ltb_spec k (ei e + erem e)); simpl in *; try discriminate; lia.
Qed.

Lemma pairwise_in es a b :
  pairwise es = true -> In a es -> In b es ->
  a = b \/ (overlaps a b = false /\ overlaps b a = false).
Proof.
  induction es as [|x r IH]; simpl; intros Hp Ha Hb; [contradiction|].
  apply andb_true_iff in Hp as [Hx Hr]. rewrite forallb_forall in Hx.
  destruct Ha as [Ha|Ha], Hb as [Hb|Hb]; subst.
  - left. reflexivity.
  - right. specialize (Hx b Hb). apply andb_true_iff in Hx as [H1 H2].
    apply negb_true_iff in H1. apply negb_true_iff in H2. split; assumption.
  - right. specialize (Hx a Ha). apply andb_true_iff in Hx as [H1 H2].
    apply negb_true_iff in H1. apply negb_true_iff in H2. split; assumption.
  - apply IH; assumption.
Qed.

(* an index consumed by e0 lands at the start of e0's replacement *)
Lemma replaced_pos es bp k e0 :
  edits_ok es -> pairwise es = true -> In e0 es -> contains_b bp k e0 = true ->
  offZ (starts es bp) (covered es bp) 0 (Z.to_nat (ei e0)) = ei e0 + shiftsum es bp k.
Proof.
  intros Hok Hp H0 Hc. rewrite off_G by assumption.
  destruct (edit_ok_ge e0 (Hok e0 H0)) as [Hi0 Hr0].
  rewrite Z2Nat.id by assumption. f_equal. unfold shiftsum. apply sumZ_ext. intros e He.
  destruct (edit_ok_ge e (Hok e He)) as [Hi Hr].
  unfold contains_b, in_span in Hc. apply andb_true_iff in Hc as [Eb0 Hs0].
  apply andb_true_iff in Hs0 as [Hs1 Hs2]. apply bpath_eqb_eq in Eb0.
  unfold g_term, shift_term, clamp.
  destruct (bpath_eqb (eb e) bp) eqn:Eb; simpl; [|reflexivity].
  apply bpath_eqb_eq in Eb.
  destruct (pairwise_in es e e0 Hp He H0) as [->|[O1 O2]].
  - destruct (Z.ltb_spec (ei e0) (ei e0)), (Z.leb_spec (ei e0 + erem e0) k); lia.
  - unfold overlaps, in_span in O1, O2. rewrite Eb, Eb0, bpath_eqb_refl in O1, O2.
    apply orb_false_iff in O1 as [O1a O1b]. apply orb_false_iff in O2 as [O2a O2b].
    destruct (Z.ltb_spec (ei e) (ei e0)), (Z.leb_spec (ei e + erem e) k),
      (Z.leb_spec (ei e) (ei e0)), (Z.ltb_spec (ei e0) (ei e + erem e)),
      (Z.leb_spec (ei e0) (ei e)), (Z.ltb_spec (ei e) (ei e0 + erem e0));
      simpl in *; try discriminate; lia.
Qed.

Lemma flat_map_nil {A B} (f : A -> list B) l : (forall a, In a l -> f a = []) -> flat_map f l = [].
Proof.
  induction l as [|a r IH]; simpl; intros H; [reflexivity|].
  rewrite (H a) by (left; reflexivity). simpl. apply IH. intros x Hx. apply H. right. exact Hx.
Qed.

Lemma starts_of_replacement es bp k e0 :
  pairwise es = true -> In e0 es -> contains_b bp k e0 = true ->
  starts es bp (ei e0) = enew e0.
Proof.
  intros Hp H0 Hc.
  assert (Hself : contains_b bp (ei e0) e0 = true).
  { unfold contains_b, in_span in *. apply andb_true_iff in Hc as [E Hs].
    apply andb_true_iff in Hs as [H1 H2]. rewrite E. simpl. apply andb_true_iff. split; lia. }
  assert (Hov : overlaps e0 e0 = true) by (apply (both_contain_overlap bp (ei e0)); assumption).
  assert (Hst0 : bpath_eqb (eb e0) bp && (ei e0 =? ei e0) = true).
  { unfold contains_b in Hself. apply andb_true_iff in Hself as [E0 _]. rewrite E0, Z.eqb_refl. reflexivity. }
  assert (Hother : forall e, In e es -> e = e0 \/
            (bpath_eqb (eb e) bp && (ei e =? ei e0)) = false).
  { intros e He. destruct (pairwise_in es e0 e Hp H0 He) as [->|[O1 O2]]; [left; reflexivity|].
    right. destruct (bpath_eqb (eb e) bp && (ei e =? ei e0)) eqn:E; [|reflexivity].
    apply andb_true_iff in E as [E1 E2]. apply Z.eqb_eq in E2. apply bpath_eqb_eq in E1.
    unfold contains_b in Hself. apply andb_true_iff in Hself as [E0 Hs]. apply bpath_eqb_eq in E0.
    unfold overlaps in O1. rewrite E0, E1, bpath_eqb_refl in O1.
    apply orb_false_iff in O1 as [O1 _]. rewrite E2 in O1. congruence. }
  clear Hc Hself. unfold starts.
  induction es as [|a r IH]; [contradiction|].
  simpl in Hp. apply andb_true_iff in Hp as [Ha Hr]. rewrite forallb_forall in Ha.
  simpl flat_map.
  destruct (Hother a (or_introl eq_refl)) as [->|Hna].
  - rewrite Hst0.
    rewrite flat_map_nil; [apply app_nil_r|].
    intros e He. destruct (Hother e (or_intror He)) as [->|Hne].
    + specialize (Ha e0 He). rewrite Hov in Ha. discriminate.
    + rewrite Hne. reflexivity.
  - rewrite Hna. simpl. apply IH.
    + exact Hr.
    + destruct H0 as [->|H0]; [rewrite Hst0 in Hna; discriminate|exact H0].
    + intros e He. apply Hother. right. exact He.
Qed.

(* ------------------------------------------------------------------ one block of the edited tree *)

Lemma nthZ_some {A} i (l : list A) x : nthZ i l = Some x -> 0 <= i /\ nth_error l (Z.to_nat i) = Some x.
Proof. unfold nthZ. destruct (Z.ltb_spec i 0) as [Hlt|Hge]; [discriminate|]. intros Hn. split; [lia|exact Hn]. Qed.

Lemma nthZ_zero {A} (x : A) l : nthZ 0 (x :: l) = Some x.
Proof. reflexivity. Qed.

Lemma apply_blk_untouched es bp ss i s :
  edits_ok es -> pairwise es = true ->
  nthZ i ss = Some s -> covered es bp i = false ->
  nthZ (i + shiftsum es bp i) (apply_blk es bp ss) = Some (apply_stmt es bp i s).
Proof.
  intros Hok Hp Hn Hc. apply nthZ_some in Hn as [Hi Hn].
  destruct (splice_decomp (apply_stmt es bp) (starts es bp) (covered es bp) ss 0 _ s Hn)
    as (pre & post & E & L).
  rewrite Z.add_0_l, Z2Nat.id in E by assumption. rewrite Hc in E.
  unfold apply_blk. rewrite E, app_assoc.
  rewrite <- (untouched_pos es bp i Hok Hp Hi Hc), <- L, <- zlen_app.
  rewrite <- (Z.add_0_r (zlen (pre ++ starts es bp i))).
  rewrite nthZ_app_r by lia. reflexivity.
Qed.

Lemma apply_blk_replaced es bp ss i s e0 :
  edits_ok es -> pairwise es = true ->
  nthZ i ss = Some s -> In e0 es -> contains_b bp i e0 = true ->
  exists pre post, apply_blk es bp ss = pre ++ enew e0 ++ post /\ zlen pre = ei e0 + shiftsum es bp i.
Proof.
  intros Hok Hp Hn H0 Hc. apply nthZ_some in Hn as [Hi Hn].
  destruct (edit_ok_ge e0 (Hok e0 H0)) as [Hi0 Hr0].
  assert (Hle : ei e0 <= i).
  { unfold contains_b, in_span in Hc. apply andb_true_iff in Hc as [_ Hc].
    apply andb_true_iff in Hc as [Hc _]. lia. }
  assert (Hex : exists s0, nth_error ss (Z.to_nat (ei e0)) = Some s0).
  { destruct (nth_error ss (Z.to_nat (ei e0))) eqn:E; [eexists; reflexivity|].
    apply nth_error_None in E. assert (Hnn : nth_error ss (Z.to_nat i) <> None) by congruence.
    apply nth_error_Some in Hnn. lia. }
  destruct Hex as [s0 Hs0].
  destruct (splice_decomp (apply_stmt es bp) (starts es bp) (covered es bp) ss 0 _ s0 Hs0)
    as (pre & post & E & L).
  rewrite Z.add_0_l, Z2Nat.id in E by assumption.
  rewrite (starts_of_replacement es bp i e0 Hp H0 Hc) in E.
  exists pre. eexists. split; [unfold apply_blk; rewrite E; reflexivity|].
  rewrite L. apply replaced_pos; assumption.
Qed.

(* ------------------------------------------------------------------ whole paths *)

Fixpoint anc_replaced (es : list edit) (p : bpath) : bool :=
  match p with
  | FuncBody => false
  | SubBlock q i _ => anc_replaced es q || covered es q i
  end.

Lemma lastc_covered es q i : covered es q i = true -> exists e, lastc es q i = Some e.
Proof.
  intros H. destruct (lastc es q i) eqn:E; [eexists; reflexivity|].
  apply lastc_none in E. congruence.
Qed.

Lemma forward_block_err es p : forall x, forward_block es p = Err x -> x = RefErr /\ anc_replaced es p = true.
Proof.
  induction p as [|q IH i f]; simpl; intros x H; [discriminate|].
  destruct (forward_block es q) as [q'|y] eqn:Eq.
  - rewrite scan_spec in H. simpl in H. destruct (lastc es q i) as [e|] eqn:El; [|discriminate].
    inversion H; subst. split; [reflexivity|].
    apply lastc_some in El as [He Hc]. apply orb_true_iff. right.
    unfold covered. apply existsb_exists. exists e. split; assumption.
  - inversion H; subst. destruct (IH x eq_refl) as [-> Ha]. split; [reflexivity|].
    rewrite Ha. reflexivity.
Qed.

Lemma forward_block_ok es p : forall p', forward_block es p = Ok p' -> anc_replaced es p = false.
Proof.
  induction p as [|q IH i f]; simpl; intros p' H; [reflexivity|].
  destruct (forward_block es q) as [q'|y] eqn:Eq; [|discriminate].
  rewrite scan_spec in H. simpl in H. destruct (lastc es q i) as [e|] eqn:El; [discriminate|].
  rewrite (IH q' eq_refl). apply lastc_none in El. rewrite El. reflexivity.
Qed.

Lemma sub_block_apply es q i s f ss :
  sub_block s f = Some ss ->
  sub_block (apply_stmt es q i s) f = Some (apply_blk es (SubBlock q i f) ss).
Proof. destruct s, f; simpl; intros H; inversion H; subst; reflexivity. Qed.

Lemma forward_block_sound es t :
  edits_ok es -> pairwise es = true ->
  forall p ss p', resolve_block t p = Ok ss -> forward_block es p = Ok p' ->
  resolve_block (apply es t) p' = Ok (apply_blk es p ss).
Proof.
  intros Hok Hp. induction p as [|q IH i f]; simpl; intros ss p' Hr Hf.
  - inversion Hr; inversion Hf; subst. reflexivity.
  - destruct (resolve_block t q) as [b|] eqn:Eb; [|discriminate].
    destruct (nthZ i b) as [s|] eqn:En; [|discriminate].
    destruct (sub_block s f) as [ss'|] eqn:Es; [|discriminate]. inversion Hr; subst ss'.
    destruct (forward_block es q) as [q'|] eqn:Eq; [|discriminate].
    rewrite scan_spec in Hf. simpl in Hf.
    destruct (lastc es q i) eqn:El; [discriminate|]. inversion Hf; subst p'.
    simpl. rewrite (IH b q' eq_refl eq_refl).
    rewrite (apply_blk_untouched es q b i s Hok Hp En (lastc_none _ _ _ El)).
    rewrite (sub_block_apply es q i s f ss Es). reflexivity.
Qed.

Lemma label_apply_stmt es bp i s : label (apply_stmt es bp i s) = label s.
Proof. destruct s; reflexivity. Qed.

(* the image of a path, as `_forward_stmt` computes it, in the edited tree *)
Theorem forward_stmt_sound es t p s :
  edits_ok es -> pairwise es = true -> resolve_stmt t p = Ok s ->
  match forward_stmt es p with
  | Ok (b', i', None) =>
      covered es (fst p) (snd p) = false /\
      resolve_stmt (apply es t) (b', i') = Ok (apply_stmt es (fst p) (snd p) s)
  | Ok (b', i', Some e) =>
      In e es /\ contains_b (fst p) (snd p) e = true /\
      exists pre post, resolve_block (apply es t) b' = Ok (pre ++ enew e ++ post) /\ zlen pre = i'
  | Err x => x = RefErr /\ anc_replaced es (fst p) = true
  end.
Proof.
  intros Hok Hp Hr. destruct p as [q i]. unfold resolve_stmt in Hr. simpl in Hr.
  destruct (resolve_block t q) as [b|] eqn:Eb; [|discriminate].
  destruct (nthZ i b) as [s0|] eqn:En; [|discriminate]. inversion Hr; subst s0.
  unfold forward_stmt. simpl fst. simpl snd.
  destruct (forward_block es q) as [q'|x] eqn:Eq.
  - rewrite scan_spec. simpl.
    pose proof (forward_block_sound es t Hok Hp q b q' Eb Eq) as Hb.
    destruct (lastc es q i) as [e|] eqn:El.
    + apply lastc_some in El as [He Hc]. split; [exact He|]. split; [exact Hc|].
      destruct (apply_blk_replaced es q b i s e Hok Hp En He Hc) as (pre & post & E & L).
      exists pre, post. rewrite Hb, E. split; [reflexivity|exact L].
    + apply lastc_none in El. split; [exact El|].
      unfold resolve_stmt. simpl. rewrite Hb.
      rewrite (apply_blk_untouched es q b i s Hok Hp En El). reflexivity.
  - apply forward_block_err in Eq. exact Eq.
Qed.

(* ------------------------------------------------------------------ EditLog.forward on a statement cursor *)

Definition region (blk : list stmt) (lo hi : Z) : list stmt :=
  firstn (Z.to_nat (hi - lo)) (skipn (Z.to_nat lo) blk).

Lemma region_mid (pre mid post : list stmt) :
  region (pre ++ mid ++ post) (zlen pre) (zlen pre + zlen mid) = mid.
Proof.
  unfold region, zlen. rewrite Nat2Z.id.
  replace (Z.to_nat (Z.of_nat (length pre) + Z.of_nat (length mid) - Z.of_nat (length pre)))
    with (length mid) by lia.
  rewrite skipn_app, skipn_all, Nat.sub_diag. simpl.
  rewrite firstn_app, firstn_all, Nat.sub_diag. simpl. apply app_nil_r.
Qed.

Definition log_faithful (lg : elog) (t : list stmt) : Prop :=
  edits_ok (l_edits lg) /\ pairwise (l_edits lg) = true /\ l_rtree lg = apply (l_edits lg) t.

Theorem forward_descendant lg t fn p s :
  log_faithful lg t -> resolve_stmt t p = Ok s ->
  match forward_stmt_cursor lg fn p with
  | Ok (CStmt r p') =>
      r = l_res lg /\
      exists s', resolve_stmt (l_rtree lg) p' = Ok s' /\
        ((s' = apply_stmt (l_edits lg) (fst p) (snd p) s /\ label s' = label s
          /\ covered (l_edits lg) (fst p) (snd p) = false)
         \/ exists e, In e (l_edits lg) /\ contains_b (fst p) (snd p) e = true /\ enew e = [s'])
  | Ok (CBlock r b lo hi) =>
      r = l_res lg /\
      exists e blk, In e (l_edits lg) /\ contains_b (fst p) (snd p) e = true /\
        resolve_block (l_rtree lg) b = Ok blk /\ region blk lo hi = enew e /\ (2 <= zlen (enew e))
  | Ok (CExpr _ _ _) => False
  | Err x =>
      x = RefErr /\
      (fn <> l_src lg \/ anc_replaced (l_edits lg) (fst p) = true
       \/ exists e, In e (l_edits lg) /\ contains_b (fst p) (snd p) e = true /\ enew e = [])
  end.
Proof.
  intros (Hok & Hp & Ht) Hr. unfold forward_stmt_cursor.
  destruct (Z.eqb_spec fn (l_src lg)) as [Efn|Efn]; simpl.
  2:{ split; [reflexivity|]. left. exact Efn. }
  pose proof (forward_stmt_sound (l_edits lg) t p s Hok Hp Hr) as H.
  destruct (forward_stmt (l_edits lg) p) as [[[b' i'] [e|]]|x].
  - destruct H as (He & Hc & pre & post & Hb & L).
    unfold eins. destruct (enew e) as [|s1 [|s2 rest]] eqn:En.
    + simpl. split; [reflexivity|]. right. right. exists e. repeat split; assumption.
    + assert (Hres : resolve_stmt (l_rtree lg) (b', i') = Ok s1).
      { unfold resolve_stmt. simpl. rewrite Ht, Hb.
        rewrite <- L, <- (Z.add_0_r (zlen pre)), nthZ_app_r by lia. reflexivity. }
      simpl. unfold mk_stmt_cursor. rewrite Hres.
      split; [reflexivity|]. exists s1. split; [exact Hres|]. right. exists e. repeat split; assumption.
    + assert (Hlen : 2 <= zlen (s1 :: s2 :: rest)) by (unfold zlen; simpl length; lia).
      destruct (Z.eqb_spec (zlen (s1 :: s2 :: rest)) 1) as [E1|_]; [lia|].
      destruct (Z.eqb_spec (zlen (s1 :: s2 :: rest)) 0) as [E0|_]; [lia|].
      unfold mk_block_cursor. rewrite Ht, Hb.
      assert (Hb2 : (0 <=? i') && (i' + zlen (s1 :: s2 :: rest) <=? zlen (pre ++ (s1 :: s2 :: rest) ++ post)) = true).
      { rewrite !zlen_app. pose proof (zlen_nonneg pre). pose proof (zlen_nonneg post).
        apply andb_true_iff. split; lia. }
      rewrite Hb2. split; [reflexivity|]. exists e. eexists. split; [exact He|]. split; [exact Hc|].
      split; [exact Hb|]. rewrite En. split; [|exact Hlen].
      rewrite <- L. apply region_mid.
  - destruct H as (Hc & Hres). rewrite <- Ht in Hres. unfold mk_stmt_cursor. rewrite Hres.
    split; [reflexivity|]. eexists. split; [exact Hres|]. left.
    split; [reflexivity|]. split; [apply label_apply_stmt|exact Hc].
  - destruct H as (-> & Ha). split; [reflexivity|]. right. left. exact Ha.
Qed.

(* ------------------------------------------------------------------ untouched statements are unchanged *)

Fixpoint stmt_ind2 (P : stmt -> Prop)
    (HL : forall l, P (SLeaf l))
    (H1 : forall l b, Forall P b -> P (SOne l b))
    (H2 : forall l a b, Forall P a -> Forall P b -> P (STwo l a b))
    (s : stmt) {struct s} : P s :=
  let lst := fix lst (ss : list stmt) : Forall P ss :=
    match ss with
    | [] => Forall_nil P
    | x :: r => Forall_cons x (stmt_ind2 P HL H1 H2 x) (lst r)
    end in
  match s with
  | SLeaf l => HL l
  | SOne l b => H1 l b (lst b)
  | STwo l a b => H2 l a b (lst a) (lst b)
  end.

Lemma splice_id f st cov ss :
  (forall j, st j = []) -> (forall j, cov j = false) ->
  Forall (fun s => forall j, f j s = s) ss ->
  forall i, splice f st cov ss i = ss.
Proof.
  intros Hst Hcov H. induction H as [|s r Hs Hr IH]; intros i; simpl.
  - apply Hst.
  - rewrite Hst, Hcov, Hs, IH. reflexivity.
Qed.

Definition none_beneath (es : list edit) (bp : bpath) (i : Z) : Prop :=
  forall e, In e es -> beneath_b (eb e) bp i (i + 1) = false.

Lemma beneath_b_sub q k g B lo hi :
  beneath_b (SubBlock q k g) B lo hi = (bpath_eqb q B && (lo <=? k) && (k <? hi)) || beneath_b q B lo hi.
Proof. simpl. destruct (bpath_eqb q B && (lo <=? k) && (k <? hi)); reflexivity. Qed.

Lemma beneath_self bp i f : beneath_b (SubBlock bp i f) bp i (i + 1) = true.
Proof.
  rewrite beneath_b_sub, bpath_eqb_refl.
  destruct (Z.leb_spec i i); [|lia]. destruct (Z.ltb_spec i (i + 1)); [|lia]. reflexivity.
Qed.

Lemma beneath_child p : forall bp i f j,
  beneath_b p (SubBlock bp i f) j (j + 1) = true -> beneath_b p bp i (i + 1) = true.
Proof.
  induction p as [|q IH k g]; intros bp i f j H; [discriminate|].
  rewrite beneath_b_sub in H. rewrite beneath_b_sub.
  apply orb_true_iff in H as [H|H].
  - apply andb_true_iff in H as [H _]. apply andb_true_iff in H as [H _].
    apply bpath_eqb_eq in H. subst q. rewrite beneath_self. apply orb_true_r.
  - rewrite (IH bp i f j H). apply orb_true_r.
Qed.

Lemma none_beneath_block es bp i f :
  none_beneath es bp i ->
  (forall j, starts es (SubBlock bp i f) j = []) /\
  (forall j, covered es (SubBlock bp i f) j = false) /\
  (forall j, none_beneath es (SubBlock bp i f) j).
Proof.
  intros H.
  assert (Hne : forall e, In e es -> bpath_eqb (eb e) (SubBlock bp i f) = false).
  { intros e He. destruct (bpath_eqb (eb e) (SubBlock bp i f)) eqn:E; [|reflexivity].
    apply bpath_eqb_eq in E. specialize (H e He). rewrite E, beneath_self in H. discriminate. }
  split; [|split].
  - intros j. unfold starts. apply flat_map_nil. intros e He. rewrite (Hne e He). reflexivity.
  - intros j. unfold covered. destruct (existsb _ es) eqn:E; [|reflexivity].
    apply existsb_exists in E as (e & He & Hc). rewrite (Hne e He) in Hc. discriminate.
  - intros j e He. destruct (beneath_b (eb e) (SubBlock bp i f) j (j + 1)) eqn:E; [|reflexivity].
    apply beneath_child in E. rewrite (H e He) in E. discriminate.
Qed.

Lemma apply_stmt_id es s : forall bp i, none_beneath es bp i -> apply_stmt es bp i s = s.
Proof.
  induction s as [l|l b IH|l a b IHa IHb] using stmt_ind2; intros bp i H; simpl.
  - reflexivity.
  - destruct (none_beneath_block es bp i FBody H) as (Hs & Hc & Hn).
    rewrite splice_id; [reflexivity|exact Hs|exact Hc|].
    eapply Forall_impl; [|exact IH]. intros s Hs' j. apply Hs'. apply Hn.
  - destruct (none_beneath_block es bp i FIft H) as (Hs & Hc & Hn).
    destruct (none_beneath_block es bp i FIff H) as (Hs2 & Hc2 & Hn2).
    rewrite !splice_id; [reflexivity|exact Hs2|exact Hc2| |exact Hs|exact Hc|].
    + eapply Forall_impl; [|exact IHb]. intros s Hs' j. apply Hs'. apply Hn2.
    + eapply Forall_impl; [|exact IHa]. intros s Hs' j. apply Hs'. apply Hn.
Qed.

(* a statement no edit consumed and no edit lies beneath is, whole, at its forwarded path *)
Theorem untouched_unchanged es t p s :
  edits_ok es -> pairwise es = true -> resolve_stmt t p = Ok s ->
  none_beneath es (fst p) (snd p) ->
  forall b' i', forward_stmt es p = Ok (b', i', None) ->
  resolve_stmt (apply es t) (b', i') = Ok s.
Proof.
  intros Hok Hp Hr Hn b' i' Hf.
  pose proof (forward_stmt_sound es t p s Hok Hp Hr) as H. rewrite Hf in H.
  destruct H as [_ H]. rewrite H. rewrite apply_stmt_id by exact Hn. reflexivity.
Qed.

(* ------------------------------------------------------------------ the parent chain *)

Theorem forward_compose f r c :
  chain_forward (f :: r) c =
  if f_ast f =? cursor_fn c then Ok c else replay_step (chain_forward r c) (f_log f).
Proof.
  unfold chain_forward. simpl collect.
  destruct (f_ast f =? cursor_fn c); [reflexivity|].
  destruct (collect r (cursor_fn c)) as [ls|]; [|reflexivity].
  simpl rev. rewrite fold_left_app. reflexivity.
Qed.

Lemma chain_forward_nil c : chain_forward [] c = Err RefErr.
Proof. reflexivity. Qed.

(* every failure of forwarding is a reference error *)
Lemma resolve_block_err t p : forall x, resolve_block t p = Err x -> x = RefErr.
Proof.
  induction p as [|q IH i f]; simpl; intros x H; [discriminate|].
  destruct (resolve_block t q); [|inversion H; subst; apply IH; reflexivity].
  destruct (nthZ i a); [|inversion H; reflexivity].
  destruct (sub_block s f); inversion H; reflexivity.
Qed.

Lemma resolve_stmt_err t p x : resolve_stmt t p = Err x -> x = RefErr.
Proof.
  unfold resolve_stmt. destruct (resolve_block t (fst p)) eqn:E.
  - destruct (nthZ (snd p) a); intros H; inversion H; reflexivity.
  - intros H; inversion H; subst. eapply resolve_block_err. exact E.
Qed.

Lemma mk_stmt_cursor_err fn t p x : mk_stmt_cursor fn t p = Err x -> x = RefErr.
Proof.
  unfold mk_stmt_cursor. destruct (resolve_stmt t p) eqn:E; [discriminate|].
  intros H; inversion H; subst. eapply resolve_stmt_err. exact E.
Qed.

Lemma mk_block_cursor_err fn t b lo hi x : mk_block_cursor fn t b lo hi = Err x -> x = RefErr.
Proof.
  unfold mk_block_cursor. destruct (resolve_block t b) eqn:E.
  - destruct ((0 <=? lo) && (hi <=? zlen a)); intros H; inversion H; reflexivity.
  - intros H; inversion H; subst. eapply resolve_block_err. exact E.
Qed.

Lemma forward_stmt_err es p x : forward_stmt es p = Err x -> x = RefErr.
Proof.
  unfold forward_stmt. destruct (forward_block es (fst p)) eqn:E.
  - destruct (snd (scan es (fst p) (snd p))); discriminate.
  - intros H; inversion H; subst. apply forward_block_err in E. apply E.
Qed.

Lemma forward_stmt_cursor_err lg fn p x : forward_stmt_cursor lg fn p = Err x -> x = RefErr.
Proof.
  unfold forward_stmt_cursor. destruct (negb (fn =? l_src lg)); [intros H; inversion H; reflexivity|].
  destruct (forward_stmt (l_edits lg) p) as [[[b i] [e|]]|y] eqn:E.
  - destruct (eins e =? 1); [apply mk_stmt_cursor_err|].
    destruct (eins e =? 0); [intros H; inversion H; reflexivity|apply mk_block_cursor_err].
  - apply mk_stmt_cursor_err.
  - intros H; inversion H; subst. eapply forward_stmt_err. exact E.
Qed.

Lemma mapM_err {A B} (f : A -> res B) l x :
  (forall a y, f a = Err y -> y = RefErr) -> mapM f l = Err x -> x = RefErr.
Proof.
  intros Hf. induction l as [|a r IH]; simpl; [discriminate|].
  destruct (f a) eqn:E; [|intros H; inversion H; subst; eapply Hf; exact E].
  destruct (mapM f r); [discriminate|]. intros H; inversion H; subst. apply IH. reflexivity.
Qed.

Lemma forward_err lg c x : forward lg c = Err x -> x = RefErr.
Proof.
  destruct c as [fn p|fn b lo hi|fn p sfx]; simpl.
  - apply forward_stmt_cursor_err.
  - unfold forward_region. destruct (Z.max 0 (hi - lo) =? 0); [intros H; inversion H; reflexivity|].
    destruct (mapM _ _) as [imgs|y] eqn:E.
    + destruct (map img_of imgs) as [|[[p0 s0] t0] rest]; [intros H; inversion H; reflexivity|].
      destruct (forallb _ rest && adjacent _); [|intros H; inversion H; reflexivity].
      destruct (Z.max 0 _ =? 1); [apply mk_stmt_cursor_err|apply mk_block_cursor_err].
    + intros H; inversion H; subst. eapply mapM_err; [|exact E].
      intros a y. apply forward_stmt_cursor_err.
  - unfold forward_expr. destruct (negb (fn =? l_src lg)); [intros H; inversion H; reflexivity|].
    destruct (negb (l_preserved lg)); [intros H; inversion H; reflexivity|].
    destruct (existsb _ _); [intros H; inversion H; reflexivity|].
    destruct (forward_stmt (l_edits lg) p) as [[[b i] [e|]]|y] eqn:E.
    + intros H; inversion H; reflexivity.
    + destruct (resolve_stmt (l_rtree lg) (b, i)) eqn:E2; [discriminate|].
      intros H; inversion H; subst. eapply resolve_stmt_err. exact E2.
    + intros H; inversion H; subst. eapply forward_stmt_err. exact E.
Qed.

Lemma replay_err logs : forall r x, fold_left replay_step logs r = Err x ->
  (forall y, r = Err y -> y = RefErr) -> x = RefErr.
Proof.
  induction logs as [|lg ls IH]; simpl; intros r x H Hr; [apply Hr; exact H|].
  apply (IH _ _ H). intros y Hy. unfold replay_step in Hy.
  destruct r as [c|z]; [|inversion Hy; subst; apply Hr; reflexivity].
  destruct lg as [l|]; [eapply forward_err; exact Hy|inversion Hy; reflexivity].
Qed.

Theorem chain_forward_err chain c x : chain_forward chain c = Err x -> x = RefErr.
Proof.
  unfold chain_forward. destruct (collect chain (cursor_fn c)); [|intros H; inversion H; reflexivity].
  intros H. eapply replay_err; [exact H|]. intros y Hy. discriminate.
Qed.

(* a pass that reported nothing stops the walk *)
Theorem opaque_pass_stops f r c :
  (f_ast f =? cursor_fn c) = false -> f_log f = None -> chain_forward (f :: r) c = Err RefErr.
Proof.
  intros Hne Hl. rewrite forward_compose, Hne, Hl. unfold replay_step.
  destruct (chain_forward r c) as [c'|x] eqn:E; [reflexivity|].
  apply chain_forward_err in E. subst. reflexivity.
Qed.

(* a cursor of a program that is not on the chain does not forward *)
Theorem unrelated_program chain c :
  (forall f, In f chain -> (f_ast f =? cursor_fn c) = false) -> chain_forward chain c = Err RefErr.
Proof.
  intros H. unfold chain_forward.
  replace (collect chain (cursor_fn c)) with (@None (list (option elog))); [reflexivity|].
  symmetry. induction chain as [|f r IH]; simpl; [reflexivity|].
  rewrite (H f (or_introl eq_refl)). rewrite IH; [reflexivity|].
  intros g Hg. apply H. right. exact Hg.
Qed.

(* ------------------------------------------------------------------ descent along the chain *)

(* consecutive programs of a chain are related as Function.with_edits demands
   (log.source is self.ast; the new Function holds log.result), and every
   reported log is faithful to the program it was produced from *)
Fixpoint chain_wf (chain : list func) : Prop :=
  match chain with
  | [] => True
  | f :: r =>
      chain_wf r /\
      match r with
      | [] => True
      | g :: _ =>
          match f_log f with
          | None => True
          | Some lg => l_src lg = f_ast g /\ l_res lg = f_ast f /\ l_rtree lg = f_tree f
                       /\ log_faithful lg (f_tree g)
          end
      end
  end.

Definition log_new_labels (lg : elog) : list Z := flat_map (fun e => map label (enew e)) (l_edits lg).

Definition new_labels (chain : list func) : list Z :=
  flat_map (fun f => match f_log f with Some lg => log_new_labels lg | None => [] end) chain.

Fixpoint find_root (chain : list func) (fn : Z) : option func :=
  match chain with
  | [] => None
  | f :: r => if f_ast f =? fn then Some f else find_root r fn
  end.

(* every intermediate image is a single statement (a statement replaced by a
   region is followed no further by this theorem) *)
Fixpoint stmt_only (chain : list func) (c0 : cursor) : Prop :=
  match chain with
  | [] => True
  | f :: r =>
      if f_ast f =? cursor_fn c0 then True
      else stmt_only r c0 /\
           match chain_forward r c0 with Ok (CBlock _ _ _ _) | Ok (CExpr _ _ _) => False | _ => True end
  end.

(* what the final cursor names: label L, or a label some pass introduced *)
Definition tracks (L : Z) (news : list Z) (f : func) (c : cursor) : Prop :=
  match c with
  | CStmt fn p =>
      fn = f_ast f /\ exists s, resolve_stmt (f_tree f) p = Ok s /\ (label s = L \/ In (label s) news)
  | CBlock fn b lo hi =>
      fn = f_ast f /\ exists blk, resolve_block (f_tree f) b = Ok blk /\
        forall s, In s (region blk lo hi) -> In (label s) news
  | CExpr _ _ _ => False
  end.

Lemma new_labels_cons f r l : In l (new_labels r) -> In l (new_labels (f :: r)).
Proof. intros H. unfold new_labels. simpl. apply in_or_app. right. exact H. Qed.

Lemma new_labels_head f r lg e s :
  f_log f = Some lg -> In e (l_edits lg) -> In s (enew e) -> In (label s) (new_labels (f :: r)).
Proof.
  intros Hl He Hs. unfold new_labels. simpl. apply in_or_app. left. rewrite Hl.
  unfold log_new_labels. apply in_flat_map. exists e. split; [exact He|]. apply in_map. exact Hs.
Qed.

(* PARTIAL with respect to the property text: steps whose image is a region
   (`_forward_region`) are excluded by `stmt_only`; they are covered by the
   correspondence only. *)
Theorem chain_descendant_partial : forall chain fn0 p0 g s0 c',
  chain_wf chain ->
  find_root chain fn0 = Some g -> resolve_stmt (f_tree g) p0 = Ok s0 ->
  stmt_only chain (CStmt fn0 p0) ->
  chain_forward chain (CStmt fn0 p0) = Ok c' ->
  match chain with
  | f :: _ => tracks (label s0) (new_labels chain) f c'
  | [] => False
  end.
Proof.
  induction chain as [|f r IH]; intros fn0 p0 g s0 c' Hwf Hroot Hres Hso Hfw.
  - discriminate.
  - rewrite forward_compose in Hfw. simpl cursor_fn in Hfw. simpl in Hroot, Hso.
    destruct (Z.eqb_spec (f_ast f) fn0) as [E|E].
    + inversion Hfw; subst c'. inversion Hroot; subst g. simpl.
      split; [symmetry; exact E|]. exists s0. split; [exact Hres|]. left. reflexivity.
    + destruct Hso as [Hso Hkind]. destruct Hwf as [Hwfr Hlink].
      destruct (chain_forward r (CStmt fn0 p0)) as [c1|x] eqn:E1; [|discriminate].
      specialize (IH fn0 p0 g s0 c1 Hwfr Hroot Hres Hso E1).
      destruct r as [|g' r']; [contradiction|].
      simpl in Hfw. destruct (f_log f) as [lg|] eqn:El; [|discriminate].
      destruct Hlink as (Hsrc & Hrs & Hrt & Hfaith).
      destruct c1 as [fn1 p1|fn1 b1 lo1 hi1|fn1 p1 sfx]; [|contradiction|contradiction].
      destruct IH as (Hfn1 & s1 & Hr1 & Hlab).
      simpl forward in Hfw.
      pose proof (forward_descendant lg (f_tree g') fn1 p1 s1 Hfaith Hr1) as D.
      rewrite Hfw in D.
      destruct c' as [fr p'|fr b lo hi|fr p' sfx]; [| |contradiction].
      * destruct D as (-> & s' & Hrs' & Hcase). cbn [tracks]. split; [exact Hrs|].
        exists s'. rewrite <- Hrt. split; [exact Hrs'|].
        destruct Hcase as [(_ & Hl & _)|(e & He & _ & Hn)].
        -- rewrite Hl. destruct Hlab as [Hlab|Hlab]; [left; exact Hlab|].
           right. apply new_labels_cons. exact Hlab.
        -- right. apply (new_labels_head f (g' :: r') lg e s' El He). rewrite Hn. left. reflexivity.
      * destruct D as (-> & e & blk & He & _ & Hb & Hreg & _). cbn [tracks]. split; [exact Hrs|].
        exists blk. rewrite <- Hrt. split; [exact Hb|].
        intros s Hs. rewrite Hreg in Hs. apply (new_labels_head f (g' :: r') lg e s El He Hs).
Qed.

(* ------------------------------------------------------------------ expression cursors *)
(* an expression cursor forwards only under `exprs_preserved`, outside
   `exprs_rewritten`, and only while its statement was not replaced; it then
   hangs off the statement's image *)
Theorem expr_cursor_rule lg fn p sfx c' :
  forward lg (CExpr fn p sfx) = Ok c' ->
  fn = l_src lg /\ l_preserved lg = true /\ existsb (spath_eqb p) (l_dirty lg) = false /\
  exists b i, forward_stmt (l_edits lg) p = Ok (b, i, None) /\ c' = CExpr (l_res lg) (b, i) sfx.
Proof.
  simpl. unfold forward_expr.
  destruct (Z.eqb_spec fn (l_src lg)) as [E|E]; simpl; [|discriminate].
  destruct (l_preserved lg); simpl; [|discriminate].
  destruct (existsb (spath_eqb p) (l_dirty lg)); [discriminate|].
  destruct (forward_stmt (l_edits lg) p) as [[[b i] [e|]]|x]; try discriminate.
  destruct (resolve_stmt (l_rtree lg) (b, i)); [|discriminate].
  intros H. inversion H; subst. repeat split; try assumption. exists b, i. split; reflexivity.
Qed.
