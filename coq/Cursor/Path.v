(* C19 — model of fpy2/transform/path.py: statement trees, block / statement
   paths, resolution, `beneath`, the visit order `walk_stmts`.

   Definitions only (proofs: Cursor/ForwardProofs.v, Cursor/SitesProofs.v).

   A statement is abstracted to its label (standing for everything a
   statement is apart from the blocks it holds) and the blocks it holds:
     SLeaf  : Assign, IndexedAssign, Return, Assert, Effect, Pass  (sub_blocks = ())
     SOne   : If1Stmt, WhileStmt, ForStmt, ContextStmt             (('body', b),)
     STwo   : IfStmt                                               (('ift', a), ('iff', b))
   Python ints are Z (a path index may be any int; resolution rejects the
   ones out of range). *)
From Coq Require Import ZArith List Bool.
Import ListNotations.
Open Scope Z_scope.

Inductive cerr := RefErr | ValErr | TypErr.
Inductive res (A : Type) := Ok (a : A) | Err (e : cerr).
Arguments Ok {A} a.
Arguments Err {A} e.

Definition rbind {A B} (r : res A) (f : A -> res B) : res B :=
  match r with Ok a => f a | Err e => Err e end.

Inductive field := FBody | FIft | FIff.

Definition field_eqb (a b : field) : bool :=
  match a, b with FBody, FBody | FIft, FIft | FIff, FIff => true | _, _ => false end.

Inductive stmt :=
  | SLeaf (l : Z)
  | SOne (l : Z) (body : list stmt)
  | STwo (l : Z) (ift iff : list stmt).

Definition label (s : stmt) : Z :=
  match s with SLeaf l | SOne l _ | STwo l _ _ => l end.

(* path.sub_blocks + the field lookup of resolve_block *)
Definition sub_block (s : stmt) (f : field) : option (list stmt) :=
  match s, f with
  | SOne _ b, FBody => Some b
  | STwo _ a _, FIft => Some a
  | STwo _ _ b, FIff => Some b
  | _, _ => None
  end.

(* BlockPath ::= FuncBody | StmtPath . field ;  StmtPath ::= BlockPath [ index ] *)
Inductive bpath := FuncBody | SubBlock (parent : bpath) (index : Z) (f : field).
Definition spath : Type := bpath * Z.

Fixpoint bpath_eqb (a b : bpath) : bool :=
  match a, b with
  | FuncBody, FuncBody => true
  | SubBlock p i f, SubBlock q j g => bpath_eqb p q && (i =? j) && field_eqb f g
  | _, _ => false
  end.

Definition spath_eqb (a b : spath) : bool := bpath_eqb (fst a) (fst b) && (snd a =? snd b).

Definition nthZ {A} (i : Z) (l : list A) : option A :=
  if i <? 0 then None else nth_error l (Z.to_nat i).

Definition zlen {A} (l : list A) : Z := Z.of_nat (length l).

(* path.resolve_block / resolve_stmt (mutually recursive on the path) *)
Fixpoint resolve_block (t : list stmt) (p : bpath) : res (list stmt) :=
  match p with
  | FuncBody => Ok t
  | SubBlock q i f =>
      match resolve_block t q with
      | Err e => Err e
      | Ok b =>
          match nthZ i b with
          | None => Err RefErr
          | Some s => match sub_block s f with Some b' => Ok b' | None => Err RefErr end
          end
      end
  end.

Definition resolve_stmt (t : list stmt) (p : spath) : res stmt :=
  match resolve_block t (fst p) with
  | Err e => Err e
  | Ok b => match nthZ (snd p) b with Some s => Ok s | None => Err RefErr end
  end.

(* path.beneath, for a block path / a statement path; span = range(lo, hi) *)
Fixpoint beneath_b (p : bpath) (block : bpath) (lo hi : Z) : bool :=
  match p with
  | FuncBody => false
  | SubBlock q i _ =>
      if bpath_eqb q block && (lo <=? i) && (i <? hi) then true else beneath_b q block lo hi
  end.

Definition beneath_s (p : spath) (block : bpath) (lo hi : Z) : bool :=
  if bpath_eqb (fst p) block && (lo <=? snd p) && (snd p <? hi) then true
  else beneath_b (fst p) block lo hi.

(* path.walk_stmts: a statement before the blocks it holds *)
Definition walk_list (f : Z -> stmt -> list (spath * stmt)) :=
  fix go (ss : list stmt) (i : Z) : list (spath * stmt) :=
    match ss with
    | [] => []
    | s :: r => f i s ++ go r (i + 1)
    end.

Fixpoint walk_stmt (bp : bpath) (i : Z) (s : stmt) : list (spath * stmt) :=
  ((bp, i), s) ::
  match s with
  | SLeaf _ => []
  | SOne _ b => walk_list (walk_stmt (SubBlock bp i FBody)) b 0
  | STwo _ a b => walk_list (walk_stmt (SubBlock bp i FIft)) a 0
                  ++ walk_list (walk_stmt (SubBlock bp i FIff)) b 0
  end.

Definition walk_stmts (t : list stmt) : list (spath * stmt) :=
  walk_list (walk_stmt FuncBody) t 0.

(* structural equality of trees (for the correspondence) *)
Fixpoint stmt_eqb (a b : stmt) {struct a} : bool :=
  let leq := fix leq (x y : list stmt) {struct x} : bool :=
    match x, y with
    | [], [] => true
    | s :: x', u :: y' => stmt_eqb s u && leq x' y'
    | _, _ => false
    end in
  match a, b with
  | SLeaf l, SLeaf m => l =? m
  | SOne l x, SOne m y => (l =? m) && leq x y
  | STwo l x1 x2, STwo m y1 y2 => (l =? m) && leq x1 y1 && leq x2 y2
  | _, _ => false
  end.

Fixpoint block_eqb (x y : list stmt) : bool :=
  match x, y with
  | [], [] => true
  | s :: x', u :: y' => stmt_eqb s u && block_eqb x' y'
  | _, _ => false
  end.
