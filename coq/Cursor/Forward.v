(* C19 — model of cursor._forward_stmt / _forward_block, EditLog.forward
   (_forward_region, _forward_expr), and Function.forward (replay of the edit
   logs along the parent chain), transcribed from fpy2/transform/cursor.py and
   fpy2/function.py.  Definitions only. *)
From Coq Require Import ZArith List Bool.
From FpyV Require Import Cursor.Path Cursor.Edit.
Import ListNotations.
Open Scope Z_scope.

(* the loop of _forward_stmt over the edits of the statement's own block:
     shift = 0; containing = None
     for e in edits:
         if e.block_path != path.parent: continue
         if path.index >= e.index + e.removed: shift += e.inserted - e.removed
         elif path.index >= e.index: containing = e                       *)
Definition scan_step (q : bpath) (i : Z) (st : Z * option edit) (e : edit) : Z * option edit :=
  if negb (bpath_eqb (eb e) q) then st
  else if i >=? ei e + erem e then (fst st + (eins e - erem e), snd st)
  else if i >=? ei e then (fst st, Some e)
  else st.

Definition scan (es : list edit) (q : bpath) (i : Z) : Z * option edit :=
  fold_left (scan_step q i) es (0, None).

(* _forward_block: the enclosing statements shift first; an enclosing statement
   that was rewritten is a reference error *)
Fixpoint forward_block (es : list edit) (p : bpath) : res bpath :=
  match p with
  | FuncBody => Ok FuncBody
  | SubBlock q i f =>
      match forward_block es q with
      | Err x => Err x
      | Ok q' =>
          let sc := scan es q i in
          match snd sc with
          | Some _ => Err RefErr
          | None => Ok (SubBlock q' (i + fst sc) f)
          end
      end
  end.

(* _forward_stmt: (block, index, containing edit) *)
Definition forward_stmt (es : list edit) (p : spath) : res (bpath * Z * option edit) :=
  match forward_block es (fst p) with
  | Err x => Err x
  | Ok q' =>
      let sc := scan es (fst p) (snd p) in
      match snd sc with
      | Some e => Ok (q', ei e + fst sc, Some e)
      | None => Ok (q', snd p + fst sc, None)
      end
  end.

(* ---- cursors and EditLog ---- *)

Inductive cursor :=
  | CStmt (fn : Z) (p : spath)
  | CBlock (fn : Z) (b : bpath) (lo hi : Z)             (* span = range(lo, hi) *)
  | CExpr (fn : Z) (p : spath) (suffix : list Z).       (* statement + opaque expression steps *)

Definition cursor_fn (c : cursor) : Z :=
  match c with CStmt f _ | CBlock f _ _ _ | CExpr f _ _ => f end.

Record elog := ELog {
  l_src : Z;                 (* identity of the program the pass was given *)
  l_res : Z;                 (* identity of the program it produced *)
  l_rtree : list stmt;       (* the produced program (cursors validate against it) *)
  l_edits : list edit;
  l_dirty : list spath;      (* exprs_rewritten *)
  l_preserved : bool         (* exprs_preserved *)
}.

(* StmtCursor.__post_init__ / BlockCursor.__post_init__ *)
Definition mk_stmt_cursor (fn : Z) (t : list stmt) (p : spath) : res cursor :=
  match resolve_stmt t p with Ok _ => Ok (CStmt fn p) | Err x => Err x end.

Definition mk_block_cursor (fn : Z) (t : list stmt) (b : bpath) (lo hi : Z) : res cursor :=
  match resolve_block t b with
  | Err x => Err x
  | Ok blk => if (0 <=? lo) && (hi <=? zlen blk) then Ok (CBlock fn b lo hi) else Err RefErr
  end.

(* the StmtCursor arm of EditLog.forward *)
Definition forward_stmt_cursor (lg : elog) (fn : Z) (p : spath) : res cursor :=
  if negb (fn =? l_src lg) then Err RefErr
  else
    match forward_stmt (l_edits lg) p with
    | Err x => Err x
    | Ok (b, i, None) => mk_stmt_cursor (l_res lg) (l_rtree lg) (b, i)
    | Ok (b, i, Some e) =>
        if eins e =? 1 then mk_stmt_cursor (l_res lg) (l_rtree lg) (b, i)
        else if eins e =? 0 then Err RefErr                               (* was deleted *)
        else mk_block_cursor (l_res lg) (l_rtree lg) b i (i + eins e)
    end.

Fixpoint range_list (lo : Z) (n : nat) : list Z :=
  match n with O => [] | S k => lo :: range_list (lo + 1) k end.

Fixpoint mapM {A B} (f : A -> res B) (l : list A) : res (list B) :=
  match l with
  | [] => Ok []
  | a :: r => match f a with
              | Err x => Err x
              | Ok b => match mapM f r with Err x => Err x | Ok bs => Ok (b :: bs) end
              end
  end.

(* (block path, span.start, span.stop) of a forwarded member *)
Definition img_of (c : cursor) : bpath * Z * Z :=
  match c with
  | CStmt _ (b, i) => (b, i, i + 1)
  | CBlock _ b lo hi => (b, lo, hi)
  | CExpr _ (b, i) _ => (b, i, i + 1)     (* unreachable: a statement never forwards to an expression *)
  end.

Fixpoint adjacent (l : list (bpath * Z * Z)) : bool :=
  match l with
  | a :: (b :: _) as r =>
      let '(_, sa, ta) := a in let '(_, sb, _) := b in
      ((sb =? ta) || (sb =? sa)) && adjacent r
  | _ => true
  end.

(* _forward_region *)
Definition forward_region (lg : elog) (fn : Z) (b : bpath) (lo hi : Z) : res cursor :=
  if Z.max 0 (hi - lo) =? 0 then Err RefErr
  else
    match mapM (fun i => forward_stmt_cursor lg fn (b, i)) (range_list lo (Z.to_nat (hi - lo))) with
    | Err x => Err x
    | Ok imgs =>
        match map img_of imgs with
        | [] => Err RefErr
        | (p0, s0, t0) :: rest =>
            let spans := (p0, s0, t0) :: rest in
            if forallb (fun x => bpath_eqb (fst (fst x)) p0) rest && adjacent spans then
              let stop := fold_left Z.max (map snd spans) t0 in
              if Z.max 0 (stop - s0) =? 1 then mk_stmt_cursor (l_res lg) (l_rtree lg) (p0, s0)
              else mk_block_cursor (l_res lg) (l_rtree lg) p0 s0 stop
            else Err RefErr
        end
    end.

(* _forward_expr (the validation of the rebased expression path against the
   result program is not modelled: expressions are opaque here) *)
Definition forward_expr (lg : elog) (fn : Z) (p : spath) (suffix : list Z) : res cursor :=
  if negb (fn =? l_src lg) then Err RefErr
  else if negb (l_preserved lg) then Err RefErr
  else if existsb (spath_eqb p) (l_dirty lg) then Err RefErr
  else
    match forward_stmt (l_edits lg) p with
    | Err x => Err x
    | Ok (_, _, Some _) => Err RefErr
    | Ok (b, i, None) =>
        match resolve_stmt (l_rtree lg) (b, i) with
        | Ok _ => Ok (CExpr (l_res lg) (b, i) suffix)
        | Err x => Err x
        end
    end.

(* EditLog.forward *)
Definition forward (lg : elog) (c : cursor) : res cursor :=
  match c with
  | CBlock fn b lo hi => forward_region lg fn b lo hi
  | CExpr fn p sfx => forward_expr lg fn p sfx
  | CStmt fn p => forward_stmt_cursor lg fn p
  end.

(* ---- Function.forward: the parent chain ---- *)

(* f_tree is the program text itself (what a cursor of this program resolves
   against); Function.forward does not look at it *)
Record func := Func { f_ast : Z; f_tree : list stmt; f_log : option elog }.
(* a chain is self :: parent :: grand-parent :: ... *)

(*  logs = []; f = self
    while f is not None and f.ast is not cursor.func: logs.append(f.edits); f = f.parent
    if f is None: raise                                                          *)
Fixpoint collect (chain : list func) (target : Z) : option (list (option elog)) :=
  match chain with
  | [] => None
  | f :: r =>
      if f_ast f =? target then Some []
      else match collect r target with None => None | Some ls => Some (f_log f :: ls) end
  end.

(*  out = cursor
    for log in reversed(logs): if log is None: raise; out = log.forward(out)   *)
Definition replay_step (out : res cursor) (lg : option elog) : res cursor :=
  match out with
  | Err x => Err x
  | Ok c => match lg with None => Err RefErr | Some l => forward l c end
  end.

Definition chain_forward (chain : list func) (c : cursor) : res cursor :=
  match collect chain (cursor_fn c) with
  | None => Err RefErr
  | Some logs => fold_left replay_step (rev logs) (Ok c)
  end.
