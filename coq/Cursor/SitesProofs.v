(* C19 — proofs about the `where` contract of a site rewriter (model: Cursor/Sites.v). *)
From Coq Require Import ZArith List Bool Lia Permutation.
From FpyV Require Import Cursor.Path Cursor.Sites.
Import ListNotations.
Open Scope Z_scope.

Section ListSitesProofs.
  Context {C : Type}.
  Variable refuses : C -> bool.

  Definition accepted (cs : list C) : list C := filter (fun c => negb (refuses c)) cs.
  Definition refused (cs : list C) : list C := filter refuses cs.

  Lemma visit_none_gen cs : forall st,
    fold_left (visit1 refuses None) cs st =
    WS (w_idx st + zlen (accepted cs)) (w_rewritten st ++ accepted cs) (w_refused st ++ refused cs).
  Proof.
    induction cs as [|c r IH]; intros [i rw rf]; simpl.
    - unfold zlen. simpl. rewrite Z.add_0_r, !app_nil_r. reflexivity.
    - rewrite IH. unfold visit1. simpl. destruct (refuses c); simpl.
      + rewrite <- app_assoc. reflexivity.
      + rewrite <- app_assoc. simpl. f_equal. unfold zlen. simpl length. lia.
  Qed.

  (* the one the index picks, if any *)
  Definition pick (j idx : Z) (l : list C) : list C :=
    if (idx <=? j) && (j <? idx + zlen l) then
      match nth_error l (Z.to_nat (j - idx)) with Some c => [c] | None => [] end
    else [].

  Lemma pick_cons_hit j c l : pick j j (c :: l) = [c].
  Proof.
    unfold pick, zlen. simpl length.
    destruct (Z.leb_spec j j); [|lia].
    destruct (Z.ltb_spec j (j + Z.of_nat (S (length l)))); [|lia].
    simpl. rewrite Z.sub_diag. reflexivity.
  Qed.

  Lemma pick_cons_miss j idx c l : idx <> j -> pick j idx (c :: l) = pick j (idx + 1) l.
  Proof.
    intros Hne. unfold pick, zlen. simpl length.
    destruct (Z.leb_spec idx j), (Z.ltb_spec j (idx + Z.of_nat (S (length l)))),
      (Z.leb_spec (idx + 1) j), (Z.ltb_spec j (idx + 1 + Z.of_nat (length l))); simpl; try lia; try reflexivity.
    replace (Z.to_nat (j - idx)) with (S (Z.to_nat (j - (idx + 1)))) by lia. reflexivity.
  Qed.

  Lemma pick_passed j idx l : j < idx -> pick j idx l = [].
  Proof. intros H. unfold pick. destruct (Z.leb_spec idx j); [lia|reflexivity]. Qed.

  Lemma visit_some_gen j cs : forall st,
    fold_left (visit1 refuses (Some j)) cs st =
    WS (w_idx st + zlen (accepted cs)) (w_rewritten st ++ pick j (w_idx st) (accepted cs))
       (w_refused st ++ refused cs).
  Proof.
    induction cs as [|c r IH]; intros [i rw rf].
    - simpl. unfold pick. change (zlen (accepted [])) with 0. rewrite Z.add_0_r.
      destruct ((i <=? j) && (j <? i)) eqn:E.
      + apply andb_true_iff in E as [E1 E2]. lia.
      + rewrite !app_nil_r. reflexivity.
    - simpl fold_left. rewrite IH. unfold accepted, refused. simpl filter. unfold visit1.
      destruct (refuses c); simpl.
      + rewrite <- app_assoc. reflexivity.
      + destruct (Z.eqb_spec i j) as [->|Hne].
        * rewrite pick_cons_hit. rewrite (pick_passed j (j + 1)) by lia.
          rewrite app_nil_r. f_equal. unfold zlen. simpl length. lia.
        * rewrite pick_cons_miss by exact Hne. f_equal. unfold zlen. simpl length. lia.
  Qed.

  Theorem list_sites_spec cs : list_sites refuses cs = accepted cs.
  Proof. unfold list_sites, visit. rewrite visit_none_gen. reflexivity. Qed.

  Theorem list_refusals_spec cs : list_refusals refuses cs = refused cs.
  Proof. unfold list_refusals, visit. rewrite visit_none_gen. reflexivity. Qed.

  (* aiming at nothing rewrites all k *)
  Theorem site_index_all cs : run refuses None cs = Ok (list_sites refuses cs).
  Proof. reflexivity. Qed.

  (* index j < k rewrites the j-th listed site and only it *)
  Theorem site_index_one cs j c :
    nthZ j (list_sites refuses cs) = Some c -> run refuses (Some j) cs = Ok [c].
  Proof.
    rewrite list_sites_spec. intros H.
    unfold nthZ in H. destruct (Z.ltb_spec j 0) as [|Hj]; [discriminate|].
    assert (Hlt : j < zlen (accepted cs)).
    { assert (Hn : nth_error (accepted cs) (Z.to_nat j) <> None) by congruence.
      apply nth_error_Some in Hn. unfold zlen. lia. }
    unfold run, visit. rewrite visit_some_gen. simpl.
    destruct (Z.leb_spec 0 j); [|lia]. destruct (Z.ltb_spec j (zlen (accepted cs))); [|lia]. simpl.
    unfold pick. simpl. destruct (Z.leb_spec 0 j); [|lia].
    destruct (Z.ltb_spec j (zlen (accepted cs))); [|lia]. simpl.
    rewrite Z.sub_0_r, H. reflexivity.
  Qed.

  (* any other index is rejected *)
  Theorem site_index_reject cs j :
    j < 0 \/ zlen (list_sites refuses cs) <= j -> run refuses (Some j) cs = Err RefErr.
  Proof.
    rewrite list_sites_spec. intros H. unfold run, visit. rewrite visit_some_gen. simpl.
    destruct (Z.leb_spec 0 j), (Z.ltb_spec j (zlen (accepted cs))); simpl; try reflexivity. lia.
  Qed.

  (* every candidate is a site or a refusal, never both; order is kept *)
  Theorem site_partition cs :
    Permutation cs (list_sites refuses cs ++ list_refusals refuses cs) /\
    (forall c, In c (list_sites refuses cs) -> In c cs /\ refuses c = false) /\
    (forall c, In c (list_refusals refuses cs) -> In c cs /\ refuses c = true) /\
    zlen cs = zlen (list_sites refuses cs) + zlen (list_refusals refuses cs).
  Proof.
    rewrite list_sites_spec, list_refusals_spec. unfold accepted, refused.
    split; [|split; [|split]].
    - induction cs as [|c r IH]; simpl; [constructor|].
      destruct (refuses c); simpl.
      + apply Permutation_cons_app. exact IH.
      + constructor. exact IH.
    - intros c H. apply filter_In in H as [H1 H2]. split; [exact H1|].
      apply negb_true_iff. exact H2.
    - intros c H. apply filter_In in H. exact H.
    - induction cs as [|c r IH]; [reflexivity|]. simpl. unfold zlen in *.
      destruct (refuses c); simpl length; rewrite ?app_length in *; simpl length; lia.
  Qed.

  (* a refusal does not consume an index: dropping the refused candidates
     changes nothing about what an index means *)
  Theorem refusals_take_no_index cs w :
    run refuses w cs = run refuses w (accepted cs).
  Proof.
    assert (Hacc : accepted (accepted cs) = accepted cs).
    { unfold accepted. induction cs as [|c r IH]; simpl; [reflexivity|].
      destruct (refuses c) eqn:E; simpl; [exact IH|]. rewrite E. simpl. rewrite IH. reflexivity. }
    unfold run, visit. destruct w as [j|].
    - rewrite !visit_some_gen. simpl. rewrite Hacc. reflexivity.
    - rewrite !visit_none_gen. simpl. rewrite Hacc. reflexivity.
  Qed.
End ListSitesProofs.

(* ------------------------------------------------------------------ the walk over a tree *)

Lemma pick_app {C} j idx (a b : list C) :
  pick j idx (a ++ b) = pick j idx a ++ pick j (idx + zlen a) b.
Proof.
  revert idx. induction a as [|x a IH]; intros idx.
  - simpl. change (zlen (@nil C)) with 0. rewrite Z.add_0_r.
    unfold pick at 2. change (zlen (@nil C)) with 0.
    destruct ((idx <=? j) && (j <? idx + 0)) eqn:E; [|reflexivity].
    apply andb_true_iff in E as [E1 E2]. lia.
  - simpl app. destruct (Z.eq_dec idx j) as [->|Hne].
    + rewrite !pick_cons_hit. rewrite pick_passed; [reflexivity|].
      unfold zlen. simpl length. lia.
    + rewrite !pick_cons_miss by exact Hne. rewrite IH. f_equal. f_equal.
      unfold zlen. simpl length. lia.
Qed.

Lemma pick_beyond {C} j idx (l : list C) : idx + zlen l <= j -> pick j idx l = [].
Proof.
  intros H. unfold pick. destruct (Z.ltb_spec j (idx + zlen l)); [lia|]. rewrite andb_false_r. reflexivity.
Qed.

