(* C19 — the `where` contract for the walk over a statement tree, with the
   re-visited bodies of a rewritten candidate (model: Cursor/Sites.v, tvisit). *)
From Coq Require Import ZArith List Bool Lia.
From FpyV Require Import Cursor.Path Cursor.Sites Cursor.ForwardProofs Cursor.SitesProofs.
Import ListNotations.
Open Scope Z_scope.

Section TreeSitesProofs.
  Variable cand : stmt -> bool.
  Variable refuses : stmt -> bool.
  Variable reps : nat.

  Definition is_site (s : stmt) : bool := cand s && negb (refuses s).
  Definition is_refusal (s : stmt) : bool := cand s && refuses s.

  Definition blocks_of (s : stmt) : list stmt :=
    match s with SLeaf _ => [] | SOne _ b => b | STwo _ a b => a ++ b end.

  (* labels of the statements satisfying P, a statement before the blocks it holds *)
  Fixpoint listing (P : stmt -> bool) (s : stmt) : list Z :=
    (if P s then [label s] else []) ++
    match s with
    | SLeaf _ => []
    | SOne _ b => flat_map (listing P) b
    | STwo _ a b => flat_map (listing P) a ++ flat_map (listing P) b
    end.

  Lemma listing_blocks P s :
    listing P s = (if P s then [label s] else []) ++ flat_map (listing P) (blocks_of s).
  Proof. destruct s; simpl; rewrite ?flat_map_app; reflexivity. Qed.

  Lemma walk_listing P : forall s bp i,
    map (fun ps => label (snd ps)) (filter (fun ps => P (snd ps)) (walk_stmt bp i s)) = listing P s.
  Proof.
    assert (Hl : forall ss, Forall (fun s => forall bp i,
                   map (fun ps => label (snd ps)) (filter (fun ps => P (snd ps)) (walk_stmt bp i s)) = listing P s) ss ->
                 forall bp i, map (fun ps => label (snd ps))
                   (filter (fun ps => P (snd ps)) (walk_list (walk_stmt bp) ss i)) = flat_map (listing P) ss).
    { intros ss H. induction H as [|s r Hs Hr IH]; intros bp i; simpl; [reflexivity|].
      rewrite filter_app, map_app, Hs, IH. reflexivity. }
    induction s as [l|l b IH|l a b IHa IHb] using stmt_ind2; intros bp i.
    - simpl. destruct (P (SLeaf l)); reflexivity.
    - change (walk_stmt bp i (SOne l b)) with
        (((bp, i), SOne l b) :: walk_list (walk_stmt (SubBlock bp i FBody)) b 0).
      cbn [filter snd listing]. destruct (P (SOne l b)); cbn [map snd label app]; rewrite (Hl b IH); reflexivity.
    - change (walk_stmt bp i (STwo l a b)) with
        (((bp, i), STwo l a b) :: (walk_list (walk_stmt (SubBlock bp i FIft)) a 0
                                    ++ walk_list (walk_stmt (SubBlock bp i FIff)) b 0)).
      cbn [filter snd listing]. destruct (P (STwo l a b)); cbn [map snd label app];
        rewrite filter_app, map_app, (Hl a IHa), (Hl b IHb); reflexivity.
  Qed.

  Lemma walk_listing_list P ss : forall bp i,
    map (fun ps => label (snd ps)) (filter (fun ps => P (snd ps)) (walk_list (walk_stmt bp) ss i))
    = flat_map (listing P) ss.
  Proof.
    induction ss as [|s r IH]; intros bp i; simpl; [reflexivity|].
    rewrite filter_app, map_app, walk_listing, IH. reflexivity.
  Qed.

  Theorem tsites_spec t : tsites cand refuses t = flat_map (listing is_site) t.
  Proof. unfold tsites, walk_stmts. apply (walk_listing_list is_site). Qed.

  Theorem trefusals_spec t : trefusals cand refuses t = flat_map (listing is_refusal) t.
  Proof. unfold trefusals, walk_stmts. apply (walk_listing_list is_refusal). Qed.

  (* ---- unfolding the walk ---- *)
  Lemma tvisit_list_app f a : forall b st,
    tvisit_list f (a ++ b) st = tvisit_list f b (tvisit_list f a st).
  Proof. induction a as [|x a IH]; intros b st; simpl; [reflexivity|apply IH]. Qed.

  Lemma repeat_visit_ext g g' n : (forall st, g st = g' st) -> forall st, repeat_visit g n st = repeat_visit g' n st.
  Proof. intros E. induction n as [|n IH]; intros st; simpl; [reflexivity|]. rewrite E. apply IH. Qed.

  Definition visit_blocks (w : option Z) (s : stmt) (st : tstate) : tstate :=
    tvisit_list (tvisit cand refuses reps w) (blocks_of s) st.

  Lemma tvisit_unfold w st s :
    tvisit cand refuses reps w st s =
    if cand s then
      if refuses s then visit_blocks w s (TS (t_idx st) (t_rewritten st) (t_refused st ++ [label s]))
      else if selects w (t_idx st) then
        repeat_visit (visit_blocks w s) (S reps) (TS (t_idx st + 1) (t_rewritten st ++ [label s]) (t_refused st))
      else visit_blocks w s (TS (t_idx st + 1) (t_rewritten st) (t_refused st))
    else visit_blocks w s st.
  Proof.
    unfold visit_blocks.
    destruct s as [l|l b|l a b]; cbn [tvisit blocks_of label].
    - destruct (cand (SLeaf l)); [|reflexivity]. destruct (refuses (SLeaf l)); [reflexivity|].
      destruct (selects w (t_idx st)); reflexivity.
    - destruct (cand (SOne l b)); [|reflexivity]. destruct (refuses (SOne l b)); [reflexivity|].
      destruct (selects w (t_idx st)); reflexivity.
    - destruct (cand (STwo l a b)); [|rewrite tvisit_list_app; reflexivity].
      destruct (refuses (STwo l a b)); [rewrite tvisit_list_app; reflexivity|].
      destruct (selects w (t_idx st)); [|rewrite tvisit_list_app; reflexivity].
      apply repeat_visit_ext. intros st'. rewrite tvisit_list_app. reflexivity.
  Qed.

  Lemma pick_nil {C} j idx : @pick C j idx [] = [].
  Proof. unfold pick. destruct ((idx <=? j) && (j <? idx + zlen [])); [destruct (Z.to_nat (j - idx))|]; reflexivity. Qed.

  (* ---- aimed at an index ---- *)
  Variable j : Z.

  (* a visit that accounts for the sites L *)
  Definition Inv (V : tstate -> tstate) (L : list Z) : Prop :=
    forall st,
      t_rewritten (V st) = t_rewritten st ++ pick j (t_idx st) L /\
      (t_idx st + zlen L <= j -> t_idx (V st) = t_idx st + zlen L) /\
      (j < t_idx st + zlen L -> j < t_idx (V st)).

  Lemma Inv_id : Inv (fun st => st) [].
  Proof.
    intros st. change (zlen (@nil Z)) with 0. rewrite pick_nil, app_nil_r.
    split; [reflexivity|]. split; intros; lia.
  Qed.

  Lemma Inv_comp V1 V2 L1 L2 : Inv V1 L1 -> Inv V2 L2 -> Inv (fun st => V2 (V1 st)) (L1 ++ L2).
  Proof.
    intros H1 H2 st. destruct (H1 st) as (R1 & C1 & B1). destruct (H2 (V1 st)) as (R2 & C2 & B2).
    rewrite zlen_app, pick_app.
    destruct (Z.le_gt_cases (t_idx st + zlen L1) j) as [Hc|Hb].
    - specialize (C1 Hc). rewrite C1 in *. rewrite R2, R1, <- app_assoc.
      split; [reflexivity|]. split; intros; [rewrite C2; lia|apply B2; lia].
    - specialize (B1 Hb). rewrite R2, R1, <- app_assoc.
      rewrite (pick_passed j (t_idx (V1 st))) by lia.
      rewrite (pick_passed j (t_idx st + zlen L1)) by lia.
      pose proof (zlen_nonneg L2).
      split; [reflexivity|]. split; intros; [lia|].
      apply B2. lia.
  Qed.

  Lemma Inv_ext V V' L : (forall st, V st = V' st) -> Inv V L -> Inv V' L.
  Proof. intros E H st. rewrite <- E. apply H. Qed.

  (* once the index has been passed nothing more is rewritten *)
  Definition Passed (V : tstate -> tstate) : Prop :=
    forall st, j < t_idx st -> t_rewritten (V st) = t_rewritten st /\ j < t_idx (V st).

  Lemma Inv_Passed V L : Inv V L -> Passed V.
  Proof.
    intros H st Hj. destruct (H st) as (R & _ & B). rewrite R, pick_passed, app_nil_r by exact Hj.
    split; [reflexivity|]. apply B. pose proof (zlen_nonneg L). lia.
  Qed.

  Lemma Passed_repeat V n : Passed V -> Passed (repeat_visit V n).
  Proof.
    intros H. induction n as [|n IH]; intros st Hj; simpl; [split; [reflexivity|exact Hj]|].
    destruct (H st Hj) as (R & B). destruct (IH (V st) B) as (R2 & B2).
    rewrite R2, R. split; [reflexivity|exact B2].
  Qed.

  Notation visit := (tvisit cand refuses reps (Some j)).

  Lemma Inv_list ss :
    Forall (fun s => Inv (fun st => visit st s) (listing is_site s)) ss ->
    Inv (tvisit_list visit ss) (flat_map (listing is_site) ss).
  Proof.
    intros H. induction H as [|s r Hs Hr IH]; simpl.
    - apply Inv_id.
    - eapply Inv_ext; [|apply (Inv_comp _ _ _ _ Hs IH)]. reflexivity.
  Qed.

  Lemma Inv_stmt_step s :
    Forall (fun x => Inv (fun st => visit st x) (listing is_site x)) (blocks_of s) ->
    Inv (fun st => visit st s) (listing is_site s).
  Proof.
    intros HF. pose proof (Inv_list _ HF) as HB.
    rewrite listing_blocks. unfold is_site at 1.
    destruct (cand s) eqn:Ec; simpl andb.
    - destruct (refuses s) eqn:Er; simpl negb; cbv iota; simpl app.
      + intros st. rewrite tvisit_unfold, Ec, Er. unfold visit_blocks.
        destruct (HB (TS (t_idx st) (t_rewritten st) (t_refused st ++ [label s]))) as (R & Cc & Bb).
        cbn [t_idx t_rewritten] in R, Cc, Bb. split; [exact R|]. split; assumption.
      + intros st. rewrite tvisit_unfold, Ec, Er. unfold visit_blocks, selects.
        destruct (Z.eqb_spec (t_idx st) j) as [E|E].
        * set (st1 := TS (t_idx st + 1) (t_rewritten st ++ [label s]) (t_refused st)).
          assert (Hj : j < t_idx st1) by (unfold st1; cbn [t_idx]; lia).
          destruct (Passed_repeat _ (S reps) (Inv_Passed _ _ HB) st1 Hj) as (R & Bb).
          change (t_rewritten st1) with (t_rewritten st ++ [label s]) in R.
          rewrite E. rewrite pick_cons_hit.
          split; [exact R|]. unfold zlen. simpl length. split; intros; [lia|exact Bb].
        * destruct (HB (TS (t_idx st + 1) (t_rewritten st) (t_refused st))) as (R & Cc & Bb).
          cbn [t_idx t_rewritten] in R, Cc, Bb. rewrite pick_cons_miss by exact E.
          split; [exact R|]. unfold zlen in *. simpl length. split; intros Hx.
          -- rewrite Cc by lia. lia.
          -- apply Bb. lia.
    - simpl app. intros st. rewrite tvisit_unfold, Ec. apply HB.
  Qed.

  Lemma Inv_stmt s : Inv (fun st => visit st s) (listing is_site s).
  Proof.
    induction s as [l|l b IH|l a b IHa IHb] using stmt_ind2; apply Inv_stmt_step; simpl blocks_of.
    - constructor.
    - exact IH.
    - apply Forall_app. split; assumption.
  Qed.

  Lemma Inv_tree t : Inv (tvisit_list visit t) (tsites cand refuses t).
  Proof.
    rewrite tsites_spec. apply Inv_list. apply Forall_forall. intros s _. apply Inv_stmt.
  Qed.

  (* index j < k rewrites the j-th listed site and only it *)
  Theorem tree_site_index_one t l :
    nthZ j (tsites cand refuses t) = Some l -> trun cand refuses reps (Some j) t = Ok [l].
  Proof.
    intros H. unfold nthZ in H. destruct (Z.ltb_spec j 0) as [|Hj]; [discriminate|].
    assert (Hlt : j < zlen (tsites cand refuses t)).
    { assert (Hn : nth_error (tsites cand refuses t) (Z.to_nat j) <> None) by congruence.
      apply nth_error_Some in Hn. unfold zlen. lia. }
    unfold trun. destruct (Inv_tree t (TS 0 [] [])) as (R & _ & Bb). simpl in R, Bb.
    specialize (Bb ltac:(lia)).
    unfold check_site. destruct (Z.leb_spec 0 j); [|lia].
    destruct (Z.ltb_spec j (t_idx (tvisit_list visit t (TS 0 [] [])))); [|lia]. simpl.
    rewrite R. unfold pick. destruct (Z.leb_spec 0 j); [|lia].
    destruct (Z.ltb_spec j (0 + zlen (tsites cand refuses t))); [|lia]. simpl.
    rewrite Z.sub_0_r, H. reflexivity.
  Qed.

  (* any other index is rejected, re-visited bodies notwithstanding *)
  Theorem tree_site_index_reject t :
    j < 0 \/ zlen (tsites cand refuses t) <= j -> trun cand refuses reps (Some j) t = Err RefErr.
  Proof.
    intros H. unfold trun, check_site.
    destruct (Z.leb_spec 0 j); [|reflexivity]. simpl.
    destruct (Inv_tree t (TS 0 [] [])) as (_ & Cc & _). simpl in Cc.
    rewrite Cc by lia. destruct (Z.ltb_spec j (zlen (tsites cand refuses t))); [lia|reflexivity].
  Qed.

  (* ---- aimed at nothing: every listed site is rewritten, nothing else ---- *)
  Definition InvN (V : tstate -> tstate) (L : list Z) : Prop :=
    forall st, exists extra,
      t_rewritten (V st) = t_rewritten st ++ extra /\ (forall l, In l extra <-> In l L).

  Lemma InvN_id : InvN (fun st => st) [].
  Proof. intros st. exists []. rewrite app_nil_r. split; [reflexivity|tauto]. Qed.

  Lemma InvN_comp V1 V2 L1 L2 : InvN V1 L1 -> InvN V2 L2 -> InvN (fun st => V2 (V1 st)) (L1 ++ L2).
  Proof.
    intros H1 H2 st. destruct (H1 st) as (e1 & R1 & I1). destruct (H2 (V1 st)) as (e2 & R2 & I2).
    exists (e1 ++ e2). rewrite R2, R1, app_assoc. split; [reflexivity|].
    intros l. rewrite !in_app_iff, I1, I2. tauto.
  Qed.

  Lemma InvN_ext V V' L : (forall st, V st = V' st) -> InvN V L -> InvN V' L.
  Proof. intros E H st. rewrite <- E. apply H. Qed.

  Lemma InvN_repeat V L n : InvN V L -> InvN (repeat_visit V (S n)) L.
  Proof.
    intros H. induction n as [|n IH]; intros st.
    - simpl. apply H.
    - change (repeat_visit V (S (S n)) st) with (repeat_visit V (S n) (V st)).
      destruct (H st) as (e1 & R1 & I1). destruct (IH (V st)) as (e2 & R2 & I2).
      exists (e1 ++ e2). rewrite R2, R1, app_assoc. split; [reflexivity|].
      intros l. rewrite in_app_iff, I1, I2. tauto.
  Qed.

  Notation visitN := (tvisit cand refuses reps None).

  Lemma InvN_list ss :
    Forall (fun s => InvN (fun st => visitN st s) (listing is_site s)) ss ->
    InvN (tvisit_list visitN ss) (flat_map (listing is_site) ss).
  Proof.
    intros H. induction H as [|s r Hs Hr IH]; simpl.
    - apply InvN_id.
    - eapply InvN_ext; [|apply (InvN_comp _ _ _ _ Hs IH)]. reflexivity.
  Qed.

  Lemma InvN_stmt_step s :
    Forall (fun x => InvN (fun st => visitN st x) (listing is_site x)) (blocks_of s) ->
    InvN (fun st => visitN st s) (listing is_site s).
  Proof.
    intros HF. pose proof (InvN_list _ HF) as HB.
    rewrite listing_blocks. unfold is_site at 1.
    destruct (cand s) eqn:Ec; simpl andb.
    - destruct (refuses s) eqn:Er; simpl negb; cbv iota; simpl app.
      + intros st. rewrite tvisit_unfold, Ec, Er. unfold visit_blocks.
        destruct (HB (TS (t_idx st) (t_rewritten st) (t_refused st ++ [label s]))) as (e & R & I).
        exists e. split; [exact R|exact I].
      + intros st. rewrite tvisit_unfold, Ec, Er. unfold visit_blocks.
        change (selects None (t_idx st)) with true. cbv iota.
        destruct (InvN_repeat _ _ reps HB (TS (t_idx st + 1) (t_rewritten st ++ [label s]) (t_refused st)))
          as (e & R & I).
        cbn [t_rewritten] in R. exists (label s :: e). split.
        * transitivity ((t_rewritten st ++ [label s]) ++ e); [exact R|].
          rewrite <- app_assoc. reflexivity.
        * intros l. simpl. rewrite I. tauto.
    - simpl app. intros st. rewrite tvisit_unfold, Ec. apply HB.
  Qed.

  Lemma InvN_stmt s : InvN (fun st => visitN st s) (listing is_site s).
  Proof.
    induction s as [l|l b IH|l a b IHa IHb] using stmt_ind2; apply InvN_stmt_step; simpl blocks_of.
    - constructor.
    - exact IH.
    - apply Forall_app. split; assumption.
  Qed.

  Theorem tree_site_index_all t :
    exists rw, trun cand refuses reps None t = Ok rw /\ (forall l, In l rw <-> In l (tsites cand refuses t)).
  Proof.
    unfold trun. simpl check_site. cbv iota.
    assert (H : InvN (tvisit_list visitN t) (tsites cand refuses t)).
    { rewrite tsites_spec. apply InvN_list. apply Forall_forall. intros s _. apply InvN_stmt. }
    destruct (H (TS 0 [] [])) as (e & R & I). simpl in R.
    exists e. rewrite R. split; [reflexivity|exact I].
  Qed.
End TreeSitesProofs.
