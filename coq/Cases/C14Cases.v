(* Correspondence cases of property C14 (a): one constructor per AbstractFormat
   entry point; `run14` is what the model says the entry point returns. *)
From Coq Require Import ZArith List Bool.
From FpyV Require Import Num.RealFloat Num.Float Num.Out Analysis.AbsFormat.
Import ListNotations.
Open Scope Z_scope.

Inductive op14 :=
  | ANeg (A : absfmt) | AAbs (A : absfmt)
  | AAdd (A B : absfmt) | ASub (A B : absfmt) | AMul (A B : absfmt)
  | AOr (A B : absfmt) | AAnd (A B : absfmt) | ALe (A B : absfmt)
  | AEffPrec (A : absfmt) | AMem (A : absfmt) (v : fl)
  | XAdd (x y : fl) | XSub (x y : fl) | XMul (x y : fl) | XNeg (x : fl) | XAbs (x : fl).

Inductive out14 := RAf (A : absfmt) | RErr (e : err) | RB (b : bool) | RExt (e : ext) | RFl (v : fl).

Definition bnd_identical (a b : bnd) : bool :=
  match a, b with
  | BFin x, BFin y => rf_identical x y
  | BInf s, BInf t => eqb s t
  | BNaN, BNaN => true
  | _, _ => false
  end.

Definition af_identical (A B : absfmt) : bool :=
  ext_eqb (a_prec A) (a_prec B) && ext_eqb (a_exp A) (a_exp B) &&
  bnd_identical (a_pos A) (a_pos B) && bnd_identical (a_neg A) (a_neg B) &&
  eqb (a_pinf A) (a_pinf B) && eqb (a_ninf A) (a_ninf B) && eqb (a_nan A) (a_nan B) && eqb (a_nz A) (a_nz B).

(* same value: class, sign (of zeros and infinities too), real value; NaN = NaN *)
Definition fl_same (x y : fl) : bool :=
  match x, y with
  | FNaN _, FNaN _ => true
  | FInf s, FInf t => eqb s t
  | FFin a, FFin b => eqb (rs a) (rs b) && match rf_compare a b with Eq => true | _ => false end
  | _, _ => false
  end.

Definition out14_eqb (a b : out14) : bool :=
  match a, b with
  | RAf x, RAf y => af_identical x y
  | RErr x, RErr y => err_eqb x y
  | RB x, RB y => eqb x y
  | RExt x, RExt y => ext_eqb x y
  | RFl x, RFl y => fl_same x y
  | _, _ => false
  end.

Definition of_res {T} (f : T -> out14) (r : result T) : out14 :=
  match r with Ok a => f a | Err e => RErr e end.

Definition run14 (o : op14) : out14 :=
  match o with
  | ANeg A => RAf (af_neg A)
  | AAbs A => RAf (af_abs A)
  | AAdd A B => of_res RAf (af_add A B)
  | ASub A B => of_res RAf (af_sub A B)
  | AMul A B => of_res RAf (af_mul A B)
  | AOr A B => RAf (af_or A B)
  | AAnd A B => RAf (af_and A B)
  | ALe A B => RB (af_le A B)
  | AEffPrec A => of_res RExt (effective_prec A)
  | AMem A v => RB (mem A v)
  | XAdd x y => RFl (fl_add x y)
  | XSub x y => RFl (fl_sub x y)
  | XMul x y => RFl (fl_mul x y)
  | XNeg x => RFl (fl_neg x)
  | XAbs x => RFl (fl_abs x)
  end.

(* the same entry points of the repaired code (fixes/C14-*.diff); `AMul` has two
   independent repairs, hence four variants *)
Definition run14_fx (o : op14) : list out14 :=
  match o with
  | ANeg A => [RAf (af_neg_fx A)]
  | AAbs A => [RAf (af_abs_fx A)]
  | AMul A B => [of_res RAf (af_mul_gen true false A B); of_res RAf (af_mul_gen false true A B);
                 of_res RAf (af_mul_gen true true A B)]
  | ALe A B => [RB (af_le_fx A B)]
  | _ => []
  end.

Definition check14 (c : op14 * out14) : bool :=
  out14_eqb (run14 (fst c)) (snd c) || existsb (fun r => out14_eqb r (snd c)) (run14_fx (fst c)).

(* which behaviour was observed: the code as modelled (true) or a repaired variant (false) *)
Definition as_coded14 (c : op14 * out14) : bool := out14_eqb (run14 (fst c)) (snd c).
