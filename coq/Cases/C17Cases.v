(* Correspondence cases of C17 (wire format of Num/Decode.v):
   0 : RealFloat.round   x max_p min_n rm k rb   -> result (rf*flags), raw encoding
   1 : Context.round     ctx x n rb              -> result (fl*flags), canonical value + inexact/overflow
   2 : ops.<op>          op ctx args rb          -> as C02 *)
From Coq Require Import ZArith List Bool.
From FpyV Require Import Num.RealFloat Num.Float Num.CtxDef Num.Ctx Num.Arith Num.Out Num.Decode Cases.C01Cases Cases.C02Cases.
Import ListNotations.
Open Scope Z_scope.

Definition check_line17 (l : list Z) : bool :=
  match l with
  | 0 :: l =>
      match (x <- d_rf ;; p <- d_opt d_z ;; n <- d_opt d_z ;; rm <- d_rm ;; k <- d_opt d_z ;; rb <- d_z ;;
             o <- d_rff_result ;; d_ret (rff_eqb (rf_round_k x p n rm k rb) o)) l with
      | Some (b, []) => b | _ => false end
  | 1 :: l =>
      match (c <- d_ctx ;; x <- d_fl ;; n <- d_opt d_z ;; rb <- d_z ;; o <- d_rfl_result ;;
             d_ret (rfl_eqb (ctx_round c x n rb) o)) l with
      | Some (b, []) => b | _ => false end
  | 2 :: l =>
      (* an arithmetic operation through the engines under a stochastic context: op ctx nargs args rb obs *)
      match (op <- d_aop ;; c <- d_ctx ;; n <- d_z ;; args <- d_list d_fl (Z.to_nat n) ;; rb <- d_z ;; o <- d_obs ;;
             d_ret (obs_agrees (arith_rb op c args rb) o)) l with
      | Some (b, []) => b | _ => false end
  | _ => false
  end.
