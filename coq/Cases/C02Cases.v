(* Correspondence cases of C02 (wire format of Num/Decode.v):
   op ctx nargs args... outcome
   outcome: 0 fl flags | 1 err | 2 s num den (a Fraction returned under REAL) *)
From Coq Require Import ZArith List Bool.
From FpyV Require Import Num.RealFloat Num.Float Num.CtxDef Num.Ctx Num.Arith Num.Out Num.Decode Cases.C01Cases.
Import ListNotations.
Open Scope Z_scope.

Definition d_aop : dec aop :=
  t <- d_z ;;
  d_ret (match t with
         | 0 => AAdd | 1 => ASub | 2 => AMul | 3 => ADiv | 4 => AFma | 5 => ASqrt | 6 => ANeg | 7 => AFabs
         | 8 => ACopysign | 9 => AFdim | 10 => AFloor | 11 => ACeil | 12 => ATrunc | 13 => ARoundint
         | 14 => AFmod | 15 => ARemainder | 16 => AMod | _ => ANearbyint end).

Fixpoint d_list {A} (d : dec A) (n : nat) : dec (list A) :=
  match n with
  | O => d_ret []
  | S n' => x <- d ;; xs <- d_list d n' ;; d_ret (x :: xs)
  end.

Inductive obs := ObsFl (x : fl) (f : flags) | ObsErr (e : err) | ObsQ (s : bool) (n d : Z).

Definition d_obs : dec obs :=
  t <- d_z ;;
  if t =? 0 then (x <- d_fl ;; f <- d_flags ;; d_ret (ObsFl x f))
  else if t =? 1 then (e <- d_err ;; d_ret (ObsErr e))
  else (s <- d_bool ;; n <- d_z ;; d <- d_z ;; d_ret (ObsQ s n d)).

Definition obs_agrees (m : result (xv * flags)) (o : obs) : bool :=
  match m, o with
  | Ok (XFl x, f), ObsFl y g => rfl_eqb (Ok (x, f)) (Ok (y, g))
  | Ok (XQ s n d, _), ObsQ s' n' d' => eqb s s' && (n =? n') && (d =? d')
  | Err e, ObsErr e' => err_eqb e e'
  | _, _ => false
  end.

Definition check_line2 (l : list Z) : bool :=
  match (op <- d_aop ;; c <- d_ctx ;; n <- d_z ;; args <- d_list d_fl (Z.to_nat n) ;; o <- d_obs ;;
         d_ret (obs_agrees (arith op c args) o)) l with
  | Some (b, []) => b
  | _ => false
  end.
