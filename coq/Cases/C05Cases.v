(* Correspondence cases of property C05: one constructor per implementation
   entry point; `run5` is what the model says the entry point returns. *)
From Coq Require Import ZArith List Bool.
From FpyV Require Import Num.RealFloat Num.Float Num.Out.
Import ListNotations.
Open Scope Z_scope.

(* compare a RealFloat with the fraction num/den (den > 0), exactly *)
Definition rf_compare_frac (x : rf) (num den : Z) : comparison :=
  if rexp x >=? 0 then (rf_m x * 2 ^ rexp x * den) ?= num
  else (rf_m x * den) ?= (num * 2 ^ (- rexp x)).

Inductive op5 :=
  | RAdd (x y : rf) | RSub (x y : rf) | RMul (x y : rf) | RPow (x : rf) (k : Z)
  | RNeg (x : rf) | RPos (x : rf) | RAbs (x : rf) | RCmp (x y : rf) | RCmpFrac (x : rf) (num den : Z)
  | RSplit (x : rf) (n : Z) | RNorm (x : rf) (p n : option Z) | RInt (x : rf)
  | RMoreSig (x : rf) (n : Z) | RBit (x : rf) (n : Z) | RHash (x : rf)
  | FAdd (x y : fl) | FSub (x y : fl) | FMul (x y : fl) | FPow (x : fl) (k : Z)
  | FNeg (x : fl) | FPos (x : fl) | FAbs (x : fl) | FCmp (x y : fl)
  | FSplit (x : fl) (n : Z) | FInt (x : fl) | FHash (x : fl).

Definition run5 (o : op5) : out :=
  match o with
  | RAdd x y => ORf (rf_add x y)
  | RSub x y => ORf (rf_sub x y)
  | RMul x y => ORf (rf_mul x y)
  | RPow x k => of_result ORf (rf_pow x k)
  | RNeg x => ORf (rf_neg x)
  | RPos x => ORf (rf_pos x)
  | RAbs x => ORf (rf_abs x)
  | RCmp x y => OCmp (Some (rf_compare x y))
  | RCmpFrac x n d => OCmp (Some (rf_compare_frac x n d))
  | RSplit x n => let '(h, l) := split x n in OPair (ORf h) (ORf l)
  | RNorm x p n => of_result ORf (normalize x p n)
  | RInt x => of_result OZ (rf_to_int x)
  | RMoreSig x n => OB (is_more_significant x n)
  | RBit x n => OB (rf_bit x n)
  | RHash x => OKey (rf_hash_key x)
  | FAdd x y => OFl (fl_add x y)
  | FSub x y => OFl (fl_sub x y)
  | FMul x y => OFl (fl_mul x y)
  | FPow x k => of_result OFl (fl_pow x k)
  | FNeg x => OFl (fl_neg x)
  | FPos x => OFl (fl_pos x)
  | FAbs x => OFl (fl_abs x)
  | FCmp x y => OCmp (fl_compare x y)
  | FSplit x n => let '(h, l) := fl_split x n in OPair (OFl h) (OFl l)
  | FInt x => of_result OZ (fl_to_int x)
  | FHash x => OKey (fl_hash_key x)
  end.

Definition check5 (c : op5 * out) : bool := out_eqb (run5 (fst c)) (snd c).
