(* Correspondence cases of property C08.  A case is: a program, its entry
   function, a transform configuration, the function the REAL strategy returned
   (exported), and runs (arguments, caller context, what fpy2 returned for the
   original, what fpy2 returned for the transformed function).
   `check8` decides:
     (s) the real output equals the model's output up to a bijective renaming
         of names that fixes the names of the original function;
     (p) the property instance on the implementation: whenever the original
         returned v, the transformed returned the same value;
     (m) the Gallina evaluator on the original program agrees with fpy2 on the
         original, and on the MODEL's output agrees with fpy2 on the real output. *)
From Coq Require Import ZArith List Bool String.
From FpyV Require Import Num.RealFloat Num.Float Num.CtxDef Num.Out
  Lang.Syntax Lang.Values Lang.Sem Lang.NumInst
  Lang.Transforms.Common Lang.Transforms.WhileUnroll Lang.Transforms.ForUnroll Lang.Transforms.SplitLoop
  Lang.Transforms.IterElim Lang.Transforms.ReduceFusion Lang.Transforms.NumInt.
Import ListNotations.
Open Scope Z_scope.

Definition fuel8 : nat := 3000.

Inductive tcfg :=
  | TWhile (w : sel) (times : nat)
  | TFor (w : sel) (times : nat) (strict : bool) (sizes : list (option Z))
  | TSplit (w : sel) (fac : factor) (strict : bool) (sizes : list (option Z))
  | TIter (en_enum en_zip : bool)
  | TFuse.

Definition apply_t (t : tcfg) (fn : func) : func :=
  match t with
  | TWhile w k => while_unroll w k fn
  | TFor w k st sz => for_unroll w k st sz fn
  | TSplit w f st sz => split_loop w f st sz fn
  | TIter e z => elim_iter e z fn
  | TFuse => reduce_fusion fn
  end.

(* arguments, caller context, does the transform's precondition hold on this input, fpy2 on the original, fpy2 on the transformed *)
(* the same transform with the PROPOSED REPAIRS (fixes/C08-*.diff) applied; only elim_iter and fuse differ *)
Definition apply_t_fixed (t : tcfg) (fn : func) : func :=
  match t with
  | TIter e z => elim_iter_fixed e z fn
  | TFuse => reduce_fusion_fixed fn
  | _ => apply_t t fn
  end.

(* arguments, caller context, does the transform's precondition hold on this input, fpy2 on the original, fpy2 on the transformed *)
Definition run8 := (list cval * option ctx * bool * res cval * res cval)%type.
Definition case8 := (program * ident * tcfg * func * list run8)%type.

Definition res_eqb (a b : res cval) : bool :=
  match a, b with
  | ROk x, ROk y => cval_eqb x y
  | RErr e, RErr f => err_eqb e f
  | RFuel, RFuel => true
  | _, _ => false
  end.

(* the property on one run: "returns the same value on every input on which the original returns" *)
Definition preserved (orig trans : res cval) : bool :=
  match orig with
  | ROk v => match trans with ROk v' => cval_eqb v v' | _ => false end
  | _ => true
  end.

Definition entry_fn (P : program) (f : ident) : func :=
  match lookup_fn P f with Some fn => fn | None => Func [] None [] end.

(* the names that may only correspond to themselves: the user's names that still occur in the model output
   (a name a pass removed altogether, e.g. a discarded comprehension target, is free for a later Gensym) *)
Definition fixed_names (P : program) (f : ident) (m : func) : list ident :=
  filter (fun x => mem x (func_names m)) (func_names (entry_fn P f)).

Definition matches (P : program) (f : ident) (m real : func) : bool :=
  func_alpha_eqb (fixed_names P f m) m real.

(* which model the real output equals: the transform as coded, else the repaired one *)
Definition coded_ok (c : case8) : bool :=
  let '(P, f, t, real, _) := c in matches P f (apply_t t (entry_fn P f)) real.

Definition fixed_ok (c : case8) : bool :=
  let '(P, f, t, real, _) := c in matches P f (apply_t_fixed t (entry_fn P f)) real.

Definition model_out (c : case8) : func :=
  let '(P, f, t, _, _) := c in
  if coded_ok c then apply_t t (entry_fn P f)
  else if fixed_ok c then apply_t_fixed t (entry_fn P f)
  else apply_t t (entry_fn P f).

Definition struct_ok (c : case8) : bool := coded_ok c || fixed_ok c.

(* the real output is the model output with a generated temporary merged into another name *)
Definition name_collision (c : case8) : bool :=
  let '(P, f, t, real, _) := c in
  negb (struct_ok c) && func_alpha_relaxed (fixed_names P f (apply_t t (entry_fn P f))) (apply_t t (entry_fn P f)) real.

Definition prop_ok (c : case8) : bool :=
  let '(_, _, _, _, runs) := c in forallb (fun r : run8 => let '(_, _, pre, o, t) := r in negb pre || preserved o t) runs.

Definition model_orig (P : program) (f : ident) (r : run8) : res cval :=
  let '(args, caller, _, _, _) := r in run c08_numops P fuel8 f args caller.

Definition model_trans (P : program) (f : ident) (m : func) (r : run8) : res cval :=
  let '(args, caller, _, _, _) := r in run c08_numops (prog_update P f (fun _ => m)) fuel8 f args caller.

Definition sem_ok (c : case8) : bool :=
  let '(P, f, t, _, runs) := c in
  forallb (fun r : run8 => let '(_, _, _, o, tr) := r in
             res_eqb (model_orig P f r) o && res_eqb (model_trans P f (model_out c) r) tr) runs.

Definition check8 (c : case8) : bool := struct_ok c && prop_ok c && sem_ok c.

(* diagnosis of a failing case: [struct_ok; name_collision; coded_ok; then per run: property instance holds (or precondition fails),
   model = fpy2 on the original, model = fpy2 on the transformed] *)
Definition diag8 (c : case8) : list bool :=
  let '(P, f, t, _, runs) := c in
  struct_ok c :: name_collision c :: coded_ok c ::
  flat_map (fun r : run8 => let '(_, _, pre, o, tr) := r in
          [negb pre || preserved o tr; res_eqb (model_orig P f r) o; res_eqb (model_trans P f (model_out c) r) tr]) runs.

(* what the model computes on a run (for replays) *)
Definition model8 (c : case8) : list (res cval * res cval) :=
  let '(P, f, t, _, runs) := c in map (fun r => (model_orig P f r, model_trans P f (model_out c) r)) runs.
