(* C07 correspondence cases: one step of the simplify pipeline
     (pass, program with the callees, the function the pass was given, the function it returned)
   is compared with the Gallina models and run through the verified validators.
   The result is a bit set (see `step_code`). *)
From Coq Require Import ZArith List Bool String.
From FpyV Require Import Num.RealFloat Num.Float Num.CtxDef Lang.Syntax Lang.Values Lang.Sem Lang.NumInst.
From FpyV Require Import Lang.Transforms.SimpDefs Lang.Transforms.SimpRw Lang.Transforms.SimpDce.
Import ListNotations.
Open Scope Z_scope.

Inductive pass := PConstFold | PCopyProp | PDce.

Definition case7 := (pass * program * func * func)%type.

Definition VFUEL : nat := 400.

(* ---------------------------------------------------------------- claims, checked with the provisional numbers *)
Definition q_ctx_indep (e : expr) : bool :=
  match e with
  | EOp0 _ | EOp1 _ _ | EOp2 _ _ _ | EOp3 _ _ _ _ | ESum _ | EDim _ | ESize _ _ | ECompare _ _
  | EMin _ | EMax _ | EAMin _ | EAMax _ | ECall _ _ => false
  | _ => true
  end.

(* "cl_e evaluates to the value of cl_lit" (same number up to the encoding) *)
Definition claim_ok_prov (cl : claim) : bool :=
  let s := env_of_facts (cl_env cl) in
  let C := match cl_ctx cl with Some C => Some C
           | None => if expr_all q_ctx_indep (cl_e cl) then Some CReal else None end in
  match C, lit_val (cl_lit cl) with
  | Some C, Some w =>
      match eval prov_numops [] 200 s [] C (cl_e cl) with
      | ROk (v, mu) =>
          match extract 60 mu v, extract 60 [] w with
          | Some a, Some b => cval_eqb a b
          | _, _ => false
          end
      | _ => false
      end
  | _, _ => false
  end.

Definition guess_ctx_prov (E : facts) (e : expr) : option ctx :=
  match eval prov_numops [] 200 (env_of_facts E) [] CReal e with
  | ROk (VCtx c, _) => Some c
  | _ => None
  end.

Definition validate_constfold (d : nat) := vrw_func 20 claim_ok_prov guess_ctx_prov d.

(* ---------------------------------------------------------------- the code of a step *)
Definition b2n (b : bool) (w : nat) : nat := if b then w else O.

Definition func_eqb (a b : func) : bool :=
  idents_eqb (f_params a) (f_params b) && octx_eqb (f_ctx a) (f_ctx b) && block_eqb (f_body a) (f_body b).

(* bits:  1  the output equals the AS-CODED model's output
          2  the output equals the REPAIRED model's output
          4  the verified validator accepts (input, output)
          8  the as-coded and the repaired model agree on this input
         16  [copy-prop] the source guard (the one repair not in /repo) changes the output on this input
        128  the validator accepts (input, repaired model's output) *)
Definition step_code (c : case7) : nat :=
  let '(ps, P, fn, fn') := c in
  let out := f_body fn' in
  match ps with
  | PCopyProp =>
      let ac := copyprop_as_coded fn in
      let fx := copyprop_fixed fn in
      (b2n (block_eqb ac out) 1 + b2n (block_eqb fx out) 2 +
       b2n (validate_copyprop VFUEL fn fn') 4 + b2n (block_eqb ac fx) 8 +
       b2n (negb (block_eqb ac fx)) 16 +
       b2n (validate_copyprop VFUEL fn (with_body fn fx)) 128)%nat
  | PDce =>
      let ac := dce_as_coded P fn in
      let fx := dce_fixed P fn in
      (b2n (block_eqb ac out) 1 + b2n (block_eqb fx out) 2 +
       b2n (validate_dce VFUEL fn fn') 4 + b2n (block_eqb ac fx) 8 +
       b2n (validate_dce VFUEL fn (with_body fn fx)) 128)%nat
  | PConstFold =>
      (* no executable model of PartialEval: the output is validated only *)
      (b2n (func_eqb fn fn') 3 + b2n (validate_constfold VFUEL fn fn') 4 + 8)%nat
  end.

Definition codes7 (l : list case7) : list nat := map step_code l.

(* parameters / declared context untouched by every pass *)
Definition header_ok (c : case7) : bool :=
  let '(_, _, fn, fn') := c in
  idents_eqb (f_params fn) (f_params fn') && octx_eqb (f_ctx fn) (f_ctx fn').

(* ---------------------------------------------------------------- value_to_literal *)
Definition case_lit := (cval * option expr)%type.

Definition check_lit (c : case_lit) : bool :=
  match literal_of_value (fst c), snd c with
  | Some e, Some e' => expr_eqb e e'
  | None, None => true
  | _, _ => false
  end.

(* ---------------------------------------------------------------- model runs (for the refutation witnesses) *)
Definition run7 (P : program) (f : ident) (args : list cval) : res cval := run prov_numops P 400 f args None.
