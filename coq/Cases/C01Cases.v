(* Correspondence cases of C01 in the flat wire format (Num/Decode.v):
   0 : RealFloat.round      x max_p min_n rm            -> result (rf*flags), raw encoding, all flags
   1 : RealFloat.round_at   x n p rm                    -> same
   2 : to_direction         rm s                        -> nearest dir
   3 : Context.round/_at    ctx x n rb                  -> result (fl*flags), canonical value, inexact+overflow flags *)
From Coq Require Import ZArith List Bool.
From FpyV Require Import Num.RealFloat Num.Float Num.CtxDef Num.Ctx Num.Out Num.Decode.
Import ListNotations.
Open Scope Z_scope.

Definition rff_eqb (a b : result (rf * flags)) : bool :=
  match a, b with
  | Ok (x, f), Ok (y, g) => rf_identical x y && flags_eqb f g
  | Err e, Err e' => err_eqb e e'
  | _, _ => false
  end.

Definition rfl_eqb (a b : result (fl * flags)) : bool :=
  match a, b with
  | Ok (x, f), Ok (y, g) =>
      fl_identical (fl_canon x) (fl_canon y) &&
      eqb (f_inexact f) (f_inexact g) && eqb (f_overflow f) (f_overflow g)
  | Err e, Err e' => err_eqb e e'
  | _, _ => false
  end.

Definition dir_code (d : rdir) : Z := match d with DTZ => 0 | DAZ => 1 | DTE => 2 | DTO => 3 end.

Definition check_line1 (l : list Z) : bool :=
  match l with
  | 0 :: l =>
      match (x <- d_rf ;; p <- d_opt d_z ;; n <- d_opt d_z ;; rm <- d_rm ;; o <- d_rff_result ;;
             d_ret (rff_eqb (rf_round x p n rm false) o)) l with
      | Some (b, []) => b | _ => false end
  | 1 :: l =>
      match (x <- d_rf ;; n <- d_z ;; p <- d_opt d_z ;; rm <- d_rm ;; o <- d_rff_result ;;
             d_ret (rff_eqb (rf_round_at x n p rm false) o)) l with
      | Some (b, []) => b | _ => false end
  | 2 :: l =>
      match (rm <- d_rm ;; s <- d_bool ;; nr <- d_bool ;; d <- d_z ;;
             d_ret (let '(nr', d') := to_direction rm s in eqb nr nr' && (dir_code d' =? d))) l with
      | Some (b, []) => b | _ => false end
  | 3 :: l =>
      match (c <- d_ctx ;; x <- d_fl ;; n <- d_opt d_z ;; rb <- d_z ;; o <- d_rfl_result ;;
             d_ret (rfl_eqb (ctx_round c x n rb) o)) l with
      | Some (b, []) => b | _ => false end
  | _ => false
  end.

(* what the model returns, for replay files *)
Definition show_line1 (l : list Z) : option (result (fl * flags)) :=
  match l with
  | 3 :: l =>
      match (c <- d_ctx ;; x <- d_fl ;; n <- d_opt d_z ;; rb <- d_z ;; d_ret (ctx_round c x n rb)) l with
      | Some (r, _) => Some r | None => None end
  | 0 :: l =>
      match (x <- d_rf ;; p <- d_opt d_z ;; n <- d_opt d_z ;; rm <- d_rm ;; d_ret (wrap_fin (rf_round x p n rm false))) l with
      | Some (r, _) => Some r | None => None end
  | _ => None
  end.
