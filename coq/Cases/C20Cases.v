(* Case evaluator for the C20 correspondence: runs the (regenerated) library
   program on RealFloat operands, and the hand-written decomposition models. *)
From Coq Require Import ZArith List Bool String.
From FpyV Require Import Num.RealFloat Num.Float Num.Out Lib.Eft Lib.Decomp.
Import ListNotations.
Open Scope Z_scope.

Inductive case20 :=
  | KEft (fc : fctx) (f : string) (args : list rf)            (* eft.f(args..., ctx=fc) or core.ldexp *)
  | KSplit (fc : fctx) (x n : fl)
  | KModf (fc : fctx) (x : fl)
  | KFrexp (v : frexp_variant) (fc : fctx) (xctx : option (Z * option Z)) (x : fl).

Definition o_rfl (l : list rf) : out := OList (map ORf l).
Definition o_fl2 (p : fl * fl) : out := OPair (OFl (fst p)) (OFl (snd p)).

Definition run20 (P : prog) (c : case20) : out :=
  match c with
  | KEft fc f args => of_result o_rfl (call (numF fc) FUEL P f args)
  | KSplit fc x n => of_result o_fl2 (core_split fc x n)
  | KModf fc x => of_result o_fl2 (core_modf fc x)
  | KFrexp v fc xctx x => of_result o_fl2 (core_frexp v fc xctx x)
  end.

(* results are compared as values: class, sign (of zeros and infinities too for
   Float results), real value -- not as encodings *)
Definition fl_eqv (x y : fl) : bool :=
  match x, y with
  | FFin a, FFin b => rf_eqb a b && Bool.eqb (rs a) (rs b)
  | FInf s, FInf t => Bool.eqb s t
  | FNaN _, FNaN _ => true
  | _, _ => false
  end.

Fixpoint out_eqv (a b : out) {struct a} : bool :=
  match a, b with
  | ORf x, ORf y => rf_eqb x y
  | OFl x, OFl y => fl_eqv x y
  | OPair a1 a2, OPair b1 b2 => out_eqv a1 b1 && out_eqv a2 b2
  | OErr x, OErr y => err_eqb x y
  | OList l, OList m =>
      (fix go (l : list out) (m : list out) : bool :=
         match l, m with
         | [], [] => true
         | x :: l', y :: m' => out_eqv x y && go l' m'
         | _, _ => false
         end) l m
  | _, _ => false
  end.

Definition check20 (P : prog) (ce : case20 * out) : bool := out_eqv (run20 P (fst ce)) (snd ce).
