(* C12 — correspondence cases: the harness prints what the real compiler /
   FPCoreContext did, Coq decides whether the model does the same. *)
From Coq Require Import ZArith List String Bool.
From FpyV Require Import Backend.FPCore Backend.ToFPCore Backend.FromFPCore.
Import ListNotations.
Open Scope Z_scope.

Definition rmode_eqb (a b : rmode) : bool :=
  match a, b with
  | RNE, RNE | RNA, RNA | RTP, RTP | RTN, RTN | RTZ, RTZ | RAZ, RAZ | RTO, RTO | RTE, RTE => true
  | _, _ => false
  end.

Definition ovmode_eqb (a b : ovmode) : bool :=
  match a, b with
  | OvOverflow, OvOverflow | OvSaturate, OvSaturate | OvWrap, OvWrap => true
  | _, _ => false
  end.

Definition ctx_eqb (a b : ctx) : bool :=
  match a, b with
  | CIEEE e n r o, CIEEE e' n' r' o' => (e =? e') && (n =? n') && rmode_eqb r r' && ovmode_eqb o o'
  | CMPFixed n r, CMPFixed n' r' => (n =? n') && rmode_eqb r r'
  | CFixed s a n r o, CFixed s' a' n' r' o' =>
      Bool.eqb s s' && (a =? a') && (n =? n') && rmode_eqb r r' && ovmode_eqb o o'
  | CReal, CReal => true
  | COther t, COther t' => t =? t'
  | _, _ => false
  end.

Definition precv_eqb (a b : precv) : bool :=
  match a, b with
  | PSym s, PSym s' => String.eqb s s'
  | PFloat e n, PFloat e' n' => (e =? e') && (n =? n')
  | PFixed x y, PFixed x' y' => (x =? x') && (y =? y')
  | _, _ => false
  end.

Definition opt_eqb {A} (eq : A -> A -> bool) (a b : option A) : bool :=
  match a, b with
  | Some x, Some y => eq x y
  | None, None => true
  | _, _ => false
  end.

Definition props_eqb (a b : props) : bool :=
  opt_eqb precv_eqb (p_prec a) (p_prec b) && opt_eqb String.eqb (p_round a) (p_round b) &&
  opt_eqb String.eqb (p_ovf a) (p_ovf b) && opt_eqb Z.eqb (p_n a) (p_n b).

Definition unop_idx (o : unop) : nat :=
  match o with
  | UNeg => 0
  | UAbs => 1
  | USqrt => 2
  | UCbrt => 3
  | UCeil => 4
  | UFloor => 5
  | UNearbyInt => 6
  | URoundInt => 7
  | UTrunc => 8
  | UAcos => 9
  | UAsin => 10
  | UAtan => 11
  | UCos => 12
  | USin => 13
  | UTan => 14
  | UAcosh => 15
  | UAsinh => 16
  | UAtanh => 17
  | UCosh => 18
  | USinh => 19
  | UTanh => 20
  | UExp => 21
  | UExp2 => 22
  | UExpm1 => 23
  | ULog => 24
  | ULog10 => 25
  | ULog1p => 26
  | ULog2 => 27
  | UErf => 28
  | UErfc => 29
  | ULgamma => 30
  | UTgamma => 31
  end.
Definition unop_eqb (a b : unop) : bool := Nat.eqb (unop_idx a) (unop_idx b).
Definition binop_idx (o : binop) : nat :=
  match o with
  | BAdd => 0
  | BSub => 1
  | BMul => 2
  | BDiv => 3
  | BCopysign => 4
  | BFdim => 5
  | BFmod => 6
  | BRemainder => 7
  | BHypot => 8
  | BAtan2 => 9
  | BPow => 10
  end.
Definition binop_eqb (a b : binop) : bool := Nat.eqb (binop_idx a) (binop_idx b).
Definition cmpop_eqb (a b : cmpop) : bool :=
  match a, b with
  | CLt, CLt | CLe, CLe | CGt, CGt | CGe, CGe | CEq, CEq | CNe, CNe => true
  | _, _ => false
  end.

Fixpoint cexpr_eqb (a b : cexpr) {struct a} : bool :=
  match a, b with
  | CVar x, CVar y => String.eqb x y
  | CLit x, CLit y => String.eqb x y
  | CNum x, CNum y => x =? y
  | CUn o x, CUn o' y => unop_eqb o o' && cexpr_eqb x y
  | CBin o x1 x2, CBin o' y1 y2 => binop_eqb o o' && cexpr_eqb x1 y1 && cexpr_eqb x2 y2
  | CCmp o x1 x2, CCmp o' y1 y2 => cmpop_eqb o o' && cexpr_eqb x1 y1 && cexpr_eqb x2 y2
  | CAnd x1 x2, CAnd y1 y2 => cexpr_eqb x1 y1 && cexpr_eqb x2 y2
  | COr x1 x2, COr y1 y2 => cexpr_eqb x1 y1 && cexpr_eqb x2 y2
  | CNot x, CNot y => cexpr_eqb x y
  | CIf c t f, CIf c' t' f' => cexpr_eqb c c' && cexpr_eqb t t' && cexpr_eqb f f'
  | CLet s bs e, CLet s' bs' e' => Bool.eqb s s' && binds_eqb bs bs' && cexpr_eqb e e'
  | CWhile s c ws e, CWhile s' c' ws' e' =>
      Bool.eqb s s' && cexpr_eqb c c' && wbinds_eqb ws ws' && cexpr_eqb e e'
  | CFor s i n ws e, CFor s' i' n' ws' e' =>
      Bool.eqb s s' && String.eqb i i' && cexpr_eqb n n' && wbinds_eqb ws ws' && cexpr_eqb e e'
  | CAnn p e, CAnn p' e' => props_eqb p p' && cexpr_eqb e e'
  | _, _ => false
  end
with binds_eqb (a b : binds) {struct a} : bool :=
  match a, b with
  | LNil, LNil => true
  | LCons x e bs, LCons x' e' bs' => String.eqb x x' && cexpr_eqb e e' && binds_eqb bs bs'
  | _, _ => false
  end
with wbinds_eqb (a b : wbinds) {struct a} : bool :=
  match a, b with
  | WNil, WNil => true
  | WCons x i u ws, WCons x' i' u' ws' =>
      String.eqb x x' && cexpr_eqb i i' && cexpr_eqb u u' && wbinds_eqb ws ws'
  | _, _ => false
  end.

Fixpoint list_eqb {A} (eq : A -> A -> bool) (a b : list A) : bool :=
  match a, b with
  | [], [] => true
  | x :: a', y :: b' => eq x y && list_eqb eq a' b'
  | _, _ => false
  end.

Definition cprog_eqb (a b : cprog) : bool :=
  list_eqb String.eqb (cp_args a) (cp_args b) && props_eqb (cp_props a) (cp_props b) &&
  cexpr_eqb (cp_body a) (cp_body b).

Fixpoint expr_eqb (a b : expr) : bool :=
  match a, b with
  | EVar x, EVar y => String.eqb x y
  | ELit x, ELit y => String.eqb x y
  | ERNum x, ERNum y => x =? y
  | EInt x, EInt y => x =? y
  | EUn o x, EUn o' y => unop_eqb o o' && expr_eqb x y
  | EBin o x1 x2, EBin o' y1 y2 => binop_eqb o o' && expr_eqb x1 y1 && expr_eqb x2 y2
  | _, _ => false
  end.

Fixpoint bexp_eqb (a b : bexp) : bool :=
  match a, b with
  | BCmp o x1 x2, BCmp o' y1 y2 => cmpop_eqb o o' && expr_eqb x1 y1 && expr_eqb x2 y2
  | BAnd x1 x2, BAnd y1 y2 => bexp_eqb x1 y1 && bexp_eqb x2 y2
  | BOr x1 x2, BOr y1 y2 => bexp_eqb x1 y1 && bexp_eqb x2 y2
  | BNot x, BNot y => bexp_eqb x y
  | _, _ => false
  end.

Fixpoint stmt_eqb (a b : stmt) {struct a} : bool :=
  match a, b with
  | SAssign x e, SAssign x' e' => String.eqb x x' && expr_eqb e e'
  | SWith c s, SWith c' s' => ctx_eqb c c' && block_eqb s s'
  | SIf c x t f, SIf c' x' t' f' => bexp_eqb c c' && String.eqb x x' && block_eqb t t' && block_eqb f f'
  | SIf1 c x t, SIf1 c' x' t' => bexp_eqb c c' && String.eqb x x' && block_eqb t t'
  | SWhile c x t, SWhile c' x' t' => bexp_eqb c c' && String.eqb x x' && block_eqb t t'
  | SFor i n x t, SFor i' n' x' t' => String.eqb i i' && expr_eqb n n' && String.eqb x x' && block_eqb t t'
  | SRet e, SRet e' => expr_eqb e e'
  | SPass, SPass => true
  | _, _ => false
  end
with block_eqb (a b : block) {struct a} : bool :=
  match a, b with
  | BNil, BNil => true
  | BCons s t, BCons s' t' => stmt_eqb s s' && block_eqb t t'
  | _, _ => false
  end.

Definition func_eqb (a b : func) : bool :=
  list_eqb String.eqb (f_args a) (f_args b) && opt_eqb ctx_eqb (f_ctx a) (f_ctx b) &&
  block_eqb (f_body a) (f_body b).

Definition read_check (fresh : gensym) (p : cprog) (obs : option func) : bool :=
  opt_eqb func_eqb (from_fpcore fresh p) obs.

Inductive case12 :=
  | KCompile (f : func) (obs : option cprog)   (* FPCoreCompiler output on the post-pass AST f *)
  | KCtxFrom (c : ctx) (obs : option props)    (* FPCoreContext.from_context(c).props, None = raised *)
  | KCtxTo (p : props) (obs : option ctx)      (* FPCoreContext of p, then to_context, None = NoSuchContextError *)
  | KRead (p : cprog) (obs : option func).     (* fpcore_to_fpy(p), None = raised / outside the subset *)

(* the code as it is today *)
Definition check12_coded (k : case12) : bool :=
  match k with
  | KCompile f obs => opt_eqb cprog_eqb (to_fpcore_as_coded f) obs
  | KCtxFrom c obs => opt_eqb props_eqb (from_context c) obs
  | KCtxTo p obs => opt_eqb ctx_eqb (to_context p) obs
  | KRead p obs => read_check fresh_coded p obs
  end.

(* covered by a soundness theorem: the output is that of the repaired
   translation, or that of the translation as coded on a program where no
   statement follows a `with` in its block (to_fpcore_as_coded_partial) *)
Definition check12_sound (k : case12) : bool :=
  match k with
  | KCompile f obs =>
      opt_eqb cprog_eqb (to_fpcore from_context true f) obs ||
      opt_eqb cprog_eqb (to_fpcore_fixed f) obs ||
      (opt_eqb cprog_eqb (to_fpcore_as_coded f) obs && wl_block (f_body f))
  | KCtxFrom c obs => opt_eqb props_eqb (from_context_fixed c) obs
  | KCtxTo p obs => opt_eqb ctx_eqb (to_context p) obs
  | KRead p obs => read_check fresh_fixed p obs
  end.
