(* Correspondence cases of property C13.

   case13: the callees (plain program), the entry function annotated with the
   facts the REAL analyses of fpy2 reported for it, and runs (arguments, caller
   context, what fpy2 returned).  `check13` decides
     (1) static:  the verified fact checkers accept the reported facts;
     (2) dynamic: on every run, the instrumented model execution agrees with
         fpy2's outcome and every event of its trace satisfies its fact
         (a direct evaluation of what the soundness theorems promise).
   table13: one entry of value_class.py's own transfer tables, which must be a
   superset of the best abstraction of the proved atom tables. *)
From Coq Require Import ZArith List Bool String.
From FpyV Require Import Num.RealFloat Num.Float Num.CtxDef Num.Out
  Lang.Syntax Lang.Values Lang.Sem Lang.NumInst
  Analysis.ClassLattice Analysis.Instr Analysis.FactClass Analysis.FactReach Analysis.FactConst.
Import ListNotations.
Open Scope Z_scope.

Definition fuel13 : nat := 3000.

Definition run13 := (list cval * option ctx * res cval)%type.
Definition case13 := (program * afunc ann * list run13)%type.

Definition res_eqb (a b : res cval) : bool :=
  match a, b with
  | ROk x, ROk y => cval_eqb x y
  | RErr e, RErr f => err_eqb e f
  | RFuel, RFuel => true
  | _, _ => false
  end.

Definition model13 (P : program) (f : afunc ann) (r : run13) : M ann (value * store) :=
  let '(args, caller, _) := r in
  let '(vs, mu) := inject_all args [] in
  icall ann okprov_numops P fuel13 f vs mu (match caller with Some c => c | None => FP64 end).

Definition outcome13 (m : M ann (value * store)) : res cval :=
  match snd m with
  | ROk (v, mu) => match extract fuel13 mu v with Some c => ROk c | None => RFuel end
  | RErr e => RErr e
  | RFuel => RFuel
  end.

(* the parameters' reported classes hold for the arguments (hypothesis of the theorem) *)
Definition args_ok13 (f : afunc ann) (r : run13) : bool :=
  let '(args, _, _) := r in
  let '(vs, _) := inject_all args [] in
  (Nat.eqb (List.length vs) (List.length (af_params f))) &&
  forallb (fun av => sat_cls (rep (fst (fst av))) (snd av)) (combine (af_params f) vs).

(* the verified checkers on the reported facts *)
Definition static_class13 (c : case13) : bool :=
  let '(_, f, _) := c in check_class_func R_prov (n_ctor okprov_numops) f.

Definition static_reach13 (c : case13) : bool :=
  let '(_, f, _) := c in check_reach_func (func_table f) f.

(* constants: the facts the checker cannot derive are dropped first (prune_const_func);
   the strict, proved checker must accept the rest *)
Definition pruned13 (c : case13) : afunc ann :=
  let '(P, f, _) := c in prune_const_func okprov_numops P f.

Definition static_const13 (c : case13) : bool :=
  let '(P, _, _) := c in check_const_func okprov_numops P (pruned13 c).

Definition static13 (c : case13) : bool := static_class13 c && static_reach13 c && static_const13 c.

(* (constant facts reported, constant facts certified) *)
Definition const_stats13 (c : case13) : nat * nat :=
  let '(_, f, _) := c in (nconst_f f, nconst_f (pruned13 c)).

Definition ev_ok13 (T : ptable) (ev : event ann) : bool :=
  ev_class_ok ev && ev_reach_okb T ev && ev_const_ok ev.

Definition dyn_run13 (P : program) (f : afunc ann) (r : run13) : bool :=
  let m := model13 P f r in
  res_eqb (outcome13 m) (snd r) &&
  (negb (args_ok13 f r) || forallb (ev_ok13 (func_table f)) (fst m)).

Definition dynamic13 (c : case13) : bool :=
  let '(P, f, runs) := c in forallb (dyn_run13 P f) runs.

Definition check13 (c : case13) : bool := static13 c && dynamic13 c.

(* the four verdicts of a case: class, reach, const, dynamic *)
Definition verdict13 (c : case13) : bool * bool * bool * bool :=
  (static_class13 c, static_reach13 c, static_const13 c, dynamic13 c).

Definition all_ok13 (v : bool * bool * bool * bool) : bool :=
  let '(a, b, c, d) := v in a && b && c && d.

(* diagnostics for a failing case: the three static verdicts; per run: outcome agrees,
   class / reach / const claims hold on the model trace, the model's outcome *)
Definition diag13 (c : case13) : (bool * bool * bool) * list (bool * (bool * bool * bool) * res cval) :=
  let '(P, f, runs) := c in
  ((static_class13 c, static_reach13 c, static_const13 c),
   map (fun r => let m := model13 P f r in
                 (res_eqb (outcome13 m) (snd r),
                  (forallb ev_class_ok (fst m), forallb (ev_reach_okb (func_table f)) (fst m), forallb ev_const_ok (fst m)),
                  outcome13 m)) runs).

(* ---------------------------------------------------------------- transfer tables of value_class.py *)
Inductive table13 :=
  | TAdd (a b r : Z)         (* _exact_add(a, b) = r *)
  | TMul (a b r : Z)         (* _exact_mul(a, b) = r *)
  | TLogb (a r : Z)          (* _map(_LOGB, a) = r *)
  | TRep (c : ctx) (r : Z).  (* representable_classes(c) = r *)

Definition check_table13 (t : table13) : bool :=
  match t with
  | TAdd a b r => leq (lift2 a_add (cls_of_Z a) (cls_of_Z b)) (cls_of_Z r)
  | TMul a b r => leq (lift2 a_mul (cls_of_Z a) (cls_of_Z b)) (cls_of_Z r)
  | TLogb a r => leq (lift1 a_logb (cls_of_Z a)) (cls_of_Z r)
  | TRep c r => leq (R_prov c c_top) (cls_of_Z r)
  end.
