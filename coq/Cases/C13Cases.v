(* Correspondence cases of property C13.

   case13: the callees (plain program), the entry function annotated with the
   facts the REAL analyses of fpy2 reported for it, and runs (arguments, caller
   context, what fpy2 returned).  `check13` decides
     (1) static:  the verified fact checkers accept the reported facts;
     (2) dynamic: on every run, the instrumented model execution agrees with
         fpy2's outcome and every event of its trace satisfies its fact
         (a direct evaluation of what the soundness theorems promise).
   table13: one entry of value_class.py's own transfer tables, which must be a
   superset of the best abstraction of the proved atom tables. *)
From Coq Require Import ZArith List Bool String.
From FpyV Require Import Num.RealFloat Num.Float Num.CtxDef Num.Out
  Lang.Syntax Lang.Values Lang.Sem Lang.NumInst
  Analysis.ClassLattice Analysis.Instr Analysis.FactClass.
Import ListNotations.
Open Scope Z_scope.

Definition fuel13 : nat := 3000.

Definition run13 := (list cval * option ctx * res cval)%type.
Definition case13 := (program * afunc ann * list run13)%type.

Definition res_eqb (a b : res cval) : bool :=
  match a, b with
  | ROk x, ROk y => cval_eqb x y
  | RErr e, RErr f => err_eqb e f
  | RFuel, RFuel => true
  | _, _ => false
  end.

Definition model13 (P : program) (f : afunc ann) (r : run13) : M ann (value * store) :=
  let '(args, caller, _) := r in
  let '(vs, mu) := inject_all args [] in
  icall ann okprov_numops P fuel13 f vs mu (match caller with Some c => c | None => FP64 end).

Definition outcome13 (m : M ann (value * store)) : res cval :=
  match snd m with
  | ROk (v, mu) => match extract fuel13 mu v with Some c => ROk c | None => RFuel end
  | RErr e => RErr e
  | RFuel => RFuel
  end.

(* the parameters' reported classes hold for the arguments (hypothesis of the theorem) *)
Definition args_ok13 (f : afunc ann) (r : run13) : bool :=
  let '(args, _, _) := r in
  let '(vs, _) := inject_all args [] in
  (Nat.eqb (List.length vs) (List.length (af_params f))) &&
  forallb (fun av => sat_cls (rep (fst (fst av))) (snd av)) (combine (af_params f) vs).

Definition static13 (c : case13) : bool :=
  let '(_, f, _) := c in check_class_func R_prov f.

Definition dyn_run13 (P : program) (f : afunc ann) (r : run13) : bool :=
  let m := model13 P f r in
  res_eqb (outcome13 m) (snd r) &&
  (negb (args_ok13 f r) || forallb ev_class_ok (fst m)).

Definition dynamic13 (c : case13) : bool :=
  let '(P, f, runs) := c in forallb (dyn_run13 P f) runs.

Definition check13 (c : case13) : bool := static13 c && dynamic13 c.

(* diagnostics for a failing case: which part failed, what the model says *)
Definition diag13 (c : case13) : bool * list (bool * bool * res cval) :=
  let '(P, f, runs) := c in
  (static13 c,
   map (fun r => let m := model13 P f r in
                 (res_eqb (outcome13 m) (snd r), forallb ev_class_ok (fst m), outcome13 m)) runs).

(* ---------------------------------------------------------------- transfer tables of value_class.py *)
Inductive table13 :=
  | TAdd (a b r : Z)         (* _exact_add(a, b) = r *)
  | TMul (a b r : Z)         (* _exact_mul(a, b) = r *)
  | TLogb (a r : Z)          (* _map(_LOGB, a) = r *)
  | TRep (c : ctx) (r : Z).  (* representable_classes(c) = r *)

Definition check_table13 (t : table13) : bool :=
  match t with
  | TAdd a b r => leq (lift2 a_add (cls_of_Z a) (cls_of_Z b)) (cls_of_Z r)
  | TMul a b r => leq (lift2 a_mul (cls_of_Z a) (cls_of_Z b)) (cls_of_Z r)
  | TLogb a r => leq (lift1 a_logb (cls_of_Z a)) (cls_of_Z r)
  | TRep c r => leq (R_prov c c_top) (cls_of_Z r)
  end.
