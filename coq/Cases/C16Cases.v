(* Correspondence cases of property C16.  To keep the case files small a case
   is a whole table: every bit pattern (or every candidate value, or every
   ordinal) of one format, with the list of what the implementation returned;
   `run16` is what the model returns.  The single-item operations (ODecode1,
   OValue1, OFromOrd1) are used to pin a disagreement down to one input. *)
From Coq Require Import ZArith List Bool.
From FpyV Require Import Num.RealFloat Num.Float Num.Out Num.Formats Num.Layout.
Import ListNotations.
Open Scope Z_scope.

Inductive fmt16 :=
  | FmE (f : efmt) | FmFix (f : fixfmt) | FmSM (f : smfmt) | FmExp (f : expfmt)
  | FmMPS (f : mpsfmt) | FmMPB (f : mpbfmt) | FmMPF (f : mpffmt) | FmMPBF (f : mpbffmt).

Record allops := ALL {
  a_valid : bool;
  a_ops : ordops;
  a_norm : fl -> result fl;
  a_canon : fl -> result bool;
  a_nbits : Z;
  a_decode : option (Z -> result fl);
  a_encode : option (fl -> result Z);
  a_queries : list out }.

Definition rf_params (x : rf) : list Z := [if rs x then 1 else 0; rexp x; rc x].
Definition ozs (l : list Z) : out := OList (map OZ l).
Definition ofl (r : result fl) : out := of_result OFl r.
Definition b2 {A} (f : bool -> A) : list A := [f false; f true].

Definition mpbf_all (fx : fixes) (g : mpbffmt) (valid : bool) (nbits : Z)
    (dec : option (Z -> result fl)) (enc : option (fl -> result Z)) : allops :=
  ALL (valid && mpbf_ctor_ok g) (mpbf_ops g) (mpbf_normalize fx g) (mpbf_canonical g) nbits dec enc
      ([ozs (g_nmin g :: rf_params (g_pos g) ++ rf_params (g_neg g) ++ [g_pos_ord g; g_neg_ord g])]
       ++ map ofl (b2 (mpbf_minval g)) ++ map ofl (b2 (mpbf_maxval g)) ++ map ofl (b2 (mpbf_infval g))
       ++ [ofl (mpbf_largest g); ofl (mpbf_smallest g)]).

Definition all_of (fx : fixes) (f : fmt16) : allops :=
  match f with
  | FmE e =>
      let m := ef_mpb e in
      ALL (ef_valid e) (ef_ops fx e) (ef_normalize fx e) (ef_canonical fx e) (e_nbits e)
          (Some (ef_decode e)) (Some (ef_encode fx e))
          ([ozs ([ef_pmax e; ef_emin e; ef_emax e; ef_expmin e; ef_expmax e; ef_nmin e; ef_m e; ef_ebias e]
                 ++ rf_params (b_pos m) ++ rf_params (b_neg m) ++ [b_pos_ord m; b_neg_ord m]);
            OB (ef_has_nonzero e)]
           ++ map ofl (b2 (ef_zero fx e)) ++ map ofl (b2 (ef_minval fx e))
           ++ map ofl (b2 (ef_max_subnormal fx e)) ++ map ofl (b2 (ef_min_normal fx e))
           ++ map ofl (b2 (ef_maxval fx e)) ++ map ofl (b2 (ef_infval e))
           ++ [ofl (ef_largest fx e); ofl (ef_smallest fx e)])
  | FmFix x => mpbf_all fx (fix_mpbf x) (fix_ctor_ok x) (x_nbits x) (Some (fix_decode x)) (Some (fix_encode x))
  | FmSM x => mpbf_all fx (sm_mpbf x) (sm_ctor_ok x) (m_nbits x) (Some (sm_decode x)) (Some (sm_encode x))
  | FmMPBF g => mpbf_all fx g true 0 None None
  | FmExp x =>
      ALL (exp_ctor_ok x) (exp_ops x) (exp_normalize x)
          (exp_canonical x)
          (p_nbits x) (Some (exp_decode x)) (Some (exp_encode x))
          ([ozs [exp_emin x; exp_emax x; exp_ebias x]]
           ++ map ofl (b2 (exp_minval x)) ++ map ofl (b2 (exp_maxval x))
           ++ map ofl (b2 (exp_infval x)) ++ [ofl (exp_maxval x false); ofl (exp_minval x false)])
  | FmMPS s =>
      ALL (mps_ctor_ok s) (mps_ops s) (mps_normalize s) (mps_canonical s) 0 None None
          ([ozs [s_expmin s; s_nmin s]]
           ++ map OFl (b2 (mps_zero s)) ++ map OFl (b2 (mps_minval s))
           ++ map OFl (b2 (mps_max_subnormal s)) ++ map OFl (b2 (mps_min_normal s)))
  | FmMPB m =>
      ALL (mpb_ctor_ok m) (mpb_ops m) (mpb_normalize m) (mpb_canonical m) 0 None None
          ([ozs [b_expmin m; b_nmin m; b_emax m; b_expmax m; b_pos_ord m; b_neg_ord m]]
           ++ map OFl (b2 (mpb_maxval m)) ++ map ofl (b2 (mpb_infval m)))
  | FmMPF g =>
      ALL true (mpf_ops g) (fun v => Ok (mpf_normalize fx g v)) (fun v => Ok (mpf_canonical g v)) 0 None None
          ([ozs [f_expmin g]] ++ map OFl (b2 (mpf_minval g)))
  end.

(* everything observable about one value *)
Definition value_ops (A : allops) (x : fl) : out :=
  let F := a_ops A in
  OList ([OB (oo_repr F x);
          match a_encode A with Some enc => of_result OZ (enc x) | None => ONone end;
          of_result OZ (oo_to_ord F x false); of_result OZ (oo_to_ord F x true);
          ofl (a_norm A x); of_result OB (a_canon A x)]
         ++ map ofl (b2 (ord_next_up F x)) ++ map ofl (b2 (ord_next_down F x))
         ++ map ofl (b2 (ord_next_towards_zero F x)) ++ map ofl (b2 (ord_next_away_zero F x))).

(* compact form used for the (many) candidate values: nothing for an
   unrepresentable value, else encode / ordinal / normalize / canonical *)
Definition cand_ops (A : allops) (x : fl) : out :=
  let F := a_ops A in
  if oo_repr F x then
    OList [match a_encode A with Some enc => of_result OZ (enc x) | None => ONone end;
           of_result OZ (oo_to_ord F x false); ofl (a_norm A x); of_result OB (a_canon A x)]
  else ONone.

Definition candidates (lo hi cmax : Z) : list fl :=
  flat_map (fun s => flat_map (fun e => map (fun c => FFin (RF s e c)) (Zrange 0 cmax)) (Zrange lo (hi + 1)))
           [false; true]
  ++ [FInf false; FInf true; FNaN false; FNaN true].

Definition decode1 (A : allops) (b : Z) : out :=
  match a_decode A with
  | Some dec => match dec b with Ok x => OPair (OFl x) (value_ops A x) | Err e => OErr e end
  | None => ONone
  end.

Inductive op16 :=
  | OValid (f : fmt16)
  | OQueries (f : fmt16)
  | OPatterns (f : fmt16)                       (* all b in [0, 2^nbits) *)
  | OCands (f : fmt16) (lo hi cmax : Z)
  | OOrds (f : fmt16) (lo hi : Z)               (* from_ordinal o false / true for lo <= o <= hi *)
  | ODecode1 (f : fmt16) (b : Z)
  | OValue1 (f : fmt16) (x : fl)
  | OCand1 (f : fmt16) (x : fl)
  | OFromOrd1 (f : fmt16) (o : Z).

Definition from_ord1 (A : allops) (o : Z) : out :=
  OPair (ofl (oo_from_ord (a_ops A) o false)) (ofl (oo_from_ord (a_ops A) o true)).

Definition run16 (fx : fixes) (o : op16) : out :=
  match o with
  | OValid f => OB (a_valid (all_of fx f))
  | OQueries f => let A := all_of fx f in if a_valid A then OList (a_queries A) else OErr ValueErr
  | OPatterns f =>
      let A := all_of fx f in
      if a_valid A then OList (map (decode1 A) (Zrange 0 (2 ^ a_nbits A))) else OErr ValueErr
  | OCands f lo hi cmax =>
      let A := all_of fx f in
      if a_valid A then OList (map (cand_ops A) (candidates lo hi cmax)) else OErr ValueErr
  | OOrds f lo hi =>
      let A := all_of fx f in
      if a_valid A then OList (map (from_ord1 A) (Zrange lo (hi + 1))) else OErr ValueErr
  | ODecode1 f b => let A := all_of fx f in if a_valid A then decode1 A b else OErr ValueErr
  | OValue1 f x => let A := all_of fx f in if a_valid A then value_ops A x else OErr ValueErr
  | OCand1 f x => let A := all_of fx f in if a_valid A then cand_ops A x else OErr ValueErr
  | OFromOrd1 f o => let A := all_of fx f in if a_valid A then from_ord1 A o else OErr ValueErr
  end.

(* an exception matches any exception (the class raised is not part of C16) *)
Fixpoint out_eqb_l (a b : out) {struct a} : bool :=
  match a, b with
  | OErr _, OErr _ => true
  | OPair a1 a2, OPair b1 b2 => out_eqb_l a1 b1 && out_eqb_l a2 b2
  | OList l, OList m =>
      (fix go (l : list out) (m : list out) : bool :=
         match l, m with
         | [], [] => true
         | x :: l', y :: m' => out_eqb_l x y && go l' m'
         | _, _ => false
         end) l m
  | _, _ => out_eqb a b
  end.

Definition check16 (fx : fixes) (c : op16 * out) : bool := out_eqb_l (run16 fx (fst c)) (snd c).

(* short names for the (large) tables printed by harness/props/c16.py *)
Definition fF (s e c : Z) : out := OFl (FFin (RF (negb (s =? 0)) e c)).
Definition fI (s : Z) : out := OFl (FInf (negb (s =? 0))).
Definition fN (s : Z) : out := OFl (FNaN (negb (s =? 0))).
Definition vF (s e c : Z) : fl := FFin (RF (negb (s =? 0)) e c).
Definition eR : out := OErr OtherErr.
Definition oT : out := OB true.
Definition oF : out := OB false.
Definition oz (z : Z) : out := OZ z.
Definition oN : out := ONone.
Definition oL (l : list out) : out := OList l.
Definition oP (a b : out) : out := OPair a b.
Definition zL (l : list Z) : out := OList (map OZ l).
