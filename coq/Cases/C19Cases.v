(* C19 — evaluator of correspondence cases: what fpy2 did (observed) against
   what the model of Cursor/*.v computes. *)
From Coq Require Import ZArith List Bool.
From FpyV Require Import Cursor.Path Cursor.Edit Cursor.Forward Cursor.Sites.
Import ListNotations.
Open Scope Z_scope.

(* an edit whose inserted statements are irrelevant (raw forwarding only looks at the count) *)
Definition mkE (b : bpath) (i r n : Z) : edit := Edit b i r (repeat (SLeaf 0) (Z.to_nat n)).

Inductive query :=
  | QStmt (p : spath)                 (* StmtCursor(source, p) forwarded by the log *)
  | QBlock (b : bpath) (lo hi : Z)    (* BlockCursor(source, b, range(lo, hi)) forwarded *)
  | QExpr (p : spath)                 (* ExprCursor(source, p.expr(..)) forwarded *)
  | QResolve (p : spath)              (* resolve_stmt(source, p) *)
  | QRaw (p : spath).                 (* cursor._forward_stmt(p, edits, p) *)

Inductive obs :=
  | OStmt (p : spath) (l : Z)                       (* a StmtCursor and the label it resolves to *)
  | OBlock (b : bpath) (lo hi : Z) (ls : list Z)    (* a BlockCursor and the labels it covers *)
  | OExpr (p : spath)                               (* an ExprCursor under this statement *)
  | OLabel (l : Z)
  | ORaw (b : bpath) (i : Z) (cont : option (Z * Z * Z))   (* containing edit: index, removed, inserted *)
  | OErr (e : cerr).

Definition cerr_eqb (a b : cerr) : bool :=
  match a, b with RefErr, RefErr | ValErr, ValErr | TypErr, TypErr => true | _, _ => false end.

Fixpoint zlist_eqb (a b : list Z) : bool :=
  match a, b with
  | [], [] => true
  | x :: a', y :: b' => (x =? y) && zlist_eqb a' b'
  | _, _ => false
  end.

Definition obs_eqb (a b : obs) : bool :=
  match a, b with
  | OStmt p l, OStmt q m => spath_eqb p q && (l =? m)
  | OBlock b lo hi ls, OBlock c lo' hi' ms =>
      bpath_eqb b c && (lo =? lo') && (hi =? hi') && zlist_eqb ls ms
  | OExpr p, OExpr q => spath_eqb p q
  | OLabel l, OLabel m => l =? m
  | ORaw b i None, ORaw c j None => bpath_eqb b c && (i =? j)
  | ORaw b i (Some (x, y, z)), ORaw c j (Some (x', y', z')) =>
      bpath_eqb b c && (i =? j) && (x =? x') && (y =? y') && (z =? z')
  | OErr x, OErr y => cerr_eqb x y
  | _, _ => false
  end.

Definition region_labels (blk : list stmt) (lo hi : Z) : list Z :=
  map label (firstn (Z.to_nat (hi - lo)) (skipn (Z.to_nat lo) blk)).

Definition obs_of_cursor (rtree : list stmt) (r : res cursor) : obs :=
  match r with
  | Err x => OErr x
  | Ok (CStmt _ p) =>
      match resolve_stmt rtree p with Ok s => OStmt p (label s) | Err x => OErr x end
  | Ok (CBlock _ b lo hi) =>
      match resolve_block rtree b with Ok blk => OBlock b lo hi (region_labels blk lo hi) | Err x => OErr x end
  | Ok (CExpr _ p _) => OExpr p
  end.

Definition run_query (lg : elog) (tree : list stmt) (q : query) : obs :=
  match q with
  | QStmt p =>
      obs_of_cursor (l_rtree lg)
        (rbind (mk_stmt_cursor (l_src lg) tree p) (forward lg))
  | QBlock b lo hi =>
      obs_of_cursor (l_rtree lg)
        (rbind (mk_block_cursor (l_src lg) tree b lo hi) (forward lg))
  | QExpr p =>
      obs_of_cursor (l_rtree lg)
        (rbind (mk_stmt_cursor (l_src lg) tree p)
               (fun _ => forward lg (CExpr (l_src lg) p [])))
  | QResolve p =>
      match resolve_stmt tree p with Ok s => OLabel (label s) | Err x => OErr x end
  | QRaw p =>
      match forward_stmt (l_edits lg) p with
      | Err x => OErr x
      | Ok (b, i, None) => ORaw b i None
      | Ok (b, i, Some e) => ORaw b i (Some (ei e, erem e, eins e))
      end
  end.

(* Edit(...) for every edit, then EditLog(...) *)
Definition make_log (tree : list stmt) (es : list edit) : res unit :=
  if forallb edit_ok es then log_check tree es else Err ValErr.

Definition res_unit_eqb (a b : res unit) : bool :=
  match a, b with
  | Ok _, Ok _ => true
  | Err x, Err y => cerr_eqb x y
  | _, _ => false
  end.

Inductive case19 :=
  (* a log over a source tree: construction verdict, the produced tree, queries *)
  | CLog (tree : list stmt) (es : list edit) (made : res unit) (rtree : list stmt)
         (preserved : bool) (dirty : list spath) (qs : list (query * obs))
  (* cursor._overlaps(a, b) *)
  | COverlap (a b : edit) (o : bool)
  (* path.beneath(p, block, range(lo, hi)) for a block path / a statement path *)
  | CBeneathB (p block : bpath) (lo hi : Z) (o : bool)
  | CBeneathS (p : spath) (block : bpath) (lo hi : Z) (o : bool)
  (* Function.forward along a chain: root tree; then (edits, produced tree) or an opaque pass
     (produced tree only); each query: a statement cursor of program number `start` (0 = root), what forwarding to the last program gave *)
  | CChain (root : list stmt) (steps : list (option (list edit) * list stmt))
           (qs : list (Z * spath * obs))
  (* the walk of a site rewriter: candidates (true = refused) in visit order, `where`,
     observed: rewritten candidate numbers, or the error *)
  | CSites (refs : list bool) (w : option Z) (o : res (list Z))
  (* the walk over a tree: candidate labels, refused labels, extra re-visits, where, observed *)
  | CTreeSites (t : list stmt) (cands refused : list Z) (reps : Z) (w : option Z) (o : res (list Z))
  (* what `sites` / `refusals` list over a tree *)
  | CTreeList (t : list stmt) (cands refused : list Z) (sites refusals : list Z).

Definition mem (l : list Z) (x : Z) : bool := existsb (Z.eqb x) l.

(* program number k of a chain gets ast id k *)
Fixpoint build_chain (k : Z) (prev : list func) (steps : list (option (list edit) * list stmt)) : list func :=
  match steps with
  | [] => prev
  | (oes, rt) :: r =>
      let lg := match oes with
                | None => None
                | Some es => Some (ELog (k - 1) k rt es [] true)
                end in
      build_chain (k + 1) (Func k rt lg :: prev) r
  end.

Definition tree_of (chain : list func) : list stmt :=
  match chain with f :: _ => f_tree f | [] => [] end.

Definition res_zlist_eqb (a b : res (list Z)) : bool :=
  match a, b with
  | Ok x, Ok y => zlist_eqb x y
  | Err x, Err y => cerr_eqb x y
  | _, _ => false
  end.

(* as sets: a re-visited body lists a nested site once per visit *)
Definition res_zset_eqb (a b : res (list Z)) : bool :=
  match a, b with
  | Ok x, Ok y => forallb (mem y) x && forallb (mem x) y
  | Err x, Err y => cerr_eqb x y
  | _, _ => false
  end.

Fixpoint seqZ (lo : Z) (n : nat) : list Z :=
  match n with O => [] | S k => lo :: seqZ (lo + 1) k end.

Definition check19 (c : case19) : bool :=
  match c with
  | CLog tree es made rtree preserved dirty qs =>
      res_unit_eqb (make_log tree es) made &&
      match made with
      | Err _ =>
          (* no log exists: only the raw forwarding functions can be asked *)
          forallb (fun qo => match fst qo with
                             | QRaw _ | QResolve _ =>
                                 obs_eqb (run_query (ELog 0 1 rtree es dirty preserved) tree (fst qo)) (snd qo)
                             | _ => false
                             end) qs
      | Ok _ =>
          block_eqb (apply es tree) rtree &&
          forallb (fun qo => obs_eqb (run_query (ELog 0 1 rtree es dirty preserved) tree (fst qo)) (snd qo)) qs
      end
  | COverlap a b o => eqb (overlaps a b) o
  | CBeneathB p block lo hi o => eqb (beneath_b p block lo hi) o
  | CBeneathS p block lo hi o => eqb (beneath_s p block lo hi) o
  | CChain root steps qs =>
      let chain := build_chain 1 [Func 0 root None] steps in
      forallb (fun q => let '(start, p, o) := q in
                        obs_eqb (obs_of_cursor (tree_of chain) (chain_forward chain (CStmt start p))) o) qs
  | CSites refs w o =>
      let cands := seqZ 0 (length refs) in
      res_zlist_eqb (run (fun c => nth (Z.to_nat c) refs false) w cands) o
  | CTreeSites t cands refused reps w o =>
      res_zset_eqb (trun (fun s => mem cands (label s)) (fun s => mem refused (label s))
                         (Z.to_nat reps) w t) o
  | CTreeList t cands refused sites refusals =>
      zlist_eqb (tsites (fun s => mem cands (label s)) (fun s => mem refused (label s)) t) sites &&
      zlist_eqb (trefusals (fun s => mem cands (label s)) (fun s => mem refused (label s)) t) refusals
  end.
