(* Correspondence cases of property C11: the storage decisions of backend/cpp/storage.py. *)
From Coq Require Import ZArith List Bool.
From FpyV Require Import Num.RealFloat Num.Float Analysis.AbsFormat Backend.Storage.
Import ListNotations.
Open Scope Z_scope.

Inductive op11 :=
  | SChoose (A : absfmt) (mpfixed_int : bool)      (* choose_storage_scalar(bound), A = _to_abstract(bound) *)
  | SFits (a b : cppscalar)                         (* scalar_fits_in *)
  | SBoundFits (A : absfmt) (t : cppscalar)         (* bound_fits_in_scalar *)
  | SCounter (start stop step : Z).                 (* emitter._range_counter_scalar, step <> 0 *)

Inductive out11 := RTy (t : option cppscalar) | RB11 (b : bool).

Definition out11_eqb (a b : out11) : bool :=
  match a, b with
  | RTy None, RTy None => true
  | RTy (Some x), RTy (Some y) => cpp_eqb x y
  | RB11 x, RB11 y => eqb x y
  | _, _ => false
  end.

Definition run11 (o : op11) : out11 :=
  match o with
  | SChoose A b =>
      RTy (match choose_storage_scalar A b with SLadder t => Some t | SFallbackS64 => Some CS64 | SNone => None end)
  | SFits a b => RB11 (scalar_fits_in a b)
  | SBoundFits A t => RB11 (bound_fits_in_scalar A t)
  | SCounter a b c =>
      RTy (match range_counter_scalar a b c with SLadder t => Some t | SFallbackS64 => Some CS64 | SNone => None end)
  end.

(* af_le is the C14 model; a repaired __le__ (fixes/C14-le-unbounded-exp.diff) answers the
   same on every rung, whose exponents are finite, so no variant is needed here *)
Definition check11 (c : op11 * out11) : bool := out11_eqb (run11 (fst c)) (snd c).
