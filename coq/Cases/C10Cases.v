(* Correspondence cases of C10 in the flat wire format (Num/Decode.v):
   (kinds 1-4 start with the three switches `fixes` of Lower.v after the kind)
   0          : ctx x res            -- Context.round (the original q) vs the model `vround`
   1 t        : ctx x res            -- the program the real strategy t produced, run on x, vs `sem (rw t (LRound ctx)) x`
   2 t        : ctx declined         -- the real strategy refused the block  <->  the model's `leaf_of t ctx = None`
   3 n t1..tn : ctx x res            -- a prefix of a documented chain vs `sem (apply_chain [t1..tn] (LRound ctx)) x`
   4 t        : ctx n c1..cn         -- the statically known contexts the emitted program rounds under, in visit
                                        order, vs the contexts of the model's template (REAL blocks left out)
   5          : ctx c'               -- unfold_special: the surviving context is `us_drop ctx sn si` for a shedding
                                        decision (sn, si) the model allows
   res: 0 fl | 1 err *)
From Coq Require Import ZArith List Bool.
From FpyV Require Import Num.RealFloat Num.Float Num.CtxDef Num.Ctx Num.Out Num.Decode Lang.Lowering.Lower.
Import ListNotations.
Open Scope Z_scope.

Definition d_vres : dec vres :=
  t <- d_z ;; if t =? 0 then (x <- d_fl ;; d_ret (Ok x)) else (e <- d_err ;; d_ret (Err e)).

Definition d_xform : dec xform :=
  t <- d_z ;;
  d_ret (if t =? 0 then XSpecial else if t =? 1 then XOverflow else if t =? 2 then XOverflowEarly
         else if t =? 3 then XNegZero else if t =? 4 then XF2F else XRescale).

Fixpoint d_many {A} (d : dec A) (n : nat) : dec (list A) :=
  match n with
  | O => d_ret []
  | S n' => a <- d ;; l <- d_many d n' ;; d_ret (a :: l)
  end.

Definition d_fixes : dec fixes := a <- d_bool ;; b <- d_bool ;; c <- d_bool ;; d_ret (FX a b c).

Definition d_list {A} (d : dec A) : dec (list A) := n <- d_z ;; d_many d (Z.to_nat n).

(* exact agreement of an observed outcome with the model: class, sign (zeros
   and NaN too), exact value; the same exception class *)
Definition res_match (m o : vres) : bool := vres_same m o.

(* ---------------------------------------------------------------- context equality (values of the parameters) *)
Definition rfv_eqb (a b : rf) : bool := rf_eqb a b && (eqb (rs a) (rs b) || (rc a =? 0)).
Definition ofl_eqb (a b : option fl) : bool :=
  match a, b with Some x, Some y => fl_same x y | None, None => true | _, _ => false end.
Definition oz_eqb (a b : option Z) : bool :=
  match a, b with Some x, Some y => x =? y | None, None => true | _, _ => false end.
Definition rm_code (r : rmode) : Z :=
  match r with RNE => 0 | RNA => 1 | RTP => 2 | RTN => 3 | RTZ => 4 | RAZ => 5 | RTO => 6 | RTE => 7 end.
Definition ov_code (o : ovmode) : Z := match o with OV_OVERFLOW => 0 | OV_SATURATE => 1 | OV_WRAP => 2 | OV_ASSERT => 3 end.
Definition nk_code (o : nankind) : Z := match o with NK_IEEE => 0 | NK_MAXVAL => 1 | NK_NEGZERO => 2 | NK_NONE => 3 end.
Definition sp_eqb (a b : special) : bool :=
  eqb (sp_enable_nan a) (sp_enable_nan b) && eqb (sp_enable_inf a) (sp_enable_inf b) &&
  ofl_eqb (sp_nan_value a) (sp_nan_value b) && ofl_eqb (sp_inf_value a) (sp_inf_value b).

Definition ctx_eqb (a b : ctx) : bool :=
  match a, b with
  | CReal, CReal => true
  | CMPFloat p rm k sp, CMPFloat p' rm' k' sp' => (p =? p') && (rm_code rm =? rm_code rm') && oz_eqb k k' && sp_eqb sp sp'
  | CMPSFloat p e rm k sp, CMPSFloat p' e' rm' k' sp' =>
      (p =? p') && (e =? e') && (rm_code rm =? rm_code rm') && oz_eqb k k' && sp_eqb sp sp'
  | CMPBFloat p e pm nm rm ov k sp, CMPBFloat p' e' pm' nm' rm' ov' k' sp' =>
      (p =? p') && (e =? e') && rfv_eqb pm pm' && rfv_eqb nm nm' && (rm_code rm =? rm_code rm') &&
      (ov_code ov =? ov_code ov') && oz_eqb k k' && sp_eqb sp sp'
  | CEFloat es nb ei nk eo rm ov k nv iv, CEFloat es' nb' ei' nk' eo' rm' ov' k' nv' iv' =>
      (es =? es') && (nb =? nb') && eqb ei ei' && (nk_code nk =? nk_code nk') && (eo =? eo') &&
      (rm_code rm =? rm_code rm') && (ov_code ov =? ov_code ov') && oz_eqb k k' && ofl_eqb nv nv' && ofl_eqb iv iv'
  | CMPFixed n rm k sp nz, CMPFixed n' rm' k' sp' nz' =>
      (n =? n') && (rm_code rm =? rm_code rm') && oz_eqb k k' && sp_eqb sp sp' && eqb nz nz'
  | CMPBFixed n pm nm rm ov k sp nz, CMPBFixed n' pm' nm' rm' ov' k' sp' nz' =>
      (n =? n') && rfv_eqb pm pm' && rfv_eqb nm nm' && (rm_code rm =? rm_code rm') && (ov_code ov =? ov_code ov') &&
      oz_eqb k k' && sp_eqb sp sp' && eqb nz nz'
  | CFixed sg sc nb rm ov k nv iv, CFixed sg' sc' nb' rm' ov' k' nv' iv' =>
      eqb sg sg' && (sc =? sc') && (nb =? nb') && (rm_code rm =? rm_code rm') && (ov_code ov =? ov_code ov') &&
      oz_eqb k k' && ofl_eqb nv nv' && ofl_eqb iv iv'
  | CSMFixed sc nb rm ov k nv iv, CSMFixed sc' nb' rm' ov' k' nv' iv' =>
      (sc =? sc') && (nb =? nb') && (rm_code rm =? rm_code rm') && (ov_code ov =? ov_code ov') &&
      oz_eqb k k' && ofl_eqb nv nv' && ofl_eqb iv iv'
  | CExp nb eo rm ov iv, CExp nb' eo' rm' ov' iv' =>
      (nb =? nb') && (eo =? eo') && (rm_code rm =? rm_code rm') && (ov_code ov =? ov_code ov') && ofl_eqb iv iv'
  | _, _ => false
  end.

Fixpoint ctxs_eqb (l m : list ctx) : bool :=
  match l, m with
  | [], [] => true
  | a :: l', b :: m' => ctx_eqb a b && ctxs_eqb l' m'
  | _, _ => false
  end.

(* the statically known rounding contexts of a template, in the visit order of
   the emitted program; a context computed at run time (float_to_fixed's normal
   branch and what rescale makes of it) has none *)
Fixpoint lp_ctxs (p : lp) : list ctx :=
  match p with
  | LRound c => [c]
  | LVal _ _ => []
  | LIf _ a b => lp_ctxs a ++ lp_ctxs b
  | LBound q _ _ _ _ _ => lp_ctxs q
  | LCopyZero q => lp_ctxs q
  | LNanSign q => lp_ctxs q
  | LLogb _ em _ sub _ => match em with Some _ => lp_ctxs sub | None => [] end
  | LScale _ q => lp_ctxs q
  end.

Definition run_case (l : list Z) : option bool :=
  match l with
  | 0 :: l =>
      match (c <- d_ctx ;; x <- d_fl ;; o <- d_vres ;; d_ret (res_match (vround c x) o)) l with
      | Some (b, []) => Some b | _ => None end
  | 1 :: l =>
      match (fx <- d_fixes ;; t <- d_xform ;; c <- d_ctx ;; x <- d_fl ;; o <- d_vres ;;
             d_ret (res_match (sem (rw (leaf_of fx t) (LRound c)) x) o)) l with
      | Some (b, []) => Some b | _ => None end
  | 2 :: l =>
      match (fx <- d_fixes ;; t <- d_xform ;; c <- d_ctx ;; dcl <- d_bool ;;
             d_ret (eqb (negb (isSome (leaf_of fx t c))) dcl)) l with
      | Some (b, []) => Some b | _ => None end
  | 3 :: l =>
      match (fx <- d_fixes ;; ts <- d_list d_xform ;; c <- d_ctx ;; x <- d_fl ;; o <- d_vres ;;
             d_ret (res_match (sem (apply_chain fx ts (LRound c)) x) o)) l with
      | Some (b, []) => Some b | _ => None end
  | 4 :: l =>
      match (fx <- d_fixes ;; t <- d_xform ;; c <- d_ctx ;; cs <- d_list d_ctx ;;
             d_ret (match leaf_of fx t c with
                    | Some p => ctxs_eqb (lp_ctxs p) cs
                    | None => false
                    end)) l with
      | Some (b, []) => Some b | _ => None end
  | 5 :: l =>
      match (c <- d_ctx ;; c' <- d_ctx ;;
             d_ret (existsb (fun snsi : bool * bool =>
                       us_shed_ok c (fst snsi) (snd snsi) && ctx_eqb (us_drop c (fst snsi) (snd snsi)) c')
                     [(true, true); (true, false); (false, true); (false, false)])) l with
      | Some (b, []) => Some b | _ => None end
  | _ => None
  end.

Definition check_line10 (l : list Z) : bool := match run_case l with Some b => b | None => false end.

(* what the model returns, for replay files and diagnosis *)
Definition show_line10 (l : list Z) : option vres :=
  match l with
  | 0 :: l =>
      match (c <- d_ctx ;; x <- d_fl ;; d_ret (vround c x)) l with Some (r, _) => Some r | None => None end
  | 1 :: l =>
      match (fx <- d_fixes ;; t <- d_xform ;; c <- d_ctx ;; x <- d_fl ;; d_ret (sem (rw (leaf_of fx t) (LRound c)) x)) l with
      | Some (r, _) => Some r | None => None end
  | 3 :: l =>
      match (fx <- d_fixes ;; ts <- d_list d_xform ;; c <- d_ctx ;; x <- d_fl ;; d_ret (sem (apply_chain fx ts (LRound c)) x)) l with
      | Some (r, _) => Some r | None => None end
  | _ => None
  end.
