(* C18 — case evaluator for the correspondence run (harness/props/c18.py).
   A case = (table of function objects, sequence of caller operations, what
   fpy2 was observed to do).  The model side is Cache.step / step_call_val on
   the identity-keyed cache, starting from a fresh interpreter state. *)
From Coq Require Import ZArith List Bool Arith.
From FpyV Require Import Runtime.Boundary Runtime.Cache.
Import ListNotations.
Open Scope nat_scope.

Inductive op18 :=
  | KCall (i : nat) (args : list tree) (c : ctx)          (* r = F_i( *args, ctx=c); the caller keeps r *)
  | KCallHeld (i : nat) (k : nat) (c : ctx)               (* r = F_i(held_k, ctx=c) *)
  | KPoke (k : nat) (path : list nat) (i : nat) (z : Z).  (* held_k[path...][i] = z *)

Inductive obs18 :=
  | RCall (r : option tree) (shares : list nat)   (* result (None = exception); indices of the earlier held
                                                     results that share a list object with this one *)
  | RPoke (ok : bool).

Fixpoint tree_eqb (a b : tree) {struct a} : bool :=
  match a, b with
  | TNum x, TNum y => Z.eqb x y
  | TTup l, TTup m =>
      (fix go (l m : list tree) {struct l} : bool :=
         match l, m with
         | [], [] => true
         | x :: l', y :: m' => tree_eqb x y && go l' m'
         | _, _ => false
         end) l m
  | TList l, TList m =>
      (fix go (l m : list tree) {struct l} : bool :=
         match l, m with
         | [], [] => true
         | x :: l', y :: m' => tree_eqb x y && go l' m'
         | _, _ => false
         end) l m
  | _, _ => false
  end.

Definition otree_eqb (a b : option tree) : bool :=
  match a, b with Some x, Some y => tree_eqb x y | None, None => true | _, _ => false end.

Fixpoint natlist_eqb (a b : list nat) : bool :=
  match a, b with
  | [], [] => true
  | x :: a', y :: b' => Nat.eqb x y && natlist_eqb a' b'
  | _, _ => false
  end.

Definition obs_eqb (a b : obs18) : bool :=
  match a, b with
  | RCall r s, RCall r' s' => otree_eqb r r' && natlist_eqb s s'
  | RPoke x, RPoke y => Bool.eqb x y
  | _, _ => false
  end.

Fixpoint obslist_eqb (a b : list obs18) : bool :=
  match a, b with
  | [], [] => true
  | x :: a', y :: b' => obs_eqb x y && obslist_eqb a' b'
  | _, _ => false
  end.

(* list objects reachable from a value *)
Fixpoint locs (fuel : nat) (s : store) (v : val) : list nat :=
  match fuel with
  | O => []
  | S f =>
      match v with
      | VNum _ => []
      | VTup l => flat_map (locs f s) l
      | VRef Interp a => a :: match nth_error s a with Some cell => flat_map (locs f s) cell | None => [] end
      | VRef Caller _ => []
      end
  end.

Definition meets (a b : list nat) : bool := existsb (fun x => existsb (Nat.eqb x) b) a.

Fixpoint share_idx (fuel : nat) (s : store) (newl : list nat) (held : list (option val)) (k : nat) : list nat :=
  match held with
  | [] => []
  | h :: r =>
      let rest := share_idx fuel s newl r (S k) in
      match h with
      | Some v => if meets (locs fuel s v) newl then k :: rest else rest
      | None => rest
      end
  end.

Record mstate := mkMs { ms_st : istate; ms_held : list (option val) }.

Definition FUEL : nat := 12.

Definition do_call (pc : bool) (tbl : list funcdef) (ms : mstate) (i : nat) (ts : list tree) (c : ctx) : mstate * obs18 :=
  let rv := step_call_val false pc tbl (ms_st ms) i ts c in
  let '(st', _, o) := step_call false pc FUEL tbl (ms_st ms) i ts c in
  let rv' := match o with Some _ => rv | None => None end in
  let newl := match rv' with Some v => locs FUEL (st_store st') v | None => [] end in
  (mkMs st' (ms_held ms ++ [rv']), RCall o (share_idx FUEL (st_store st') newl (ms_held ms) 0)).

Fixpoint nav (s : store) (v : val) (path : list nat) : option val :=
  match path with
  | [] => Some v
  | j :: r =>
      match v with
      | VTup l => match nth_error l j with Some x => nav s x r | None => None end
      | VRef Interp a => match nth_error s a with
                         | Some cell => match nth_error cell j with Some x => nav s x r | None => None end
                         | None => None
                         end
      | _ => None
      end
  end.

Definition do_op (pc : bool) (tbl : list funcdef) (ms : mstate) (o : op18) : mstate * obs18 :=
  match o with
  | KCall i ts c => do_call pc tbl ms i ts c
  | KCallHeld i k c =>
      match nth_error (ms_held ms) k with
      | Some (Some v) =>
          match snap FUEL (mkW [] (st_store (ms_st ms))) v with
          | Some t => do_call pc tbl ms i [t] c
          | None => (mkMs (ms_st ms) (ms_held ms ++ [None]), RCall None [])
          end
      | _ => (mkMs (ms_st ms) (ms_held ms ++ [None]), RCall None [])
      end
  | KPoke k path i z =>
      match nth_error (ms_held ms) k with
      | Some (Some v) =>
          match nav (st_store (ms_st ms)) v path with
          | Some (VRef Interp a) =>
              let '(st', log, _) := step false pc FUEL tbl (ms_st ms) (EPoke a i z) in
              (mkMs st' (ms_held ms), RPoke (match log with [] => false | _ => true end))
          | _ => (ms, RPoke false)
          end
      | _ => (ms, RPoke false)
      end
  end.

Fixpoint run18 (pc : bool) (tbl : list funcdef) (ms : mstate) (ops : list op18) : list obs18 :=
  match ops with
  | [] => []
  | o :: r => let '(ms', ob) := do_op pc tbl ms o in ob :: run18 pc tbl ms' r
  end.

Definition case18 : Type := list funcdef * list op18 * list obs18.

(* pc = false: the code as it is (captured containers converted once, at compile time);
   pc = true: the repaired behaviour (converted at every call). *)
Definition check18 (pc : bool) (c : case18) : bool :=
  let '(tbl, ops, expected) := c in
  obslist_eqb (run18 pc tbl (mkMs empty_state []) ops) expected.

Definition check18d : case18 -> bool := check18 false.
Definition check18f : case18 -> bool := check18 true.

(* one evaluation pass for both models: (false, c) = the code as it is, (true, c) = repaired *)
Definition check18x (bc : bool * case18) : bool := check18 (fst bc) (snd bc).
