(* C15 — evaluator of correspondence cases: the verdict of `@fp.fpy` on a
   program text (accepted / rejected by FPySyntaxError or ReachabilityError)
   against the model's `accept`. *)
From Coq Require Import List Bool Arith.
From FpyV Require Import Lang.Defined.
Import ListNotations.

(* (parameters, body, observed: the decorator accepted the function) *)
Definition case15 : Type := (list name * list stmt * bool)%type.

(* the verdict is the one of fpy2 as modelled, and the program is outside the
   arm on which the coded and the repaired `for` rule differ *)
Definition check15_strict (c : case15) : bool :=
  let '(ps, body, obs) := c in
  eqb (accept ps body) obs && eqb (accept ps body) (accept_fixed ps body).

(* the verdict is the one of fpy2 as modelled (`_visit_for` as coded) *)
Definition check15_coded (c : case15) : bool :=
  let '(ps, body, obs) := c in eqb (accept ps body) obs.

(* the verdict is the one of the repaired rule *)
Definition check15_fixed (c : case15) : bool :=
  let '(ps, body, obs) := c in eqb (accept_fixed ps body) obs.

(* a run of the model under an explicit oracle prefix (false afterwards) *)
Definition oracle_of (l : list bool) (k : nat) : bool := nth k l false.

Definition run_code (ps : list name) (body : list stmt) (orc : list bool) (fuel : nat) : nat :=
  match run (oracle_of orc) fuel ps body with
  | OReturn => 0 | OErr NameErr => 1 | OErr FellOffEnd => 2 | OFuel => 3 | ONormal _ _ => 4
  end.
