(* Correspondence cases of property C09: the input of a real fpy2 strategy
   (exported by harness/lang.py from the fpy2 ASTs) together with what the
   strategy returned (the exported result, or None when it raised), compared
   with the output of the Gallina model up to a bijective renaming of variables
   (Lang/Transforms/AlphaEq.v). *)
From Coq Require Import ZArith List Bool String.
From FpyV Require Import Num.RealFloat Num.Float Num.CtxDef Lang.Syntax Lang.Values Lang.Sem Lang.NumInst.
From FpyV Require Import Lang.Transforms.Rename Lang.Transforms.Inline Lang.Transforms.Mono
                         Lang.Transforms.LiftCtx Lang.Transforms.AlphaEq.
Import ListNotations.

Definition depth9 : nat := 8.

Inductive case9 :=
  (* inline(P.f, where, recursive); refs: per function, the calls (numbered in visit order) that the
     implementation refused because of their position (empty for the code as it is) *)
  | KInline (P : program) (f : ident) (recursive : bool) (wh : option nat)
            (refs : list (ident * list nat)) (real : option func)
  (* monomorphize(fn, ctx) *)
  | KMono (fn : func) (c : ctx) (real : option func)
  (* lift_context(fn) *)
  | KLift (fn : func) (real : option func)
  (* close(fn) with the captured (name, literal) pairs in prelude order *)
  | KClose (cs : list (ident * expr)) (fn : func) (real : func).

Definition ref_of (refs : list (ident * list nat)) (g : ident) (occ : nat) : bool :=
  match find (fun p => String.eqb (fst p) g) refs with
  | Some (_, l) => existsb (Nat.eqb occ) l
  | None => false
  end.

(* the model of the code as it is *)
Definition model9 (c : case9) : option func :=
  match c with
  | KInline P f r wh _ _ => match lookup_fn P f with Some fn => inline P depth9 r wh fn | None => None end
  | KMono fn c _ => mono c fn
  | KLift fn _ => lift_ctx prov_numops fn
  | KClose cs fn _ => Some (close cs fn)
  end.

(* ... and with any subset of the proposed repairs (fixes/C09-*.diff) in force *)
Definition models9 (c : case9) : list (option func) :=
  match c with
  | KInline P f r wh refs _ =>
      match lookup_fn P f with
      | Some fn =>
          map (fun ab => inline_x (IFix (fst ab) (snd ab) (ref_of refs)) P depth9 r wh f fn)
              [(false, false); (true, false); (false, true); (true, true)]
      | None => [None]
      end
  | KLift fn _ => [lift_ctx_x prov_numops false fn; lift_ctx_x prov_numops true fn]
  | _ => [model9 c]
  end.

Definition real9 (c : case9) : option func :=
  match c with
  | KInline _ _ _ _ _ r | KMono _ _ r | KLift _ r => r
  | KClose _ _ r => Some r
  end.

Definition check9 (c : case9) : bool := existsb (fun m => aeq_ofunc m (real9 c)) (models9 c).

(* does the implementation agree with the model of the code AS IT IS (no repair)?  statistics *)
Definition ascoded9 (c : case9) : bool := aeq_ofunc (model9 c) (real9 c).
Definition notascoded9 (c : case9) : bool := negb (ascoded9 c).

(* is the case inside the fragment the soundness theorems cover? (statistics only) *)
Definition frag9 (c : case9) : bool :=
  match c with
  | KInline P _ _ _ _ _ => prog_ok P
  | KMono _ _ _ => true
  | KLift fn _ => aeq_ofunc (lift_ctx_lit prov_numops fn) (lift_ctx prov_numops fn)
  | KClose cs _ _ => match cap_values cs with Some _ => true | None => false end
  end.
Definition notfrag9 (c : case9) : bool := negb (frag9 c).
