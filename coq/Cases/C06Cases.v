(* Correspondence cases of property C06: `run06` is what the model of the code
   returns for a literal evaluated under the real context (None = an
   exception), `spec06` what the spelling denotes. *)
From Coq Require Import ZArith List Bool Ascii String QArith.
From FpyV Require Import Lang.Literal.
Import ListNotations.
Open Scope Z_scope.

Inductive case06 :=
  | CLit (l : lit)              (* a one-line function `return <literal>` called with ctx=REAL *)
  | CDecStr (s : string)        (* Decnum(s).as_real() *)
  | CHexStr (s : string).       (* Hexnum(s).as_real() *)

Definition run06 (fx : lfixes) (c : case06) : option lval :=
  match c with
  | CLit l => literal_value fx l
  | CDecStr s => decnum_value (fx_float fx) s
  | CHexStr s => hexnum_value fx s
  end.

Definition spec06 (fx : lfixes) (c : case06) : option lval :=
  match c with
  | CLit l => lit_denote l
  | CDecStr s => dec_denote (negb (fx_float fx)) s
  | CHexStr s => hex_denote s
  end.

Definition olval_eqb (a b : option lval) : bool :=
  match a, b with
  | Some x, Some y => lval_eqb x y
  | None, None => true
  | _, _ => false
  end.

(* model of the code = implementation *)
Definition check06 (fx : lfixes) (c : case06 * option lval) : bool := olval_eqb (run06 fx (fst c)) (snd c).
(* implementation = what the spelling denotes *)
Definition prop06 (fx : lfixes) (c : case06 * option lval) : bool := olval_eqb (spec06 fx (fst c)) (snd c).

(* short names for the printed cases *)
Definition lq (n d : Z) : option lval := Some (LQ (Qmake n (Z.to_pos d))).
Definition nz : option lval := Some LNegZero.
Definition er : option lval := None.
Definition pyf (num den : Z) (r : string) : pyfloat := PYF false num den r.
Definition pyinf : pyfloat := PYF true 0 1 "inf".
