(* Correspondence cases of property C04: a program, its entry point and a list
   of runs (arguments, caller context or None, what fpy2 returned / raised).
   `check4` decides agreement with the model: `run` of Lang/Sem.v under
   `lead_numops` (Lang/NumInst2.v), i.e. the proved number model Num/Ctx.v +
   Num/Arith.v of properties C01/C02. *)
From Coq Require Import ZArith List Bool String.
From FpyV Require Import Num.RealFloat Num.Float Num.CtxDef Num.Out
  Lang.Syntax Lang.Values Lang.Sem Lang.NumInst Lang.NumInst2 Lang.PyIR Lang.Compile.
Import ListNotations.
Open Scope Z_scope.

Definition fuel4 : nat := 2000.

Definition run4 := (list cval * option ctx * res cval)%type.
(* program, entry point, runs, and per function the statement skeleton of the
   Python code the real BytecodeCompiler emitted for it *)
Definition case4 := (program * ident * list run4 * list (ident * string))%type.

(* two outcomes agree: the same value (veq), or the same exception class;
   divergence on both sides counts as agreement *)
Definition res_eqb (a b : res cval) : bool :=
  match a, b with
  | ROk x, ROk y => cval_eqb x y
  | RErr e, RErr f => err_eqb e f
  | RFuel, RFuel => true
  | _, _ => false
  end.

Definition model4 (P : program) (f : ident) (r : run4) : res cval :=
  let '(args, caller, _) := r in run lead_numops P fuel4 f args caller.

Definition check_run4 (P : program) (f : ident) (r : run4) : bool :=
  res_eqb (model4 P f r) (snd r).

(* the emitted code has the statement scheme the compile model (Lang/Compile.v) says *)
Definition check_skel4 (P : program) (fs : ident * string) : bool :=
  match lookup_fn P (fst fs) with
  | Some fn => String.eqb (skeleton fn) (snd fs)
  | None => false
  end.

Definition check4 (c : case4) : bool :=
  let '(P, f, runs, skels) := c in forallb (check_run4 P f) runs && forallb (check_skel4 P) skels.

(* indices of the disagreeing runs of a case (for the replay / shrink step) *)
Definition bad_runs4 (c : case4) : list nat :=
  let '(P, f, runs, _) := c in
  map fst (filter (fun ir => negb (check_run4 P f (snd ir))) (combine (seq 0 (List.length runs)) runs)).

Definition models4 (c : case4) : list (res cval) :=
  let '(P, f, runs, _) := c in map (model4 P f) runs.

(* functions whose emitted skeleton differs, with the skeleton the model expects *)
Definition bad_skels4 (c : case4) : list (ident * string) :=
  let '(P, f, _, skels) := c in
  map (fun fs => (fst fs, match lookup_fn P (fst fs) with Some fn => skeleton fn | None => EmptyString end))
      (filter (fun fs => negb (check_skel4 P fs)) skels).
