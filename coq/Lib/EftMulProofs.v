(* Proofs about the multiplication / FMA transformations of Lib/Eft.v (property C20). *)
From Coq Require Import ZArith List Bool String Reals Lia Lra.
From Flocq Require Import Core Pff Pff2Flocq Pff2FlocqAux Mult_error Plus_error.
From FpyV Require Import Num.RealFloat Lib.Eft Lib.EftReal Lib.EftProofs.
Import ListNotations.
Open Scope R_scope.
Open Scope string_scope.

Lemma Zceil_half (p : Z) : Zceil (IZR p / 2) = (p - Z.div2 p)%Z.
Proof.
  pose proof (Z.div2_odd p) as H. set (d := Z.div2 p) in *. destruct (Z.odd p); simpl Z.b2z in H; rewrite H.
  - replace (2 * d + 1 - d)%Z with (d + 1)%Z by lia.
    apply Zceil_imp. replace (d + 1 - 1)%Z with d by lia. rewrite !plus_IZR, mult_IZR. lra.
  - replace (2 * d + 0 - d)%Z with d by lia.
    replace (IZR (2 * d + 0) / 2) with (IZR d) by (rewrite plus_IZR, mult_IZR; lra).
    apply Zceil_IZR.
Qed.

Section Nearest.
Variable emin prec : Z.
Variable choice : Z -> bool.
Context { prec_gt_0_ : Prec_gt_0 prec }.
Hypothesis emin_neg : (emin <= 0)%Z.
Notation format := (generic_format radix2 (FLT_exp emin prec)).
Notation rnd := (round radix2 (FLT_exp emin prec) (Znearest choice)).
Notation N := (numR rnd prec).

Lemma format_2 : (1 < prec)%Z -> format 2.
Proof.
  intros. change 2 with (bpow radix2 1). apply generic_format_FLT_bpow; auto; lia.
Qed.
Lemma format_1 : format 1.
Proof. change 1 with (bpow radix2 0). apply generic_format_FLT_bpow; auto. Qed.
Lemma format_prec : (1 < prec)%Z -> format (IZR prec).
Proof.
  intros. apply generic_format_FLT. exists (Defs.Float radix2 prec 0); simpl.
  - unfold F2R; simpl. ring.
  - rewrite Z.abs_eq by lia. apply Z.pow_gt_lin_r; lia.
  - assumption.
Qed.

(* the constant C = 2^s + 1 of Veltkamp's splitting, as the program computes it *)
Lemma veltkamp_C s : (3 <= prec)%Z -> (2 <= s)%Z -> (s <= prec - 2)%Z ->
  rnd (rnd (Rpower (rnd 2) (IZR s)) + rnd 1) = bpow radix2 s + 1.
Proof.
  intros Hp H2 Hs.
  rewrite (rnd_id _ _ _ 2) by (apply format_2; lia).
  rewrite Rpower_2_bpow.
  rewrite (rnd_id _ _ _ (bpow radix2 s)) by (apply generic_format_FLT_bpow; auto; lia).
  rewrite (rnd_id _ _ _ 1) by apply format_1.
  apply rnd_id. apply C_format; auto.
Qed.

Definition vk_hi (x : R) (s : Z) : R :=
  let p := rnd (x * (bpow radix2 s + 1)) in let q := rnd (x - p) in rnd (q + p).
Definition vk_lo (x : R) (s : Z) : R := rnd (x - vk_hi x s).

Theorem veltkamp_split_spec P x s :
  lookup "veltkamp_split" P = Ok veltkamp_split_body ->
  (3 <= prec)%Z -> (2 <= s)%Z -> (s <= prec - 2)%Z -> format x ->
  exists hi lo, call N FUEL P "veltkamp_split" [x; IZR s] = Ok [hi; lo] /\
    x = hi + lo /\
    generic_format radix2 (FLT_exp emin s) lo /\
    exists choice', hi = round radix2 (FLT_exp emin (prec - s)) (Znearest choice') x.
Proof.
  intros HP Hp H2 Hs Fx. unfold call. rewrite HP. cbn.
  rewrite veltkamp_C by assumption.
  rewrite (Rmult_comm (bpow radix2 s + 1) x).
  rewrite (Rplus_comm (rnd (x * (bpow radix2 s + 1)))).
  eexists _, _. split; [reflexivity|].
  destruct (Veltkamp_tail radix2 emin prec choice s Hp emin_neg H2 Hs x Fx) as [K1 K2].
  split; [exact K1|]. split; [exact K2|].
  apply (Veltkamp radix2 emin prec choice s Hp emin_neg H2 Hs x Fx).
Qed.

(* ---------------------------------------------------------------- Dekker's product *)
Lemma half_prec_bounds : (4 <= prec)%Z ->
  (2 <= prec - Z.div2 prec)%Z /\ (prec - Z.div2 prec <= prec - 2)%Z.
Proof.
  intros H. pose proof (Z.div2_odd prec) as E. destruct (Z.odd prec); simpl Z.b2z in E; lia.
Qed.

Theorem classic_2mul_exact P a b :
  lookup "classic_2mul" P = Ok classic_2mul_body ->
  lookup "veltkamp_split" P = Ok veltkamp_split_body ->
  (4 <= prec)%Z -> (emin < 0)%Z -> format a -> format b ->
  (a * b = 0 \/ bpow radix2 (emin + 2 * prec - 1) <= Rabs (a * b)) ->
  exists s t, call N FUEL P "classic_2mul" [a; b] = Ok [s; t] /\ s = rnd (a * b) /\ s + t = a * b.
Proof.
  intros HP HV Hp He Fa Fb Hu.
  rewrite (call_ext N [("classic_2mul", classic_2mul_body); ("veltkamp_split", veltkamp_split_body)] P)
    by (repeat (apply sub_prog_cons; [assumption|]); try apply sub_prog_nil; try reflexivity; eexists; reflexivity).
  unfold call. cbn.
  rewrite (rnd_id _ _ _ (IZR prec)) by (apply format_prec; lia).
  rewrite Zceil_half.
  destruct (half_prec_bounds Hp) as [B1 B2].
  rewrite veltkamp_C by (assumption || lia).
  set (s := (prec - Z.div2 prec)%Z).
  rewrite (rnd_id _ _ _ (- rnd (a * b))) by (apply generic_format_opp, generic_format_round; auto with typeclass_instances).
  rewrite !(Rmult_comm (bpow radix2 s + 1)).
  rewrite (Rplus_comm (rnd (a * (bpow radix2 s + 1)))).
  rewrite (Rplus_comm (rnd (b * (bpow radix2 s + 1)))).
  eexists _, _. split; [reflexivity|]. split; [reflexivity|].
  pose proof (Dekker radix2 emin prec choice Hp He a b Fa Fb (or_introl eq_refl)) as [K _].
  cbv zeta in K. symmetry. apply K. exact Hu.
Qed.
End Nearest.

(* ================================================================ Boldo-Muller error of the FMA (round to nearest even) *)
Lemma choiceE_sym : forall x : Z, negb (Z.even x) = negb (negb (Z.even (- (x + 1)))).
Proof.
  intros x. rewrite Z.even_opp, Z.even_add. simpl. destruct (Z.even x); reflexivity.
Qed.

Lemma Even_radix2 : Even radix2.
Proof. exists 1%Z. reflexivity. Qed.

Section RNE.
Variable emin prec : Z.
Context { prec_gt_0_ : Prec_gt_0 prec }.
Hypothesis emin_neg : (emin <= 0)%Z.
Hypothesis precGe3 : (3 <= prec)%Z.
Notation format := (generic_format radix2 (FLT_exp emin prec)).
Notation rnd := (round radix2 (FLT_exp emin prec) ZnearestE).
Notation N := (numR rnd prec).

Let precisionNotZero : (1 < prec)%Z. Proof. lia. Qed.

Lemma twosum_err a b : format a -> format b ->
  rnd (rnd (a - rnd (rnd (a + b) - b)) + rnd (b - rnd (rnd (a + b) - rnd (rnd (a + b) - b)))) = a + b - rnd (a + b).
Proof.
  intros Fa Fb.
  pose proof (twosum_R emin prec _ precisionNotZero emin_neg choiceE_sym a b Fa Fb) as K.
  fold ZnearestE in K. lra.
Qed.

Lemma format_err_plus x y : format x -> format y -> format (x + y - rnd (x + y)).
Proof.
  intros. replace (x + y - rnd (x + y)) with (- (rnd (x + y) - (x + y))) by ring.
  apply generic_format_opp, plus_error; auto with typeclass_instances.
Qed.

Lemma format_err_mul x y : format x -> format y ->
  (x * y = 0 \/ bpow radix2 (emin + 2 * prec - 1) <= Rabs (x * y)) -> format (x * y - rnd (x * y)).
Proof.
  intros Fx Fy Hu. replace (x * y - rnd (x * y)) with (- (rnd (x * y) - x * y)) by ring.
  apply generic_format_opp, mult_error_FLT; auto with typeclass_instances.
  intros Hn. destruct Hu as [Hu|Hu]; [contradiction|].
  eapply Rle_trans; [|exact Hu]. apply bpow_le. lia.
Qed.

Definition errfma_progs : prog :=
  [("classic_2fma", classic_2fma_body); ("fast_2mul", fast_2mul_body); ("classic_2sum", classic_2sum_body)].

Theorem classic_2fma_exact P a b c :
  lookup "classic_2fma" P = Ok classic_2fma_body ->
  lookup "fast_2mul" P = Ok fast_2mul_body ->
  lookup "classic_2sum" P = Ok classic_2sum_body ->
  format a -> format b -> format c ->
  (a * b = 0 \/ bpow radix2 (emin + 4 * prec - 3) <= Rabs (a * b)) ->
  (c = 0 \/ bpow radix2 (emin + 2 * prec) <= Rabs c) ->
  exists r1 r2 r3, call N FUEL P "classic_2fma" [a; b; c] = Ok [r1; r2; r3] /\
    r1 = rnd (a * b + c) /\ r1 + r2 + r3 = a * b + c.
Proof.
  intros H1 H2 H3 Fa Fb Fc U1 U2.
  rewrite (call_ext N errfma_progs P)
    by (repeat (apply sub_prog_cons; [assumption|]); try apply sub_prog_nil; try reflexivity; eexists; reflexivity).
  unfold call. cbn.
  eexists _, _, _. split; [reflexivity|]. split; [reflexivity|].
  assert (U1' : a * b = 0 \/ bpow radix2 (emin + 2 * prec - 1) <= Rabs (a * b)).
  { destruct U1 as [U|U]; [now left|right]. eapply Rle_trans; [|exact U]. apply bpow_le; lia. }
  rewrite !(fast2mul_R emin prec ZnearestE a b Fa Fb U1').
  assert (Fu2 : format (a * b - rnd (a * b))) by (apply format_err_mul; assumption).
  assert (Fr : forall x, format (rnd x)) by (intros; apply generic_format_round; auto with typeclass_instances).
  rewrite !(twosum_err c (a * b - rnd (a * b)) Fc Fu2).
  rewrite !(twosum_err (rnd (a * b)) (rnd (c + (a * b - rnd (a * b)))) (Fr _) (Fr _)).
  rewrite twosum_err by (apply Fr || (apply format_err_plus; assumption)).
  pose proof (ErrFMA_correct_simpl radix2 emin prec Even_radix2 precGe3 emin_neg a b c Fa Fb Fc U1 U2) as K.
  symmetry. rewrite K at 1. ring.
Qed.

Definition errfma_fast_progs : prog :=
  [("classic_2fma", classic_2fma_body_fast); ("fast_2mul", fast_2mul_body);
   ("classic_2sum", classic_2sum_body); ("fast_2sum", fast_2sum_body)].

(* the body with fast_2sum as last step: whenever it returns, the result is exact *)
Theorem classic_2fma_fast_partial P a b c r :
  lookup "classic_2fma" P = Ok classic_2fma_body_fast ->
  lookup "fast_2mul" P = Ok fast_2mul_body ->
  lookup "classic_2sum" P = Ok classic_2sum_body ->
  lookup "fast_2sum" P = Ok fast_2sum_body ->
  format a -> format b -> format c ->
  (a * b = 0 \/ bpow radix2 (emin + 4 * prec - 3) <= Rabs (a * b)) ->
  (c = 0 \/ bpow radix2 (emin + 2 * prec) <= Rabs c) ->
  call N FUEL P "classic_2fma" [a; b; c] = Ok r ->
  exists r1 r2 r3, r = [r1; r2; r3] /\ r1 = rnd (a * b + c) /\ r1 + r2 + r3 = a * b + c.
Proof.
  intros H1 H2 H3 H4 Fa Fb Fc U1 U2.
  rewrite (call_ext N errfma_fast_progs P)
    by (repeat (apply sub_prog_cons; [assumption|]); try apply sub_prog_nil; try reflexivity; eexists; reflexivity).
  unfold call. cbn.
  assert (U1' : a * b = 0 \/ bpow radix2 (emin + 2 * prec - 1) <= Rabs (a * b)).
  { destruct U1 as [U|U]; [now left|right]. eapply Rle_trans; [|exact U]. apply bpow_le; lia. }
  rewrite !(fast2mul_R emin prec ZnearestE a b Fa Fb U1').
  assert (Fu2 : format (a * b - rnd (a * b))) by (apply format_err_mul; assumption).
  assert (Fr : forall x, format (rnd x)) by (intros; apply generic_format_round; auto with typeclass_instances).
  rewrite !(twosum_err c (a * b - rnd (a * b)) Fc Fu2).
  rewrite !(twosum_err (rnd (a * b)) (rnd (c + (a * b - rnd (a * b)))) (Fr _) (Fr _)).
  set (a2 := c + (a * b - rnd (a * b)) - rnd (c + (a * b - rnd (a * b)))).
  set (g := rnd (rnd (rnd (rnd (a * b) + rnd (c + (a * b - rnd (a * b)))) - rnd (a * b + c)) + _)).
  assert (Fa2 : format a2) by (apply format_err_plus; assumption).
  assert (Fg : format g) by apply Fr.
  rewrite !(rnd_abs emin prec _ _ Fa2), !(rnd_abs emin prec _ _ Fg).
  unfold n_leb. cbn.
  destruct (Rlt_le_dec (Rabs g) (Rabs a2)) as [Hlt|Hle].
  - rewrite Rltb_true by assumption. cbn. discriminate.
  - rewrite Rltb_false by assumption. cbn. intros E. inversion E; subst r; clear E.
    eexists _, _, _. split; [reflexivity|]. split; [reflexivity|].
    pose proof (fast2sum_R emin prec _ precisionNotZero emin_neg choiceE_sym g a2 Fg Fa2 Hle) as KF.
    fold ZnearestE in KF.
    pose proof (ErrFMA_correct_simpl radix2 emin prec Even_radix2 precGe3 emin_neg a b c Fa Fb Fc U1 U2) as K.
    fold a2 in K. fold g in K.
    rewrite Rplus_assoc, KF. lra.
Qed.
End RNE.

(* ---------------------------------------------------------------- the hypotheses are satisfiable *)
Example classic_2fma_hyps_sat :
  let emin := (-100)%Z in let prec := 4%Z in
  generic_format radix2 (FLT_exp emin prec) 1 /\
  (1 * 1 = 0 \/ bpow radix2 (emin + 4 * prec - 3) <= Rabs (1 * 1)) /\
  (1 = 0 \/ bpow radix2 (emin + 2 * prec) <= Rabs 1).
Proof.
  cbv zeta. split; [|split].
  - change 1 with (bpow radix2 0). apply generic_format_FLT_bpow; [unfold Prec_gt_0|]; lia.
  - right. rewrite Rmult_1_l, Rabs_R1. change 1 with (bpow radix2 0). apply bpow_le. lia.
  - right. rewrite Rabs_R1. change 1 with (bpow radix2 0). apply bpow_le. lia.
Qed.
