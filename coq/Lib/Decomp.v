(* Model of the decompositions of fpy2/libraries/core.py: split, modf, frexp
   (Python primitives: hand-transcribed, tied to /repo by differential
   execution) for the floating-point context families MPFloatContext(p, rm)
   and MPSFloatContext(p, emin, rm).  Definitions only. *)
From Coq Require Import ZArith List Bool.
From FpyV Require Import Num.RealFloat Num.Float Lib.Eft.
Import ListNotations.
Open Scope Z_scope.

(* MPFloatContext._round_at / MPSFloatContext._round_at (n = None), with the
   default special-value options (enable_nan, enable_inf) *)
Definition fl_round (fc : fctx) (exact : bool) (x : fl) : result fl :=
  match x with
  | FNaN _ => Ok (FNaN false)
  | FInf s => Ok (FInf s)
  | FFin r =>
      if is_zero r then Ok (FFin (RF (rs r) 0 0))
      else bind (rf_round r (Some (fc_p fc)) (fc_n fc) (fc_rm fc) exact) (fun yf => Ok (FFin (fst yf)))
  end.

Definition round2 (fc : fctx) (a b : fl) : result (fl * fl) :=
  bind (fl_round fc true a) (fun h => bind (fl_round fc true b) (fun l => Ok (h, l))).

(* core.split(x, n, ctx) *)
Definition core_split (fc : fctx) (x n : fl) : result (fl * fl) :=
  if negb (fl_is_integer n) then Err ValueErr
  else match x with
       | FNaN _ => round2 fc (FNaN false) (FNaN false)
       | FInf s => round2 fc (FInf s) (FInf s)
       | FFin r => bind (fl_to_int n) (fun k => let '(a, b) := split r k in round2 fc (FFin a) (FFin b))
       end.

(* core.modf(x, ctx) *)
Definition core_modf (fc : fctx) (x : fl) : result (fl * fl) :=
  match x with
  | FNaN _ => round2 fc x x
  | FInf s => round2 fc (FFin (RF s 0 0)) (FInf s)
  | FFin r =>
      if is_zero r then round2 fc (FFin (RF (rs r) 0 0)) (FFin (RF (rs r) 0 0))
      else let '(a, b) := split r (-1) in round2 fc (FFin a) (FFin b)
  end.

(* Float.normalize() of an operand: `xctx` is the context the operand carries
   (None: a Float built outside any context -> ValueError), as (pmax, nmin) *)
Definition float_normalize (xctx : option (Z * option Z)) (r : rf) : result rf :=
  match xctx with
  | None => Err ValueErr
  | Some (p, n) => normalize r (Some p) n
  end.

(* core.frexp(x, ctx): mantissa in [1, 2) and normalized exponent.  Two details
   of the source are read off /repo on every run (harness/props/c20.py) and
   passed in as a `frexp_variant`:
     fv_normalize : the finite arm starts with `x = x.normalize()`
     fv_exact_e   : the exponent is rounded with exact=True *)
Record frexp_variant := FV { fv_normalize : bool; fv_exact_e : bool }.
Definition frexp_pinned : frexp_variant := FV true false.   (* as found at the pinned revision *)
Definition frexp_repaired : frexp_variant := FV false true.

Definition core_frexp (v : frexp_variant) (fc : fctx) (xctx : option (Z * option Z)) (x : fl) : result (fl * fl) :=
  match x with
  | FNaN _ => round2 fc (FNaN false) (FNaN false)
  | FInf s => round2 fc (FInf s) (FNaN false)
  | FFin r =>
      if is_zero r then round2 fc (FFin (RF (rs r) 0 0)) (FFin (RF false 0 0))
      else
        bind (if fv_normalize v then float_normalize xctx r else Ok r) (fun y =>
        bind (fl_round fc true (FFin (RF (rs y) (0 - bitlen (rc y) + 1) (rc y)))) (fun m =>
        let ee := rf_e y in
        bind (fl_round fc (fv_exact_e v) (FFin (RF (ee <? 0) 0 (Z.abs ee)))) (fun e => Ok (m, e))))
  end.
