(* Proofs about the decompositions of Lib/Decomp.v (property C20): whenever
   split / modf / frexp return, the parts recombine exactly to the operand, and
   the special operands follow the documented table. *)
From Coq Require Import ZArith List Bool Lia Reals Lra.
From Flocq Require Import Core.
From FpyV Require Import Num.RealFloat Num.RealFloatProofs Num.Float Lib.Eft Lib.Decomp.
Import ListNotations.
Open Scope Z_scope.

Definition fl_wf (x : fl) : Prop := match x with FFin r => rf_wf r | _ => True end.
Definition fl_val (x : fl) : R := match x with FFin r => R2R r | _ => 0%R end.
Definition fl_fin (x : fl) : Prop := match x with FFin _ => True | _ => False end.

(* ---------------------------------------------------------------- exact=True rounding keeps the value *)
Lemma round_at_exact_value x p n emin rm y f : rf_wf x ->
  round_at x p n emin rm true = Ok (y, f) -> R2R y = R2R x /\ rs y = rs x.
Proof.
  intros Hw. unfold round_at.
  destruct ((rexp x >? n) && match p with Some p0 => rf_p x <=? p0 | None => true end).
  { intros [= <- _]. destruct x; simpl; auto. }
  pose proof (split_sum x n Hw) as Hs. pose proof (split_parts x n Hw) as Hp.
  destruct (split x n) as [kept lost].
  destruct (is_zero lost) eqn:Z; [|discriminate].
  intros [= <- _]. unfold is_zero in Z. apply Z.eqb_eq in Z.
  rewrite (R2R_zero lost Z) in Hs. split; [lra|tauto].
Qed.

Lemma rf_round_exact_value x p n rm y f : rf_wf x ->
  rf_round x p n rm true = Ok (y, f) -> R2R y = R2R x /\ rs y = rs x.
Proof.
  intros Hw. unfold rf_round. destruct (round_params x p n) as [[p' n']|e]; simpl; [|discriminate].
  apply round_at_exact_value. exact Hw.
Qed.

(* same class, same sign, same real value *)
Definition fl_same (x y : fl) : Prop :=
  match x, y with
  | FFin a, FFin b => R2R b = R2R a /\ rs b = rs a
  | FInf s, FInf t => s = t
  | FNaN _, FNaN _ => True
  | _, _ => False
  end.

Lemma fl_round_exact_same fc x y : fl_wf x -> fl_round fc true x = Ok y -> fl_same x y.
Proof.
  destruct x as [r|s|s]; simpl; intros Hw.
  - destruct (is_zero r) eqn:Z.
    + intros [= <-]. simpl. unfold is_zero in Z. apply Z.eqb_eq in Z.
      rewrite (R2R_zero r Z), R2R_zero by reflexivity. auto.
    + destruct (rf_round r (Some (fc_p fc)) (fc_n fc) (fc_rm fc) true) as [[z f]|e] eqn:E; simpl; [|discriminate].
      intros [= <-]. simpl. eapply rf_round_exact_value; eassumption.
  - intros [= <-]. reflexivity.
  - intros [= <-]. exact I.
Qed.

Lemma round2_same fc a b h l : fl_wf a -> fl_wf b ->
  round2 fc a b = Ok (h, l) -> fl_same a h /\ fl_same b l.
Proof.
  intros Ha Hb. unfold round2.
  destruct (fl_round fc true a) as [h'|e] eqn:E1; simpl; [|discriminate].
  destruct (fl_round fc true b) as [l'|e] eqn:E2; simpl; [|discriminate].
  intros [= <- <-]. split; eapply fl_round_exact_same; eassumption.
Qed.

(* ---------------------------------------------------------------- split *)
Theorem split_recombine fc x n hi lo : fl_wf x ->
  core_split fc x n = Ok (hi, lo) ->
  match x with
  | FFin r => fl_fin hi /\ fl_fin lo /\ (fl_val hi + fl_val lo = R2R r)%R /\
              exists k, fl_to_int n = Ok k /\ (Rabs (fl_val lo) < bpow radix2 (k + 1))%R /\
                        exists z, fl_val hi = (IZR z * bpow radix2 (k + 1))%R
  | FInf s => hi = FInf s /\ lo = FInf s
  | FNaN _ => fl_isnan hi = true /\ fl_isnan lo = true
  end.
Proof.
  intros Hw. unfold core_split. destruct (fl_is_integer n); simpl; [|discriminate].
  destruct x as [r|s|s].
  - destruct (fl_to_int n) as [k|e]; simpl; [|discriminate].
    pose proof (split_sum r k Hw) as Hs. pose proof (split_parts r k Hw) as Hp.
    destruct (split r k) as [a b]. destruct Hp as (_ & _ & Hlo & Hhi & Wa & Wb).
    intros H. apply round2_same in H; [|exact Wa|exact Wb]. destruct H as [H1 H2].
    destruct hi as [h| |]; simpl in H1; try contradiction.
    destruct lo as [l| |]; simpl in H2; try contradiction.
    simpl. destruct H1 as [H1 _], H2 as [H2 _]. rewrite H1, H2.
    repeat split; auto. exists k. repeat split; auto.
  - intros H. apply round2_same in H; try exact I. destruct H as [H1 H2].
    destruct hi; simpl in H1; try contradiction. destruct lo; simpl in H2; try contradiction. subst. auto.
  - intros H. apply round2_same in H; try exact I. destruct H as [H1 H2].
    destruct hi; simpl in H1; try contradiction. destruct lo; simpl in H2; try contradiction. auto.
Qed.

Theorem split_rejects_fraction fc x n : fl_is_integer n = false -> core_split fc x n = Err ValueErr.
Proof. intros H. unfold core_split. rewrite H. reflexivity. Qed.

(* ---------------------------------------------------------------- modf *)
Theorem modf_recombine fc x i f : fl_wf x ->
  core_modf fc x = Ok (i, f) ->
  match x with
  | FFin r => fl_fin i /\ fl_fin f /\ (fl_val i + fl_val f = R2R r)%R /\
              (Rabs (fl_val f) < 1)%R /\ (exists z, fl_val i = IZR z) /\
              fl_s i = rs r /\ fl_s f = rs r
  | FInf s => f = FInf s /\ fl_fin i /\ fl_val i = 0%R /\ fl_s i = s
  | FNaN _ => fl_isnan i = true /\ fl_isnan f = true
  end.
Proof.
  intros Hw. unfold core_modf. destruct x as [r|s|s].
  - destruct (is_zero r) eqn:Z.
    + intros H. apply round2_same in H; try (simpl; unfold rf_wf; simpl; lia). destruct H as [H1 H2].
      destruct i as [a| |]; simpl in H1; try contradiction.
      destruct f as [b| |]; simpl in H2; try contradiction.
      unfold is_zero in Z. apply Z.eqb_eq in Z.
      simpl. destruct H1 as [H1 S1], H2 as [H2 S2].
      rewrite H1, H2, (R2R_zero r Z), R2R_zero by reflexivity.
      repeat split; auto; try lra. rewrite Rabs_R0; lra. exists 0; reflexivity.
    + pose proof (split_sum r (-1) Hw) as Hs. pose proof (split_parts r (-1) Hw) as Hp.
      destruct (split r (-1)) as [a b]. destruct Hp as (Sa & Sb & Hlo & Hhi & Wa & Wb).
      intros H. apply round2_same in H; [|exact Wa|exact Wb]. destruct H as [H1 H2].
      destruct i as [h| |]; simpl in H1; try contradiction.
      destruct f as [l| |]; simpl in H2; try contradiction.
      simpl. destruct H1 as [H1 S1], H2 as [H2 S2]. rewrite H1, H2.
      change (bpow radix2 (-1 + 1)) with 1%R in *.
      repeat split; auto; try congruence.
      destruct Hhi as [z Hz]. exists z. rewrite Hz. ring.
  - intros H. apply round2_same in H; try (simpl; unfold rf_wf; simpl; lia). destruct H as [H1 H2].
    destruct i as [a| |]; simpl in H1; try contradiction.
    destruct f; simpl in H2; try contradiction. subst. simpl.
    destruct H1 as [H1 S1]. rewrite H1, R2R_zero by reflexivity. auto.
  - intros H. apply round2_same in H; try exact I. destruct H as [H1 H2].
    destruct i; simpl in H1; try contradiction. destruct f; simpl in H2; try contradiction. auto.
Qed.

(* ---------------------------------------------------------------- frexp *)
Lemma R2R_scale s e c : 0 <= c -> R2R (RF s e c) = (R2R (RF s 0 c) * bpow radix2 e)%R.
Proof.
  intros Hc. rewrite !R2R_mk. unfold F2R; simpl. ring.
Qed.

(* whenever the call returns, the mantissa m in [1,2) and the TRUE normalized
   exponent recombine exactly; the returned exponent is the true one rounded
   by the context (inexactly for the pinned variant: the returned pair then
   recombines iff the exponent is representable -- see
   frexp_exponent_rounded_refuted) *)
Theorem frexp_recombine_partial v fc xctx r m e : rf_wf r -> is_zero r = false ->
  core_frexp v fc xctx (FFin r) = Ok (m, e) ->
  exists y, (if fv_normalize v then float_normalize xctx r else Ok r) = Ok y /\
    fl_fin m /\ (fl_val m * bpow radix2 (rf_e y) = R2R r)%R /\
    (1 <= Rabs (fl_val m) < 2)%R /\ fl_s m = rs r /\
    fl_round fc (fv_exact_e v) (FFin (RF (rf_e y <? 0) 0 (Z.abs (rf_e y)))) = Ok e.
Proof.
  intros Hw Hz. unfold core_frexp. rewrite Hz.
  destruct (if fv_normalize v then float_normalize xctx r else Ok r) as [y|er] eqn:En; cbn [bind]; [|discriminate].
  assert (Hy : R2R y = R2R r /\ rs y = rs r /\ rf_wf y).
  { destruct (fv_normalize v).
    - destruct xctx as [[p n]|]; unfold float_normalize in En; [|discriminate]. eapply normalize_denote; eassumption.
    - inversion En; subst. auto. }
  destruct Hy as (Vy & Sy & Wy). unfold rf_wf in Wy.
  set (mm := RF (rs y) (0 - bitlen (rc y) + 1) (rc y)).
  destruct (fl_round fc true (FFin mm)) as [m'|er] eqn:Em; cbn [bind]; [|discriminate].
  destruct (fl_round fc (fv_exact_e v) _) as [e'|er] eqn:Ee; cbn [bind]; [|discriminate].
  intros [= <- <-]. exists y. split; [reflexivity|].
  apply fl_round_exact_same in Em; [|exact Wy].
  destruct m' as [a| |]; simpl in Em; try contradiction. destruct Em as [Va Sa].
  assert (Cy : 0 < rc y).
  { assert (rc y <> 0); [|lia]. intros C. unfold is_zero in Hz. apply Z.eqb_neq in Hz.
    apply Hz. pose proof (R2R_zero y C) as Z0. rewrite Vy in Z0.
    unfold R2R in Z0. apply eq_0_F2R in Z0. unfold rf_m in Z0. destruct (rs r); lia. }
  assert (Hrec : (R2R a * bpow radix2 (rf_e y) = R2R r)%R).
  { rewrite Va, <- Vy. unfold mm, rf_e, rf_p.
    rewrite (R2R_scale (rs y) (0 - bitlen (rc y) + 1) (rc y)) by lia.
    rewrite Rmult_assoc, <- bpow_plus.
    replace (0 - bitlen (rc y) + 1 + (rexp y + bitlen (rc y) - 1)) with (rexp y) by lia.
    rewrite <- R2R_scale by lia. destruct y; reflexivity. }
  simpl. repeat split; auto.
  - (* 1 <= |m| *)
    rewrite Va. unfold mm. rewrite R2R_mk.
    replace (if rs y then - rc y else rc y) with (cond_Zopp (rs y) (rc y)) by (destruct (rs y); reflexivity).
    rewrite F2R_cond_Zopp, abs_cond_Ropp, Rabs_pos_eq by (apply F2R_ge_0; simpl; lia).
    pose proof (bitlen_bounds _ Cy) as [B _]. pose proof (bitlen_pos _ Cy).
    unfold F2R; simpl Fnum; simpl Fexp.
    replace 1%R with (bpow radix2 (bitlen (rc y) - 1) * bpow radix2 (0 - bitlen (rc y) + 1))%R
      by (rewrite <- bpow_plus; replace (bitlen (rc y) - 1 + (0 - bitlen (rc y) + 1)) with 0 by lia; reflexivity).
    apply Rmult_le_compat_r; [apply bpow_ge_0|].
    rewrite <- IZR_Zpower by lia. apply IZR_le. exact B.
  - rewrite Va. unfold mm. rewrite R2R_mk.
    replace (if rs y then - rc y else rc y) with (cond_Zopp (rs y) (rc y)) by (destruct (rs y); reflexivity).
    rewrite F2R_cond_Zopp, abs_cond_Ropp, Rabs_pos_eq by (apply F2R_ge_0; simpl; lia).
    pose proof (bitlen_bounds _ Cy) as [_ B]. pose proof (bitlen_pos _ Cy).
    unfold F2R; simpl Fnum; simpl Fexp.
    replace 2%R with (bpow radix2 (bitlen (rc y)) * bpow radix2 (0 - bitlen (rc y) + 1))%R
      by (rewrite <- bpow_plus; replace (bitlen (rc y) + (0 - bitlen (rc y) + 1)) with 1 by lia; reflexivity).
    apply Rmult_lt_compat_r; [apply bpow_gt_0|].
    rewrite <- IZR_Zpower by lia. apply IZR_lt. exact B.
  - rewrite Sa. unfold mm. simpl. exact Sy.
Qed.

Lemma R2R_of_int (z : Z) : R2R (RF (z <? 0) 0 (Z.abs z)) = IZR z.
Proof.
  rewrite R2R_mk. unfold F2R; simpl. rewrite Rmult_1_r. f_equal.
  destruct (Z.ltb_spec z 0); lia.
Qed.

(* the repaired frexp (no normalize(), exponent rounded with exact=True): whenever
   it returns -- for ANY finite non-zero operand, with or without a context --
   the returned pair recombines exactly: x = m * 2^e, 1 <= |m| < 2, e an integer *)
Theorem frexp_recombine_repaired fc xctx r m e : rf_wf r -> is_zero r = false ->
  core_frexp frexp_repaired fc xctx (FFin r) = Ok (m, e) ->
  fl_fin m /\ fl_fin e /\ fl_val e = IZR (rf_e r) /\
  (fl_val m * bpow radix2 (rf_e r) = R2R r)%R /\ (1 <= Rabs (fl_val m) < 2)%R /\ fl_s m = rs r.
Proof.
  intros Hw Hz H.
  destruct (frexp_recombine_partial frexp_repaired fc xctx r m e Hw Hz H) as (y & Hy & Fm & Hrec & Hm & Hs & He).
  simpl in Hy. inversion Hy; subst y. simpl fv_exact_e in He.
  apply fl_round_exact_same in He; [|simpl; unfold rf_wf; simpl; lia].
  destruct e as [b| |]; simpl in He; try contradiction. destruct He as [Vb _].
  simpl. rewrite Vb, R2R_of_int. repeat split; auto; tauto.
Qed.

(* pinned variant: an operand that carries no context (e.g. built by
   Float.from_float, or an argument passed from Python) is rejected *)
Theorem frexp_no_context_rejected fc r : is_zero r = false ->
  core_frexp frexp_pinned fc None (FFin r) = Err ValueErr.
Proof. intros Hz. unfold core_frexp. rewrite Hz. reflexivity. Qed.

(* pinned variant: the exponent is rounded without exact=True: in a 2-digit
   format frexp(32) answers (1, 4) and 1 * 2^4 <> 32 *)
Theorem frexp_exponent_rounded_refuted :
  exists fc xctx r m e, core_frexp frexp_pinned fc xctx (FFin r) = Ok (FFin m, FFin e) /\
    rf_eqb e (RF false 0 (rf_e r)) = false /\ rf_eqb m (RF false 0 1) = true /\ rf_e r = 5.
Proof.
  exists (FC 2 None RNE), (Some (2, None)), (RF false 4 2), (RF false (-1) 2), (RF false 1 2).
  vm_compute. repeat split; reflexivity.
Qed.

Example frexp_repaired_same_operand :
  core_frexp frexp_repaired (FC 2 None RNE) None (FFin (RF false 4 2)) = Err ValueErr /\
  core_frexp frexp_repaired (FC 3 None RNE) None (FFin (RF false 4 2)) = Ok (FFin (RF false (-1) 2), FFin (RF false 0 5)).
Proof. vm_compute. split; reflexivity. Qed.

Theorem frexp_specials v fc xctx x m e :
  core_frexp v fc xctx x = Ok (m, e) ->
  match x with
  | FNaN _ => fl_isnan m = true /\ fl_isnan e = true
  | FInf s => m = FInf s /\ fl_isnan e = true
  | FFin r => is_zero r = true -> fl_fin m /\ fl_val m = 0%R /\ fl_s m = rs r /\ fl_fin e /\ fl_val e = 0%R
  end.
Proof.
  unfold core_frexp. destruct x as [r|s|s].
  - intros H Z. rewrite Z in H. apply round2_same in H; try (simpl; unfold rf_wf; simpl; lia).
    destruct H as [H1 H2].
    destruct m as [a| |]; simpl in H1; try contradiction.
    destruct e as [b| |]; simpl in H2; try contradiction.
    simpl. destruct H1 as [H1 S1], H2 as [H2 S2]. rewrite H1, H2, !R2R_zero by reflexivity. auto.
  - intros H. apply round2_same in H; try exact I. destruct H as [H1 H2].
    destruct m; simpl in H1; try contradiction. destruct e; simpl in H2; try contradiction. subst. auto.
  - intros H. apply round2_same in H; try exact I. destruct H as [H1 H2].
    destruct m; simpl in H1; try contradiction. destruct e; simpl in H2; try contradiction. auto.
Qed.
