(* Model of the FPy programs in fpy2/libraries/eft.py (and core.ldexp):
   a small first-order language (assignments, calls, `with REAL/INTEGER`
   blocks, `if` without else, `assert`) with an evaluator that is generic in
   the number type, so that the same program term is
     - given a meaning over the reals with a Flocq rounding operator (EftReal.v, EftProofs.v), and
     - executed on RealFloat values with the shared model of RealFloat.round
       (correspondence with fpy2, refutations by vm_compute).
   The *bodies* of the library functions are regenerated from /repo on every
   run by harness/props/c20.py and compared (Coq `=`, by vm_compute) with the
   bodies named here.  Definitions only. *)
From Coq Require Import ZArith List Bool String.
From FpyV Require Import Num.RealFloat.
Import ListNotations.
Open Scope Z_scope.
Open Scope string_scope.

(* ---------------------------------------------------------------- syntax *)
(* the rounding context an operation runs under: the caller's (ambient)
   context, fp.REAL (no rounding) or fp.INTEGER (truncate to an integer) *)
Inductive cx := CAmb | CReal | CInt.

Inductive expr :=
  | EVar (v : string)
  | EConst (z : Z)                       (* integer literal: exact *)
  | ERound (a : expr)                    (* fp.round(a) *)
  | ENeg (a : expr) | EAbs (a : expr)
  | EAdd (a b : expr) | ESub (a b : expr) | EMul (a b : expr) | EDiv (a b : expr)
  | EFma (a b c : expr)
  | EPow (a b : expr)                    (* fp.pow(a, b) and a ** b *)
  | ECeil (a : expr)
  | EMaxP.                               (* core.max_p() *)

Inductive cond :=
  | CLt (a b : expr) | CLe (a b : expr) | CGt (a b : expr) | CGe (a b : expr)
  | CEq (a b : expr) | CNe (a b : expr)
  | COr (c d : cond)
  | CIsNar (a : expr)                    (* core.isnar(a) *)
  | CIsInt (a : expr).                   (* core.isinteger(a) *)

Inductive stmt :=
  | SAssign (xs : list string) (es : list expr)        (* x = e   /   a, b = b, a *)
  | SCall (xs : list string) (f : string) (args : list expr)  (* x, y = f(args) *)
  | SWith (c : cx) (body : list stmt)
  | SIf (c : cond) (body : list stmt)
  | SAssert (c : cond).

Record fn := FN { f_params : list string; f_body : list stmt; f_ret : list expr }.
Definition prog := list (string * fn).

(* ---------------------------------------------------------------- numbers *)
Record num (T : Type) := NUM {
  n_of_Z : Z -> T;
  n_neg : T -> T; n_abs : T -> T;
  n_add : T -> T -> T; n_sub : T -> T -> T; n_mul : T -> T -> T;   (* exact *)
  n_div : T -> T -> result T;
  n_pow : T -> T -> result T;
  n_ceil : T -> T;
  n_ltb : T -> T -> bool; n_eqb : T -> T -> bool;
  n_isint : T -> bool;
  n_rnd : cx -> T -> T;                  (* rounding under a context kind *)
  n_maxp : cx -> result T }.
Arguments n_of_Z {T}. Arguments n_neg {T}. Arguments n_abs {T}. Arguments n_add {T}.
Arguments n_sub {T}. Arguments n_mul {T}. Arguments n_div {T}. Arguments n_pow {T}.
Arguments n_ceil {T}. Arguments n_ltb {T}. Arguments n_eqb {T}. Arguments n_isint {T}.
Arguments n_rnd {T}. Arguments n_maxp {T}.

(* ---------------------------------------------------------------- evaluator *)
Section Eval.
Context {T : Type} (N : num T).

Definition env := list (string * T).

Fixpoint lookup {A} (x : string) (l : list (string * A)) : result A :=
  match l with
  | [] => Err NameErr
  | (y, v) :: r => if String.eqb x y then Ok v else lookup x r
  end.

Fixpoint eval (c : cx) (s : env) (e : expr) : result T :=
  let r := n_rnd N c in
  match e with
  | EVar v => lookup v s
  | EConst z => Ok (n_of_Z N z)
  | ERound a => bind (eval c s a) (fun x => Ok (r x))
  | ENeg a => bind (eval c s a) (fun x => Ok (r (n_neg N x)))
  | EAbs a => bind (eval c s a) (fun x => Ok (r (n_abs N x)))
  | EAdd a b => bind (eval c s a) (fun x => bind (eval c s b) (fun y => Ok (r (n_add N x y))))
  | ESub a b => bind (eval c s a) (fun x => bind (eval c s b) (fun y => Ok (r (n_sub N x y))))
  | EMul a b => bind (eval c s a) (fun x => bind (eval c s b) (fun y => Ok (r (n_mul N x y))))
  | EDiv a b => bind (eval c s a) (fun x => bind (eval c s b) (fun y =>
                  bind (n_div N x y) (fun q => Ok (r q))))
  | EFma a b d => bind (eval c s a) (fun x => bind (eval c s b) (fun y => bind (eval c s d) (fun z =>
                  Ok (r (n_add N (n_mul N x y) z)))))
  | EPow a b => bind (eval c s a) (fun x => bind (eval c s b) (fun y =>
                  bind (n_pow N x y) (fun q => Ok (r q))))
  | ECeil a => bind (eval c s a) (fun x => Ok (r (n_ceil N x)))
  | EMaxP => n_maxp N c
  end.

Fixpoint evals (c : cx) (s : env) (es : list expr) : result (list T) :=
  match es with
  | [] => Ok []
  | e :: r => bind (eval c s e) (fun v => bind (evals c s r) (fun vs => Ok (v :: vs)))
  end.

Definition n_leb (x y : T) := negb (n_ltb N y x).

(* operands are finite in this model: isnar is false *)
Fixpoint evalc (c : cx) (s : env) (k : cond) : result bool :=
  let bin (a b : expr) (f : T -> T -> bool) :=
    bind (eval c s a) (fun x => bind (eval c s b) (fun y => Ok (f x y))) in
  match k with
  | CLt a b => bin a b (n_ltb N)
  | CLe a b => bin a b n_leb
  | CGt a b => bin a b (fun x y => n_ltb N y x)
  | CGe a b => bin a b (fun x y => n_leb y x)
  | CEq a b => bin a b (n_eqb N)
  | CNe a b => bin a b (fun x y => negb (n_eqb N x y))
  | COr p q => bind (evalc c s p) (fun u => if u then Ok true else evalc c s q)
  | CIsNar a => bind (eval c s a) (fun _ => Ok false)
  | CIsInt a => bind (eval c s a) (fun x => Ok (n_isint N x))
  end.

Fixpoint assign (xs : list string) (vs : list T) (s : env) : result env :=
  match xs, vs with
  | [], [] => Ok s
  | x :: xr, v :: vr => bind (assign xr vr s) (fun s' => Ok ((x, v) :: s'))
  | _, _ => Err ValueErr
  end.

(* every recursive call consumes fuel: calls, blocks and the rest of a block *)
Fixpoint run (fuel : nat) (P : prog) (c : cx) (s : env) (ss : list stmt) : result env :=
  match fuel with
  | O => Err OtherErr
  | S k =>
      match ss with
      | [] => Ok s
      | st :: rest =>
          bind (match st with
                | SAssign xs es => bind (evals c s es) (fun vs => assign xs vs s)
                | SCall xs f args =>
                    bind (evals c s args) (fun vs =>
                    bind (lookup f P) (fun fd =>
                    bind (assign (f_params fd) vs []) (fun s0 =>
                    bind (run k P c s0 (f_body fd)) (fun s1 =>
                    bind (evals c s1 (f_ret fd)) (fun rs => assign xs rs s)))))
                | SWith c' body => run k P c' s body
                | SIf cd body => bind (evalc c s cd) (fun b => if b then run k P c s body else Ok s)
                | SAssert cd => bind (evalc c s cd) (fun b => if b then Ok s else Err AssertErr)
                end) (fun s' => run k P c s' rest)
      end
  end.

(* call a library function from Python with the caller's context *)
Definition call (fuel : nat) (P : prog) (f : string) (args : list T) : result (list T) :=
  bind (lookup f P) (fun fd =>
  bind (assign (f_params fd) args []) (fun s0 =>
  bind (run fuel P CAmb s0 (f_body fd)) (fun s1 => evals CAmb s1 (f_ret fd)))).
End Eval.

Definition FUEL : nat := 64.

(* functions called by a block; a program is closed when it defines every
   function its bodies call (used to transport theorems between programs that
   agree on the functions involved) *)
Fixpoint callees_stmt (st : stmt) : list string :=
  match st with
  | SCall _ f _ => [f]
  | SWith _ b | SIf _ b =>
      (fix go (l : list stmt) : list string :=
         match l with [] => [] | x :: r => (callees_stmt x ++ go r)%list end) b
  | _ => []
  end.
Definition callees (ss : list stmt) : list string := flat_map callees_stmt ss.
Definition definedb (Q : prog) (g : string) : bool := existsb (String.eqb g) (map fst Q).
Definition closedb (Q : prog) : bool :=
  forallb (fun nf => forallb (definedb Q) (callees (f_body (snd nf)))) Q.

(* ---------------------------------------------------------------- the library, as recognised bodies *)
Definition v := EVar.

(* eft.veltkamp_split(x, s) *)
Definition veltkamp_split_body : fn := FN ["x"; "s"]
  [ SAssign ["C"] [EAdd (EPow (ERound (EConst 2)) (v "s")) (ERound (EConst 1))];
    SAssign ["g"] [EMul (v "C") (v "x")];
    SAssign ["e"] [ESub (v "x") (v "g")];
    SAssign ["s"] [EAdd (v "g") (v "e")];
    SAssign ["t"] [ESub (v "x") (v "s")] ]
  [v "s"; v "t"].

Definition ideal_2sum_body : fn := FN ["a"; "b"]
  [ SAssign ["s"] [EAdd (v "a") (v "b")];
    SWith CReal [ SAssign ["t"] [ESub (EAdd (v "a") (v "b")) (v "s")] ] ]
  [v "s"; v "t"].

Definition fast_2sum_body : fn := FN ["a"; "b"]
  [ SAssert (COr (CIsNar (v "a")) (COr (CIsNar (v "b")) (CGe (EAbs (v "a")) (EAbs (v "b")))));
    SAssign ["s"] [EAdd (v "a") (v "b")];
    SAssign ["z"] [ESub (v "s") (v "a")];
    SAssign ["t"] [ESub (v "b") (v "z")] ]
  [v "s"; v "t"].

(* Knuth / Moller TwoSum *)
Definition classic_2sum_body : fn := FN ["a"; "b"]
  [ SAssign ["s"] [EAdd (v "a") (v "b")];
    SAssign ["aa"] [ESub (v "s") (v "b")];
    SAssign ["bb"] [ESub (v "s") (v "aa")];
    SAssign ["ea"] [ESub (v "a") (v "aa")];
    SAssign ["eb"] [ESub (v "b") (v "bb")];
    SAssign ["t"] [EAdd (v "ea") (v "eb")] ]
  [v "s"; v "t"].

(* the body found in /repo at the pinned revision: `bb = s - a` (defect) *)
Definition classic_2sum_body_bad : fn := FN ["a"; "b"]
  [ SAssign ["s"] [EAdd (v "a") (v "b")];
    SAssign ["aa"] [ESub (v "s") (v "b")];
    SAssign ["bb"] [ESub (v "s") (v "a")];
    SAssign ["ea"] [ESub (v "a") (v "aa")];
    SAssign ["eb"] [ESub (v "b") (v "bb")];
    SAssign ["t"] [EAdd (v "ea") (v "eb")] ]
  [v "s"; v "t"].

Definition priest_2sum_body : fn := FN ["a"; "b"]
  [ SIf (CLt (EAbs (v "a")) (EAbs (v "b"))) [ SAssign ["a"; "b"] [v "b"; v "a"] ];
    SAssign ["c"] [EAdd (v "a") (v "b")];
    SAssign ["e"] [ESub (v "c") (v "a")];
    SAssign ["g"] [ESub (v "c") (v "e")];
    SAssign ["h"] [ESub (v "g") (v "a")];
    SAssign ["f"] [ESub (v "b") (v "h")];
    SAssign ["d"] [ESub (v "f") (v "e")];
    SIf (CNe (EAdd (v "d") (v "e")) (v "f")) [ SAssign ["c"] [v "a"]; SAssign ["d"] [v "b"] ] ]
  [v "c"; v "d"].

Definition ideal_2mul_body : fn := FN ["a"; "b"]
  [ SAssign ["s"] [EMul (v "a") (v "b")];
    SWith CReal [ SAssign ["t"] [ESub (EMul (v "a") (v "b")) (v "s")] ] ]
  [v "s"; v "t"].

Definition dekker_tail : list stmt :=
  [ SCall ["ah"; "al"] "veltkamp_split" [v "a"; v "s"];
    SCall ["bh"; "bl"] "veltkamp_split" [v "b"; v "s"];
    SAssign ["r1"] [EMul (v "a") (v "b")];
    SAssign ["t1"] [EAdd (ENeg (v "r1")) (EMul (v "ah") (v "bh"))];
    SAssign ["t2"] [EAdd (v "t1") (EMul (v "ah") (v "bl"))];
    SAssign ["t3"] [EAdd (v "t2") (EMul (v "al") (v "bh"))];
    SAssign ["r2"] [EAdd (v "t3") (EMul (v "al") (v "bl"))] ].

(* Dekker's product with the split point ceil(p/2) computed exactly *)
Definition classic_2mul_body : fn := FN ["a"; "b"]
  ( SAssign ["p"] [EMaxP] ::
    SWith CReal [ SAssign ["s"] [ECeil (EDiv (v "p") (EConst 2))] ] ::
    dekker_tail )
  [v "r1"; v "r2"].

(* the body found in /repo at the pinned revision: max_p() is asked of the
   INTEGER context (defect: always ValueError) *)
Definition classic_2mul_body_bad : fn := FN ["a"; "b"]
  ( SWith CInt [ SAssign ["p"] [EMaxP]; SAssign ["s"] [ECeil (EDiv (v "p") (EConst 2))] ] ::
    dekker_tail )
  [v "r1"; v "r2"].

(* a tempting repair that is still wrong for odd precisions: p / 2 is truncated
   by the INTEGER context before `ceil` sees it *)
Definition classic_2mul_body_half : fn := FN ["a"; "b"]
  ( SAssign ["p"] [EMaxP] ::
    SWith CInt [ SAssign ["s"] [ECeil (EDiv (v "p") (EConst 2))] ] ::
    dekker_tail )
  [v "r1"; v "r2"].

Definition fast_2mul_body : fn := FN ["a"; "b"]
  [ SAssign ["r1"] [EMul (v "a") (v "b")];
    SAssign ["r2"] [EFma (v "a") (v "b") (ENeg (v "r1"))] ]
  [v "r1"; v "r2"].

Definition ideal_fma_body : fn := FN ["a"; "b"; "c"]
  [ SAssign ["r"] [EFma (v "a") (v "b") (v "c")];
    SWith CReal [ SAssign ["t"] [ESub (EFma (v "a") (v "b") (v "c")) (v "r")] ] ]
  [v "r"; v "t"].

Definition errfma_head : list stmt :=
  [ SAssign ["r1"] [EFma (v "a") (v "b") (v "c")];
    SCall ["u1"; "u2"] "fast_2mul" [v "a"; v "b"];
    SCall ["a1"; "a2"] "classic_2sum" [v "c"; v "u2"];
    SCall ["b1"; "b2"] "classic_2sum" [v "u1"; v "a1"];
    SAssign ["g"] [EAdd (ESub (v "b1") (v "r1")) (v "b2")] ].

(* Boldo-Muller ErrFMA with the last step done by TwoSum (no magnitude precondition) *)
Definition classic_2fma_body : fn := FN ["a"; "b"; "c"]
  (errfma_head ++ [ SCall ["r2"; "r3"] "classic_2sum" [v "g"; v "a2"] ])
  [v "r1"; v "r2"; v "r3"].

(* the body found in /repo at the pinned revision: last step by fast_2sum,
   whose assertion |g| >= |a2| does not always hold (defect) *)
Definition classic_2fma_body_fast : fn := FN ["a"; "b"; "c"]
  (errfma_head ++ [ SCall ["r2"; "r3"] "fast_2sum" [v "g"; v "a2"] ])
  [v "r1"; v "r2"; v "r3"].

(* core.ldexp *)
Definition ldexp_body : fn := FN ["x"; "n"]
  [ SWith CReal [ SAssert (CIsInt (v "n")); SAssign ["scale"] [EPow (EConst 2) (v "n")] ] ]
  [EMul (v "x") (v "scale")].

(* the library with every function in its proved form *)
Definition lib_good : prog :=
  [ ("veltkamp_split", veltkamp_split_body); ("ideal_2sum", ideal_2sum_body);
    ("fast_2sum", fast_2sum_body); ("classic_2sum", classic_2sum_body);
    ("priest_2sum", priest_2sum_body); ("ideal_2mul", ideal_2mul_body);
    ("classic_2mul", classic_2mul_body); ("fast_2mul", fast_2mul_body);
    ("ideal_fma", ideal_fma_body); ("classic_2fma", classic_2fma_body);
    ("ldexp", ldexp_body) ].

Fixpoint replace_fn (f : string) (d : fn) (P : prog) : prog :=
  match P with
  | [] => []
  | (g, e) :: r => (g, if String.eqb f g then d else e) :: replace_fn f d r
  end.

(* the library as found in /repo at the pinned revision *)
Definition lib_pinned : prog :=
  replace_fn "classic_2sum" classic_2sum_body_bad
    (replace_fn "classic_2mul" classic_2mul_body_bad
      (replace_fn "classic_2fma" classic_2fma_body_fast lib_good)).

Close Scope string_scope.
(* ---------------------------------------------------------------- numbers 2: RealFloat values, executable *)
(* a floating-point context: precision, optional least digit position
   (MPFloatContext p = (p, None); MPSFloatContext p emin = (p, Some (emin - p))),
   rounding mode *)
Record fctx := FC { fc_p : Z; fc_n : option Z; fc_rm : rmode }.

Definition rf_rnd (p : option Z) (n : option Z) (rm : rmode) (x : rf) : rf :=
  if is_zero x then x else
  match rf_round x p n rm false with Ok (y, _) => y | Err _ => x end.

Definition rf_is_pow2 (x : rf) : bool := negb (rs x) && (rc x =? Z.shiftl 1 (rf_p x - 1)) && negb (is_zero x).

(* ceil through split at the unit digit *)
Definition rf_ceil (x : rf) : rf :=
  let '(hi, lo) := split x (-1) in
  if is_zero lo then hi
  else if rs x then hi else rf_add hi (RF false 0 1).

Definition numF (fc : fctx) : num rf := {|
  n_of_Z := fun z => RF (z <? 0) 0 (Z.abs z);
  n_neg := rf_neg; n_abs := rf_abs;
  n_add := rf_add; n_sub := rf_sub; n_mul := rf_mul;
  (* only division by a power of two is needed (p / 2): exact *)
  n_div := fun x y => if rf_is_pow2 y then Ok (RF (rs x) (rexp x - rf_e y) (rc x)) else Err OtherErr;
  (* only 2 ** k for an integer k *)
  n_pow := fun x y =>
    if rf_eqb x (RF false 0 2) then
      match rf_to_int y with Ok k => Ok (RF false k 1) | Err e => Err OtherErr end
    else Err OtherErr;
  n_ceil := rf_ceil;
  n_ltb := fun x y => match rf_compare x y with Lt => true | _ => false end;
  n_eqb := rf_eqb;
  n_isint := is_integer;
  n_rnd := fun c x => match c with
                      | CAmb => rf_rnd (Some (fc_p fc)) (fc_n fc) (fc_rm fc) x
                      | CReal => x
                      | CInt => rf_rnd None (Some (-1)) RTZ x
                      end;
  n_maxp := fun c => match c with
                     | CAmb => Ok (rf_rnd (Some (fc_p fc)) (fc_n fc) (fc_rm fc) (RF false 0 (fc_p fc)))
                     | _ => Err ValueErr
                     end |}.

(* exact sum / product of a list of RealFloat values *)
Definition rf_sum (l : list rf) : rf := fold_right rf_add (RF false 0 0) l.
