(* The programs of Lib/Eft.v interpreted over the reals: the number structure
   `numR rnd prec` (exact real operations, the caller's rounding operator `rnd`,
   its precision `prec`).  Definitions only. *)
From Coq Require Import ZArith List Bool String Reals.
From Flocq Require Import Core.
From FpyV Require Import Num.RealFloat Lib.Eft.
Open Scope Z_scope.

(* ---------------------------------------------------------------- numbers 1: reals with a Flocq rounding *)
Definition Rltb (x y : R) : bool := if Rlt_dec x y then true else false.
Definition Reqb (x y : R) : bool := if Req_EM_T x y then true else false.

(* `rnd` is the caller's rounding operator; `prec` its precision *)
Definition numR (rnd : R -> R) (prec : Z) : num R := {|
  n_of_Z := IZR;
  n_neg := Ropp; n_abs := Rabs;
  n_add := Rplus; n_sub := Rminus; n_mul := Rmult;
  n_div := fun x y => Ok (x / y)%R;
  n_pow := fun x y => Ok (Rpower x y);
  n_ceil := fun x => IZR (Zceil x);
  n_ltb := Rltb; n_eqb := Reqb;
  n_isint := fun x => Reqb (IZR (Zfloor x)) x;
  n_rnd := fun c x => match c with CAmb => rnd x | CReal => x | CInt => IZR (Ztrunc x) end;
  n_maxp := fun c => match c with CAmb => Ok (rnd (IZR prec)) | _ => Err ValueErr end |}.

