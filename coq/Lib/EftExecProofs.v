(* Witnesses, by vm_compute on the executable instance of the model
   (RealFloat values, shared model of RealFloat.round): the bodies found in
   /repo at the pinned revision that do NOT satisfy property C20, and examples
   showing that the proved bodies do return on the same operands. *)
From Coq Require Import ZArith List Bool String.
From FpyV Require Import Num.RealFloat Lib.Eft.
Import ListNotations.
Open Scope Z_scope.
Open Scope string_scope.

(* m * 2^e *)
Definition q (m e : Z) : rf := RF (Z.ltb m 0) e (Z.abs m).
Definition mp (p : Z) : fctx := FC p None RNE.        (* MPFloatContext(p), RNE *)

(* does the returned list sum (exactly) to `want`? *)
Definition sums_to (r : result (list rf)) (want : rf) : bool :=
  match r with Ok l => rf_eqb (rf_sum l) want | Err _ => false end.

(* --- eft.classic_2sum with `bb = s - a`: 1/8 + 3/16 in a 2-digit format *)
Theorem classic_2sum_pinned_refuted :
  exists fc a b s t,
    call (numF fc) FUEL lib_pinned "classic_2sum" [a; b] = Ok [s; t] /\
    rf_eqb (rf_add s t) (rf_add a b) = false.
Proof. exists (mp 2), (q 1 (-3)), (q 3 (-4)), (q 2 (-3)), (q 2 (-4)). vm_compute. split; reflexivity. Qed.

Example classic_2sum_good_same_operands :
  sums_to (call (numF (mp 2)) FUEL lib_good "classic_2sum" [q 1 (-3); q 3 (-4)]) (q 5 (-4)) = true.
Proof. vm_compute. reflexivity. Qed.

(* --- eft.classic_2mul asking INTEGER for its precision: executable instance too *)
Theorem classic_2mul_pinned_refuted :
  exists fc a b, call (numF fc) FUEL lib_pinned "classic_2mul" [a; b] = Err ValueErr.
Proof. exists (mp 4), (q 3 0), (q 5 0). vm_compute. reflexivity. Qed.

(* --- hoisting max_p() alone is not enough: `p / 2` under INTEGER truncates,
   so the split point is floor(p/2) and Dekker's product is wrong for odd p *)
Theorem classic_2mul_half_refuted :
  exists fc a b s t,
    call (numF fc) FUEL (replace_fn "classic_2mul" classic_2mul_body_half lib_good) "classic_2mul" [a; b] = Ok [s; t] /\
    rf_eqb (rf_add s t) (rf_mul a b) = false.
Proof. exists (mp 5), (q 5 0), (q 7 0), (q 18 1), (q 0 0). vm_compute. split; reflexivity. Qed.

Example classic_2mul_good_same_operands :
  sums_to (call (numF (mp 5)) FUEL lib_good "classic_2mul" [q 5 0; q 7 0]) (q 35 0) = true.
Proof. vm_compute. reflexivity. Qed.

(* --- eft.classic_2fma ending in fast_2sum(g, a2): |g| >= |a2| does not always
   hold (here g = -1, a2 = 5/4), so the call raises although every stated
   precondition holds (4 digits, no underflow, round to nearest even) *)
Theorem classic_2fma_fast_refuted :
  exists fc a b c,
    call (numF fc) FUEL (replace_fn "classic_2fma" classic_2fma_body_fast lib_good) "classic_2fma" [a; b; c]
      = Err AssertErr.
Proof. exists (mp 4), (q (-11) (-2)), (q (-15) 0), (q (-36) 0). vm_compute. reflexivity. Qed.

Example classic_2fma_good_same_operands :
  sums_to (call (numF (mp 4)) FUEL lib_good "classic_2fma" [q (-11) (-2); q (-15) 0; q (-36) 0]) (q 21 (-2)) = true.
Proof. vm_compute. reflexivity. Qed.

(* the three library variants are closed programs (every callee is defined) *)
Example libs_closed : closedb lib_good = true /\ closedb lib_pinned = true.
Proof. vm_compute. split; reflexivity. Qed.
