(* Proofs about the programs of Lib/Eft.v evaluated over the reals with a Flocq
   rounding operator (property C20).  The heavy lifting is Flocq's Pff2Flocq
   (Fast2Sum_correct, TwoSum_correct, Veltkamp, Veltkamp_tail, Dekker,
   ErrFMA_correct) and mult_error_FLT; this file shows that *evaluating the
   program terms* produces exactly the let-terms of those theorems. *)
From Coq Require Import ZArith List Bool String Reals Lia Lra.
From Flocq Require Import Core Pff Pff2Flocq Pff2FlocqAux Mult_error Plus_error.
From FpyV Require Import Num.RealFloat Lib.Eft Lib.EftReal.
Import ListNotations.
Open Scope R_scope.
Open Scope string_scope.

(* ---------------------------------------------------------------- booleans on R *)
Lemma Rltb_false x y : y <= x -> Rltb x y = false.
Proof. intros. unfold Rltb. destruct (Rlt_dec x y); [lra|reflexivity]. Qed.
Lemma Rltb_true x y : x < y -> Rltb x y = true.
Proof. intros. unfold Rltb. destruct (Rlt_dec x y); [reflexivity|lra]. Qed.
Lemma Reqb_refl x : Reqb x x = true.
Proof. unfold Reqb. destruct (Req_EM_T x x); congruence. Qed.
Lemma Reqb_false x y : x <> y -> Reqb x y = false.
Proof. intros. unfold Reqb. destruct (Req_EM_T x y); congruence. Qed.

Lemma Rpower_2_bpow (n : Z) : Rpower 2 (IZR n) = bpow radix2 n.
Proof. unfold Rpower. rewrite bpow_exp. reflexivity. Qed.

(* ================================================================ programs that agree on the functions involved *)
Section Ext.
Context {T : Type} (N : num T).

Definition sub_prog (Q P : prog) := forall n fd, lookup n Q = Ok fd -> lookup n P = Ok fd.
Definition defined (Q : prog) (g : string) := exists gd, lookup g Q = Ok gd.

Lemma definedb_defined Q g : definedb Q g = true -> defined Q g.
Proof.
  unfold definedb, defined. induction Q as [|[n fd] Q IH]; simpl; [discriminate|].
  destruct (String.eqb g n) eqn:E; simpl; [eauto|]. exact IH.
Qed.

Lemma lookup_In (Q : prog) n fd : lookup n Q = Ok fd -> In (n, fd) Q.
Proof.
  induction Q as [|[m gd] Q IH]; simpl; [discriminate|].
  destruct (String.eqb n m) eqn:E.
  - intros H; inversion H; subst. apply String.eqb_eq in E. subst. now left.
  - intros H. right. auto.
Qed.

Lemma closedb_closed Q : closedb Q = true ->
  forall n fd, lookup n Q = Ok fd -> forall g, In g (callees (f_body fd)) -> defined Q g.
Proof.
  unfold closedb. intros H n fd Hl g Hg.
  rewrite forallb_forall in H. specialize (H _ (lookup_In _ _ _ Hl)). simpl in H.
  rewrite forallb_forall in H. apply definedb_defined. auto.
Qed.

Lemma run_ext Q P : sub_prog Q P -> closedb Q = true ->
  forall fuel c s ss, (forall g, In g (callees ss) -> defined Q g) ->
  run N fuel P c s ss = run N fuel Q c s ss.
Proof.
  intros Hsub Hcl. induction fuel as [|k IH]; intros c s ss Hd; [reflexivity|].
  destruct ss as [|st rest]; [reflexivity|].
  assert (Hrest : forall g, In g (callees rest) -> defined Q g).
  { intros g Hg. apply Hd. unfold callees. simpl. apply in_or_app. now right. }
  assert (Hst : forall g, In g (callees_stmt st) -> defined Q g).
  { intros g Hg. apply Hd. unfold callees. simpl. apply in_or_app. now left. }
  cbn [run].
  assert (E : forall X Y : result (@env T), X = Y ->
            bind X (fun s' => run N k P c s' rest) = bind Y (fun s' => run N k Q c s' rest)).
  { intros X Y ->. destruct Y; simpl; [apply IH; assumption|reflexivity]. }
  apply E. destruct st as [xs es|xs f args|c' body|cd body|cd]; try reflexivity.
  - destruct (evals N c s args) as [vs|e]; [|reflexivity]. cbn [bind].
    destruct (Hst f (or_introl eq_refl)) as [gd Hg].
    rewrite Hg, (Hsub _ _ Hg). cbn [bind].
    destruct (assign (f_params gd) vs []) as [s0|e]; [|reflexivity]. cbn [bind].
    rewrite IH; [reflexivity|]. apply (closedb_closed Q Hcl f gd Hg).
  - apply IH. exact Hst.
  - destruct (evalc N c s cd) as [[|]|e]; try reflexivity. cbn [bind]. apply IH. exact Hst.
Qed.

Lemma call_ext Q P fuel f args : sub_prog Q P -> closedb Q = true -> defined Q f ->
  call N fuel P f args = call N fuel Q f args.
Proof.
  intros Hsub Hcl [fd Hf]. unfold call. rewrite Hf, (Hsub _ _ Hf). cbn [bind].
  destruct (assign (f_params fd) args []) as [s0|e]; [|reflexivity]. cbn [bind].
  rewrite (run_ext Q P Hsub Hcl); [reflexivity|]. apply (closedb_closed Q Hcl f fd Hf).
Qed.
End Ext.

Lemma sub_prog_nil P : sub_prog [] P.
Proof. intros n fd H. discriminate. Qed.
Lemma sub_prog_cons n fd Q P : lookup n P = Ok fd -> sub_prog Q P -> sub_prog ((n, fd) :: Q) P.
Proof.
  intros H HQ m gd. simpl. destruct (String.eqb m n) eqn:E.
  - apply String.eqb_eq in E. subst. intros X; inversion X; subst. exact H.
  - apply HQ.
Qed.

(* ================================================================ any rounding operator *)
Section AnyOperator.
Variable rnd : R -> R.
Variable prec : Z.
Notation N := (numR rnd prec).

(* error computed under `with REAL`: exact by construction, whatever `rnd` is *)
Theorem ideal_2sum_exact P a b :
  lookup "ideal_2sum" P = Ok ideal_2sum_body ->
  call N FUEL P "ideal_2sum" [a; b] = Ok [rnd (a + b); (a + b) - rnd (a + b)].
Proof. intros HP. unfold call. rewrite HP. reflexivity. Qed.

Theorem ideal_2mul_exact P a b :
  lookup "ideal_2mul" P = Ok ideal_2mul_body ->
  call N FUEL P "ideal_2mul" [a; b] = Ok [rnd (a * b); (a * b) - rnd (a * b)].
Proof. intros HP. unfold call. rewrite HP. reflexivity. Qed.

Theorem ideal_fma_exact P a b c :
  lookup "ideal_fma" P = Ok ideal_fma_body ->
  call N FUEL P "ideal_fma" [a; b; c] = Ok [rnd (a * b + c); (a * b + c) - rnd (a * b + c)].
Proof. intros HP. unfold call. rewrite HP. reflexivity. Qed.

(* ldexp: the scale is the exact power of two; the product is rounded once *)
Theorem ldexp_once P x (n : Z) :
  lookup "ldexp" P = Ok ldexp_body ->
  call N FUEL P "ldexp" [x; IZR n] = Ok [rnd (x * bpow radix2 n)].
Proof.
  intros HP. unfold call. rewrite HP. cbn.
  rewrite Zfloor_IZR, Reqb_refl. cbn. rewrite Rpower_2_bpow. reflexivity.
Qed.

Theorem ldexp_rejects_fraction P x y :
  lookup "ldexp" P = Ok ldexp_body -> IZR (Zfloor y) <> y ->
  call N FUEL P "ldexp" [x; y] = Err AssertErr.
Proof.
  intros HP Hy. unfold call. rewrite HP. cbn. rewrite Reqb_false by assumption. reflexivity.
Qed.

(* the body found at the pinned revision asks the INTEGER context for its
   precision: every call fails, whatever the operands and the context *)
Theorem classic_2mul_pinned_always_fails P a b :
  lookup "classic_2mul" P = Ok classic_2mul_body_bad ->
  call N FUEL P "classic_2mul" [a; b] = Err ValueErr.
Proof. intros HP. unfold call. rewrite HP. reflexivity. Qed.
End AnyOperator.

(* ================================================================ any rounding mode, FLT format *)
Section AnyMode.
Variable emin prec : Z.
Context { prec_gt_0_ : Prec_gt_0 prec }.
Variable rndZ : R -> Z.
Context { valid_rnd : Valid_rnd rndZ }.
Notation format := (generic_format radix2 (FLT_exp emin prec)).
Notation rnd := (round radix2 (FLT_exp emin prec) rndZ).
Notation N := (numR rnd prec).

Lemma rndm_id x : format x -> rnd x = x.
Proof. intros; apply round_generic; auto with typeclass_instances. Qed.
Lemma format_rndm x : format (rnd x).
Proof. apply generic_format_round; auto with typeclass_instances. Qed.

Lemma fast2mul_R a b : format a -> format b ->
  (a * b = 0 \/ bpow radix2 (emin + 2 * prec - 1) <= Rabs (a * b)) ->
  rnd (a * b + rnd (- rnd (a * b))) = a * b - rnd (a * b).
Proof.
  intros Fa Fb Hu.
  rewrite (rndm_id (- rnd (a * b))) by (apply generic_format_opp, format_rndm).
  apply rndm_id.
  replace (a * b - rnd (a * b)) with (- (rnd (a * b) - a * b)) by ring.
  apply generic_format_opp.
  apply mult_error_FLT; auto.
  intros Hn. destruct Hu as [Hu|Hu]; [contradiction|].
  eapply Rle_trans; [|exact Hu]. apply bpow_le. lia.
Qed.

(* FMA-based two-product: exact under any rounding mode, absent underflow *)
Theorem fast_2mul_exact P a b :
  lookup "fast_2mul" P = Ok fast_2mul_body ->
  format a -> format b ->
  (a * b = 0 \/ bpow radix2 (emin + 2 * prec - 1) <= Rabs (a * b)) ->
  exists s t, call N FUEL P "fast_2mul" [a; b] = Ok [s; t] /\ s = rnd (a * b) /\ s + t = a * b.
Proof.
  intros HP Fa Fb Hu. unfold call. rewrite HP. cbn.
  eexists _, _. split; [reflexivity|]. split; [reflexivity|].
  rewrite fast2mul_R by assumption. ring.
Qed.
End AnyMode.

(* ================================================================ round to nearest, any tie rule *)
Section Nearest.
Variable emin prec : Z.
Variable choice : Z -> bool.
Hypothesis precisionNotZero : (1 < prec)%Z.
Context { prec_gt_0_ : Prec_gt_0 prec }.
Hypothesis emin_neg : (emin <= 0)%Z.
Hypothesis choice_sym : forall x, choice x = negb (choice (- (x + 1))).
Notation format := (generic_format radix2 (FLT_exp emin prec)).
Notation rnd := (round radix2 (FLT_exp emin prec) (Znearest choice)).
Notation N := (numR rnd prec).

Lemma rnd_id x : format x -> rnd x = x.
Proof. intros; apply round_generic; auto with typeclass_instances. Qed.
Lemma rnd_abs x : format x -> rnd (Rabs x) = Rabs x.
Proof. intros; apply rnd_id, generic_format_abs; auto. Qed.
Lemma rnd_opp x : rnd (- x) = - rnd x.
Proof. apply round_N_opp_sym; auto. Qed.
Lemma format_rnd x : format (rnd x).
Proof. apply generic_format_round; auto with typeclass_instances. Qed.
Lemma rnd_0 : rnd 0 = 0.
Proof. apply round_0; auto with typeclass_instances. Qed.

(* ---------------------------------------------------------------- Fast2Sum *)
Lemma fast2sum_R a b : format a -> format b -> Rabs b <= Rabs a ->
  rnd (a + b) + rnd (b - rnd (rnd (a + b) - a)) = a + b.
Proof.
  intros Fa Fb H.
  pose proof (Fast2Sum_correct emin prec choice precisionNotZero emin_neg choice_sym a b Fa Fb H) as K.
  cbv zeta in K.
  replace (rnd (b - rnd (rnd (a + b) - a))) with (rnd (b + rnd (a - rnd (a + b)))); [exact K|].
  f_equal. unfold Rminus. f_equal. rewrite <- (rnd_opp (rnd (a + b) + - a)). f_equal. ring.
Qed.

Theorem fast_2sum_exact P a b :
  lookup "fast_2sum" P = Ok fast_2sum_body ->
  format a -> format b -> Rabs b <= Rabs a ->
  exists s t, call N FUEL P "fast_2sum" [a; b] = Ok [s; t] /\ s = rnd (a + b) /\ s + t = a + b.
Proof.
  intros HP Fa Fb Hab.
  unfold call. rewrite HP. cbn.
  rewrite !rnd_abs by assumption. unfold n_leb. cbn. rewrite Rltb_false by assumption. cbn.
  eexists _, _. split; [reflexivity|]. split; [reflexivity|]. apply fast2sum_R; assumption.
Qed.

(* the assertion of fast_2sum really is a precondition: it rejects the call otherwise *)
Theorem fast_2sum_rejects P a b :
  lookup "fast_2sum" P = Ok fast_2sum_body ->
  format a -> format b -> Rabs a < Rabs b ->
  call N FUEL P "fast_2sum" [a; b] = Err AssertErr.
Proof.
  intros HP Fa Fb Hab.
  unfold call. rewrite HP. cbn.
  rewrite !rnd_abs by assumption. unfold n_leb. cbn. rewrite Rltb_true by assumption. reflexivity.
Qed.

(* ---------------------------------------------------------------- TwoSum (Knuth, Moller) *)
Lemma twosum_R a b : format a -> format b ->
  rnd (a + b) + rnd (rnd (a - rnd (rnd (a + b) - b)) + rnd (b - rnd (rnd (a + b) - rnd (rnd (a + b) - b)))) = a + b.
Proof.
  intros Fa Fb.
  pose proof (TwoSum_correct emin prec choice precisionNotZero emin_neg choice_sym b a Fb Fa) as K.
  cbv zeta in K. rewrite (Rplus_comm a b).
  rewrite (Rplus_comm (rnd (a - _))). exact K.
Qed.

Theorem classic_2sum_exact P a b :
  lookup "classic_2sum" P = Ok classic_2sum_body ->
  format a -> format b ->
  exists s t, call N FUEL P "classic_2sum" [a; b] = Ok [s; t] /\ s = rnd (a + b) /\ s + t = a + b.
Proof.
  intros HP Fa Fb. unfold call. rewrite HP. cbn.
  eexists _, _. split; [reflexivity|]. split; [reflexivity|]. apply twosum_R; assumption.
Qed.
(* ---------------------------------------------------------------- Priest *)
(* Dekker's lemma: the first subtraction of Fast2Sum is exact.  Same transport
   from Pff as Flocq's proof of Fast2Sum_correct, with Pff.MDekker. *)
Lemma fast2sum_sub_exact x y : format x -> format y -> Rabs y <= Rabs x ->
  rnd (rnd (x + y) - x) = rnd (x + y) - x.
Proof with auto with typeclass_instances.
intros Fx Fy H.
destruct (format_is_pff_format radix2 (make_bound radix2 prec emin)
   prec (make_bound_p radix2 prec emin precisionNotZero) precisionNotZero x)
  as (fx,(Hfx,Hfx')).
rewrite make_bound_Emin; try assumption.
replace (--emin)%Z with emin by lia; assumption.
destruct (format_is_pff_format radix2 (make_bound radix2 prec emin)
   prec (make_bound_p radix2 prec emin precisionNotZero) precisionNotZero y)
  as (fy,(Hfy,Hfy')).
rewrite make_bound_Emin; try assumption.
replace (--emin)%Z with emin by lia; assumption.
pose (Iplus := fun (f g:Pff.float) => RND_Closest
        (make_bound radix2 prec emin) radix2 (Z.abs_nat prec) choice
         (FtoR radix2 f + FtoR radix2 g)).
pose (Iminus := fun (f g:Pff.float) => RND_Closest
        (make_bound radix2 prec emin) radix2 (Z.abs_nat prec) choice
         (FtoR radix2 f - FtoR radix2 g)).
assert (H1: forall x y, FtoR 2 (Iplus x y) = rnd (FtoR 2 x + FtoR 2 y)).
clear -prec_gt_0_ precisionNotZero emin_neg; intros x y.
unfold Iplus.
apply trans_eq with (round radix2
  (FLT_exp (- dExp (make_bound radix2 prec emin)) prec)
  (Znearest choice) (FtoR radix2 x + FtoR radix2 y)).
apply pff_round_N_is_round; try assumption.
now apply make_bound_p.
rewrite make_bound_Emin; try assumption.
now rewrite Z.opp_involutive.
assert (H2: forall x y, FtoR 2 (Iminus x y) = rnd (FtoR 2 x - FtoR 2 y)).
clear -prec_gt_0_ precisionNotZero emin_neg; intros x y.
unfold Iminus.
apply trans_eq with (round radix2
  (FLT_exp (- dExp (make_bound radix2 prec emin)) prec)
  (Znearest choice) (FtoR radix2 x - FtoR radix2 y)).
apply pff_round_N_is_round; try assumption.
now apply make_bound_p.
rewrite make_bound_Emin; try assumption.
now rewrite Z.opp_involutive.
assert (K: FtoR 2 (Iminus (Iplus fx fy) fx) =
       FtoR 2 (Iplus fx fy) - FtoR 2 fx).
apply Pff.MDekker with (make_bound radix2 prec emin) (Z.abs_nat prec); try assumption.
apply Nat2Z.inj_lt.
rewrite inj_abs; simpl; lia.
apply make_bound_p; lia.
intros p q Fp Fq.
apply RND_Closest_correct.
apply Nat2Z.inj_lt.
rewrite inj_abs; simpl; lia.
apply make_bound_p; lia.
intros p q.
apply FcanonicUnique with radix2 (make_bound radix2 prec emin) (Z.abs_nat prec).
apply radix_gt_1.
apply sym_not_eq, Nat.lt_neq.
apply lt_Zlt_inv.
rewrite inj_abs; simpl; lia.
apply make_bound_p; lia.
apply FcanonicFopp.
apply RND_Closest_canonic.
apply Nat2Z.inj_lt.
rewrite inj_abs; simpl; lia.
apply make_bound_p; lia.
apply RND_Closest_canonic.
apply Nat2Z.inj_lt.
rewrite inj_abs; simpl; lia.
apply make_bound_p; lia.
rewrite Fopp_correct, 2!H1, 2!Fopp_correct, <- Ropp_plus_distr.
now rewrite (round_N_opp_sym emin prec choice choice_sym).
intros p q.
apply FcanonicUnique with radix2 (make_bound radix2 prec emin) (Z.abs_nat prec).
apply radix_gt_1.
apply sym_not_eq, Nat.lt_neq, lt_Zlt_inv.
rewrite inj_abs; simpl; lia.
apply make_bound_p; lia.
apply RND_Closest_canonic.
apply Nat2Z.inj_lt.
rewrite inj_abs; simpl; lia.
apply make_bound_p; lia.
apply RND_Closest_canonic.
apply Nat2Z.inj_lt.
rewrite inj_abs; simpl; lia.
apply make_bound_p; lia.
rewrite H1,H2.
rewrite Fopp_correct.
f_equal; ring.
unfold Pff.FtoRradix.
change 2%Z with (radix_val radix2).
rewrite Hfx, Hfy; assumption.
generalize K; rewrite H2, H1.
change 2%Z with (radix_val radix2).
rewrite Hfx, Hfy. auto.
Qed.

Lemma priest_chain a b : format a -> format b -> Rabs b <= Rabs a ->
  let c := rnd (a + b) in let e := rnd (c - a) in let g := rnd (c - e) in
  let h := rnd (g - a) in let f := rnd (b - h) in let d := rnd (f - e) in
  rnd (d + e) = f /\ c + d = a + b.
Proof.
  intros Fa Fb H c e g h f d.
  assert (He : e = c - a) by (apply fast2sum_sub_exact; assumption).
  assert (Hg : g = a). { unfold g. rewrite He. replace (c - (c - a)) with a by ring. apply rnd_id; assumption. }
  assert (Hh : h = 0). { unfold h. rewrite Hg. replace (a - a) with 0 by ring. apply rnd_0; assumption. }
  assert (Hf : f = b). { unfold f. rewrite Hh. replace (b - 0) with b by ring. apply rnd_id; assumption. }
  assert (Hd : c + d = a + b). { unfold d. rewrite Hf. unfold e, c. apply fast2sum_R; assumption. }
  split; [|exact Hd].
  replace (d + e) with b by (rewrite He; lra). rewrite Hf. apply rnd_id; assumption.
Qed.

(* Priest's two-sum under round-to-nearest (any tie rule): exact, whichever operand is larger *)
Theorem priest_2sum_exact_nearest P a b :
  lookup "priest_2sum" P = Ok priest_2sum_body ->
  format a -> format b ->
  exists s t, call N FUEL P "priest_2sum" [a; b] = Ok [s; t] /\ s + t = a + b.
Proof.
  intros HP Fa Fb. unfold call. rewrite HP. cbn.
  rewrite !rnd_abs by assumption.
  destruct (Rlt_le_dec (Rabs a) (Rabs b)) as [Hlt|Hle].
  - rewrite Rltb_true by assumption. cbn.
    destruct (priest_chain b a Fb Fa (Rlt_le _ _ Hlt)) as [Ht Hs]. cbv zeta in Ht, Hs.
    rewrite Ht, Reqb_refl. cbn.
    eexists _, _. split; [reflexivity|]. rewrite Hs. ring.
  - rewrite Rltb_false by assumption. cbn.
    destruct (priest_chain a b Fa Fb Hle) as [Ht Hs]. cbv zeta in Ht, Hs.
    rewrite Ht, Reqb_refl. cbn.
    eexists _, _. split; [reflexivity|]. exact Hs.
Qed.
End Nearest.
