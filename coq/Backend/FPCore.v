(* C12 — model of the FPy <-> FPCore translation: syntax and semantics.

   DEFINITIONS ONLY (proofs are in ToFPCoreProofs.v / FromFPCoreProofs.v).

   * rounding contexts of fpy2 (`ctx`) and FPCore property dictionaries
     (`props`), `from_context` / `to_context` as in fpy2/fpc_context.py
     (as coded: `from_context`; with the `fixed` fields in standard order:
     `from_context_fixed`);
   * a mini FPy statement language (post-bundling form: every if / while /
     for carries its single changed variable) with a fuel-indexed big-step
     semantics, every operation indexed by the active context;
   * an FPCore subset (numbers, operators, let / let*, if, while / while*,
     for / for* over one dimension, `!` annotations) with a fuel-indexed
     evaluator in the style of titanfp's `Evaluator`: the evaluation context
     is a property dictionary, `!` merges its properties over the inherited
     ones and the number format is `to_context` of the merged dictionary.

   Arithmetic is abstract: a value domain `V` and a record `numops V` of
   operations indexed by the active context.  No theorem needs to know what
   rounding is; the refutation instance is integers with wrap-around.

   Fuel is consumed by loop iterations only (one unit per `while` iteration,
   every loop nest gets the same budget), identically in both semantics, so
   that the soundness theorems are plain equalities for every fuel. *)
From Coq Require Import ZArith List String Bool.
Import ListNotations.
Open Scope Z_scope.

Definition ident := string.

(* ------------------------------------------------------------------ results *)
Inductive res (A : Type) := Ok (a : A) | Err | Fuel.
Arguments Ok {A} a.
Arguments Err {A}.
Arguments Fuel {A}.

Definition bind {A B} (r : res A) (f : A -> res B) : res B :=
  match r with Ok a => f a | Err => Err | Fuel => Fuel end.

Notation "'do' x <- r ; k" := (bind r (fun x => k))
  (at level 200, x name, r at level 100, k at level 200).

Definition obind {A B} (r : option A) (f : A -> option B) : option B :=
  match r with Some a => f a | None => None end.

Notation "'olet' x := r 'in' k" := (obind r (fun x => k))
  (at level 200, x name, r at level 100, k at level 200).

(* ------------------------------------------------------------------ contexts *)
Inductive rmode := RNE | RNA | RTP | RTN | RTZ | RAZ | RTO | RTE.
Inductive ovmode := OvOverflow | OvSaturate | OvWrap.

(* The context classes fpc_context.py distinguishes; only the parameters it
   reads are kept (all other constructor parameters at their defaults). *)
Inductive ctx :=
  | CIEEE (es nbits : Z) (rm : rmode) (ov : ovmode)
  | CMPFixed (nmin : Z) (rm : rmode)
  | CFixed (signed : bool) (scale nbits : Z) (rm : rmode) (ov : ovmode)
  | CReal
  | COther (tag : Z).           (* any context class without an FPCore form *)

(* value of the `precision` property *)
Inductive precv :=
  | PSym (s : string)           (* binary64, integer, real, ... *)
  | PFloat (es nbits : Z)       (* (float es nbits) *)
  | PFixed (a b : Z).           (* (fixed a b) *)

Record props := mkProps {
  p_prec : option precv;
  p_round : option string;
  p_ovf : option string;
  p_n : option Z;
}.

Definition no_props : props := mkProps None None None None.

Definition rm_name (r : rmode) : option string :=
  match r with
  | RNE => Some "nearestEven"%string | RNA => Some "nearestAway"%string
  | RTP => Some "toPositive"%string | RTN => Some "toNegative"%string
  | RTZ => Some "toZero"%string | RAZ => Some "awayZero"%string
  | RTO | RTE => None
  end.

Definition rm_of_name (s : string) : option rmode :=
  if String.eqb s "nearestEven" then Some RNE
  else if String.eqb s "nearestAway" then Some RNA
  else if String.eqb s "toPositive" then Some RTP
  else if String.eqb s "toNegative" then Some RTN
  else if String.eqb s "toZero" then Some RTZ
  else if String.eqb s "awayZero" then Some RAZ
  else None.

Definition ov_name (o : ovmode) : string :=
  match o with OvWrap => "wrap" | OvSaturate => "clamp" | OvOverflow => "infinity" end.

Definition ov_of_name (s : string) : option ovmode :=
  if String.eqb s "wrap" then Some OvWrap
  else if String.eqb s "clamp" then Some OvSaturate
  else if String.eqb s "infinity" then Some OvOverflow
  else None.

Definition ieee_prec (es nbits : Z) : precv :=
  if (es =? 15) && (nbits =? 128) then PSym "binary128"
  else if (es =? 15) && (nbits =? 79) then PSym "binary80"
  else if (es =? 11) && (nbits =? 64) then PSym "binary64"
  else if (es =? 8) && (nbits =? 32) then PSym "binary32"
  else if (es =? 5) && (nbits =? 16) then PSym "binary16"
  else PFloat es nbits.

(* FPCoreContext.from_context; None = the call raises.
   `swap = true` is the code as it is: (fixed nbits scale). *)
Definition from_context_gen (swap : bool) (c : ctx) : option props :=
  match c with
  | CIEEE es nbits rm _ =>
      match rm_name rm with
      | Some r => Some (mkProps (Some (ieee_prec es nbits)) (Some r) None None)
      | None => None
      end
  | CMPFixed nmin rm =>
      match rm_name rm with
      | Some r => if nmin =? -1 then Some (mkProps (Some (PSym "integer")) (Some r) None None)
                  else Some (mkProps None (Some r) None (Some nmin))
      | None => None
      end
  | CFixed sg scale nbits rm ov =>
      if sg then
        match rm_name rm with
        | Some r => Some (mkProps (Some (if swap then PFixed nbits scale else PFixed scale nbits))
                                  (Some r) (Some (ov_name ov)) None)
        | None => None
        end
      else None
  | CReal => Some (mkProps (Some (PSym "real")) None None None)
  | COther _ => None
  end.

Definition from_context := from_context_gen true.          (* as coded *)
Definition from_context_fixed := from_context_gen false.   (* proposed repair *)

(* EFloat format validity for IEEE 754 (number/context/efloat.py _format_is_valid) *)
Definition valid_ieee (es nbits : Z) : bool := (1 <=? es) && (es + 2 <=? nbits).

(* FPCoreContext.to_context; None = NoSuchContextError *)
Definition to_context (p : props) : option ctx :=
  let prec := match p_prec p with Some x => x | None => PSym "binary64" end in
  let rnd := match p_round p with Some s => s | None => "nearestEven"%string end in
  let ov := match p_ovf p with Some s => s | None => "infinity"%string end in
  match prec with
  | PFloat es nb =>
      match rm_of_name rnd with
      | Some rm => if valid_ieee es nb then Some (CIEEE es nb rm OvOverflow) else None
      | None => None
      end
  | PFixed a b =>
      match rm_of_name rnd, ov_of_name ov with
      | Some rm, Some o => if 2 <=? b then Some (CFixed true a b rm o) else None
      | _, _ => None
      end
  | PSym s =>
      if String.eqb s "real" then Some CReal
      else match rm_of_name rnd with
      | None => None
      | Some rm =>
          if String.eqb s "binary128" then Some (CIEEE 15 128 rm OvOverflow)
          else if String.eqb s "binary80" then Some (CIEEE 15 79 rm OvOverflow)
          else if String.eqb s "binary64" then Some (CIEEE 11 64 rm OvOverflow)
          else if String.eqb s "binary32" then Some (CIEEE 8 32 rm OvOverflow)
          else if String.eqb s "binary16" then Some (CIEEE 5 16 rm OvOverflow)
          else if String.eqb s "integer" then Some (CMPFixed (-1) rm)
          else None
      end
  end.

(* `!` annotation: the new properties override the inherited ones *)
Definition ofirst {A} (a b : option A) : option A := match a with Some _ => a | None => b end.

Definition merge_props (new old : props) : props :=
  mkProps (ofirst (p_prec new) (p_prec old)) (ofirst (p_round new) (p_round old))
          (ofirst (p_ovf new) (p_ovf old)) (ofirst (p_n new) (p_n old)).

Definition merge_all (sc : list props) (P : props) : props :=
  fold_left (fun P p => merge_props p P) sc P.

(* which contexts the theorems speak about *)
Definition ctx_valid (c : ctx) : bool :=
  match c with
  | CIEEE es nbits _ _ => valid_ieee es nbits
  | CMPFixed _ _ => true
  | CFixed sg _ nbits _ _ => if sg then 2 <=? nbits else 1 <=? nbits
  | CReal => true
  | COther _ => true
  end.

Definition rm_expressible (r : rmode) : bool :=
  match r with RTO | RTE => false | _ => true end.

(* has an FPCore `precision` form and is determined by it *)
Definition expressible (c : ctx) : bool :=
  ctx_valid c &&
  match c with
  | CIEEE _ _ rm ov => rm_expressible rm && match ov with OvOverflow => true | _ => false end
  | CMPFixed nmin rm => (nmin =? -1) && rm_expressible rm
  | CFixed sg _ _ rm _ => sg && rm_expressible rm
  | CReal => true
  | COther _ => false
  end.

(* contexts on which from_context as coded is faithful *)
Definition expressible_coded (c : ctx) : bool :=
  expressible c && match c with CFixed _ scale nbits _ _ => scale =? nbits | _ => true end.

(* ------------------------------------------------------------------ numbers *)
(* the real-valued unary / binary operators of the backend's and the
   frontend's operator tables, named after the FPy node class *)
Inductive unop :=
  | UNeg | UAbs | USqrt | UCbrt | UCeil | UFloor | UNearbyInt | URoundInt | UTrunc | UAcos | UAsin | UAtan | UCos | USin | UTan | UAcosh | UAsinh | UAtanh | UCosh | USinh | UTanh | UExp | UExp2 | UExpm1 | ULog | ULog10 | ULog1p | ULog2 | UErf | UErfc | ULgamma | UTgamma.
Inductive binop :=
  | BAdd | BSub | BMul | BDiv | BCopysign | BFdim | BFmod | BRemainder | BHypot | BAtan2 | BPow.
Inductive cmpop := CLt | CLe | CGt | CGe | CEq | CNe.

Record numops (V : Type) := mkNumops {
  n_lit : ctx -> string -> V;        (* decimal literal rounded under the context *)
  n_num : ctx -> Z -> V;             (* integer literal rounded under the context *)
  n_int : Z -> V;                    (* exact integer (unrounded literal, loop index) *)
  n_un : ctx -> unop -> V -> V;
  n_bin : ctx -> binop -> V -> V -> V;
  n_cmp : cmpop -> V -> V -> bool;
  n_count : V -> option nat;         (* iterations of range(v) *)
}.
Arguments n_lit {V}. Arguments n_num {V}. Arguments n_int {V}. Arguments n_un {V}.
Arguments n_bin {V}. Arguments n_cmp {V}. Arguments n_count {V}.

(* ------------------------------------------------------------------ mini FPy *)
Inductive expr :=
  | EVar (x : ident)
  | ELit (s : string)           (* round(<decimal literal>) *)
  | ERNum (z : Z)               (* round(<integer literal>) *)
  | EInt (z : Z)                (* unrounded integer literal (unsafe_int_cast) *)
  | EUn (o : unop) (a : expr)
  | EBin (o : binop) (a b : expr).

Inductive bexp :=
  | BCmp (o : cmpop) (a b : expr)
  | BAnd (a b : bexp)
  | BOr (a b : bexp)
  | BNot (a : bexp).

Inductive stmt :=
  | SAssign (x : ident) (e : expr)
  | SWith (c : ctx) (b : block)
  | SIf (c : bexp) (x : ident) (t f : block)        (* x: the one variable the statement changes *)
  | SIf1 (c : bexp) (x : ident) (t : block)
  | SWhile (c : bexp) (x : ident) (b : block)
  | SFor (i : ident) (n : expr) (x : ident) (b : block)   (* for i in range(n) *)
  | SRet (e : expr)
  | SPass
with block :=
  | BNil
  | BCons (s : stmt) (b : block).

Record func := mkFunc { f_args : list ident; f_ctx : option ctx; f_body : block }.

(* ------------------------------------------------------------------ FPCore subset *)
Inductive cexpr :=
  | CVar (x : ident)
  | CLit (s : string)
  | CNum (z : Z)
  | CUn (o : unop) (a : cexpr)
  | CBin (o : binop) (a b : cexpr)
  | CCmp (o : cmpop) (a b : cexpr)
  | CAnd (a b : cexpr)
  | COr (a b : cexpr)
  | CNot (a : cexpr)
  | CIf (c t f : cexpr)
  | CLet (star : bool) (bs : binds) (body : cexpr)
  | CWhile (star : bool) (c : cexpr) (ws : wbinds) (body : cexpr)
  (* (for ([i n]) ws body) where the dimension variable is visible in the
     update expressions only: the harness normalises the compiler's
     range-tensor detour
       (let ([t (tensor ([j n]) j)]) (for ([k (size t 0)]) ([x x (let ([i (ref t k)]) U)]) R))
     (t, j, k generated names) to CFor false i n [(x, x, U)] R. *)
  | CFor (star : bool) (i : ident) (n : cexpr) (ws : wbinds) (body : cexpr)
  | CAnn (p : props) (e : cexpr)
with binds :=
  | LNil
  | LCons (x : ident) (e : cexpr) (bs : binds)
with wbinds :=
  | WNil
  | WCons (x : ident) (init upd : cexpr) (ws : wbinds).

Record cprog := mkCprog { cp_args : list ident; cp_props : props; cp_body : cexpr }.

Inductive val (V : Type) := VNum (v : V) | VBool (b : bool).
Arguments VNum {V} v.
Arguments VBool {V} b.

(* ------------------------------------------------------------------ loops *)
Fixpoint while_loop {St : Type} (n : nat) (cond : St -> res bool) (step : St -> res St) (s : St) : res St :=
  match n with
  | O => Fuel
  | S n' => do b <- cond s;
            if b then (do s' <- step s; while_loop n' cond step s') else Ok s
  end.

Fixpoint for_loop {St : Type} (cnt k : nat) (step : nat -> St -> res St) (s : St) : res St :=
  match cnt with
  | O => Ok s
  | S c' => do s' <- step k s; for_loop c' (Datatypes.S k) step s'
  end.

Section Base.
  Variable V : Type.
  Variable N : numops V.

  Definition env := ident -> option V.
  Definition empty_env : env := fun _ => None.
  Definition update (r : env) (x : ident) (v : V) : env :=
    fun y => if String.eqb x y then Some v else r y.
  Definition lookup (r : env) (x : ident) : res V :=
    match r x with Some v => Ok v | None => Err end.

  Fixpoint bind_args (xs : list ident) (vs : list V) (r : env) : res env :=
    match xs, vs with
    | [], [] => Ok r
    | x :: xs', v :: vs' => bind_args xs' vs' (update r x v)
    | _, _ => Err
    end.

  (* ---------------------------------------------------------------- source *)
  Fixpoint eval_expr (c : ctx) (r : env) (e : expr) : res V :=
    match e with
    | EVar x => lookup r x
    | ELit s => Ok (n_lit N c s)
    | ERNum z => Ok (n_num N c z)
    | EInt z => Ok (n_int N z)
    | EUn o a => do va <- eval_expr c r a; Ok (n_un N c o va)
    | EBin o a b => do va <- eval_expr c r a; do vb <- eval_expr c r b; Ok (n_bin N c o va vb)
    end.

  (* `and` / `or` evaluate both operands (fpy2 interpreter and titanfp both do) *)
  Fixpoint eval_bexp (c : ctx) (r : env) (b : bexp) : res bool :=
    match b with
    | BCmp o a b => do va <- eval_expr c r a; do vb <- eval_expr c r b; Ok (n_cmp N o va vb)
    | BAnd a b => do x <- eval_bexp c r a; do y <- eval_bexp c r b; Ok (x && y)
    | BOr a b => do x <- eval_bexp c r a; do y <- eval_bexp c r b; Ok (x || y)
    | BNot a => do x <- eval_bexp c r a; Ok (negb x)
    end.

  Inductive outcome := ONormal (r : env) | ORet (v : V).

  (* run a sub-block to completion and read the one variable it exports *)
  Definition export (o : res outcome) (r : env) (x : ident) : res env :=
    do o' <- o;
    match o' with
    | ONormal r' => do v <- lookup r' x; Ok (update r x v)
    | ORet _ => Err                       (* return inside if / loop: not in the subset *)
    end.

  Definition ret_of (o : res outcome) : res V :=
    do o' <- o; match o' with ORet v => Ok v | ONormal _ => Err end.

  Definition as_num (v : res (val V)) : res V :=
    do v' <- v; match v' with VNum x => Ok x | VBool _ => Err end.
  Definition as_bool (v : res (val V)) : res bool :=
    do v' <- v; match v' with VBool b => Ok b | VNum _ => Err end.

  Definition with_ctx {A} (P : props) (k : ctx -> res A) : res A :=
    match to_context P with Some c => k c | None => Err end.
End Base.

Arguments ONormal {V} r.
Arguments ORet {V} v.
Arguments with_ctx {A} P k.

(* The mutually recursive evaluators take V and N as ordinary arguments (not
   section variables) so that `simpl` can refold them. *)

(* A variable the statement changes must be defined before it (x is a
   `mutated` variable of the def-use analysis); for SIf it may be introduced
   by both branches. *)
Fixpoint exec_stmt (V : Type) (N : numops V) (fuel : nat) (c : ctx) (r : env V) (s : stmt) {struct s}
  : res (outcome V) :=
  match s with
  | SAssign x e => do v <- eval_expr V N c r e; Ok (ONormal (update V r x v))
  | SWith c' b => exec_block V N fuel c' r b            (* the context is lexically scoped *)
  | SIf cnd x t f =>
      do b <- eval_bexp V N c r cnd;
      do r' <- export V (if b then exec_block V N fuel c r t else exec_block V N fuel c r f) r x;
      Ok (ONormal r')
  | SIf1 cnd x t =>
      do b <- eval_bexp V N c r cnd;
      if b then (do r' <- export V (exec_block V N fuel c r t) r x; Ok (ONormal r'))
      else (do v <- lookup V r x; Ok (ONormal (update V r x v)))
  | SWhile cnd x b =>
      do v0 <- lookup V r x;
      do r' <- while_loop fuel (fun r => eval_bexp V N c r cnd)
                 (fun r => export V (exec_block V N fuel c r b) r x) (update V r x v0);
      Ok (ONormal r')
  | SFor i n x b =>
      do vn <- eval_expr V N c r n;
      match n_count N vn with
      | None => Err
      | Some cnt =>
          do v0 <- lookup V r x;
          do r' <- for_loop cnt O
                     (fun k r => export V (exec_block V N fuel c (update V r i (n_int N (Z.of_nat k))) b) r x)
                     (update V r x v0);
          Ok (ONormal r')
      end
  | SRet e => do v <- eval_expr V N c r e; Ok (ORet v)
  | SPass => Ok (ONormal r)
  end
with exec_block (V : Type) (N : numops V) (fuel : nat) (c : ctx) (r : env V) (b : block) {struct b}
  : res (outcome V) :=
  match b with
  | BNil => Ok (ONormal r)
  | BCons s b' =>
      do o <- exec_stmt V N fuel c r s;
      match o with
      | ONormal r' => exec_block V N fuel c r' b'
      | ORet v => Ok (ORet v)
      end
  end.

(* f applied to args, called with ambient context `cdef` (IEEE binary64 RNE at top level) *)
Definition run_func (V : Type) (N : numops V) (fuel : nat) (cdef : ctx) (f : func) (args : list V) : res V :=
  do r <- bind_args V (f_args f) args (empty_env V);
  ret_of V (exec_block V N fuel (match f_ctx f with Some c => c | None => cdef end) r (f_body f)).

(* ---------------------------------------------------------------- FPCore *)
Fixpoint ceval (V : Type) (N : numops V) (fuel : nat) (P : props) (r : env V) (e : cexpr) {struct e}
  : res (val V) :=
  match e with
  | CVar x => do v <- lookup V r x; Ok (VNum v)
  | CLit s => with_ctx P (fun c => Ok (VNum (n_lit N c s)))
  | CNum z => with_ctx P (fun c => Ok (VNum (n_num N c z)))
  | CUn o a => do va <- as_num V (ceval V N fuel P r a); with_ctx P (fun c => Ok (VNum (n_un N c o va)))
  | CBin o a b =>
      do va <- as_num V (ceval V N fuel P r a); do vb <- as_num V (ceval V N fuel P r b);
      with_ctx P (fun c => Ok (VNum (n_bin N c o va vb)))
  | CCmp o a b =>
      do va <- as_num V (ceval V N fuel P r a); do vb <- as_num V (ceval V N fuel P r b);
      Ok (VBool (n_cmp N o va vb))
  | CAnd a b => do x <- as_bool V (ceval V N fuel P r a); do y <- as_bool V (ceval V N fuel P r b); Ok (VBool (x && y))
  | COr a b => do x <- as_bool V (ceval V N fuel P r a); do y <- as_bool V (ceval V N fuel P r b); Ok (VBool (x || y))
  | CNot a => do x <- as_bool V (ceval V N fuel P r a); Ok (VBool (negb x))
  | CIf cnd t f =>
      do b <- as_bool V (ceval V N fuel P r cnd);
      if b then ceval V N fuel P r t else ceval V N fuel P r f
  | CLet star bs body =>
      do r' <- (if star then cbinds_seq V N fuel P r bs else cbinds_par V N fuel P r r bs);
      ceval V N fuel P r' body
  | CWhile star cnd ws body =>
      do r0 <- (if star then winit_seq V N fuel P r ws else winit_par V N fuel P r r ws);
      do r' <- while_loop fuel (fun r => as_bool V (ceval V N fuel P r cnd))
                 (fun r => if star then wupd_seq V N fuel P r ws else wupd_par V N fuel P r r ws) r0;
      ceval V N fuel P r' body
  | CFor star i n ws body =>
      do vn <- as_num V (ceval V N fuel P r n);
      match n_count N vn with
      | None => Err
      | Some cnt =>
          do r0 <- (if star then winit_seq V N fuel P r ws else winit_par V N fuel P r r ws);
          do r' <- for_loop cnt O
                     (fun k r =>
                        let ri := update V r i (n_int N (Z.of_nat k)) in
                        if star then wupd_seq_in V N fuel P ri r ws else wupd_par V N fuel P ri r ws) r0;
          ceval V N fuel P r' body
      end
  | CAnn p e' => ceval V N fuel (merge_props p P) r e'
  end
(* parallel let: every value is evaluated in `re`, bound on top of `ra` *)
with cbinds_par (V : Type) (N : numops V) (fuel : nat) (P : props) (re ra : env V) (bs : binds) {struct bs} : res (env V) :=
  match bs with
  | LNil => Ok ra
  | LCons x e bs' => do v <- as_num V (ceval V N fuel P re e); cbinds_par V N fuel P re (update V ra x v) bs'
  end
with cbinds_seq (V : Type) (N : numops V) (fuel : nat) (P : props) (r : env V) (bs : binds) {struct bs} : res (env V) :=
  match bs with
  | LNil => Ok r
  | LCons x e bs' => do v <- as_num V (ceval V N fuel P r e); cbinds_seq V N fuel P (update V r x v) bs'
  end
with winit_par (V : Type) (N : numops V) (fuel : nat) (P : props) (re ra : env V) (ws : wbinds) {struct ws} : res (env V) :=
  match ws with
  | WNil => Ok ra
  | WCons x i _ ws' => do v <- as_num V (ceval V N fuel P re i); winit_par V N fuel P re (update V ra x v) ws'
  end
with winit_seq (V : Type) (N : numops V) (fuel : nat) (P : props) (r : env V) (ws : wbinds) {struct ws} : res (env V) :=
  match ws with
  | WNil => Ok r
  | WCons x i _ ws' => do v <- as_num V (ceval V N fuel P r i); winit_seq V N fuel P (update V r x v) ws'
  end
with wupd_par (V : Type) (N : numops V) (fuel : nat) (P : props) (re ra : env V) (ws : wbinds) {struct ws} : res (env V) :=
  match ws with
  | WNil => Ok ra
  | WCons x _ u ws' => do v <- as_num V (ceval V N fuel P re u); wupd_par V N fuel P re (update V ra x v) ws'
  end
with wupd_seq (V : Type) (N : numops V) (fuel : nat) (P : props) (r : env V) (ws : wbinds) {struct ws} : res (env V) :=
  match ws with
  | WNil => Ok r
  | WCons x _ u ws' => do v <- as_num V (ceval V N fuel P r u); wupd_seq V N fuel P (update V r x v) ws'
  end
(* for*: `re` sees the dimension variable, `ra` is the loop state *)
with wupd_seq_in (V : Type) (N : numops V) (fuel : nat) (P : props) (re ra : env V) (ws : wbinds) {struct ws} : res (env V) :=
  match ws with
  | WNil => Ok ra
  | WCons x _ u ws' =>
      do v <- as_num V (ceval V N fuel P re u);
      wupd_seq_in V N fuel P (update V re x v) (update V ra x v) ws'
  end.

(* Interpreter().interpret(core, args) with inherited properties Pdef
   (empty at top level: titanfp then uses binary64 nearestEven, as to_context does) *)
Definition run_core (V : Type) (N : numops V) (fuel : nat) (Pdef : props) (p : cprog) (args : list V) : res V :=
  do r <- bind_args V (cp_args p) args (empty_env V);
  as_num V (ceval V N fuel (merge_props (cp_props p) Pdef) r (cp_body p)).
