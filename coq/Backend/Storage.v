(* Model of fpy2/backend/cpp/storage.py (the storage ladder, choose_storage_scalar,
   scalar_fits_in, bound_fits_in_scalar) and of the rounding-mode table of
   fpy2/backend/cpp/emitter.py (_FE_RM_MACRO) / target.py (_FP_RMS, native contexts).
   Definitions only.  The ladder and the tables are DATA in the source: they are
   regenerated from /repo on every run of ./check C11 and proved equal to the
   static definitions below (build/C11/GenStorage.v). *)
From Coq Require Import ZArith List Bool.
From FpyV Require Import Num.RealFloat Num.Float Analysis.AbsFormat.
Import ListNotations.
Open Scope Z_scope.

(* types.CppScalar *)
Inductive cppscalar := CBOOL | CF32 | CF64 | CU8 | CU16 | CU32 | CU64 | CS8 | CS16 | CS32 | CS64.

Definition cpp_eqb (a b : cppscalar) : bool :=
  match a, b with
  | CBOOL, CBOOL | CF32, CF32 | CF64, CF64 | CU8, CU8 | CU16, CU16 | CU32, CU32 | CU64, CU64
  | CS8, CS8 | CS16, CS16 | CS32, CS32 | CS64, CS64 => true
  | _, _ => false
  end.

(* AbstractFormat.from_format of the contexts the ladder names *)
Definition af_uint (n : Z) : absfmt :=        (* FixedFormat(signed=False, scale=0, nbits=n) *)
  AF EPInf (EFin 0) (BFin (RF false 0 (2 ^ n - 1))) (BFin (RF false 0 0)) false false false false.
Definition af_sint (n : Z) : absfmt :=        (* FixedFormat(signed=True, scale=0, nbits=n) *)
  AF EPInf (EFin 0) (BFin (RF false 0 (2 ^ (n - 1) - 1))) (BFin (RF true 0 (2 ^ (n - 1)))) false false false false.
Definition af_ieee (p expmin emaxexp : Z) : absfmt :=   (* IEEEFormat: pmax p, expmin, maxval = (2^p - 1) * 2^emaxexp *)
  AF (EFin p) (EFin expmin) (BFin (RF false emaxexp (2 ^ p - 1))) (BFin (RF true emaxexp (2 ^ p - 1))) true true true true.

(* storage._LADDER, smallest first *)
Definition ladder : list (cppscalar * absfmt) :=
  [ (CU8, af_uint 8); (CS8, af_sint 8); (CU16, af_uint 16); (CS16, af_sint 16);
    (CU32, af_uint 32); (CS32, af_sint 32); (CF32, af_ieee 24 (-149) 104);
    (CU64, af_uint 64); (CS64, af_sint 64); (CF64, af_ieee 53 (-1074) 971) ].

(* _LADDER_LOOKUP[ty] *)
Fixpoint lookup (l : list (cppscalar * absfmt)) (ty : cppscalar) : option absfmt :=
  match l with
  | [] => None
  | (t, a) :: r => if cpp_eqb t ty then Some a else lookup r ty
  end.

(* the ladder walk of choose_storage_scalar: first rung whose format contains af *)
Fixpoint first_fit (l : list (cppscalar * absfmt)) (A : absfmt) : option cppscalar :=
  match l with
  | [] => None
  | (t, L) :: r => if af_le A L then Some t else first_fit r A
  end.

(* choose_storage_scalar on an abstractable, non-bottom bound whose abstract format is A.
   `mpfixed_int` : the bound is an MPFixedFormat with expmin >= 0 (the unbounded integer),
   for which the code falls back to int64_t *ignoring the magnitude* when the specials fit. *)
Inductive storage := SLadder (t : cppscalar) | SFallbackS64 | SNone.

Definition choose_storage_scalar (A : absfmt) (mpfixed_int : bool) : storage :=
  match first_fit ladder A with
  | Some t => SLadder t
  | None =>
      match lookup ladder CS64 with
      | Some L => if mpfixed_int && specials_le A L then SFallbackS64 else SNone
      | None => SNone
      end
  end.

(* scalar_fits_in *)
Definition scalar_fits_in (a b : cppscalar) : bool :=
  match a, b with
  | CBOOL, _ | _, CBOOL => cpp_eqb a b
  | _, _ => match lookup ladder a, lookup ladder b with
            | Some x, Some y => af_le x y
            | _, _ => false
            end
  end.

(* bound_fits_in_scalar on an abstractable bound with abstract format A *)
Definition bound_fits_in_scalar (A : absfmt) (ty : cppscalar) : bool :=
  match ty with
  | CBOOL => false
  | _ => match lookup ladder ty with Some L => af_le A L | None => false end
  end.

(* ---------------------------------------------------------------- rounding modes *)
Inductive femode := FE_TONEAREST | FE_TOWARDZERO | FE_UPWARD | FE_DOWNWARD.

(* emitter._FE_RM_MACRO as an association list *)
Definition fe_table : list (rmode * femode) :=
  [ (RNE, FE_TONEAREST); (RTZ, FE_TOWARDZERO); (RTP, FE_UPWARD); (RTN, FE_DOWNWARD) ].

Definition rmode_eqb (a b : rmode) : bool :=
  match a, b with
  | RNE, RNE | RNA, RNA | RTP, RTP | RTN, RTN | RTZ, RTZ | RAZ, RAZ | RTO, RTO | RTE, RTE => true
  | _, _ => false
  end.

Fixpoint fe_lookup (l : list (rmode * femode)) (rm : rmode) : option femode :=
  match l with
  | [] => None
  | (r, f) :: t => if rmode_eqb r rm then Some f else fe_lookup t rm
  end.

Definition fe_of_rm (rm : rmode) : option femode := fe_lookup fe_table rm.

(* target._FP_RMS and the native contexts _fp_ctxs(): (es, nbits, rm) *)
Definition fp_rms : list rmode := [RNE; RTZ; RTP; RTN].
Definition fp_bases : list (Z * Z) := [(8, 32); (11, 64)].
Definition fp_ctxs : list (Z * Z * rmode) :=
  flat_map (fun b => map (fun rm => (fst b, snd b, rm)) fp_rms) fp_bases.

(* IEEE parameters of (es, nbits): precision, expmin (quantum exponent), exponent of maxval *)
Definition ieee_params (es nbits : Z) : Z * Z * Z :=
  let p := nbits - es in
  let emax := 2 ^ (es - 1) - 1 in
  let emin := 1 - emax in
  (p, emin - p + 1, emax - p + 1).

(* ---------------------------------------------------------------- counters of constant-bound range loops *)
(* len(range(start, stop, step)), step <> 0 *)
Definition range_len (start stop step : Z) : Z :=
  if step >? 0 then (if start <? stop then (stop - start + step - 1) / step else 0)
  else if step <? 0 then (if stop <? start then (start - stop - step - 1) / (- step) else 0)
  else 0.

(* emitter._range_counter_scalar: a C-style counter transiently reaches the first value past
   `stop`: overshoot = start + len(range) * step; it is typed by
   choose_storage(AbstractFormat(inf, 0, max(|start|, |overshoot|)).format()) *)
Definition counter_bound (start stop step : Z) : Z :=
  Z.max (Z.abs start) (Z.abs (start + range_len start stop step * step)).
Definition counter_fmt (b : Z) : absfmt :=
  AF EPInf (EFin 0) (BFin (RF false 0 b)) (BFin (RF true 0 b)) false false false false.
Definition range_counter_scalar (start stop step : Z) : storage :=
  choose_storage_scalar (counter_fmt (counter_bound start stop step)) false.

(* an integer as a value *)
Definition z2fl (z : Z) : fl := FFin (RF (z <? 0) 0 (Z.abs z)).
