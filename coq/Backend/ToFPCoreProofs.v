(* C12 — soundness of the block -> nested-let translation (Backend/ToFPCore.v).

   One induction covers both versions of `_visit_context`:
   * fx = true  (annotation around the body's own bindings, continuation
     outside): sound for every program;
   * fx = false (the code as it is: continuation compiled inside the
     annotation): sound for programs in which only variable copies follow a
     `with` inside its own block (`wl_block`; the copies are what IfBundling
     puts around a branch), because then the continuation that ends up inside
     the annotation does not depend on the active properties;
   and refuted by computation on the known witness. *)
From Coq Require Import ZArith List String Bool Lia FunctionalExtensionality.
From FpyV Require Import Backend.FPCore Backend.FPCoreProofs Backend.ToFPCore.
Import ListNotations.
Open Scope Z_scope.

Scheme stmt_mut := Induction for stmt Sort Prop
  with block_mut := Induction for block Sort Prop.
Combined Scheme stmt_block_ind from stmt_mut, block_mut.

Lemma tr_block_cons_some : forall fc fx sc s b kk,
  tr_block fc fx sc (BCons s b) (Some kk) =
  obind (tr_block fc fx sc b (Some kk)) (fun e => tr_stmt fc fx sc s (Some e)).
Proof. intros; destruct b; reflexivity. Qed.

Section Sound.
  Variable V : Type.
  Variable N : numops V.
  (* an integer literal read under `:precision integer` is that integer *)
  Hypothesis Hint : forall rm z, n_num N (CMPFixed (-1) rm) z = n_int N z.

  Notation ceval := (ceval V N).
  Notation update := (update V).
  Notation lookup := (lookup V).

  (* ---------------------------------------------------------------- expressions *)
  Lemma tr_expr_sound : forall e fuel P c r, good P c ->
    as_num V (ceval fuel P r (tr_expr e)) = eval_expr V N c r e.
  Proof.
    induction e; intros fuel P c r Hg; pose proof Hg as [Hc Hr]; simpl.
    - unfold FPCore.lookup. destruct (r x); reflexivity.
    - unfold with_ctx. rewrite Hc. reflexivity.
    - unfold with_ctx. rewrite Hc. reflexivity.
    - destruct (int_props_good P Hr) as [rm E].
      unfold with_ctx, int_props. rewrite E. simpl. rewrite Hint. reflexivity.
    - rewrite (IHe fuel P c r Hg). destruct (eval_expr V N c r e); simpl; try reflexivity.
      unfold with_ctx. rewrite Hc. reflexivity.
    - rewrite (IHe1 fuel P c r Hg). destruct (eval_expr V N c r e1); simpl; try reflexivity.
      rewrite (IHe2 fuel P c r Hg). destruct (eval_expr V N c r e2); simpl; try reflexivity.
      unfold with_ctx. rewrite Hc. reflexivity.
  Qed.

  Lemma tr_bexp_sound : forall b fuel P c r, good P c ->
    as_bool V (ceval fuel P r (tr_bexp b)) = eval_bexp V N c r b.
  Proof.
    induction b; intros fuel P c r Hg; simpl.
    - rewrite (tr_expr_sound a fuel P c r Hg). destruct (eval_expr V N c r a); simpl; try reflexivity.
      rewrite (tr_expr_sound b fuel P c r Hg). destruct (eval_expr V N c r b); reflexivity.
    - rewrite (IHb1 fuel P c r Hg). destruct (eval_bexp V N c r b1); simpl; try reflexivity.
      rewrite (IHb2 fuel P c r Hg). destruct (eval_bexp V N c r b2); reflexivity.
    - rewrite (IHb1 fuel P c r Hg). destruct (eval_bexp V N c r b1); simpl; try reflexivity.
      rewrite (IHb2 fuel P c r Hg). destruct (eval_bexp V N c r b2); reflexivity.
    - rewrite (IHb fuel P c r Hg). destruct (eval_bexp V N c r b); reflexivity.
  Qed.

  Lemma wrap_eval : forall sc fuel P r e,
    ceval fuel P r (wrap sc e) = ceval fuel (merge_all sc P) r e.
  Proof. induction sc; intros; simpl; [reflexivity|]. rewrite IHsc. reflexivity. Qed.

  (* ---------------------------------------------------------------- single-binding forms *)
  Lemma ceval_let1 : forall fuel P r x e kk,
    ceval fuel P r (let1 x e kk) =
    bind (as_num V (ceval fuel P r e)) (fun v => ceval fuel P (update r x v) kk).
  Proof. intros; unfold let1; simpl. destruct (as_num V (ceval fuel P r e)); reflexivity. Qed.

  Lemma ceval_while1 : forall fuel P r cc x U kk,
    ceval fuel P r (CWhile false cc (loop1 x U) kk) =
    bind (lookup r x) (fun v0 =>
    bind (while_loop fuel (fun r => as_bool V (ceval fuel P r cc))
            (fun r => bind (as_num V (ceval fuel P r U)) (fun v => Ok (update r x v)))
            (update r x v0)) (fun r' => ceval fuel P r' kk)).
  Proof.
    intros; unfold loop1; simpl. unfold FPCore.lookup. destruct (r x); reflexivity.
  Qed.

  Lemma ceval_for1 : forall fuel P r i nn x U kk,
    ceval fuel P r (CFor false i nn (loop1 x U) kk) =
    bind (as_num V (ceval fuel P r nn)) (fun vn =>
    match n_count N vn with
    | None => Err
    | Some cnt =>
        bind (lookup r x) (fun v0 =>
        bind (for_loop cnt O
                (fun k r => bind (as_num V (ceval fuel P (update r i (n_int N (Z.of_nat k))) U))
                              (fun v => Ok (update r x v)))
                (update r x v0)) (fun r' => ceval fuel P r' kk))
    end).
  Proof.
    intros; unfold loop1; simpl. destruct (as_num V (ceval fuel P r nn)); simpl; try reflexivity.
    destruct (n_count N a); [|reflexivity].
    unfold FPCore.lookup. destruct (r x); reflexivity.
  Qed.

  (* the value of a continuation that does not depend on the active properties *)
  Definition insens (kk : cexpr) : Prop := forall fuel P P' r, ceval fuel P r kk = ceval fuel P' r kk.

  Lemma insens_var : forall x, insens (CVar x).
  Proof. intros x fuel P P' r; reflexivity. Qed.

  Definition cont (kk : cexpr) (fuel : nat) (P : props) (o : res (outcome V)) : res (val V) :=
    bind o (fun o' => match o' with ONormal r' => ceval fuel P r' kk | ORet _ => Err end).

  Lemma step_eq : forall fuel P s1 s x U m,
    ceval fuel P s1 U = cont (CVar x) fuel P m ->
    bind (as_num V (ceval fuel P s1 U)) (fun v => Ok (update s x v)) = export V m s x.
  Proof.
    intros fuel P s1 s x U m H. rewrite H. unfold cont, export.
    destruct m as [[r'|v]| |]; simpl; try reflexivity.
    unfold FPCore.lookup. destruct (r' x); reflexivity.
  Qed.

  Lemma export_only : forall m s x s', export V m s x = Ok s' -> exists v, s' = update s x v.
  Proof.
    intros m s x s' H. unfold export in H.
    destruct m as [[r'|v]| |]; simpl in H; try discriminate.
    destruct (lookup r' x); simpl in H; try discriminate.
    inversion H. eexists; reflexivity.
  Qed.

  (* ---------------------------------------------------------------- statements *)
  Section Tr.
    Variable fc : ctx -> option props.
    Variable fx : bool.

    (* from_context succeeds and its output determines the context, whatever is inherited *)
    Definition cgood (c : ctx) : Prop :=
      exists p, fc c = Some p /\ forall P, round_ok P -> good (merge_props p P) c.

    Fixpoint cg_stmt (s : stmt) : Prop :=
      match s with
      | SWith c b => cgood c /\ cg_block b
      | SIf _ _ t f => cg_block t /\ cg_block f
      | SIf1 _ _ t => cg_block t
      | SWhile _ _ b => cg_block b
      | SFor _ _ _ b => cg_block b
      | _ => True
      end
    with cg_block (b : block) : Prop :=
      match b with
      | BNil => True
      | BCons s b' => cg_stmt s /\ cg_block b'
      end.

    Definition cg_func (f : func) : Prop :=
      match f_ctx f with Some c => cgood c | None => True end /\ cg_block (f_body f).

    Lemma bind_noret : forall A (m : res A) (f : A -> res (outcome V)) v,
      (forall a, f a <> Ok (ORet v)) -> bind m f <> Ok (ORet v).
    Proof. intros A m f v H. destruct m; simpl; [apply H|discriminate|discriminate]. Qed.

    (* a statement compiled with a continuation never returns *)
    Lemma noret :
      (forall s sc kk e, tr_stmt fc fx sc s (Some kk) = Some e ->
         forall fuel c r v, exec_stmt V N fuel c r s <> Ok (ORet v)) /\
      (forall b sc kk e, tr_block fc fx sc b (Some kk) = Some e ->
         forall fuel c r v, exec_block V N fuel c r b <> Ok (ORet v)).
    Proof.
      apply stmt_block_ind.
      - intros x e sc kk e' _ fuel c r v. simpl. apply bind_noret; intros; discriminate.
      - intros c b IH sc kk e H fuel c0 r v. simpl in H.
        destruct (fc c) as [p|]; simpl in H; [|discriminate].
        simpl. destruct fx.
        + eapply IH; eassumption.
        + destruct (tr_block fc false sc b (Some kk)) eqn:E; simpl in H; [|discriminate].
          eapply IH; eassumption.
      - intros cnd x t IHt f IHf sc kk e _ fuel c r v. simpl.
        apply bind_noret; intro b. apply bind_noret; intros; discriminate.
      - intros cnd x t IHt sc kk e _ fuel c r v. simpl.
        apply bind_noret; intros [|]; apply bind_noret; intros; discriminate.
      - intros cnd x b IHb sc kk e _ fuel c r v. simpl.
        apply bind_noret; intro. apply bind_noret; intros; discriminate.
      - intros i n x b IHb sc kk e _ fuel c r v. simpl.
        apply bind_noret; intro vn. destruct (n_count N vn); [|discriminate].
        apply bind_noret; intro. apply bind_noret; intros; discriminate.
      - intros e sc kk e' H. simpl in H. discriminate.
      - intros sc kk e _ fuel c r v. simpl. discriminate.
      - intros sc kk e _ fuel c r v. simpl. discriminate.
      - intros s IHs b IHb sc kk e H fuel c r v. rewrite tr_block_cons_some in H.
        destruct (tr_block fc fx sc b (Some kk)) as [e'|] eqn:E; simpl in H; [|discriminate].
        simpl. destruct (exec_stmt V N fuel c r s) as [[r'|v']| |] eqn:Es; simpl; try discriminate.
        + eapply IHb; eassumption.
        + exfalso. eapply IHs; eassumption.
    Qed.

    Definition mode_ok_s (sc : list props) (s : stmt) (kk : cexpr) : Prop :=
      fx = true \/ (sc = [] /\ wl_stmt s = true /\ (is_with s = true -> insens kk)).
    Definition mode_ok_b (sc : list props) (b : block) (kk : cexpr) : Prop :=
      fx = true \/ (sc = [] /\ wl_block b = true /\ (cont_annotated b = true -> insens kk)).

    (* variable copies compile to something that does not look at the properties *)
    Lemma insens_copies : forall b kk e,
      copies b = true -> insens kk -> tr_block fc fx [] b (Some kk) = Some e -> insens e.
    Proof.
      induction b as [|s b IH]; intros kk e Hc Hk Htr.
      - simpl in Htr. inversion Htr; subst e. exact Hk.
      - rewrite tr_block_cons_some in Htr. simpl in Hc. apply andb_true_iff in Hc as [Hs Hb].
        destruct (tr_block fc fx [] b (Some kk)) as [e'|] eqn:E; simpl in Htr; [|discriminate].
        pose proof (IH kk e' Hb Hk E) as He'.
        destruct s; simpl in Hs; try discriminate.
        + destruct e0; try discriminate. simpl in Htr. inversion Htr; subst e.
          intros fuel P P' r. rewrite !ceval_let1. simpl.
          destruct (lookup r x0); simpl; try reflexivity. apply He'.
        + simpl in Htr. inversion Htr; subst e. exact He'.
    Qed.

    Lemma copies_no_tail : forall b sc, copies b = true -> tr_block fc fx sc b None = None.
    Proof.
      induction b as [|s b IH]; intros sc Hc; [reflexivity|].
      simpl in Hc. apply andb_true_iff in Hc as [Hs Hb].
      destruct b as [|s2 b2].
      - destruct s; simpl in Hs; try discriminate; reflexivity.
      - change (obind (tr_block fc fx sc (BCons s2 b2) None) (fun e' => tr_stmt fc fx sc s (Some e')) = None).
        rewrite (IH sc Hb). reflexivity.
    Qed.

    Lemma mode_sub : forall sc s kk t x,
      mode_ok_s sc s kk -> (wl_stmt s = true -> wl_block t = true) -> mode_ok_b [] t (CVar x).
    Proof.
      intros sc s kk t x [H|[_ [H _]]] Hw; [left; exact H|].
      right. split; [reflexivity|]. split; [apply Hw; exact H|]. intros _. apply insens_var.
    Qed.

    Definition PS (s : stmt) : Prop :=
      (forall fuel sc P c r kk e,
         good (merge_all sc P) c -> round_ok P -> cg_stmt s -> mode_ok_s sc s kk ->
         tr_stmt fc fx sc s (Some kk) = Some e ->
         ceval fuel P r e = cont kk fuel P (exec_stmt V N fuel c r s)) /\
      (forall fuel P c r e,
         good P c -> cg_stmt s -> (fx = true \/ wl_stmt s = true) ->
         tr_stmt fc fx [] s None = Some e ->
         as_num V (ceval fuel P r e) = ret_of V (exec_stmt V N fuel c r s)).

    Definition PB (b : block) : Prop :=
      (forall fuel sc P c r kk e,
         good (merge_all sc P) c -> round_ok P -> cg_block b -> mode_ok_b sc b kk ->
         tr_block fc fx sc b (Some kk) = Some e ->
         ceval fuel P r e = cont kk fuel P (exec_block V N fuel c r b)) /\
      (forall fuel P c r e,
         good P c -> cg_block b -> (fx = true \/ wl_block b = true) ->
         tr_block fc fx [] b None = Some e ->
         as_num V (ceval fuel P r e) = ret_of V (exec_block V N fuel c r b)).

    Lemma sound_mut : (forall s, PS s) /\ (forall b, PB b).
    Proof.
      apply stmt_block_ind.
      - (* SAssign *)
        intros x e0. split.
        + intros fuel sc P c r kk e Hg HrP _ _ Htr. simpl in Htr. inversion Htr; subst e; clear Htr.
          rewrite ceval_let1, wrap_eval, (tr_expr_sound e0 fuel _ c r Hg).
          simpl. destruct (eval_expr V N c r e0); reflexivity.
        + intros fuel P c r e _ _ _ Htr. simpl in Htr. discriminate.
      - (* SWith *)
        intros c' b [IH1 IH2]. split.
        + intros fuel sc P c r kk e Hg HrP [[p [Hp Hgp]] Hcb] Hm Htr. simpl in Htr.
          rewrite Hp in Htr; simpl in Htr.
          destruct (bool_dec fx true) as [Efx|Efx].
          * assert (Hif : forall A (a b : A), (if fx then a else b) = a) by (intros; rewrite Efx; reflexivity).
            rewrite Hif in Htr. simpl.
            eapply IH1; try eassumption.
            -- rewrite merge_all_app. apply Hgp. apply Hg.
            -- left; exact Efx.
          * apply not_true_is_false in Efx.
            assert (Hif : forall A (a b : A), (if fx then a else b) = b) by (intros; rewrite Efx; reflexivity).
            rewrite Hif in Htr.
            destruct Hm as [Hf|[Hsc [Hwl Hins]]]; [congruence|]. subst sc.
            destruct (tr_block fc fx [] b (Some kk)) as [e0|] eqn:E; simpl in Htr; [|discriminate].
            inversion Htr; subst e; clear Htr. simpl.
            assert (Hk : insens kk) by (apply Hins; reflexivity).
            rewrite (IH1 fuel [] (merge_props p P) c' r kk e0).
            -- unfold cont. destruct (exec_block V N fuel c' r b) as [[r'|v]| |]; simpl; try reflexivity.
               apply Hk.
            -- simpl. apply Hgp. exact HrP.
            -- apply Hgp. exact HrP.
            -- exact Hcb.
            -- right. split; [reflexivity|]. split; [exact Hwl|]. intros _; exact Hk.
            -- exact E.
        + intros fuel P c r e Hg [[p [Hp Hgp]] Hcb] Hm Htr. simpl in Htr.
          rewrite Hp in Htr; simpl in Htr.
          destruct (tr_block fc fx [] b None) as [e0|] eqn:E; simpl in Htr; [|discriminate].
          inversion Htr; subst e; clear Htr. simpl.
          apply (IH2 fuel (merge_props p P) c' r e0); [apply Hgp; apply Hg|exact Hcb|exact Hm|reflexivity].
      - (* SIf *)
        intros cnd x t [IHt _] f [IHf _]. split.
        + intros fuel sc P c r kk e Hg HrP [Hct Hcf] Hm Htr. simpl in Htr.
          destruct (tr_block fc fx [] t (Some (CVar x))) as [T|] eqn:ET; simpl in Htr; [|discriminate].
          destruct (tr_block fc fx [] f (Some (CVar x))) as [F|] eqn:EF; simpl in Htr; [|discriminate].
          inversion Htr; subst e; clear Htr.
          rewrite ceval_let1, wrap_eval. simpl.
          rewrite (tr_bexp_sound cnd fuel _ c r Hg).
          destruct (eval_bexp V N c r cnd) as [bb| |]; simpl; try reflexivity.
          assert (HrM : round_ok (merge_all sc P)) by apply Hg.
          destruct bb.
          * rewrite (IHt fuel [] (merge_all sc P) c r (CVar x) T Hg HrM Hct
                       (mode_sub _ _ _ t x Hm ltac:(simpl; intro H; apply andb_true_iff in H; apply H)) ET).
            unfold cont, export.
            destruct (exec_block V N fuel c r t) as [[r'|v]| |]; simpl; try reflexivity.
            unfold FPCore.lookup. destruct (r' x); reflexivity.
          * rewrite (IHf fuel [] (merge_all sc P) c r (CVar x) F Hg HrM Hcf
                       (mode_sub _ _ _ f x Hm ltac:(simpl; intro H; apply andb_true_iff in H; apply H)) EF).
            unfold cont, export.
            destruct (exec_block V N fuel c r f) as [[r'|v]| |]; simpl; try reflexivity.
            unfold FPCore.lookup. destruct (r' x); reflexivity.
        + intros fuel P c r e _ _ _ Htr. simpl in Htr. discriminate.
      - (* SIf1 *)
        intros cnd x t [IHt _]. split.
        + intros fuel sc P c r kk e Hg HrP Hct Hm Htr. simpl in Htr.
          destruct (tr_block fc fx [] t (Some (CVar x))) as [T|] eqn:ET; simpl in Htr; [|discriminate].
          inversion Htr; subst e; clear Htr.
          rewrite ceval_let1, wrap_eval. simpl.
          rewrite (tr_bexp_sound cnd fuel _ c r Hg).
          destruct (eval_bexp V N c r cnd) as [bb| |]; simpl; try reflexivity.
          assert (HrM : round_ok (merge_all sc P)) by apply Hg.
          destruct bb.
          * rewrite (IHt fuel [] (merge_all sc P) c r (CVar x) T Hg HrM Hct
                       (mode_sub _ _ _ t x Hm ltac:(simpl; intro H; exact H)) ET).
            unfold cont, export.
            destruct (exec_block V N fuel c r t) as [[r'|v]| |]; simpl; try reflexivity.
            unfold FPCore.lookup. destruct (r' x); reflexivity.
          * unfold FPCore.lookup. destruct (r x); reflexivity.
        + intros fuel P c r e _ _ _ Htr. simpl in Htr. discriminate.
      - (* SWhile *)
        intros cnd x b [IHb _]. split.
        + intros fuel sc P c r kk e Hg HrP Hcb Hm Htr. simpl in Htr.
          destruct (tr_block fc fx [] b (Some (CVar x))) as [U|] eqn:EU; simpl in Htr; [|discriminate].
          assert (HrM : round_ok (merge_all sc P)) by apply Hg.
          assert (Hstep : forall s, bind (as_num V (ceval fuel (merge_all sc P) s U)) (fun v => Ok (update s x v))
                                    = export V (exec_block V N fuel c s b) s x).
          { intro s. apply step_eq.
            apply (IHb fuel [] (merge_all sc P) c s (CVar x) U Hg HrM Hcb
                     (mode_sub _ _ _ b x Hm ltac:(simpl; intro H; exact H)) EU). }
          assert (Hcond : forall s, as_bool V (ceval fuel (merge_all sc P) s (tr_bexp cnd)) = eval_bexp V N c s cnd).
          { intro s. apply tr_bexp_sound. exact Hg. }
          destruct sc as [|p0 sc'].
          * inversion Htr; subst e; clear Htr. rewrite ceval_while1. simpl in *.
            destruct (lookup r x) as [v0| |]; simpl; try reflexivity.
            rewrite (while_loop_ext _ fuel _ _ _ _ Hcond Hstep).
            destruct (while_loop fuel _ _ (update r x v0)); reflexivity.
          * assert (Htr2 : Some (let1 x (wrap (p0 :: sc') (CWhile false (tr_bexp cnd) (loop1 x U) (CVar x))) kk) = Some e)
              by exact Htr.
            clear Htr. remember (p0 :: sc') as sc. inversion Htr2; subst e; clear Htr2.
            rewrite ceval_let1, wrap_eval, ceval_while1.
            simpl exec_stmt.
            destruct (lookup r x) as [v0| |]; simpl; try reflexivity.
            rewrite (while_loop_ext _ fuel _ _ _ _ Hcond Hstep).
            destruct (while_loop fuel (fun r0 => eval_bexp V N c r0 cnd)
                        (fun r0 => export V (exec_block V N fuel c r0 b) r0 x) (update r x v0))
              as [r'| |] eqn:EW; simpl; try reflexivity.
            destruct (while_loop_only V x fuel _ _ (fun s s' H => export_only _ s x s' H) r v0 r' EW) as [v Hv].
            subst r'. rewrite update_same. simpl. reflexivity.
        + intros fuel P c r e _ _ _ Htr. simpl in Htr. discriminate.
      - (* SFor *)
        intros i n x b [IHb _]. split.
        + intros fuel sc P c r kk e Hg HrP Hcb Hm Htr. simpl in Htr.
          destruct (tr_block fc fx [] b (Some (CVar x))) as [U|] eqn:EU; simpl in Htr; [|discriminate].
          assert (HrM : round_ok (merge_all sc P)) by apply Hg.
          assert (Hstep : forall k s,
                    bind (as_num V (ceval fuel (merge_all sc P) (update s i (n_int N (Z.of_nat k))) U))
                         (fun v => Ok (update s x v))
                    = export V (exec_block V N fuel c (update s i (n_int N (Z.of_nat k))) b) s x).
          { intros k s. apply step_eq.
            apply (IHb fuel [] (merge_all sc P) c _ (CVar x) U Hg HrM Hcb
                     (mode_sub _ _ _ b x Hm ltac:(simpl; intro H; exact H)) EU). }
          destruct sc as [|p0 sc'].
          * inversion Htr; subst e; clear Htr. rewrite ceval_for1. simpl in *.
            rewrite (tr_expr_sound n fuel _ c r Hg).
            destruct (eval_expr V N c r n) as [vn| |]; simpl; try reflexivity.
            destruct (n_count N vn) as [cnt|]; [|reflexivity].
            destruct (lookup r x) as [v0| |]; simpl; try reflexivity.
            rewrite (for_loop_ext _ cnt O _ _ Hstep).
            destruct (for_loop cnt O _ (update r x v0)); reflexivity.
          * assert (Htr2 : Some (let1 x (wrap (p0 :: sc') (CFor false i (tr_expr n) (loop1 x U) (CVar x))) kk) = Some e)
              by exact Htr.
            clear Htr. remember (p0 :: sc') as sc. inversion Htr2; subst e; clear Htr2.
            rewrite ceval_let1, wrap_eval, ceval_for1.
            simpl exec_stmt.
            rewrite (tr_expr_sound n fuel _ c r Hg).
            destruct (eval_expr V N c r n) as [vn| |]; simpl; try reflexivity.
            destruct (n_count N vn) as [cnt|]; [|reflexivity].
            destruct (lookup r x) as [v0| |]; simpl; try reflexivity.
            rewrite (for_loop_ext _ cnt O _ _ Hstep).
            destruct (for_loop cnt O
                        (fun k r0 => export V (exec_block V N fuel c (update r0 i (n_int N (Z.of_nat k))) b) r0 x)
                        (update r x v0)) as [r'| |] eqn:EW; simpl; try reflexivity.
            destruct (for_loop_only V x cnt O _ (fun k s s' H => export_only _ s x s' H) r v0 r' EW) as [v Hv].
            subst r'. rewrite update_same. simpl. reflexivity.
        + intros fuel P c r e _ _ _ Htr. simpl in Htr. discriminate.
      - (* SRet *)
        intros e0. split.
        + intros fuel sc P c r kk e _ _ _ _ Htr. simpl in Htr. discriminate.
        + intros fuel P c r e Hg _ _ Htr. simpl in Htr. inversion Htr; subst e; clear Htr.
          rewrite (tr_expr_sound e0 fuel P c r Hg). simpl.
          destruct (eval_expr V N c r e0); reflexivity.
      - (* SPass *)
        split.
        + intros fuel sc P c r kk e _ _ _ _ Htr. simpl in Htr. inversion Htr; subst e. reflexivity.
        + intros fuel P c r e _ _ _ Htr. simpl in Htr. discriminate.
      - (* BNil *)
        split.
        + intros fuel sc P c r kk e _ _ _ _ Htr. simpl in Htr. inversion Htr; subst e. reflexivity.
        + intros fuel P c r e _ _ _ Htr. simpl in Htr. discriminate.
      - (* BCons *)
        intros s [IHs1 IHs2] b [IHb1 IHb2]. split.
        + intros fuel sc P c r kk e Hg HrP [Hcs Hcb] Hm Htr.
          rewrite tr_block_cons_some in Htr.
          destruct (tr_block fc fx sc b (Some kk)) as [e'|] eqn:E; simpl in Htr; [|discriminate].
          assert (Hms : mode_ok_s sc s e').
          { destruct Hm as [Hf|[Hsc [Hwl Hins]]]; [left; exact Hf|]. right.
            split; [exact Hsc|]. simpl in Hwl.
            apply andb_true_iff in Hwl as [Hwl Hlast]. apply andb_true_iff in Hwl as [Hws Hwb].
            split; [exact Hws|]. intro Hw. rewrite Hw in Hlast. subst sc.
            eapply insens_copies; [exact Hlast| |exact E].
            apply Hins. simpl. rewrite Hw, Hlast. reflexivity. }
          assert (Hmb : mode_ok_b sc b kk).
          { destruct Hm as [Hf|[Hsc [Hwl Hins]]]; [left; exact Hf|]. right.
            split; [exact Hsc|]. simpl in Hwl.
            apply andb_true_iff in Hwl as [Hwl Hlast]. apply andb_true_iff in Hwl as [Hws Hwb].
            split; [exact Hwb|]. intro Hw. apply Hins. simpl. rewrite Hw. apply orb_true_r. }
          rewrite (IHs1 fuel sc P c r e' e Hg HrP Hcs Hms Htr).
          simpl. unfold cont.
          destruct (exec_stmt V N fuel c r s) as [[r'|v]| |]; simpl; try reflexivity.
          apply (IHb1 fuel sc P c r' kk e' Hg HrP Hcb Hmb E).
        + intros fuel P c r e Hg [Hcs Hcb] Hm Htr.
          destruct b as [|s2 b2].
          * simpl in Htr. simpl.
            rewrite (IHs2 fuel P c r e Hg Hcs).
            -- unfold ret_of. destruct (exec_stmt V N fuel c r s) as [[r'|v]| |]; reflexivity.
            -- destruct Hm as [Hf|Hwl]; [left; exact Hf|right].
               simpl in Hwl. apply andb_true_iff in Hwl as [Hwl _]. apply andb_true_iff in Hwl as [Hws _]. exact Hws.
            -- exact Htr.
          * change (obind (tr_block fc fx [] (BCons s2 b2) None) (fun e' => tr_stmt fc fx [] s (Some e')) = Some e) in Htr.
            destruct (tr_block fc fx [] (BCons s2 b2) None) as [e'|] eqn:E; simpl in Htr; [|discriminate].
            assert (Hms : mode_ok_s [] s e').
            { destruct Hm as [Hf|Hwl]; [left; exact Hf|right].
              split; [reflexivity|]. simpl in Hwl.
              apply andb_true_iff in Hwl as [Hwl Hlast]. apply andb_true_iff in Hwl as [Hws _].
              split; [exact Hws|]. intro Hw. rewrite Hw in Hlast.
              rewrite (copies_no_tail (BCons s2 b2) [] Hlast) in E. discriminate. }
            assert (Hmb : fx = true \/ wl_block (BCons s2 b2) = true).
            { destruct Hm as [Hf|Hwl]; [left; exact Hf|right].
              simpl in Hwl. apply andb_true_iff in Hwl as [Hwl _]. apply andb_true_iff in Hwl as [_ Hwb]. exact Hwb. }
            assert (HrP : round_ok P) by apply Hg.
            rewrite (IHs1 fuel [] P c r e' e Hg HrP Hcs Hms Htr).
            change (exec_block V N fuel c r (BCons s (BCons s2 b2)))
              with (bind (exec_stmt V N fuel c r s)
                      (fun o => match o with ONormal r' => exec_block V N fuel c r' (BCons s2 b2) | ORet v => Ok (ORet v) end)).
            unfold cont.
            destruct (exec_stmt V N fuel c r s) as [[r'|v]| |] eqn:Es; simpl; try reflexivity.
            -- apply (IHb2 fuel P c r' e' Hg Hcb Hmb eq_refl).
            -- exfalso. eapply (proj1 noret); eassumption.
    Qed.

    Theorem to_fpcore_sound_gen : forall f p,
      to_fpcore fc fx f = Some p -> cg_func f -> (fx = true \/ wl_block (f_body f) = true) ->
      forall fuel cdef Pdef args, good Pdef cdef ->
      run_core V N fuel Pdef p args = run_func V N fuel cdef f args.
    Proof.
      intros f p Htr [Hcf Hcb] Hm fuel cdef Pdef args Hd.
      unfold to_fpcore in Htr.
      destruct (tr_block fc fx [] (f_body f) None) as [body|] eqn:E; simpl in Htr; [|discriminate].
      unfold run_core, run_func.
      destruct (f_ctx f) as [c|].
      - destruct Hcf as [p0 [Hp0 Hg0]]. rewrite Hp0 in Htr. simpl in Htr. inversion Htr; subst p; clear Htr. simpl.
        destruct (bind_args V (f_args f) args (empty_env V)); simpl; try reflexivity.
        apply (proj2 (proj2 sound_mut (f_body f)) fuel _ c a body); try assumption.
        apply Hg0. apply Hd.
      - simpl in Htr. inversion Htr; subst p; clear Htr. simpl. rewrite merge_no_props.
        destruct (bind_args V (f_args f) args (empty_env V)); simpl; try reflexivity.
        apply (proj2 (proj2 sound_mut (f_body f)) fuel _ cdef a body); assumption.
    Qed.

    Lemma cg_of_ctxs : forall q, (forall c, q c = true -> cgood c) ->
      (forall s, ctxs_stmt q s = true -> cg_stmt s) /\ (forall b, ctxs_block q b = true -> cg_block b).
    Proof.
      intros q Hq. apply stmt_block_ind; simpl; intros; auto.
      - apply andb_true_iff in H0 as [A B]. split; [apply Hq; exact A|apply H; exact B].
      - apply andb_true_iff in H1 as [A B]. split; [apply H; exact A|apply H0; exact B].
      - apply andb_true_iff in H1 as [A B]. split; [apply H; exact A|apply H0; exact B].
    Qed.

    Lemma cg_func_of_ctxs : forall q, (forall c, q c = true -> cgood c) ->
      forall f, ctxs_func q f = true -> cg_func f.
    Proof.
      intros q Hq f H. unfold ctxs_func in H. apply andb_true_iff in H as [A B]. split.
      - destruct (f_ctx f); [apply Hq; exact A|exact I].
      - apply (proj2 (cg_of_ctxs q Hq)); exact B.
    Qed.
  End Tr.

  Lemma cgood_fixed : forall c, expressible c = true -> cgood from_context_fixed c.
  Proof.
    intros c H. destruct (context_iso_fixed c H) as [p [Hf Ht]].
    exists p. split; [exact Hf|]. intros P HP. eapply from_context_good; eassumption.
  Qed.

  Lemma cgood_coded : forall c, expressible_coded c = true -> cgood from_context c.
  Proof.
    intros c H. destruct (context_iso_coded c H) as [p [Hf Ht]].
    exists p. split; [exact Hf|]. intros P HP. eapply from_context_good; eassumption.
  Qed.

  (* the repaired translation is sound for every program *)
  Theorem to_fpcore_sound : forall f p,
    to_fpcore_fixed f = Some p -> ctxs_func expressible f = true ->
    forall fuel cdef Pdef args, good Pdef cdef ->
    run_core V N fuel Pdef p args = run_func V N fuel cdef f args.
  Proof.
    intros f p Htr Hc. eapply to_fpcore_sound_gen; [exact Htr| |left; reflexivity].
    eapply cg_func_of_ctxs; [|exact Hc]. apply cgood_fixed.
  Qed.

  (* only the continuation repaired, from_context as coded *)
  Theorem to_fpcore_sound_cont : forall f p,
    to_fpcore from_context true f = Some p -> ctxs_func expressible_coded f = true ->
    forall fuel cdef Pdef args, good Pdef cdef ->
    run_core V N fuel Pdef p args = run_func V N fuel cdef f args.
  Proof.
    intros f p Htr Hc. eapply to_fpcore_sound_gen; [exact Htr| |left; reflexivity].
    eapply cg_func_of_ctxs; [|exact Hc]. apply cgood_coded.
  Qed.

  (* the translation as coded: sound when only variable copies follow a `with` in its block *)
  Theorem to_fpcore_as_coded_partial : forall f p,
    to_fpcore_as_coded f = Some p -> ctxs_func expressible_coded f = true ->
    wl_block (f_body f) = true ->
    forall fuel cdef Pdef args, good Pdef cdef ->
    run_core V N fuel Pdef p args = run_func V N fuel cdef f args.
  Proof.
    intros f p Htr Hc Hw. eapply to_fpcore_sound_gen; [exact Htr| |right; exact Hw].
    eapply cg_func_of_ctxs; [|exact Hc]. apply cgood_coded.
  Qed.
End Sound.

(* ------------------------------------------------------------------ refutation *)
Lemma zops_int : forall rm z, n_num zops (CMPFixed (-1) rm) z = n_int zops z.
Proof. reflexivity. Qed.

Lemma good_default : good no_props FP64c.
Proof. split; [reflexivity|exact I]. Qed.

Theorem to_fpcore_as_coded_refuted :
  exists f p args fuel,
    to_fpcore_as_coded f = Some p /\ ctxs_func expressible_coded f = true /\
    good no_props FP64c /\
    run_core Z zops fuel no_props p args <> run_func Z zops fuel FP64c f args.
Proof.
  exists witness_func. eexists. exists witness_args, 1%nat.
  split; [vm_compute; reflexivity|]. split; [vm_compute; reflexivity|].
  split; [exact good_default|]. vm_compute. discriminate.
Qed.

(* hypotheses of the soundness theorem are satisfiable on the same program,
   and there the repaired translation agrees with the source *)
Example to_fpcore_fixed_witness :
  exists p, to_fpcore_fixed witness_func = Some p /\
    ctxs_func expressible witness_func = true /\
    run_core Z zops 1 no_props p witness_args = Ok 1099512676352 /\
    run_func Z zops 1 FP64c witness_func witness_args = Ok 1099512676352.
Proof.
  eexists. split; [vm_compute; reflexivity|]. split; [vm_compute; reflexivity|].
  split; vm_compute; reflexivity.
Qed.
