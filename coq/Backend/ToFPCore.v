(* C12 — model of fpy2/backend/fpc.py: statement block -> nested let.

   DEFINITIONS ONLY.

   `tr_stmt fc fx sc s k` models `_visit_statement(stmt, ctx)`:
     k  = the already compiled continuation of the enclosing block (`ctx` in
          the code; None when the statement is in tail position),
     fc = FPCoreContext.from_context,
     fx = false: the code as it is today — `_visit_context` compiles the body
          of a `with` WITH the continuation as its tail and wraps the whole in
          `(! props ...)`;
     fx = true: the proposed repair — when a continuation exists, the
          annotation is put around the value of every binding the body makes
          (`sc` = stack of annotations of the enclosing non-tail `with`
          blocks, outermost first) and the continuation stays outside.

   The source program is the function AFTER the normalisation passes
   (ForBundling / WhileBundling / IfBundling): every if / while / for names
   the single variable it changes (statements that change none are outside
   the modelled subset: the translation answers None). *)
From Coq Require Import ZArith List String Bool.
From FpyV Require Import Backend.FPCore.
Import ListNotations.
Open Scope Z_scope.

Definition int_props : props := mkProps (Some (PSym "integer")) None None None.

Fixpoint tr_expr (e : expr) : cexpr :=
  match e with
  | EVar x => CVar x
  | ELit s => CLit s
  | ERNum z => CNum z
  | EInt z => CAnn int_props (CNum z)
  | EUn o a => CUn o (tr_expr a)
  | EBin o a b => CBin o (tr_expr a) (tr_expr b)
  end.

Fixpoint tr_bexp (b : bexp) : cexpr :=
  match b with
  | BCmp o a b => CCmp o (tr_expr a) (tr_expr b)
  | BAnd a b => CAnd (tr_bexp a) (tr_bexp b)
  | BOr a b => COr (tr_bexp a) (tr_bexp b)
  | BNot a => CNot (tr_bexp a)
  end.

(* annotations, outermost first *)
Definition wrap (sc : list props) (e : cexpr) : cexpr := fold_right CAnn e sc.

Definition let1 (x : ident) (e k : cexpr) : cexpr := CLet false (LCons x e LNil) k.
Definition loop1 (x : ident) (u : cexpr) : wbinds := WCons x (CVar x) u WNil.

Fixpoint tr_stmt (fc : ctx -> option props) (fx : bool) (sc : list props) (s : stmt) (k : option cexpr) {struct s} : option cexpr :=
  match s with
  | SAssign x e =>
      match k with
      | Some kk => Some (let1 x (wrap sc (tr_expr e)) kk)
      | None => None
      end
  | SWith c b =>
      olet p := fc c in
      match k with
      | Some _ =>
          if fx then tr_block fc fx (sc ++ [p]) b k
          else (olet e := tr_block fc fx sc b k in Some (CAnn p e))
      | None => olet e := tr_block fc fx [] b None in Some (CAnn p e)
      end
  | SIf cnd x t f =>
      match k with
      | Some kk =>
          olet T := tr_block fc fx [] t (Some (CVar x)) in
          olet F := tr_block fc fx [] f (Some (CVar x)) in
          Some (let1 x (wrap sc (CIf (tr_bexp cnd) T F)) kk)
      | None => None
      end
  | SIf1 cnd x t =>
      match k with
      | Some kk =>
          olet T := tr_block fc fx [] t (Some (CVar x)) in
          Some (let1 x (wrap sc (CIf (tr_bexp cnd) T (CVar x))) kk)
      | None => None
      end
  | SWhile cnd x b =>
      match k with
      | Some kk =>
          olet U := tr_block fc fx [] b (Some (CVar x)) in
          match sc with
          | [] => Some (CWhile false (tr_bexp cnd) (loop1 x U) kk)
          | _ => Some (let1 x (wrap sc (CWhile false (tr_bexp cnd) (loop1 x U) (CVar x))) kk)
          end
      | None => None
      end
  | SFor i n x b =>
      match k with
      | Some kk =>
          olet U := tr_block fc fx [] b (Some (CVar x)) in
          match sc with
          | [] => Some (CFor false i (tr_expr n) (loop1 x U) kk)
          | _ => Some (let1 x (wrap sc (CFor false i (tr_expr n) (loop1 x U) (CVar x))) kk)
          end
      | None => None
      end
  | SRet e =>
      match k with
      | None => Some (tr_expr e)
      | Some _ => None                 (* 'FPCore does not support multiple return statements' *)
      end
  | SPass => k
  end
(* _visit_block: the last statement takes the continuation, the others
   are folded right-to-left *)
with tr_block (fc : ctx -> option props) (fx : bool) (sc : list props) (b : block) (k : option cexpr) {struct b} : option cexpr :=
  match b with
  | BNil => k
  | BCons s b' =>
      match b', k with
      | BNil, None => tr_stmt fc fx sc s None
      | _, _ => olet e := tr_block fc fx sc b' k in tr_stmt fc fx sc s (Some e)
      end
  end.

Definition to_fpcore (fc : ctx -> option props) (fx : bool) (f : func) : option cprog :=
  olet body := tr_block fc fx [] (f_body f) None in
  olet P := (match f_ctx f with Some c => fc c | None => Some no_props end) in
  Some (mkCprog (f_args f) P body).


(* what backend/fpc.py does today *)
Definition to_fpcore_as_coded : func -> option cprog := to_fpcore from_context false.
(* with both proposed repairs (continuation outside the annotation; fixed fields in order) *)
Definition to_fpcore_fixed : func -> option cprog := to_fpcore from_context_fixed true.

(* ------------------------------------------------------------------ program classes *)
(* a statement whose compiled form does not depend on the active properties:
   a variable copy (the prologue / epilogue IfBundling puts around a branch) *)
Definition is_copy (s : stmt) : bool :=
  match s with
  | SAssign _ (EVar _) => true
  | SPass => true
  | _ => false
  end.

Fixpoint copies (b : block) : bool :=
  match b with
  | BNil => true
  | BCons s b' => is_copy s && copies b'
  end.

Definition is_with (s : stmt) : bool := match s with SWith _ _ => true | _ => false end.

(* inside a block, only variable copies follow a `with` *)
Fixpoint wl_stmt (s : stmt) : bool :=
  match s with
  | SWith _ b => wl_block b
  | SIf _ _ t f => wl_block t && wl_block f
  | SIf1 _ _ t => wl_block t
  | SWhile _ _ b => wl_block b
  | SFor _ _ _ b => wl_block b
  | _ => true
  end
with wl_block (b : block) : bool :=
  match b with
  | BNil => true
  | BCons s b' => wl_stmt s && wl_block b' && (if is_with s then copies b' else true)
  end.

(* the continuation of the block ends up inside an annotation of the block *)
Fixpoint cont_annotated (b : block) : bool :=
  match b with
  | BNil => false
  | BCons s b' => (is_with s && copies b') || cont_annotated b'
  end.

(* every context mentioned satisfies q *)
Fixpoint ctxs_stmt (q : ctx -> bool) (s : stmt) : bool :=
  match s with
  | SWith c b => q c && ctxs_block q b
  | SIf _ _ t f => ctxs_block q t && ctxs_block q f
  | SIf1 _ _ t => ctxs_block q t
  | SWhile _ _ b => ctxs_block q b
  | SFor _ _ _ b => ctxs_block q b
  | _ => true
  end
with ctxs_block (q : ctx -> bool) (b : block) : bool :=
  match b with
  | BNil => true
  | BCons s b' => ctxs_stmt q s && ctxs_block q b'
  end.

Definition ctxs_func (q : ctx -> bool) (f : func) : bool :=
  match f_ctx f with Some c => q c | None => true end && ctxs_block q (f_body f).

(* ------------------------------------------------------------------ a computable instance *)
(* integers; every operation wraps around modulo 2^p where p is the
   significand width of an IEEE context (no wrapping elsewhere) *)
Definition zprec (c : ctx) : option Z :=
  match c with CIEEE es nbits _ _ => Some (nbits - es) | _ => None end.
Definition zrnd (c : ctx) (z : Z) : Z :=
  match zprec c with Some p => z mod 2 ^ p | None => z end.

Definition zops : numops Z :=
  mkNumops Z
    (fun c _ => zrnd c 0)
    (fun c z => zrnd c z)
    (fun z => z)
    (fun c o a => zrnd c (match o with UNeg => - a | UAbs => Z.abs a | USqrt => Z.sqrt a | _ => a end))
    (fun c o a b => zrnd c (match o with BAdd => a + b | BSub => a - b | BMul => a * b | BDiv => a / b | _ => a end))
    (fun o a b => match o with CLt => a <? b | CLe => a <=? b | CGt => a >? b | CGe => a >=? b
                            | CEq => a =? b | CNe => negb (a =? b) end)
    (fun v => if v <? 0 then None else Some (Z.to_nat v)).

(* the known witness: a statement after an inner `with`
     @fpy(ctx=FP64) def f(x, y):
         with FP32: a = x + y
         b = a * x
         return b *)
Open Scope string_scope.
Definition FP64c : ctx := CIEEE 11 64 RNE OvOverflow.
Definition FP32c : ctx := CIEEE 8 32 RNE OvOverflow.
Definition witness_func : func :=
  mkFunc ["x"; "y"] (Some FP64c)
    (BCons (SWith FP32c (BCons (SAssign "a" (EBin BAdd (EVar "x") (EVar "y"))) BNil))
    (BCons (SAssign "b" (EBin BMul (EVar "a") (EVar "x")))
    (BCons (SRet (EVar "b")) BNil))).
Definition witness_args : list Z := [2 ^ 20; 1].
