(* C12 — proofs about Backend/FPCore.v: context <-> property dictionary,
   property merging, loop combinators, environments. *)
From Coq Require Import ZArith List String Bool Lia FunctionalExtensionality.
From FpyV Require Import Backend.FPCore.
Import ListNotations.
Open Scope Z_scope.

(* ------------------------------------------------------------------ rounding-mode names *)
Lemma rm_name_inv : forall rm r, rm_name rm = Some r -> rm_of_name r = Some rm.
Proof. intros rm r H; destruct rm; inversion H; subst; reflexivity. Qed.

Lemma rm_name_expressible : forall rm, rm_expressible rm = true -> exists r, rm_name rm = Some r.
Proof. intros rm H; destruct rm; simpl in *; try discriminate; eexists; reflexivity. Qed.

Lemma ov_name_inv : forall o, ov_of_name (ov_name o) = Some o.
Proof. destruct o; reflexivity. Qed.

(* ------------------------------------------------------------------ to_context . from_context *)
Lemma to_context_ieee : forall es nbits rm r,
  valid_ieee es nbits = true -> rm_name rm = Some r ->
  to_context (mkProps (Some (ieee_prec es nbits)) (Some r) None None) = Some (CIEEE es nbits rm OvOverflow).
Proof.
  intros es nbits rm r Hv Hr. apply rm_name_inv in Hr.
  unfold ieee_prec.
  destruct ((es =? 15) && (nbits =? 128)) eqn:E1.
  { apply andb_true_iff in E1 as [A B]; apply Z.eqb_eq in A, B; subst.
    unfold to_context; simpl. rewrite Hr. reflexivity. }
  destruct ((es =? 15) && (nbits =? 79)) eqn:E2.
  { apply andb_true_iff in E2 as [A B]; apply Z.eqb_eq in A, B; subst.
    unfold to_context; simpl. rewrite Hr. reflexivity. }
  destruct ((es =? 11) && (nbits =? 64)) eqn:E3.
  { apply andb_true_iff in E3 as [A B]; apply Z.eqb_eq in A, B; subst.
    unfold to_context; simpl. rewrite Hr. reflexivity. }
  destruct ((es =? 8) && (nbits =? 32)) eqn:E4.
  { apply andb_true_iff in E4 as [A B]; apply Z.eqb_eq in A, B; subst.
    unfold to_context; simpl. rewrite Hr. reflexivity. }
  destruct ((es =? 5) && (nbits =? 16)) eqn:E5.
  { apply andb_true_iff in E5 as [A B]; apply Z.eqb_eq in A, B; subst.
    unfold to_context; simpl. rewrite Hr. reflexivity. }
  unfold to_context; simpl. rewrite Hr, Hv. reflexivity.
Qed.

(* the repaired from_context is inverted by to_context on every expressible context *)
Lemma context_iso_fixed : forall c, expressible c = true ->
  exists p, from_context_fixed c = Some p /\ to_context p = Some c.
Proof.
  intros c H. unfold expressible in H. apply andb_true_iff in H as [Hv H].
  destruct c as [es nbits rm ov|nmin rm|sg scale nbits rm ov| |t]; simpl in *.
  - apply andb_true_iff in H as [Hr Ho]. destruct ov; try discriminate.
    destruct (rm_name_expressible _ Hr) as [r Er].
    unfold from_context_fixed, from_context_gen. rewrite Er.
    eexists; split; [reflexivity|]. apply to_context_ieee; assumption.
  - apply andb_true_iff in H as [Hn Hr]. apply Z.eqb_eq in Hn; subst.
    destruct (rm_name_expressible _ Hr) as [r Er].
    unfold from_context_fixed, from_context_gen. rewrite Er. simpl.
    eexists; split; [reflexivity|].
    unfold to_context; simpl. rewrite (rm_name_inv _ _ Er). reflexivity.
  - apply andb_true_iff in H as [Hs Hr]. destruct sg; try discriminate.
    destruct (rm_name_expressible _ Hr) as [r Er].
    unfold from_context_fixed, from_context_gen. rewrite Er.
    eexists; split; [reflexivity|].
    unfold to_context; simpl. rewrite (rm_name_inv _ _ Er), ov_name_inv, Hv. reflexivity.
  - eexists; split; reflexivity.
  - discriminate.
Qed.

(* from_context as coded: the same, except that a fixed-point context must have scale = nbits *)
Lemma context_iso_coded : forall c, expressible_coded c = true ->
  exists p, from_context c = Some p /\ to_context p = Some c.
Proof.
  intros c H. unfold expressible_coded in H. apply andb_true_iff in H as [He Hs].
  destruct (context_iso_fixed c He) as [p [Hf Ht]].
  destruct c; try (exists p; split; [exact Hf|exact Ht]).
  apply Z.eqb_eq in Hs; subst scale.
  exists p; split; [|exact Ht].
  unfold from_context, from_context_fixed, from_context_gen in *. exact Hf.
Qed.

(* ... and it is NOT inverted on the other signed fixed-point contexts *)
Lemma context_iso_coded_refuted :
  exists c, expressible c = true /\
    exists p, from_context c = Some p /\ to_context p <> Some c.
Proof.
  exists (CFixed true (-2) 8 RTZ OvSaturate). split; [reflexivity|].
  eexists; split; [reflexivity|]. vm_compute. discriminate.
Qed.

(* ------------------------------------------------------------------ merging *)
Definition round_ok (P : props) : Prop :=
  match p_round P with Some s => rm_of_name s <> None | None => True end.

Definition good (P : props) (c : ctx) : Prop := to_context P = Some c /\ round_ok P.

Lemma merge_no_props : forall P, merge_props no_props P = P.
Proof. destruct P; reflexivity. Qed.

Lemma merge_all_app : forall sc p P, merge_all (sc ++ [p]) P = merge_props p (merge_all sc P).
Proof. intros; unfold merge_all; rewrite fold_left_app; reflexivity. Qed.

Lemma ieee_prec_not_fixed : forall es nb a b, ieee_prec es nb <> PFixed a b.
Proof.
  intros es nb a b. unfold ieee_prec.
  repeat match goal with |- context [if ?c then _ else _] => destruct c end; discriminate.
Qed.

(* what from_context (either version) emits determines the context whatever is inherited *)
Lemma from_context_good : forall swap c p,
  from_context_gen swap c = Some p -> to_context p = Some c ->
  forall P, round_ok P -> good (merge_props p P) c.
Proof.
  intros swap c p Hf Ht P HP.
  destruct c as [es nbits rm ov|nmin rm|sg scale nbits rm ov| |t]; simpl in Hf.
  - destruct (rm_name rm) as [r|] eqn:Er; [|discriminate]. inversion Hf; subst p; clear Hf.
    pose proof (rm_name_inv _ _ Er) as Hr.
    split.
    + rewrite <- Ht. destruct P; unfold to_context, merge_props; simpl.
      destruct (ieee_prec es nbits) eqn:Ep; try reflexivity.
      exfalso; eapply ieee_prec_not_fixed; eassumption.
    + unfold round_ok, merge_props; simpl. rewrite Hr; discriminate.
  - destruct (rm_name rm) as [r|] eqn:Er; [|discriminate].
    pose proof (rm_name_inv _ _ Er) as Hr.
    destruct (nmin =? -1); inversion Hf; subst p; clear Hf.
    + split.
      * rewrite <- Ht. destruct P; unfold to_context, merge_props; simpl. reflexivity.
      * unfold round_ok, merge_props; simpl. rewrite Hr; discriminate.
    + (* no precision property: to_context p is binary64, never an MPFixed context *)
      unfold to_context in Ht; simpl in Ht. rewrite Hr in Ht. discriminate.
  - destruct sg; [|discriminate].
    destruct (rm_name rm) as [r|] eqn:Er; [|discriminate]. inversion Hf; subst p; clear Hf.
    pose proof (rm_name_inv _ _ Er) as Hr.
    split.
    + rewrite <- Ht. destruct P; unfold to_context, merge_props; simpl. reflexivity.
    + unfold round_ok, merge_props; simpl. rewrite Hr; discriminate.
  - inversion Hf; subst p; clear Hf. split.
    + destruct P; unfold to_context, merge_props; simpl. reflexivity.
    + destruct P; unfold round_ok, merge_props in *; simpl in *. exact HP.
  - discriminate.
Qed.

(* the `:precision integer` annotation of an unrounded integer literal *)
Lemma int_props_good : forall P, round_ok P ->
  exists rm, to_context (merge_props (mkProps (Some (PSym "integer")) None None None) P) = Some (CMPFixed (-1) rm).
Proof.
  intros P HP. destruct P as [pr [rd|] ov n]; unfold round_ok in HP; simpl in HP.
  - destruct (rm_of_name rd) as [rm|] eqn:E; [|congruence].
    exists rm. unfold to_context, merge_props; simpl. rewrite E. reflexivity.
  - exists RNE. reflexivity.
Qed.

(* ------------------------------------------------------------------ loops *)
Lemma while_loop_ext : forall (St : Type) n (c1 c2 : St -> res bool) (s1 s2 : St -> res St),
  (forall s, c1 s = c2 s) -> (forall s, s1 s = s2 s) ->
  forall s, while_loop n c1 s1 s = while_loop n c2 s2 s.
Proof.
  induction n; intros c1 c2 s1 s2 Hc Hs s; simpl; [reflexivity|].
  rewrite Hc. destruct (c2 s) as [[|]| |]; simpl; try reflexivity.
  rewrite Hs. destruct (s2 s); simpl; try reflexivity. apply IHn; assumption.
Qed.

Lemma for_loop_ext : forall (St : Type) cnt k (s1 s2 : nat -> St -> res St),
  (forall k s, s1 k s = s2 k s) ->
  forall s, for_loop cnt k s1 s = for_loop cnt k s2 s.
Proof.
  induction cnt; intros k s1 s2 Hs s; simpl; [reflexivity|].
  rewrite Hs. destruct (s2 k s); simpl; try reflexivity. apply IHcnt; assumption.
Qed.

Section Env.
  Variable V : Type.

  Lemma update_same : forall (r : env V) x v, lookup V (update V r x v) x = Ok v.
  Proof. intros; unfold lookup, update. rewrite String.eqb_refl. reflexivity. Qed.

  Lemma update_update : forall (r : env V) x a b, update V (update V r x a) x b = update V r x b.
  Proof.
    intros. apply functional_extensionality; intro y. unfold update.
    destruct (String.eqb x y); reflexivity.
  Qed.

  Lemma while_loop_only : forall x n (cond : env V -> res bool) (step : env V -> res (env V)),
    (forall s s', step s = Ok s' -> exists v, s' = update V s x v) ->
    forall r v0 r', while_loop n cond step (update V r x v0) = Ok r' -> exists v, r' = update V r x v.
  Proof.
    intros x n cond step Hstep. induction n; intros r v0 r' H; simpl in H; [discriminate|].
    destruct (cond (update V r x v0)) as [[|]| |]; simpl in H; try discriminate.
    - destruct (step (update V r x v0)) as [s'| |] eqn:Es; simpl in H; try discriminate.
      destruct (Hstep _ _ Es) as [v Hv]. subst s'. rewrite update_update in H.
      eapply IHn; eassumption.
    - inversion H; subst. eexists; reflexivity.
  Qed.

  Lemma for_loop_only : forall x cnt k (step : nat -> env V -> res (env V)),
    (forall k s s', step k s = Ok s' -> exists v, s' = update V s x v) ->
    forall r v0 r', for_loop cnt k step (update V r x v0) = Ok r' -> exists v, r' = update V r x v.
  Proof.
    intros x cnt. induction cnt; intros k step Hstep r v0 r' H; simpl in H.
    - inversion H; subst. eexists; reflexivity.
    - destruct (step k (update V r x v0)) as [s'| |] eqn:Es; simpl in H; try discriminate.
      destruct (Hstep _ _ _ Es) as [v Hv]. subst s'. rewrite update_update in H.
      eapply IHcnt; eassumption.
  Qed.
End Env.
