(* C12 — soundness of the FPCore -> FPy direction (Backend/FromFPCore.v).

   For every name generator that never hands out a name in use
   (`fresh_ok`; the repaired Gensym satisfies it, the one in the code does
   not) and every core of the expression / let / let* / if / `!` subset whose
   annotations fix the number format, the statements and the expression the
   frontend emits evaluate to what the core evaluates to.  "The same result":
   `agree` — equal values, or both evaluations fail. *)
From Coq Require Import ZArith List String Bool Lia FunctionalExtensionality.
From FpyV Require Import Backend.FPCore Backend.FPCoreProofs Backend.ToFPCore Backend.ToFPCoreProofs Backend.FromFPCore.
Import ListNotations.
Open Scope Z_scope.

Scheme cexpr_mut := Induction for cexpr Sort Prop
  with binds_mut := Induction for binds Sort Prop
  with wbinds_mut := Induction for wbinds Sort Prop.
Combined Scheme cexpr_binds_ind from cexpr_mut, binds_mut, wbinds_mut.

(* ------------------------------------------------------------------ results up to failure *)
Definition isok {A} (r : res A) : Prop := match r with Ok _ => True | _ => False end.

Definition agree {A} (a b : res A) : Prop :=
  match a, b with
  | Ok x, Ok y => x = y
  | Ok _, _ | _, Ok _ => False
  | _, _ => True
  end.

Lemma agree_refl : forall A (a : res A), agree a a.
Proof. destruct a; simpl; auto. Qed.

Lemma agree_eq : forall A (a b : res A), a = b -> agree a b.
Proof. intros; subst; apply agree_refl. Qed.

Lemma agree_bind : forall A B (a b : res A) (f g : A -> res B),
  agree a b -> (forall x, agree (f x) (g x)) -> agree (bind a f) (bind b g).
Proof.
  intros A B a b f g H Hf. destruct a, b; simpl in *; try contradiction; auto.
  subst. apply Hf.
Qed.

Lemma agree_fail : forall A (a b : res A), ~ isok a -> ~ isok b -> agree a b.
Proof. intros A a b Ha Hb. destruct a, b; simpl in *; tauto. Qed.

Lemma agree_isok : forall A (a b : res A), agree a b -> (isok a <-> isok b).
Proof. intros A a b H. destruct a, b; simpl in *; tauto. Qed.

Lemma bind_notok : forall A B (a : res A) (f : A -> res B), ~ isok a -> ~ isok (bind a f).
Proof. intros A B a f H. destruct a; simpl in *; tauto. Qed.

Lemma bind_assoc : forall A B C (a : res A) (f : A -> res B) (g : B -> res C),
  bind (bind a f) g = bind a (fun x => bind (f x) g).
Proof. destruct a; reflexivity. Qed.

(* ------------------------------------------------------------------ Gensym *)
Definition fresh_ok (fresh : gensym) : Prop :=
  forall prefix g x g', fresh prefix g = Some (x, g') ->
    ~ In x (g_used g) /\ g_used g' = x :: g_used g.

Lemma mem_id_In : forall x l, mem_id x l = true <-> In x l.
Proof.
  induction l; simpl; [split; [discriminate|tauto]|].
  rewrite orb_true_iff, IHl, String.eqb_eq. split; intros [H|H]; auto.
Qed.

Lemma refresh_loop_fresh : forall fuel used base cand ctr x ctr',
  refresh_loop fuel used base cand ctr = Some (x, ctr') -> ~ In x used.
Proof.
  induction fuel; intros used base cand ctr x ctr' H; simpl in H.
  - destruct (mem_id cand used) eqn:E; [discriminate|]. inversion H; subst.
    intro Hin. apply mem_id_In in Hin. congruence.
  - destruct (mem_id cand used) eqn:E.
    + eapply IHfuel; eassumption.
    + inversion H; subst. intro Hin. apply mem_id_In in Hin. congruence.
Qed.

Lemma fresh_fixed_ok : fresh_ok fresh_fixed.
Proof.
  intros prefix g x g' H. unfold fresh_fixed in H.
  destruct (refresh_loop _ _ _ _ _) as [[y c]|] eqn:E; [|discriminate].
  inversion H; subst. split; [|reflexivity]. eapply refresh_loop_fresh; eassumption.
Qed.

Section Read.
  Variable V : Type.
  Variable N : numops V.
  Hypothesis Hint : forall rm z, n_num N (CMPFixed (-1) rm) z = n_int N z.
  Variable fresh : gensym.
  Hypothesis Hfresh : fresh_ok fresh.

  Notation env := (env V).
  Notation update := (update V).
  Notation lookup := (lookup V).

  (* ---------------------------------------------------------------- running emitted statements *)
  Definition run (fuel : nat) (c : ctx) (s : env) (ss : list stmt) : res env :=
    bind (exec_block V N fuel c s (blk ss))
         (fun o => match o with ONormal s' => Ok s' | ORet _ => Err end).

  Lemma run_nil : forall fuel c s, run fuel c s [] = Ok s.
  Proof. reflexivity. Qed.

  Lemma run_cons : forall fuel c s st ss,
    run fuel c s (st :: ss) =
    bind (exec_stmt V N fuel c s st)
         (fun o => match o with ONormal s1 => run fuel c s1 ss | ORet _ => Err end).
  Proof.
    intros. unfold run. simpl.
    destruct (exec_stmt V N fuel c s st) as [[s1|v]| |]; reflexivity.
  Qed.

  Lemma run_app : forall fuel c a b s,
    run fuel c s (a ++ b) = bind (run fuel c s a) (fun s1 => run fuel c s1 b).
  Proof.
    induction a; intros b s; simpl app.
    - rewrite run_nil. reflexivity.
    - rewrite !run_cons. rewrite bind_assoc.
      destruct (exec_stmt V N fuel c s a) as [[s1|v]| |]; simpl; try reflexivity. apply IHa.
  Qed.

  Lemma run_assign : forall fuel c s x e,
    run fuel c s [SAssign x e] = bind (eval_expr V N c s e) (fun v => Ok (update s x v)).
  Proof.
    intros. rewrite run_cons. simpl.
    destruct (eval_expr V N c s e); reflexivity.
  Qed.

  (* emitted statements never return *)
  Fixpoint nr_stmt (s : stmt) : bool :=
    match s with
    | SRet _ => false
    | SWith _ b => nr_block b
    | _ => true
    end
  with nr_block (b : block) : bool :=
    match b with BNil => true | BCons s b' => nr_stmt s && nr_block b' end.

  Lemma nr_blk : forall ss, nr_block (blk ss) = forallb nr_stmt ss.
  Proof. induction ss; simpl; [reflexivity|]. rewrite IHss. reflexivity. Qed.

  Lemma bind_nr : forall A (m : res A) (f : A -> res (outcome V)) v,
    (forall a, f a <> Ok (ORet v)) -> bind m f <> Ok (ORet v).
  Proof. intros A m f v H. destruct m; simpl; [apply H|discriminate|discriminate]. Qed.

  Lemma nr_exec :
    (forall s, nr_stmt s = true -> forall fuel c r v, exec_stmt V N fuel c r s <> Ok (ORet v)) /\
    (forall b, nr_block b = true -> forall fuel c r v, exec_block V N fuel c r b <> Ok (ORet v)).
  Proof.
    apply stmt_block_ind; simpl; intros.
    - apply bind_nr; intros; discriminate.
    - apply H; assumption.
    - apply bind_nr; intro. apply bind_nr; intros; discriminate.
    - apply bind_nr; intros [|]; apply bind_nr; intros; discriminate.
    - apply bind_nr; intro. apply bind_nr; intros; discriminate.
    - apply bind_nr; intro vn. destruct (n_count N vn); [|discriminate].
      apply bind_nr; intro. apply bind_nr; intros; discriminate.
    - discriminate.
    - discriminate.
    - discriminate.
    - apply andb_true_iff in H1 as [A B].
      destruct (exec_stmt V N fuel c r s) as [[r'|v']| |] eqn:Es; simpl; try discriminate.
      + apply H0; assumption.
      + exfalso. eapply H; eassumption.
  Qed.

  Lemma run_ok_exec : forall fuel c s ss,
    forallb nr_stmt ss = true ->
    exec_block V N fuel c s (blk ss) = bind (run fuel c s ss) (fun s' => Ok (ONormal s')).
  Proof.
    intros fuel c s ss H. unfold run.
    destruct (exec_block V N fuel c s (blk ss)) as [[s'|v]| |] eqn:E; simpl; try reflexivity.
    exfalso. eapply (proj2 nr_exec (blk ss)); [rewrite nr_blk; exact H|exact E].
  Qed.

  Lemma exec_blk_app : forall fuel c a b s,
    forallb nr_stmt a = true ->
    exec_block V N fuel c s (blk (a ++ b)) =
    bind (run fuel c s a) (fun s1 => exec_block V N fuel c s1 (blk b)).
  Proof.
    induction a; intros b s H; simpl app.
    - rewrite run_nil. reflexivity.
    - simpl in H. apply andb_true_iff in H as [Ha Hr].
      rewrite run_cons. simpl blk. simpl exec_block. rewrite bind_assoc.
      destruct (exec_stmt V N fuel c s a) as [[s1|v]| |] eqn:Es; simpl; try reflexivity.
      + apply IHa; exact Hr.
      + exfalso. eapply (proj1 nr_exec a); eassumption.
  Qed.

  Lemma ret_of_blk : forall fuel c s ss e,
    forallb nr_stmt ss = true ->
    ret_of V (exec_block V N fuel c s (blk (ss ++ [SRet e]))) =
    bind (run fuel c s ss) (fun s' => eval_expr V N c s' e).
  Proof.
    intros. rewrite exec_blk_app by assumption. unfold ret_of. rewrite bind_assoc.
    destruct (run fuel c s ss); simpl; try reflexivity.
    destruct (eval_expr V N c a e); reflexivity.
  Qed.

  (* a branch `stmts; x = e` of an emitted if, run in scoped mode *)
  Lemma export_branch : forall fuel c s ss x e,
    forallb nr_stmt ss = true ->
    export V (exec_block V N fuel c s (blk (ss ++ [SAssign x e]))) s x =
    bind (run fuel c s ss) (fun s1 => bind (eval_expr V N c s1 e) (fun v => Ok (update s x v))).
  Proof.
    intros. rewrite exec_blk_app by assumption. unfold export. rewrite bind_assoc.
    destruct (run fuel c s ss) as [s1| |]; simpl; try reflexivity.
    destruct (eval_expr V N c s1 e) as [v| |]; simpl; try reflexivity.
    rewrite update_same. reflexivity.
  Qed.

  (* the body `stmts; x = e` of an emitted `with` *)
  Lemma run_with : forall fuel c c' s ss x e,
    forallb nr_stmt ss = true ->
    run fuel c s [SWith c' (blk (ss ++ [SAssign x e]))] =
    bind (run fuel c' s ss) (fun s1 => bind (eval_expr V N c' s1 e) (fun v => Ok (update s1 x v))).
  Proof.
    intros. rewrite run_cons. simpl exec_stmt. rewrite exec_blk_app by assumption. rewrite bind_assoc.
    destruct (run fuel c' s ss) as [s1| |]; simpl; try reflexivity.
    destruct (eval_expr V N c' s1 e) as [v| |]; reflexivity.
  Qed.

  (* ---------------------------------------------------------------- environments *)
  Definition same_on (l : list ident) (s1 s2 : env) : Prop := forall y, In y l -> s1 y = s2 y.

  Definition m_in (m : renaming) (g : gs) : Prop := forall x y, assoc m x = Some y -> In y (g_used g).

  Definition rel (m : renaming) (r s : env) : Prop := forall x y, assoc m x = Some y -> r x = s y.

  Lemma rel_frame : forall m g r s s', rel m r s -> m_in m g -> same_on (g_used g) s' s -> rel m r s'.
  Proof. intros m g r s s' Hr Hm Hs x y H. rewrite (Hr x y H). symmetry. apply Hs. eapply Hm; eassumption. Qed.

  Lemma m_in_mono : forall m g g', m_in m g -> incl (g_used g) (g_used g') -> m_in m g'.
  Proof. intros m g g' H Hi x y Hxy. apply Hi. eapply H; eassumption. Qed.

  Lemma same_on_incl : forall l l' s1 s2, same_on l' s1 s2 -> incl l l' -> same_on l s1 s2.
  Proof. intros l l' s1 s2 H Hi y Hy. apply H. apply Hi. exact Hy. Qed.

  Lemma same_on_trans : forall l s1 s2 s3, same_on l s1 s2 -> same_on l s2 s3 -> same_on l s1 s3.
  Proof. intros l s1 s2 s3 H1 H2 y Hy. rewrite (H1 y Hy). apply H2; exact Hy. Qed.

  Lemma same_on_update : forall l (s : env) x v, ~ In x l -> same_on l (update s x v) s.
  Proof.
    intros l s x v Hn y Hy. unfold FPCore.update.
    destruct (String.eqb x y) eqn:E; [|reflexivity].
    apply String.eqb_eq in E. subst. contradiction.
  Qed.

  Lemma fresh_spec : forall prefix g x g', fresh prefix g = Some (x, g') ->
    ~ In x (g_used g) /\ In x (g_used g') /\ incl (g_used g) (g_used g').
  Proof.
    intros prefix g x g' H. destruct (Hfresh prefix g x g' H) as [Hn He].
    split; [exact Hn|]. rewrite He. split; [left; reflexivity|]. intros y Hy. right; exact Hy.
  Qed.

  (* what the translation of an expression guarantees, whatever the evaluation *)
  Definition depends_on {A} (l : list ident) (f : env -> res A) : Prop :=
    forall s1 s2, same_on l s1 s2 -> f s1 = f s2.

  Record shape (g g' : gs) (ss : list stmt) : Prop := mkShape {
    sh_incl : incl (g_used g) (g_used g');
    sh_nr : forallb nr_stmt ss = true;
    sh_frame : forall fuel c s s', run fuel c s ss = Ok s' -> same_on (g_used g) s' s;
  }.

  Lemma shape_nil : forall g, shape g g [].
  Proof.
    intro g. split; [apply incl_refl|reflexivity|].
    intros fuel c s s' H. rewrite run_nil in H. inversion H. intros y _; reflexivity.
  Qed.

  Lemma shape_app : forall g g1 g2 a b, shape g g1 a -> shape g1 g2 b -> shape g g2 (a ++ b).
  Proof.
    intros g g1 g2 a b [Ia Na Fa] [Ib Nb Fb]. split.
    - eapply incl_tran; eassumption.
    - rewrite forallb_app, Na, Nb. reflexivity.
    - intros fuel c s s' H. rewrite run_app in H.
      destruct (run fuel c s a) as [s1| |] eqn:E1; simpl in H; try discriminate.
      eapply same_on_trans; [|eapply Fa; eassumption].
      eapply same_on_incl; [eapply Fb; eassumption|exact Ia].
  Qed.

  (* sequencing two translated operands *)
  Lemma seq_agree : forall (TA TB TC : Type) fuel c s sa sb g g1 g2
      (fa : env -> res TA) (fb : env -> res TB) (k : TA -> TB -> res TC) (A : res TA) (B : res TB),
    shape g g1 sa -> shape g1 g2 sb -> depends_on (g_used g1) fa ->
    agree (bind (run fuel c s sa) fa) A ->
    (forall s1, run fuel c s sa = Ok s1 -> agree (bind (run fuel c s1 sb) fb) B) ->
    agree (bind (run fuel c s (sa ++ sb)) (fun s2 => bind (fa s2) (fun va => bind (fb s2) (fun vb => k va vb))))
          (bind A (fun va => bind B (fun vb => k va vb))).
  Proof.
    intros TA TB TC fuel c s sa sb g g1 g2 fa fb k A B Sa Sb Dfa HA HB.
    rewrite run_app, bind_assoc.
    destruct (run fuel c s sa) as [s1| |] eqn:E1; cbn [bind] in HA |- *.
    - specialize (HB s1 eq_refl).
      destruct (run fuel c s1 sb) as [s2| |] eqn:E2; cbn [bind] in HB |- *.
      + assert (Hfa : fa s2 = fa s1) by (apply Dfa; eapply (sh_frame _ _ _ Sb); eassumption).
        rewrite Hfa. apply agree_bind; [exact HA|]. intro va.
        apply agree_bind; [exact HB|]. intro vb. apply agree_refl.
      + destruct A, B; simpl in *; tauto.
      + destruct A, B; simpl in *; tauto.
    - destruct A; simpl in *; tauto.
    - destruct A; simpl in *; tauto.
  Qed.

  Lemma agree_bind2 : forall A B C (x : res A) (f : A -> res B) (k : B -> res C) (Y : res B) (k' : B -> res C),
    agree (bind x f) Y -> (forall v, agree (k v) (k' v)) ->
    agree (bind x (fun a => bind (f a) k)) (bind Y k').
  Proof. intros. rewrite <- bind_assoc. apply agree_bind; assumption. Qed.

  (* the value assigned last is the value read back *)
  Lemma bind_update_lookup : forall (X : res env) (F : env -> res V) (base : env -> env) x,
    bind (bind X (fun s2 => bind (F s2) (fun v => Ok (update (base s2) x v)))) (fun s' => lookup s' x) = bind X F.
  Proof.
    intros. destruct X as [s2| |]; simpl; try reflexivity.
    destruct (F s2); simpl; try reflexivity. apply update_same.
  Qed.

  (* ---------------------------------------------------------------- core evaluation, by cases *)
  Lemma ceval_un_num : forall fuel Pc c r o a, good Pc c ->
    as_num V (ceval V N fuel Pc r (CUn o a)) =
    bind (as_num V (ceval V N fuel Pc r a)) (fun va => Ok (n_un N c o va)).
  Proof.
    intros fuel Pc c r o a [Hc _]. simpl.
    destruct (as_num V (ceval V N fuel Pc r a)); simpl; try reflexivity.
    unfold with_ctx. rewrite Hc. reflexivity.
  Qed.

  Lemma ceval_bin_num : forall fuel Pc c r o a b, good Pc c ->
    as_num V (ceval V N fuel Pc r (CBin o a b)) =
    bind (as_num V (ceval V N fuel Pc r a)) (fun va =>
    bind (as_num V (ceval V N fuel Pc r b)) (fun vb => Ok (n_bin N c o va vb))).
  Proof.
    intros fuel Pc c r o a b [Hc _]. simpl.
    destruct (as_num V (ceval V N fuel Pc r a)); simpl; try reflexivity.
    destruct (as_num V (ceval V N fuel Pc r b)); simpl; try reflexivity.
    unfold with_ctx. rewrite Hc. reflexivity.
  Qed.

  Lemma ceval_cmp_bool : forall fuel Pc r o a b,
    as_bool V (ceval V N fuel Pc r (CCmp o a b)) =
    bind (as_num V (ceval V N fuel Pc r a)) (fun va =>
    bind (as_num V (ceval V N fuel Pc r b)) (fun vb => Ok (n_cmp N o va vb))).
  Proof.
    intros. simpl.
    destruct (as_num V (ceval V N fuel Pc r a)); simpl; try reflexivity.
    destruct (as_num V (ceval V N fuel Pc r b)); reflexivity.
  Qed.

  Lemma ceval_and_bool : forall fuel Pc r a b,
    as_bool V (ceval V N fuel Pc r (CAnd a b)) =
    bind (as_bool V (ceval V N fuel Pc r a)) (fun x =>
    bind (as_bool V (ceval V N fuel Pc r b)) (fun y => Ok (x && y))).
  Proof.
    intros. simpl.
    destruct (as_bool V (ceval V N fuel Pc r a)); simpl; try reflexivity.
    destruct (as_bool V (ceval V N fuel Pc r b)); reflexivity.
  Qed.

  Lemma ceval_or_bool : forall fuel Pc r a b,
    as_bool V (ceval V N fuel Pc r (COr a b)) =
    bind (as_bool V (ceval V N fuel Pc r a)) (fun x =>
    bind (as_bool V (ceval V N fuel Pc r b)) (fun y => Ok (x || y))).
  Proof.
    intros. simpl.
    destruct (as_bool V (ceval V N fuel Pc r a)); simpl; try reflexivity.
    destruct (as_bool V (ceval V N fuel Pc r b)); reflexivity.
  Qed.

  Lemma ceval_not_bool : forall fuel Pc r a,
    as_bool V (ceval V N fuel Pc r (CNot a)) =
    bind (as_bool V (ceval V N fuel Pc r a)) (fun x => Ok (negb x)).
  Proof. intros. simpl. destruct (as_bool V (ceval V N fuel Pc r a)); reflexivity. Qed.

  Lemma ceval_if_num : forall fuel Pc r c t f,
    as_num V (ceval V N fuel Pc r (CIf c t f)) =
    bind (as_bool V (ceval V N fuel Pc r c)) (fun b =>
      if b then as_num V (ceval V N fuel Pc r t) else as_num V (ceval V N fuel Pc r f)).
  Proof.
    intros. simpl. destruct (as_bool V (ceval V N fuel Pc r c)) as [[|]| |]; reflexivity.
  Qed.

  Definition cb (star : bool) (fuel : nat) (Pc : props) (r0 r : env) (bs : binds) : res env :=
    if star then cbinds_seq V N fuel Pc r bs else cbinds_par V N fuel Pc r0 r bs.

  Lemma cb_cons : forall star fuel Pc r0 r x e bs,
    cb star fuel Pc r0 r (LCons x e bs) =
    bind (as_num V (ceval V N fuel Pc (if star then r else r0) e))
         (fun v => cb star fuel Pc r0 (update r x v) bs).
  Proof. intros. destruct star; reflexivity. Qed.

  Lemma ceval_let_num : forall fuel Pc r star bs body,
    as_num V (ceval V N fuel Pc r (CLet star bs body)) =
    bind (cb star fuel Pc r r bs) (fun r' => as_num V (ceval V N fuel Pc r' body)).
  Proof.
    intros. unfold cb. simpl.
    destruct (if star then cbinds_seq V N fuel Pc r bs else cbinds_par V N fuel Pc r r bs); reflexivity.
  Qed.

  (* a full annotation fixes the format whatever is inherited *)
  Lemma pfull_good : forall p P Pc c,
    pfull p = true -> to_context (merge_props p P) = Some c -> round_ok Pc -> good (merge_props p Pc) c.
  Proof.
    intros p P Pc c Hf Ht HPc.
    destruct p as [[pr|] rd ov n]; unfold pfull in Hf; simpl in Hf; [|discriminate].
    unfold round_named in Hf; simpl in Hf.
    destruct pr as [sy|es nb|a b].
    - apply orb_true_iff in Hf as [Hf|Hf].
      + apply andb_true_iff in Hf as [Hs Hr]. apply String.eqb_eq in Hs; subst sy. split.
        * destruct P, Pc; unfold to_context, merge_props in *; simpl in *. exact Ht.
        * destruct rd as [r|].
          -- unfold round_ok, merge_props; simpl. destruct (rm_of_name r); [discriminate|discriminate].
          -- destruct Pc; unfold round_ok, merge_props in *; simpl in *. exact HPc.
      + destruct rd as [r|]; [|discriminate]. destruct (rm_of_name r) eqn:Er; [|discriminate]. split.
        * destruct P, Pc; unfold to_context, merge_props in *; simpl in *. exact Ht.
        * unfold round_ok, merge_props; simpl. rewrite Er; discriminate.
    - destruct rd as [r|]; [|discriminate]. destruct (rm_of_name r) eqn:Er; [|discriminate]. split.
      + destruct P, Pc; unfold to_context, merge_props in *; simpl in *. exact Ht.
      + unfold round_ok, merge_props; simpl. rewrite Er; discriminate.
    - destruct rd as [r|]; [|discriminate]. destruct (rm_of_name r) eqn:Er; [|discriminate].
      destruct ov as [o|]; [|discriminate]. split.
      + destruct P, Pc; unfold to_context, merge_props in *; simpl in *. exact Ht.
      + unfold round_ok, merge_props; simpl. rewrite Er; discriminate.
  Qed.

  Lemma int_props_ctx : forall p P c, is_int_props p = true -> to_context (merge_props p P) = Some c ->
    p = int_props /\ exists rm, c = CMPFixed (-1) rm.
  Proof.
    intros p P c Hi Ht. destruct p as [[[sy| |]|] [rd|] [ov|] [n|]]; simpl in Hi; try discriminate.
    apply String.eqb_eq in Hi; subst sy. split; [reflexivity|].
    destruct P as [pr [rd|] ov n]; unfold to_context, merge_props in Ht; simpl in Ht.
    - destruct (rm_of_name rd); [|discriminate]. inversion Ht. eexists; reflexivity.
    - inversion Ht. eexists; reflexivity.
  Qed.

  (* ---------------------------------------------------------------- the translation *)
  Definition PE (e : cexpr) : Prop :=
    (forall m P g ss e' g', fr_expr fresh m P e g = Some (ss, e', g') -> ann_ok e = true -> m_in m g ->
       shape g g' ss /\
       (forall c, depends_on (g_used g') (fun s => eval_expr V N c s e')) /\
       (forall fuel Pc c r s, good Pc c -> rel m r s ->
          agree (bind (run fuel c s ss) (fun s' => eval_expr V N c s' e'))
                (as_num V (ceval V N fuel Pc r e)))) /\
    (forall m P g ss e' g', fr_bexp fresh m P e g = Some (ss, e', g') -> ann_ok e = true -> m_in m g ->
       shape g g' ss /\
       (forall c, depends_on (g_used g') (fun s => eval_bexp V N c s e')) /\
       (forall fuel Pc c r s, good Pc c -> rel m r s ->
          agree (bind (run fuel c s ss) (fun s' => eval_bexp V N c s' e'))
                (as_bool V (ceval V N fuel Pc r e)))).

  Definition PL (bs : binds) : Prop :=
    forall star m0 m P g ss m' g',
      fr_binds fresh star m0 m P bs g = Some (ss, m', g') -> ann_ok_binds bs = true ->
      m_in m0 g -> m_in m g ->
      shape g g' ss /\ m_in m' g' /\
      (forall fuel Pc c r0 r s, good Pc c -> rel m0 r0 s -> rel m r s ->
         match run fuel c s ss, cb star fuel Pc r0 r bs with
         | Ok s', Ok r' => rel m' r' s'
         | Ok _, _ | _, Ok _ => False
         | _, _ => True
         end).

  Definition PW (ws : wbinds) : Prop := True.

  Lemma shape_assign : forall g g' y e, ~ In y (g_used g) -> incl (g_used g) (g_used g') ->
    shape g g' [SAssign y e].
  Proof.
    intros g g' y e Hn Hi. split; [exact Hi|reflexivity|].
    intros fuel c s s' H. rewrite run_assign in H.
    destruct (eval_expr V N c s e); simpl in H; try discriminate. inversion H; subst.
    apply same_on_update; exact Hn.
  Qed.

  Lemma dep_incl : forall A l l' (f : env -> res A), depends_on l f -> incl l l' -> depends_on l' f.
  Proof. intros A l l' f H Hi s1 s2 Hs. apply H. eapply same_on_incl; eassumption. Qed.

  Lemma bind_update_lookup_const : forall (X : res env) (F : env -> res V) (s1 : env) x,
    bind (bind X (fun s2 => bind (F s2) (fun v => Ok (update s1 x v)))) (fun s' => lookup s' x) = bind X F.
  Proof. intros. apply (bind_update_lookup X F (fun _ => s1) x). Qed.

  Lemma bind_update_lookup_id : forall (X : res env) (F : env -> res V) x,
    bind (bind X (fun s2 => bind (F s2) (fun v => Ok (update s2 x v)))) (fun s' => lookup s' x) = bind X F.
  Proof. intros. apply (bind_update_lookup X F (fun s2 => s2) x). Qed.

  Lemma run_if : forall fuel c s bc x st et sf ef,
    forallb nr_stmt st = true -> forallb nr_stmt sf = true ->
    run fuel c s [SIf bc x (blk (st ++ [SAssign x et])) (blk (sf ++ [SAssign x ef]))] =
    bind (eval_bexp V N c s bc) (fun b =>
      if b then bind (run fuel c s st) (fun s2 => bind (eval_expr V N c s2 et) (fun v => Ok (update s x v)))
      else bind (run fuel c s sf) (fun s2 => bind (eval_expr V N c s2 ef) (fun v => Ok (update s x v)))).
  Proof.
    intros fuel c s bc x st et sf ef Ht Hf. rewrite run_cons. simpl exec_stmt.
    destruct (eval_bexp V N c s bc) as [[|]| |]; simpl; try reflexivity.
    - rewrite export_branch by assumption.
      destruct (run fuel c s st) as [s2| |]; simpl; try reflexivity.
      destruct (eval_expr V N c s2 et); reflexivity.
    - rewrite export_branch by assumption.
      destruct (run fuel c s sf) as [s2| |]; simpl; try reflexivity.
      destruct (eval_expr V N c s2 ef); reflexivity.
  Qed.

  Lemma shape_if : forall ga gb bc x st et sf ef,
    forallb nr_stmt st = true -> forallb nr_stmt sf = true ->
    ~ In x (g_used ga) -> incl (g_used ga) (g_used gb) ->
    shape ga gb [SIf bc x (blk (st ++ [SAssign x et])) (blk (sf ++ [SAssign x ef]))].
  Proof.
    intros ga gb bc x st et sf ef Ht Hf Hx Hi. split; [exact Hi|reflexivity|].
    intros fuel c s s' H. rewrite run_if in H by assumption.
    destruct (eval_bexp V N c s bc) as [[|]| |]; simpl in H; try discriminate.
    - destruct (run fuel c s st) as [s2| |]; simpl in H; try discriminate.
      destruct (eval_expr V N c s2 et); simpl in H; try discriminate.
      inversion H; subst. apply same_on_update; exact Hx.
    - destruct (run fuel c s sf) as [s2| |]; simpl in H; try discriminate.
      destruct (eval_expr V N c s2 ef); simpl in H; try discriminate.
      inversion H; subst. apply same_on_update; exact Hx.
  Qed.

  Lemma shape_with : forall g g1 g2 c' s1 x e,
    shape g g1 s1 -> ~ In x (g_used g1) -> incl (g_used g1) (g_used g2) ->
    shape g g2 [SWith c' (blk (s1 ++ [SAssign x e]))].
  Proof.
    intros g g1 g2 c' s1 x e [I1 N1 F1] Hx Hi. split.
    - eapply incl_tran; eassumption.
    - simpl. rewrite nr_blk, forallb_app, N1. reflexivity.
    - intros fuel c s s' H. rewrite run_with in H by assumption.
      destruct (run fuel c' s s1) as [sa| |] eqn:Ea; simpl in H; try discriminate.
      destruct (eval_expr V N c' sa e); simpl in H; try discriminate.
      inversion H; subst.
      eapply same_on_trans; [|eapply F1; eassumption].
      apply same_on_update. intro Hin. apply Hx. apply I1. exact Hin.
  Qed.

  Lemma rel_cons : forall m g r s x y v,
    rel m r s -> m_in m g -> ~ In y (g_used g) -> rel ((x, y) :: m) (update r x v) (update s y v).
  Proof.
    intros m g r s x y v Hr Hm Hy x' y' H. simpl in H. unfold FPCore.update.
    destruct (String.eqb x x') eqn:E.
    - inversion H; subst y'. rewrite String.eqb_refl. reflexivity.
    - destruct (String.eqb y y') eqn:E'.
      + apply String.eqb_eq in E'; subst y'. exfalso. apply Hy. eapply Hm; eassumption.
      + apply Hr; exact H.
  Qed.

  Lemma m_in_cons : forall m g g' x y, m_in m g -> incl (g_used g) (g_used g') -> In y (g_used g') ->
    m_in ((x, y) :: m) g'.
  Proof.
    intros m g g' x y Hm Hi Hy x' y' H. simpl in H.
    destruct (String.eqb x x'); [inversion H; subst; exact Hy|]. apply Hi. eapply Hm; eassumption.
  Qed.

  Lemma read_mut : (forall e, PE e) /\ (forall bs, PL bs) /\ (forall ws, PW ws).
  Proof.
    apply cexpr_binds_ind; try (intros; exact I).
    - (* CVar *)
      intro x. split; [|intros m P g ss e' g' H; simpl in H; discriminate].
      intros m P g ss e' g' H _ Hm. simpl in H.
      destruct (assoc m x) as [y|] eqn:Ea; simpl in H; [|discriminate]. inversion H; subst ss e' g'; clear H.
      split; [apply shape_nil|]. split.
      + intros c s1 s2 Hs. simpl. unfold FPCore.lookup. rewrite (Hs y (Hm x y Ea)). reflexivity.
      + intros fuel Pc c r s Hg Hr. rewrite run_nil. simpl. apply agree_eq.
        unfold FPCore.lookup. rewrite (Hr x y Ea). destruct (s y); reflexivity.
    - (* CLit *)
      intro l. split; [|intros m P g ss e' g' H; simpl in H; discriminate].
      intros m P g ss e' g' H _ Hm. simpl in H. inversion H; subst ss e' g'; clear H.
      split; [apply shape_nil|]. split; [intros c s1 s2 _; reflexivity|].
      intros fuel Pc c r s [Hc _] Hr. rewrite run_nil. simpl. unfold with_ctx. rewrite Hc. simpl. reflexivity.
    - (* CNum *)
      intro z. split; [|intros m P g ss e' g' H; simpl in H; discriminate].
      intros m P g ss e' g' H _ Hm. simpl in H. inversion H; subst ss e' g'; clear H.
      split; [apply shape_nil|]. split; [intros c s1 s2 _; reflexivity|].
      intros fuel Pc c r s [Hc _] Hr. rewrite run_nil. simpl. unfold with_ctx. rewrite Hc. simpl. reflexivity.
    - (* CUn *)
      intros o a [IHa _]. split; [|intros m P g ss e' g' H; simpl in H; discriminate].
      intros m P g ss e' g' H Ha Hm. simpl in H, Ha.
      destruct (fr_expr fresh m P a g) as [[[sa ea] g1]|] eqn:Ea; simpl in H; [|discriminate].
      inversion H; subst ss e' g'; clear H.
      destruct (IHa _ _ _ _ _ _ Ea Ha Hm) as [Sh [Dep Ag]].
      split; [exact Sh|]. split.
      + intros c s1 s2 Hs. simpl. rewrite (Dep c s1 s2 Hs). reflexivity.
      + intros fuel Pc c r s Hg Hr. rewrite (ceval_un_num fuel Pc c r o a Hg). simpl eval_expr.
        apply agree_bind2; [apply Ag; assumption|]. intro v; apply agree_refl.
    - (* CBin *)
      intros o a [IHa _] b [IHb _]. split; [|intros m P g ss e' g' H; simpl in H; discriminate].
      intros m P g ss e' g' H Hab Hm. simpl in H, Hab. apply andb_true_iff in Hab as [Ha Hb].
      destruct (fr_expr fresh m P a g) as [[[sa ea] g1]|] eqn:Ea; simpl in H; [|discriminate].
      destruct (fr_expr fresh m P b g1) as [[[sb eb] g2]|] eqn:Eb; simpl in H; [|discriminate].
      inversion H; subst ss e' g'; clear H.
      destruct (IHa _ _ _ _ _ _ Ea Ha Hm) as [Sa [Da Aa]].
      assert (Hm1 : m_in m g1) by (eapply m_in_mono; [exact Hm|apply Sa]).
      destruct (IHb _ _ _ _ _ _ Eb Hb Hm1) as [Sb [Db Ab]].
      split; [eapply shape_app; eassumption|]. split.
      + intros c s1 s2 Hs. simpl.
        rewrite (dep_incl _ _ _ _ (Da c) (sh_incl _ _ _ Sb) s1 s2 Hs), (Db c s1 s2 Hs). reflexivity.
      + intros fuel Pc c r s Hg Hr. rewrite (ceval_bin_num fuel Pc c r o a b Hg). simpl eval_expr.
        eapply (seq_agree _ _ _ fuel c s sa sb g g1 g2
                  (fun s => eval_expr V N c s ea) (fun s => eval_expr V N c s eb)
                  (fun va vb => Ok (n_bin N c o va vb))); try eassumption.
        * apply Da.
        * apply Aa; assumption.
        * intros s1 E1. apply Ab; [assumption|].
          eapply rel_frame; [exact Hr|exact Hm|]. eapply (sh_frame _ _ _ Sa); eassumption.
    - (* CCmp *)
      intros o a [IHa _] b [IHb _]. split; [intros m P g ss e' g' H; simpl in H; discriminate|].
      intros m P g ss e' g' H Hab Hm. simpl in H, Hab. apply andb_true_iff in Hab as [Ha Hb].
      destruct (fr_expr fresh m P a g) as [[[sa ea] g1]|] eqn:Ea; simpl in H; [|discriminate].
      destruct (fr_expr fresh m P b g1) as [[[sb eb] g2]|] eqn:Eb; simpl in H; [|discriminate].
      inversion H; subst ss e' g'; clear H.
      destruct (IHa _ _ _ _ _ _ Ea Ha Hm) as [Sa [Da Aa]].
      assert (Hm1 : m_in m g1) by (eapply m_in_mono; [exact Hm|apply Sa]).
      destruct (IHb _ _ _ _ _ _ Eb Hb Hm1) as [Sb [Db Ab]].
      split; [eapply shape_app; eassumption|]. split.
      + intros c s1 s2 Hs. simpl.
        rewrite (dep_incl _ _ _ _ (Da c) (sh_incl _ _ _ Sb) s1 s2 Hs), (Db c s1 s2 Hs). reflexivity.
      + intros fuel Pc c r s Hg Hr. rewrite (ceval_cmp_bool fuel Pc r o a b). simpl eval_bexp.
        eapply (seq_agree _ _ _ fuel c s sa sb g g1 g2
                  (fun s => eval_expr V N c s ea) (fun s => eval_expr V N c s eb)
                  (fun va vb => Ok (n_cmp N o va vb))); try eassumption.
        * apply Da.
        * apply Aa; assumption.
        * intros s1 E1. apply Ab; [assumption|].
          eapply rel_frame; [exact Hr|exact Hm|]. eapply (sh_frame _ _ _ Sa); eassumption.
    - (* CAnd *)
      intros a [_ IHa] b [_ IHb]. split; [intros m P g ss e' g' H; simpl in H; discriminate|].
      intros m P g ss e' g' H Hab Hm. simpl in H, Hab. apply andb_true_iff in Hab as [Ha Hb].
      destruct (fr_bexp fresh m P a g) as [[[sa ea] g1]|] eqn:Ea; simpl in H; [|discriminate].
      destruct (fr_bexp fresh m P b g1) as [[[sb eb] g2]|] eqn:Eb; simpl in H; [|discriminate].
      inversion H; subst ss e' g'; clear H.
      destruct (IHa _ _ _ _ _ _ Ea Ha Hm) as [Sa [Da Aa]].
      assert (Hm1 : m_in m g1) by (eapply m_in_mono; [exact Hm|apply Sa]).
      destruct (IHb _ _ _ _ _ _ Eb Hb Hm1) as [Sb [Db Ab]].
      split; [eapply shape_app; eassumption|]. split.
      + intros c s1 s2 Hs. simpl.
        rewrite (dep_incl _ _ _ _ (Da c) (sh_incl _ _ _ Sb) s1 s2 Hs), (Db c s1 s2 Hs). reflexivity.
      + intros fuel Pc c r s Hg Hr. rewrite (ceval_and_bool fuel Pc r a b). simpl eval_bexp.
        eapply (seq_agree _ _ _ fuel c s sa sb g g1 g2
                  (fun s => eval_bexp V N c s ea) (fun s => eval_bexp V N c s eb)
                  (fun x y => Ok (x && y))); try eassumption.
        * apply Da.
        * apply Aa; assumption.
        * intros s1 E1. apply Ab; [assumption|].
          eapply rel_frame; [exact Hr|exact Hm|]. eapply (sh_frame _ _ _ Sa); eassumption.
    - (* COr *)
      intros a [_ IHa] b [_ IHb]. split; [intros m P g ss e' g' H; simpl in H; discriminate|].
      intros m P g ss e' g' H Hab Hm. simpl in H, Hab. apply andb_true_iff in Hab as [Ha Hb].
      destruct (fr_bexp fresh m P a g) as [[[sa ea] g1]|] eqn:Ea; simpl in H; [|discriminate].
      destruct (fr_bexp fresh m P b g1) as [[[sb eb] g2]|] eqn:Eb; simpl in H; [|discriminate].
      inversion H; subst ss e' g'; clear H.
      destruct (IHa _ _ _ _ _ _ Ea Ha Hm) as [Sa [Da Aa]].
      assert (Hm1 : m_in m g1) by (eapply m_in_mono; [exact Hm|apply Sa]).
      destruct (IHb _ _ _ _ _ _ Eb Hb Hm1) as [Sb [Db Ab]].
      split; [eapply shape_app; eassumption|]. split.
      + intros c s1 s2 Hs. simpl.
        rewrite (dep_incl _ _ _ _ (Da c) (sh_incl _ _ _ Sb) s1 s2 Hs), (Db c s1 s2 Hs). reflexivity.
      + intros fuel Pc c r s Hg Hr. rewrite (ceval_or_bool fuel Pc r a b). simpl eval_bexp.
        eapply (seq_agree _ _ _ fuel c s sa sb g g1 g2
                  (fun s => eval_bexp V N c s ea) (fun s => eval_bexp V N c s eb)
                  (fun x y => Ok (x || y))); try eassumption.
        * apply Da.
        * apply Aa; assumption.
        * intros s1 E1. apply Ab; [assumption|].
          eapply rel_frame; [exact Hr|exact Hm|]. eapply (sh_frame _ _ _ Sa); eassumption.
    - (* CNot *)
      intros a [_ IHa]. split; [intros m P g ss e' g' H; simpl in H; discriminate|].
      intros m P g ss e' g' H Ha Hm. simpl in H, Ha.
      destruct (fr_bexp fresh m P a g) as [[[sa ea] g1]|] eqn:Ea; simpl in H; [|discriminate].
      inversion H; subst ss e' g'; clear H.
      destruct (IHa _ _ _ _ _ _ Ea Ha Hm) as [Sh [Dep Ag]].
      split; [exact Sh|]. split.
      + intros c s1 s2 Hs. simpl. rewrite (Dep c s1 s2 Hs). reflexivity.
      + intros fuel Pc c r s Hg Hr. rewrite (ceval_not_bool fuel Pc r a). simpl eval_bexp.
        apply agree_bind2; [apply Ag; assumption|]. intro v; apply agree_refl.
    - (* CIf *)
      intros cn [_ IHc] t [IHt _] f [IHf _]. split; [|intros m P g ss e' g' H; simpl in H; discriminate].
      intros m P g ss e' g' H Hann Hm. simpl in H, Hann.
      apply andb_true_iff in Hann as [Hann Hf']. apply andb_true_iff in Hann as [Hc' Ht'].
      destruct (fr_bexp fresh m P cn g) as [[[sc bc] g1]|] eqn:Ec; simpl in H; [|discriminate].
      destruct (fr_expr fresh m no_props t g1) as [[[st et] g2]|] eqn:Et; simpl in H; [|discriminate].
      destruct (fr_expr fresh m no_props f g2) as [[[sf ef] g3]|] eqn:Ef; simpl in H; [|discriminate].
      destruct (fresh tmp g3) as [[x g4]|] eqn:Ex; simpl in H; [|discriminate].
      inversion H; subst ss e' g'; clear H.
      destruct (IHc _ _ _ _ _ _ Ec Hc' Hm) as [Sc [Dc Ac]].
      assert (Hm1 : m_in m g1) by (eapply m_in_mono; [exact Hm|apply Sc]).
      destruct (IHt _ _ _ _ _ _ Et Ht' Hm1) as [St [Dt At]].
      assert (Hm2 : m_in m g2) by (eapply m_in_mono; [exact Hm1|apply St]).
      destruct (IHf _ _ _ _ _ _ Ef Hf' Hm2) as [Sf [Df Af]].
      destruct (fresh_spec _ _ _ _ Ex) as [Hx3 [Hx4 Hi34]].
      assert (Hi13 : incl (g_used g1) (g_used g3)) by (eapply incl_tran; [apply St|apply Sf]).
      assert (Sif : shape g1 g4 [SIf bc x (blk (st ++ [SAssign x et])) (blk (sf ++ [SAssign x ef]))]).
      { apply shape_if; [apply St|apply Sf| |].
        - intro Hin. apply Hx3. apply Hi13. exact Hin.
        - eapply incl_tran; eassumption. }
      split; [eapply shape_app; eassumption|]. split.
      + intros c s1 s2 Hs. simpl. unfold FPCore.lookup. rewrite (Hs x Hx4). reflexivity.
      + intros fuel Pc c r s Hg Hr. rewrite ceval_if_num. simpl eval_expr. rewrite run_app, bind_assoc.
        pose proof (Ac fuel Pc c r s Hg Hr) as Acs.
        destruct (run fuel c s sc) as [s1| |] eqn:E1; cbn [bind] in Acs |- *.
        * assert (Hr1 : rel m r s1).
          { eapply rel_frame; [exact Hr|exact Hm|]. eapply (sh_frame _ _ _ Sc); eassumption. }
          rewrite run_if by (first [apply St|apply Sf]).
          destruct (eval_bexp V N c s1 bc) as [b| |]; destruct (as_bool V (ceval V N fuel Pc r cn)) as [b'| |];
            cbn [bind] in Acs |- *; simpl in Acs; try contradiction; try exact I.
          subst b'. destruct b.
          -- rewrite bind_update_lookup_const. apply At; assumption.
          -- rewrite bind_update_lookup_const. apply Af; assumption.
        * destruct (as_bool V (ceval V N fuel Pc r cn)); simpl in *; tauto.
        * destruct (as_bool V (ceval V N fuel Pc r cn)); simpl in *; tauto.
    - (* CLet *)
      intros star bs IHbs body [IHb _]. split; [|intros m P g ss e' g' H; simpl in H; discriminate].
      intros m P g ss e' g' H Hann Hm. simpl in H, Hann. apply andb_true_iff in Hann as [Hbs Hbody].
      destruct (fr_binds fresh star m m P bs g) as [[[sb m'] g1]|] eqn:Eb; simpl in H; [|discriminate].
      destruct (fr_expr fresh m' P body g1) as [[[s2 e2] g2]|] eqn:E2; simpl in H; [|discriminate].
      inversion H; subst ss e' g'; clear H.
      destruct (IHbs _ _ _ _ _ _ _ _ Eb Hbs Hm Hm) as [Sb [Hm' Ab]].
      destruct (IHb _ _ _ _ _ _ E2 Hbody Hm') as [S2 [D2 A2]].
      split; [eapply shape_app; eassumption|]. split; [exact D2|].
      intros fuel Pc c r s Hg Hr. rewrite ceval_let_num. rewrite run_app, bind_assoc.
      pose proof (Ab fuel Pc c r r s Hg Hr Hr) as Abs.
      destruct (run fuel c s sb) as [s1| |]; destruct (cb star fuel Pc r r bs) as [r'| |];
        cbn [bind]; try contradiction; try exact I.
      apply A2; assumption.
    - (* CWhile *)
      intros star c _ ws _ body _. split; intros m P g ss e' g' H; simpl in H; discriminate.
    - (* CFor *)
      intros star i n _ ws _ body _. split; intros m P g ss e' g' H; simpl in H; discriminate.
    - (* CAnn *)
      intros p e1 [IHe _]. split; [|intros m P g ss e' g' H; simpl in H; discriminate].
      intros m P g ss e' g' H Hann Hm. simpl in H.
      destruct (fr_expr fresh m no_props e1 g) as [[[s1 e1'] g1]|] eqn:E1; simpl in H; [|discriminate].
      destruct (to_context (merge_props p P)) as [c'|] eqn:Ec; simpl in H; [|discriminate].
      destruct (fresh tmp g1) as [[x g2]|] eqn:Ex; simpl in H; [|discriminate].
      inversion H; subst ss e' g'; clear H.
      destruct (fresh_spec _ _ _ _ Ex) as [Hx1 [Hx2 Hi12]].
      simpl in Hann. apply orb_true_iff in Hann as [Hann|Hann].
      + (* a full annotation *)
        apply andb_true_iff in Hann as [Hfull He1].
        destruct (IHe _ _ _ _ _ _ E1 He1 Hm) as [S1 [D1 A1]].
        split; [eapply shape_with; eassumption|]. split.
        * intros c s1' s2 Hs. simpl. unfold FPCore.lookup. rewrite (Hs x Hx2). reflexivity.
        * intros fuel Pc c r s Hg Hr. simpl eval_expr. simpl ceval.
          rewrite run_with by apply S1. rewrite bind_update_lookup_id.
          apply A1; [|exact Hr]. eapply pfull_good; [exact Hfull|exact Ec|apply Hg].
      + (* `:precision integer` around an integer literal *)
        apply andb_true_iff in Hann as [Hip Hnum].
        destruct e1; try discriminate. simpl in E1. inversion E1; subst s1 e1' g1; clear E1.
        destruct (int_props_ctx p P c' Hip Ec) as [Hp [rm Hc']]. subst p c'.
        split; [eapply shape_with; [apply shape_nil|exact Hx1|exact Hi12]|]. split.
        * intros c s1' s2 Hs. simpl. unfold FPCore.lookup. rewrite (Hs x Hx2). reflexivity.
        * intros fuel Pc c r s Hg Hr. simpl eval_expr. simpl ceval.
          rewrite run_with by reflexivity. rewrite bind_update_lookup_id. rewrite run_nil. simpl.
          destruct (int_props_good Pc (proj2 Hg)) as [rm2 E2]. unfold with_ctx.
          change (mkProps (Some (PSym "integer")) None None None) with int_props in E2.
          rewrite E2. simpl. rewrite !Hint. reflexivity.
    - (* LNil *)
      intros star m0 m P g ss m' g' H _ Hm0 Hm. simpl in H. inversion H; subst ss m' g'; clear H.
      split; [apply shape_nil|]. split; [exact Hm|].
      intros fuel Pc c r0 r s Hg Hr0 Hr. rewrite run_nil. unfold cb. destruct star; simpl; exact Hr.
    - (* LCons *)
      intros x e [IHe _] bs IHbs. intros star m0 m P g ss m' g' H Hann Hm0 Hm. simpl in H, Hann.
      apply andb_true_iff in Hann as [He Hbs].
      destruct (fr_expr fresh (if star then m else m0) P e g) as [[[s1 e1] g1]|] eqn:E1; simpl in H; [|discriminate].
      destruct (fresh x g1) as [[y g2]|] eqn:Ey; simpl in H; [|discriminate].
      destruct (fr_binds fresh star m0 ((x, y) :: m) P bs g2) as [[[s2 m''] g3]|] eqn:E2; simpl in H; [|discriminate].
      inversion H; subst ss m' g'; clear H.
      assert (Hme : m_in (if star then m else m0) g) by (destruct star; assumption).
      destruct (IHe _ _ _ _ _ _ E1 He Hme) as [S1 [D1 A1]].
      destruct (fresh_spec _ _ _ _ Ey) as [Hy1 [Hy2 Hi12]].
      assert (Hi02 : incl (g_used g) (g_used g2)) by (eapply incl_tran; [apply S1|exact Hi12]).
      assert (Hm0' : m_in m0 g2) by (eapply m_in_mono; eassumption).
      assert (Hmx : m_in ((x, y) :: m) g2) by (eapply m_in_cons; eassumption).
      destruct (IHbs _ _ _ _ _ _ _ _ E2 Hbs Hm0' Hmx) as [S2 [Hm'' A2]].
      assert (Sy : shape g1 g2 [SAssign y e1]) by (apply shape_assign; assumption).
      split.
      { change (s1 ++ SAssign y e1 :: s2)%list with (s1 ++ ([SAssign y e1] ++ s2))%list.
        eapply shape_app; [exact S1|]. eapply shape_app; eassumption. }
      split; [exact Hm''|].
      intros fuel Pc c r0 r s Hg Hr0 Hr. rewrite cb_cons.
      change (s1 ++ SAssign y e1 :: s2)%list with (s1 ++ ([SAssign y e1] ++ s2))%list. rewrite run_app.
      assert (Hre : rel (if star then m else m0) (if star then r else r0) s) by (destruct star; assumption).
      pose proof (A1 fuel Pc c _ s Hg Hre) as Ae.
      destruct (run fuel c s s1) as [sa| |] eqn:Ea; cbn [bind] in Ae |- *.
      + rewrite run_app, run_assign.
        assert (Hfa : same_on (g_used g) sa s) by (eapply (sh_frame _ _ _ S1); eassumption).
        destruct (eval_expr V N c sa e1) as [v| |];
          destruct (as_num V (ceval V N fuel Pc (if star then r else r0) e)) as [v'| |];
          cbn [bind] in Ae |- *; simpl in Ae; try contradiction; try exact I.
        subst v'. apply A2; [exact Hg| |].
        * eapply rel_frame; [exact Hr0|exact Hm0|].
          eapply same_on_trans; [|exact Hfa]. apply same_on_update.
          intro Hin. apply Hy1. apply (sh_incl _ _ _ S1). exact Hin.
        * eapply rel_cons; [|eapply m_in_mono; [exact Hm|apply S1]|exact Hy1].
          eapply rel_frame; [exact Hr|exact Hm|exact Hfa].
      + destruct (as_num V (ceval V N fuel Pc (if star then r else r0) e)); simpl in *; tauto.
      + destruct (as_num V (ceval V N fuel Pc (if star then r else r0) e)); simpl in *; tauto.
  Qed.

  (* ---------------------------------------------------------------- whole functions *)
  Lemma fr_args_rel : forall xs m g ys m' g',
    fr_args fresh xs m g = Some (ys, m', g') -> m_in m g ->
    m_in m' g' /\
    forall vs r s, rel m r s ->
      match bind_args V xs vs r, bind_args V ys vs s with
      | Ok r', Ok s' => rel m' r' s'
      | Ok _, _ | _, Ok _ => False
      | _, _ => True
      end.
  Proof.
    induction xs as [|x xs IH]; intros m g ys m' g' H Hm; simpl in H.
    - inversion H; subst. split; [exact Hm|]. intros [|v vs] r s Hr; simpl; [exact Hr|exact I].
    - destruct (fresh x g) as [[y g1]|] eqn:Ey; simpl in H; [|discriminate].
      destruct (fr_args fresh xs ((x, y) :: m) g1) as [[[ys' m''] g2]|] eqn:Er; simpl in H; [|discriminate].
      inversion H; subst ys m' g'; clear H.
      destruct (fresh_spec _ _ _ _ Ey) as [Hy1 [Hy2 Hi]].
      destruct (IH _ _ _ _ _ Er (m_in_cons m g g1 x y Hm Hi Hy2)) as [Hm'' Hrel].
      split; [exact Hm''|]. intros [|v vs] r s Hr; simpl; [exact I|].
      apply Hrel. eapply rel_cons; eassumption.
  Qed.

  Lemma merge_props_nil_r : forall p, merge_props p no_props = p.
  Proof. intros [[a|] [b|] [c|] [d|]]; reflexivity. Qed.

  Theorem from_fpcore_sound_gen : forall p f,
    from_fpcore fresh p = Some f -> cprog_ok p = true ->
    forall fuel cdef Pdef args, good Pdef cdef ->
    agree (run_func V N fuel cdef f args) (run_core V N fuel Pdef p args).
  Proof.
    intros p f H Hok fuel cdef Pdef args Hd. unfold from_fpcore in H.
    destruct (fr_args fresh (cp_args p) [] (mkGs [] O)) as [[[ys m] g1]|] eqn:Ea; simpl in H; [|discriminate].
    unfold cprog_ok in Hok. apply andb_true_iff in Hok as [Hpo Hbo].
    assert (Hm0 : m_in [] (mkGs [] O)) by (intros x y Hxy; discriminate).
    destruct (fr_args_rel _ _ _ _ _ _ Ea Hm0) as [Hm Hargs].
    assert (Hr0 : rel [] (empty_env V) (empty_env V)) by (intros x y Hxy; discriminate).
    specialize (Hargs args _ _ Hr0).
    (* the function context *)
    assert (Hctx : forall co, (match p_prec (cp_props p) with
                               | Some _ => match to_context (cp_props p) with Some c => Some (Some c) | None => None end
                               | None => Some None end) = Some co ->
                   good (merge_props (cp_props p) Pdef) (match co with Some c => c | None => cdef end)).
    { intros co Hco. destruct (p_prec (cp_props p)) as [pr|] eqn:Epr.
      - destruct (to_context (cp_props p)) as [c|] eqn:Ec; [|discriminate]. inversion Hco; subst co.
        assert (Hfull : pfull (cp_props p) = true).
        { unfold props_ok in Hpo. destruct (cp_props p) as [[a|] [b|] [c0|] [d|]]; simpl in Epr; try discriminate; exact Hpo. }
        eapply pfull_good; [exact Hfull| |apply Hd]. rewrite merge_props_nil_r. exact Ec.
      - inversion Hco; subst co.
        assert (Hnp : cp_props p = no_props).
        { unfold props_ok in Hpo. destruct (cp_props p) as [[a|] [b|] [c0|] [d|]]; simpl in Epr; try discriminate;
            unfold pfull in Hpo; simpl in Hpo; try discriminate. reflexivity. }
        rewrite Hnp, merge_no_props. exact Hd. }
    destruct (match p_prec (cp_props p) with
              | Some _ => match to_context (cp_props p) with Some c => Some (Some c) | None => None end
              | None => Some None end) as [co|] eqn:Eco; simpl in H; [|discriminate].
    specialize (Hctx co eq_refl).
    destruct (fr_expr fresh m _ (cp_body p) g1) as [[[ss e] g2]|] eqn:Eb; simpl in H; [|discriminate].
    inversion H; subst f; clear H.
    destruct (proj1 (proj1 read_mut (cp_body p)) _ _ _ _ _ _ Eb Hbo Hm) as [Sh [_ Ag]].
    unfold run_func, run_core. simpl f_args. simpl f_ctx. simpl f_body.
    destruct (bind_args V ys args (empty_env V)) as [s| |];
      destruct (bind_args V (cp_args p) args (empty_env V)) as [r| |];
      cbn [bind]; try contradiction; try exact I.
    rewrite ret_of_blk by apply Sh. apply Ag; assumption.
  Qed.

End Read.

(* ------------------------------------------------------------------ the theorems *)
Theorem from_fpcore_sound : forall (V : Type) (N : numops V),
  (forall rm z, n_num N (CMPFixed (-1) rm) z = n_int N z) ->
  forall p f, from_fpcore_fixed p = Some f -> cprog_ok p = true ->
  forall fuel cdef Pdef args, good Pdef cdef ->
  agree (run_func V N fuel cdef f args) (run_core V N fuel Pdef p args).
Proof.
  intros V N Hint p f H. eapply from_fpcore_sound_gen; [exact Hint|exact fresh_fixed_ok|exact H].
Qed.

(* with the Gensym as it is in the code a taken name is reused: the read-back function captures a variable *)
Definition capture_core : cprog :=
  mkCprog ["t"%string; "t0"%string] (mkProps (Some (PSym "binary64")) (Some "nearestEven"%string) None None)
    (CLet false (LCons "t" (CBin BAdd (CVar "t") (CVar "t0")) LNil)
      (CLet false (LCons "t" (CBin BMul (CVar "t") (CVar "t0")) LNil)
        (CIf (CCmp CLe (CVar "t") (CVar "t0")) (CVar "t") (CBin BSub (CVar "t") (CVar "t0"))))).

Theorem from_fpcore_as_coded_refuted :
  exists p f args a b,
    from_fpcore_as_coded p = Some f /\ cprog_ok p = true /\
    run_func Z zops 1 FP64c f args = Ok a /\ run_core Z zops 1 no_props p args = Ok b /\ a <> b.
Proof.
  exists capture_core. eexists. exists [2; 5]. eexists. eexists.
  split; [vm_compute; reflexivity|]. split; [vm_compute; reflexivity|].
  split; [vm_compute; reflexivity|]. split; [vm_compute; reflexivity|]. discriminate.
Qed.

(* the hypotheses of from_fpcore_sound are satisfiable on that core, and there the repaired frontend agrees *)
Example from_fpcore_fixed_witness :
  exists f, from_fpcore_fixed capture_core = Some f /\ cprog_ok capture_core = true /\
    run_func Z zops 1 FP64c f [2; 5] = Ok 30 /\ run_core Z zops 1 no_props capture_core [2; 5] = Ok 30.
Proof.
  eexists. split; [vm_compute; reflexivity|]. split; [vm_compute; reflexivity|].
  split; vm_compute; reflexivity.
Qed.

(* ------------------------------------------------------------------ compile, then read back *)
Lemma pfull_from_context : forall c p, expressible c = true -> from_context_fixed c = Some p -> pfull p = true.
Proof.
  intros c p He Hf. unfold expressible in He. apply andb_true_iff in He as [_ He].
  destruct c as [es nbits rm ov|nmin rm|sg scale nbits rm ov| |t];
    unfold from_context_fixed, from_context_gen in Hf.
  - apply andb_true_iff in He as [Hr _]. destruct (rm_name_expressible _ Hr) as [r Er].
    rewrite Er in Hf. inversion Hf; subst p. pose proof (rm_name_inv _ _ Er) as Hn.
    unfold pfull, round_named; simpl. rewrite Hn.
    destruct (ieee_prec es nbits) eqn:Ep; try reflexivity.
    + apply orb_true_r.
    + exfalso; eapply ieee_prec_not_fixed; eassumption.
  - apply andb_true_iff in He as [Hn Hr]. destruct (rm_name_expressible _ Hr) as [r Er].
    rewrite Er, Hn in Hf. inversion Hf; subst p. pose proof (rm_name_inv _ _ Er) as Hv.
    unfold pfull, round_named; simpl. rewrite Hv. reflexivity.
  - apply andb_true_iff in He as [Hs Hr]. destruct sg; [|discriminate].
    destruct (rm_name_expressible _ Hr) as [r Er].
    rewrite Er in Hf. inversion Hf; subst p. pose proof (rm_name_inv _ _ Er) as Hv.
    unfold pfull, round_named; simpl. rewrite Hv. reflexivity.
  - inversion Hf; subst p. reflexivity.
  - discriminate.
Qed.

Lemma ann_ok_tr_expr : forall e, ann_ok (tr_expr e) = true.
Proof.
  induction e; simpl; try reflexivity; try assumption.
  rewrite IHe1, IHe2; reflexivity.
Qed.

Lemma ann_ok_tr_bexp : forall b, ann_ok (tr_bexp b) = true.
Proof.
  induction b; simpl; try (rewrite !ann_ok_tr_expr; reflexivity);
    try (rewrite IHb1, IHb2; reflexivity); assumption.
Qed.

Lemma ann_ok_wrap : forall sc e, forallb pfull sc = true -> ann_ok e = true -> ann_ok (wrap sc e) = true.
Proof.
  induction sc; intros e Hs He; simpl in *; [exact He|].
  apply andb_true_iff in Hs as [Ha Hs]. rewrite Ha, (IHsc e Hs He). reflexivity.
Qed.

Lemma ann_ok_let1 : forall x e k, ann_ok e = true -> ann_ok k = true -> ann_ok (let1 x e k) = true.
Proof. intros x e k He Hk. unfold let1; simpl. rewrite He, Hk. reflexivity. Qed.

Definition kok (k : option cexpr) : Prop := forall kk, k = Some kk -> ann_ok kk = true.

Lemma tr_ann_ok : forall fx,
  (forall s sc k e, tr_stmt from_context_fixed fx sc s k = Some e -> ctxs_stmt expressible s = true ->
     forallb pfull sc = true -> kok k -> ann_ok e = true) /\
  (forall b sc k e, tr_block from_context_fixed fx sc b k = Some e -> ctxs_block expressible b = true ->
     forallb pfull sc = true -> kok k -> ann_ok e = true).
Proof.
  intro fx. apply stmt_block_ind.
  - (* SAssign *)
    intros x e0 sc k e H _ Hsc Hk. simpl in H. destruct k as [kk|]; [|discriminate].
    inversion H; subst e. apply ann_ok_let1; [|apply Hk; reflexivity].
    apply ann_ok_wrap; [exact Hsc|apply ann_ok_tr_expr].
  - (* SWith *)
    intros c b IH sc k e H Hc Hsc Hk. simpl in H, Hc. apply andb_true_iff in Hc as [Hce Hcb].
    destruct (from_context_fixed c) as [p|] eqn:Ep; simpl in H; [|discriminate].
    pose proof (pfull_from_context c p Hce Ep) as Hp.
    destruct k as [kk|].
    + destruct fx.
      * eapply IH; [exact H|exact Hcb| |exact Hk].
        rewrite forallb_app, Hsc; simpl. rewrite Hp; reflexivity.
      * destruct (tr_block from_context_fixed false sc b (Some kk)) as [e0|] eqn:E; simpl in H; [|discriminate].
        inversion H; subst e. simpl. rewrite Hp. rewrite (IH _ _ _ E Hcb Hsc Hk). reflexivity.
    + destruct (tr_block from_context_fixed fx [] b None) as [e0|] eqn:E; simpl in H; [|discriminate].
      inversion H; subst e. simpl. rewrite Hp.
      rewrite (IH _ _ _ E Hcb eq_refl ltac:(intros kk Hkk; discriminate)). reflexivity.
  - (* SIf *)
    intros cnd x t IHt f IHf sc k e H Hc Hsc Hk. simpl in H, Hc. apply andb_true_iff in Hc as [Hct Hcf].
    destruct k as [kk|]; [|discriminate].
    destruct (tr_block from_context_fixed fx [] t (Some (CVar x))) as [T|] eqn:ET; simpl in H; [|discriminate].
    destruct (tr_block from_context_fixed fx [] f (Some (CVar x))) as [F|] eqn:EF; simpl in H; [|discriminate].
    inversion H; subst e. apply ann_ok_let1; [|apply Hk; reflexivity].
    apply ann_ok_wrap; [exact Hsc|]. simpl.
    rewrite ann_ok_tr_bexp.
    rewrite (IHt _ _ _ ET Hct eq_refl ltac:(intros kk' Hkk; inversion Hkk; reflexivity)).
    rewrite (IHf _ _ _ EF Hcf eq_refl ltac:(intros kk' Hkk; inversion Hkk; reflexivity)). reflexivity.
  - (* SIf1 *)
    intros cnd x t IHt sc k e H Hc Hsc Hk. simpl in H, Hc.
    destruct k as [kk|]; [|discriminate].
    destruct (tr_block from_context_fixed fx [] t (Some (CVar x))) as [T|] eqn:ET; simpl in H; [|discriminate].
    inversion H; subst e. apply ann_ok_let1; [|apply Hk; reflexivity].
    apply ann_ok_wrap; [exact Hsc|]. simpl.
    rewrite ann_ok_tr_bexp.
    rewrite (IHt _ _ _ ET Hc eq_refl ltac:(intros kk' Hkk; inversion Hkk; reflexivity)). reflexivity.
  - (* SWhile *)
    intros cnd x b IHb sc k e H Hc Hsc Hk. simpl in H, Hc.
    destruct k as [kk|]; [|discriminate].
    destruct (tr_block from_context_fixed fx [] b (Some (CVar x))) as [U|] eqn:EU; simpl in H; [|discriminate].
    pose proof (IHb _ _ _ EU Hc eq_refl ltac:(intros kk' Hkk; inversion Hkk; reflexivity)) as HU.
    destruct sc as [|p0 sc'].
    + inversion H; subst e. simpl. rewrite ann_ok_tr_bexp, HU, (Hk kk eq_refl). reflexivity.
    + inversion H; subst e. apply ann_ok_let1; [|apply Hk; reflexivity].
      apply (ann_ok_wrap (p0 :: sc')); [exact Hsc|]. simpl. rewrite ann_ok_tr_bexp, HU. reflexivity.
  - (* SFor *)
    intros i n x b IHb sc k e H Hc Hsc Hk. simpl in H, Hc.
    destruct k as [kk|]; [|discriminate].
    destruct (tr_block from_context_fixed fx [] b (Some (CVar x))) as [U|] eqn:EU; simpl in H; [|discriminate].
    pose proof (IHb _ _ _ EU Hc eq_refl ltac:(intros kk' Hkk; inversion Hkk; reflexivity)) as HU.
    destruct sc as [|p0 sc'].
    + inversion H; subst e. simpl. rewrite ann_ok_tr_expr, HU, (Hk kk eq_refl). reflexivity.
    + inversion H; subst e. apply ann_ok_let1; [|apply Hk; reflexivity].
      apply (ann_ok_wrap (p0 :: sc')); [exact Hsc|]. simpl. rewrite ann_ok_tr_expr, HU. reflexivity.
  - (* SRet *)
    intros e0 sc k e H _ _ _. simpl in H. destruct k; [discriminate|]. inversion H; subst e. apply ann_ok_tr_expr.
  - (* SPass *)
    intros sc k e H _ _ Hk. simpl in H. apply Hk; exact H.
  - (* BNil *)
    intros sc k e H _ _ Hk. simpl in H. apply Hk; exact H.
  - (* BCons *)
    intros s IHs b IHb sc k e H Hc Hsc Hk. simpl in Hc. apply andb_true_iff in Hc as [Hcs Hcb].
    destruct k as [kk|].
    + rewrite tr_block_cons_some in H.
      destruct (tr_block from_context_fixed fx sc b (Some kk)) as [e'|] eqn:E; simpl in H; [|discriminate].
      eapply IHs; [exact H|exact Hcs|exact Hsc|].
      intros k' Hk'; inversion Hk'; subst k'. eapply IHb; eassumption.
    + destruct b as [|s2 b2].
      * simpl in H. eapply IHs; eassumption.
      * change (obind (tr_block from_context_fixed fx sc (BCons s2 b2) None)
                  (fun e' => tr_stmt from_context_fixed fx sc s (Some e')) = Some e) in H.
        destruct (tr_block from_context_fixed fx sc (BCons s2 b2) None) as [e'|] eqn:E; simpl in H; [|discriminate].
        eapply IHs; [exact H|exact Hcs|exact Hsc|].
        intros k' Hk'; inversion Hk'; subst k'. eapply IHb; eassumption.
Qed.

Lemma to_fpcore_fixed_ok : forall f p,
  to_fpcore_fixed f = Some p -> ctxs_func expressible f = true -> cprog_ok p = true.
Proof.
  intros f p H Hc. unfold to_fpcore_fixed, to_fpcore in H.
  destruct (tr_block from_context_fixed true [] (f_body f) None) as [body|] eqn:Eb; simpl in H; [|discriminate].
  unfold ctxs_func in Hc. apply andb_true_iff in Hc as [Hcf Hcb].
  assert (Hbody : ann_ok body = true).
  { eapply (proj2 (tr_ann_ok true)); [exact Eb|exact Hcb|reflexivity|intros kk Hkk; discriminate]. }
  destruct (f_ctx f) as [c|].
  - destruct (from_context_fixed c) as [P|] eqn:EP; simpl in H; [|discriminate].
    inversion H; subst p. unfold cprog_ok; simpl. rewrite Hbody.
    pose proof (pfull_from_context c P Hcf EP) as HP. unfold props_ok.
    destruct P as [[a|] [b|] [c0|] [d|]]; try exact (andb_true_intro (conj HP eq_refl)); reflexivity.
  - simpl in H. inversion H; subst p. unfold cprog_ok; simpl. exact Hbody.
Qed.

(* compiling and re-reading a function does not change its behaviour *)
Theorem roundtrip_sound : forall (V : Type) (N : numops V),
  (forall rm z, n_num N (CMPFixed (-1) rm) z = n_int N z) ->
  forall f p f', to_fpcore_fixed f = Some p -> ctxs_func expressible f = true ->
  from_fpcore_fixed p = Some f' ->
  forall fuel cdef Pdef args, good Pdef cdef ->
  agree (run_func V N fuel cdef f' args) (run_func V N fuel cdef f args).
Proof.
  intros V N Hint f p f' Hc He Hr fuel cdef Pdef args Hd.
  rewrite <- (to_fpcore_sound V N Hint f p Hc He fuel cdef Pdef args Hd).
  apply (from_fpcore_sound V N Hint p f' Hr (to_fpcore_fixed_ok f p Hc He) fuel cdef Pdef args Hd).
Qed.

(* the hypotheses of roundtrip_sound are satisfiable: the known witness compiles (repaired backend) and reads back *)
Example roundtrip_witness :
  exists p f', to_fpcore_fixed witness_func = Some p /\ ctxs_func expressible witness_func = true /\
    from_fpcore_fixed p = Some f' /\
    run_func Z zops 1 FP64c f' witness_args = run_func Z zops 1 FP64c witness_func witness_args.
Proof.
  eexists. eexists. split; [vm_compute; reflexivity|]. split; [vm_compute; reflexivity|].
  split; vm_compute; reflexivity.
Qed.
