(* C11, decision logic of the C++ backend: the storage ladder picks a machine type that
   represents every member of the inferred format, and the first such; narrowing is
   refused unless contained; integer results that fit cannot wrap; the rounding-mode
   table is right. *)
From Coq Require Import ZArith List Bool Lia Reals Psatz Lra.
From Flocq Require Import Core.Zaux Core.Raux Core.Defs Core.Digits Core.Float_prop
  Core.Generic_fmt Core.FLX Core.FLT Core.Round_NE Calc.Operations.
From FpyV Require Import Num.RealFloat Num.RealFloatProofs Num.Float Num.FloatProofs
  Analysis.AbsFormat Analysis.AbsFormatProofs Backend.Storage.
Import ListNotations.
Open Scope Z_scope.

(* ---------------------------------------------------------------- what a machine type holds
   (independent of the ladder: <cstdint> ranges, IEEE 754 binary32 / binary64) *)
Definition int_range (t : cppscalar) : option (Z * Z) :=
  match t with
  | CU8 => Some (0, 255) | CU16 => Some (0, 65535) | CU32 => Some (0, 4294967295)
  | CU64 => Some (0, 18446744073709551615)
  | CS8 => Some (-128, 127) | CS16 => Some (-32768, 32767) | CS32 => Some (-2147483648, 2147483647)
  | CS64 => Some (-9223372036854775808, 9223372036854775807)
  | _ => None
  end.

(* precision, exponent of the least subnormal, exponent of the ulp of the largest finite value *)
Definition float_params (t : cppscalar) : option (Z * Z * Z) :=
  match t with CF32 => Some (24, -149, 104) | CF64 => Some (53, -1074, 971) | _ => None end.

Definition int_repr (lo hi : Z) (v : fl) : Prop :=
  match v with
  | FFin x => rf_wf x /\ (rc x = 0 -> rs x = false) /\ exists z, R2R x = IZR z /\ lo <= z <= hi
  | _ => False                     (* no NaN, no infinity; and no negative zero (above) *)
  end.

Definition float_repr (p emin me : Z) (v : fl) : Prop :=
  match v with
  | FFin x => rf_wf x /\ generic_format radix2 (FLT_exp emin p) (R2R x) /\
              (Rabs (R2R x) <= IZR (2 ^ p - 1) * bpow radix2 me)%R
  | _ => True
  end.

Definition machine_repr (t : cppscalar) (v : fl) : Prop :=
  match int_range t, float_params t with
  | Some (lo, hi), _ => int_repr lo hi v
  | None, Some (p, emin, me) => float_repr p emin me v
  | None, None => False
  end.

(* ---------------------------------------------------------------- rung formats <-> machine types *)
Lemma R2R_int s c : R2R (RF s 0 c) = IZR (if s then - c else c).
Proof. unfold R2R, rf_m, F2R; simpl. lra. Qed.

Lemma F2R_int m ex : 0 <= ex -> F2R (Float radix2 m ex) = IZR (m * 2 ^ ex).
Proof.
  intros H. rewrite (F2R_change_exp radix2 0 m ex H). unfold F2R; simpl. rewrite Z.sub_0_r.
  change (Z.pow_pos 2) with (Z.pow 2). lra.
Qed.

Lemma gamma_int A lo hi P N : lo <= 0 <= hi ->
  a_exp A = EFin 0 -> a_pos A = BFin P -> a_neg A = BFin N -> R2R P = IZR hi -> R2R N = IZR lo ->
  a_pinf A = false -> a_ninf A = false -> a_nan A = false -> a_nz A = false ->
  forall v, gamma A v -> int_repr lo hi v.
Proof.
  intros Hr He Hp Hn EP EN F1 F2 F3 F4 v G. destruct v as [x|s|s]; simpl in G.
  - destruct G as [Wx G]. simpl. split; [exact Wx|].
    destruct (Z.eqb_spec (rc x) 0) as [Z0|Z0].
    + split.
      * intros _. destruct (rs x); [|reflexivity]. rewrite F4 in G. specialize (G eq_refl). discriminate.
      * exists 0. rewrite R2R_zero by assumption. split; [reflexivity|lia].
    + split; [intros C; contradiction|].
      destruct G as ((m & ex & E & _ & X) & L & Gn). rewrite He in X. simpl in X.
      rewrite Hp in L. rewrite Hn in Gn. simpl in L, Gn.
      exists (m * 2 ^ ex). rewrite E, F2R_int in * by assumption. split; [reflexivity|].
      rewrite EP in L. rewrite EN in Gn. apply le_IZR in L. apply le_IZR in Gn. lia.
  - destruct s; congruence.
  - congruence.
Qed.

Lemma int_gamma A lo hi P N : rf_wf P -> rf_wf N ->
  a_prec A = EPInf -> a_exp A = EFin 0 -> a_pos A = BFin P -> a_neg A = BFin N ->
  R2R P = IZR hi -> R2R N = IZR lo ->
  forall v, int_repr lo hi v -> gamma A v.
Proof.
  intros WP WN Hq He Hp Hn EP EN v H. destruct v as [x|s|s]; simpl in H; try contradiction.
  destruct H as (Wx & Hz & z & E & R). simpl. split; [exact Wx|].
  destruct (Z.eqb_spec (rc x) 0) as [Z0|Z0].
  - intros S. rewrite (Hz Z0) in S. discriminate.
  - split; [|split].
    + exists z, 0. rewrite Hq, He. simpl. split; [|split; [exact I|lia]].
      rewrite E. unfold F2R; simpl. lra.
    + rewrite Hp. simpl. rewrite E, EP. apply IZR_le. lia.
    + rewrite Hn. simpl. rewrite E, EN. apply IZR_le. lia.
Qed.

Lemma maxval_R p me s : 0 <= p -> R2R (RF s me (2 ^ p - 1)) =
  (if s then - (IZR (2 ^ p - 1) * bpow radix2 me) else IZR (2 ^ p - 1) * bpow radix2 me)%R.
Proof.
  intros Hp. unfold R2R, rf_m, F2R; simpl. destruct s; simpl; [rewrite opp_IZR|]; lra.
Qed.

Lemma gamma_float p emin me : 1 <= p -> forall v, gamma (af_ieee p emin me) v -> float_repr p emin me v.
Proof.
  intros Hp v G. destruct v as [x|s|s]; simpl; auto.
  destruct G as [Wx G]. split; [exact Wx|].
  assert (W : af_wf (af_ieee p emin me)).
  { unfold af_wf, af_ieee; simpl. pose proof (pow2_pos p ltac:(lia)).
    repeat split; try congruence; try (unfold rf_wf; simpl; lia); auto.
    - rewrite maxval_R by lia. apply Rmult_le_pos; [apply IZR_le; lia|apply bpow_ge_0].
    - rewrite maxval_R by lia. pose proof (bpow_ge_0 radix2 me).
      assert (0 <= IZR (2 ^ p - 1))%R by (apply IZR_le; lia). nra. }
  assert (Fin : fin_in (af_ieee p emin me) (R2R x)).
  { destruct (Z.eqb_spec (rc x) 0) as [Z0|Z0]; [|exact G]. rewrite R2R_zero by assumption. apply fin_in_zero. exact W. }
  destruct Fin as ((m & ex & E & P & X) & L & Gn). simpl in P, X, L, Gn.
  rewrite maxval_R in L, Gn by lia. split.
  - assert (Pg : Prec_gt_0 p) by (unfold Prec_gt_0; lia).
    apply generic_format_FLT. apply (FLT_spec radix2 _ _ _ (Float radix2 m ex)); simpl; auto.
  - unfold Rabs. destruct (Rcase_abs (R2R x)); lra.
Qed.

Lemma float_gamma p emin me : 1 <= p -> forall v, float_repr p emin me v -> gamma (af_ieee p emin me) v.
Proof.
  intros Hp v H. destruct v as [x|s|s]; simpl; auto; [|destruct s; reflexivity].
  destruct H as (Wx & Gf & B). split; [exact Wx|].
  destruct (Z.eqb_spec (rc x) 0) as [Z0|Z0]; [reflexivity|].
  assert (Pg : Prec_gt_0 p) by (unfold Prec_gt_0; lia).
  apply FLT_format_generic in Gf; [|exact Pg]. destruct Gf as [[m ex] E P X]. simpl in P, X.
  split; [|split]; simpl.
  - exists m, ex. auto.
  - rewrite maxval_R by lia. unfold Rabs in B. destruct (Rcase_abs (R2R x)); lra.
  - rewrite maxval_R by lia. unfold Rabs in B. destruct (Rcase_abs (R2R x)); lra.
Qed.

Lemma uint_sound n hi : 0 <= n -> hi = 2 ^ n - 1 -> forall v, gamma (af_uint n) v -> int_repr 0 hi v.
Proof.
  intros Hn -> v. pose proof (pow2_pos n Hn).
  apply (gamma_int (af_uint n) 0 (2 ^ n - 1) (RF false 0 (2 ^ n - 1)) (RF false 0 0)); try reflexivity; try lia;
    rewrite R2R_int; reflexivity.
Qed.
Lemma sint_sound n lo hi : 1 <= n -> hi = 2 ^ (n - 1) - 1 -> lo = - 2 ^ (n - 1) ->
  forall v, gamma (af_sint n) v -> int_repr lo hi v.
Proof.
  intros Hn -> -> v. pose proof (pow2_pos (n - 1) ltac:(lia)).
  apply (gamma_int (af_sint n) _ _ (RF false 0 (2 ^ (n - 1) - 1)) (RF true 0 (2 ^ (n - 1)))); try reflexivity; try lia;
    rewrite R2R_int; reflexivity.
Qed.
Lemma uint_complete n hi : 0 <= n -> hi = 2 ^ n - 1 -> forall v, int_repr 0 hi v -> gamma (af_uint n) v.
Proof.
  intros Hn -> v. pose proof (pow2_pos n Hn).
  apply (int_gamma (af_uint n) 0 (2 ^ n - 1) (RF false 0 (2 ^ n - 1)) (RF false 0 0)); try reflexivity;
    try (unfold rf_wf; simpl; lia); rewrite R2R_int; reflexivity.
Qed.
Lemma sint_complete n lo hi : 1 <= n -> hi = 2 ^ (n - 1) - 1 -> lo = - 2 ^ (n - 1) ->
  forall v, int_repr lo hi v -> gamma (af_sint n) v.
Proof.
  intros Hn -> -> v. pose proof (pow2_pos (n - 1) ltac:(lia)).
  apply (int_gamma (af_sint n) _ _ (RF false 0 (2 ^ (n - 1) - 1)) (RF true 0 (2 ^ (n - 1)))); try reflexivity;
    try (unfold rf_wf; simpl; lia); rewrite R2R_int; reflexivity.
Qed.

(* every rung: its format is well formed, of finite exponent, and describes exactly the machine type *)
Lemma rung_spec t L : In (t, L) ladder ->
  af_wf L /\ (exists e, a_exp L = EFin e) /\ (forall v, gamma L v <-> machine_repr t v).
Proof.
  unfold ladder. simpl. intros H.
  repeat (destruct H as [H|H]; [injection H as <- <-|]); try contradiction;
    (split; [apply af_wfb_wf; vm_compute; reflexivity|split; [eexists; reflexivity|]]);
    intros v; unfold machine_repr; simpl int_range; simpl float_params; cbv iota; split.
  all: try (apply uint_sound; [lia|reflexivity]).
  all: try (apply uint_complete; [lia|reflexivity]).
  all: try (apply sint_sound; [lia|reflexivity|reflexivity]).
  all: try (apply sint_complete; [lia|reflexivity|reflexivity]).
  all: try (apply gamma_float; lia).
  all: try (apply float_gamma; lia).
Qed.

Lemma cpp_eqb_eq a b : cpp_eqb a b = true -> a = b.
Proof. destruct a, b; simpl; intros; try discriminate; reflexivity. Qed.

Lemma lookup_in l t L : lookup l t = Some L -> In (t, L) l.
Proof.
  induction l as [|[t' L'] r IH]; simpl; [discriminate|].
  destruct (cpp_eqb t' t) eqn:E; [intros [= <-]; apply cpp_eqb_eq in E; subst; auto|auto].
Qed.

(* ---------------------------------------------------------------- containment in a given type *)
Theorem bound_fits_in_scalar_sound A t v : af_wf A ->
  bound_fits_in_scalar A t = true -> gamma A v -> machine_repr t v.
Proof.
  intros WA H G. unfold bound_fits_in_scalar in H.
  assert (HL : exists L, lookup ladder t = Some L /\ af_le A L = true).
  { destruct t; try discriminate; destruct (lookup ladder _) as [L|]; try discriminate; eauto. }
  destruct HL as (L & HL & Hle). apply lookup_in in HL.
  destruct (rung_spec t L HL) as (WL & (e & Ee) & Hiff).
  apply Hiff. apply (le_sound_partial A L v WA WL); auto.
  unfold le_ok. rewrite Ee. destruct (a_prec L); exact I.
Qed.

(* ---------------------------------------------------------------- the ladder walk *)
Lemma first_fit_spec l A t : first_fit l A = Some t ->
  exists l1 L l2, l = l1 ++ (t, L) :: l2 /\ af_le A L = true /\
                  forall t' L', In (t', L') l1 -> af_le A L' = false.
Proof.
  induction l as [|[t0 L0] r IH]; simpl; [discriminate|].
  destruct (af_le A L0) eqn:E.
  - intros [= <-]. exists [], L0, r. split; [reflexivity|]. split; [exact E|]. intros ? ? [].
  - intros H. destruct (IH H) as (l1 & L & l2 & -> & Hle & Hf).
    exists ((t0, L0) :: l1), L, l2. split; [reflexivity|]. split; [exact Hle|].
    intros t' L' Hin. simpl in Hin. destruct Hin as [Heq|Hin]; [injection Heq as <- <-; exact E|eauto].
Qed.

(* the chosen type represents every member of the inferred format, and no earlier
   (smaller) rung contains the format.  The int64_t fall-back for the unbounded integer
   format (SFallbackS64) deliberately ignores the magnitude and is not covered. *)
Theorem storage_contains A b t : af_wf A -> choose_storage_scalar A b = SLadder t ->
  (forall v, gamma A v -> machine_repr t v) /\
  exists l1 L l2, ladder = l1 ++ (t, L) :: l2 /\ af_le A L = true /\
                  forall t' L', In (t', L') l1 -> af_le A L' = false.
Proof.
  intros WA H. unfold choose_storage_scalar in H.
  destruct (first_fit ladder A) as [t0|] eqn:F.
  - injection H as <-. pose proof (first_fit_spec ladder A t0 F) as (l1 & L & l2 & El & Hle & Hf).
    split; [|exists l1, L, l2; auto].
    assert (Hin : In (t0, L) ladder) by (rewrite El; apply in_or_app; right; left; reflexivity).
    destruct (rung_spec t0 L Hin) as (WL & (e & Ee) & Hiff).
    intros v G. apply Hiff. apply (le_sound_partial A L v WA WL); auto.
    unfold le_ok. rewrite Ee. destruct (a_prec L); exact I.
  - destruct (lookup ladder CS64); [destruct (b && specials_le A a)|]; discriminate.
Qed.

(* the fall-back at least never stores a NaN, an infinity or a negative zero in int64_t *)
Theorem fallback_specials A b v : choose_storage_scalar A b = SFallbackS64 -> gamma A v ->
  match v with FFin x => rc x = 0 -> rs x = false | _ => False end.
Proof.
  unfold choose_storage_scalar. destruct (first_fit ladder A); [intros C; discriminate C|].
  simpl lookup. cbv iota beta. destruct (b && specials_le A (af_sint 64)) eqn:E; [|intros C; discriminate C]. intros _.
  apply andb_prop in E as [_ E]. unfold specials_le in E. apply negb_true_iff in E.
  apply orb_false_elim in E as [E S4]. apply orb_false_elim in E as [E S3]. apply orb_false_elim in E as [S1 S2].
  simpl in S1, S2, S3, S4. rewrite andb_true_r in S1, S2, S3, S4.
  destruct v as [x|s|s]; simpl.
  - intros [_ G] Z0. apply Z.eqb_eq in Z0. rewrite Z0 in G. destruct (rs x); [|reflexivity].
    rewrite (G eq_refl) in S4. discriminate.
  - destruct s; congruence.
  - congruence.
Qed.

(* ---------------------------------------------------------------- implicit conversions between types *)
Theorem scalar_fits_in_sound a b v : a <> CBOOL -> b <> CBOOL ->
  scalar_fits_in a b = true -> machine_repr a v -> machine_repr b v.
Proof.
  intros Na Nb H M. unfold scalar_fits_in in H.
  assert (HL : exists x y, lookup ladder a = Some x /\ lookup ladder b = Some y /\ af_le x y = true).
  { destruct a; try congruence; destruct b; try congruence; simpl in H |- *; eauto. }
  destruct HL as (x & y & Hx & Hy & Hle). apply lookup_in in Hx, Hy.
  destruct (rung_spec a x Hx) as (Wx & _ & Ix). destruct (rung_spec b y Hy) as (Wy & (e & Ee) & Iy).
  apply Iy. apply (le_sound_partial x y v Wx Wy); auto.
  - unfold le_ok. rewrite Ee. destruct (a_prec y); exact I.
  - apply Ix. exact M.
Qed.

(* ---------------------------------------------------------------- integer operations cannot wrap *)
(* if the exact format of a sum / difference is given a ladder type, the exact result of
   the operation on any members is a value of that type -- for an integer type: an integer
   within its range, so the machine operation on a type that wide does not wrap *)
Theorem int_add_exact A B C b t x y : af_wf A -> af_wf B -> af_add A B = Ok C ->
  choose_storage_scalar C b = SLadder t -> gamma A x -> gamma B y -> machine_repr t (fl_add x y).
Proof.
  intros WA WB H Hc Gx Gy. apply (proj1 (storage_contains C b t (add_wf_fmt A B C WA WB H) Hc)).
  exact (add_sound A B C x y WA WB H Gx Gy).
Qed.

Theorem int_sub_exact A B C b t x y : af_wf A -> af_wf B -> af_sub A B = Ok C ->
  choose_storage_scalar C b = SLadder t -> gamma A x -> gamma B y -> machine_repr t (fl_sub x y).
Proof.
  intros WA WB H Hc Gx Gy. apply (proj1 (storage_contains C b t (sub_wf_fmt A B C WA WB H) Hc)).
  exact (sub_sound A B C x y WA WB H Gx Gy).
Qed.

(* product: partial, inheriting the refuted arms of C14 (a -0 product of formats without a
   negative zero -- which is exactly how (-2) * 0 ends up in an int16_t -- and infinite bounds) *)
Theorem int_mul_exact_partial A B C b t x y : af_wf A -> af_wf B -> af_wf C -> af_mul A B = Ok C ->
  fin_bounds A -> fin_bounds B ->
  choose_storage_scalar C b = SLadder t -> gamma A x -> gamma B y ->
  (is_negzero (fl_mul x y) = true -> a_nz A || a_nz B = true) ->
  machine_repr t (fl_mul x y).
Proof.
  intros WA WB WC H FA FB Hc Gx Gy Hz. apply (proj1 (storage_contains C b t WC Hc)).
  exact (mul_sound_partial A B C x y WA WB H FA FB Gx Gy Hz).
Qed.

Theorem int_mul_exact_refuted : exists A B C t x y,
  af_wf A /\ af_wf B /\ af_wf C /\ af_mul A B = Ok C /\ choose_storage_scalar C false = SLadder t /\
  gamma A x /\ gamma B y /\ ~ machine_repr t (fl_mul x y).
Proof.
  exists A_sint8, A_sint8,
    (AF (EFin 16) (EFin 0) (BFin (RF false 0 16384)) (BFin (RF true 0 16256)) false false false false),
    CS16, (FFin (RF true 0 2)), (FFin (RF false 0 0)).
  split; [wf_by_compute|]. split; [wf_by_compute|]. split; [wf_by_compute|].
  split; [vm_compute; reflexivity|]. split; [vm_compute; reflexivity|].
  split; [mem_by_compute|]. split; [mem_by_compute|].
  unfold machine_repr; simpl. intros (_ & Hz & _). specialize (Hz eq_refl). discriminate.
Qed.

(* ---------------------------------------------------------------- rounding modes *)
(* what the four <cfenv> modes do (ISO C 7.6 / IEEE 754 roundTiesToEven, roundTowardZero,
   roundTowardPositive, roundTowardNegative), as Flocq integer roundings *)
Definition fe_rnd (f : femode) : R -> Z :=
  match f with FE_TONEAREST => ZnearestE | FE_TOWARDZERO => Ztrunc | FE_UPWARD => Zceil | FE_DOWNWARD => Zfloor end.

(* what the FPy rounding modes mean for the four IEEE modes (DESIGN.md N1: rnd_of) *)
Definition ieee_rnd (rm : rmode) : option (R -> Z) :=
  match rm with RNE => Some ZnearestE | RTZ => Some Ztrunc | RTP => Some Zceil | RTN => Some Zfloor | _ => None end.

Theorem rm_table_correct : forall rm,
  match fe_of_rm rm with
  | Some f => ieee_rnd rm = Some (fe_rnd f)
  | None => ieee_rnd rm = None /\ ~ In rm fp_rms
  end.
Proof.
  intros rm. destruct rm; simpl; auto; split; auto; intros H; repeat (destruct H as [H|H]; [discriminate|]); exact H.
Qed.

(* only contexts whose rounding mode fesetround can express are dispatched natively, and
   their formats are exactly the float rungs of the ladder *)
Theorem native_fp_ctxs : forall es nbits rm, In (es, nbits, rm) fp_ctxs ->
  fe_of_rm rm <> None /\
  exists t, (t = CF32 \/ t = CF64) /\
    let '(p, emin, me) := ieee_params es nbits in
    In (t, af_ieee p emin me) ladder /\ float_params t = Some (p, emin, me).
Proof.
  intros es nbits rm H. unfold fp_ctxs, fp_bases, fp_rms in H. simpl in H.
  repeat (destruct H as [H|H]; [injection H as <- <- <-; split; [discriminate|];
    first [exists CF32; split; [left; reflexivity|]; vm_compute; split; [tauto|reflexivity]
          |exists CF64; split; [right; reflexivity|]; vm_compute; split; [tauto|reflexivity]]|]).
  contradiction.
Qed.

(* ---------------------------------------------------------------- loop counters cannot wrap *)
Lemma range_len_nonneg start stop step : 0 <= range_len start stop step.
Proof.
  unfold range_len. destruct (Z.gtb_spec step 0).
  - destruct (Z.ltb_spec start stop); [apply Z.div_pos; lia|lia].
  - destruct (Z.ltb_spec step 0); [|lia].
    destruct (Z.ltb_spec stop start); [apply Z.div_pos; lia|lia].
Qed.

Lemma counter_fmt_wf b : 0 <= b -> af_wf (counter_fmt b).
Proof.
  intros Hb. unfold af_wf, counter_fmt; simpl. repeat split; try congruence; try (unfold rf_wf; simpl; lia).
  - rewrite R2R_int. apply IZR_le. lia.
  - rewrite R2R_int. apply IZR_le. lia.
Qed.

Lemma z2fl_gamma b z : 0 <= b -> - b <= z <= b -> gamma (counter_fmt b) (z2fl z).
Proof.
  intros Hb Hz.
  apply (int_gamma (counter_fmt b) (- b) b (RF false 0 b) (RF true 0 b)); try reflexivity;
    try (unfold rf_wf; simpl; lia); try (rewrite R2R_int; reflexivity).
  unfold z2fl, int_repr. split; [unfold rf_wf; simpl; lia|]. split.
  - simpl. intros H0. destruct (Z.ltb_spec z 0); [lia|reflexivity].
  - exists z. split; [|lia]. rewrite R2R_int. f_equal. destruct (Z.ltb_spec z 0); lia.
Qed.

(* every value the C-style counter takes -- start + k * step for k = 0 .. len(range), the last one being the
   overshoot past `stop` -- is a value of the chosen counter type: `i += step` never wraps *)
Theorem counter_no_wrap start stop step t k : step <> 0 ->
  range_counter_scalar start stop step = SLadder t ->
  0 <= k <= range_len start stop step ->
  machine_repr t (z2fl (start + k * step)).
Proof.
  intros Hs Hc Hk. unfold range_counter_scalar in Hc.
  set (b := counter_bound start stop step) in *.
  assert (Hb : 0 <= b) by (unfold b, counter_bound; lia).
  apply (proj1 (storage_contains (counter_fmt b) false t (counter_fmt_wf b Hb) Hc)).
  apply z2fl_gamma; [exact Hb|].
  unfold b, counter_bound. set (n := range_len start stop step) in *.
  assert (0 <= k * step <= n * step \/ n * step <= k * step <= 0) by nia.
  lia.
Qed.
