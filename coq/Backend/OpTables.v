(* C12 — operator tables of backend/fpc.py and frontend/fpc.py.

   DEFINITIONS ONLY.

   `spec_*` pairs every FPCore operator / constant name (FPBench 2.0, as
   titanfp's AST prints it) with the FPy node class that has the same meaning
   (FPy's nodes follow the C / IEEE names: RoundInt = C99 `round`, ties away;
   NearbyInt = `nearbyint`, current rounding mode; Abs = `fabs`; ...).
   The tables of the code are data: the harness regenerates them from /repo
   on every run (build/C12/C12Tables.v) and proves, by computation, that the
   backend maps every node class to the like-named operator and the frontend
   every operator name to the like-named node class (`fwd_ok`, `bwd_ok`),
   which by `tables_roundtrip` (OpTablesProofs.v) makes the frontend table
   invert the backend table. *)
From Coq Require Import List String Bool.
Import ListNotations.
Open Scope string_scope.

(* (FPCore name, FPy node class) *)
Definition spec_unary : list (string * string) := [
  ("fabs", "Abs"); ("sqrt", "Sqrt"); ("-", "Neg"); ("cbrt", "Cbrt");
  ("ceil", "Ceil"); ("floor", "Floor"); ("nearbyint", "NearbyInt"); ("round", "RoundInt"); ("trunc", "Trunc");
  ("acos", "Acos"); ("asin", "Asin"); ("atan", "Atan"); ("cos", "Cos"); ("sin", "Sin"); ("tan", "Tan");
  ("acosh", "Acosh"); ("asinh", "Asinh"); ("atanh", "Atanh"); ("cosh", "Cosh"); ("sinh", "Sinh"); ("tanh", "Tanh");
  ("exp", "Exp"); ("exp2", "Exp2"); ("expm1", "Expm1");
  ("log", "Log"); ("log10", "Log10"); ("log1p", "Log1p"); ("log2", "Log2");
  ("erf", "Erf"); ("erfc", "Erfc"); ("lgamma", "Lgamma"); ("tgamma", "Tgamma");
  ("isfinite", "IsFinite"); ("isinf", "IsInf"); ("isnan", "IsNan"); ("isnormal", "IsNormal"); ("signbit", "Signbit");
  ("not", "Not"); ("cast", "Cast"); ("range", "Range1"); ("dim", "Dim")
].

Definition spec_binary : list (string * string) := [
  ("+", "Add"); ("-", "Sub"); ("*", "Mul"); ("/", "Div");
  ("copysign", "Copysign"); ("fdim", "Fdim"); ("fmod", "Fmod"); ("remainder", "Remainder");
  ("hypot", "Hypot"); ("atan2", "Atan2"); ("pow", "Pow")
].

Definition spec_ternary : list (string * string) := [("fma", "Fma")].

Definition spec_nary : list (string * string) := [("or", "Or"); ("and", "And")].

Definition spec_compare : list (string * string) := [
  ("<", "LT"); ("<=", "LE"); (">=", "GE"); (">", "GT"); ("==", "EQ"); ("!=", "NE")
].

Definition spec_const : list (string * string) := [
  ("TRUE", "BoolVal"); ("FALSE", "BoolVal");
  ("NAN", "ConstNan"); ("INFINITY", "ConstInf"); ("PI", "ConstPi"); ("E", "ConstE");
  ("LOG2E", "ConstLog2E"); ("LOG10E", "ConstLog10E"); ("LN2", "ConstLn2");
  ("PI_2", "ConstPi_2"); ("PI_4", "ConstPi_4"); ("M_1_PI", "Const1_Pi"); ("M_2_PI", "Const2_Pi");
  ("M_2_SQRTPI", "Const2_SqrtPi"); ("SQRT2", "ConstSqrt2"); ("SQRT1_2", "ConstSqrt1_2")
].

Fixpoint assoc_s (l : list (string * string)) (k : string) : option string :=
  match l with
  | [] => None
  | (a, b) :: l' => if String.eqb a k then Some b else assoc_s l' k
  end.

Definition swap (l : list (string * string)) : list (string * string) := map (fun p => (snd p, fst p)) l.

Definition pair_in (l : list (string * string)) (a b : string) : bool :=
  existsb (fun p => String.eqb (fst p) a && String.eqb (snd p) b) l.

(* frontend table (FPCore name -> node class): every entry is a spec pair *)
Definition bwd_ok (spec front : list (string * string)) : bool :=
  forallb (fun p => pair_in spec (fst p) (snd p)) front.

(* backend table (node class -> FPCore name): every entry is a spec pair *)
Definition fwd_ok (spec back : list (string * string)) : bool :=
  forallb (fun p => pair_in spec (snd p) (fst p)) back.

(* every spec name is handled by the table *)
Definition covers (spec : list (string * string)) (names : list string) : bool :=
  forallb (fun p => existsb (String.eqb (fst p)) names) spec.

(* a name has one class in the spec *)
Fixpoint functional (l : list (string * string)) : bool :=
  match l with
  | [] => true
  | (a, b) :: l' =>
      forallb (fun p => negb (String.eqb (fst p) a) || String.eqb (snd p) b) l' && functional l'
  end.

Definition spec_ok (spec : list (string * string)) : bool :=
  functional spec && functional (swap spec).

(* the frontend's key for unary minus is titanfp's class name, tested by hand (`e.name == '-'`) *)
Definition bad_entries (spec t : list (string * string)) (fwd : bool) : list (string * string) :=
  filter (fun p => negb (if fwd then pair_in spec (snd p) (fst p) else pair_in spec (fst p) (snd p))) t.
