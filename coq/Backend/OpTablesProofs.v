(* C12 — operator tables: if both tables consist of spec pairs and the spec
   is one-to-one, the frontend table inverts the backend table. *)
From Coq Require Import List String Bool.
From FpyV Require Import Backend.OpTables.
Import ListNotations.
Open Scope string_scope.

Lemma pair_in_In : forall l a b, pair_in l a b = true <-> In (a, b) l.
Proof.
  induction l as [|[x y] l IH]; intros a b; unfold pair_in in *; simpl.
  - split; [discriminate|tauto].
  - rewrite orb_true_iff, IH, andb_true_iff, !String.eqb_eq. split.
    + intros [[H1 H2]|H]; [left; subst; reflexivity|right; exact H].
    + intros [H|H]; [inversion H; left; split; reflexivity|right; exact H].
Qed.

Lemma functional_spec : forall l, functional l = true ->
  forall a b b', In (a, b) l -> In (a, b') l -> b = b'.
Proof.
  induction l as [|[x y] l IH]; intros Hf a b b' H1 H2; simpl in *; [tauto|].
  apply andb_true_iff in Hf as [Hh Ht]. rewrite forallb_forall in Hh.
  destruct H1 as [H1|H1], H2 as [H2|H2].
  - inversion H1; inversion H2; subst; reflexivity.
  - inversion H1; subst. specialize (Hh _ H2). simpl in Hh. rewrite String.eqb_refl in Hh.
    simpl in Hh. apply String.eqb_eq in Hh. symmetry; exact Hh.
  - inversion H2; subst. specialize (Hh _ H1). simpl in Hh. rewrite String.eqb_refl in Hh.
    simpl in Hh. apply String.eqb_eq in Hh. exact Hh.
  - eapply IH; eassumption.
Qed.

Lemma In_swap : forall l a b, In (a, b) (swap l) <-> In (b, a) l.
Proof.
  intros l a b. unfold swap. rewrite in_map_iff. split.
  - intros [[x y] [H1 H2]]. simpl in H1. inversion H1; subst. exact H2.
  - intro H. exists (b, a). split; [reflexivity|exact H].
Qed.

(* compile a node class to a name, read the name back: the same node class *)
Theorem tables_roundtrip : forall spec back front,
  spec_ok spec = true -> fwd_ok spec back = true -> bwd_ok spec front = true ->
  forall cls nm cls', In (cls, nm) back -> In (nm, cls') front -> cls' = cls.
Proof.
  intros spec back front Hs Hb Hf cls nm cls' H1 H2.
  unfold spec_ok in Hs. apply andb_true_iff in Hs as [Hfun _].
  unfold fwd_ok in Hb. rewrite forallb_forall in Hb. specialize (Hb _ H1). simpl in Hb.
  unfold bwd_ok in Hf. rewrite forallb_forall in Hf. specialize (Hf _ H2). simpl in Hf.
  apply pair_in_In in Hb. apply pair_in_In in Hf.
  eapply functional_spec; eassumption.
Qed.

(* read a name to a node class, compile it: the same name *)
Theorem tables_roundtrip_back : forall spec back front,
  spec_ok spec = true -> fwd_ok spec back = true -> bwd_ok spec front = true ->
  forall nm cls nm', In (nm, cls) front -> In (cls, nm') back -> nm' = nm.
Proof.
  intros spec back front Hs Hb Hf nm cls nm' H1 H2.
  unfold spec_ok in Hs. apply andb_true_iff in Hs as [_ Hinj].
  unfold fwd_ok in Hb. rewrite forallb_forall in Hb. specialize (Hb _ H2). simpl in Hb.
  unfold bwd_ok in Hf. rewrite forallb_forall in Hf. specialize (Hf _ H1). simpl in Hf.
  apply pair_in_In in Hb. apply pair_in_In in Hf.
  apply (functional_spec (swap spec) Hinj cls nm' nm); apply In_swap; assumption.
Qed.

Lemma specs_ok :
  spec_ok spec_unary = true /\ spec_ok spec_binary = true /\ spec_ok spec_ternary = true /\
  spec_ok spec_nary = true /\ spec_ok spec_compare = true /\ functional spec_const = true.
Proof. repeat split; vm_compute; reflexivity. Qed.
