(* C12 — model of fpy2/frontend/fpc.py (`_FPCore2FPy`): FPCore -> FPy
   statements with fresh names, on the expression / let / let* / if / `!`
   subset.

   DEFINITIONS ONLY.

   `fr_expr fresh m P e g` models `_visit(e, ctx)`:
     m = ctx.env   (FPCore name -> FPy name),
     P = ctx.props (the inherited properties AS THE CODE TRACKS THEM: the
         branches of an `if` and the body of a `!` are visited with a context
         made by `without_stmts()`, which forgets the properties),
     g = the Gensym,
   and answers the statements appended to ctx.stmts, the expression returned
   and the new Gensym; None = the frontend raises or the input is outside
   the modelled subset. *)
From Coq Require Import ZArith List String Bool Ascii DecimalString.
From FpyV Require Import Backend.FPCore.
Import ListNotations.
Open Scope Z_scope.

(* ------------------------------------------------------------------ Gensym *)
Record gs := mkGs { g_used : list ident; g_ctr : nat }.

Definition string_of_nat (n : nat) : string := NilEmpty.string_of_uint (Nat.to_uint n).

Definition is_digit (a : ascii) : bool :=
  let n := nat_of_ascii a in (48 <=? n)%nat && (n <=? 57)%nat.

Fixpoint string_rev_acc (s acc : string) : string :=
  match s with EmptyString => acc | String a s' => string_rev_acc s' (String a acc) end.
Definition string_rev (s : string) : string := string_rev_acc s EmptyString.

Fixpoint drop_digits (s : string) : string :=
  match s with
  | EmptyString => EmptyString
  | String a s' => if is_digit a then drop_digits s' else s
  end.

(* NamedId(prefix).base: the name without its digit suffix *)
Definition id_base (s : string) : string := string_rev (drop_digits (string_rev s)).

Fixpoint mem_id (x : ident) (l : list ident) : bool :=
  match l with [] => false | y :: l' => String.eqb x y || mem_id x l' end.

(* Gensym.refresh: `while ident in idents: ident.count = counter; counter += 1` *)
Fixpoint refresh_loop (fuel : nat) (used : list ident) (base cand : string) (ctr : nat)
  : option (ident * nat) :=
  if mem_id cand used then
    match fuel with
    | O => None
    | S fuel' => refresh_loop fuel' used base (base ++ string_of_nat ctr)%string (S ctr)
    end
  else Some (cand, ctr).

(* repaired Gensym.refresh: keeps counting until the name is unused *)
Definition fresh_fixed (prefix : string) (g : gs) : option (ident * gs) :=
  match refresh_loop (S (List.length (g_used g))) (g_used g) (id_base prefix) prefix (g_ctr g) with
  | Some (x, ctr') => Some (x, mkGs (x :: g_used g) ctr')
  | None => None
  end.

(* Gensym.refresh as it is: NamedId caches its hash and `ident.count = counter`
   does not reset it.  So (barring a hash collision) the second
   `ident in self._idents` test looks the renamed identifier up under the hash
   of the old one and answers False — the name is bumped once and never
   re-checked — and `self._idents.add(ident)` files it under that stale hash,
   so later membership tests never see a bumped name either: `g_used` holds
   only the names that were handed out unchanged. *)
Definition fresh_coded (prefix : string) (g : gs) : option (ident * gs) :=
  if mem_id prefix (g_used g)
  then
    let x1 := (id_base prefix ++ string_of_nat (g_ctr g))%string in
    (* the one entry the stale-hash lookup can still match is the original name itself *)
    if String.eqb x1 prefix
    then Some ((id_base prefix ++ string_of_nat (S (g_ctr g)))%string, mkGs (g_used g) (S (S (g_ctr g))))
    else Some (x1, mkGs (g_used g) (S (g_ctr g)))
  else Some (prefix, mkGs (prefix :: g_used g) (g_ctr g)).

Definition gensym := string -> gs -> option (ident * gs).

(* ------------------------------------------------------------------ translation *)
Definition renaming := list (ident * ident).

Fixpoint assoc (m : renaming) (x : ident) : option ident :=
  match m with
  | [] => None
  | (a, b) :: m' => if String.eqb a x then Some b else assoc m' x
  end.

Fixpoint blk (l : list stmt) : block :=
  match l with [] => BNil | s :: l' => BCons s (blk l') end.

Definition tmp : string := "t".

Fixpoint fr_expr (fresh : gensym) (m : renaming) (P : props) (e : cexpr) (g : gs) {struct e}
  : option (list stmt * expr * gs) :=
  match e with
  | CVar x => olet y := assoc m x in Some ([], EVar y, g)
  | CLit s => Some ([], ELit s, g)
  | CNum z => Some ([], ERNum z, g)
  | CUn o a =>
      olet ra := fr_expr fresh m P a g in
      let '(sa, ea, g1) := ra in Some (sa, EUn o ea, g1)
  | CBin o a b =>
      olet ra := fr_expr fresh m P a g in
      let '(sa, ea, g1) := ra in
      olet rb := fr_expr fresh m P b g1 in
      let '(sb, eb, g2) := rb in Some (sa ++ sb, EBin o ea eb, g2)
  | CIf c t f =>
      olet rc := fr_bexp fresh m P c g in
      let '(sc, bc, g1) := rc in
      olet rt := fr_expr fresh m no_props t g1 in
      let '(st, et, g2) := rt in
      olet rf := fr_expr fresh m no_props f g2 in
      let '(sf, ef, g3) := rf in
      olet rx := fresh tmp g3 in
      let '(x, g4) := rx in
      Some (sc ++ [SIf bc x (blk (st ++ [SAssign x et])) (blk (sf ++ [SAssign x ef]))], EVar x, g4)
  | CLet star bs body =>
      olet rb := fr_binds fresh star m m P bs g in
      let '(sb, m', g1) := rb in
      olet r2 := fr_expr fresh m' P body g1 in
      let '(s2, e2, g2) := r2 in Some (sb ++ s2, e2, g2)
  | CAnn p e1 =>
      olet r1 := fr_expr fresh m no_props e1 g in
      let '(s1, e1', g1) := r1 in
      olet c := to_context (merge_props p P) in
      olet rx := fresh tmp g1 in
      let '(x, g2) := rx in
      Some ([SWith c (blk (s1 ++ [SAssign x e1']))], EVar x, g2)
  | _ => None
  end
with fr_bexp (fresh : gensym) (m : renaming) (P : props) (e : cexpr) (g : gs) {struct e}
  : option (list stmt * bexp * gs) :=
  match e with
  | CCmp o a b =>
      olet ra := fr_expr fresh m P a g in
      let '(sa, ea, g1) := ra in
      olet rb := fr_expr fresh m P b g1 in
      let '(sb, eb, g2) := rb in Some (sa ++ sb, BCmp o ea eb, g2)
  | CAnd a b =>
      olet ra := fr_bexp fresh m P a g in
      let '(sa, ea, g1) := ra in
      olet rb := fr_bexp fresh m P b g1 in
      let '(sb, eb, g2) := rb in Some (sa ++ sb, BAnd ea eb, g2)
  | COr a b =>
      olet ra := fr_bexp fresh m P a g in
      let '(sa, ea, g1) := ra in
      olet rb := fr_bexp fresh m P b g1 in
      let '(sb, eb, g2) := rb in Some (sa ++ sb, BOr ea eb, g2)
  | CNot a =>
      olet ra := fr_bexp fresh m P a g in
      let '(sa, ea, g1) := ra in Some (sa, BNot ea, g1)
  | _ => None
  end
(* _visit_let: every value is visited with the outer environment m0 (let)
   or with the environment so far (let* ), then bound to a fresh name *)
with fr_binds (fresh : gensym) (star : bool) (m0 m : renaming) (P : props) (bs : binds) (g : gs) {struct bs}
  : option (list stmt * renaming * gs) :=
  match bs with
  | LNil => Some ([], m, g)
  | LCons x e bs' =>
      olet r1 := fr_expr fresh (if star then m else m0) P e g in
      let '(s1, e1, g1) := r1 in
      olet ry := fresh x g1 in
      let '(y, g2) := ry in
      olet r2 := fr_binds fresh star m0 ((x, y) :: m) P bs' g2 in
      let '(s2, m', g3) := r2 in
      Some (s1 ++ SAssign y e1 :: s2, m', g3)
  end.

Fixpoint fr_args (fresh : gensym) (xs : list ident) (m : renaming) (g : gs) : option (list ident * renaming * gs) :=
  match xs with
  | [] => Some ([], m, g)
  | x :: xs' =>
      olet ry := fresh x g in
      let '(y, g1) := ry in
      olet r := fr_args fresh xs' ((x, y) :: m) g1 in
      let '(ys, m', g2) := r in Some (y :: ys, m', g2)
  end.

(* _visit_function: the function context is to_context of the core's
   properties when they name a precision (the `precision` key is then deleted
   from the dictionary the body is visited with) *)
Definition from_fpcore (fresh : gensym) (p : cprog) : option func :=
  olet ra := fr_args fresh (cp_args p) [] (mkGs [] O) in
  let '(ys, m, g1) := ra in
  let P0 := cp_props p in
  olet co := (match p_prec P0 with
              | Some _ => match to_context P0 with Some c => Some (Some c) | None => None end
              | None => Some None
              end) in
  let Pin := mkProps None (p_round P0) (p_ovf P0) (p_n P0) in
  olet rb := fr_expr fresh m Pin (cp_body p) g1 in
  let '(ss, e, _) := rb in
  Some (mkFunc ys co (blk (ss ++ [SRet e]))).

Definition from_fpcore_as_coded : cprog -> option func := from_fpcore fresh_coded.
Definition from_fpcore_fixed : cprog -> option func := from_fpcore fresh_fixed.

(* ------------------------------------------------------------------ the cores the theorem speaks about *)
(* a property dictionary that fixes the number format by itself *)
Definition round_named (p : props) : bool :=
  match p_round p with
  | Some r => match rm_of_name r with Some _ => true | None => false end
  | None => false
  end.

Definition pfull (p : props) : bool :=
  match p_prec p with
  | None => false
  | Some (PSym s) =>
      (String.eqb s "real" && match p_round p with None => true | Some _ => round_named p end)
      || round_named p
  | Some (PFloat _ _) => round_named p
  | Some (PFixed _ _) => round_named p && match p_ovf p with Some _ => true | None => false end
  end.

Definition is_int_props (p : props) : bool :=
  match p with
  | mkProps (Some (PSym s)) None None None => String.eqb s "integer"
  | _ => false
  end.

(* every annotation is full, or is `:precision integer` around an integer
   literal (what the backend emits for an unrounded integer) *)
Fixpoint ann_ok (e : cexpr) : bool :=
  match e with
  | CVar _ | CLit _ | CNum _ => true
  | CUn _ a | CNot a => ann_ok a
  | CBin _ a b | CCmp _ a b | CAnd a b | COr a b => ann_ok a && ann_ok b
  | CIf c t f => ann_ok c && ann_ok t && ann_ok f
  | CLet _ bs body => ann_ok_binds bs && ann_ok body
  | CWhile _ c ws body => ann_ok c && ann_ok_wbinds ws && ann_ok body
  | CFor _ _ n ws body => ann_ok n && ann_ok_wbinds ws && ann_ok body
  | CAnn p e1 =>
      (pfull p && ann_ok e1) ||
      (is_int_props p && match e1 with CNum _ => true | _ => false end)
  end
with ann_ok_binds (bs : binds) : bool :=
  match bs with LNil => true | LCons _ e bs' => ann_ok e && ann_ok_binds bs' end
with ann_ok_wbinds (ws : wbinds) : bool :=
  match ws with WNil => true | WCons _ i u ws' => ann_ok i && ann_ok u && ann_ok_wbinds ws' end.

Definition props_ok (p : props) : bool :=
  match p with
  | mkProps None None None None => true
  | _ => pfull p
  end.

Definition cprog_ok (p : cprog) : bool := props_ok (cp_props p) && ann_ok (cp_body p).
