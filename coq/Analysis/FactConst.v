(* C13: the verified checker of CONSTANT facts (fpy2/analysis/partial_eval.py:
   an expression reported constant evaluates to that constant).  Definitions only.

   The checker keeps an environment G of the variables it knows to be
   constant, with the values THE MODEL computes for them, and validates a
   reported constant by re-evaluating the expression with the model's own
   evaluator in G under the statically known context (`ceval`) and comparing
   (`value_matches`: numbers by class, sign and value).  Soundness is
   determinism of evaluation: a pure scalar expression evaluates to the same
   value in every environment that agrees with G on G's names, in any store,
   at any sufficient fuel.  Merges keep a name only if both sides computed the
   same value; a loop head forgets the names its phis mention and the rest
   must be unchanged by the body (inductive). *)
From Coq Require Import ZArith List Bool String.
From FpyV Require Import Num.RealFloat Num.Float Num.CtxDef Lang.Syntax Lang.Values Lang.Sem
  Analysis.ClassLattice Analysis.Instr Analysis.FactClass Analysis.FactReach.
Import ListNotations.
Open Scope Z_scope.

Definition cfuel : nat := 300.

Definition scalar_value (v : value) : bool :=
  match v with VNum _ | VBool _ | VCtx _ => true | _ => false end.

Definition value_matches (v : value) (c : cval) : bool :=
  match v, c with
  | VNum x, CNum y => num_same x y
  | VBool a, CBool b => Bool.eqb a b
  | VCtx a, CCtx b => ctx_eqb a b
  | _, _ => false
  end.

(* the claim of an event *)
Definition ev_const_ok (ev : event ann) : bool :=
  match ev with
  | EvVal a _ v => match an_const a with Some cv => value_matches v cv | None => true end
  | _ => true
  end.

(* no opaque leaf inside: evaluation touches neither the store nor other functions *)
Fixpoint pure_e (e : aexpr ann) : bool :=
  match e with
  | AVar _ _ | ANum _ _ | ARat _ _ _ | ABool _ _ | ACtxVal _ _ | AOp0 _ _ => true
  | AOp1 _ _ e1 | APred _ _ e1 | ANot _ e1 => pure_e e1
  | AOp2 _ _ e1 e2 => pure_e e1 && pure_e e2
  | AOp3 _ _ e1 e2 e3 => pure_e e1 && pure_e e2 && pure_e e3
  | AIf _ c t f => pure_e c && pure_e t && pure_e f
  | ACompare _ _ args | AAnd _ args | AOr _ args | AMin _ args | AMax _ args | ACtor _ _ args => forallb pure_e args
  | AOpaque _ _ _ => false
  end.

(* syntactic equality of scalar values (the model's own encodings) *)
Definition rf_eqb' (a b : rf) : bool := Bool.eqb (rs a) (rs b) && (rexp a =? rexp b) && (rc a =? rc b).
Definition fl_eqb' (a b : fl) : bool :=
  match a, b with
  | FFin x, FFin y => rf_eqb' x y
  | FInf s, FInf t => Bool.eqb s t
  | FNaN s, FNaN t => Bool.eqb s t
  | _, _ => false
  end.
Definition num_eqb' (a b : num) : bool :=
  match a, b with
  | NF x, NF y => fl_eqb' x y
  | NQ n d, NQ m e => (n =? m) && (d =? e)
  | _, _ => false
  end.
(* contexts are compared only through value_matches; in the environment a context
   constant is kept when both sides hold the very same number-free tag *)
Definition sval_eqb (a b : value) : bool :=
  match a, b with
  | VNum x, VNum y => num_eqb' x y
  | VBool x, VBool y => Bool.eqb x y
  | _, _ => false
  end.

Fixpoint env_remove (s : env) (x : ident) : env :=
  match s with
  | [] => []
  | (y, v) :: r => if String.eqb x y then env_remove r x else (y, v) :: env_remove r x
  end.

Definition env_remove_all (s : env) (xs : list ident) : env := fold_left env_remove xs s.

Fixpoint apat_names (p : apat ann) : list ident :=
  match p with
  | APVar _ x => [x]
  | APWild => []
  | APTuple ps => flat_map apat_names ps
  end.

(* keep the bindings of G1 that G2 has with the same value *)
Definition cmerge (G1 G2 : env) : env :=
  filter (fun xv => match env_get G1 (fst xv), env_get G2 (fst xv) with
                    | Some a, Some b => sval_eqb a b && sval_eqb (snd xv) a
                    | _, _ => false
                    end) G1.

(* every binding of G1 is a binding of G2 *)
Definition csub (G1 G2 : env) : bool :=
  forallb (fun xv => match env_get G2 (fst xv) with Some w => sval_eqb (snd xv) w | None => false end) G1.

(* an environment whose first binding of each name is the only one that counts:
   env_get looks at the first; filter keeps order *)

Section Checker.
Variable N : numops.
Variable P : program.

Definition ceval (K : option ctx) (G : env) (e : aexpr ann) : option value :=
  if pure_e e then
    match K with
    | Some c =>
        match snd (ieval ann N P cfuel G [] [] c e) with
        | ROk (v, _) => if scalar_value v then Some v else None
        | _ => None
        end
    | None =>
        match e with
        | AVar _ x => match env_get G x with Some v => if scalar_value v then Some v else None | None => None end
        | ANum _ v => Some (VNum (NF v))
        | ARat _ n d => if d =? 0 then None else Some (VNum (num_of_frac n d))
        | ABool _ b => Some (VBool b)
        | ACtxVal _ c => Some (VCtx c)
        | _ => None
        end
    end
  else None.

Definition fact_ok (K : option ctx) (G : env) (e : aexpr ann) : bool :=
  match an_const (ann_of e) with
  | None => true
  | Some cv => match ceval K G e with Some v => value_matches v cv | None => false end
  end.

Fixpoint ccheck_expr (K : option ctx) (G : env) (e : aexpr ann) {struct e} : bool :=
  fact_ok K G e &&
  match e with
  | AVar _ _ | ANum _ _ | ARat _ _ _ | ABool _ _ | ACtxVal _ _ | AOp0 _ _ | AOpaque _ _ _ => true
  | AOp1 _ _ e1 | APred _ _ e1 | ANot _ e1 => ccheck_expr K G e1
  | AOp2 _ _ e1 e2 => ccheck_expr K G e1 && ccheck_expr K G e2
  | AOp3 _ _ e1 e2 e3 => ccheck_expr K G e1 && ccheck_expr K G e2 && ccheck_expr K G e3
  | AIf _ c t f => ccheck_expr K G c && ccheck_expr K G t && ccheck_expr K G f
  | ACompare _ _ args | AAnd _ args | AOr _ args | AMin _ args | AMax _ args | ACtor _ _ args =>
      forallb (ccheck_expr K G) args
  end.

Definition cbind_c (K : option ctx) (G : env) (p : apat ann) (e : aexpr ann) : env :=
  match p with
  | APVar _ x => match ceval K G e with Some v => env_set G x v | None => env_remove G x end
  | _ => env_remove_all G (apat_names p)
  end.

Fixpoint ccheck_stmt (K : option ctx) (G : env) (st : astmt ann) {struct st} : option env :=
  let ccheck_block :=
    fix cb (K : option ctx) (G : env) (b : list (astmt ann)) {struct b} : option env :=
      match b with
      | [] => Some G
      | st :: r => match ccheck_stmt K G st with Some G' => cb K G' r | None => None end
      end in
  match st with
  | ASAssign p e => if ccheck_expr K G e then Some (cbind_c K G p e) else None
  | ASIndexAssign _ _ x _ e => if ccheck_expr K G e then Some (env_remove G x) else None
  | ASIf1 _ c body =>
      if ccheck_expr K G c then
        match ccheck_block K G body with Some Gb => Some (cmerge Gb G) | None => None end
      else None
  | ASIf _ c ift iff =>
      if ccheck_expr K G c then
        match ccheck_block K G ift, ccheck_block K G iff with
        | Some G1, Some G2 =>
            Some (if blk_ret ift then G2 else if blk_ret iff then G1 else cmerge G1 G2)
        | _, _ => None
        end
      else None
  | ASWhile ph c body =>
      let Gh := env_remove_all G (map fst ph) in
      if ccheck_expr K Gh c then
        match ccheck_block K Gh body with
        | Some Gb => if csub Gh Gb then Some Gh else None
        | None => None
        end
      else None
  | ASFor ph p it body =>
      if ccheck_expr K G it then
        let Gh := env_remove_all G (map fst ph) in
        match ccheck_block K (env_remove_all Gh (apat_names p)) body with
        | Some Gb => if csub Gh Gb then Some Gh else None
        | None => None
        end
      else None
  | ASContext x e body =>
      if ccheck_expr (Some CReal) G e then
        ccheck_block (static_ctx (n_ctor N) e) (match x with Some (_, x) => env_remove G x | None => G end) body
      else None
  | ASAssert e | ASEffect e | ASReturn e => if ccheck_expr K G e then Some G else None
  | ASPass => Some G
  end.

Fixpoint ccheck_block (K : option ctx) (G : env) (b : list (astmt ann)) {struct b} : option env :=
  match b with
  | [] => Some G
  | st :: r => match ccheck_stmt K G st with Some G' => ccheck_block K G' r | None => None end
  end.

Definition check_const_func (f : afunc ann) : bool :=
  match ccheck_block (af_ctx f) [] (af_body f) with Some _ => true | None => false end.

End Checker.

(* ---------------------------------------------------------------- dropping the facts the checker cannot derive *)
(* A utility for the tie (nothing is proved about it): the same traversal as
   the checker, which ERASES every constant fact that `fact_ok` does not
   validate.  The strict checker above is then run on the result; the facts
   dropped here are reported as "checked by tracing, not proved". *)
Definition drop_const (a : ann) : ann := Ann (an_cls a) (an_ctx a) None (an_def a) (an_args a).

Section Prune.
Variable N : numops.
Variable P : program.

Definition pr (K : option ctx) (G : env) (e : aexpr ann) (a : ann) : ann :=
  if fact_ok N P K G e then a else drop_const a.

Fixpoint prune_e (K : option ctx) (G : env) (e : aexpr ann) {struct e} : aexpr ann :=
  let g := pr K G e in
  match e with
  | AVar a x => AVar (g a) x
  | ANum a v => ANum (g a) v
  | ARat a n d => ARat (g a) n d
  | ABool a b => ABool (g a) b
  | ACtxVal a c => ACtxVal (g a) c
  | AOp0 a o => AOp0 (g a) o
  | AOp1 a o e1 => AOp1 (g a) o (prune_e K G e1)
  | AOp2 a o e1 e2 => AOp2 (g a) o (prune_e K G e1) (prune_e K G e2)
  | AOp3 a o e1 e2 e3 => AOp3 (g a) o (prune_e K G e1) (prune_e K G e2) (prune_e K G e3)
  | APred a p e1 => APred (g a) p (prune_e K G e1)
  | ACompare a ops args => ACompare (g a) ops (map (prune_e K G) args)
  | AAnd a args => AAnd (g a) (map (prune_e K G) args)
  | AOr a args => AOr (g a) (map (prune_e K G) args)
  | ANot a e1 => ANot (g a) (prune_e K G e1)
  | AIf a c t f => AIf (g a) (prune_e K G c) (prune_e K G t) (prune_e K G f)
  | AMin a es => AMin (g a) (map (prune_e K G) es)
  | AMax a es => AMax (g a) (map (prune_e K G) es)
  | ACtor a k args => ACtor (g a) k (map (prune_e K G) args)
  | AOpaque a e0 uses => AOpaque (g a) e0 uses
  end.

Fixpoint prune_s (K : option ctx) (G : env) (st : astmt ann) {struct st} : astmt ann * env :=
  let prune_b :=
    fix pb (K : option ctx) (G : env) (b : list (astmt ann)) {struct b} : list (astmt ann) * env :=
      match b with
      | [] => ([], G)
      | st :: r => let '(st', G1) := prune_s K G st in let '(r', G2) := pb K G1 r in (st' :: r', G2)
      end in
  match st with
  | ASAssign p e => (ASAssign p (prune_e K G e), cbind_c N P K G p e)
  | ASIndexAssign au ad x idx e => (ASIndexAssign au ad x idx (prune_e K G e), env_remove G x)
  | ASIf1 ph c body =>
      let '(body', Gb) := prune_b K G body in (ASIf1 ph (prune_e K G c) body', cmerge Gb G)
  | ASIf ph c ift iff =>
      let '(t', G1) := prune_b K G ift in
      let '(f', G2) := prune_b K G iff in
      (ASIf ph (prune_e K G c) t' f', if blk_ret ift then G2 else if blk_ret iff then G1 else cmerge G1 G2)
  | ASWhile ph c body =>
      let Gh := env_remove_all G (map fst ph) in
      let '(body', _) := prune_b K Gh body in (ASWhile ph (prune_e K Gh c) body', Gh)
  | ASFor ph p it body =>
      let Gh := env_remove_all G (map fst ph) in
      let '(body', _) := prune_b K (env_remove_all Gh (apat_names p)) body in
      (ASFor ph p (prune_e K G it) body', Gh)
  | ASContext x e body =>
      let '(body', G') := prune_b (static_ctx (n_ctor N) e) (match x with Some (_, x) => env_remove G x | None => G end) body in
      (ASContext x (prune_e (Some CReal) G e) body', G')
  | ASAssert e => (ASAssert (prune_e K G e), G)
  | ASEffect e => (ASEffect (prune_e K G e), G)
  | ASReturn e => (ASReturn (prune_e K G e), G)
  | ASPass => (ASPass, G)
  end.

Fixpoint prune_b (K : option ctx) (G : env) (b : list (astmt ann)) {struct b} : list (astmt ann) * env :=
  match b with
  | [] => ([], G)
  | st :: r => let '(st', G1) := prune_s K G st in let '(r', G2) := prune_b K G1 r in (st' :: r', G2)
  end.

Definition prune_const_func (f : afunc ann) : afunc ann :=
  AFunc (af_params f) (af_ctx f) (fst (prune_b (af_ctx f) [] (af_body f))).

(* how many constant facts an annotated function carries *)
Fixpoint nconst_e (e : aexpr ann) : nat :=
  (match an_const (ann_of e) with Some _ => 1 | None => 0 end) +
  match e with
  | AOp1 _ _ e1 | APred _ _ e1 | ANot _ e1 => nconst_e e1
  | AOp2 _ _ e1 e2 => nconst_e e1 + nconst_e e2
  | AOp3 _ _ e1 e2 e3 => nconst_e e1 + nconst_e e2 + nconst_e e3
  | AIf _ c t f => nconst_e c + nconst_e t + nconst_e f
  | ACompare _ _ args | AAnd _ args | AOr _ args | AMin _ args | AMax _ args | ACtor _ _ args =>
      fold_right (fun e n => nconst_e e + n) 0 args
  | _ => 0
  end%nat.

Fixpoint nconst_s (st : astmt ann) : nat :=
  match st with
  | ASAssign _ e | ASIndexAssign _ _ _ _ e | ASAssert e | ASEffect e | ASReturn e => nconst_e e
  | ASIf1 _ c body | ASWhile _ c body | ASFor _ _ c body | ASContext _ c body =>
      nconst_e c + fold_right (fun s n => nconst_s s + n) 0 body
  | ASIf _ c t f => nconst_e c + fold_right (fun s n => nconst_s s + n) 0 t + fold_right (fun s n => nconst_s s + n) 0 f
  | ASPass => 0
  end%nat.

Definition nconst_f (f : afunc ann) : nat := fold_right (fun s n => nconst_s s + n)%nat 0%nat (af_body f).

End Prune.
