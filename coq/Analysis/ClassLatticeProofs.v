(* C13, value classes: soundness of the lattice operations and of the atom
   tables of ClassLattice.v
   (a) against IEEE arithmetic on extended reals (FloatProofs.xadd/xmul, Flocq
       rounding) -- "the exact result, then one rounding", stated abstractly;
   (b) against the executable number model the evaluator runs with
       (Float.fl_add/fl_mul, NumInst.num_add/...), with no well-formedness
       side conditions, which is what the program-level theorem uses. *)
From Coq Require Import ZArith List Bool Lia Lra Reals.
From Flocq Require Import Core.Zaux Core.Raux Core.Defs Core.Generic_fmt.
From FpyV Require Import Num.RealFloat Num.RealFloatProofs Num.Float Num.FloatProofs Num.CtxDef
  Lang.Syntax Lang.Values Lang.Sem Lang.NumInst Analysis.ClassLattice.
Import ListNotations.
Open Scope Z_scope.

(* ---------------------------------------------------------------- lattice *)
Lemma mem_single a b : mem a (single b) = true <-> a = b.
Proof. destruct a, b; cbn; split; intros; congruence. Qed.

Lemma mem_single_refl a : mem a (single a) = true.
Proof. apply mem_single. reflexivity. Qed.

Lemma mem_join x a b : mem x (join a b) = mem x a || mem x b.
Proof. destruct x; reflexivity. Qed.

Lemma mem_meet x a b : mem x (meet a b) = mem x a && mem x b.
Proof. destruct x; reflexivity. Qed.

Lemma mem_top x : mem x c_top = true.
Proof. destruct x; reflexivity. Qed.

Lemma mem_bot x : mem x c_bot = false.
Proof. destruct x; reflexivity. Qed.

Lemma leq_spec a b : leq a b = true <-> (forall x, mem x a = true -> mem x b = true).
Proof.
  split.
  - unfold leq. intros H x. destruct a, b, x; cbn in *;
      repeat match goal with b : bool |- _ => destruct b end; cbn in *; congruence.
  - intros H. unfold leq.
    pose proof (H ANaN) as H1. pose proof (H AInf) as H2. pose proof (H AZero) as H3. pose proof (H AFin) as H4.
    destruct a, b; cbn in *.
    repeat match goal with b : bool |- _ => destruct b end; cbn in *; auto.
Qed.

Lemma leq_mem a b x : leq a b = true -> mem x a = true -> mem x b = true.
Proof. intros H. apply leq_spec. exact H. Qed.

Lemma leq_refl a : leq a a = true.
Proof. apply leq_spec. auto. Qed.

Lemma leq_trans a b c : leq a b = true -> leq b c = true -> leq a c = true.
Proof. rewrite !leq_spec. auto. Qed.

Lemma leq_top a : leq a c_top = true.
Proof. apply leq_spec. intros. apply mem_top. Qed.

Lemma leq_meet_l a b : leq (meet a b) a = true.
Proof. apply leq_spec. intros x. rewrite mem_meet. intros H. apply andb_prop in H. tauto. Qed.

Lemma leq_join_l a b : leq a (join a b) = true.
Proof. apply leq_spec. intros x H. rewrite mem_join, H. reflexivity. Qed.

Lemma leq_join_r a b : leq b (join a b) = true.
Proof. apply leq_spec. intros x H. rewrite mem_join, H. apply orb_true_r. Qed.

Lemma cls_of_Z_15 : cls_of_Z 15 = c_top.
Proof. reflexivity. Qed.

(* ---------------------------------------------------------------- lifting *)
Lemma lift1_sound f a x r : mem x a = true -> mem r (f x) = true -> mem r (lift1 f a) = true.
Proof.
  intros Hx Hr. unfold lift1, joins, atoms. cbn [map fold_right].
  rewrite !mem_join.
  destruct x; rewrite Hx, Hr; cbn; rewrite ?orb_true_r; reflexivity.
Qed.

Lemma lift2_sound f a b x y r :
  mem x a = true -> mem y b = true -> mem r (f x y) = true -> mem r (lift2 f a b) = true.
Proof.
  intros Hx Hy Hr. unfold lift2, joins, atoms. cbn [map fold_right].
  rewrite !mem_join.
  pose proof (lift1_sound (f x) b y r Hy Hr) as H.
  destruct x; rewrite Hx, H; cbn; rewrite ?orb_true_r; reflexivity.
Qed.

Lemma lift3_sound f a b c x y z r :
  mem x a = true -> mem y b = true -> mem z c = true -> mem r (f x y z) = true ->
  mem r (lift3 f a b c) = true.
Proof.
  intros Hx Hy Hz Hr. unfold lift3, joins, atoms. cbn [map fold_right].
  rewrite !mem_join.
  pose proof (lift2_sound (f x) b c y z r Hy Hz Hr) as H.
  destruct x; rewrite Hx, H; cbn; rewrite ?orb_true_r; reflexivity.
Qed.

Lemma lift1_id a : lift1 a_id a = a.
Proof. destruct a as [[] [] [] []]; reflexivity. Qed.

(* ================================================================ (a) IEEE arithmetic on extended reals *)
Definition xatom (a : xreal) : atom :=
  match a with
  | XNaN => ANaN
  | XInf _ => AInf
  | XR r => if Req_EM_T r 0 then AZero else AFin
  end.

(* inf - inf may be NaN; cancellation may give zero; NaN propagates *)
Theorem a_add_ieee a b : mem (xatom (xadd a b)) (a_add (xatom a) (xatom b)) = true.
Proof.
  destruct a as [x|s|], b as [y|t|]; cbn; try reflexivity.
  - destruct (Req_EM_T x 0), (Req_EM_T y 0), (Req_EM_T (x + y) 0); cbn; try reflexivity; exfalso; lra.
  - destruct (Req_EM_T x 0); reflexivity.
  - destruct (Req_EM_T x 0); reflexivity.
  - destruct (Req_EM_T y 0); reflexivity.
  - destruct (eqb s t); reflexivity.
Qed.

Theorem a_neg_ieee a : xatom (xneg a) = xatom a.
Proof.
  destruct a as [x|s|]; cbn; try reflexivity.
  destruct (Req_EM_T x 0), (Req_EM_T (- x) 0); try reflexivity; exfalso; lra.
Qed.

Theorem a_abs_ieee a : xatom (xabs a) = xatom a.
Proof.
  destruct a as [x|s|]; cbn; try reflexivity.
  destruct (Req_EM_T x 0), (Req_EM_T (Rabs x) 0); try reflexivity; exfalso.
  - subst. rewrite Rabs_R0 in n. lra.
  - apply Rabs_eq_R0 in e. lra.
Qed.

(* 0 * inf is NaN; a product of finite non-zero values is non-zero *)
Theorem a_mul_ieee a b sa sb : mem (xatom (xmul a b sa sb)) (a_mul (xatom a) (xatom b)) = true.
Proof.
  destruct a as [x|s|], b as [y|t|]; cbn; try reflexivity.
  - destruct (Req_EM_T x 0), (Req_EM_T y 0), (Req_EM_T (x * y) 0); cbn; try reflexivity; exfalso.
    + subst. lra.
    + subst. lra.
    + subst. lra.
    + apply Rmult_integral in e. tauto.
  - destruct (Req_EM_T x 0); reflexivity.
  - destruct (Req_EM_T x 0); reflexivity.
  - destruct (Req_EM_T y 0); reflexivity.
Qed.

(* IEEE 754 division and square root on extended reals, written from the standard *)
Definition xdiv (a b : xreal) (sa sb : bool) : xreal :=
  match a, b with
  | XNaN, _ | _, XNaN => XNaN
  | XInf _, XInf _ => XNaN
  | XInf _, XR _ => XInf (xorb sa sb)
  | XR _, XInf _ => XR 0
  | XR x, XR y =>
      if Req_EM_T y 0 then (if Req_EM_T x 0 then XNaN else XInf (xorb sa sb))
      else XR (x / y)
  end.

Theorem a_div_ieee a b sa sb : mem (xatom (xdiv a b sa sb)) (a_div (xatom a) (xatom b)) = true.
Proof.
  destruct a as [x|s|], b as [y|t|]; cbn; try reflexivity.
  - destruct (Req_EM_T y 0), (Req_EM_T x 0); cbn; try reflexivity.
    + destruct (Req_EM_T (x / y) 0); try reflexivity. exfalso. subst. unfold Rdiv in n0. lra.
    + destruct (Req_EM_T (x / y) 0); try reflexivity. exfalso.
      unfold Rdiv in e. apply Rmult_integral in e. destruct e; [tauto|].
      apply Rinv_neq_0_compat in n. tauto.
  - destruct (Req_EM_T x 0); cbn; destruct (Req_EM_T 0 0); try reflexivity; exfalso; lra.
  - destruct (Req_EM_T x 0); reflexivity.
  - destruct (Req_EM_T y 0); reflexivity.
Qed.

Definition xsqrt (a : xreal) : xreal :=
  match a with
  | XNaN => XNaN
  | XInf s => if s then XNaN else XInf false
  | XR x => if Rlt_dec x 0 then XNaN else XR (sqrt x)
  end.

Theorem a_sqrt_ieee a : mem (xatom (xsqrt a)) (a_sqrt (xatom a)) = true.
Proof.
  destruct a as [x|s|]; cbn; try reflexivity.
  - destruct (Rlt_dec x 0); cbn.
    + destruct (Req_EM_T x 0); [exfalso; lra | reflexivity].
    + destruct (Req_EM_T x 0), (Req_EM_T (sqrt x) 0); try reflexivity; exfalso.
      * subst. rewrite sqrt_0 in n0. lra.
      * apply sqrt_eq_0 in e; lra.
  - destruct s; reflexivity.
Qed.

(* fma: the exact product-sum, one rounding afterwards *)
Definition xfma (a b c : xreal) (sa sb : bool) : xreal := xadd (xmul a b sa sb) c.

Theorem a_fma_ieee a b c sa sb :
  mem (xatom (xfma a b c sa sb)) (a_fma (xatom a) (xatom b) (xatom c)) = true.
Proof.
  unfold xfma, a_fma. eapply lift1_sound.
  - apply a_mul_ieee.
  - apply a_add_ieee.
Qed.

(* Rounding.  `rnd` is ANY function on the reals that keeps zero (every Flocq
   rounding does: round_0); `ovf` decides overflow.  Specials are kept, zero
   stays zero, a finite non-zero value may round to zero (underflow) or, under
   a bounded context, overflow to an infinity. *)
Definition xround (rnd : R -> R) (ovf : R -> option bool) (a : xreal) : xreal :=
  match a with
  | XR x => match ovf (rnd x) with Some s => XInf s | None => XR (rnd x) end
  | _ => a
  end.

Theorem a_round_ieee rnd ovf a :
  rnd 0%R = 0%R -> ovf 0%R = None ->
  mem (xatom (xround rnd ovf a)) (a_round (xatom a)) = true.
Proof.
  intros H0 Ho. destruct a as [x|s|]; cbn; try reflexivity.
  destruct (Req_EM_T x 0).
  - subst. rewrite H0, Ho. cbn. destruct (Req_EM_T 0 0); [reflexivity | exfalso; lra].
  - destruct (ovf (rnd x)); cbn; [reflexivity|]. destruct (Req_EM_T (rnd x) 0); reflexivity.
Qed.

Theorem a_round_unbounded_ieee rnd a :
  rnd 0%R = 0%R ->
  mem (xatom (xround rnd (fun _ => None) a)) (a_round_unbounded (xatom a)) = true.
Proof.
  intros H0. destruct a as [x|s|]; cbn; try reflexivity.
  destruct (Req_EM_T x 0).
  - subst. rewrite H0. destruct (Req_EM_T 0 0); [reflexivity | exfalso; lra].
  - destruct (Req_EM_T (rnd x) 0); reflexivity.
Qed.

(* the instance every FPy rounding is (N1): Flocq's generic rounding *)
Corollary a_round_flocq beta fexp (zr : R -> Z) {V : Valid_rnd zr} ovf a :
  ovf 0%R = None ->
  mem (xatom (xround (round beta fexp zr) ovf a)) (a_round (xatom a)) = true.
Proof. intros. apply a_round_ieee; auto. apply round_0. exact V. Qed.

(* the denotation of a model number has the model's class *)
Lemma xatom_den x : fl_wf x -> xatom (den x) = atom_of_fl x.
Proof.
  destruct x as [r|s|s]; cbn; try reflexivity. intros Hw.
  unfold is_zero. destruct (Req_EM_T (R2R r) 0) as [e|n].
  - apply R2R_eq0 in e; auto. rewrite e. reflexivity.
  - destruct (Z.eqb_spec (rc r) 0) as [e|_]; [|reflexivity].
    exfalso. apply n. apply R2R_eq0; auto.
Qed.

(* ================================================================ (b) the executable number model *)
Lemma atom_fl_with_sign s x : atom_of_fl (fl_with_sign s x) = atom_of_fl x.
Proof. destruct x; reflexivity. Qed.

Lemma atom_fl_neg x : atom_of_fl (fl_neg x) = atom_of_fl x.
Proof. apply atom_fl_with_sign. Qed.

Lemma atom_fl_abs x : atom_of_fl (fl_abs x) = atom_of_fl x.
Proof. apply atom_fl_with_sign. Qed.

Lemma rf_add_zero_iff a b :
  is_zero (rf_add a b) = true ->
  (is_zero a = true /\ is_zero b = true) \/ (is_zero a = false /\ is_zero b = false).
Proof.
  unfold rf_add, is_zero.
  destruct (rc a =? 0) eqn:Ea, (rc b =? 0) eqn:Eb; cbn [rc]; intros H; auto.
  - rewrite Eb in H. discriminate.
  - rewrite Ea in H. discriminate.
Qed.

Lemma rf_add_zero_zero a b : is_zero a = true -> is_zero b = true -> is_zero (rf_add a b) = true.
Proof. unfold rf_add, is_zero. intros -> ->. reflexivity. Qed.

Theorem atom_fl_add a b : mem (atom_of_fl (fl_add a b)) (a_add (atom_of_fl a) (atom_of_fl b)) = true.
Proof.
  destruct a as [x|s|s], b as [y|t|t]; cbn [fl_add atom_of_fl]; try reflexivity;
    try (destruct (is_zero x); reflexivity); try (destruct (is_zero y); reflexivity);
    try (destruct (eqb s t); reflexivity).
  destruct (is_zero (rf_add x y)) eqn:E.
  - apply rf_add_zero_iff in E. destruct E as [[-> ->]|[-> ->]]; reflexivity.
  - destruct (is_zero x) eqn:Ex, (is_zero y) eqn:Ey; try reflexivity.
    rewrite rf_add_zero_zero in E; auto; try discriminate.
Qed.

Theorem atom_fl_mul a b : mem (atom_of_fl (fl_mul a b)) (a_mul (atom_of_fl a) (atom_of_fl b)) = true.
Proof.
  destruct a as [x|s|s], b as [y|t|t]; cbn [fl_mul atom_of_fl fl_is_zero]; try reflexivity;
    try (destruct (is_zero x); reflexivity); try (destruct (is_zero y); reflexivity).
  unfold rf_mul, is_zero.
  destruct (rc x =? 0) eqn:Ex, (rc y =? 0) eqn:Ey; cbn [orb rc]; try reflexivity.
  cbn. apply Z.eqb_neq in Ex, Ey.
  destruct (Z.eqb_spec (rc x * rc y) 0) as [e|_]; [|reflexivity].
  exfalso. apply Z.mul_eq_0 in e. tauto.
Qed.

(* ---- num: dyadic or non-dyadic rational *)
Lemma atom_num_neg x : atom_of_num (num_neg x) = atom_of_num x.
Proof. destruct x as [f|n d]; cbn; [apply atom_fl_neg|reflexivity]. Qed.

Lemma atom_num_abs x : atom_of_num (num_abs x) = atom_of_num x.
Proof. destruct x as [f|n d]; cbn; [apply atom_fl_abs|reflexivity]. Qed.

Lemma atom_num_copysign x y : atom_of_num (num_copysign x y) = atom_of_num x.
Proof. destruct x as [f|n d]; cbn; [apply atom_fl_with_sign|reflexivity]. Qed.

(* the class of num_of_frac n d is decided by n alone: finite, zero iff n = 0
   (n = 0 gives the dyadic 0/1, never an NQ) *)
Lemma atom_num_of_frac n d : d <> 0 ->
  atom_of_num (num_of_frac n d) = if n =? 0 then AZero else AFin.
Proof.
  intros Hd. unfold num_of_frac.
  set (n1 := if d <? 0 then - n else n). set (d1 := if d <? 0 then - d else d).
  assert (Hn1 : n1 = 0 <-> n = 0) by (unfold n1; destruct (d <? 0); lia).
  assert (Hd1 : 0 < d1) by (unfold d1; destruct (Z.ltb_spec d 0); lia).
  replace (if d <? 0 then (- n, - d) else (n, d)) with (n1, d1) by (unfold n1, d1; destruct (d <? 0); reflexivity).
  cbn beta iota.
  set (g := Z.gcd n1 d1).
  assert (Hg : g <> 0) by (unfold g; intro E; apply Z.gcd_eq_0_r in E; lia).
  destruct (Z.eqb_spec g 0) as [|_]; [tauto|].
  assert (Hq : n1 / g = 0 <-> n1 = 0).
  { destruct (Z.gcd_divide_l n1 d1) as [k Hk]. fold g in Hk. split; intros E.
    - rewrite Hk in E. rewrite Z.div_mul in E by auto. subst k. lia.
    - rewrite E. apply Z.div_0_l. auto. }
  assert (Eg : n1 = 0 -> d1 / g = 1).
  { intros E. unfold g. rewrite E, Z.gcd_0_l, Z.abs_eq by lia. apply Z.div_same. lia. }
  set (q := n1 / g) in *. clearbody q. clearbody g. clearbody n1 d1.
  destruct (is_pow2 (d1 / g)) eqn:Ep; cbn [atom_of_num atom_of_fl]; unfold is_zero; cbn [rc].
  - destruct (Z.eqb_spec (Z.abs q) 0), (Z.eqb_spec n 0); try reflexivity; exfalso; lia.
  - destruct (Z.eqb_spec n 0) as [e|]; [|reflexivity]. exfalso.
    rewrite Eg in Ep by tauto. vm_compute in Ep. discriminate.
Qed.

Lemma atom_num_of_frac_fin n d : d <> 0 ->
  mem (atom_of_num (num_of_frac n d)) (Cls false false true true) = true.
Proof. intros. rewrite atom_num_of_frac by auto. destruct (n =? 0); reflexivity. Qed.

(* an NQ is a NON-dyadic rational, hence non-zero, with a non-zero denominator;
   the type does not say so, `num_okb` (ClassLattice.v) does *)
Definition num_ok (x : num) : Prop := num_okb x = true.

Lemma num_ok_NQ n d : num_ok (NQ n d) <-> n <> 0 /\ d <> 0.
Proof.
  unfold num_ok, num_okb. destruct (Z.eqb_spec n 0), (Z.eqb_spec d 0); cbn; split; intros; try tauto; try discriminate.
Qed.

Lemma pow2_nz k : 0 <= k -> 2 ^ k <> 0.
Proof. intros. pose proof (Z.pow_pos_nonneg 2 k). lia. Qed.

(* one view of a well-formed number, by class *)
Inductive nview (x : num) : atom -> Prop :=
  | NV_nan : num_isnan x = true -> num_isinf x = false -> nview x ANaN
  | NV_inf : num_isnan x = false -> num_isinf x = true -> nview x AInf
  | NV_zero d : num_isnan x = false -> num_isinf x = false -> num_is_zero x = true ->
      num_frac x = Some (0, d) -> d <> 0 -> nview x AZero
  | NV_fin n d : num_isnan x = false -> num_isinf x = false -> num_is_zero x = false ->
      num_frac x = Some (n, d) -> n <> 0 -> d <> 0 -> nview x AFin.

Lemma num_view x : num_ok x -> nview x (atom_of_num x).
Proof.
  destruct x as [[r|s|s]|n d]; cbn [atom_of_num atom_of_fl].
  - intros _. unfold is_zero.
    assert (Hm : rf_m r = 0 <-> rc r = 0) by (unfold rf_m; destruct (rs r); lia).
    destruct (Z.eqb_spec (rc r) 0) as [e|ne].
    + apply Hm in e.
      apply (NV_zero _ (if rexp r >=? 0 then 1 else 2 ^ (- rexp r))); try reflexivity.
      * cbn. unfold is_zero. apply Z.eqb_eq. tauto.
      * cbn. unfold frac_of_rf. rewrite e. destruct (rexp r >=? 0); reflexivity.
      * rewrite Z.geb_leb. destruct (Z.leb_spec 0 (rexp r)); [lia|]. apply pow2_nz. lia.
    + apply (NV_fin _ (if rexp r >=? 0 then rf_m r * 2 ^ rexp r else rf_m r)
                      (if rexp r >=? 0 then 1 else 2 ^ (- rexp r))); try reflexivity.
      * cbn. unfold is_zero. apply Z.eqb_neq. exact ne.
      * cbn. unfold frac_of_rf. destruct (rexp r >=? 0); reflexivity.
      * rewrite Z.geb_leb. destruct (Z.leb_spec 0 (rexp r)); [|tauto].
        pose proof (pow2_nz (rexp r) ltac:(lia)). intro E. apply Z.mul_eq_0 in E. tauto.
      * rewrite Z.geb_leb. destruct (Z.leb_spec 0 (rexp r)); [lia|]. apply pow2_nz. lia.
  - intros _. apply NV_inf; reflexivity.
  - intros _. apply NV_nan; reflexivity.
  - intros H. apply num_ok_NQ in H. destruct H as [Hn Hd].
    destruct (Z.eqb_spec n 0); [tauto|]. apply (NV_fin _ n d); auto.
Qed.

Ltac nviews x y Hx Hy :=
  let Vx := fresh "Vx" in let Vy := fresh "Vy" in
  pose proof (num_view x Hx) as Vx; pose proof (num_view y Hy) as Vy;
  destruct Vx as [X1 X2|X1 X2|dx X1 X2 X3 X4 X5|nx dx X1 X2 X3 X4 X5 X6];
  destruct Vy as [Y1 Y2|Y1 Y2|dy Y1 Y2 Y3 Y4 Y5|ny dy Y1 Y2 Y3 Y4 Y5 Y6];
  repeat match goal with H : _ = _ |- _ => rewrite H end; cbn [orb andb].

Theorem atom_num_add x y : num_ok x -> num_ok y ->
  mem (atom_of_num (num_add x y)) (a_add (atom_of_num x) (atom_of_num y)) = true.
Proof.
  intros Hx Hy.
  assert (G : mem (atom_of_num
       (if num_isnan x || num_isnan y then NF (FNaN false)
        else if num_isinf x then NF (FInf (num_sign x))
        else if num_isinf y then NF (FInf (num_sign y))
        else match num_frac x, num_frac y with
             | Some (n1, d1), Some (n2, d2) => num_of_frac (n1 * d2 + n2 * d1) (d1 * d2)
             | _, _ => NF (FNaN false)
             end)) (a_add (atom_of_num x) (atom_of_num y)) = true).
  { nviews x y Hx Hy; try reflexivity; rewrite atom_num_of_frac by nia; cbn; try reflexivity;
      match goal with |- context [?a =? 0] => destruct (Z.eqb_spec a 0) end;
      try reflexivity; exfalso; nia. }
  destruct x as [a|n d], y as [b|m e]; try exact G.
  cbn [num_add atom_of_num]. apply atom_fl_add.
Qed.

Lemma num_ok_neg x : num_ok x -> num_ok (num_neg x).
Proof.
  destruct x as [f|n d]; cbn; auto. rewrite !num_ok_NQ. lia.
Qed.

Theorem atom_num_sub x y : num_ok x -> num_ok y ->
  mem (atom_of_num (num_sub x y)) (a_add (atom_of_num x) (atom_of_num y)) = true.
Proof.
  intros. unfold num_sub. rewrite <- (atom_num_neg y). apply atom_num_add; auto. apply num_ok_neg; auto.
Qed.

Lemma atom_NQ_ok n d : num_ok (NQ n d) -> atom_of_num (NQ n d) = AFin.
Proof. reflexivity. Qed.

(* the rational arm of RealEngine.mul: its infinity case assumes the other
   operand is a non-zero rational, which holds as one operand is an NQ *)
Lemma atom_num_mul_gen x y : num_ok x -> num_ok y ->
  (atom_of_num x = AFin \/ atom_of_num y = AFin) ->
  mem (atom_of_num
       (if num_isnan x || num_isnan y then NF (FNaN false)
        else if num_isinf x || num_isinf y then NF (FInf (xorb (num_sign x) (num_sign y)))
        else match num_frac x, num_frac y with
             | Some (n1, d1), Some (n2, d2) => num_of_frac (n1 * n2) (d1 * d2)
             | _, _ => NF (FNaN false)
             end)) (a_mul (atom_of_num x) (atom_of_num y)) = true.
Proof.
  intros Hx Hy.
  nviews x y Hx Hy; try reflexivity; intros HF; try (destruct HF; discriminate);
    rewrite atom_num_of_frac by nia; cbn;
    try reflexivity;
    try (rewrite Z.mul_0_r; reflexivity);
    match goal with |- context [?a =? 0] => destruct (Z.eqb_spec a 0) end;
    try reflexivity; exfalso; nia.
Qed.

Theorem atom_num_mul x y : num_ok x -> num_ok y ->
  mem (atom_of_num (num_mul x y)) (a_mul (atom_of_num x) (atom_of_num y)) = true.
Proof.
  intros Hx Hy.
  destruct x as [a|n d], y as [b|m e].
  - cbn [num_mul atom_of_num]. apply atom_fl_mul.
  - apply (atom_num_mul_gen (NF a) (NQ m e)); auto.
  - apply (atom_num_mul_gen (NQ n d) (NF b)); auto.
  - apply (atom_num_mul_gen (NQ n d) (NQ m e)); auto.
Qed.

Theorem atom_num_div x y : num_ok x -> num_ok y ->
  mem (atom_of_num (num_div x y)) (a_div (atom_of_num x) (atom_of_num y)) = true.
Proof.
  intros Hx Hy. unfold num_div.
  nviews x y Hx Hy; try reflexivity.
  rewrite atom_num_of_frac by nia. cbn.
  match goal with |- context [?a =? 0] => destruct (Z.eqb_spec a 0) end;
    try reflexivity; exfalso; nia.
Qed.

(* results of the exact operations are well-formed again *)
Lemma num_of_frac_ok n d : d <> 0 -> num_ok (num_of_frac n d).
Proof.
  intros Hd. unfold num_of_frac.
  set (n1 := if d <? 0 then - n else n). set (d1 := if d <? 0 then - d else d).
  assert (Hd1 : 0 < d1) by (unfold d1; destruct (Z.ltb_spec d 0); lia).
  replace (if d <? 0 then (- n, - d) else (n, d)) with (n1, d1) by (unfold n1, d1; destruct (d <? 0); reflexivity).
  cbn beta iota.
  set (g := Z.gcd n1 d1).
  assert (Hg : 0 < g).
  { pose proof (Z.gcd_nonneg n1 d1). fold g in H. assert (g <> 0); [|lia].
    unfold g; intro E; apply Z.gcd_eq_0_r in E; lia. }
  destruct (Z.eqb_spec g 0) as [|_]; [lia|].
  destruct (is_pow2 (d1 / g)) eqn:Ep; [reflexivity|].
  apply num_ok_NQ.
  destruct (Z.gcd_divide_l n1 d1) as [k Hk]. destruct (Z.gcd_divide_r n1 d1) as [m Hm]. fold g in Hk, Hm.
  assert (Eg : n1 = 0 -> g = d1) by (intros E; unfold g; rewrite E, Z.gcd_0_l; lia).
  clearbody g n1 d1.
  split.
  - intros E. assert (n1 = 0).
    { rewrite Hk in E. rewrite Z.div_mul in E by lia. subst k. lia. }
    rewrite (Eg H), Z.div_same in Ep by lia. vm_compute in Ep. discriminate.
  - intros E. rewrite Hm in E. rewrite Z.div_mul in E by lia. subst m. lia.
Qed.
