(* C13: the verified checker of REACHING-DEFINITION facts
   (fpy2/analysis/reaching_defs.py, define_use.py).  Definitions only.

   Reported facts: every variable use names the definition it resolves to
   (`an_def` of the use's annotation); every binding site and every phi has an
   index; a phi lists its two arguments (`an_args`).  A definition k REACHES a
   use resolved to d when k = d or d is a phi one of whose arguments is reached
   by k (`reach`).  The claim: at run time every read observes a binding made
   at a site whose definition reaches the definition the read resolves to, and
   the value at a phi was bound by a definition that reaches the phi.

   The checker re-runs the bookkeeping locally: an abstract environment maps
   each name to the definition index current at that point; a merge needs a
   reported phi whose arguments contain both incoming indices; a loop head
   needs phis containing the entry index AND the index at the end of the body
   (the back edge); an indexed assignment is a fresh definition of the list. *)
From Coq Require Import ZArith List Bool String.
From FpyV Require Import Num.RealFloat Num.Float Num.CtxDef Lang.Syntax Lang.Values Lang.Sem
  Analysis.ClassLattice Analysis.Instr Analysis.FactClass.
Import ListNotations.

(* ---------------------------------------------------------------- the phi table, reachability *)
Definition ptable := list (nat * list nat).

Inductive reach (T : ptable) : nat -> nat -> Prop :=
  | reach_refl : forall k, reach T k k
  | reach_phi : forall p args q k, In (p, args) T -> In q args -> reach T q k -> reach T p k.

Definition memn (k : nat) (l : list nat) : bool := existsb (Nat.eqb k) l.

Definition in_table (T : ptable) (p : nat) (args : list nat) : bool :=
  existsb (fun pa => Nat.eqb (fst pa) p && forallb (fun q => memn q (snd pa)) args) T.

(* executable reachability (for evaluating the claim on a trace) *)
(* (`if` rather than `&&` / `||`: vm_compute is call-by-value) *)
Fixpoint reachb (T : ptable) (fuel : nat) (p k : nat) : bool :=
  if Nat.eqb p k then true
  else match fuel with
       | O => false
       | S f => existsb (fun pa => if Nat.eqb (fst pa) p then existsb (fun q => reachb T f q k) (snd pa) else false) T
       end.

Definition ev_reach_okb (T : ptable) (ev : event ann) : bool :=
  match ev with
  | EvUse a (Some ad) => reachb T (List.length T) (an_def a) (an_def ad)
  | EvUse _ None => false
  | EvPhi a _ _ (Some ad) => reachb T (List.length T) (an_def a) (an_def ad)
  | EvPhi _ _ _ None => false
  | _ => true
  end.

(* ---------------------------------------------------------------- variable occurrences of a plain expression *)
Fixpoint pat_names (p : pat) : list ident :=
  match p with
  | PVar x => [x]
  | PWild => []
  | PTuple ps => flat_map pat_names ps
  end.

Definition mems (x : ident) (l : list ident) : bool := existsb (String.eqb x) l.

(* every EVar occurrence not bound by an enclosing comprehension *)
Fixpoint expr_vars (bound : list ident) (e : expr) {struct e} : list ident :=
  let ev := expr_vars bound in
  let evs := flat_map (expr_vars bound) in
  match e with
  | EVar x => if mems x bound then [] else [x]
  | ENum _ | ERat _ _ | EBool _ | ECtxVal _ | EOp0 _ => []
  | EOp1 _ a | EPred _ a | ENot a | EFst a | ESnd a | ELen a | ERange1 a | EEnumerate a
  | EDim a | ESum a | EAMin a | EAMax a | EAny a | EAll a => ev a
  | EOp2 _ a b | ERef a b | ERange2 a b | ESize a b => ev a ++ ev b
  | EOp3 _ a b c | EIf a b c | ERange3 a b c => ev a ++ ev b ++ ev c
  | ECompare _ args | EAnd args | EOr args | ETuple args | EList args | EZip args | EEmpty args
  | EMin args | EMax args | ECall _ args | ECtor _ args => evs args
  | ESlice a lo hi =>
      ev a ++ (match lo with Some x => ev x | None => [] end) ++ (match hi with Some x => ev x | None => [] end)
  | EComp gens elt =>
      (fix go (gens : list (pat * expr)) (bound : list ident) : list ident :=
         match gens with
         | [] => expr_vars bound elt
         | (p, it) :: r => expr_vars bound it ++ go r (pat_names p ++ bound)
         end) gens bound
  end.

(* ---------------------------------------------------------------- the checker *)
Definition denvS := list (ident * nat).

Fixpoint dget (G : denvS) (x : ident) : option nat :=
  match G with
  | [] => None
  | (y, k) :: G' => if String.eqb x y then Some k else dget G' x
  end.

Fixpoint dset (G : denvS) (x : ident) (k : nat) : denvS :=
  match G with
  | [] => [(x, k)]
  | (y, j) :: G' => if String.eqb x y then (y, k) :: G' else (y, j) :: dset G' x k
  end.

Definition is_def (G : denvS) (x : ident) (k : nat) : bool :=
  match dget G x with Some j => Nat.eqb j k | None => false end.

Fixpoint phi_of (ph : phis ann) (x : ident) : option ann :=
  match ph with
  | [] => None
  | (y, a) :: r => if String.eqb x y then Some a else phi_of r x
  end.

Section Checker.
Variable T : ptable.

Fixpoint rcheck_expr (G : denvS) (e : aexpr ann) {struct e} : bool :=
  match e with
  | AVar a x => is_def G x (an_def a)
  | ANum _ _ | ARat _ _ _ | ABool _ _ | ACtxVal _ _ | AOp0 _ _ => true
  | AOp1 _ _ e1 | APred _ _ e1 | ANot _ e1 => rcheck_expr G e1
  | AOp2 _ _ e1 e2 => rcheck_expr G e1 && rcheck_expr G e2
  | AOp3 _ _ e1 e2 e3 => rcheck_expr G e1 && rcheck_expr G e2 && rcheck_expr G e3
  | AIf _ c t f => rcheck_expr G c && rcheck_expr G t && rcheck_expr G f
  | ACompare _ _ args | AAnd _ args | AOr _ args | AMin _ args | AMax _ args | ACtor _ _ args =>
      forallb (rcheck_expr G) args
  | AOpaque _ e0 uses =>
      forallb (fun xa => is_def G (fst xa) (an_def (snd xa))) uses &&
      (* the listed uses are all the variable occurrences of the expression *)
      forallb (fun x => mems x (map fst uses)) (expr_vars [] e0) &&
      Nat.eqb (List.length uses) (List.length (expr_vars [] e0))
  end.

Fixpoint rbind (p : apat ann) (G : denvS) : denvS :=
  match p with
  | APVar a x => dset G x (an_def a)
  | APWild => G
  | APTuple ps => fold_left (fun G p => rbind p G) ps G
  end.

(* a phi: both incoming definitions are among its reported arguments, and it is in the table *)
Definition phi_ok (a : ann) (k1 k2 : nat) : bool :=
  memn k1 (an_args a) && memn k2 (an_args a) && in_table T (an_def a) (an_args a).

(* merge of two branch environments: equal indices are kept, different ones need a phi;
   names bound on one side only are dropped *)
Fixpoint rmerge (ph : phis ann) (G1 G2 : denvS) : option denvS :=
  match G1 with
  | [] => Some []
  | (x, k1) :: r =>
      match rmerge ph r G2 with
      | None => None
      | Some G =>
          match dget G2 x with
          | None => Some G
          | Some k2 =>
              match phi_of ph x with
              | Some a => if phi_ok a k1 k2 then Some ((x, an_def a) :: G) else None
              | None => if Nat.eqb k1 k2 then Some ((x, k1) :: G) else None
              end
          end
      end
  end.

Fixpoint nodup_names (ph : phis ann) : bool :=
  match ph with
  | [] => true
  | (x, _) :: r => negb (mems x (map fst r)) && nodup_names r
  end.

(* every reported phi of a merge is about a name bound on both sides; one phi per name *)
Definition phis_bound (ph : phis ann) (G1 G2 : denvS) : bool :=
  nodup_names ph &&
  forallb (fun xa => match dget G1 (fst xa), dget G2 (fst xa) with Some _, Some _ => true | _, _ => false end) ph.

(* loop head: the phis take over; the entry definition must be an argument *)
Fixpoint rhead (ph : phis ann) (G : denvS) : option denvS :=
  match ph with
  | [] => Some G
  | (x, a) :: r =>
      match dget G x with
      | Some k => if memn k (an_args a) && in_table T (an_def a) (an_args a)
                  then rhead r (dset G x (an_def a)) else None
      | None => None
      end
  end.

(* back edge: at the end of the body every name of the head environment is
   bound by the head's definition or by an argument of the head's phi *)
Definition rback (ph : phis ann) (Gh Gb : denvS) : bool :=
  forallb (fun xk =>
    match dget Gb (fst xk) with
    | None => false
    | Some kb =>
        Nat.eqb kb (snd xk) ||
        match phi_of ph (fst xk) with
        | Some a => Nat.eqb (an_def a) (snd xk) && memn kb (an_args a) && in_table T (an_def a) (an_args a)
        | None => false
        end
    end) Gh.

(* the phi events of a loop head are about names of the head environment whose entry is the phi *)
Definition rhead_ok (ph : phis ann) (Gh : denvS) : bool :=
  nodup_names ph &&
  forallb (fun xa => is_def Gh (fst xa) (an_def (snd xa))) ph.

Fixpoint rcheck_stmt (G : denvS) (st : astmt ann) {struct st} : option denvS :=
  let rcheck_block :=
    fix cb (G : denvS) (b : list (astmt ann)) {struct b} : option denvS :=
      match b with
      | [] => Some G
      | st :: r => match rcheck_stmt G st with Some G' => cb G' r | None => None end
      end in
  match st with
  | ASAssign p e => if rcheck_expr G e then Some (rbind p G) else None
  | ASIndexAssign au ad x _ e =>
      if rcheck_expr G e && is_def G x (an_def au) then Some (dset G x (an_def ad)) else None
  | ASIf1 ph c body =>
      if rcheck_expr G c then
        match rcheck_block G body with
        | Some Gb => if phis_bound ph Gb G then rmerge ph Gb G else None
        | None => None
        end
      else None
  | ASIf ph c ift iff =>
      if rcheck_expr G c then
        match rcheck_block G ift, rcheck_block G iff with
        | Some G1, Some G2 =>
            (* an arm that always returns never reaches the join: no phi, the other arm decides *)
            if blk_ret ift then (match ph with [] => Some G2 | _ => None end)
            else if blk_ret iff then (match ph with [] => Some G1 | _ => None end)
            else if phis_bound ph G1 G2 then rmerge ph G1 G2 else None
        | _, _ => None
        end
      else None
  | ASWhile ph c body =>
      match rhead ph G with
      | Some Gh =>
          if rhead_ok ph Gh && rcheck_expr Gh c then
            match rcheck_block Gh body with
            | Some Gb => if rback ph Gh Gb then Some Gh else None
            | None => None
            end
          else None
      | None => None
      end
  | ASFor ph p it body =>
      if rcheck_expr G it then
        match rhead ph G with
        | Some Gh =>
            if rhead_ok ph Gh then
              match rcheck_block (rbind p Gh) body with
              | Some Gb => if rback ph Gh Gb then Some Gh else None
              | None => None
              end
            else None
        | None => None
        end
      else None
  | ASContext x e body =>
      if rcheck_expr G e then
        rcheck_block (match x with Some (a, x) => dset G x (an_def a) | None => G end) body
      else None
  | ASAssert e | ASEffect e | ASReturn e => if rcheck_expr G e then Some G else None
  | ASPass => Some G
  end.

Fixpoint rcheck_block (G : denvS) (b : list (astmt ann)) {struct b} : option denvS :=
  match b with
  | [] => Some G
  | st :: r => match rcheck_stmt G st with Some G' => rcheck_block G' r | None => None end
  end.

Definition rparam_env (ps : list (ann * ident)) : denvS :=
  fold_left (fun G ax => dset G (snd ax) (an_def (fst ax))) ps [].

Definition check_reach_func (f : afunc ann) : bool :=
  match rcheck_block (rparam_env (af_params f)) (af_body f) with Some _ => true | None => false end.

End Checker.

(* the phi table of a function: every reported phi *)
Definition phis_table (ph : phis ann) : ptable := map (fun xa => (an_def (snd xa), an_args (snd xa))) ph.

Fixpoint stmt_table (st : astmt ann) : ptable :=
  match st with
  | ASIf1 ph _ body => phis_table ph ++ flat_map stmt_table body
  | ASIf ph _ t f => phis_table ph ++ flat_map stmt_table t ++ flat_map stmt_table f
  | ASWhile ph _ body | ASFor ph _ _ body => phis_table ph ++ flat_map stmt_table body
  | ASContext _ _ body => flat_map stmt_table body
  | _ => []
  end.

Definition func_table (f : afunc ann) : ptable := flat_map stmt_table (af_body f).
