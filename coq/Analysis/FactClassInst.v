(* C13: the number instance the evaluator is run with in the tie
   (Lang/NumInst.prov_numops restricted to well-formed numbers) satisfies the
   class specification `NumClassSpec` with the rounding transfer `R_prov`:
   exact operation (class tables of ClassLattice.v), then one rounding
   (specials and zeros kept; a finite non-zero value may round to zero or
   overflow to an infinity; under REAL nothing changes). *)
From Coq Require Import ZArith List Bool String Lia.
From FpyV Require Import Num.RealFloat Num.Float Num.CtxDef Lang.Syntax Lang.Values Lang.Sem Lang.NumInst
  Analysis.ClassLattice Analysis.ClassLatticeProofs Analysis.Instr Analysis.FactClass.
Import ListNotations.
Open Scope Z_scope.

(* ---------------------------------------------------------------- exact results are well-formed *)
Lemma num_ok_NF : forall f, num_ok (NF f).
Proof. reflexivity. Qed.

Lemma num_add_ok : forall x y, num_ok x -> num_ok y -> num_ok (num_add x y).
Proof.
  intros x y Hx Hy.
  assert (G : num_ok
       (if num_isnan x || num_isnan y then NF (FNaN false)
        else if num_isinf x then NF (FInf (num_sign x))
        else if num_isinf y then NF (FInf (num_sign y))
        else match num_frac x, num_frac y with
             | Some (n1, d1), Some (n2, d2) => num_of_frac (n1 * d2 + n2 * d1) (d1 * d2)
             | _, _ => NF (FNaN false)
             end)).
  { nviews x y Hx Hy; try reflexivity; apply num_of_frac_ok; nia. }
  destruct x, y; try exact G. reflexivity.
Qed.

Lemma num_sub_ok : forall x y, num_ok x -> num_ok y -> num_ok (num_sub x y).
Proof. intros. unfold num_sub. apply num_add_ok; auto. apply num_ok_neg; auto. Qed.

Lemma num_mul_ok : forall x y, num_ok x -> num_ok y -> num_ok (num_mul x y).
Proof.
  intros x y Hx Hy.
  assert (G : num_ok
       (if num_isnan x || num_isnan y then NF (FNaN false)
        else if num_isinf x || num_isinf y then NF (FInf (xorb (num_sign x) (num_sign y)))
        else match num_frac x, num_frac y with
             | Some (n1, d1), Some (n2, d2) => num_of_frac (n1 * n2) (d1 * d2)
             | _, _ => NF (FNaN false)
             end)).
  { nviews x y Hx Hy; try reflexivity; apply num_of_frac_ok; nia. }
  destruct x, y; try exact G. reflexivity.
Qed.

Lemma num_div_ok : forall x y, num_ok x -> num_ok y -> num_ok (num_div x y).
Proof.
  intros x y Hx Hy. unfold num_div.
  nviews x y Hx Hy; try reflexivity. apply num_of_frac_ok. nia.
Qed.

Lemma num_abs_ok : forall x, num_ok x -> num_ok (num_abs x).
Proof. destruct x as [f|n d]; cbn; auto. rewrite !num_ok_NQ. lia. Qed.

Lemma num_copysign_ok : forall x y, num_ok x -> num_ok (num_copysign x y).
Proof.
  destruct x as [f|n d]; cbn; auto. intros y. rewrite !num_ok_NQ. destruct (num_sign y); lia.
Qed.

(* ---------------------------------------------------------------- one rounding *)
Lemma lift1_round_top : lift1 a_round c_top = c_top.
Proof. reflexivity. Qed.

Lemma R_prov_top : forall C r, mem r (R_prov C c_top) = true.
Proof. intros C r. unfold R_prov. destruct (is_real C); [|rewrite lift1_round_top]; apply mem_top. Qed.

Lemma bind_ok : forall X Y (r : result X) (f : X -> result Y) y,
  bind r f = Ok y -> exists x, r = Ok x /\ f x = Ok y.
Proof. intros X Y [x|e] f y H; cbn in H; [eauto|discriminate]. Qed.

(* rounding a finite operand never gives a NaN; a zero stays a zero *)
Lemma round_finite_zero : forall r p nm rm y,
  is_zero r = true -> round_finite (NF (FFin r)) p nm rm = Ok y -> is_zero y = true.
Proof. intros r p nm rm y Hz H. cbn in H. rewrite Hz in H. inversion H. reflexivity. Qed.

Lemma rf_compare_zero_not_gt : forall z m, is_zero z = true -> rs m = false -> rf_compare z m <> Gt.
Proof.
  intros z m Hz Hs. unfold rf_compare, is_zero in *. rewrite Hz.
  destruct (rc m =? 0); [discriminate|]. rewrite Hs. discriminate.
Qed.

Lemma round_prov_cls : forall c e r cl,
  num_ok e -> ctx_round_prov c e = Ok r -> mem (atom_of_num e) cl = true ->
  mem (atom_of_num r) (R_prov c cl) = true.
Proof.
  intros c e r cl Hok H Hm. unfold R_prov.
  destruct (is_real c) eqn:Er.
  { destruct c; try discriminate. cbn in H. inversion H; subst. exact Hm. }
  eapply lift1_sound; [exact Hm|].
  assert (Hc : c <> CReal) by (intro; subst; discriminate).
  (* specials *)
  destruct e as [[x|s|s]|n d].
  2:{ destruct c; try congruence; cbn in H; inversion H; reflexivity. }
  2:{ destruct c; try congruence; cbn in H; inversion H; reflexivity. }
  - (* a finite dyadic *)
    cbn [atom_of_num atom_of_fl].
    assert (Fin : forall y, (is_zero x = true -> is_zero y = true) ->
                  mem (atom_of_num (NF (FFin y))) (a_round (if is_zero x then AZero else AFin)) = true).
    { intros y Hy. cbn. destruct (is_zero x); [rewrite Hy by auto; reflexivity|]. destruct (is_zero y); reflexivity. }
    assert (Inf : forall s, is_zero x = false ->
                  mem (atom_of_num (NF (FInf s))) (a_round (if is_zero x then AZero else AFin)) = true).
    { intros s Hz. rewrite Hz. reflexivity. }
    destruct c as [ | pmax rm k sp | pmax emin rm k sp | pmax emin pos_max neg_max rm ov k sp | es nbits enable_inf nk eoffset rm ov k nan_value inf_value | nmin rm k sp neg_zero | nmin pos_max neg_max rm ov k sp neg_zero | signed scale nbits rm ov k nan_value inf_value | scale nbits rm ov k nan_value inf_value | nbits eoffset rm ov inf_value ]; try congruence; cbn [ctx_round_prov] in H; try discriminate.
    + destruct (is_det k && is_default_sp sp); [|discriminate].
      apply bind_ok in H. destruct H as (y & Hy & E). inversion E; subst. apply Fin.
      intros Hz. eapply round_finite_zero; eauto.
    + destruct (is_det k && is_default_sp sp); [|discriminate].
      apply bind_ok in H. destruct H as (y & Hy & E). inversion E; subst. apply Fin.
      intros Hz. eapply round_finite_zero; eauto.
    + destruct enable_inf; [|discriminate]. destruct nk; try discriminate.
      destruct eoffset; try discriminate. destruct k as [[| |]|]; try discriminate.
      destruct nan_value; try discriminate. destruct inf_value; try discriminate.
      apply bind_ok in H. destruct H as (y & Hy & E).
      set (maxval := RF false (bitmask (es - 1) - (nbits - es) + 1) (bitmask (nbits - es))) in *.
      assert (Zy : is_zero x = true -> is_zero y = true) by (intros Hz; eapply round_finite_zero; eauto).
      destruct (rf_compare (rf_abs y) maxval) eqn:Ecmp.
      * inversion E; subst. apply Fin; auto.
      * inversion E; subst. apply Fin; auto.
      * (* overflow: the operand was not a zero *)
        assert (Nz : is_zero x = false).
        { destruct (is_zero x) eqn:Hz; auto. exfalso.
          apply (rf_compare_zero_not_gt (rf_abs y) maxval); auto.
          all: try (unfold is_zero, rf_abs in *; cbn; apply Zy; reflexivity). }
        destruct ov; try discriminate.
        -- destruct (overflow_to_inf rm (rs y)); inversion E; subst; [apply Inf; auto|].
           rewrite Nz. cbn. match goal with |- context [is_zero ?z] => destruct (is_zero z) end; reflexivity.
        -- inversion E; subst. rewrite Nz. cbn. match goal with |- context [is_zero ?z] => destruct (is_zero z) end; reflexivity.
  - (* a non-dyadic rational: any non-NaN result *)
    cbn [atom_of_num].
    destruct c as [ | pmax rm k sp | pmax emin rm k sp | pmax emin pos_max neg_max rm ov k sp | es nbits enable_inf nk eoffset rm ov k nan_value inf_value | nmin rm k sp neg_zero | nmin pos_max neg_max rm ov k sp neg_zero | signed scale nbits rm ov k nan_value inf_value | scale nbits rm ov k nan_value inf_value | nbits eoffset rm ov inf_value ]; try congruence; cbn [ctx_round_prov] in H; try discriminate.
    + destruct (is_det k && is_default_sp sp); [|discriminate].
      apply bind_ok in H. destruct H as (y & Hy & E). inversion E; subst. cbn. destruct (is_zero y); reflexivity.
    + destruct (is_det k && is_default_sp sp); [|discriminate].
      apply bind_ok in H. destruct H as (y & Hy & E). inversion E; subst. cbn. destruct (is_zero y); reflexivity.
    + destruct enable_inf; [|discriminate]. destruct nk; try discriminate.
      destruct eoffset; try discriminate. destruct k as [[| |]|]; try discriminate.
      destruct nan_value; try discriminate. destruct inf_value; try discriminate.
      apply bind_ok in H. destruct H as (y & Hy & E).
      destruct (rf_compare _ _); try (inversion E; subst; cbn; destruct (is_zero y); reflexivity).
      destruct ov; try discriminate.
      * destruct (overflow_to_inf rm (rs y)); inversion E; subst; [reflexivity|]. cbn. match goal with |- context [is_zero ?z] => destruct (is_zero z) end; reflexivity.
      * inversion E; subst. cbn. match goal with |- context [is_zero ?z] => destruct (is_zero z) end; reflexivity.
Qed.

(* ---------------------------------------------------------------- comparisons *)
Lemma rf_compare_eq_zero : forall a b, rf_compare a b = Eq -> is_zero a = is_zero b.
Proof.
  intros a b H. unfold rf_compare, is_zero in *.
  destruct (rc a =? 0), (rc b =? 0); auto.
  - destruct (rs b); discriminate.
  - destruct (rs a); discriminate.
Qed.

Lemma num_compare_nan : forall x y c, num_compare x y = Some c ->
  atom_of_num x <> ANaN /\ atom_of_num y <> ANaN.
Proof.
  intros [[a|s|s]|n d] [[b|t|t]|m e] c H; cbn in H; try discriminate; cbn; split; try discriminate;
    try (destruct (is_zero a); discriminate); try (destruct (is_zero b); discriminate).
Qed.

Lemma pow2_pos' : forall k, 0 <= k -> 0 < 2 ^ k.
Proof. intros. apply Z.pow_pos_nonneg; lia. Qed.

Lemma rf_cmp_frac_eq_nz : forall a n d, n <> 0 -> rf_cmp_frac a n d = Eq -> is_zero a = false.
Proof.
  intros a n d Hn H. unfold rf_cmp_frac, is_zero in *.
  destruct (Z.eqb_spec (rc a) 0) as [e|]; auto. exfalso.
  assert (Hm : rf_m a = 0) by (unfold rf_m; rewrite e; destruct (rs a); reflexivity).
  rewrite Hm in H. rewrite Z.geb_leb in H. destruct (Z.leb_spec 0 (rexp a)).
  - apply Z.compare_eq in H. lia.
  - apply Z.compare_eq in H. pose proof (pow2_pos' (- rexp a) ltac:(lia)). nia.
Qed.

Lemma num_compare_eq : forall x y, num_ok x -> num_ok y -> num_compare x y = Some Eq ->
  atom_of_num x = atom_of_num y.
Proof.
  intros x y Hx Hy H.
  destruct x as [[a|s|s]|n d], y as [[b|t|t]|m e]; cbn in H; try discriminate; cbn; try reflexivity;
    try (destruct s; discriminate); try (destruct t; discriminate).
  - inversion H as [E]. rewrite (rf_compare_eq_zero _ _ E). reflexivity.
  - apply num_ok_NQ in Hy. inversion H as [E]. rewrite (rf_cmp_frac_eq_nz a m e); tauto.
  - apply num_ok_NQ in Hx. inversion H as [E].
    destruct (rf_cmp_frac b n d) eqn:E2; try discriminate. rewrite (rf_cmp_frac_eq_nz b n d); tauto.
Qed.

Lemma num_compare_zero : forall x y, atom_of_num x = AZero -> atom_of_num y = AZero -> num_compare x y = Some Eq.
Proof.
  intros [[a|s|s]|n d] [[b|t|t]|m e] Hx Hy; cbn in *; try discriminate.
  destruct (is_zero a) eqn:Za; [|discriminate]. destruct (is_zero b) eqn:Zb; [|discriminate].
  unfold rf_compare. unfold is_zero in *. rewrite Za, Zb. reflexivity.
Qed.

Lemma atom_special x :
  (num_isnan x = true <-> atom_of_num x = ANaN) /\ (num_isinf x = true <-> atom_of_num x = AInf).
Proof.
  destruct x as [[r|s|s]|n d]; cbn; repeat split; try discriminate; try reflexivity; try congruence;
    destruct (is_zero r); discriminate.
Qed.

(* ---------------------------------------------------------------- the instance *)
Lemma ok1_inv : forall X (x : num) (r : result X) y, ok1 x r = Ok y -> num_ok x /\ r = Ok y.
Proof. intros X x r y H. unfold ok1 in H. destruct (num_okb x) eqn:E; [split; auto|discriminate]. Qed.

Theorem okprov_class_spec : NumClassSpec okprov_numops R_prov.
Proof.
  constructor.
  - (* nullary *)
    intros o C r H. cbn in H. destruct o; try discriminate; inversion H; subst; unfold R_prov;
      destruct (is_real C); reflexivity.
  - (* unary *)
    intros o C x r a H Hm. cbn in H. apply ok1_inv in H. destruct H as [Hx H].
    destruct o; try discriminate; cbn [unop_prov] in H; cbn [op1_exact]; try apply R_prov_top.
    + eapply round_prov_cls; [| exact H |]; [apply num_ok_neg; exact Hx|]. rewrite atom_num_neg, lift1_id. exact Hm.
    + eapply round_prov_cls; [| exact H |]; [apply num_abs_ok; exact Hx|]. rewrite atom_num_abs, lift1_id. exact Hm.
    + eapply round_prov_cls; [| exact H |]; [exact Hx|]. rewrite lift1_id. exact Hm.
    + destruct C; try (unfold ctx_round_exact_prov in H; apply bind_ok in H; destruct H as (y & Hy & E);
        assert (r = y) by (destruct (num_isnan x); [inversion E; auto|];
                           destruct (num_compare y x) as [[]|]; inversion E; auto); subst y;
        eapply round_prov_cls; [| exact Hy |]; [exact Hx|]; rewrite lift1_id; exact Hm).
      inversion H; subst. unfold R_prov. cbn [is_real]. rewrite lift1_id. exact Hm.
  - (* binary *)
    intros o C x y r a b H Hma Hmb. cbn in H. apply ok1_inv in H. destruct H as [Hx H].
    apply ok1_inv in H. destruct H as [Hy H].
    destruct o; try discriminate; cbn [binop_prov] in H; cbn [op2_exact]; try apply R_prov_top.
    + eapply round_prov_cls; [| exact H |]; [apply num_add_ok; assumption|]. eapply lift2_sound; eauto. apply atom_num_add; auto.
    + eapply round_prov_cls; [| exact H |]; [apply num_sub_ok; assumption|]. eapply lift2_sound; eauto. apply atom_num_sub; auto.
    + eapply round_prov_cls; [| exact H |]; [apply num_mul_ok; assumption|]. eapply lift2_sound; eauto. apply atom_num_mul; auto.
    + eapply round_prov_cls; [| exact H |]; [apply num_div_ok; assumption|]. eapply lift2_sound; eauto. apply atom_num_div; auto.
  - (* ternary *)
    intros o C x y z r a b c H Hma Hmb Hmc. cbn in H. apply ok1_inv in H. destruct H as [Hx H].
    apply ok1_inv in H. destruct H as [Hy H]. apply ok1_inv in H. destruct H as [Hz H].
    destruct o; try discriminate; cbn [ternop_prov] in H; cbn [op3_exact].
    eapply round_prov_cls; [| exact H |]; [apply num_add_ok; try assumption; apply num_mul_ok; assumption|].
    eapply lift3_sound; eauto. unfold a_fma. eapply lift1_sound; [apply atom_num_mul; auto|].
    apply atom_num_add; auto. apply num_mul_ok; auto.
  - intros x. cbn. apply (proj1 (atom_special x)).
  - intros x. cbn. apply (proj2 (atom_special x)).
  - intros [[r|s|s]|n d]; cbn; try (split; discriminate); try (split; reflexivity).
    destruct (is_zero r); split; reflexivity.
  - intros x H. cbn in H. discriminate.
  - intros x y c H. cbn in H. destruct (num_okb x && num_okb y); [|discriminate]. eapply num_compare_nan; eauto.
  - intros x y H. cbn in H. destruct (num_okb x) eqn:Ex, (num_okb y) eqn:Ey; cbn in H; try discriminate.
    apply num_compare_eq; auto.
  - intros x y Hx Hy. cbn.
    assert (Ox : num_okb x = true) by (destruct x; [reflexivity|discriminate]).
    assert (Oy : num_okb y = true) by (destruct y; [reflexivity|discriminate]).
    rewrite Ox, Oy. cbn. apply num_compare_zero; auto.
Qed.
