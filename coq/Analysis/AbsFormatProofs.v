(* Soundness of the abstract arithmetic of AbstractFormat (property C14, part a).
   gamma A : the set of extended reals with signed zero (values of type fl of
   Num/Float.v) the format A stands for.  The "exact result" of an operation
   is fl_add / fl_sub / fl_mul / fl_neg / fl_abs of Num/Float.v, proved in C05
   (FloatProofs) to be the IEEE-754 operation on extended reals with the IEEE
   sign rules. *)
From Coq Require Import ZArith List Bool Lia Reals Psatz Lra.
From Flocq Require Import Core.Zaux Core.Raux Core.Defs Core.Digits Core.Float_prop
  Core.Generic_fmt Core.FLX Core.FLT Calc.Operations.
From FpyV Require Import Num.RealFloat Num.RealFloatProofs Num.Float Num.FloatProofs Analysis.AbsFormat.
Open Scope Z_scope.

(* ---------------------------------------------------------------- concretisation *)
Definition prec_ok (p : ext) (m : Z) : Prop :=
  match p with EFin p => Z.abs m < 2 ^ p | EPInf => True | EMInf => False end.
Definition exp_ok (e : ext) (ex : Z) : Prop :=
  match e with EFin e => e <= ex | EMInf => True | EPInf => False end.

(* r = m * 2^ex with |m| < 2^prec and ex >= exp *)
Definition repr (p e : ext) (r : R) : Prop :=
  exists m ex, r = F2R (Float radix2 m ex) /\ prec_ok p m /\ exp_ok e ex.

Definition le_bnd (r : R) (b : bnd) : Prop :=
  match b with BFin y => (r <= R2R y)%R | BInf s => s = false | BNaN => False end.
Definition ge_bnd (r : R) (b : bnd) : Prop :=
  match b with BFin y => (R2R y <= r)%R | BInf s => s = true | BNaN => False end.

Definition fin_in (A : absfmt) (r : R) : Prop :=
  repr (a_prec A) (a_exp A) r /\ le_bnd r (a_pos A) /\ ge_bnd r (a_neg A).

Definition gamma (A : absfmt) (v : fl) : Prop :=
  match v with
  | FNaN _ => a_nan A = true
  | FInf s => (if s then a_ninf A else a_pinf A) = true
  | FFin x => rf_wf x /\
      if rc x =? 0 then (rs x = true -> a_nz A = true) else fin_in A (R2R x)
  end.

(* class convention (constructor: prec > 0; docstring: pos_bound >= 0 >= neg_bound) *)
Definition bnd_wf (b : bnd) : Prop := match b with BFin x => rf_wf x | BInf _ => True | BNaN => False end.
Definition af_wf (A : absfmt) : Prop :=
  match a_prec A with EFin p => 1 <= p | EPInf => True | EMInf => False end /\
  a_exp A <> EPInf /\
  bnd_wf (a_pos A) /\ bnd_wf (a_neg A) /\ le_bnd 0 (a_pos A) /\ ge_bnd 0 (a_neg A).

Definition fin_bounds (A : absfmt) : Prop :=
  bnd_is_float (a_pos A) = false /\ bnd_is_float (a_neg A) = false.

Definition is_negzero (v : fl) : bool := match v with FFin x => (rc x =? 0) && rs x | _ => false end.
Definition is_poszero (v : fl) : bool := match v with FFin x => (rc x =? 0) && negb (rs x) | _ => false end.

(* ---------------------------------------------------------------- basics *)
Lemma af_wfb_wf A : af_wfb A = true -> af_wf A.
Proof.
  unfold af_wfb, af_wf. intros H.
  apply andb_prop in H as [H Hn]. apply andb_prop in H as [H Hp]. apply andb_prop in H as [Hq He].
  repeat split.
  - destruct (a_prec A); try discriminate; auto. lia.
  - destruct (a_exp A); try discriminate; congruence.
  - destruct (a_pos A); simpl in *; try discriminate; auto. unfold rf_wf. lia.
  - destruct (a_neg A); simpl in *; try discriminate; auto. unfold rf_wf. lia.
  - destruct (a_pos A) as [x| |]; simpl in *; try discriminate.
    + apply andb_prop in Hp as [Hc Hs]. apply orb_prop in Hs as [Hs|Hs].
      * rewrite R2R_zero by lia. lra.
      * destruct (Z.eq_dec (rc x) 0) as [Z0|Z0]. rewrite R2R_zero by lia; lra.
        apply Rlt_le, R2R_sign_pos; [unfold rf_wf; lia|assumption|destruct (rs x); [discriminate|reflexivity]].
    + destruct s; [discriminate|reflexivity].
  - destruct (a_neg A) as [x| |]; simpl in *; try discriminate.
    + apply andb_prop in Hn as [Hc Hs]. apply orb_prop in Hs as [Hs|Hs].
      * rewrite R2R_zero by lia. lra.
      * destruct (Z.eq_dec (rc x) 0) as [Z0|Z0]. rewrite R2R_zero by lia; lra.
        apply Rlt_le, R2R_sign_neg; [unfold rf_wf; lia|assumption|assumption].
    + assumption.
Qed.

Lemma repr_zero p e : match p with EFin p => 0 <= p | EPInf => True | EMInf => False end -> e <> EPInf -> repr p e 0.
Proof.
  intros Hp He. exists 0, (match e with EFin z => z | _ => 0 end). split; [symmetry; apply F2R_0|]. split.
  - destruct p; simpl; auto. apply Z.pow_pos_nonneg; lia.
  - destruct e; simpl; auto. lia.
Qed.

Lemma fin_in_zero A : af_wf A -> fin_in A 0.
Proof.
  intros (Hp & He & _ & _ & Hpos & Hneg). split; [|split]; auto.
  apply repr_zero; auto. destruct (a_prec A); auto. lia.
Qed.

Lemma gamma_fin A x : af_wf A -> gamma A (FFin x) -> fin_in A (R2R x).
Proof.
  intros Hw [Hx H]. destruct (Z.eqb_spec (rc x) 0) as [Z0|Z0]; [|exact H].
  rewrite R2R_zero by assumption. apply fin_in_zero; assumption.
Qed.

Lemma fin_gamma A x : rf_wf x -> fin_in A (R2R x) -> (rc x = 0 -> rs x = true -> a_nz A = true) -> gamma A (FFin x).
Proof.
  intros Hx Hf Hz. split; [assumption|]. destruct (Z.eqb_spec (rc x) 0); auto.
Qed.

Lemma repr_opp p e r : repr p e r -> repr p e (- r).
Proof.
  intros (m & ex & -> & Hp & He). exists (- m), ex. split; [symmetry; apply F2R_Zopp|]. split; [|assumption].
  destruct p; simpl in *; auto. rewrite Z.abs_opp. assumption.
Qed.

Lemma repr_abs p e r : repr p e r -> repr p e (Rabs r).
Proof.
  intros (m & ex & -> & Hp & He). exists (Z.abs m), ex. split; [symmetry; apply F2R_Zabs|]. split; [|assumption].
  destruct p; simpl in *; auto. rewrite Z.abs_involutive. assumption.
Qed.

Lemma R2R_neg_mk x : R2R (RF (negb (rs x)) (rexp x) (rc x)) = (- R2R x)%R.
Proof. apply (neg_denote x). Qed.

Lemma R2R_abs_mk x : rf_wf x -> R2R (RF false (rexp x) (rc x)) = Rabs (R2R x).
Proof. apply (abs_denote x). Qed.

(* bounds *)
Lemma le_bnd_neg r b : ge_bnd r b -> le_bnd (- r) (bneg b).
Proof. destruct b as [y|s|]; simpl; auto. rewrite (neg_denote y). lra. intros ->. reflexivity. Qed.
Lemma ge_bnd_neg r b : le_bnd r b -> ge_bnd (- r) (bneg b).
Proof. destruct b as [y|s|]; simpl; auto. rewrite (neg_denote y). lra. intros ->. reflexivity. Qed.

Lemma bnd_gt_R a b : rf_wf a -> rf_wf b -> bnd_gt (BFin a) (BFin b) = true <-> (R2R a > R2R b)%R.
Proof.
  intros Ha Hb. simpl. rewrite compare_denote by assumption.
  destruct (Rcompare_spec (R2R a) (R2R b)); split; intros; try discriminate; try lra; reflexivity.
Qed.
Lemma bnd_lt_R a b : rf_wf a -> rf_wf b -> bnd_lt (BFin a) (BFin b) = true <-> (R2R a < R2R b)%R.
Proof.
  intros Ha Hb. simpl. rewrite compare_denote by assumption.
  destruct (Rcompare_spec (R2R a) (R2R b)); split; intros; try discriminate; try lra; reflexivity.
Qed.

Lemma bmax_wf a b : bnd_wf a -> bnd_wf b -> bnd_wf (bmax a b).
Proof. unfold bmax. destruct (bnd_gt b a); auto. Qed.
Lemma bmin_wf a b : bnd_wf a -> bnd_wf b -> bnd_wf (bmin a b).
Proof. unfold bmin. destruct (bnd_lt b a); auto. Qed.

Ltac bflags :=
  repeat match goal with
  | |- context [a_pinf ?A] => destruct (a_pinf A)
  | |- context [a_ninf ?A] => destruct (a_ninf A)
  | |- context [a_nan ?A] => destruct (a_nan A)
  | |- context [a_nz ?A] => destruct (a_nz A)
  end; simpl; try reflexivity; try discriminate.

Ltac bsolve :=
  simpl in *; try contradiction; try discriminate; subst; simpl in *;
  try discriminate; try reflexivity; try assumption;
  repeat match goal with s : bool |- _ => destruct s; simpl in *; try discriminate; try reflexivity; try assumption end.

Lemma le_bmax_l r a b : bnd_wf a -> bnd_wf b -> le_bnd r a -> le_bnd r (bmax a b).
Proof.
  unfold bmax. intros Ha Hb H. destruct (bnd_gt b a) eqn:G; [|assumption].
  destruct a as [x|s|], b as [y|t|]; try solve [bsolve].
  apply (bnd_gt_R y x) in G; auto. simpl in *. lra.
Qed.
Lemma le_bmax_r r a b : bnd_wf a -> bnd_wf b -> le_bnd r b -> le_bnd r (bmax a b).
Proof.
  unfold bmax. intros Ha Hb H. destruct (bnd_gt b a) eqn:G; [assumption|].
  destruct a as [x|s|], b as [y|t|]; try solve [bsolve].
  assert (~ (R2R y > R2R x)%R) by (intros C; apply (bnd_gt_R y x) in C; auto; congruence). simpl in *. lra.
Qed.
Lemma ge_bmin_l r a b : bnd_wf a -> bnd_wf b -> ge_bnd r a -> ge_bnd r (bmin a b).
Proof.
  unfold bmin. intros Ha Hb H. destruct (bnd_lt b a) eqn:G; [|assumption].
  destruct a as [x|s|], b as [y|t|]; try solve [bsolve].
  apply (bnd_lt_R y x) in G; auto. simpl in *. lra.
Qed.
Lemma ge_bmin_r r a b : bnd_wf a -> bnd_wf b -> ge_bnd r b -> ge_bnd r (bmin a b).
Proof.
  unfold bmin. intros Ha Hb H. destruct (bnd_lt b a) eqn:G; [assumption|].
  destruct a as [x|s|], b as [y|t|]; try solve [bsolve].
  assert (~ (R2R y < R2R x)%R) by (intros C; apply (bnd_lt_R y x) in C; auto; congruence). simpl in *. lra.
Qed.

(* ---------------------------------------------------------------- negation *)
(* full-strength statement (refuted below):
     forall A x, af_wf A -> gamma A x -> gamma (af_neg A) (fl_neg x)
   what is missing in the partial theorem: the operand +0 of a format without a
   negative zero (its exact negation is -0, __neg__ copies has_neg_zero) *)
Theorem neg_sound_partial A x : af_wf A -> gamma A x ->
  (is_poszero x = true -> a_nz A = true) -> gamma (af_neg A) (fl_neg x).
Proof.
  intros Hw Hg Hz. destruct x as [x|s|s]; simpl in *.
  - destruct Hg as [Hx Hg]. split; [exact Hx|].
    destruct (Z.eqb_spec (rc x) 0) as [Z0|Z0].
    + intros _. destruct (rs x) eqn:S; [apply Hg; reflexivity|apply Hz; reflexivity].
    + destruct Hg as (Hr & Hp & Hn). rewrite R2R_neg_mk. split; [|split]; simpl.
      * apply repr_opp. exact Hr.
      * apply le_bnd_neg. exact Hn.
      * apply ge_bnd_neg. exact Hp.
  - destruct s; simpl; assumption.
  - assumption.
Qed.

Lemma neg_wf A : af_wf A -> af_wf (af_neg A).
Proof.
  intros (Hp & He & Wp & Wn & Lp & Ln). unfold af_wf; simpl. repeat split; auto.
  - destruct (a_neg A); simpl in *; auto.
  - destruct (a_pos A); simpl in *; auto.
  - replace 0%R with (- 0)%R by lra. apply le_bnd_neg. exact Ln.
  - replace 0%R with (- 0)%R by lra. apply ge_bnd_neg. exact Lp.
Qed.

(* ---------------------------------------------------------------- absolute value *)
(* full-strength statement (refuted below):
     forall A x, af_wf A -> gamma A x -> gamma (af_abs A) (fl_abs x)
   missing: negative members below -pos_bound (the result keeps pos_bound and
   ignores |neg_bound|) *)
Definition abs_ok (A : absfmt) : Prop := forall r, ge_bnd r (a_neg A) -> le_bnd (- r) (a_pos A).

Theorem abs_sound_partial A x : af_wf A -> abs_ok A -> gamma A x -> gamma (af_abs A) (fl_abs x).
Proof.
  intros Hw Hok Hg. destruct x as [x|s|s]; simpl in *.
  - destruct Hg as [Hx Hg]. split; [exact Hx|].
    destruct (Z.eqb_spec (rc x) 0) as [Z0|Z0]; [discriminate|].
    destruct Hg as (Hr & Hp & Hn). rewrite R2R_abs_mk by assumption. split; [|split]; simpl.
    + apply repr_abs. exact Hr.
    + unfold Rabs. destruct (Rcase_abs (R2R x)); [apply Hok; exact Hn|exact Hp].
    + unfold R2R, rf_zero; simpl. rewrite F2R_0. apply Rabs_pos.
  - destruct s; rewrite Hg; auto using orb_true_r.
  - assumption.
Qed.

Lemma abs_wf A : af_wf A -> af_wf (af_abs A).
Proof.
  intros (Hp & He & Wp & Wn & Lp & Ln). unfold af_wf; simpl. repeat split; auto.
  - unfold rf_wf; simpl; lia.
  - unfold R2R, rf_zero; simpl. rewrite F2R_0. lra.
Qed.

(* ---------------------------------------------------------------- monotonicity, join *)
Lemma gamma_mono A B :
  (forall m, prec_ok (a_prec A) m -> prec_ok (a_prec B) m) ->
  (forall ex, exp_ok (a_exp A) ex -> exp_ok (a_exp B) ex) ->
  (forall r, le_bnd r (a_pos A) -> le_bnd r (a_pos B)) ->
  (forall r, ge_bnd r (a_neg A) -> ge_bnd r (a_neg B)) ->
  (a_pinf A = true -> a_pinf B = true) -> (a_ninf A = true -> a_ninf B = true) ->
  (a_nan A = true -> a_nan B = true) -> (a_nz A = true -> a_nz B = true) ->
  forall v, gamma A v -> gamma B v.
Proof.
  intros Hp He Hpos Hneg F1 F2 F3 F4 v. destruct v as [x|s|s]; simpl.
  - intros [Hx H]. split; [exact Hx|]. destruct (rc x =? 0); [auto|].
    destruct H as ((m & ex & E & P & X) & L & G). split; [|split]; auto.
    exists m, ex. auto.
  - destruct s; auto.
  - auto.
Qed.

Lemma prec_ok_max_l a b m : prec_ok a m -> prec_ok (ext_max a b) m.
Proof.
  unfold ext_max, ext_gt. destruct a as [x| |], b as [y| |]; simpl; auto; try contradiction.
  destruct (Z.ltb_spec x y); auto. intros Hm. eapply Z.lt_le_trans; [exact Hm|]. apply Z.pow_le_mono_r; lia.
Qed.
Lemma prec_ok_max_r a b m : prec_ok b m -> prec_ok (ext_max a b) m.
Proof.
  unfold ext_max, ext_gt. destruct a as [x| |], b as [y| |]; simpl; auto; try contradiction.
  destruct (Z.ltb_spec x y); auto. intros Hm. eapply Z.lt_le_trans; [exact Hm|]. apply Z.pow_le_mono_r; lia.
Qed.
Lemma exp_ok_min_l a b ex : exp_ok a ex -> exp_ok (ext_min a b) ex.
Proof.
  unfold ext_min. destruct a as [x| |], b as [y| |]; simpl; auto; try contradiction.
  destruct (Z.ltb_spec y x); simpl; lia.
Qed.
Lemma exp_ok_min_r a b ex : exp_ok b ex -> exp_ok (ext_min a b) ex.
Proof.
  unfold ext_min. destruct a as [x| |], b as [y| |]; simpl; auto; try contradiction.
  destruct (Z.ltb_spec y x); simpl; lia.
Qed.

Theorem or_sound_l A B v : af_wf A -> af_wf B -> gamma A v -> gamma (af_or A B) v.
Proof.
  intros (_ & _ & Wp & Wn & _) (_ & _ & Wp' & Wn' & _). apply gamma_mono; simpl.
  - intros m. apply prec_ok_max_l.
  - intros ex. apply exp_ok_min_l.
  - intros r. apply le_bmax_l; assumption.
  - intros r. apply ge_bmin_l; assumption.
  - intros ->; reflexivity.
  - intros ->; reflexivity.
  - intros ->; reflexivity.
  - intros ->; reflexivity.
Qed.

Theorem or_sound_r A B v : af_wf A -> af_wf B -> gamma B v -> gamma (af_or A B) v.
Proof.
  intros (_ & _ & Wp & Wn & _) (_ & _ & Wp' & Wn' & _). apply gamma_mono; simpl.
  - intros m. apply prec_ok_max_r.
  - intros ex. apply exp_ok_min_r.
  - intros r. apply le_bmax_r; assumption.
  - intros r. apply ge_bmin_r; assumption.
  - intros ->; apply orb_true_r.
  - intros ->; apply orb_true_r.
  - intros ->; apply orb_true_r.
  - intros ->; apply orb_true_r.
Qed.

Lemma or_wf A B : af_wf A -> af_wf B -> af_wf (af_or A B).
Proof.
  intros (Hp & He & Wp & Wn & Lp & Ln) (Hp' & He' & Wp' & Wn' & Lp' & Ln'). unfold af_wf; simpl. repeat split.
  - unfold ext_max, ext_gt. destruct (a_prec A), (a_prec B); simpl in *; auto. destruct (z <? z0); auto.
  - unfold ext_min. destruct (a_exp A), (a_exp B); simpl in *; try congruence. destruct (z0 <? z); congruence.
  - apply bmax_wf; assumption.
  - apply bmin_wf; assumption.
  - apply le_bmax_l; assumption.
  - apply ge_bmin_l; assumption.
Qed.

(* ---------------------------------------------------------------- addition, subtraction *)
Lemma normalize_n b n y : rf_wf b -> normalize b None (Some n) = Ok y ->
  R2R y = R2R b /\ rexp y = n + 1 /\ rf_wf y.
Proof.
  intros Hb H. destruct (normalize_denote b None (Some n) y Hb H) as (E & _ & W).
  split; [exact E|split; [|exact W]].
  unfold normalize in H.
  destruct (rexp b - (n + 1) =? 0); [injection H as <-; reflexivity|].
  destruct (rexp b - (n + 1) >? 0); [injection H as <-; reflexivity|].
  destruct (negb _); [discriminate|injection H as <-; reflexivity].
Qed.

Lemma abs_le_bound M e y : rf_wf y -> rexp y = e ->
  (Rabs (F2R (Float radix2 M e)) <= R2R y)%R -> Z.abs M <= rc y.
Proof.
  intros Hy He H. rewrite <- F2R_Zabs in H. unfold R2R in H. rewrite He in H.
  apply le_F2R in H. unfold rf_m in H. unfold rf_wf in Hy. destruct (rs y); lia.
Qed.

Lemma lt_pow_bitlen c : 0 <= c -> c < 2 ^ Z.max (bitlen c) 1.
Proof.
  intros Hc. destruct (Z.eq_dec c 0) as [->|Hn]; [reflexivity|].
  pose proof (bitlen_bounds c ltac:(lia)) as [_ B]. pose proof (bitlen_pos c ltac:(lia)).
  replace (Z.max (bitlen c) 1) with (bitlen c) by lia. exact B.
Qed.

Lemma sum_repr p1 e1 p2 e2 r1 r2 : e1 <> EPInf -> e2 <> EPInf ->
  repr p1 e1 r1 -> repr p2 e2 r2 ->
  exists M ex, (r1 + r2)%R = F2R (Float radix2 M ex) /\ exp_ok (ext_min e1 e2) ex /\
               (forall ee, ext_min e1 e2 = EFin ee -> ex = ee).
Proof.
  intros N1 N2 (m1 & x1 & -> & _ & E1) (m2 & x2 & -> & _ & E2).
  set (e := ext_min e1 e2).
  set (ex := match e with EFin ee => ee | _ => Z.min x1 x2 end).
  assert (Hx : ex <= x1 /\ ex <= x2 /\ exp_ok e ex /\ (forall ee, e = EFin ee -> ex = ee)).
  { unfold ex, e, ext_min. destruct e1 as [a| |], e2 as [b| |]; simpl in *; try congruence; try contradiction.
    - destruct (Z.ltb_spec b a); simpl; repeat split; try lia; intros ee [= <-]; reflexivity.
    - repeat split; try lia. intros ee; discriminate.
    - repeat split; try lia. intros ee; discriminate.
    - repeat split; try lia. intros ee; discriminate. }
  destruct Hx as (L1 & L2 & Ok & Eq).
  exists (m1 * 2 ^ (x1 - ex) + m2 * 2 ^ (x2 - ex)), ex. split; [|split; assumption].
  rewrite (F2R_change_exp radix2 ex m1 x1 L1), (F2R_change_exp radix2 ex m2 x2 L2).
  unfold F2R; simpl. rewrite plus_IZR. ring.
Qed.

Lemma bmax_abs_bound p n m r : rf_wf p -> rf_wf n ->
  bmax (BFin p) (babs (BFin n)) = BFin m -> (r <= R2R p)%R -> (R2R n <= r)%R ->
  rf_wf m /\ (Rabs r <= R2R m)%R.
Proof.
  intros Hp Hn Hm Hr Hl. simpl in Hm. unfold bmax in Hm.
  assert (Wa : rf_wf (rf_abs n)) by exact Hn.
  assert (Ea : R2R (rf_abs n) = Rabs (R2R n)) by (apply abs_denote; exact Hn).
  destruct (bnd_gt (BFin (rf_abs n)) (BFin p)) eqn:G; injection Hm as <-.
  - split; [exact Wa|]. apply (bnd_gt_R (rf_abs n) p) in G; auto. rewrite Ea in *.
    unfold Rabs in *. destruct (Rcase_abs r), (Rcase_abs (R2R n)); lra.
  - split; [exact Hp|].
    assert (~ (R2R (rf_abs n) > R2R p)%R) by (intros C; apply (bnd_gt_R (rf_abs n) p) in C; auto; congruence).
    rewrite Ea in *. unfold Rabs in *. destruct (Rcase_abs r), (Rcase_abs (R2R n)); lra.
Qed.

Lemma sum_prec_ok exp pos neg prec M ex :
  bnd_wf pos -> bnd_wf neg -> sum_prec exp pos neg = Ok prec ->
  exp_ok exp ex -> (forall ee, exp = EFin ee -> ex = ee) ->
  le_bnd (F2R (Float radix2 M ex)) pos -> ge_bnd (F2R (Float radix2 M ex)) neg ->
  prec_ok prec M.
Proof.
  intros Wp Wn H Hex Heq Hle Hge. unfold sum_prec in H.
  destruct pos as [p| |]; [|injection H as <-; exact I|contradiction].
  destruct neg as [n| |]; [|injection H as <-; exact I|contradiction].
  destruct exp as [e| |]; [|injection H as <-; exact I|injection H as <-; exact I].
  destruct (bmax (BFin p) (babs (BFin n))) as [m| |] eqn:Hm; [|injection H as <-; exact I|injection H as <-; exact I].
  simpl in *. specialize (Heq e eq_refl). subst ex.
  destruct (bmax_abs_bound p n m _ Wp Wn Hm Hle Hge) as [Wm Hb].
  unfold norm_prec in H. destruct (normalize m None (Some (e - 1))) as [y|] eqn:Hy; [|discriminate].
  simpl in H. injection H as <-.
  destruct (normalize_n m (e - 1) y Wm Hy) as (Ey & Xy & Wy). rewrite <- Ey in Hb.
  apply abs_le_bound in Hb; [|exact Wy|lia]. simpl. unfold rf_p.
  eapply Z.le_lt_trans; [exact Hb|]. apply lt_pow_bitlen. exact Wy.
Qed.

Lemma badd_le r1 r2 b1 b2 : le_bnd r1 b1 -> le_bnd r2 b2 -> le_bnd (r1 + r2) (badd b1 b2).
Proof.
  destruct b1 as [x|s|], b2 as [y|t|]; simpl; try contradiction; auto.
  - rewrite add_denote. lra.
  - intros -> ->. reflexivity.
Qed.
Lemma badd_ge r1 r2 b1 b2 : ge_bnd r1 b1 -> ge_bnd r2 b2 -> ge_bnd (r1 + r2) (badd b1 b2).
Proof.
  destruct b1 as [x|s|], b2 as [y|t|]; simpl; try contradiction; auto.
  - rewrite add_denote. lra.
  - intros -> ->. reflexivity.
Qed.
Lemma badd_wf b1 b2 r1 r2 : bnd_wf b1 -> bnd_wf b2 ->
  (le_bnd r1 b1 /\ le_bnd r2 b2) \/ (ge_bnd r1 b1 /\ ge_bnd r2 b2) -> bnd_wf (badd b1 b2).
Proof.
  destruct b1 as [x|s|], b2 as [y|t|]; simpl; try contradiction; auto.
  - intros. apply add_wf; assumption.
  - intros _ _ [[-> ->]|[-> ->]]; exact I.
Qed.

Lemma rf_add_zero_sign a b : rf_wf a -> rf_wf b -> rc (rf_add a b) = 0 -> rs (rf_add a b) = true ->
  rc a = 0 /\ rc b = 0 /\ rs a = true /\ rs b = true.
Proof.
  unfold rf_add. intros Wa Wb.
  destruct (Z.eqb_spec (rc a) 0) as [Za|Za].
  - destruct (Z.eqb_spec (rc b) 0) as [Zb|Zb]; simpl.
    + intros _ H. apply andb_prop in H. tauto.
    + intros; contradiction.
  - destruct (Z.eqb_spec (rc b) 0) as [Zb|Zb]; simpl.
    + intros; contradiction.
    + set (m := _ + _). destruct (Z.ltb_spec m 0); simpl; [lia|discriminate].
Qed.

Lemma fin_sum A B C r1 r2 :
  af_wf A -> af_wf B ->
  a_exp C = ext_min (a_exp A) (a_exp B) ->
  sum_prec (a_exp C) (a_pos C) (a_neg C) = Ok (a_prec C) ->
  bnd_wf (a_pos C) -> bnd_wf (a_neg C) ->
  repr (a_prec A) (a_exp A) r1 -> repr (a_prec B) (a_exp B) r2 ->
  le_bnd (r1 + r2) (a_pos C) -> ge_bnd (r1 + r2) (a_neg C) ->
  fin_in C (r1 + r2).
Proof.
  intros (_ & EA & _) (_ & EB & _) HE HP Wp Wn R1 R2 L G.
  destruct (sum_repr _ _ _ _ _ _ EA EB R1 R2) as (M & ex & E & Hex & Heq).
  rewrite <- HE in Hex, Heq. split; [|split; assumption].
  exists M, ex. split; [exact E|split; [|exact Hex]].
  rewrite E in L, G. eapply (sum_prec_ok (a_exp C) (a_pos C) (a_neg C) (a_prec C) M ex); eauto.
Qed.

Theorem add_sound A B C x y : af_wf A -> af_wf B -> af_add A B = Ok C ->
  gamma A x -> gamma B y -> gamma C (fl_add x y).
Proof.
  intros WA WB H Gx Gy. unfold af_add in H.
  destruct (sum_prec _ _ _) as [prec|] eqn:HP; [|discriminate]. cbn [bind] in H. injection H as <-.
  pose proof WA as (_ & _ & WpA & WnA & LpA & LnA). pose proof WB as (_ & _ & WpB & WnB & LpB & LnB).
  destruct x as [a|s|s], y as [b|t|t]; cbn [fl_add gamma] in *; cbn [a_nan a_pinf a_ninf];
    try (rewrite ?Gx, ?Gy, ?orb_true_r; reflexivity).
  - (* finite + finite *)
    destruct Gx as [Wa Ga'], Gy as [Wb Gb'].
    assert (Fa : fin_in A (R2R a)) by (apply gamma_fin; [assumption|split; assumption]).
    assert (Fb : fin_in B (R2R b)) by (apply gamma_fin; [assumption|split; assumption]).
    match goal with |- rf_wf _ /\ ?G => change (gamma {| a_prec := prec; a_exp := ext_min (a_exp A) (a_exp B);
       a_pos := badd (a_pos A) (a_pos B); a_neg := badd (a_neg A) (a_neg B);
       a_pinf := a_pinf A || a_pinf B; a_ninf := a_ninf A || a_ninf B;
       a_nan := a_nan A || a_nan B || a_pinf A && a_ninf B || a_ninf A && a_pinf B;
       a_nz := a_nz A && a_nz B |} (FFin (rf_add a b))) end.
    apply fin_gamma.
    + apply add_wf; assumption.
    + rewrite add_denote. destruct Fa as (Ra & La & Ga), Fb as (Rb & Lb & Gb).
      eapply (fin_sum A B); cbn [a_prec a_exp a_pos a_neg]; eauto.
      * eapply badd_wf; eauto.
      * eapply badd_wf; eauto.
      * apply badd_le; assumption.
      * apply badd_ge; assumption.
    + intros Z0 S0. destruct (rf_add_zero_sign a b Wa Wb Z0 S0) as (Za & Zb & Sa & Sb). cbn [a_nz].
      apply Z.eqb_eq in Za, Zb. rewrite Za in Ga'. rewrite Zb in Gb'. rewrite (Ga' Sa), (Gb' Sb). reflexivity.
  - destruct t; rewrite Gy; auto using orb_true_r.
  - destruct s; rewrite Gx; reflexivity.
  - destruct (eqb s t) eqn:E; cbn [gamma a_nan a_pinf a_ninf].
    + destruct s; rewrite Gx; reflexivity.
    + destruct s, t; try discriminate; rewrite Gx, Gy; bflags.
Qed.

Lemma bsub_le r1 r2 b1 b2 : le_bnd r1 b1 -> ge_bnd r2 b2 ->
  le_bnd (r1 - r2) (nan_to (BInf false) (bsub b1 b2)).
Proof.
  destruct b1 as [x|s|], b2 as [y|t|]; simpl; try contradiction; auto.
  - rewrite sub_denote. lra.
  - intros _ ->. reflexivity.
  - intros -> ->. reflexivity.
Qed.
Lemma bsub_ge r1 r2 b1 b2 : ge_bnd r1 b1 -> le_bnd r2 b2 ->
  ge_bnd (r1 - r2) (nan_to (BInf true) (bsub b1 b2)).
Proof.
  destruct b1 as [x|s|], b2 as [y|t|]; simpl; try contradiction; auto.
  - rewrite sub_denote. lra.
  - intros _ ->. reflexivity.
  - intros -> ->. reflexivity.
Qed.
Lemma bsub_wf_pos b1 b2 : bnd_wf b1 -> bnd_wf b2 ->
  bnd_wf (nan_to (BInf false) (bsub b1 b2)).
Proof.
  destruct b1 as [x|s|], b2 as [y|t|]; simpl; try contradiction; auto.
  - intros. unfold rf_sub. apply add_wf; assumption.
  - intros _ _. destruct (eqb s t); exact I.
Qed.
Lemma bsub_wf_neg b1 b2 : bnd_wf b1 -> bnd_wf b2 ->
  bnd_wf (nan_to (BInf true) (bsub b1 b2)).
Proof.
  destruct b1 as [x|s|], b2 as [y|t|]; simpl; try contradiction; auto.
  - intros. unfold rf_sub. apply add_wf; assumption.
  - intros _ _. destruct (eqb s t); exact I.
Qed.

Theorem sub_sound A B C x y : af_wf A -> af_wf B -> af_sub A B = Ok C ->
  gamma A x -> gamma B y -> gamma C (fl_sub x y).
Proof.
  intros WA WB H Gx Gy. unfold af_sub in H.
  destruct (sum_prec _ _ _) as [prec|] eqn:HP; [|discriminate]. cbn [bind] in H. injection H as <-.
  pose proof WA as (_ & _ & WpA & WnA & LpA & LnA). pose proof WB as (_ & _ & WpB & WnB & LpB & LnB).
  unfold fl_sub.
  match goal with |- gamma ?C0 _ => set (Cf := C0) end.
  destruct x as [a|s|s], y as [b|t|t]; cbn [fl_neg fl_with_sign fl_s fl_add]; cbn [gamma] in Gx, Gy;
    try (cbn [gamma]; unfold Cf; cbn [a_nan a_pinf a_ninf]; rewrite ?Gx, ?Gy, ?orb_true_r; reflexivity).
  - (* finite - finite *)
    destruct Gx as [Wa Ga'], Gy as [Wb Gb'].
    assert (Fa : fin_in A (R2R a)) by (apply gamma_fin; [assumption|split; assumption]).
    assert (Fb : fin_in B (R2R b)) by (apply gamma_fin; [assumption|split; assumption]).
    set (nb := RF (negb (rs b)) (rexp b) (rc b)).
    assert (Wnb : rf_wf nb) by exact Wb.
    assert (Enb : R2R nb = (- R2R b)%R) by apply R2R_neg_mk.
    apply fin_gamma.
    + apply add_wf; assumption.
    + rewrite add_denote, Enb. destruct Fa as (Ra & La & Ga), Fb as (Rb & Lb & Gb).
      eapply (fin_sum A B); unfold Cf; cbn [a_prec a_exp a_pos a_neg]; eauto.
      * apply bsub_wf_pos; assumption.
      * apply bsub_wf_neg; assumption.
      * apply repr_opp. exact Rb.
      * apply (bsub_le (R2R a) (R2R b)); assumption.
      * apply (bsub_ge (R2R a) (R2R b)); assumption.
    + intros Z0 S0. destruct (rf_add_zero_sign a nb Wa Wnb Z0 S0) as (Za & _ & Sa & _). unfold Cf; cbn [a_nz].
      apply Z.eqb_eq in Za. rewrite Za in Ga'. exact (Ga' Sa).
  - cbn [gamma]; unfold Cf; cbn [a_pinf a_ninf]. destruct t; cbn [negb]; rewrite Gy; auto using orb_true_r.
  - cbn [gamma]; unfold Cf; cbn [a_pinf a_ninf]. destruct s; rewrite Gx; reflexivity.
  - unfold Cf. destruct s, t; cbn [negb eqb gamma a_nan a_pinf a_ninf]; rewrite ?Gx, ?Gy; bflags.
Qed.

Lemma sum_prec_wf exp pos neg prec : sum_prec exp pos neg = Ok prec ->
  match prec with EFin p => 1 <= p | EPInf => True | EMInf => False end.
Proof.
  unfold sum_prec. destruct pos; [|intros [= <-]; exact I|intros [= <-]; exact I].
  destruct neg; [|intros [= <-]; exact I|intros [= <-]; exact I].
  destruct exp; [|intros [= <-]; exact I|intros [= <-]; exact I].
  destruct (bmax _ _); [|intros [= <-]; exact I|intros [= <-]; exact I].
  unfold norm_prec. destruct (normalize _ _ _); [|discriminate]. simpl. intros [= <-]. lia.
Qed.

Lemma ext_min_not_pinf a b : a <> EPInf -> b <> EPInf -> ext_min a b <> EPInf.
Proof. unfold ext_min. destruct a, b; simpl; try congruence. destruct (z0 <? z); congruence. Qed.

Lemma add_wf_fmt A B C : af_wf A -> af_wf B -> af_add A B = Ok C -> af_wf C.
Proof.
  intros (Hp & He & Wp & Wn & Lp & Ln) (Hp' & He' & Wp' & Wn' & Lp' & Ln') H. unfold af_add in H.
  destruct (sum_prec _ _ _) as [prec|] eqn:HP; [|discriminate]. cbn [bind] in H. injection H as <-.
  unfold af_wf; cbn [a_prec a_exp a_pos a_neg]. repeat split.
  - eapply sum_prec_wf; eauto.
  - apply ext_min_not_pinf; assumption.
  - eapply (badd_wf _ _ 0 0); eauto.
  - eapply (badd_wf _ _ 0 0); eauto.
  - replace 0%R with (0 + 0)%R by lra. apply badd_le; assumption.
  - replace 0%R with (0 + 0)%R by lra. apply badd_ge; assumption.
Qed.

Lemma sub_wf_fmt A B C : af_wf A -> af_wf B -> af_sub A B = Ok C -> af_wf C.
Proof.
  intros (Hp & He & Wp & Wn & Lp & Ln) (Hp' & He' & Wp' & Wn' & Lp' & Ln') H. unfold af_sub in H.
  destruct (sum_prec _ _ _) as [prec|] eqn:HP; [|discriminate]. cbn [bind] in H. injection H as <-.
  unfold af_wf; cbn [a_prec a_exp a_pos a_neg]. repeat split.
  - eapply sum_prec_wf; eauto.
  - apply ext_min_not_pinf; assumption.
  - apply bsub_wf_pos; assumption.
  - apply bsub_wf_neg; assumption.
  - replace 0%R with (0 - 0)%R by lra. apply bsub_le; assumption.
  - replace 0%R with (0 - 0)%R by lra. apply bsub_ge; assumption.
Qed.

(* ---------------------------------------------------------------- multiplication *)
Lemma af_bound_abs A b r : af_wf A -> af_bound A = BFin b ->
  le_bnd r (a_pos A) -> ge_bnd r (a_neg A) -> rf_wf b /\ (Rabs r <= R2R b)%R.
Proof.
  intros (_ & _ & Wp & Wn & _ & _) Hb L G. unfold af_bound in Hb.
  destruct (a_pos A) as [p|s|] eqn:EP, (a_neg A) as [n|t|] eqn:EN; try contradiction; simpl in L, G.
  - exact (bmax_abs_bound p n b r Wp Wn Hb L G).
  - subst t. discriminate.
  - subst s. discriminate.
  - subst s t. discriminate.
Qed.

Lemma maxval_prec_ok b e q M : rf_wf b -> maxval_precision b e = Ok q ->
  (Rabs (F2R (Float radix2 M e)) <= R2R b)%R -> M <> 0 -> Z.abs M < 2 ^ q.
Proof.
  intros Wb H Hb HM. unfold maxval_precision in H.
  destruct (normalize b None (Some (e - 1))) as [y|] eqn:Hy; [|discriminate]. simpl in H. injection H as <-.
  destruct (normalize_n b (e - 1) y Wb Hy) as (Ey & Xy & Wy). rewrite <- Ey in Hb.
  apply abs_le_bound in Hb; [|exact Wy|lia].
  assert (0 < rc y) by lia. pose proof (bitlen_bounds (rc y) H) as [_ B]. lia.
Qed.

Lemma repr_rescale e ex m : e <= ex -> m <> 0 ->
  exists M, F2R (Float radix2 m ex) = F2R (Float radix2 M e) /\ M <> 0.
Proof.
  intros Hle Hm. exists (m * 2 ^ (ex - e)). split.
  - apply (F2R_change_exp radix2 e m ex Hle).
  - pose proof (pow2_pos (ex - e)). nia.
Qed.

Lemma maxval_repr A b e q r : af_wf A -> af_bound A = BFin b -> a_exp A = EFin e ->
  maxval_precision b e = Ok q -> fin_in A r -> r <> 0%R -> repr (EFin q) (EFin e) r.
Proof.
  intros WA Hb He Hq ((m & ex & E & P & X) & L & G) Hr.
  assert (Hm : m <> 0) by (intros ->; rewrite F2R_0 in E; contradiction).
  rewrite He in X. simpl in X.
  destruct (repr_rescale e ex m X Hm) as (M & EM & HM).
  destruct (af_bound_abs A b r WA Hb L G) as [Wb Hab].
  exists M, e. split; [congruence|]. split; [|simpl; lia].
  simpl. eapply maxval_prec_ok; eauto. rewrite <- EM, <- E. exact Hab.
Qed.

Lemma eff_prec_ok A q r : af_wf A -> effective_prec A = Ok q -> fin_in A r -> r <> 0%R ->
  repr q (a_exp A) r.
Proof.
  intros WA H F Hr. pose proof F as (Hbase & _ & _).
  unfold effective_prec in H.
  destruct (a_prec A) as [p| |] eqn:EP; destruct (af_bound A) as [b|s|] eqn:EB;
    try (injection H as <-; exact Hbase).
  - destruct (a_exp A) as [e| |] eqn:EE; try (injection H as <-; exact Hbase).
    destruct (bnd_lt _ _); [|injection H as <-; exact Hbase].
    destruct (maxval_precision b e) as [q'|] eqn:Hq; [|discriminate]. simpl in H. injection H as <-.
    rewrite <- EE in *. rewrite EE. eapply maxval_repr; eauto.
  - destruct (a_exp A) as [e| |] eqn:EE; try discriminate.
    destruct (maxval_precision b e) as [q'|] eqn:Hq; [|discriminate]. simpl in H. injection H as <-.
    eapply maxval_repr; eauto.
  - destruct WA as (C & _). rewrite EP in C. contradiction.
Qed.

Lemma exp_ok_add e1 e2 x1 x2 : e1 <> EPInf -> e2 <> EPInf -> exp_ok e1 x1 -> exp_ok e2 x2 ->
  exp_ok (ext_add e1 e2) (x1 + x2).
Proof. destruct e1, e2; simpl; try congruence; auto. lia. Qed.

Lemma abs1 m : m <> 0 -> Z.abs m < 2 ^ 1 -> Z.abs m = 1.
Proof. change (2 ^ 1) with 2. lia. Qed.

Lemma prec_rule_ok q1 q2 m1 m2 : m1 <> 0 -> m2 <> 0 -> prec_ok q1 m1 -> prec_ok q2 m2 ->
  prec_ok (if ext_eqb q1 (EFin 1) || ext_eqb q2 (EFin 1) then ext_max q1 q2
           else ext_max (ext_add q1 q2) (EFin 1)) (m1 * m2).
Proof.
  intros H1 H2 P1 P2.
  destruct (ext_eqb q1 (EFin 1)) eqn:E1.
  { destruct q1 as [a| |]; try discriminate. simpl in E1. apply Z.eqb_eq in E1. subst a.
    simpl in P1. apply abs1 in P1; [|assumption]. simpl orb. cbv iota.
    assert (Z.abs (m1 * m2) = Z.abs m2) by (rewrite Z.abs_mul; lia).
    apply prec_ok_max_r. destruct q2; simpl in *; auto. lia. }
  destruct (ext_eqb q2 (EFin 1)) eqn:E2.
  { destruct q2 as [a| |]; try discriminate. simpl in E2. apply Z.eqb_eq in E2. subst a.
    simpl in P2. apply abs1 in P2; [|assumption]. simpl orb. cbv iota.
    assert (Z.abs (m1 * m2) = Z.abs m1) by (rewrite Z.abs_mul; lia).
    apply prec_ok_max_l. destruct q1; simpl in *; auto. lia. }
  simpl orb. cbv iota. apply prec_ok_max_l.
  destruct q1 as [a| |], q2 as [b| |]; simpl in *; try contradiction; auto.
  assert (0 <= a) by (destruct (Z.lt_ge_cases a 0); [rewrite Z.pow_neg_r in P1 by assumption; lia|assumption]).
  assert (0 <= b) by (destruct (Z.lt_ge_cases b 0); [rewrite Z.pow_neg_r in P2 by assumption; lia|assumption]).
  rewrite Z.abs_mul, Z.pow_add_r by assumption. nia.
Qed.

Lemma repr_nonzero p e r : repr p e r -> r <> 0%R ->
  exists m ex, r = F2R (Float radix2 m ex) /\ prec_ok p m /\ exp_ok e ex /\ m <> 0.
Proof.
  intros (m & ex & E & P & X) Hr. exists m, ex. repeat split; auto.
  intros ->. rewrite F2R_0 in E. contradiction.
Qed.

Lemma mul_bounds p1 n1 p2 n2 r1 r2 : rf_wf p1 -> rf_wf n1 -> rf_wf p2 -> rf_wf n2 ->
  (R2R n1 <= r1 <= R2R p1)%R -> (R2R n2 <= r2 <= R2R p2)%R ->
  (R2R n1 <= 0 <= R2R p1)%R -> (R2R n2 <= 0 <= R2R p2)%R ->
  le_bnd (r1 * r2)%R (bmax (bmul (BFin p1) (BFin p2)) (bmul (BFin n1) (BFin n2))) /\
  ge_bnd (r1 * r2)%R (bmin (bmul (BFin p1) (BFin n2)) (bmul (BFin n1) (BFin p2))).
Proof.
  intros W1 W2 W3 W4 B1 B2 Z1 Z2. simpl bmul.
  assert (Wm : forall a b, rf_wf a -> rf_wf b -> rf_wf (rf_mul a b)).
  { intros a b Ha Hb. unfold rf_wf, rf_mul in *. destruct (_ || _); simpl; nia. }
  split.
  - destruct (Rle_dec 0 r1), (Rle_dec 0 r2).
    + apply le_bmax_l; simpl; auto. rewrite mul_denote. nra.
    + apply le_bmax_l; simpl; auto. rewrite mul_denote. nra.
    + apply le_bmax_l; simpl; auto. rewrite mul_denote. nra.
    + apply le_bmax_r; simpl; auto. rewrite mul_denote. nra.
  - destruct (Rle_dec 0 r1), (Rle_dec 0 r2).
    + apply ge_bmin_l; simpl; auto. rewrite mul_denote. nra.
    + apply ge_bmin_l; simpl; auto. rewrite mul_denote. nra.
    + apply ge_bmin_r; simpl; auto. rewrite mul_denote. nra.
    + apply ge_bmin_l; simpl; auto. rewrite mul_denote. nra.
Qed.

(* full-strength statement (refuted below, three independent ways):
     forall A B C x y, af_wf A -> af_wf B -> af_mul A B = Ok C ->
       gamma A x -> gamma B y -> gamma C (fl_mul x y)
   missing in the partial theorem:
     (1) a product that is -0 although neither format has a negative zero
         ((-2) * (+0)): has_neg_zero is `self.has_neg_zero or other.has_neg_zero`;
     (2) an infinite bound (float('inf')/-float('inf')) in either operand: the
         bound products go through RealFloat.__mul__'s float arm, which loses the
         sign of the infinity. *)
Theorem mul_sound_partial A B C x y : af_wf A -> af_wf B -> af_mul A B = Ok C ->
  fin_bounds A -> fin_bounds B ->
  gamma A x -> gamma B y ->
  (is_negzero (fl_mul x y) = true -> a_nz A || a_nz B = true) ->
  gamma C (fl_mul x y).
Proof.
  intros WA WB H [FA1 FA2] [FB1 FB2] Gx Gy Hz. unfold af_mul in H.
  destruct (effective_prec A) as [q1|] eqn:Q1; [|discriminate]. cbn [bind] in H.
  destruct (effective_prec B) as [q2|] eqn:Q2; [|discriminate]. cbn [bind] in H.
  injection H as <-.
  match goal with |- gamma ?C0 _ => set (Cf := C0) end.
  pose proof WA as (_ & EA & WpA & WnA & LpA & LnA). pose proof WB as (_ & EB & WpB & WnB & LpB & LnB).
  destruct x as [a|s|s], y as [b|t|t]; cbn [gamma] in Gx, Gy;
    try (cbn [fl_mul gamma]; unfold Cf; cbn [a_nan]; rewrite ?Gx, ?Gy, ?orb_true_r; reflexivity).
  - (* finite * finite *)
    cbn [fl_mul] in *. destruct Gx as [Wa Ga'], Gy as [Wb Gb'].
    assert (Wm : rf_wf (rf_mul a b)).
    { unfold rf_wf, rf_mul in *. destruct (_ || _); simpl; nia. }
    destruct (Z.eqb_spec (rc a) 0) as [Za|Za]; [|destruct (Z.eqb_spec (rc b) 0) as [Zb|Zb]].
    + (* a = 0 *)
      split; [exact Wm|]. unfold rf_mul. rewrite Za. simpl. intros S0. unfold Cf; cbn [a_nz].
      apply Hz. simpl. unfold rf_mul. rewrite Za. simpl. exact S0.
    + split; [exact Wm|]. unfold rf_mul. rewrite Zb, Z.eqb_refl, orb_true_r. simpl. intros S0.
      unfold Cf; cbn [a_nz]. apply Hz. simpl. unfold rf_mul. rewrite Zb, Z.eqb_refl, orb_true_r. simpl. exact S0.
    + assert (Ra0 : R2R a <> 0%R) by (intros C0; apply (R2R_eq0 a Wa) in C0; contradiction).
      assert (Rb0 : R2R b <> 0%R) by (intros C0; apply (R2R_eq0 b Wb) in C0; contradiction).
      assert (Nz : rc (rf_mul a b) <> 0).
      { unfold rf_mul. apply Z.eqb_neq in Za, Zb. rewrite Za, Zb. simpl. apply Z.eqb_neq in Za, Zb. nia. }
      split; [exact Wm|]. apply Z.eqb_neq in Nz. rewrite Nz. rewrite mul_denote.
      pose proof (eff_prec_ok A q1 _ WA Q1 Ga' Ra0) as R1.
      pose proof (eff_prec_ok B q2 _ WB Q2 Gb' Rb0) as R2.
      destruct (repr_nonzero _ _ _ R1 Ra0) as (m1 & x1 & E1 & P1 & X1 & N1).
      destruct (repr_nonzero _ _ _ R2 Rb0) as (m2 & x2 & E2 & P2 & X2 & N2).
      destruct Ga' as (_ & La & Ga), Gb' as (_ & Lb & Gb).
      split; [|].
      * exists (m1 * m2), (x1 + x2). unfold Cf; cbn [a_prec a_exp]. split; [|split].
        -- rewrite E1, E2. rewrite <- F2R_mult. reflexivity.
        -- apply prec_rule_ok; assumption.
        -- apply exp_ok_add; assumption.
      * unfold Cf; cbn [a_pos a_neg].
        destruct (a_pos A) as [p1| |], (a_neg A) as [n1| |], (a_pos B) as [p2| |], (a_neg B) as [n2| |]; try discriminate.
        simpl in *. apply mul_bounds; auto; split; assumption.
  - (* finite * inf *)
    cbn [fl_mul]. destruct (fl_is_zero (FFin a)); cbn [gamma]; unfold Cf; cbn [a_nan a_pinf a_ninf].
    + destruct t; rewrite Gy; bflags.
    + destruct (xorb _ _), t; rewrite Gy; bflags.
  - (* inf * finite *)
    cbn [fl_mul]. destruct (fl_is_zero (FFin b)); cbn [gamma]; unfold Cf; cbn [a_nan a_pinf a_ninf].
    + destruct s; rewrite Gx; bflags.
    + destruct (xorb _ _), s; rewrite Gx; bflags.
  - (* inf * inf *)
    cbn [fl_mul fl_is_zero fl_s gamma]. unfold Cf; cbn [a_pinf a_ninf].
    destruct (xorb _ _), s; rewrite Gx; bflags.
Qed.

(* ---------------------------------------------------------------- containment (__le__) *)
Lemma le_bnd_mono r a b : bnd_wf a -> bnd_wf b -> bnd_lt b a = false -> le_bnd r a -> le_bnd r b.
Proof.
  intros Wa Wb H L. destruct a as [x|s|], b as [y|t|]; try solve [bsolve].
  assert (~ (R2R y < R2R x)%R) by (intros C; apply (bnd_lt_R y x) in C; auto; congruence). simpl in *. lra.
Qed.
Lemma ge_bnd_mono r a b : bnd_wf a -> bnd_wf b -> bnd_gt b a = false -> ge_bnd r a -> ge_bnd r b.
Proof.
  intros Wa Wb H L. destruct a as [x|s|], b as [y|t|]; try solve [bsolve].
  assert (~ (R2R y > R2R x)%R) by (intros C; apply (bnd_gt_R y x) in C; auto; congruence). simpl in *. lra.
Qed.

Lemma exp_ok_mono a b ex : ext_gt b a = false -> b <> EPInf -> exp_ok a ex -> exp_ok b ex.
Proof.
  unfold ext_gt. destruct a as [x| |], b as [y| |]; simpl; try congruence; auto; try contradiction.
  destruct (Z.ltb_spec x y); [discriminate|]. lia.
Qed.
Lemma prec_ok_mono a q m : ext_gt a (EFin q) = false -> prec_ok a m -> prec_ok (EFin q) m.
Proof.
  unfold ext_gt. destruct a as [x| |]; simpl; try discriminate; try contradiction.
  destruct (Z.ltb_spec q x); [discriminate|]. intros _ Hm. eapply Z.lt_le_trans; [exact Hm|]. apply Z.pow_le_mono_r; lia.
Qed.

Lemma cutoff_R e q : 0 <= q -> R2R (RF false e (Z.shiftl 1 q)) = F2R (Float radix2 (2 ^ q) e).
Proof. intros Hq. unfold R2R, rf_m; simpl. rewrite shiftl_pow by assumption. rewrite Z.mul_1_l. reflexivity. Qed.

Lemma cutoff_repr e q eb r m ex : 1 <= q -> r = F2R (Float radix2 m ex) -> e <= ex ->
  (Rabs r <= F2R (Float radix2 (2 ^ q) e))%R -> exp_ok eb e ->
  (forall x, e <= x -> exp_ok eb x) -> repr (EFin q) eb r.
Proof.
  intros Hq E X Hb Xb Xmono.
  rewrite (F2R_change_exp radix2 e m ex X) in E. set (M := m * radix2 ^ (ex - e)) in *.
  rewrite E, <- F2R_Zabs in Hb. apply le_F2R in Hb.
  destruct (Z.eq_dec (Z.abs M) (2 ^ q)) as [Heq|Hne].
  - (* a power of two: one significant bit *)
    exists (Z.sgn M), (e + q). split; [|split].
    + rewrite E. rewrite (F2R_change_exp radix2 e (Z.sgn M) (e + q)) by lia. f_equal. f_equal.
      replace (e + q - e) with q by lia. change (radix2 ^ q) with (2 ^ q). rewrite <- Heq.
      rewrite Z.mul_comm. symmetry. apply Z.abs_sgn.
    + simpl. assert (2 ^ 1 <= 2 ^ q) by (apply Z.pow_le_mono_r; lia). change (2 ^ 1) with 2 in *. lia.
    + apply Xmono. lia.
  - exists M, e. split; [exact E|split; [simpl; lia|exact Xb]].
Qed.

(* full-strength statement (refuted below):
     forall A B v, af_wf A -> af_wf B -> af_le A B = true -> gamma A v -> gamma B v
   missing: B with a finite precision and exp = -inf (the shape of MPFloatFormat)
   when A.prec > B.prec -- the precision test is skipped unless B.exp is an int *)
Definition le_ok (A B : absfmt) : Prop :=
  match a_prec B, a_exp B with
  | EFin q, EMInf => ext_gt (a_prec A) (EFin q) = false
  | _, _ => True
  end.

Lemma le_fin A B r : af_wf A -> af_wf B -> le_ok A B -> af_le A B = true -> fin_in A r -> fin_in B r.
Proof.
  intros WA WB Hok H ((m & ex & E & P & X) & L & G). unfold af_le in H.
  pose proof WA as (_ & EA & WpA & WnA & _ & _). pose proof WB as (PB & EB & WpB & WnB & _ & _).
  destruct (specials_le A B); [|discriminate]. simpl negb in H. cbv iota in H.
  destruct (ext_gt (a_exp B) (a_exp A)) eqn:G1; [discriminate|].
  destruct (bnd_lt (a_pos B) (a_pos A)) eqn:G2; [discriminate|].
  destruct (bnd_gt (a_neg B) (a_neg A)) eqn:G3; [discriminate|].
  assert (Lb : le_bnd r (a_pos B)) by (exact (le_bnd_mono r _ _ WpA WpB G2 L)).
  assert (Gb : ge_bnd r (a_neg B)) by (exact (ge_bnd_mono r _ _ WnA WnB G3 G)).
  assert (Xb : exp_ok (a_exp B) ex) by (exact (exp_ok_mono _ _ ex G1 EB X)).
  split; [|split; assumption].
  assert (Easy : (forall m, prec_ok (a_prec A) m -> prec_ok (a_prec B) m) -> repr (a_prec B) (a_exp B) r).
  { intros Hm. exists m, ex. auto. }
  unfold le_ok in Hok.
  destruct (a_prec B) as [q| |] eqn:EPB; [|apply Easy; intros; exact I|contradiction].
  destruct (a_exp B) as [eb| |] eqn:EEB; [| congruence |].
  2:{ apply Easy. intros m0. apply prec_ok_mono. exact Hok. }
  destruct (ext_gt (a_prec A) (EFin q)) eqn:G4; [|apply Easy; intros m0; apply prec_ok_mono; exact G4].
  destruct (a_exp A) as [e| |] eqn:EEA; [|discriminate|discriminate].
  destruct (bnd_is_float (a_pos A) || bnd_gt (a_pos A) (BFin (RF false e (Z.shiftl 1 q)))) eqn:G5; [discriminate|].
  destruct (bnd_is_float (a_neg A) || bnd_gt (babs (a_neg A)) (BFin (RF false e (Z.shiftl 1 q)))) eqn:G6; [discriminate|].
  apply orb_false_elim in G5 as [F5 G5]. apply orb_false_elim in G6 as [F6 G6].
  destruct (a_pos A) as [p| |]; try discriminate. destruct (a_neg A) as [n| |]; try discriminate.
  simpl in L, G, X, G1, WpA, WnA.
  assert (Wc : rf_wf (RF false e (Z.shiftl 1 q))).
  { unfold rf_wf; simpl. rewrite shiftl_pow by lia. pose proof (pow2_pos q). lia. }
  assert (Hp : (R2R p <= R2R (RF false e (Z.shiftl 1 q)))%R).
  { assert (~ (R2R p > R2R (RF false e (Z.shiftl 1 q)))%R) by (intros C; apply (proj2 (bnd_gt_R p _ WpA Wc)) in C; rewrite C in G5; discriminate). lra. }
  assert (Hn : (Rabs (R2R n) <= R2R (RF false e (Z.shiftl 1 q)))%R).
  { rewrite <- (abs_denote n WnA).
    assert (~ (R2R (rf_abs n) > R2R (RF false e (Z.shiftl 1 q)))%R) by (intros C; apply (proj2 (bnd_gt_R (rf_abs n) _ WnA Wc)) in C; simpl babs in G6; rewrite C in G6; discriminate). lra. }
  rewrite cutoff_R in Hp, Hn by lia.
  eapply (cutoff_repr e q (EFin eb) r m ex); eauto.
  - unfold Rabs in *. destruct (Rcase_abs r), (Rcase_abs (R2R n)); lra.
  - simpl. unfold ext_gt in G1. simpl in G1. destruct (Z.ltb_spec e eb); [discriminate|lia].
  - intros x Hx. simpl. unfold ext_gt in G1. simpl in G1. destruct (Z.ltb_spec e eb); [discriminate|lia].
Qed.

Theorem le_sound_partial A B v : af_wf A -> af_wf B -> le_ok A B -> af_le A B = true ->
  gamma A v -> gamma B v.
Proof.
  intros WA WB Hok H Gv.
  assert (Hs : specials_le A B = true).
  { unfold af_le in H. destruct (specials_le A B); [reflexivity|discriminate]. }
  unfold specials_le in Hs. apply negb_true_iff in Hs.
  apply orb_false_elim in Hs as [Hs S4]. apply orb_false_elim in Hs as [Hs S3]. apply orb_false_elim in Hs as [S1 S2].
  destruct v as [x|s|s]; cbn [gamma] in *.
  - destruct Gv as [Wx Gx]. split; [exact Wx|].
    destruct (rc x =? 0).
    + intros Sx. specialize (Gx Sx). rewrite Gx in S4. simpl in S4. apply negb_false_iff in S4. exact S4.
    + exact (le_fin A B _ WA WB Hok H Gx).
  - destruct s; rewrite Gv in *; simpl in *; [apply negb_false_iff in S2; exact S2|apply negb_false_iff in S1; exact S1].
  - rewrite Gv in S3. simpl in S3. apply negb_false_iff in S3. exact S3.
Qed.

(* ---------------------------------------------------------------- round_is_identity *)
(* For a bounded float context (MPBFloatFormat; IEEE formats are instances): if
   round_is_identity reports True for the unrounded format A, every member of A is
   representable, so rounding it -- in any rounding mode, Flocq's `round` over
   FLT_exp -- changes nothing, and it is within the format's range. *)
Theorem round_is_identity_sound A pmax emin pm nm en ei v :
  af_wf A -> 1 <= pmax -> rf_wf pm -> rf_wf nm -> (R2R nm <= 0 <= R2R pm)%R ->
  round_is_identity A pmax emin pm nm en ei = true -> gamma A v ->
  match v with
  | FNaN _ => en = true
  | FInf _ => ei = true
  | FFin x =>
      (forall rnd, Valid_rnd rnd ->
         round radix2 (FLT_exp (emin - pmax + 1) pmax) rnd (R2R x) = R2R x) /\
      (R2R nm <= R2R x <= R2R pm)%R
  end.
Proof.
  intros WA Hp Wpm Wnm Hz H Gv. unfold round_is_identity in H.
  set (F := from_mpb_float pmax emin pm nm en ei) in *.
  assert (WF : af_wf F).
  { unfold F, from_mpb_float, af_wf; simpl. repeat split; auto; try lra. congruence. }
  assert (Hok : le_ok A F) by (unfold le_ok, F; simpl; exact I).
  pose proof (le_sound_partial A F v WA WF Hok H Gv) as GF.
  destruct v as [x|s|s]; cbn [gamma] in GF.
  - destruct GF as [Wx GF].
    assert (Fin : fin_in F (R2R x)).
    { destruct (Z.eqb_spec (rc x) 0) as [Z0|Z0]; [|exact GF]. rewrite R2R_zero by assumption. apply fin_in_zero. exact WF. }
    destruct Fin as ((m & ex & E & P & X) & L & G). simpl in *. split; [|lra].
    assert (Pg : Prec_gt_0 pmax) by (unfold Prec_gt_0; lia).
    intros rnd Vr. apply round_generic; [exact Vr|].
    apply generic_format_FLT. apply (FLT_spec radix2 _ _ _ (Float radix2 m ex)); simpl; auto.
  - unfold F in GF; simpl in GF. destruct s; exact GF.
  - exact GF.
Qed.

(* ---------------------------------------------------------------- executable membership is sound *)
Lemma pos_odd_spec c : forall e, let '(c', e') := pos_odd c e in
  e <= e' /\ Zpos c = Zpos c' * 2 ^ (e' - e).
Proof.
  induction c as [c IH|c IH|]; intros e; cbn [pos_odd].
  - split; [lia|]. rewrite Z.sub_diag, Z.pow_0_r. lia.
  - specialize (IH (e + 1)). destruct (pos_odd c (e + 1)) as [c' e']. destruct IH as [L E]. split; [lia|].
    replace (e' - e) with (1 + (e' - (e + 1))) by lia. rewrite Z.pow_add_r by lia.
    change (2 ^ 1) with 2. rewrite (Pos2Z.inj_xO c), E. generalize (2 ^ (e' - (e + 1))). intros X. ring.
  - split; [lia|]. rewrite Z.sub_diag, Z.pow_0_r. lia.
Qed.

Theorem mem_sound A v : af_wf A -> (match v with FFin x => rf_wf x | _ => True end) ->
  mem A v = true -> gamma A v.
Proof.
  intros WA Wv H. destruct v as [x|s|s]; simpl in *; auto.
  split; [exact Wv|]. destruct (rc x =? 0) eqn:Z0.
  - intros Sx. rewrite Sx in H. simpl in H. exact H.
  - unfold mem_fin in H. destruct (rc x) as [|c|c] eqn:Ec; try discriminate.
    pose proof (pos_odd_spec c (rexp x)) as S. destruct (pos_odd c (rexp x)) as [c' e'].
    destruct S as [Le Eq].
    apply andb_prop in H as [H Hn]. apply andb_prop in H as [H Hp]. apply andb_prop in H as [Hq He].
    pose proof WA as (_ & _ & Wp & Wn & _ & _).
    assert (ER : R2R x = F2R (Float radix2 (if rs x then - Zpos c' else Zpos c') e')).
    { unfold R2R, rf_m. rewrite Ec. rewrite (F2R_change_exp radix2 (rexp x) _ e' Le). f_equal. f_equal.
      change (radix2 ^ (e' - rexp x)) with (2 ^ (e' - rexp x)). destruct (rs x); lia. }
    split; [|split].
    + exists (if rs x then - Zpos c' else Zpos c'), e'. split; [exact ER|]. split.
      * destruct (a_prec A) as [p| |]; simpl; auto; try discriminate.
        apply Z.leb_le in Hq. pose proof (bitlen_bounds (Zpos c') ltac:(lia)) as [_ B].
        assert (2 ^ bitlen (Z.pos c') <= 2 ^ p) by (apply Z.pow_le_mono_r; [lia|exact Hq]).
        destruct (rs x); lia.
      * destruct (a_exp A) as [e| |]; simpl; auto; try discriminate. apply Z.leb_le in He. exact He.
    + apply negb_true_iff in Hp. destruct (a_pos A) as [y|t|]; try contradiction.
      * assert (~ (R2R x > R2R y)%R) by (intros C; apply (proj2 (bnd_gt_R x y Wv Wp)) in C; rewrite C in Hp; discriminate).
        simpl. lra.
      * simpl in *. exact Hp.
    + apply negb_true_iff in Hn. destruct (a_neg A) as [y|t|]; try contradiction.
      * assert (~ (R2R x < R2R y)%R) by (intros C; apply (proj2 (bnd_lt_R x y Wv Wn)) in C; rewrite C in Hn; discriminate).
        simpl. lra.
      * simpl in *. apply negb_false_iff in Hn. exact Hn.
Qed.

Ltac wf_by_compute := apply af_wfb_wf; vm_compute; reflexivity.
Ltac mem_by_compute := apply mem_sound; [wf_by_compute | try exact I; unfold rf_wf; simpl; lia | vm_compute; reflexivity].

Lemma rf_gt_R x y : rf_wf x -> rf_wf y -> rf_compare x y = Gt -> (R2R x > R2R y)%R.
Proof. intros Wx Wy H. apply (bnd_gt_R x y Wx Wy). simpl. rewrite H. reflexivity. Qed.
Lemma rf_lt_R x y : rf_wf x -> rf_wf y -> rf_compare x y = Lt -> (R2R x < R2R y)%R.
Proof. intros Wx Wy H. apply (bnd_lt_R x y Wx Wy). simpl. rewrite H. reflexivity. Qed.

(* ---------------------------------------------------------------- the refutations *)
(* the abstract format of SINT8 (FixedFormat(signed, scale 0, 8 bits)):
   from_format gives A(inf, 0, +127, -128) without special values *)
Definition A_sint8 : absfmt :=
  AF EPInf (EFin 0) (BFin (RF false 0 127)) (BFin (RF true 0 128)) false false false false.

(* -(+0) = -0 is not in -SINT8 *)
Theorem neg_sound_refuted : exists A x, af_wf A /\ gamma A x /\ ~ gamma (af_neg A) (fl_neg x).
Proof.
  exists A_sint8, (FFin (RF false 0 0)). split; [wf_by_compute|]. split; [mem_by_compute|].
  simpl. intros [_ H]. specialize (H eq_refl). discriminate.
Qed.

(* abs(-128) = 128 is not in abs(SINT8) = [0, 127] *)
Theorem abs_sound_refuted : exists A x, af_wf A /\ gamma A x /\ ~ gamma (af_abs A) (fl_abs x).
Proof.
  exists A_sint8, (FFin (RF true 0 128)). split; [wf_by_compute|]. split; [mem_by_compute|].
  simpl. intros [_ (_ & L & _)]. simpl in L.
  assert ((R2R (RF false 0 128) > R2R (RF false 0 127))%R) by (apply rf_gt_R; [unfold rf_wf; simpl; lia..|reflexivity]).
  lra.
Qed.

(* (-2) * (+0) = -0 is not in SINT8 * SINT8 *)
Theorem mul_sound_refuted : exists A B C x y,
  af_wf A /\ af_wf B /\ fin_bounds A /\ fin_bounds B /\ af_mul A B = Ok C /\
  gamma A x /\ gamma B y /\ ~ gamma C (fl_mul x y).
Proof.
  exists A_sint8, A_sint8,
    (AF (EFin 16) (EFin 0) (BFin (RF false 0 16384)) (BFin (RF true 0 16256)) false false false false),
    (FFin (RF true 0 2)), (FFin (RF false 0 0)).
  split; [wf_by_compute|]. split; [wf_by_compute|]. split; [split; reflexivity|]. split; [split; reflexivity|].
  split; [vm_compute; reflexivity|]. split; [mem_by_compute|]. split; [mem_by_compute|].
  simpl. intros [_ H]. specialize (H eq_refl). discriminate.
Qed.

(* [-3,3] * [-inf,5]: 3 * (-8) = -24 is below the computed negative bound -15 *)
Theorem mul_bounds_refuted : exists A B C x y,
  af_wf A /\ af_wf B /\ af_mul A B = Ok C /\ gamma A x /\ gamma B y /\ ~ gamma C (fl_mul x y).
Proof.
  exists (AF EPInf (EFin 0) (BFin (RF false 0 3)) (BFin (RF true 0 3)) false false false false),
         (AF EPInf (EFin 0) (BFin (RF false 0 5)) (BInf true) false false false false),
         (AF EPInf (EFin 0) (BFin (RF false 0 15)) (BFin (RF true 0 15)) false false false false),
         (FFin (RF false 0 3)), (FFin (RF true 0 8)).
  split; [wf_by_compute|]. split; [wf_by_compute|]. split; [vm_compute; reflexivity|].
  split; [mem_by_compute|]. split; [mem_by_compute|].
  simpl. intros [_ (_ & _ & G)]. simpl in G.
  assert ((R2R (RF true 0 24) < R2R (RF true 0 15))%R) by (apply rf_lt_R; [unfold rf_wf; simpl; lia..|reflexivity]).
  unfold rf_mul in G; simpl in G. lra.
Qed.

Lemma not_repr_3_prec1 e : ~ repr (EFin 1) e 3%R.
Proof.
  intros (m & ex & E & P & _). simpl in P. change (2 ^ 1) with 2 in P.
  assert (Hm : m = -1 \/ m = 0 \/ m = 1) by lia.
  destruct Hm as [-> | [-> | ->]].
  - assert (F2R (Float radix2 (-1) ex) < 0)%R by (apply F2R_lt_0; simpl; lia). lra.
  - rewrite F2R_0 in E. lra.
  - rewrite F2R_bpow in E.
    destruct (Z.le_gt_cases ex 1).
    + assert (bpow radix2 ex <= bpow radix2 1)%R by (apply bpow_le; assumption). simpl in H0. lra.
    + assert (bpow radix2 2 <= bpow radix2 ex)%R by (apply bpow_le; lia). simpl in H0. lra.
Qed.

(* A(2, -inf, inf) <= A(1, -inf, inf) is reported although 3 needs two bits *)
Theorem le_sound_refuted : exists A B v, af_wf A /\ af_wf B /\ af_le A B = true /\ gamma A v /\ ~ gamma B v.
Proof.
  exists (AF (EFin 2) EMInf (BInf false) (BInf true) false false false false),
         (AF (EFin 1) EMInf (BInf false) (BInf true) false false false false),
         (FFin (RF false 0 3)).
  split; [wf_by_compute|]. split; [wf_by_compute|]. split; [vm_compute; reflexivity|]. split; [mem_by_compute|].
  simpl. intros [_ (R & _)]. replace (R2R (RF false 0 3)) with 3%R in R.
  - exact (not_repr_3_prec1 _ R).
  - unfold R2R, rf_m, F2R; simpl. lra.
Qed.

(* from_format of MPFloatFormat(pmax, enable_nan, enable_inf) and round_is_identity for
   such a context: reported True from 2 bits to 1 bit of precision *)
Definition from_mp_float (pmax : Z) (enable_nan enable_inf : bool) : absfmt :=
  AF (EFin pmax) EMInf (BInf false) (BInf true) enable_inf enable_inf enable_nan true.

Theorem round_is_identity_mp_refuted : exists A pmax x,
  af_wf A /\ af_le A (from_mp_float pmax true true) = true /\ gamma A (FFin x) /\
  ~ repr (EFin pmax) EMInf (R2R x).
Proof.
  exists (from_mp_float 2 true true), 1, (RF false 0 3).
  split; [wf_by_compute|]. split; [vm_compute; reflexivity|]. split; [mem_by_compute|].
  replace (R2R (RF false 0 3)) with 3%R by (unfold R2R, rf_m, F2R; simpl; lra).
  apply not_repr_3_prec1.
Qed.

(* ---------------------------------------------------------------- hypotheses are satisfiable *)
Definition A_ex1 : absfmt :=   (* a small float: 3 bits, quantum 2^-2, [-6, 6], all specials *)
  AF (EFin 3) (EFin (-2)) (BFin (RF false 0 6)) (BFin (RF true 0 6)) true true true true.

Example add_sub_hyp_sat : exists A B C D x y, af_wf A /\ af_wf B /\ af_add A B = Ok C /\ af_sub A B = Ok D /\
  gamma A x /\ gamma B y.
Proof.
  exists A_ex1, A_sint8,
    (AF (EFin 10) (EFin (-2)) (BFin (RF false 0 133)) (BFin (RF true 0 134)) true true true false),
    (AF (EFin 10) (EFin (-2)) (BFin (RF false 0 134)) (BFin (RF true 0 133)) true true true true),
    (FFin (RF true (-2) 5)), (FFin (RF false 0 100)).
  split; [wf_by_compute|]. split; [wf_by_compute|]. split; [vm_compute; reflexivity|]. split; [vm_compute; reflexivity|].
  split; mem_by_compute.
Qed.

Example mul_partial_hyp_sat : exists A B C x y, af_wf A /\ af_wf B /\ af_mul A B = Ok C /\
  fin_bounds A /\ fin_bounds B /\ gamma A x /\ gamma B y /\
  (is_negzero (fl_mul x y) = true -> a_nz A || a_nz B = true).
Proof.
  exists A_ex1, A_sint8,
    (AF (EFin 11) (EFin (-2)) (BFin (RF false 0 768)) (BFin (RF true 0 768)) true true true true),
    (FFin (RF true (-2) 5)), (FFin (RF false 0 0)).
  split; [wf_by_compute|]. split; [wf_by_compute|]. split; [vm_compute; reflexivity|].
  split; [split; reflexivity|]. split; [split; reflexivity|]. split; [mem_by_compute|]. split; [mem_by_compute|].
  intros _. reflexivity.
Qed.

Example neg_abs_partial_hyp_sat : exists A x, af_wf A /\ abs_ok A /\ gamma A x /\ (is_poszero x = true -> a_nz A = true).
Proof.
  exists A_ex1, (FFin (RF false 0 0)). split; [wf_by_compute|]. split; [|split; [mem_by_compute|reflexivity]].
  intros r. simpl. rewrite (neg_denote (RF false 0 6) : R2R (RF true 0 6) = _). lra.
Qed.

(* the cut-off arm of __le__ (self.prec > other.prec) is exercised *)
Example le_partial_hyp_sat : exists A B v, af_wf A /\ af_wf B /\ le_ok A B /\ af_le A B = true /\ gamma A v /\
  ext_gt (a_prec A) (a_prec B) = true.
Proof.
  exists (AF EPInf (EFin 0) (BFin (RF false 0 8)) (BFin (RF true 0 8)) false false false false),
         (AF (EFin 3) (EFin (-2)) (BFin (RF false 0 12)) (BFin (RF true 0 12)) true true true true), (FFin (RF false 0 8)).
  split; [wf_by_compute|]. split; [wf_by_compute|]. split; [exact I|]. split; [vm_compute; reflexivity|].
  split; [mem_by_compute|reflexivity].
Qed.

Example round_is_identity_hyp_sat : exists A v,
  af_wf A /\ round_is_identity A 3 0 (RF false 0 6) (RF true 0 6) true true = true /\ gamma A v.
Proof.
  exists (AF EPInf (EFin 0) (BFin (RF false 0 6)) (BFin (RF true 0 6)) false false false false), (FFin (RF false 0 5)).
  split; [wf_by_compute|]. split; [vm_compute; reflexivity|mem_by_compute].
Qed.

Theorem wf_closed A B : af_wf A -> af_wf B ->
  af_wf (af_neg A) /\ af_wf (af_abs A) /\ af_wf (af_or A B) /\
  (forall C, af_add A B = Ok C -> af_wf C) /\ (forall C, af_sub A B = Ok C -> af_wf C).
Proof.
  intros WA WB. split; [apply neg_wf; exact WA|]. split; [apply abs_wf; exact WA|].
  split; [apply or_wf; assumption|]. split; intros C H.
  - exact (add_wf_fmt A B C WA WB H).
  - exact (sub_wf_fmt A B C WA WB H).
Qed.

(* ---------------------------------------------------------------- the repaired variants are sound at full strength *)
Lemma mul_gen_as_coded A B : af_mul_gen false false A B = af_mul A B.
Proof. reflexivity. Qed.

Theorem neg_fx_sound A x : af_wf A -> gamma A x -> gamma (af_neg_fx A) (fl_neg x).
Proof.
  intros Hw Hg. destruct x as [x|s|s]; simpl in *.
  - destruct Hg as [Hx Hg]. split; [exact Hx|].
    destruct (Z.eqb_spec (rc x) 0) as [Z0|Z0]; [reflexivity|].
    destruct Hg as (Hr & Hp & Hn). rewrite R2R_neg_mk. split; [|split]; simpl.
    + apply repr_opp. exact Hr.
    + apply le_bnd_neg. exact Hn.
    + apply ge_bnd_neg. exact Hp.
  - destruct s; simpl; assumption.
  - assumption.
Qed.

Theorem abs_fx_sound A x : af_wf A -> gamma A x -> gamma (af_abs_fx A) (fl_abs x).
Proof.
  intros Hw Hg. pose proof Hw as (_ & _ & Wp & Wn & _ & _).
  assert (Wnn : bnd_wf (bneg (a_neg A))) by (destruct (a_neg A); simpl in *; auto).
  destruct x as [x|s|s]; simpl in *.
  - destruct Hg as [Hx Hg]. split; [exact Hx|].
    destruct (Z.eqb_spec (rc x) 0) as [Z0|Z0]; [discriminate|].
    destruct Hg as (Hr & Hp & Hn). rewrite R2R_abs_mk by assumption. split; [|split]; simpl.
    + apply repr_abs. exact Hr.
    + unfold Rabs. destruct (Rcase_abs (R2R x)).
      * apply le_bmax_r; auto. apply le_bnd_neg. exact Hn.
      * apply le_bmax_l; auto.
    + unfold R2R, rf_zero; simpl. rewrite F2R_0. apply Rabs_pos.
  - destruct s; rewrite Hg; auto using orb_true_r.
  - assumption.
Qed.

Theorem le_fx_sound A B v : af_wf A -> af_wf B -> af_le_fx A B = true -> gamma A v -> gamma B v.
Proof.
  intros WA WB H. apply le_sound_partial; auto.
  - unfold le_ok. unfold af_le_fx in H. destruct (a_prec B) as [q| |]; auto. destruct (a_exp B); auto.
    destruct (ext_gt (a_prec A) (EFin q)); [discriminate|reflexivity].
  - unfold af_le_fx in H. destruct (a_prec B) as [q| |]; auto. destruct (a_exp B); auto;
      destruct (ext_gt (a_prec A) (EFin q)); try discriminate; exact H.
Qed.
