(* C13: a small program logic over the trace monad of Instr.v, generic in the
   annotation type and in the predicate the events must satisfy:
     mokP evP Q m  :=  every event of m satisfies evP, and a result satisfies Q. *)
From Coq Require Import List Bool String.
From FpyV Require Import Num.RealFloat Lang.Syntax Lang.Values Lang.Sem Analysis.Instr.
Import ListNotations.

Section Logic.
Variable A : Type.
Variable evP : event A -> Prop.

Definition mokP {X} (Q : X -> Prop) (m : M A X) : Prop :=
  Forall evP (fst m) /\ (forall x, snd m = ROk x -> Q x).

Lemma mokP_bind : forall X Y (Q1 : X -> Prop) (Q2 : Y -> Prop) (m : M A X) (f : X -> M A Y),
  mokP Q1 m -> (forall x, snd m = ROk x -> Q1 x -> mokP Q2 (f x)) -> mokP Q2 (mbind m f).
Proof.
  intros X Y Q1 Q2 [t [x|e|]] f [Ht Hq] Hf; cbn in *.
  - specialize (Hf x eq_refl (Hq x eq_refl)). destruct (f x) as [t2 r2]. destruct Hf as [Ht2 Hq2]. cbn in *.
    split; [apply Forall_app; auto | exact Hq2].
  - split; [exact Ht | discriminate].
  - split; [exact Ht | discriminate].
Qed.

Lemma mokP_liftr : forall X (Q : X -> Prop) (r : res X), (forall x, r = ROk x -> Q x) -> mokP Q (liftr r).
Proof. intros. split; [constructor | exact H]. Qed.

Lemma mokP_ret : forall X (Q : X -> Prop) (x : X), Q x -> mokP Q (mret x).
Proof. intros. split; [constructor|]. intros y E. inversion E; subst; auto. Qed.

Lemma mokP_fail : forall X (Q : X -> Prop) e, mokP Q (mfail e).
Proof. intros. split; [constructor | discriminate]. Qed.

Lemma mokP_weaken : forall X (Q1 Q2 : X -> Prop) m, mokP Q1 m -> (forall x, Q1 x -> Q2 x) -> mokP Q2 m.
Proof. intros X Q1 Q2 m [H1 H2] H. split; auto. Qed.

Lemma mokP_weaken_eq : forall X (Q1 Q2 : X -> Prop) m,
  mokP Q1 m -> (forall x, snd m = ROk x -> Q1 x -> Q2 x) -> mokP Q2 m.
Proof. intros X Q1 Q2 m [H1 H2] H. split; auto. Qed.

Lemma mokP_events : forall X (Q : X -> Prop) t (r : res X),
  Forall evP t -> (forall x, r = ROk x -> Q x) -> mokP Q (t, r).
Proof. intros. split; auto. Qed.

Lemma mokP_done : forall (Q : value * store -> Prop) a C r,
  evP (EvVal a C (fst r)) -> Q r -> mokP Q (done a C r).
Proof.
  intros. split.
  - constructor; [assumption|constructor].
  - intros x E. inversion E; subst; auto.
Qed.

End Logic.

Lemma snd_mbind_inv : forall A X Y (m : M A X) (f : X -> M A Y) y,
  snd (mbind m f) = ROk y -> exists x, snd m = ROk x /\ snd (f x) = ROk y.
Proof.
  intros A X Y [t [x|e|]] f y H; cbn in H; try discriminate.
  exists x. split; auto. destruct (f x). exact H.
Qed.

(* the shadow environment *)
Lemma denv_get_set_same : forall A (D : denv A) x a, denv_get A (denv_set A D x a) x = Some a.
Proof.
  induction D as [|[y b] D IH]; intros; cbn.
  - rewrite String.eqb_refl. reflexivity.
  - destruct (String.eqb x y) eqn:E; cbn; rewrite E; auto.
Qed.

Lemma denv_get_set_other : forall A (D : denv A) x y a, x <> y ->
  denv_get A (denv_set A D x a) y = denv_get A D y.
Proof.
  induction D as [|[z b] D IH]; intros; cbn.
  - destruct (String.eqb y x) eqn:E; auto. apply String.eqb_eq in E. congruence.
  - destruct (String.eqb x z) eqn:E; cbn.
    + apply String.eqb_eq in E. subst z.
      destruct (String.eqb y x) eqn:E2; auto. apply String.eqb_eq in E2. congruence.
    + destruct (String.eqb y z); auto.
Qed.
