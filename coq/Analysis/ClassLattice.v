(* C13, value classes: the 16-element lattice of fpy2/analysis/value_class.py
   (subsets of {NaN, Inf, Zero, Finite-non-zero}) and the abstract transfer
   functions.  Definitions only.

   A transfer function is given on ATOMS (`a_add x y : cls` = the set of classes
   the exact result can have when the operands have classes x and y) and lifted
   to sets as the union over members (`lift1/lift2/lift3`): the best abstraction
   of the atom table.  value_class.py's own `_exact_add`, `_exact_mul`, `_LOGB`
   and `_POW_POS_BASE` are compared with these on all 16 / 256 inputs on every
   run (harness/props/c13.py, `table` cases): they must be supersets. *)
From Coq Require Import ZArith List Bool.
From FpyV Require Import Num.RealFloat Num.Float Num.CtxDef Lang.Syntax Lang.Values.
Import ListNotations.
Open Scope Z_scope.

Inductive atom := ANaN | AInf | AZero | AFin.

Record cls := Cls { c_nan : bool; c_inf : bool; c_zero : bool; c_fin : bool }.

Definition mem (a : atom) (c : cls) : bool :=
  match a with ANaN => c_nan c | AInf => c_inf c | AZero => c_zero c | AFin => c_fin c end.

Definition c_bot := Cls false false false false.
Definition c_top := Cls true true true true.
Definition single (a : atom) : cls :=
  match a with
  | ANaN => Cls true false false false
  | AInf => Cls false true false false
  | AZero => Cls false false true false
  | AFin => Cls false false false true
  end.

Definition join (a b : cls) : cls :=
  Cls (c_nan a || c_nan b) (c_inf a || c_inf b) (c_zero a || c_zero b) (c_fin a || c_fin b).
Definition meet (a b : cls) : cls :=
  Cls (c_nan a && c_nan b) (c_inf a && c_inf b) (c_zero a && c_zero b) (c_fin a && c_fin b).
Definition compl (a : cls) : cls :=
  Cls (negb (c_nan a)) (negb (c_inf a)) (negb (c_zero a)) (negb (c_fin a)).
(* a ⊆ b *)
Definition leq (a b : cls) : bool :=
  implb (c_nan a) (c_nan b) && implb (c_inf a) (c_inf b) && implb (c_zero a) (c_zero b) && implb (c_fin a) (c_fin b).
Definition is_bot (a : cls) : bool := leq a c_bot.

(* ValueClass.value: NAN = 1, INF = 2, ZERO = 4, FINITE = 8 *)
Definition cls_of_Z (m : Z) : cls :=
  Cls (Z.testbit m 0) (Z.testbit m 1) (Z.testbit m 2) (Z.testbit m 3).

Definition atoms : list atom := [ANaN; AInf; AZero; AFin].

Definition joins (l : list cls) : cls := fold_right join c_bot l.

Definition lift1 (f : atom -> cls) (a : cls) : cls :=
  joins (map (fun x => if mem x a then f x else c_bot) atoms).
Definition lift2 (f : atom -> atom -> cls) (a b : cls) : cls :=
  joins (map (fun x => if mem x a then lift1 (f x) b else c_bot) atoms).
Definition lift3 (f : atom -> atom -> atom -> cls) (a b c : cls) : cls :=
  joins (map (fun x => if mem x a then lift2 (f x) b c else c_bot) atoms).

(* ---------------------------------------------------------------- atom tables: EXACT results *)
Definition a_id (x : atom) : cls := single x.          (* neg, fabs, copies *)

(* x + y and x - y (sign-blind) *)
Definition a_add (x y : atom) : cls :=
  match x, y with
  | ANaN, _ | _, ANaN => single ANaN
  | AInf, AInf => Cls true true false false            (* inf - inf *)
  | AInf, _ | _, AInf => single AInf
  | AZero, AZero => single AZero
  | AZero, AFin | AFin, AZero => single AFin
  | AFin, AFin => Cls false false true true            (* cancellation *)
  end.

Definition a_mul (x y : atom) : cls :=
  match x, y with
  | ANaN, _ | _, ANaN => single ANaN
  | AInf, AZero | AZero, AInf => single ANaN           (* 0 * inf *)
  | AInf, _ | _, AInf => single AInf
  | AZero, _ | _, AZero => single AZero
  | AFin, AFin => single AFin
  end.

Definition a_div (x y : atom) : cls :=
  match x, y with
  | ANaN, _ | _, ANaN => single ANaN
  | AInf, AInf => single ANaN
  | AInf, _ => single AInf
  | _, AInf => single AZero
  | AZero, AZero => single ANaN
  | AFin, AZero => single AInf                         (* division by zero *)
  | AZero, AFin => single AZero
  | AFin, AFin => single AFin
  end.

Definition a_sqrt (x : atom) : cls :=
  match x with
  | ANaN => single ANaN
  | AInf => Cls true true false false                  (* sqrt(-inf) *)
  | AZero => single AZero
  | AFin => Cls true false false true                  (* sqrt(negative) *)
  end.

(* x * y + z with ONE rounding: the class of the exact value *)
Definition a_fma (x y z : atom) : cls := lift1 (fun p => a_add p z) (a_mul x y).

(* value_class._LOGB *)
Definition a_logb (x : atom) : cls :=
  match x with
  | ANaN => single ANaN | AInf => single AInf | AZero => single AInf
  | AFin => Cls false false true true
  end.

(* rounding an exact value of class x under a context with NaN and infinities
   (default special-value options): specials and zeros are kept, a finite
   non-zero value may underflow to zero or overflow to an infinity *)
Definition a_round (x : atom) : cls :=
  match x with
  | AFin => Cls false true true true
  | _ => single x
  end.
(* ... under a context without exponent bounds: no overflow *)
Definition a_round_unbounded (x : atom) : cls :=
  match x with
  | AFin => Cls false false true true
  | _ => single x
  end.

(* ---------------------------------------------------------------- the class of a run-time number *)
Definition atom_of_fl (x : fl) : atom :=
  match x with
  | FNaN _ => ANaN
  | FInf _ => AInf
  | FFin r => if is_zero r then AZero else AFin
  end.

Definition atom_of_num (x : num) : atom :=
  match x with
  | NF f => atom_of_fl f
  | NQ _ _ => AFin          (* a non-dyadic rational is not zero *)
  end.

(* well-formedness of a number: an NQ is a non-dyadic rational, so it is
   non-zero and has a non-zero denominator (Values.v states this in a comment) *)
Definition num_okb (x : num) : bool :=
  match x with NF _ => true | NQ n d => negb (n =? 0) && negb (d =? 0) end.

(* a value satisfies a class fact: numbers by class, everything else carries none *)
Definition sat_cls (c : cls) (v : value) : bool :=
  match v with VNum x => mem (atom_of_num x) c | _ => true end.

(* ---------------------------------------------------------------- operators *)
(* class of the EXACT result of a rounded operator; c_top where nothing is known *)
Definition op1_exact (o : op) (a : cls) : cls :=
  match o with
  | ONeg | OFabs | OCast | ORound => lift1 a_id a
  | OSqrt => lift1 a_sqrt a
  | OLogb => lift1 a_logb a
  | _ => c_top
  end.

Definition op2_exact (o : op) (a b : cls) : cls :=
  match o with
  | OAdd | OSub => lift2 a_add a b
  | OMul => lift2 a_mul a b
  | ODiv => lift2 a_div a b
  | _ => c_top
  end.

Definition op3_exact (o : op) (a b c : cls) : cls :=
  match o with
  | OFma => lift3 a_fma a b c
  | _ => c_top
  end.

Definition op0_exact (o : op) : cls :=
  match o with
  | ONan => single ANaN
  | OInf => single AInf
  | OConst _ => single AFin
  | _ => c_top
  end.

Definition is_real (c : ctx) : bool := match c with CReal => true | _ => false end.
