(* C13: the instrumented evaluator of Instr.v IS the evaluator of Lang/Sem.v
   plus a trace: forgetting the trace and the labels gives exactly the result
   of Sem.eval / exec / call on the erased program, at every fuel, for every
   outcome (value, error, out of fuel). *)
From Coq Require Import ZArith List Bool String Lia.
From FpyV Require Import Num.RealFloat Num.Float Num.CtxDef Lang.Syntax Lang.Values Lang.Sem Lang.SemMono
  Analysis.Instr.
Import ListNotations.
Open Scope Z_scope.

Section Erasure.
Variable A : Type.
Variable N : numops.
Variable P : program.

Notation ieval := (ieval A N P).
Notation ievals := (ievals A N P).
Notation icmp_chain := (icmp_chain A N P).
Notation ibool_chain := (ibool_chain A N P).
Notation iexec := (iexec A N P).
Notation iexec_block := (iexec_block A N P).
Notation ifor_loop := (ifor_loop A N P).

Definition rmap {X Y} (f : X -> Y) (r : res X) : res Y :=
  match r with ROk x => ROk (f x) | RErr e => RErr e | RFuel => RFuel end.

Lemma snd_mbind_ext : forall X Y (m : M A X) (f : X -> M A Y) r (g : X -> res Y),
  snd m = r -> (forall x, snd (f x) = g x) -> snd (mbind m f) = rbind r g.
Proof.
  intros X Y [t [x|e|]] f r g Hm Hf; cbn in Hm; subst r; cbn; auto.
  specialize (Hf x). destruct (f x) as [t2 r2]. cbn in *. exact Hf.
Qed.

Lemma snd_mbind_done : forall (m : M A (value * store)) a C, snd (mbind m (done a C)) = snd m.
Proof. intros [t [x|e|]] a C; reflexivity. Qed.

Lemma snd_mbind_map : forall X Y Z (m : M A X) (f : X -> M A Y) r (h : Y -> Z) (g : X -> res Z),
  snd m = r -> (forall x, rmap h (snd (f x)) = g x) -> rmap h (snd (mbind m f)) = rbind r g.
Proof.
  intros X Y Z [t [x|e|]] f r h g Hm Hf; cbn in Hm; subst r; cbn; auto.
  specialize (Hf x). destruct (f x) as [t2 r2]. cbn in *. exact Hf.
Qed.

(* one-step unfoldings *)
Lemma ieval_S : forall n s D mu C e,
  ieval (S n) s D mu C e =
  ieval_body A N (ieval n) (ievals n) (icmp_chain n) (ibool_chain n) (eval N P (S n)) s D mu C e.
Proof. reflexivity. Qed.
Lemma ievals_S : forall n s D mu C es,
  ievals (S n) s D mu C es = ievals_body A (ieval n) (ievals n) s D mu C es.
Proof. reflexivity. Qed.
Lemma icmp_chain_S : forall n s D mu C v ops args,
  icmp_chain (S n) s D mu C v ops args =
  icmp_chain_body A N (ieval n) (icmp_chain n) (value_eq N n) s D mu C v ops args.
Proof. reflexivity. Qed.
Lemma ibool_chain_S : forall n s D mu C u args,
  ibool_chain (S n) s D mu C u args = ibool_chain_body A (ieval n) (ibool_chain n) s D mu C u args.
Proof. reflexivity. Qed.
Lemma iexec_S : forall n s D mu C st,
  iexec (S n) s D mu C st =
  iexec_body A (ieval n) (iexec n) (iexec_block n) (ifor_loop n) (index_walk N P n) s D mu C st.
Proof. reflexivity. Qed.
Lemma iexec_block_S : forall n s D mu C b,
  iexec_block (S n) s D mu C b = iexec_block_body A (iexec n) (iexec_block n) s D mu C b.
Proof. reflexivity. Qed.
Lemma ifor_loop_S : forall n s D mu C ph p l i body,
  ifor_loop (S n) s D mu C ph p l i body =
  ifor_loop_body A (iexec_block n) (ifor_loop n) s D mu C ph p l i body.
Proof. reflexivity. Qed.

Ltac estep tac :=
  first [ apply snd_mbind_ext; [solve [tac | reflexivity] | let x := fresh "x" in intros x; try (destruct x as [? ?]); cbn beta iota]
        | reflexivity ].

Ltac ifd := match goal with |- context [if ?b then _ else _] => destruct b end.

(* ---------------------------------------------------------------- expressions *)
Definition erase_expr_at (n : nat) : Prop :=
  (forall s D mu C e, snd (ieval n s D mu C e) = eval N P n s mu C (erase_e A e)) /\
  (forall s D mu C es, snd (ievals n s D mu C es) = evals N P n s mu C (map (erase_e A) es)) /\
  (forall s D mu C v ops args,
     snd (icmp_chain n s D mu C v ops args) = cmp_chain N P n s mu C v ops (map (erase_e A) args)) /\
  (forall s D mu C u args,
     snd (ibool_chain n s D mu C u args) = bool_chain N P n s mu C u (map (erase_e A) args)).

Lemma erase_expr_all : forall n, erase_expr_at n.
Proof.
  induction n as [|n (IHe & IHes & IHc & IHb)].
  - repeat split; intros; reflexivity.
  - repeat split.
    + intros s D mu C e. rewrite eval_S, ieval_S. destruct e; cbn [ieval_body erase_e eval_body].
      * destruct (env_get s x); reflexivity.
      * reflexivity.
      * destruct (d =? 0); reflexivity.
      * reflexivity.
      * reflexivity.
      * repeat estep idtac.
      * repeat estep ltac:(apply IHe).
      * repeat estep ltac:(apply IHe).
      * repeat estep ltac:(apply IHe).
      * repeat estep ltac:(apply IHe).
      * destruct args as [|e1 rest]; [reflexivity|]. cbn [map].
        estep ltac:(apply IHe). rewrite snd_mbind_done. apply IHc.
      * rewrite snd_mbind_done. apply IHb.
      * rewrite snd_mbind_done. apply IHb.
      * repeat estep ltac:(apply IHe).
      * estep ltac:(apply IHe). estep idtac. rewrite snd_mbind_done. ifd; apply IHe.
      * repeat estep ltac:(apply IHes).
      * repeat estep ltac:(apply IHes).
      * repeat estep ltac:(apply IHes).
      * rewrite snd_mbind_done. cbn [snd]. rewrite eval_S. reflexivity.
    + intros s D mu C es. rewrite evals_S, ievals_S. destruct es as [|e r]; cbn [ievals_body map evals_body]; [reflexivity|].
      estep ltac:(apply IHe). estep ltac:(apply IHes). reflexivity.
    + intros s D mu C v ops args. rewrite cmp_chain_S, icmp_chain_S.
      destruct ops as [|o ops'], args as [|e args']; cbn [icmp_chain_body map cmp_chain_body]; try reflexivity.
      destruct (is_ordering o).
      * estep idtac. estep ltac:(apply IHe). estep idtac.
        ifd; [|reflexivity]. destruct ops'; [reflexivity|apply IHc].
      * estep ltac:(apply IHe). estep idtac.
        ifd; [|reflexivity]. destruct ops'; [reflexivity|apply IHc].
    + intros s D mu C u args. rewrite bool_chain_S, ibool_chain_S.
      destruct args as [|e r]; cbn [ibool_chain_body map bool_chain_body]; [reflexivity|].
      estep ltac:(apply IHe). estep idtac.
      ifd; [|reflexivity]. destruct r; [reflexivity|apply IHb].
Qed.

Theorem ieval_erase : forall n s D mu C e,
  snd (ieval n s D mu C e) = eval N P n s mu C (erase_e A e).
Proof. intros n. apply (erase_expr_all n). Qed.

(* ---------------------------------------------------------------- patterns *)
Lemma ibind_pat_erase : forall p v s D,
  match snd (ibind_pat A p v s D) with
  | Ok (s', _) => bind_pat (erase_p A p) v s = Ok s'
  | Err e => bind_pat (erase_p A p) v s = Err e
  end.
Proof.
  fix IH 1. intros p v s D. destruct p as [a x| |ps]; cbn [ibind_pat erase_p bind_pat snd]; try reflexivity.
  destruct v; try reflexivity.
  rewrite map_length. destruct (negb (Nat.eqb (List.length ps) (List.length vs))); [reflexivity|].
  revert vs s D. induction ps as [|p ps IHps]; intros vs s D; [destruct vs; reflexivity|].
  destruct vs as [|v vs]; [reflexivity|]. cbn [map].
  specialize (IH p v s D). destruct (ibind_pat A p v s D) as [t1 [[s' D']|e]]; cbn [snd] in IH.
  - rewrite IH. cbn [bind]. specialize (IHps vs s' D').
    match goal with |- context [(fix go (ps0 : list (apat A)) (vs0 : list value) (s0 : env) (D0 : denv A) {struct ps0} := _) ps vs s' D'] =>
      set (G := (fix go (ps0 : list (apat A)) (vs0 : list value) (s0 : env) (D0 : denv A) {struct ps0} := _) ps vs s' D') in * end.
    destruct G as [t2 r2]. cbn [snd] in *. exact IHps.
  - rewrite IH. reflexivity.
Qed.

Lemma mbind_pat_erase : forall p v s D,
  rmap fst (snd (mbind_pat A p v s D)) = lift (bind_pat (erase_p A p) v s).
Proof.
  intros. unfold mbind_pat. pose proof (ibind_pat_erase p v s D) as H.
  destruct (ibind_pat A p v s D) as [t [[s' D']|e]]; cbn [snd] in *; rewrite H; reflexivity.
Qed.

Lemma ibind_params_erase : forall xs vs s D,
  match snd (ibind_params A xs vs s D) with
  | Ok (s', _) => bind_params (map snd xs) vs s = Ok s'
  | Err e => bind_params (map snd xs) vs s = Err e
  end.
Proof.
  induction xs as [|[a x] xs IH]; intros vs s D; destruct vs as [|v vs]; cbn [ibind_params map bind_params snd]; try reflexivity.
  specialize (IH vs (env_set s x v) (denv_set A D x a)).
  destruct (ibind_params A xs vs (env_set s x v) (denv_set A D x a)) as [t r]. cbn [snd] in *. exact IH.
Qed.

(* ---------------------------------------------------------------- statements *)
Definition eo (r : ioutcome A * store) : outcome * store := (erase_o A (fst r), snd r).

Lemma snd_mbind_k : forall X X' Y Z (m : M A X) (f : X -> M A Y) (k : X -> X') r (h : Y -> Z) (g : X' -> res Z),
  rmap k (snd m) = r -> (forall x, rmap h (snd (f x)) = g (k x)) -> rmap h (snd (mbind m f)) = rbind r g.
Proof.
  intros X X' Y Z [t [x|e|]] f k r h g Hm Hf; cbn in Hm; subst r; cbn; auto.
  specialize (Hf x). destruct (f x) as [t2 r2]. cbn in *. exact Hf.
Qed.

Lemma snd_mbind_ok : forall X Y t (x : X) (f : X -> M A Y), snd (mbind (t, ROk x) f) = snd (f x).
Proof. intros. cbn. destruct (f x); reflexivity. Qed.

Definition erase_stmt_at (n : nat) : Prop :=
  (forall s D mu C st, rmap eo (snd (iexec n s D mu C st)) = exec N P n s mu C (erase_s A st)) /\
  (forall s D mu C b, rmap eo (snd (iexec_block n s D mu C b)) = exec_block N P n s mu C (erase_b A b)) /\
  (forall s D mu C ph p l i body,
     rmap eo (snd (ifor_loop n s D mu C ph p l i body)) = for_loop N P n s mu C (erase_p A p) l i (erase_b A body)).

Lemma rmap_after_phis : forall ph (m : M A (ioutcome A * store)),
  rmap eo (snd (mbind m (after_phis A ph))) = rmap eo (snd m).
Proof.
  intros ph [t [[o mu]|e|]]; try reflexivity.
  unfold after_phis. cbn [mbind fst]. destruct o; reflexivity.
Qed.

Lemma rmap_id_snd : forall X (m : M A X), rmap (fun x => x) (snd m) = snd m.
Proof. intros X [t [x|e|]]; reflexivity. Qed.

(* bind on an expression evaluation *)
Ltac sev :=
  apply snd_mbind_k with (k := fun x => x);
  [rewrite rmap_id_snd; apply ieval_erase | let x := fresh "x" in intros x; try (destruct x as [? ?]); cbn beta iota].
(* bind on a pure `liftr` *)
Ltac slift :=
  apply snd_mbind_k with (k := fun x => x);
  [rewrite rmap_id_snd; reflexivity | let x := fresh "x" in intros x; try (destruct x as [? ?]); cbn beta iota].

Lemma erase_stmt_all : forall n, erase_stmt_at n.
Proof.
  induction n as [|n (IHs & IHb & IHf)].
  - repeat split; intros; reflexivity.
  - repeat split.
    + intros s D mu C st. rewrite exec_S, iexec_S.
      destruct st; cbn [iexec_body erase_s exec_body].
      * (* assign *) sev.
        apply snd_mbind_k with (k := fst); [apply mbind_pat_erase|]. intros [s' D']. reflexivity.
      * (* indexed assign *) sev.
        destruct (env_get s x); [|reflexivity].
        apply snd_mbind_k with (k := fun x => x); [rewrite rmap_id_snd; reflexivity|]. intros mu2. reflexivity.
      * (* if1 *) sev. slift. rewrite rmap_after_phis. ifd; [apply IHb|reflexivity].
      * (* if *) sev. slift. rewrite rmap_after_phis. ifd; apply IHb.
      * (* while *) rewrite snd_mbind_ok. sev. slift. ifd; [|reflexivity].
        apply snd_mbind_k with (k := eo); [apply IHb|]. intros [o mu2]. destruct o as [s' D'|rv]; [|reflexivity].
        apply (IHs s' D' mu2 C (ASWhile ph c body)).
      * (* for *) sev. slift. apply IHf.
      * (* with *) sev. destruct v; try reflexivity.
        destruct x as [[a x]|]; cbn [option_map snd].
        -- rewrite snd_mbind_ok. apply IHb.
        -- apply IHb.
      * (* assert *) sev. slift. ifd; reflexivity.
      * sev. reflexivity.
      * sev. reflexivity.
      * reflexivity.
    + intros s D mu C b. rewrite exec_block_S, iexec_block_S.
      destruct b as [|st r]; cbn [iexec_block_body erase_b map exec_block_body]; [reflexivity|].
      apply snd_mbind_k with (k := eo); [apply IHs|]. intros [o mu1]. destruct o as [s' D'|rv]; [|reflexivity].
      apply IHb.
    + intros s D mu C ph p l i body. rewrite for_loop_S, ifor_loop_S.
      unfold ifor_loop_body, for_loop_body. rewrite snd_mbind_ok.
      destruct (store_get mu l) as [vs|]; [|reflexivity].
      destruct (nth_error vs i) as [x|]; [|reflexivity].
      apply snd_mbind_k with (k := fst); [apply mbind_pat_erase|]. intros [s1 D1]. cbn [fst].
      apply snd_mbind_k with (k := eo); [apply IHb|]. intros [o mu1]. destruct o as [s2 D2|rv]; [|reflexivity].
      apply IHf.
Qed.

Theorem iexec_erase : forall n s D mu C st,
  rmap eo (snd (iexec n s D mu C st)) = exec N P n s mu C (erase_s A st).
Proof. intros n. apply (erase_stmt_all n). Qed.

Theorem iexec_block_erase : forall n s D mu C b,
  rmap eo (snd (iexec_block n s D mu C b)) = exec_block N P n s mu C (erase_b A b).
Proof. intros n. apply (erase_stmt_all n). Qed.

(* the entry point: Sem.call on the erased function *)
Theorem icall_erase : forall n fn vs mu C,
  snd (icall A N P n fn vs mu C) = call N P n (erase_f A fn) vs mu C.
Proof.
  intros [|n] fn vs mu C; [reflexivity|]. rewrite call_S. unfold icall, call_body, erase_f.
  cbn [f_params f_ctx f_body].
  pose proof (ibind_params_erase (af_params fn) vs [] []) as Hp.
  destruct (ibind_params A (af_params fn) vs [] []) as [t r]. cbn [snd] in Hp.
  destruct r as [[s D]|e]; rewrite Hp; [|reflexivity].
  cbn [lift]. rewrite snd_mbind_ok. cbn [rbind].
  pose proof (iexec_block_erase n s D mu (match af_ctx fn with Some c => c | None => C end) (af_body fn)) as Hb.
  rewrite <- Hb.
  destruct (iexec_block n s D mu _ (af_body fn)) as [t2 [[o mu1]|e|]]; try reflexivity.
  destruct o; reflexivity.
Qed.

(* ---------------------------------------------------------------- blocks that always return *)
Lemma stmt_ret_if : forall ph c (t f : list (astmt A)), stmt_ret (ASIf ph c t f) = blk_ret t && blk_ret f.
Proof. reflexivity. Qed.
Lemma stmt_ret_ctx : forall x e (body : list (astmt A)), stmt_ret (ASContext x e body) = blk_ret body.
Proof. reflexivity. Qed.

Lemma snd_mbind_inv' : forall X Y (m : M A X) (f : X -> M A Y) y,
  snd (mbind m f) = ROk y -> exists x, snd m = ROk x /\ snd (f x) = ROk y.
Proof.
  intros X Y [t [x|e|]] f y H; cbn in H; try discriminate.
  exists x. split; auto. destruct (f x). exact H.
Qed.

Definition is_return (o : ioutcome A) : Prop := match o with IOReturn _ => True | IONormal _ _ => False end.

Lemma always_returns : forall n,
  (forall st s D mu C o mu', stmt_ret st = true -> snd (iexec n s D mu C st) = ROk (o, mu') -> is_return o) /\
  (forall b s D mu C o mu', blk_ret b = true -> snd (iexec_block n s D mu C b) = ROk (o, mu') -> is_return o).
Proof.
  induction n as [|n [IHs IHb]]; [split; intros; discriminate|]. split.
  - intros st s D mu C o mu' Hr H. rewrite iexec_S in H.
    destruct st; try discriminate Hr; cbn [iexec_body] in H.
    + (* if *) rewrite stmt_ret_if in Hr. apply andb_prop in Hr. destruct Hr as [Ht Hf].
      apply snd_mbind_inv' in H. destruct H as ([vc mu1] & _ & H).
      apply snd_mbind_inv' in H. destruct H as (b & _ & H).
      apply snd_mbind_inv' in H. destruct H as ([o1 mu2] & Hb & H).
      assert (R1 : is_return o1) by (destruct b; [eapply (IHb ift) | eapply (IHb iff)]; eassumption).
      unfold after_phis in H. cbn [fst] in H. destruct o1; [destruct R1|]. cbn in H. inversion H; subst. exact I.
    + (* with *) rewrite stmt_ret_ctx in Hr.
      apply snd_mbind_inv' in H. destruct H as ([vc mu1] & _ & H).
      destruct vc; try discriminate. destruct x as [[a x]|].
      * apply snd_mbind_inv' in H. destruct H as (u & _ & H). eapply IHb; eauto.
      * eapply IHb; eauto.
    + (* return *) apply snd_mbind_inv' in H. destruct H as ([v mu1] & _ & H). cbn in H. inversion H; subst. exact I.
  - intros b s D mu C o mu' Hr H. rewrite iexec_block_S in H.
    destruct b as [|st r]; [discriminate|]. cbn [iexec_block_body] in H.
    apply snd_mbind_inv' in H. destruct H as ([o1 mu1] & Hs & H).
    destruct o1 as [s1 D1|v]; [|cbn in H; inversion H; subst; exact I].
    destruct r as [|st2 r].
    + cbn [blk_ret] in Hr. exfalso. exact (IHs _ _ _ _ _ _ _ Hr Hs).
    + eapply IHb; [|exact H]. exact Hr.
Qed.

Lemma blk_always_returns : forall n b s D mu C o mu',
  blk_ret b = true -> snd (iexec_block n s D mu C b) = ROk (o, mu') -> is_return o.
Proof. intros n. apply (always_returns n). Qed.

End Erasure.
