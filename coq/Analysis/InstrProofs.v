(* C13: the instrumented evaluator of Instr.v IS the evaluator of Lang/Sem.v
   plus a trace: forgetting the trace and the labels gives exactly the result
   of Sem.eval / exec / call on the erased program, at every fuel, for every
   outcome (value, error, out of fuel). *)
From Coq Require Import ZArith List Bool String Lia.
From FpyV Require Import Num.RealFloat Num.Float Num.CtxDef Lang.Syntax Lang.Values Lang.Sem Lang.SemMono
  Analysis.Instr.
Import ListNotations.
Open Scope Z_scope.

Section Erasure.
Variable A : Type.
Variable N : numops.
Variable P : program.

Notation ieval := (ieval A N P).
Notation ievals := (ievals A N P).
Notation icmp_chain := (icmp_chain A N P).
Notation ibool_chain := (ibool_chain A N P).
Notation iexec := (iexec A N P).
Notation iexec_block := (iexec_block A N P).
Notation ifor_loop := (ifor_loop A N P).

Definition rmap {X Y} (f : X -> Y) (r : res X) : res Y :=
  match r with ROk x => ROk (f x) | RErr e => RErr e | RFuel => RFuel end.

Lemma snd_mbind_ext : forall X Y (m : M A X) (f : X -> M A Y) r (g : X -> res Y),
  snd m = r -> (forall x, snd (f x) = g x) -> snd (mbind m f) = rbind r g.
Proof.
  intros X Y [t [x|e|]] f r g Hm Hf; cbn in Hm; subst r; cbn; auto.
  specialize (Hf x). destruct (f x) as [t2 r2]. cbn in *. exact Hf.
Qed.

Lemma snd_mbind_done : forall (m : M A (value * store)) a, snd (mbind m (done a)) = snd m.
Proof. intros [t [x|e|]] a; reflexivity. Qed.

Lemma snd_mbind_map : forall X Y Z (m : M A X) (f : X -> M A Y) r (h : Y -> Z) (g : X -> res Z),
  snd m = r -> (forall x, rmap h (snd (f x)) = g x) -> rmap h (snd (mbind m f)) = rbind r g.
Proof.
  intros X Y Z [t [x|e|]] f r h g Hm Hf; cbn in Hm; subst r; cbn; auto.
  specialize (Hf x). destruct (f x) as [t2 r2]. cbn in *. exact Hf.
Qed.

Ltac estep tac :=
  first [ apply snd_mbind_ext; [solve [tac | reflexivity] | let x := fresh "x" in intros x; try destruct x; cbn beta iota]
        | reflexivity ].

(* ---------------------------------------------------------------- expressions *)
Definition erase_expr_at (n : nat) : Prop :=
  (forall s D mu C e, snd (ieval n s D mu C e) = eval N P n s mu C (erase_e A e)) /\
  (forall s D mu C es, snd (ievals n s D mu C es) = evals N P n s mu C (map (erase_e A) es)) /\
  (forall s D mu C v ops args,
     snd (icmp_chain n s D mu C v ops args) = cmp_chain N P n s mu C v ops (map (erase_e A) args)) /\
  (forall s D mu C u args,
     snd (ibool_chain n s D mu C u args) = bool_chain N P n s mu C u (map (erase_e A) args)).

Lemma erase_expr_all : forall n, erase_expr_at n.
Proof.
  induction n as [|n (IHe & IHes & IHc & IHb)].
  - repeat split; intros; reflexivity.
  - repeat split.
    + intros s D mu C e. rewrite eval_S. destruct e; cbn [Instr.ieval erase_e eval_body].
      * destruct (env_get s x); reflexivity.
      * reflexivity.
      * destruct (d =? 0); reflexivity.
      * reflexivity.
      * reflexivity.
      * repeat estep idtac.
      * repeat estep ltac:(apply IHe).
      * repeat estep ltac:(apply IHe).
      * repeat estep ltac:(apply IHe).
      * repeat estep ltac:(apply IHe).
      * destruct args as [|e1 rest]; [reflexivity|]. cbn [map].
        estep ltac:(apply IHe). rewrite snd_mbind_done. apply IHc.
      * rewrite snd_mbind_done. apply IHb.
      * rewrite snd_mbind_done. apply IHb.
      * repeat estep ltac:(apply IHe).
      * estep ltac:(apply IHe). estep idtac. rewrite snd_mbind_done.
        match goal with |- context [if ?b then _ else _] => destruct b end; apply IHe.
      * repeat estep ltac:(apply IHes).
      * repeat estep ltac:(apply IHes).
      * repeat estep ltac:(apply IHes).
      * rewrite snd_mbind_done. cbn [snd]. rewrite eval_S. reflexivity.
    + intros s D mu C es. rewrite evals_S. destruct es as [|e r]; cbn [Instr.ievals map evals_body]; [reflexivity|].
      estep ltac:(apply IHe). estep ltac:(apply IHes). reflexivity.
    + intros s D mu C v ops args. rewrite cmp_chain_S.
      destruct ops as [|o ops'], args as [|e args']; cbn [Instr.icmp_chain map cmp_chain_body]; try reflexivity.
      destruct (is_ordering o).
      * estep idtac. estep ltac:(apply IHe). estep idtac.
        match goal with |- context [if ?b then _ else _] => destruct b end; [|reflexivity].
        destruct ops'; [reflexivity|apply IHc].
      * estep ltac:(apply IHe). estep idtac.
        match goal with |- context [if ?b then _ else _] => destruct b end; [|reflexivity].
        destruct ops'; [reflexivity|apply IHc].
    + intros s D mu C u args. rewrite bool_chain_S.
      destruct args as [|e r]; cbn [Instr.ibool_chain map bool_chain_body]; [reflexivity|].
      estep ltac:(apply IHe). estep idtac.
      match goal with |- context [if ?b then _ else _] => destruct b end; [|reflexivity].
      destruct r; [reflexivity|apply IHb].
Qed.

Theorem ieval_erase : forall n s D mu C e,
  snd (ieval n s D mu C e) = eval N P n s mu C (erase_e A e).
Proof. intros n. apply (erase_expr_all n). Qed.

(* ---------------------------------------------------------------- patterns *)
Lemma ibind_pat_erase : forall p v s D,
  match snd (ibind_pat A p v s D) with
  | Ok (s', _) => bind_pat (erase_p A p) v s = Ok s'
  | Err e => bind_pat (erase_p A p) v s = Err e
  end.
Proof.
  fix IH 1. intros p v s D. destruct p as [a x| |ps]; cbn [ibind_pat erase_p bind_pat snd]; try reflexivity.
  destruct v; try reflexivity.
  rewrite map_length. destruct (negb (Nat.eqb (List.length ps) (List.length vs))); [reflexivity|].
  revert vs s D. induction ps as [|p ps IHps]; intros vs s D; [destruct vs; reflexivity|].
  destruct vs as [|v vs]; [reflexivity|]. cbn [map].
  specialize (IH p v s D). destruct (ibind_pat A p v s D) as [t1 [[s' D']|e]]; cbn [snd] in IH.
  - rewrite IH. cbn [bind]. specialize (IHps vs s' D').
    match goal with |- context [(fix go (ps0 : list (apat A)) (vs0 : list value) (s0 : env) (D0 : denv A) {struct ps0} := _) ps vs s' D'] =>
      set (G := (fix go (ps0 : list (apat A)) (vs0 : list value) (s0 : env) (D0 : denv A) {struct ps0} := _) ps vs s' D') in * end.
    destruct G as [t2 r2]. cbn [snd] in *. exact IHps.
  - rewrite IH. reflexivity.
Qed.

Lemma mbind_pat_erase : forall p v s D,
  rmap fst (snd (mbind_pat A p v s D)) = lift (bind_pat (erase_p A p) v s).
Proof.
  intros. unfold mbind_pat. pose proof (ibind_pat_erase p v s D) as H.
  destruct (ibind_pat A p v s D) as [t [[s' D']|e]]; cbn [snd] in *; rewrite H; reflexivity.
Qed.

Lemma ibind_params_erase : forall xs vs s D,
  match snd (ibind_params A xs vs s D) with
  | Ok (s', _) => bind_params (map snd xs) vs s = Ok s'
  | Err e => bind_params (map snd xs) vs s = Err e
  end.
Proof.
  induction xs as [|[a x] xs IH]; intros vs s D; destruct vs as [|v vs]; cbn [ibind_params map bind_params snd]; try reflexivity.
  specialize (IH vs (env_set s x v) (denv_set A D x a)).
  destruct (ibind_params A xs vs (env_set s x v) (denv_set A D x a)) as [t r]. cbn [snd] in *. exact IH.
Qed.

(* ---------------------------------------------------------------- statements *)
Definition eo (r : ioutcome A * store) : outcome * store := (erase_o A (fst r), snd r).

Definition erase_stmt_at (n : nat) : Prop :=
  (forall s D mu C st, rmap eo (snd (iexec n s D mu C st)) = exec N P n s mu C (erase_s A st)) /\
  (forall s D mu C b, rmap eo (snd (iexec_block n s D mu C b)) = exec_block N P n s mu C (erase_b A b)) /\
  (forall s D mu C ph p l i body,
     rmap eo (snd (ifor_loop n s D mu C ph p l i body)) = for_loop N P n s mu C (erase_p A p) l i (erase_b A body)).

Lemma rmap_after_phis : forall ph (m : M A (ioutcome A * store)),
  rmap eo (snd (mbind m (after_phis A ph))) = rmap eo (snd m).
Proof.
  intros ph [t [[o mu]|e|]]; try reflexivity.
  unfold after_phis. cbn [mbind fst]. destruct o; reflexivity.
Qed.

Ltac sstep tac :=
  first [ apply snd_mbind_map; [solve [tac | reflexivity] | let x := fresh "x" in intros x; try destruct x; cbn beta iota]
        | reflexivity ].

Lemma erase_stmt_all : forall n, erase_stmt_at n.
Proof.
  induction n as [|n (IHs & IHb & IHf)].
  - repeat split; intros; reflexivity.
  - repeat split.
    + intros s D mu C st. rewrite exec_S.
      destruct st; cbn [Instr.iexec erase_s exec_body].
      * sstep ltac:(apply ieval_erase).
        pose proof (mbind_pat_erase p v s D) as H.
        destruct (mbind_pat A p v s D) as [t [[s' D']|e|]]; cbn [snd rmap] in H; rewrite <- H; reflexivity.
      * sstep ltac:(apply ieval_erase).
        destruct (env_get s x); [|reflexivity].
        sstep idtac. reflexivity.
      * rewrite rmap_after_phis.
        sstep ltac:(apply ieval_erase). sstep idtac.
        destruct x; [apply IHb|reflexivity].
      * rewrite rmap_after_phis.
        sstep ltac:(apply ieval_erase). sstep idtac.
        destruct x; apply IHb.
      * cbn [mbind app].
        match goal with |- rmap eo (snd (let '(t2, r) := ?m in _)) = _ =>
          assert (E : rmap eo (snd m) =
            rbind (eval N P n s mu C (erase_e A c)) (fun '(vc, mu1) =>
              rbind (as_bool vc) (fun t => if t
                then rbind (exec_block N P n s mu1 C (map (erase_s A) body)) (fun '(o, mu2) =>
                       match o with OReturn v => ROk (OReturn v, mu2)
                                  | ONormal s' => exec N P n s' mu2 C (SWhile (erase_e A c) (map (erase_s A) body)) end)
                else ROk (ONormal s, mu1)))); [|destruct m as [t2 r2]; exact E] end.
        sstep ltac:(apply ieval_erase). sstep idtac.
        destruct x; [|reflexivity].
        apply snd_mbind_map with (r := rmap eo (snd (iexec_block n s D s0 C body))).
        { reflexivity. }
        Fail idtac.
Abort.
End Erasure.
