(* C13: soundness of the value-class fact checker (FactClass.v):
     check_class_func R (n_ctor N) f = true  ->  every event of every execution of f
   (any fuel, any arguments in the classes reported for the parameters, any
   store, any caller context; also executions that end in an error or run out
   of fuel) satisfies the class / context fact reported for it. *)
From Coq Require Import ZArith List Bool String Lia.
From FpyV Require Import Num.RealFloat Num.Float Num.CtxDef Lang.Syntax Lang.Values Lang.Sem Lang.SemMono Lang.NumInst
  Analysis.ClassLattice Analysis.ClassLatticeProofs Analysis.Instr Analysis.InstrProofs Analysis.FactClass.
Import ListNotations.
Open Scope Z_scope.

(* ================================================================ environments *)
Lemma env_get_set_same : forall s x v, env_get (env_set s x v) x = Some v.
Proof.
  induction s as [|[y w] s IH]; intros; cbn.
  - rewrite String.eqb_refl. reflexivity.
  - destruct (String.eqb x y) eqn:E; cbn; rewrite E; auto.
Qed.

Lemma env_get_set_other : forall s x y v, x <> y -> env_get (env_set s x v) y = env_get s y.
Proof.
  induction s as [|[z w] s IH]; intros; cbn.
  - destruct (String.eqb y x) eqn:E; auto. apply String.eqb_eq in E. congruence.
  - destruct (String.eqb x z) eqn:E; cbn.
    + apply String.eqb_eq in E. subst z.
      destruct (String.eqb y x) eqn:E2; auto. apply String.eqb_eq in E2. congruence.
    + destruct (String.eqb y z); auto.
Qed.

Lemma cget_cset_same : forall G x c, cget (cset G x c) x = c.
Proof.
  induction G as [|[y d] G IH]; intros; cbn.
  - rewrite String.eqb_refl. reflexivity.
  - destruct (String.eqb x y) eqn:E; cbn; rewrite E; auto.
Qed.

Lemma cget_cset_other : forall G x y c, x <> y -> cget (cset G x c) y = cget G y.
Proof.
  induction G as [|[z d] G IH]; intros; cbn.
  - destruct (String.eqb y x) eqn:E; auto. apply String.eqb_eq in E. congruence.
  - destruct (String.eqb x z) eqn:E; cbn.
    + apply String.eqb_eq in E. subst z.
      destruct (String.eqb y x) eqn:E2; auto. apply String.eqb_eq in E2. congruence.
    + destruct (String.eqb y z); auto.
Qed.

Lemma sat_mono : forall a b v, leq a b = true -> sat_cls a v = true -> sat_cls b v = true.
Proof. intros a b [] H; cbn; auto. apply leq_mem; auto. Qed.

Lemma sat_top : forall v, sat_cls c_top v = true.
Proof. intros []; cbn; auto. apply mem_top. Qed.

Lemma sat_meet : forall a b v, sat_cls a v = true -> sat_cls b v = true -> sat_cls (meet a b) v = true.
Proof. intros a b []; cbn; auto. intros. rewrite mem_meet, H, H0. reflexivity. Qed.

Definition senv_ok (s : env) (G : cenv) : Prop :=
  forall x v, env_get s x = Some v -> sat_cls (cget G x) v = true.

Lemma senv_ok_set : forall s G x v c,
  senv_ok s G -> sat_cls c v = true -> senv_ok (env_set s x v) (cset G x c).
Proof.
  intros s G x v c H Hv y w Hy. destruct (String.eqb_spec x y) as [->|ne].
  - rewrite env_get_set_same in Hy. inversion Hy; subst. rewrite cget_cset_same. exact Hv.
  - rewrite env_get_set_other in Hy by auto. rewrite cget_cset_other by auto. apply H; auto.
Qed.

Lemma cleq_spec : forall G1 G2, cleq G1 G2 = true -> forall x, leq (cget G1 x) (cget G2 x) = true.
Proof.
  intros G1 G2 H x. unfold cleq in H. rewrite forallb_forall in H.
  induction G2 as [|[y c] G2 IH]; cbn.
  - apply leq_top.
  - destruct (String.eqb_spec x y) as [->|ne].
    + apply (H (y, c)). left. reflexivity.
    + apply IH. intros z Hz. apply H. right. exact Hz.
Qed.

Lemma senv_ok_mono : forall s G1 G2, senv_ok s G1 -> cleq G1 G2 = true -> senv_ok s G2.
Proof.
  intros s G1 G2 H Hle x v Hx. eapply sat_mono; [apply cleq_spec; exact Hle|]. apply H; auto.
Qed.

Lemma cget_cjoin : forall G1 G2 x,
  leq (cget G1 x) (cget (cjoin G1 G2) x) = true /\ leq (cget G2 x) (cget (cjoin G1 G2) x) = true.
Proof.
  induction G1 as [|[y c] G1 IH]; intros; cbn.
  - split; [reflexivity | apply leq_top].
  - destruct (String.eqb x y) eqn:E.
    + apply String.eqb_eq in E. subst. split; [apply leq_join_l | apply leq_join_r].
    + apply IH.
Qed.

Lemma senv_ok_cjoin_l : forall s G1 G2, senv_ok s G1 -> senv_ok s (cjoin G1 G2).
Proof. intros s G1 G2 H x v Hx. eapply sat_mono; [apply (proj1 (cget_cjoin G1 G2 x))|]. apply H; auto. Qed.

Lemma senv_ok_cjoin_r : forall s G1 G2, senv_ok s G2 -> senv_ok s (cjoin G1 G2).
Proof. intros s G1 G2 H x v Hx. eapply sat_mono; [apply (proj2 (cget_cjoin G1 G2 x))|]. apply H; auto. Qed.

Definition facts_hold (s : env) (fs : list (ident * cls)) : Prop :=
  forall x c, In (x, c) fs -> forall v, env_get s x = Some v -> sat_cls c v = true.

Lemma facts_hold_app : forall s f1 f2, facts_hold s f1 -> facts_hold s f2 -> facts_hold s (f1 ++ f2).
Proof. intros s f1 f2 H1 H2 x c Hin. apply in_app_or in Hin. destruct Hin; [eapply H1|eapply H2]; eauto. Qed.

Lemma facts_hold_nil : forall s, facts_hold s [].
Proof. intros s x c []. Qed.

Lemma senv_ok_crefine : forall fs s G, senv_ok s G -> facts_hold s fs -> senv_ok s (crefine G fs).
Proof.
  unfold crefine. induction fs as [|[x c] fs IH]; intros s G H Hf; cbn; auto.
  apply IH.
  - intros y v Hy. destruct (String.eqb_spec x y) as [->|ne].
    + cbn. rewrite cget_cset_same. apply sat_meet; [apply H; auto|]. eapply Hf; [left; reflexivity|exact Hy].
    + cbn. rewrite cget_cset_other by auto. apply H; auto.
  - intros y d Hin. apply Hf. right. exact Hin.
Qed.

Definition phis_hold (s : env) (ph : phis ann) : Prop :=
  forall x a, In (x, a) ph -> forall v, env_get s x = Some v -> sat_cls (rep a) v = true.

Lemma check_phis_hold : forall s G ph, senv_ok s G -> check_phis G ph = true -> phis_hold s ph.
Proof.
  intros s G ph H Hc x a Hin v Hv. unfold check_phis in Hc. rewrite forallb_forall in Hc.
  specialize (Hc (x, a) Hin). cbn in Hc. eapply sat_mono; [exact Hc|]. apply H; auto.
Qed.

Lemma senv_ok_set_phis : forall ph s G, senv_ok s G -> phis_hold s ph -> senv_ok s (set_phis G ph).
Proof.
  unfold set_phis. induction ph as [|[x a] ph IH]; intros s G H Hp; cbn; auto.
  apply IH.
  - intros y v Hy. destruct (String.eqb_spec x y) as [->|ne].
    + cbn. rewrite cget_cset_same. eapply Hp; [left; reflexivity|exact Hy].
    + cbn. rewrite cget_cset_other by auto. apply H; auto.
  - intros y b Hin. apply Hp. right. exact Hin.
Qed.

(* ================================================================ traces *)
Definition evok (ev : event ann) : Prop := ev_class_ok ev = true.

(* all events of m are fine, and a result satisfies Q *)
Definition mok {X} (Q : X -> Prop) (m : M ann X) : Prop :=
  Forall evok (fst m) /\ (forall x, snd m = ROk x -> Q x).

Lemma mok_bind : forall X Y (Q1 : X -> Prop) (Q2 : Y -> Prop) (m : M ann X) (f : X -> M ann Y),
  mok Q1 m -> (forall x, snd m = ROk x -> Q1 x -> mok Q2 (f x)) -> mok Q2 (mbind m f).
Proof.
  intros X Y Q1 Q2 [t [x|e|]] f [Ht Hq] Hf; cbn in *.
  - specialize (Hf x eq_refl (Hq x eq_refl)). destruct (f x) as [t2 r2]. destruct Hf as [Ht2 Hq2]. cbn in *.
    split; [apply Forall_app; auto | exact Hq2].
  - split; [exact Ht | discriminate].
  - split; [exact Ht | discriminate].
Qed.

Lemma mok_liftr : forall X (Q : X -> Prop) (r : res X), (forall x, r = ROk x -> Q x) -> mok Q (liftr r).
Proof. intros. split; [constructor | exact H]. Qed.

Lemma mok_ret : forall X (Q : X -> Prop) (x : X), Q x -> mok Q (mret x).
Proof. intros. split; [constructor|]. intros y E. inversion E; subst; auto. Qed.

Lemma mok_fail : forall X (Q : X -> Prop) e, mok Q (mfail e).
Proof. intros. split; [constructor | discriminate]. Qed.

Lemma mok_weaken : forall X (Q1 Q2 : X -> Prop) m, mok Q1 m -> (forall x, Q1 x -> Q2 x) -> mok Q2 m.
Proof. intros X Q1 Q2 m [H1 H2] H. split; auto. Qed.

Lemma mok_weaken_eq : forall X (Q1 Q2 : X -> Prop) m,
  mok Q1 m -> (forall x, snd m = ROk x -> Q1 x -> Q2 x) -> mok Q2 m.
Proof. intros X Q1 Q2 m [H1 H2] H. split; auto. Qed.

Lemma mok_done : forall (Q : value * store -> Prop) a C r,
  sat_cls (rep a) (fst r) = true -> ctx_claim a C = true -> Q r -> mok Q (done a C r).
Proof.
  intros. split.
  - constructor; [|constructor]. unfold evok. cbn. rewrite H, H0. reflexivity.
  - intros x E. inversion E; subst; auto.
Qed.

Lemma mok_events : forall X (Q : X -> Prop) t (r : res X),
  Forall evok t -> (forall x, r = ROk x -> Q x) -> mok Q (t, r).
Proof. intros. split; auto. Qed.

(* ================================================================ expressions *)
Section Sound.
Variable N : numops.
Variable R : ctx -> cls -> cls.
Hypothesis HN : NumClassSpec N R.
Variable P : program.

Notation ieval := (ieval ann N P).
Notation ievals := (ievals ann N P).
Notation icmp_chain := (icmp_chain ann N P).
Notation ibool_chain := (ibool_chain ann N P).
Notation iexec := (iexec ann N P).
Notation iexec_block := (iexec_block ann N P).
Notation ifor_loop := (ifor_loop ann N P).

(* the statically known context is the active one *)
Definition kctx (K : option ctx) (C : ctx) : Prop := forall c, K = Some c -> C = c.

Lemma ctx_claim_ok : forall K a C, ctx_ok K a = true -> kctx K C -> ctx_claim a C = true.
Proof.
  unfold ctx_ok, ctx_claim, kctx. intros K a C H HK. destruct (an_ctx a) as [c|]; auto.
  destruct K as [k|]; [|discriminate]. rewrite (HK k eq_refl). exact H.
Qed.

Lemma rnd_sound : forall K C exact r,
  kctx K C -> mem r (R C exact) = true -> mem r (rnd R K exact) = true.
Proof.
  unfold rnd, kctx. intros K C exact r HK H. destruct K as [c|]; [|apply mem_top].
  rewrite <- (HK c eq_refl). exact H.
Qed.

Definition vsat (e : aexpr ann) (r : value * store) : Prop := sat_cls (rep (ann_of e)) (fst r) = true.

Lemma check_expr_ctx : forall G K e, check_expr R G K e = true -> ctx_ok K (ann_of e) = true.
Proof. intros G K e H. destruct e; cbn in H; apply andb_prop in H; tauto. Qed.

Lemma as_num_inv : forall v x, as_num v = ROk x -> v = VNum x.
Proof. intros v x H; destruct v; cbn in H; try discriminate. inversion H; reflexivity. Qed.

Lemma as_bool_inv : forall v x, as_bool v = ROk x -> v = VBool x.
Proof. intros v x H; destruct v; cbn in H; try discriminate. inversion H; reflexivity. Qed.

Lemma lift_inv : forall X (r : result X) x, lift r = ROk x -> r = Ok x.
Proof. intros X [a|e] x H; cbn in H; inversion H; reflexivity. Qed.

Lemma as_nums_sat : forall vs xs, as_nums vs = ROk xs -> vs = map VNum xs.
Proof.
  induction vs as [|v vs IH]; intros xs H; cbn in H.
  - inversion H. reflexivity.
  - destruct (as_num v) as [x| |] eqn:E; cbn in H; try discriminate.
    destruct (as_nums vs) as [ys| |] eqn:E2; cbn in H; try discriminate.
    inversion H; subst. cbn. rewrite (as_num_inv _ _ E), (IH ys eq_refl). reflexivity.
Qed.

(* minmax returns one of its operands *)
Lemma fold_step_in : forall (f : num -> num -> num), (forall a x, f a x = a \/ f a x = x) ->
  forall r x0, In (fold_left f r x0) (x0 :: r).
Proof.
  intros f Hf. induction r as [|y r IH]; intros x0; cbn; auto.
  destruct (IH (f x0 y)) as [E|Hin].
  - destruct (Hf x0 y) as [E2|E2]; rewrite E2 in E at 1; auto.
  - auto.
Qed.

Lemma minmax_in : forall b xs r, minmax N b xs = ROk r -> In r xs.
Proof.
  intros b xs r H. unfold minmax in H. destruct xs as [|x0 rest]; [discriminate|].
  destruct (first_nan (x0 :: rest)) as [nan|] eqn:E.
  - inversion H; subst. unfold first_nan in E. apply find_some in E. tauto.
  - inversion H; subst. apply fold_step_in. intros a x.
    destruct b; [unfold max_step|unfold min_step];
      repeat match goal with |- context [if ?c then _ else _] => destruct c end; auto.
Qed.

(* ================================================================ branch refinement *)
Definition denotes (s : env) (e : aexpr ann) (v : value) : Prop :=
  match e with
  | AVar _ x => env_get s x = Some v
  | ANum _ f => v = VNum (NF f)
  | ARat _ n d => d <> 0 /\ v = VNum (num_of_frac n d)
  | ACtxVal _ c => v = VCtx c
  | _ => True
  end.

Lemma snd_mbind_inv : forall X Y (m : M ann X) (f : X -> M ann Y) y,
  snd (mbind m f) = ROk y -> exists x, snd m = ROk x /\ snd (f x) = ROk y.
Proof.
  intros X Y [t [x|e|]] f y H; cbn in H; try discriminate.
  exists x. split; auto. destruct (f x). exact H.
Qed.

Lemma ieval_denotes : forall n s D mu C e v mu',
  snd (ieval n s D mu C e) = ROk (v, mu') -> denotes s e v.
Proof.
  intros [|n] s D mu C e v mu' H; [discriminate|]. rewrite ieval_S in H.
  destruct e; cbn [ieval_body denotes] in *; auto.
  - destruct (env_get s x); cbn in H; inversion H; subst; auto.
  - cbn in H. inversion H; auto.
  - destruct (Z.eqb_spec d 0); cbn in H; [discriminate|]. inversion H; auto.
  - cbn in H. inversion H; auto.
Qed.

Lemma ievals_lits : forall n s D mu C args vs mu' xs,
  snd (ievals n s D mu C args) = ROk (vs, mu') -> lit_nums args = Some xs -> vs = map VNum xs.
Proof.
  induction n as [|n IH]; intros s D mu C args vs mu' xs H Hl; [discriminate|].
  rewrite ievals_S in H. destruct args as [|e r]; cbn [ievals_body lit_nums] in *.
  - inversion H; inversion Hl; subst. reflexivity.
  - apply snd_mbind_inv in H. destruct H as ([v mu1] & Hv & H).
    apply snd_mbind_inv in H. destruct H as ([vs' mu2] & Hvs & H). cbn in H. inversion H; subst.
    apply ieval_denotes in Hv.
    destruct e; try discriminate.
    + destruct (lit_nums r) as [ys|] eqn:El; [|discriminate]. inversion Hl; subst.
      cbn in Hv. subst. cbn. f_equal. eapply IH; eauto.
    + destruct (Z.eqb_spec d 0); [discriminate|].
      destruct (lit_nums r) as [ys|] eqn:El; [|discriminate]. inversion Hl; subst.
      cbn in Hv. destruct Hv as [_ ->]. cbn. f_equal. eapply IH; eauto.
Qed.

Lemma as_nums_map : forall xs, as_nums (map VNum xs) = ROk xs.
Proof. induction xs as [|x xs IH]; cbn; [reflexivity|]. rewrite IH. reflexivity. Qed.

Lemma at_var_holds : forall s e c v, denotes s e v -> sat_cls c v = true -> facts_hold s (at_var e c).
Proof.
  intros s e c v Hd Hs x c' Hin v' Hv. destruct e; cbn in Hin; try tauto.
  destruct Hin as [E|[]]. inversion E; subst. cbn in Hd. rewrite Hd in Hv. inversion Hv; subst. exact Hs.
Qed.

Lemma lit_atom_denotes : forall s e a v, lit_atom e = Some a -> denotes s e v ->
  exists x, v = VNum x /\ atom_of_num x = a.
Proof.
  intros s e a v Hl Hd. destruct e; cbn in Hl; try discriminate.
  - inversion Hl; subst. cbn in Hd. subst. eexists; split; reflexivity.
  - destruct (Z.eqb_spec d 0); [discriminate|]. inversion Hl; subst. destruct Hd as [_ ->].
    eexists; split; [reflexivity|]. apply atom_num_of_frac; auto.
Qed.

Lemma mem_not_cls : forall x a, x <> a -> mem x (not_cls a) = true.
Proof. intros [] []; cbn; congruence. Qed.

Lemma mem_single_eq : forall x, mem x (single x) = true.
Proof. intros []; reflexivity. Qed.

Lemma cmp_test_some : forall o x y, cmp_test N o x y = true -> o <> CNe -> exists c, n_cmp N x y = Some c.
Proof.
  intros o x y H Hne. unfold cmp_test in H. destruct (n_cmp N x y) as [c|]; [eauto|].
  destruct o; try discriminate. congruence.
Qed.

Lemma cmp_test_eq : forall x y, cmp_test N CEq x y = true -> n_cmp N x y = Some Eq.
Proof. intros x y H. unfold cmp_test in H. destruct (n_cmp N x y) as [[]|]; try discriminate; auto. Qed.

(* a link `ex o ey` that holds, values v and w: the facts value_class derives are true *)
Lemma link_num_ord : forall s o ex ey x y,
  is_ordering o = true -> denotes s ex (VNum x) -> denotes s ey (VNum y) -> cmp_test N o x y = true ->
  facts_hold s (link_true o ex ey ++ link_true o ey ex).
Proof.
  intros s o ex ey x y Ho Hx Hy Ht.
  destruct (cmp_test_some _ _ _ Ht) as [c Hc]; [destruct o; discriminate|].
  destruct (ncs_cmp_nan _ _ HN _ _ _ Hc) as [Nx Ny].
  assert (L : link_true o ex ey = at_var ex (not_cls ANaN) /\ link_true o ey ex = at_var ey (not_cls ANaN))
    by (destruct o; try discriminate; split; reflexivity).
  destruct L as [-> ->]. apply facts_hold_app; eapply at_var_holds; eauto; cbn; apply mem_not_cls; auto.
Qed.

Lemma link_num_eq : forall s o ex ey x y,
  is_ordering o = false -> denotes s ex (VNum x) -> denotes s ey (VNum y) ->
  (match o with CNe => negb (cmp_test N CEq x y) | _ => cmp_test N CEq x y end) = true ->
  facts_hold s (link_true o ex ey ++ link_true o ey ex).
Proof.
  intros s o ex ey x y Ho Hx Hy Ht. destruct o; try discriminate.
  - (* == holds *)
    apply cmp_test_eq in Ht. pose proof (ncs_cmp_eq _ _ HN _ _ Ht) as Ea.
    destruct (ncs_cmp_nan _ _ HN _ _ _ Ht) as [Nx Ny].
    apply facts_hold_app; cbn [link_true].
    + destruct (lit_atom ey) as [a|] eqn:El.
      * destruct (lit_atom_denotes _ _ _ _ El Hy) as (y' & E & Ha). inversion E; subst y'.
        eapply at_var_holds; eauto. cbn. rewrite Ea, Ha. apply mem_single_eq.
      * eapply at_var_holds; eauto. cbn. apply mem_not_cls; auto.
    + destruct (lit_atom ex) as [a|] eqn:El.
      * destruct (lit_atom_denotes _ _ _ _ El Hx) as (x' & E & Ha). inversion E; subst x'.
        eapply at_var_holds; eauto. cbn. rewrite <- Ea, Ha. apply mem_single_eq.
      * eapply at_var_holds; eauto. cbn. apply mem_not_cls; auto.
  - (* != holds *)
    apply negb_true_iff in Ht.
    assert (NZ : ~ (atom_of_num x = AZero /\ atom_of_num y = AZero)).
    { intros [Zx Zy]. unfold cmp_test in Ht. rewrite (ncs_cmp_zero _ _ HN x y Zx Zy) in Ht. discriminate. }
    apply facts_hold_app; cbn [link_true].
    + destruct (lit_atom ey) as [[]|] eqn:El; try apply facts_hold_nil.
      destruct (lit_atom_denotes _ _ _ _ El Hy) as (y' & E & Ha). inversion E; subst y'.
      eapply at_var_holds; eauto. cbn. apply mem_not_cls. tauto.
    + destruct (lit_atom ex) as [[]|] eqn:El; try apply facts_hold_nil.
      destruct (lit_atom_denotes _ _ _ _ El Hx) as (x' & E & Ha). inversion E; subst x'.
      eapply at_var_holds; eauto. cbn. apply mem_not_cls. tauto.
Qed.

(* the same for arbitrary values: equality of a number with a non-number has no
   result, and facts about non-numbers are vacuous *)
Lemma sat_nonnum : forall c v, (forall x, v <> VNum x) -> sat_cls c v = true.
Proof. intros c [] H; try reflexivity. exfalso. eapply H; reflexivity. Qed.

Lemma link_true_at : forall o ex ey, link_true o ex ey = [] \/ exists c, link_true o ex ey = at_var ex c.
Proof.
  intros o ex ey. destruct o; cbn; eauto.
  - destruct (lit_atom ey); eauto.
  - destruct (lit_atom ey) as [[]|]; eauto.
Qed.

Lemma link_nonnum : forall s o ex ey v, denotes s ex v -> (forall x, v <> VNum x) -> facts_hold s (link_true o ex ey).
Proof.
  intros s o ex ey v Hd Hn. destruct (link_true_at o ex ey) as [->|[c ->]]; [apply facts_hold_nil|].
  eapply at_var_holds; eauto. apply sat_nonnum; auto.
Qed.

Lemma value_eq_num : forall n mu x y r, value_eq N n mu (VNum x) (VNum y) = ROk r -> r = cmp_test N CEq x y.
Proof. intros [|n] mu x y r H; cbn in H; [discriminate|]. inversion H; reflexivity. Qed.

Lemma value_eq_mixed_l : forall n mu x w r, value_eq N n mu (VNum x) w = ROk r -> exists y, w = VNum y.
Proof. intros [|n] mu x w r H; [discriminate|]. destruct w; cbn in H; try discriminate. eauto. Qed.

Lemma value_eq_mixed_r : forall n mu v y r, value_eq N n mu v (VNum y) = ROk r -> exists x, v = VNum x.
Proof.
  intros [|n] mu v y r H; [discriminate|]. destruct v; cbn in H; try discriminate; eauto.
Qed.

Lemma link_eq : forall s n mu o ex ey v w eq,
  is_ordering o = false -> denotes s ex v -> denotes s ey w ->
  value_eq N n mu v w = ROk eq -> (match o with CNe => negb eq | _ => eq end) = true ->
  facts_hold s (link_true o ex ey ++ link_true o ey ex).
Proof.
  intros s n mu o ex ey v w eq Ho Hx Hy Hv Ht.
  assert (Cases : (exists x y, v = VNum x /\ w = VNum y) \/ ((forall x, v <> VNum x) /\ (forall y, w <> VNum y))).
  { destruct v as [| x | | | |]; try (right; split; [congruence|];
      intros y ->; destruct (value_eq_mixed_r _ _ _ _ _ Hv) as [x E]; discriminate).
    destruct (value_eq_mixed_l _ _ _ _ _ Hv) as [y ->]. left; eauto. }
  destruct Cases as [(x & y & -> & ->)|[Nv Nw]].
  - apply value_eq_num in Hv. subst eq. eapply link_num_eq; eauto.
  - apply facts_hold_app; eapply link_nonnum; eauto.
Qed.

Definition refine_at (n : nat) : Prop :=
  (forall s D mu C c b mu', snd (ieval n s D mu C c) = ROk (VBool b, mu') -> facts_hold s (implied c b)) /\
  (forall s D mu C u args mu', snd (ibool_chain n s D mu C u args) = ROk (VBool u, mu') ->
       facts_hold s (flat_map (fun a => implied a u) args)) /\
  (forall s D mu C v ops prev args mu', snd (icmp_chain n s D mu C v ops args) = ROk (VBool true, mu') ->
       denotes s prev v -> facts_hold s (chain_true ops prev args)).

Tactic Notation "minv" hyp(H) "as" simple_intropattern(x) ident(Hx) :=
  apply snd_mbind_inv in H; destruct H as (x & Hx & H); cbn [snd liftr] in Hx.

(* a one-link chain with == or != : what its result says *)
Lemma single_link : forall n s D mu C v o e b mu',
  is_ordering o = false ->
  snd (icmp_chain n s D mu C v [o] [e]) = ROk (VBool b, mu') ->
  exists w m mu1 eq, denotes s e w /\ value_eq N m mu1 v w = ROk eq /\
                     b = (match o with CNe => negb eq | _ => eq end).
Proof.
  intros [|n] s D mu C v o e b mu' Ho H; [discriminate|]. rewrite icmp_chain_S in H.
  cbn [icmp_chain_body] in H. rewrite Ho in H.
  minv H as [w mu1] Hw. minv H as eq Heq.
  exists w, n, mu1, eq. split; [eapply ieval_denotes; eauto|]. split; auto.
  destruct (match o with CNe => negb eq | _ => eq end); cbn in H; inversion H; reflexivity.
Qed.

Lemma refine_all : forall n, refine_at n.
Proof.
  induction n as [|n (IHe & IHb & IHc)].
  - split; [|split]; intros; discriminate.
  - split; [|split].
    + (* conditions *)
      intros s D mu C c b mu' H. rewrite ieval_S in H.
      destruct c; cbn [ieval_body implied] in *; try apply facts_hold_nil.
      * (* predicates *)
        minv H as [va mu1] Hx. minv H as x0 Hx0. apply as_num_inv in Hx0. subst va.
        cbn in H. inversion H; subst. apply ieval_denotes in Hx.
        destruct p; try apply facts_hold_nil.
        -- destruct (n_pred N PIsNan x0) eqn:E; eapply at_var_holds; eauto; cbn.
           ++ apply (ncs_isnan _ _ HN) in E. rewrite E. reflexivity.
           ++ apply mem_not_cls. intros E2. apply (ncs_isnan _ _ HN) in E2. congruence.
        -- destruct (n_pred N PIsInf x0) eqn:E; eapply at_var_holds; eauto; cbn.
           ++ apply (ncs_isinf _ _ HN) in E. rewrite E. reflexivity.
           ++ apply mem_not_cls. intros E2. apply (ncs_isinf _ _ HN) in E2. congruence.
        -- destruct (n_pred N PIsFinite x0) eqn:E; eapply at_var_holds; eauto; cbn.
           ++ apply (ncs_isfinite _ _ HN) in E. exact E.
           ++ destruct (atom_of_num x0) eqn:Ea; try reflexivity; exfalso;
                assert (E2 : n_pred N PIsFinite x0 = true) by (apply (ncs_isfinite _ _ HN); rewrite Ea; reflexivity);
                congruence.
        -- destruct (n_pred N PIsNormal x0) eqn:E; [|apply facts_hold_nil].
           eapply at_var_holds; eauto; cbn. rewrite (ncs_isnormal _ _ HN _ E). reflexivity.
      * (* comparisons *)
        destruct args as [|a0 rest]; [discriminate|].
        minv H as [va mu1] Hx. rewrite snd_mbind_done in H.
        apply ieval_denotes in Hx. unfold compare_implied.
        destruct b; [eapply IHc; eauto|].
        destruct ops as [|o [|o2 ops]]; try apply facts_hold_nil; try (destruct o; apply facts_hold_nil).
        destruct o; try apply facts_hold_nil; destruct rest as [|a1 [|a2 rest]]; try apply facts_hold_nil.
        -- (* a0 == a1 is false: as if a0 != a1 held *)
           destruct (single_link n s D mu1 C va CEq a1 false mu' eq_refl H) as (w & m & mu2 & eq & Hw & Hv & Hb).
           assert (F : facts_hold s (link_true CNe a0 a1 ++ link_true CNe a1 a0)).
           { eapply link_eq with (o := CNe); eauto. cbn in Hb. rewrite <- Hb. reflexivity. }
           exact F.
        -- (* a0 != a1 is false: a0 == a1 *)
           destruct (single_link n s D mu1 C va CNe a1 false mu' eq_refl H) as (w & m & mu2 & eq & Hw & Hv & Hb).
           cbn [chain_true]. rewrite app_nil_r.
           eapply link_eq with (o := CEq); eauto. cbn in Hb. destruct eq; auto; discriminate.
      * (* and *) rewrite snd_mbind_done in H. destruct b; [eapply IHb; eauto | apply facts_hold_nil].
      * (* or *) rewrite snd_mbind_done in H. destruct b; [apply facts_hold_nil | eapply IHb; eauto].
      * (* not *) minv H as [va mu1] Hx. minv H as b0 Hx0. apply as_bool_inv in Hx0. subst va.
        cbn in H. inversion H; subst. eapply IHe. rewrite negb_involutive. eauto.
    + (* and / or chains *)
      intros s D mu C u args mu' H. rewrite ibool_chain_S in H.
      destruct args as [|e r]; cbn [ibool_chain_body flat_map] in *; [apply facts_hold_nil|].
      minv H as [v mu1] Hx. minv H as b0 Hx0. apply as_bool_inv in Hx0. subst v.
      destruct (Bool.eqb b0 u) eqn:E.
      * apply Bool.eqb_prop in E. subst b0. apply facts_hold_app; [eapply IHe; eauto|].
        destruct r; [apply facts_hold_nil | eapply IHb; eauto].
      * cbn in H. inversion H; subst. rewrite Bool.eqb_reflx in E. discriminate.
    + (* comparison chains *)
      intros s D mu C v ops prev args mu' H Hp. rewrite icmp_chain_S in H.
      destruct ops as [|o ops'], args as [|e args']; cbn [icmp_chain_body chain_true] in *; try apply facts_hold_nil.
      rewrite app_assoc. destruct (is_ordering o) eqn:Ho.
      * minv H as x Hx. apply as_num_inv in Hx. subst v. minv H as [w mu1] Hx0. minv H as y Hx1.
        apply as_num_inv in Hx1. subst w. pose proof (ieval_denotes _ _ _ _ _ _ _ _ Hx0) as Hw.
        destruct (cmp_test N o x y) eqn:Ht; [|cbn in H; inversion H].
        apply facts_hold_app; [eapply link_num_ord; eauto|].
        destruct ops'; [apply facts_hold_nil | eapply IHc; eauto].
      * minv H as [w mu1] Hx. minv H as eq Heq. pose proof (ieval_denotes _ _ _ _ _ _ _ _ Hx) as Hw.
        destruct (match o with CNe => negb eq | _ => eq end) eqn:Ht; [|cbn in H; inversion H].
        apply facts_hold_app; [eapply link_eq; eauto|].
        destruct ops'; [apply facts_hold_nil | eapply IHc; eauto].
Qed.

Lemma implied_sound : forall n s D mu C c b mu',
  snd (ieval n s D mu C c) = ROk (VBool b, mu') -> facts_hold s (implied c b).
Proof. intros n. apply (refine_all n). Qed.

Definition expr_sound_at (n : nat) : Prop :=
  (forall G K s D mu C e, check_expr R G K e = true -> senv_ok s G -> kctx K C ->
     mok (vsat e) (ieval n s D mu C e)) /\
  (forall G K s D mu C es, forallb (check_expr R G K) es = true -> senv_ok s G -> kctx K C ->
     mok (fun r => Forall2 (fun e v => sat_cls (rep (ann_of e)) v = true) es (fst r)) (ievals n s D mu C es)) /\
  (forall G K s D mu C v ops args, forallb (check_expr R G K) args = true -> senv_ok s G -> kctx K C ->
     mok (fun r => exists b, fst r = VBool b) (icmp_chain n s D mu C v ops args)) /\
  (forall G K s D mu C u args, forallb (check_expr R G K) args = true -> senv_ok s G -> kctx K C ->
     mok (fun r => exists b, fst r = VBool b) (ibool_chain n s D mu C u args)).

Ltac bsp := repeat match goal with H : (_ && _) = true |- _ => apply andb_prop in H; destruct H end.

Ltac mnum := eapply mok_bind; [apply mok_liftr; let x := fresh "x" in let E := fresh "E" in
                               intros x E; exact (as_num_inv _ _ E) |];
             let x := fresh "x" in intros x _ ->.
Ltac mlift := eapply mok_bind; [apply mok_liftr; let x := fresh "x" in let E := fresh "E" in
                               intros x E; exact (lift_inv _ _ _ E) |];
             let r := fresh "r" in let Hr := fresh "Hr" in intros r _ Hr; cbn beta in Hr;
             unfold vsat in *; cbn [fst sat_cls] in *.

Lemma forall2_joins : forall es vs (r : num),
  Forall2 (fun (e : aexpr ann) v => sat_cls (rep (ann_of e)) v = true) es (map VNum vs) -> In r vs ->
  mem (atom_of_num r) (joins (map (fun e => rep (ann_of e)) es)) = true.
Proof.
  unfold joins.
  induction es as [|e es IH]; intros vs r H Hin; destruct vs as [|v vs]; inversion H; subst; [destruct Hin|].
  cbn [map fold_right]. rewrite mem_join. destruct Hin as [->|Hin].
  - cbn in H3. rewrite H3. reflexivity.
  - rewrite (IH vs r H5 Hin). apply orb_true_r.
Qed.

Lemma expr_sound_all : forall n, expr_sound_at n.
Proof.
  induction n as [|n (IHe & IHes & IHc & IHb)].
  - split; [|split; [|split]]; intros; apply mok_liftr; discriminate.
  - split; [|split; [|split]].
    + (* ieval *)
      intros G K s D mu C e Hc Hs HK. pose proof (check_expr_ctx _ _ _ Hc) as Hctx.
      pose proof (ctx_claim_ok _ _ _ Hctx HK) as Hcl.
      rewrite ieval_S. destruct e; cbn [ieval_body]; cbn [check_expr ann_of] in *; bsp.
      * (* var *) destruct (env_get s x) as [v|] eqn:Ex; [|apply mok_fail].
        assert (S : sat_cls (rep a) v = true) by (eapply sat_mono; [eassumption|]; apply Hs; auto).
        apply mok_events.
        -- repeat constructor. unfold evok. cbn. rewrite S, Hcl. reflexivity.
        -- intros r E. inversion E; subst. exact S.
      * apply mok_done; auto.
      * destruct (d =? 0) eqn:Ed; [apply mok_fail|].
        assert (S : sat_cls (rep a) (VNum (num_of_frac n0 d)) = true).
        { cbn. rewrite atom_num_of_frac by (apply Z.eqb_neq; exact Ed). assumption. }
        apply mok_done; auto.
      * apply mok_done; auto.
      * apply mok_done; auto.
      * (* op0 *) mlift.
        assert (S : sat_cls (rep a) (VNum r) = true).
        { cbn. eapply leq_mem; [eassumption|]. eapply rnd_sound; [exact HK|]. eapply (ncs_op0 _ _ HN); eauto. }
        apply mok_done; auto.
      * (* op1 *) eapply mok_bind; [eapply IHe; eauto|]. intros [va mu1] Eva Hva. mnum. mlift.
        assert (S : sat_cls (rep a) (VNum r) = true).
        { cbn. eapply leq_mem; [eassumption|]. eapply rnd_sound; [exact HK|]. eapply (ncs_op1 _ _ HN); eauto. }
        apply mok_done; auto.
      * (* op2 *) eapply mok_bind; [eapply IHe; eauto|]. intros [va mu1] Eva Hva.
        eapply mok_bind; [eapply IHe; eauto|]. intros [vb mu2] Evb Hvb. mnum. mnum. mlift.
        assert (S : sat_cls (rep a) (VNum r) = true).
        { cbn. eapply leq_mem; [eassumption|]. eapply rnd_sound; [exact HK|]. eapply (ncs_op2 _ _ HN); eauto. }
        apply mok_done; auto.
      * (* op3 *) eapply mok_bind; [eapply IHe; eauto|]. intros [va mu1] Eva Hva.
        eapply mok_bind; [eapply IHe; eauto|]. intros [vb mu2] Evb Hvb.
        eapply mok_bind; [eapply IHe; eauto|]. intros [vc mu3] Evc Hvc. mnum. mnum. mnum. mlift.
        assert (S : sat_cls (rep a) (VNum r) = true).
        { cbn. eapply leq_mem; [eassumption|]. eapply rnd_sound; [exact HK|]. eapply (ncs_op3 _ _ HN); eauto. }
        apply mok_done; auto.
      * (* pred *) eapply mok_bind; [eapply IHe; eauto|]. intros [va mu1] Eva Hva. mnum. apply mok_done; auto; reflexivity.
      * (* compare *) destruct args as [|e1 rest]; [apply mok_fail|]. cbn [forallb] in *. bsp.
        eapply mok_bind; [eapply IHe; eauto|]. intros [va mu1] Eva Hva.
        eapply mok_bind; [eapply IHc; eauto|]. intros [v mu2] _ [b Hb]. cbn in Hb. subst v.
        apply mok_done; auto; reflexivity.
      * (* and *) eapply mok_bind; [eapply IHb; eauto|]. intros [v mu2] _ [b Hb]. cbn in Hb. subst v.
        apply mok_done; auto; reflexivity.
      * (* or *) eapply mok_bind; [eapply IHb; eauto|]. intros [v mu2] _ [b Hb]. cbn in Hb. subst v.
        apply mok_done; auto; reflexivity.
      * (* not *) eapply mok_bind; [eapply IHe; eauto|]. intros [va mu1] Eva Hva.
        eapply mok_bind; [apply mok_liftr; intros b E; exact (as_bool_inv _ _ E)|]. intros b _ ->.
        apply mok_done; auto; reflexivity.
      * (* if-expression: each arm under its refinement *)
        eapply mok_bind; [eapply IHe; eauto|]. intros [vc mu1] Evc Hvc.
        eapply mok_bind; [apply mok_liftr; intros b E; exact (as_bool_inv _ _ E)|]. intros b _ ->.
        pose proof (implied_sound _ _ _ _ _ _ _ _ Evc) as Hf.
        eapply mok_bind with (Q1 := fun r => sat_cls (join (rep (ann_of e2)) (rep (ann_of e3))) (fst r) = true).
        { destruct b.
          - eapply mok_weaken; [eapply IHe; eauto; apply senv_ok_crefine; auto|].
            intros r Hr. eapply sat_mono; [apply leq_join_l|exact Hr].
          - eapply mok_weaken; [eapply IHe; eauto; apply senv_ok_crefine; auto|].
            intros r Hr. eapply sat_mono; [apply leq_join_r|exact Hr]. }
        intros r _ Hr.
        assert (S : sat_cls (rep a) (fst r) = true) by (eapply sat_mono; eauto).
        apply mok_done; auto.
      * (* min *) eapply mok_bind; [eapply IHes; eauto|]. intros [vs mu1] _ Hvs. cbn [fst] in Hvs.
        eapply mok_bind; [apply mok_liftr; intros xs E; exact (as_nums_sat _ _ E)|]. intros xs _ ->.
        eapply mok_bind; [apply mok_liftr; intros r E; exact (minmax_in _ _ _ E)|]. intros r _ Hr.
        assert (S : sat_cls (rep a) (VNum r) = true).
        { cbn. eapply leq_mem; [eassumption|]. eapply forall2_joins; eauto. }
        apply mok_done; auto.
      * (* max *) eapply mok_bind; [eapply IHes; eauto|]. intros [vs mu1] _ Hvs. cbn [fst] in Hvs.
        eapply mok_bind; [apply mok_liftr; intros xs E; exact (as_nums_sat _ _ E)|]. intros xs _ ->.
        eapply mok_bind; [apply mok_liftr; intros r E; exact (minmax_in _ _ _ E)|]. intros r _ Hr.
        assert (S : sat_cls (rep a) (VNum r) = true).
        { cbn. eapply leq_mem; [eassumption|]. eapply forall2_joins; eauto. }
        apply mok_done; auto.
      * (* context constructor *) eapply mok_bind; [eapply IHes; eauto|]. intros [vs mu1] _ Hvs.
        eapply mok_bind; [apply mok_liftr; intros xs E; exact I|]. intros xs _ _.
        eapply mok_bind; [apply mok_liftr; intros c E; exact I|]. intros c _ _.
        apply mok_done; auto; reflexivity.
      * (* opaque leaf: no class claimed *)
        eapply mok_bind with (Q1 := fun _ => True).
        { apply mok_events; auto. unfold use_events. apply Forall_forall. intros ev Hin.
          apply in_map_iff in Hin. destruct Hin as (xa & <- & _). reflexivity. }
        intros r _ _.
        assert (S : sat_cls (rep a) (fst r) = true) by (eapply sat_mono; [eassumption|apply sat_top]).
        apply mok_done; auto.
    + (* ievals *)
      intros G K s D mu C es Hc Hs HK. rewrite ievals_S.
      destruct es as [|e r]; cbn [ievals_body forallb] in *.
      * apply mok_ret. constructor.
      * bsp. eapply mok_bind; [eapply IHe; eauto|]. intros [v mu1] _ Hv.
        eapply mok_bind; [eapply IHes; eauto|]. intros [vs mu2] _ Hvs.
        apply mok_ret. constructor; auto.
    + (* comparison chains *)
      intros G K s D mu C v ops args Hc Hs HK. rewrite icmp_chain_S.
      destruct ops as [|o ops'], args as [|e args']; cbn [icmp_chain_body forallb] in *;
        try apply mok_fail; try (apply mok_ret; eexists; reflexivity).
      bsp. destruct (is_ordering o).
      * eapply mok_bind; [apply mok_liftr; intros x E; exact I|]. intros x _ _.
        eapply mok_bind; [eapply IHe; eauto|]. intros [w mu1] _ _.
        eapply mok_bind; [apply mok_liftr; intros y E; exact I|]. intros y _ _.
        destruct (cmp_test N o x y); [|apply mok_ret; eexists; reflexivity].
        destruct ops'; [apply mok_ret; eexists; reflexivity | eapply IHc; eauto].
      * eapply mok_bind; [eapply IHe; eauto|]. intros [w mu1] _ _.
        eapply mok_bind; [apply mok_liftr; intros y E; exact I|]. intros eq _ _.
        destruct (match o with CNe => negb eq | _ => eq end); [|apply mok_ret; eexists; reflexivity].
        destruct ops'; [apply mok_ret; eexists; reflexivity | eapply IHc; eauto].
    + (* and / or chains *)
      intros G K s D mu C u args Hc Hs HK. rewrite ibool_chain_S.
      destruct args as [|e r]; cbn [ibool_chain_body forallb] in *; [apply mok_ret; eexists; reflexivity|].
      bsp. eapply mok_bind; [eapply IHe; eauto|]. intros [v mu1] _ _.
      eapply mok_bind; [apply mok_liftr; intros y E; exact I|]. intros b _ _.
      destruct (Bool.eqb b u); [|apply mok_ret; eexists; reflexivity].
      destruct r; [apply mok_ret; eexists; reflexivity | eapply IHb; eauto].
Qed.

Theorem ieval_class_sound : forall n G K s D mu C e,
  check_expr R G K e = true -> senv_ok s G -> kctx K C -> mok (vsat e) (ieval n s D mu C e).
Proof. intros n. apply (expr_sound_all n). Qed.

(* ================================================================ statements *)
Definition osat (G' : cenv) (r : ioutcome ann * store) : Prop :=
  match fst r with IONormal s' _ => senv_ok s' G' | IOReturn _ => True end.

(* one-step unfoldings of the checker (its block checker is a local fixpoint) *)
Lemma check_if1_eq : forall G K ph c body,
  check_stmt R (n_ctor N) G K (ASIf1 ph c body) =
  if check_expr R G K c then
    match check_block R (n_ctor N) (crefine G (implied c true)) K body with
    | Some Gb => let Gj := cjoin Gb (crefine G (implied c false)) in
                 if check_phis Gj ph then Some (set_phis Gj ph) else None
    | None => None
    end
  else None.
Proof. reflexivity. Qed.

Lemma check_if_eq : forall G K ph c ift iff,
  check_stmt R (n_ctor N) G K (ASIf ph c ift iff) =
  if check_expr R G K c then
    match check_block R (n_ctor N) (crefine G (implied c true)) K ift, check_block R (n_ctor N) (crefine G (implied c false)) K iff with
    | Some Gtr, Some Gfa => let Gj := if blk_ret ift then Gfa else if blk_ret iff then Gtr else cjoin Gtr Gfa in
                            if check_phis Gj ph then Some (set_phis Gj ph) else None
    | _, _ => None
    end
  else None.
Proof. reflexivity. Qed.

Lemma check_while_eq : forall G K ph c body,
  check_stmt R (n_ctor N) G K (ASWhile ph c body) =
  let Gh := set_phis G ph in
  if cleq G Gh && check_phis Gh ph && check_expr R Gh K c then
    match check_block R (n_ctor N) (crefine Gh (implied c true)) K body with
    | Some Gb => if cleq Gb Gh then Some (crefine Gh (implied c false)) else None
    | None => None
    end
  else None.
Proof. reflexivity. Qed.

Lemma check_for_eq : forall G K ph p it body,
  check_stmt R (n_ctor N) G K (ASFor ph p it body) =
  let Gh := set_phis G ph in
  if check_expr R G K it && cleq G Gh && check_phis Gh ph then
    match bind_top p Gh with
    | Some Gtr =>
        match check_block R (n_ctor N) Gtr K body with
        | Some Gb => if cleq Gb Gh then Some Gh else None
        | None => None
        end
    | None => None
    end
  else None.
Proof. reflexivity. Qed.

Lemma check_context_eq : forall G K x e body,
  check_stmt R (n_ctor N) G K (ASContext x e body) =
  if check_expr R G (Some CReal) e then
    match x with
    | Some (a, x) => if leq c_top (rep a) then check_block R (n_ctor N) (cset G x c_top) (static_ctx (n_ctor N) e) body else None
    | None => check_block R (n_ctor N) G (static_ctx (n_ctor N) e) body
    end
  else None.
Proof. reflexivity. Qed.

Lemma check_block_cons : forall G K st r,
  check_block R (n_ctor N) G K (st :: r) = match check_stmt R (n_ctor N) G K st with Some G' => check_block R (n_ctor N) G' K r | None => None end.
Proof. reflexivity. Qed.

(* ---- binding *)
Lemma bind_top_sound : forall p v s D G G',
  bind_top p G = Some G' -> senv_ok s G ->
  Forall evok (fst (ibind_pat ann p v s D)) /\
  (forall s' D', snd (ibind_pat ann p v s D) = Ok (s', D') -> senv_ok s' G').
Proof.
  fix IH 1. intros p v s D G G' Hb Hs. destruct p as [a x| |ps]; cbn [bind_top ibind_pat fst snd] in *.
  - destruct (leq c_top (rep a)) eqn:E; [|discriminate]. inversion Hb; subst. split.
    + repeat constructor. unfold evok. cbn. eapply sat_mono; [exact E|apply sat_top].
    + intros s' D' H. inversion H; subst. apply senv_ok_set; auto. apply sat_top.
  - inversion Hb; subst. split; [constructor|]. intros s' D' H. inversion H; subst. exact Hs.
  - destruct v; try (split; [constructor|discriminate]).
    destruct (Nat.eqb_spec (List.length ps) (List.length vs)) as [El|]; cbn [negb];
      [|split; [constructor|discriminate]].
    revert vs El s D G Hb Hs. induction ps as [|p ps IHps]; intros vs El s D G Hb Hs.
    + inversion Hb; subst. destruct vs; (split; [constructor|]); intros s' D' H; inversion H; subst; exact Hs.
    + destruct (bind_top p G) as [G1|] eqn:E1; [|discriminate].
      destruct vs as [|v vs]; [discriminate El|]. cbn in El. injection El as El.
      destruct (IH p v s D G G1 E1 Hs) as [Ht Hr].
      destruct (ibind_pat ann p v s D) as [t1 [[s1 D1]|e]]; cbn [fst snd] in *.
      * specialize (IHps vs El s1 D1 G1 Hb (Hr s1 D1 eq_refl)).
        match goal with |- context [(fix go (ps0 : list (apat ann)) (vs0 : list value) (s0 : env) (D0 : denv ann) {struct ps0} := _) ps vs s1 D1] =>
          set (X := (fix go (ps0 : list (apat ann)) (vs0 : list value) (s0 : env) (D0 : denv ann) {struct ps0} := _) ps vs s1 D1) in * end.
        destruct X as [t2 r2]. cbn [fst snd] in *. destruct IHps as [Ht2 Hr2]. split; [apply Forall_app; auto | exact Hr2].
      * split; [exact Ht | discriminate].
Qed.

Lemma cbind_sound : forall p c v s D G G',
  cbind p c G = Some G' -> senv_ok s G -> sat_cls c v = true ->
  mok (fun sd => senv_ok (fst sd) G') (mbind_pat ann p v s D).
Proof.
  intros p c v s D G G' Hb Hs Hv. unfold mbind_pat.
  assert (H : Forall evok (fst (ibind_pat ann p v s D)) /\
              (forall s' D', snd (ibind_pat ann p v s D) = Ok (s', D') -> senv_ok s' G')).
  { destruct p as [a x| |ps]; cbn [cbind] in Hb.
    - destruct (leq c (rep a)) eqn:E; [|discriminate]. inversion Hb; subst. cbn. split.
      + repeat constructor. unfold evok. cbn. eapply sat_mono; eauto.
      + intros s' D' H. inversion H; subst. apply senv_ok_set; auto. eapply sat_mono; eauto.
    - inversion Hb; subst. cbn. split; [constructor|]. intros s' D' H. inversion H; subst. exact Hs.
    - eapply bind_top_sound; eauto. }
  destruct (ibind_pat ann p v s D) as [t [[s' D']|e]]; cbn [fst snd] in *; destruct H as [Ht Hr].
  - apply mok_events; auto. intros x E. inversion E; subst. cbn. eapply Hr. reflexivity.
  - apply mok_events; auto. discriminate.
Qed.

Lemma bind_top_mok : forall p v s D G G',
  bind_top p G = Some G' -> senv_ok s G ->
  mok (fun sd => senv_ok (fst sd) G') (mbind_pat ann p v s D).
Proof.
  intros p v s D G G' Hb Hs. unfold mbind_pat.
  destruct (bind_top_sound p v s D G G' Hb Hs) as [Ht Hr].
  destruct (ibind_pat ann p v s D) as [t [[s' D']|e]]; cbn [fst snd] in *.
  - apply mok_events; auto. intros x E. inversion E; subst. cbn. eapply Hr. reflexivity.
  - apply mok_events; auto. discriminate.
Qed.

Lemma phi_events_ok : forall s D ph, phis_hold s ph -> Forall evok (phi_events ann s D ph).
Proof.
  intros s D ph H. unfold phi_events. apply Forall_forall. intros ev Hin.
  apply in_flat_map in Hin. destruct Hin as ([x a] & Hin & Hev). cbn [fst snd] in Hev.
  destruct (env_get s x) as [v|] eqn:E; [|destruct Hev].
  destruct Hev as [<-|[]]. unfold evok. cbn. eapply H; eauto.
Qed.

Definition stmt_sound_at (n : nat) : Prop :=
  (forall G K G' s D mu C st, check_stmt R (n_ctor N) G K st = Some G' -> senv_ok s G -> kctx K C ->
     mok (osat G') (iexec n s D mu C st)) /\
  (forall G K G' s D mu C b, check_block R (n_ctor N) G K b = Some G' -> senv_ok s G -> kctx K C ->
     mok (osat G') (iexec_block n s D mu C b)) /\
  (forall K ph c body Gh Gb s D mu C,
     check_expr R Gh K c = true -> check_block R (n_ctor N) (crefine Gh (implied c true)) K body = Some Gb ->
     cleq Gb Gh = true -> check_phis Gh ph = true -> senv_ok s Gh -> kctx K C ->
     mok (osat (crefine Gh (implied c false))) (iexec n s D mu C (ASWhile ph c body))) /\
  (forall K ph p body Gh Gtr Gb s D mu C l i,
     bind_top p Gh = Some Gtr -> check_block R (n_ctor N) Gtr K body = Some Gb ->
     cleq Gb Gh = true -> check_phis Gh ph = true -> senv_ok s Gh -> kctx K C ->
     mok (osat Gh) (ifor_loop n s D mu C ph p l i body)).

Lemma after_phis_ok : forall Gj ph (m : M ann (ioutcome ann * store)),
  check_phis Gj ph = true -> mok (osat Gj) m -> mok (osat (set_phis Gj ph)) (mbind m (after_phis ann ph)).
Proof.
  intros Gj ph m Hp Hm. eapply mok_bind; [exact Hm|]. intros [o mu] _ Ho. unfold after_phis, osat in *. cbn [fst] in *.
  destruct o as [s D|v].
  - pose proof (check_phis_hold _ _ _ Ho Hp) as Hh. apply mok_events.
    + apply phi_events_ok; auto.
    + intros x E. inversion E; subst. cbn. apply senv_ok_set_phis; auto.
  - apply mok_ret. exact I.
Qed.

Lemma stmt_sound_all : forall n, stmt_sound_at n.
Proof.
  induction n as [|n (IHs & IHb & IHw & IHf)].
  - split; [|split; [|split]]; intros; apply mok_liftr; discriminate.
  - (* the loops first: they are used by the statement case *)
    assert (W : forall K ph c body Gh Gb s D mu C,
     check_expr R Gh K c = true -> check_block R (n_ctor N) (crefine Gh (implied c true)) K body = Some Gb ->
     cleq Gb Gh = true -> check_phis Gh ph = true -> senv_ok s Gh -> kctx K C ->
     mok (osat (crefine Gh (implied c false))) (iexec (S n) s D mu C (ASWhile ph c body))).
    { intros K ph c body Gh Gb s D mu C Hc Hbody Hle Hph Hs HK.
      rewrite iexec_S. cbn [iexec_body].
      eapply mok_bind with (Q1 := fun _ => True).
      { apply mok_events; auto. apply phi_events_ok. eapply check_phis_hold; eauto. }
      intros _ _ _.
      eapply mok_bind; [eapply ieval_class_sound; eauto|]. intros [vc mu1] Evc _.
      eapply mok_bind; [apply mok_liftr; intros b E; exact (as_bool_inv _ _ E)|]. intros b _ ->.
      pose proof (implied_sound _ _ _ _ _ _ _ _ Evc) as Hf.
      destruct b.
      - eapply mok_bind; [eapply IHb; eauto; apply senv_ok_crefine; auto|].
        intros [o mu2] _ Ho. unfold osat in Ho. cbn [fst] in Ho. destruct o as [s' D'|v].
        + eapply IHw; eauto. eapply senv_ok_mono; eauto.
        + apply mok_ret. exact I.
      - apply mok_ret. unfold osat. cbn. apply senv_ok_crefine; auto. }
    assert (F : forall K ph p body Gh Gtr Gb s D mu C l i,
     bind_top p Gh = Some Gtr -> check_block R (n_ctor N) Gtr K body = Some Gb ->
     cleq Gb Gh = true -> check_phis Gh ph = true -> senv_ok s Gh -> kctx K C ->
     mok (osat Gh) (ifor_loop (S n) s D mu C ph p l i body)).
    { intros K ph p body Gh Gtr Gb s D mu C l i Hbt Hbody Hle Hph Hs HK.
      rewrite ifor_loop_S. unfold ifor_loop_body.
      eapply mok_bind with (Q1 := fun _ => True).
      { apply mok_events; auto. apply phi_events_ok. eapply check_phis_hold; eauto. }
      intros _ _ _.
      destruct (store_get mu l) as [vs|]; [|apply mok_fail].
      destruct (nth_error vs i) as [x|]; [|apply mok_ret; exact Hs].
      eapply mok_bind; [eapply bind_top_mok; eauto|]. intros [s1 D1] _ Hs1. cbn [fst] in Hs1.
      eapply mok_bind; [eapply IHb; eauto|].
      intros [o mu1] _ Ho. unfold osat in Ho. cbn [fst] in Ho. destruct o as [s2 D2|v].
      - eapply IHf; eauto. eapply senv_ok_mono; eauto.
      - apply mok_ret. exact I. }
    split; [|split; [|split]]; auto.
    + (* statements *)
      intros G K G' s D mu C st Hc Hs HK.
      destruct st; match goal with |- context [ASWhile] => idtac | _ => rewrite iexec_S; cbn [iexec_body] end.
      * (* assign *) cbn [check_stmt] in Hc. destruct (check_expr R G K e) eqn:He; [|discriminate].
        eapply mok_bind; [eapply ieval_class_sound; eauto|]. intros [v mu1] _ Hv.
        eapply mok_bind; [eapply cbind_sound; eauto|]. intros [s' D'] _ Hs'.
        apply mok_ret. exact Hs'.
      * (* indexed assign *) cbn [check_stmt] in Hc.
        destruct (check_expr R G K e && leq c_top (rep ad)) eqn:He; [|discriminate]. inversion Hc; subst. bsp.
        eapply mok_bind; [eapply ieval_class_sound; eauto|]. intros [v mu1] _ Hv.
        destruct (env_get s x) as [cur|] eqn:Ex; [|apply mok_fail].
        eapply mok_bind with (Q1 := fun _ => True).
        { apply mok_events; auto. repeat constructor. }
        intros mu2 _ _. apply mok_ret. unfold osat. cbn.
        intros y w Hy. destruct (String.eqb_spec x y) as [->|ne].
        -- rewrite cget_cset_same. apply sat_top.
        -- rewrite cget_cset_other by auto. apply Hs; auto.
      * (* if1 *) rewrite check_if1_eq in Hc. destruct (check_expr R G K c) eqn:He; [|discriminate].
        destruct (check_block R (n_ctor N) (crefine G (implied c true)) K body) as [Gb|] eqn:Hb; [|discriminate].
        cbn zeta in Hc. destruct (check_phis _ ph) eqn:Hp; [|discriminate]. inversion Hc; subst.
        eapply mok_bind; [eapply ieval_class_sound; eauto|]. intros [vc mu1] Evc _.
        eapply mok_bind; [apply mok_liftr; intros b E; exact (as_bool_inv _ _ E)|]. intros b _ ->.
        pose proof (implied_sound _ _ _ _ _ _ _ _ Evc) as Hf.
        apply after_phis_ok; auto. destruct b.
        -- eapply mok_weaken; [eapply IHb; eauto; apply senv_ok_crefine; auto|].
           intros [o m] Ho. unfold osat in *. cbn [fst] in *. destruct o; auto. apply senv_ok_cjoin_l; auto.
        -- apply mok_ret. unfold osat. cbn. apply senv_ok_cjoin_r. apply senv_ok_crefine; auto.
      * (* if *) rewrite check_if_eq in Hc. destruct (check_expr R G K c) eqn:He; [|discriminate].
        destruct (check_block R (n_ctor N) (crefine G (implied c true)) K ift) as [Gtr|] eqn:Hb1; [|discriminate].
        destruct (check_block R (n_ctor N) (crefine G (implied c false)) K iff) as [Gfa|] eqn:Hb2; [|discriminate].
        cbn zeta in Hc. destruct (check_phis _ ph) eqn:Hp; [|discriminate]. inversion Hc; subst.
        eapply mok_bind; [eapply ieval_class_sound; eauto|]. intros [vc mu1] Evc _.
        eapply mok_bind; [apply mok_liftr; intros b E; exact (as_bool_inv _ _ E)|]. intros b _ ->.
        pose proof (implied_sound _ _ _ _ _ _ _ _ Evc) as Hf.
        apply after_phis_ok; auto. destruct b.
        -- eapply mok_weaken_eq; [eapply IHb; eauto; apply senv_ok_crefine; auto|].
           intros [o m] Eo Ho. unfold osat in *. cbn [fst] in *. destruct o as [s' D'|rv]; auto.
           destruct (blk_ret ift) eqn:R1.
           { exfalso. exact (blk_always_returns _ _ _ _ _ _ _ _ _ _ _ R1 Eo). }
           destruct (blk_ret iff); [exact Ho | apply senv_ok_cjoin_l; auto].
        -- eapply mok_weaken_eq; [eapply IHb; eauto; apply senv_ok_crefine; auto|].
           intros [o m] Eo Ho. unfold osat in *. cbn [fst] in *. destruct o as [s' D'|rv]; auto.
           destruct (blk_ret ift) eqn:R1; [exact Ho|].
           destruct (blk_ret iff) eqn:R2.
           { exfalso. exact (blk_always_returns _ _ _ _ _ _ _ _ _ _ _ R2 Eo). }
           apply senv_ok_cjoin_r; auto.
      * (* while *) rewrite check_while_eq in Hc. cbn zeta in Hc.
        destruct (cleq G (set_phis G ph) && check_phis (set_phis G ph) ph && check_expr R (set_phis G ph) K c) eqn:H1;
          [|discriminate]. bsp.
        destruct (check_block R (n_ctor N) (crefine (set_phis G ph) (implied c true)) K body) as [Gb|] eqn:Hb; [|discriminate].
        destruct (cleq Gb (set_phis G ph)) eqn:Hle; [|discriminate]. inversion Hc; subst.
        eapply W; eauto. eapply senv_ok_mono; eauto.
      * (* for *) rewrite check_for_eq in Hc. cbn zeta in Hc.
        destruct (check_expr R G K it && cleq G (set_phis G ph) && check_phis (set_phis G ph) ph) eqn:H1;
          [|discriminate]. bsp.
        destruct (bind_top p (set_phis G ph)) as [Gtr|] eqn:Hbt; [|discriminate].
        destruct (check_block R (n_ctor N) Gtr K body) as [Gb|] eqn:Hb; [|discriminate].
        destruct (cleq Gb (set_phis G ph)) eqn:Hle; [|discriminate]. inversion Hc; subst.
        eapply mok_bind; [eapply ieval_class_sound; eauto|]. intros [vi mu1] _ _.
        eapply mok_bind; [apply mok_liftr; intros x E; exact I|]. intros [l vs] _ _.
        eapply IHf; eauto. eapply senv_ok_mono; eauto.
      * (* with *) rewrite check_context_eq in Hc.
        destruct (check_expr R G (Some CReal) e) eqn:He; [|discriminate].
        eapply mok_bind; [eapply ieval_class_sound; eauto; intros c0 E; inversion E; reflexivity|].
        intros [vc mu1] Evc _. destruct vc as [| |C'| | |]; try apply mok_fail.
        assert (HK' : kctx (static_ctx (n_ctor N) e) C').
        { intros k Ek. destruct e; cbn [static_ctx] in Ek; try discriminate.
          - inversion Ek; subst. apply ieval_denotes in Evc. cbn in Evc. inversion Evc; reflexivity.
          - destruct (lit_nums args) as [xs|] eqn:El; [|discriminate].
            destruct (n_ctor N k0 xs) as [c1|] eqn:Ec; inversion Ek; subst.
            destruct n as [|n']; [discriminate|]. rewrite ieval_S in Evc. cbn [ieval_body] in Evc.
            apply snd_mbind_inv in Evc. destruct Evc as ([vs mu2] & Hvs & Evc).
            rewrite (ievals_lits _ _ _ _ _ _ _ _ _ Hvs El) in Evc.
            apply snd_mbind_inv in Evc. destruct Evc as (ys & Hys & Evc). cbn [snd liftr] in Hys.
            rewrite as_nums_map in Hys. inversion Hys; subst ys.
            apply snd_mbind_inv in Evc. destruct Evc as (c2 & Hc2 & Evc). cbn [snd liftr] in Hc2.
            rewrite Ec in Hc2. cbn in Hc2. inversion Hc2; subst c2.
            cbn in Evc. inversion Evc; reflexivity. }
        destruct x as [[a x]|].
        -- destruct (leq c_top (rep a)) eqn:Ea; [|discriminate].
           eapply mok_bind with (Q1 := fun _ => True).
           { apply mok_events; auto. repeat constructor. }
           intros _ _ _. eapply IHb; eauto. apply senv_ok_set; auto.
        -- eapply IHb; eauto.
      * (* assert *) cbn [check_stmt] in Hc. destruct (check_expr R G K e) eqn:He; [|discriminate]. inversion Hc; subst.
        eapply mok_bind; [eapply ieval_class_sound; eauto|]. intros [v mu1] _ _.
        eapply mok_bind; [apply mok_liftr; intros b E; exact I|]. intros b _ _.
        destruct b; [apply mok_ret; exact Hs | apply mok_fail].
      * (* effect *) cbn [check_stmt] in Hc. destruct (check_expr R G K e) eqn:He; [|discriminate]. inversion Hc; subst.
        eapply mok_bind; [eapply ieval_class_sound; eauto|]. intros [v mu1] _ _. apply mok_ret. exact Hs.
      * (* return *) cbn [check_stmt] in Hc. destruct (check_expr R G K e) eqn:He; [|discriminate]. inversion Hc; subst.
        eapply mok_bind; [eapply ieval_class_sound; eauto|]. intros [v mu1] _ _. apply mok_ret. exact I.
      * (* pass *) cbn [check_stmt] in Hc. inversion Hc; subst. apply mok_ret. exact Hs.
    + (* blocks *)
      intros G K G' s D mu C b Hc Hs HK. rewrite iexec_block_S.
      destruct b as [|st r]; cbn [iexec_block_body].
      * cbn in Hc. inversion Hc; subst. apply mok_ret. exact Hs.
      * rewrite check_block_cons in Hc. destruct (check_stmt R (n_ctor N) G K st) as [G1|] eqn:E1; [|discriminate].
        eapply mok_bind; [eapply IHs; eauto|]. intros [o mu1] _ Ho. unfold osat in Ho. cbn [fst] in Ho.
        destruct o as [s' D'|v]; [eapply IHb; eauto | apply mok_ret; exact I].
Qed.

(* ================================================================ the theorem *)
Lemma ibind_params_sound : forall ps vs s D G,
  Forall2 (fun ax v => sat_cls (rep (fst ax)) v = true) ps vs -> senv_ok s G ->
  Forall evok (fst (ibind_params ann ps vs s D)) /\
  (forall s' D', snd (ibind_params ann ps vs s D) = Ok (s', D') ->
     senv_ok s' (fold_left (fun G ax => cset G (snd ax) (rep (fst ax))) ps G)).
Proof.
  induction ps as [|[a x] ps IH]; intros vs s D G H Hs; inversion H; subst; cbn [ibind_params fold_left fst snd].
  - split; [constructor|]. intros s' D' E. inversion E; subst. exact Hs.
  - cbn [fst] in H2.
    specialize (IH l' (env_set s x y) (denv_set ann D x a) (cset G x (rep a)) H4 (senv_ok_set _ _ _ _ _ Hs H2)).
    destruct (ibind_params ann ps l' (env_set s x y) (denv_set ann D x a)) as [t r]. cbn [fst snd] in *.
    destruct IH as [Ht Hr]. split; [|exact Hr]. constructor; [exact H2 | exact Ht].
Qed.

Theorem class_facts_sound_call : forall f, check_class_func R (n_ctor N) f = true ->
  forall n vs mu C,
    Forall2 (fun ax v => sat_cls (rep (fst ax)) v = true) (af_params f) vs ->
    Forall evok (fst (icall ann N P n f vs mu C)).
Proof.
  intros f Hc [|n] vs mu C Hargs; [constructor|].
  unfold check_class_func in Hc.
  destruct (check_block R (n_ctor N) (param_env (af_params f)) (af_ctx f) (af_body f)) as [G'|] eqn:Hb; [|discriminate].
  unfold icall.
  destruct (ibind_params_sound (af_params f) vs [] [] [] Hargs) as [Ht Hr].
  { intros x v E. discriminate. }
  destruct (ibind_params ann (af_params f) vs [] []) as [t r]. cbn [fst snd] in *.
  assert (M1 : mok (fun _ : value * store => True)
    (mbind (t, lift r) (fun '(s, D) =>
       mbind (iexec_block n s D mu (match af_ctx f with Some c => c | None => C end) (af_body f))
         (fun '(o, mu1) => match o with IOReturn v => mret (v, mu1) | IONormal _ _ => mfail OtherErr end)))).
  { eapply mok_bind with (Q1 := fun sd => senv_ok (fst sd) (param_env (af_params f))).
    - apply mok_events; auto. intros [s D] E. destruct r as [[s' D']|e]; inversion E; subst. cbn. eapply Hr. reflexivity.
    - intros [s D] _ Hs. cbn [fst] in Hs.
      eapply mok_bind; [eapply (proj1 (proj2 (stmt_sound_all n))); eauto|].
      + intros c E. rewrite E. reflexivity.
      + intros [o mu1] _ _. destruct o; [apply mok_fail | apply mok_ret; exact I]. }
  exact (proj1 M1).
Qed.

End Sound.
